import LapyVerif.Props.C13
import LapyVerif.Props.C07
import LapyVerif.Props.C03
/-
  C19 — algebra behind `tria_mean_curvature_flow` / `tria_spherical_project`:
  normalisation to unit area and zero centroid (`Measures.normalize`), projection to the sphere of radius 100,
  the eigenfunction sign convention (axis flip), and the implicit flow step.
-/
namespace LapyVerif.Props.C19
open LapyVerif V3

/-! ## 1. `normalize_` -/

/-- the cross-product area `½‖(v2−v1)×(v0−v2)‖` used by `centroid()` -/
noncomputable def areaC (vtx : Nat → V3 ℝ) (τ : Tri) : ℝ :=
  (1 / 2) * Real.sqrt (normSq (cross (vtx τ.2.2 - vtx τ.2.1) (vtx τ.1 - vtx τ.2.2)))

noncomputable def totalC (vtx : Nat → V3 ℝ) (ts : List Tri) : ℝ := (ts.map (areaC vtx)).sum

theorem areaC_def (vtx : Nat → V3 ℝ) : areaC vtx = fun τ =>
    (1 / 2) * Real.sqrt (normSq (cross (vtx τ.2.2 - vtx τ.2.1) (vtx τ.1 - vtx τ.2.2))) := rfl

theorem areaC_eq_triArea (vtx : Nat → V3 ℝ) (τ : Tri) :
    areaC vtx τ = Spec.triArea (vtx τ.1) (vtx τ.2.1) (vtx τ.2.2) := by
  have : cross (vtx τ.2.2 - vtx τ.2.1) (vtx τ.1 - vtx τ.2.2) = Spec.triN (vtx τ.1) (vtx τ.2.1) (vtx τ.2.2) :=
    FemTri.triCr_eq_triN _ _ _
  rw [areaC, this, Spec.triArea]; ring

theorem foldl_add_x (l : List (V3 ℝ)) (z : V3 ℝ) : (l.foldl (· + ·) z).x = z.x + (l.map (·.x)).sum := by
  induction l generalizing z with
  | nil => simp
  | cons a t ih => simp only [List.foldl_cons, ih, List.map_cons, List.sum_cons, add_x]; ring
theorem foldl_add_y (l : List (V3 ℝ)) (z : V3 ℝ) : (l.foldl (· + ·) z).y = z.y + (l.map (·.y)).sum := by
  induction l generalizing z with
  | nil => simp
  | cons a t ih => simp only [List.foldl_cons, ih, List.map_cons, List.sum_cons, add_y]; ring
theorem foldl_add_z (l : List (V3 ℝ)) (z : V3 ℝ) : (l.foldl (· + ·) z).z = z.z + (l.map (·.z)).sum := by
  induction l generalizing z with
  | nil => simp
  | cons a t ih => simp only [List.foldl_cons, ih, List.map_cons, List.sum_cons, add_z]; ring

/-- the total area returned by `centroid()` -/
theorem centroid_snd (vtx : Nat → V3 ℝ) (ts : List Tri) : (Measures.centroid vtx ts).2 = totalC vtx ts := by
  simp only [Measures.centroid, totalC, areaC_def, Measures.c, sqrt_real]
  push_cast
  rfl

/-- it is the `area()` of the mesh (sum of the Heron areas) -/
theorem centroid_snd_eq_area (vtx : Nat → V3 ℝ) (ts : List Tri) : (Measures.centroid vtx ts).2 = Measures.area vtx ts := by
  rw [centroid_snd, C13.area_eq_sum, totalC]
  congr 1
  exact List.map_congr_left fun τ _ => areaC_eq_triArea vtx τ

/-- per-triangle summand of one coordinate of the centroid -/
noncomputable def cTerm (vtx : Nat → V3 ℝ) (ts : List Tri) (co : V3 ℝ → ℝ) (τ : Tri) : ℝ :=
  areaC vtx τ / totalC vtx ts * (1 / 3 * (co (vtx τ.1) + co (vtx τ.2.1) + co (vtx τ.2.2)))

/-- the centroid is the area-weighted mean of the triangle centres, coordinate by coordinate -/
theorem centroid_fst (vtx : Nat → V3 ℝ) (ts : List Tri) :
    (Measures.centroid vtx ts).1.x = (ts.map (cTerm vtx ts (·.x))).sum ∧
    (Measures.centroid vtx ts).1.y = (ts.map (cTerm vtx ts (·.y))).sum ∧
    (Measures.centroid vtx ts).1.z = (ts.map (cTerm vtx ts (·.z))).sum := by
  simp only [Measures.centroid, zip_map_self]
  refine ⟨?_, ?_, ?_⟩
  · rw [foldl_add_x, List.map_map]
    simp only [zero_add]
    congr 1
    apply List.map_congr_left
    intro τ _
    simp only [Function.comp, cTerm, totalC, areaC_def, Measures.c, sqrt_real, smul_x, add_x]
    push_cast
    ring
  · rw [foldl_add_y, List.map_map]
    simp only [zero_add]
    congr 1
    apply List.map_congr_left
    intro τ _
    simp only [Function.comp, cTerm, totalC, areaC_def, Measures.c, sqrt_real, smul_y, add_y]
    push_cast
    ring
  · rw [foldl_add_z, List.map_map]
    simp only [zero_add]
    congr 1
    apply List.map_congr_left
    intro τ _
    simp only [Function.comp, cTerm, totalC, areaC_def, Measures.c, sqrt_real, smul_z, add_z]
    push_cast
    ring

/-- `v ↦ s·(v − c)` is a similarity with factor `s` -/
theorem shrink_isSimilarity (s : ℝ) (c : V3 ℝ) : IsSimilarity s (fun v => smul s (v - c)) := by
  intro a b c' d; v3_flat; ring

theorem areaC_affine (s : ℝ) (c0 : V3 ℝ) (vtx : Nat → V3 ℝ) (τ : Tri) :
    areaC (fun i => smul s (vtx i - c0)) τ = s * s * areaC vtx τ := by
  rw [areaC_eq_triArea, areaC_eq_triArea]
  exact C13.triArea_similarity (shrink_isSimilarity s c0) _ _ _

theorem sum_map_mul_left {α : Type} (l : List α) (c : ℝ) (g : α → ℝ) : (l.map fun a => c * g a).sum = c * (l.map g).sum := by
  induction l with
  | nil => simp
  | cons a t ih => simp only [List.map_cons, List.sum_cons, ih]; ring

theorem sum_map_div {α : Type} (l : List α) (t : ℝ) (g : α → ℝ) : (l.map fun a => g a / t).sum = (l.map g).sum / t := by
  induction l with
  | nil => simp
  | cons a r ih => simp only [List.map_cons, List.sum_cons, ih]; ring

theorem sum_map_affine {α : Type} (l : List α) (s cx : ℝ) (w β : α → ℝ) :
    (l.map fun a => w a * (s * (β a - cx))).sum = s * ((l.map fun a => w a * β a).sum - cx * (l.map w).sum) := by
  induction l with
  | nil => simp
  | cons a r ih => simp only [List.map_cons, List.sum_cons, ih]; ring

theorem totalC_affine (s : ℝ) (c0 : V3 ℝ) (vtx : Nat → V3 ℝ) (ts : List Tri) :
    totalC (fun i => smul s (vtx i - c0)) ts = s * s * totalC vtx ts := by
  unfold totalC
  rw [← sum_map_mul_left]
  congr 1
  exact List.map_congr_left fun τ _ => areaC_affine s c0 vtx τ

/-- one coordinate of the centroid of the transformed mesh -/
theorem cTerm_sum_affine (s : ℝ) (hs : s ≠ 0) (c0 : V3 ℝ) (vtx : Nat → V3 ℝ) (ts : List Tri) (ht : totalC vtx ts ≠ 0)
    (co : V3 ℝ → ℝ) (hco : ∀ v, co (smul s (v - c0)) = s * (co v - co c0)) :
    (ts.map (cTerm (fun i => smul s (vtx i - c0)) ts co)).sum = s * ((ts.map (cTerm vtx ts co)).sum - co c0) := by
  have hss : s * s ≠ 0 := mul_ne_zero hs hs
  have h1 : ∀ τ, cTerm (fun i => smul s (vtx i - c0)) ts co τ
      = (areaC vtx τ / totalC vtx ts) * (s * ((1 / 3 * (co (vtx τ.1) + co (vtx τ.2.1) + co (vtx τ.2.2))) - co c0)) := by
    intro τ
    simp only [cTerm, areaC_affine, totalC_affine, hco]
    rw [mul_div_mul_left _ _ hss]
    ring
  have hw : (ts.map fun τ => areaC vtx τ / totalC vtx ts).sum = 1 := by
    rw [sum_map_div]; exact div_self ht
  calc (ts.map (cTerm (fun i => smul s (vtx i - c0)) ts co)).sum
      = (ts.map fun τ => (areaC vtx τ / totalC vtx ts) *
          (s * ((1 / 3 * (co (vtx τ.1) + co (vtx τ.2.1) + co (vtx τ.2.2))) - co c0))).sum := by
        congr 1; exact List.map_congr_left fun τ _ => h1 τ
    _ = s * ((ts.map fun τ => (areaC vtx τ / totalC vtx ts) *
          (1 / 3 * (co (vtx τ.1) + co (vtx τ.2.1) + co (vtx τ.2.2)))).sum - co c0 * 1) := by
        rw [sum_map_affine, hw]
    _ = _ := by rw [mul_one]; rfl

/-- **the centroid is equivariant, the area scales with `s²`** under `v ↦ s·(v − c₀)`, `s ≠ 0`, total area `≠ 0` -/
theorem centroid_affine (s : ℝ) (hs : s ≠ 0) (c0 : V3 ℝ) (vtx : Nat → V3 ℝ) (ts : List Tri)
    (ht : (Measures.centroid vtx ts).2 ≠ 0) :
    (Measures.centroid (fun i => smul s (vtx i - c0)) ts).1 = smul s ((Measures.centroid vtx ts).1 - c0) ∧
    (Measures.centroid (fun i => smul s (vtx i - c0)) ts).2 = s * s * (Measures.centroid vtx ts).2 := by
  rw [centroid_snd] at ht
  obtain ⟨hx, hy, hz⟩ := centroid_fst vtx ts
  obtain ⟨hx', hy', hz'⟩ := centroid_fst (fun i => smul s (vtx i - c0)) ts
  refine ⟨?_, by rw [centroid_snd, centroid_snd, totalC_affine]⟩
  apply V3.ext'
  · rw [hx', cTerm_sum_affine s hs c0 vtx ts ht (·.x) (fun v => by simp), smul_x, sub_x, hx]
  · rw [hy', cTerm_sum_affine s hs c0 vtx ts ht (·.y) (fun v => by simp), smul_y, sub_y, hy]
  · rw [hz', cTerm_sum_affine s hs c0 vtx ts ht (·.z) (fun v => by simp), smul_z, sub_z, hz]

/-- **`normalize_`**: if the total area `A` is positive, every vertex goes to `(1/√A)(v − c)`; the new mesh has total area 1
    (also as `area()`) and centroid 0 -/
theorem normalize_spec (verts : List (V3 ℝ)) (vtx : Nat → V3 ℝ) (ts : List Tri) (hA : 0 < (Measures.centroid vtx ts).2) :
    let c := (Measures.centroid vtx ts).1
    let A := (Measures.centroid vtx ts).2
    Measures.normalize verts vtx ts = verts.map (fun v => smul (1 / Real.sqrt A) (v - c)) ∧
    (Measures.centroid (fun i => smul (1 / Real.sqrt A) (vtx i - c)) ts).2 = 1 ∧
    Measures.area (fun i => smul (1 / Real.sqrt A) (vtx i - c)) ts = 1 ∧
    (Measures.centroid (fun i => smul (1 / Real.sqrt A) (vtx i - c)) ts).1 = ⟨0, 0, 0⟩ := by
  intro c A
  have hsq : 0 < Real.sqrt A := Real.sqrt_pos.mpr hA
  have hs : (1 / Real.sqrt A) ≠ 0 := by positivity
  have hss : Real.sqrt A * Real.sqrt A = A := Real.mul_self_sqrt hA.le
  obtain ⟨h1, h2⟩ := centroid_affine (1 / Real.sqrt A) hs c vtx ts hA.ne'
  have harea : (Measures.centroid (fun i => smul (1 / Real.sqrt A) (vtx i - c)) ts).2 = 1 := by
    rw [h2]
    show 1 / Real.sqrt A * (1 / Real.sqrt A) * A = 1
    nth_rewrite 3 [← hss]
    field_simp
  refine ⟨?_, harea, ?_, ?_⟩
  · simp only [Measures.normalize, Measures.c, sqrt_real]
    push_cast
    rfl
  · rw [← centroid_snd_eq_area, harea]
  · rw [h1]
    apply V3.ext' <;> simp [c]

/-! ## 2. projection to the sphere -/

/-- **every projected vertex lies at distance 100 from the origin** -/
theorem project_radius (v : V3 ℝ) (hv : normSq v ≠ 0) :
    normSq (smul (100 / Real.sqrt (normSq v)) v) = 100 * 100 := by
  have hpos : 0 < normSq v := lt_of_le_of_ne (C03.dot_self_nonneg v) (Ne.symm hv)
  have hs : Real.sqrt (normSq v) ≠ 0 := (Real.sqrt_pos.mpr hpos).ne'
  have hss := Real.mul_self_sqrt hpos.le
  have : normSq (smul (100 / Real.sqrt (normSq v)) v)
      = (100 / Real.sqrt (normSq v)) * (100 / Real.sqrt (normSq v)) * normSq v := by v3_flat; ring
  rw [this]
  nth_rewrite 3 [← hss]
  field_simp

theorem project_radius_norm (v : V3 ℝ) (hv : normSq v ≠ 0) :
    Real.sqrt (normSq (smul (100 / Real.sqrt (normSq v)) v)) = 100 := by
  rw [project_radius v hv, Real.sqrt_mul_self (by norm_num)]

/-! ## 3. the sign convention of the eigenfunctions (axis flip) -/

/-- maximum / minimum of a list (of an empty list: 0) -/
noncomputable def lmax (e : List ℝ) : ℝ := e.foldr max (e.headD 0)
noncomputable def lmin (e : List ℝ) : ℝ := e.foldr min (e.headD 0)

noncomputable def mean (l : List ℝ) : ℝ := l.sum / (l.length : ℝ)

/-- mean position of the vertices where the eigenfunction exceeds half its maximum / is below half its minimum -/
noncomputable def hiMean (e p : List ℝ) : ℝ :=
  mean (((e.zip p).filter fun q => decide (q.1 > lmax e / 2)).map (·.2))
noncomputable def loMean (e p : List ℝ) : ℝ :=
  mean (((e.zip p).filter fun q => decide (q.1 < lmin e / 2)).map (·.2))

theorem foldr_max_neg (l : List ℝ) (z : ℝ) : (l.map Neg.neg).foldr max (-z) = - l.foldr min z := by
  induction l with
  | nil => rfl
  | cons a t ih => simp only [List.map_cons, List.foldr_cons, ih, max_neg_neg]

theorem foldr_min_neg (l : List ℝ) (z : ℝ) : (l.map Neg.neg).foldr min (-z) = - l.foldr max z := by
  induction l with
  | nil => rfl
  | cons a t ih => simp only [List.map_cons, List.foldr_cons, ih, min_neg_neg]

theorem headD_neg (l : List ℝ) : (l.map Neg.neg).headD 0 = - l.headD 0 := by
  cases l <;> simp

/-- `max(−e) = −min e`, `min(−e) = −max e` -/
theorem lmax_neg (e : List ℝ) : lmax (e.map Neg.neg) = - lmin e := by
  rw [lmax, lmin, headD_neg, foldr_max_neg]
theorem lmin_neg (e : List ℝ) : lmin (e.map Neg.neg) = - lmax e := by
  rw [lmax, lmin, headD_neg, foldr_min_neg]

/-- **negating the eigenfunction swaps the two vertex sets** -/
theorem hiSet_neg (e p : List ℝ) :
    ((e.map Neg.neg).zip p).filter (fun q => decide (q.1 > lmax (e.map Neg.neg) / 2))
      = ((e.zip p).filter fun q => decide (q.1 < lmin e / 2)).map fun q => (-q.1, q.2) := by
  rw [List.zip_map_left, List.filter_map, lmax_neg]
  congr 1
  apply List.filter_congr
  intro q _
  simp only [Function.comp, Prod.map_fst, gt_iff_lt, decide_eq_decide]
  constructor <;> intro h <;> linarith

theorem loSet_neg (e p : List ℝ) :
    ((e.map Neg.neg).zip p).filter (fun q => decide (q.1 < lmin (e.map Neg.neg) / 2))
      = ((e.zip p).filter fun q => decide (q.1 > lmax e / 2)).map fun q => (-q.1, q.2) := by
  rw [List.zip_map_left, List.filter_map, lmin_neg]
  congr 1
  apply List.filter_congr
  intro q _
  simp only [Function.comp, Prod.map_fst, gt_iff_lt, decide_eq_decide]
  constructor <;> intro h <;> linarith

/-- hence it swaps `cmax` and `cmin` -/
theorem hiMean_neg (e p : List ℝ) : hiMean (e.map Neg.neg) p = loMean e p := by
  unfold hiMean loMean; rw [hiSet_neg, List.map_map]; rfl
theorem loMean_neg (e p : List ℝ) : loMean (e.map Neg.neg) p = hiMean e p := by
  unfold hiMean loMean; rw [loSet_neg, List.map_map]; rfl

/-- the conditional flip `if cmax < cmin: e = −e` -/
noncomputable def axisFlip (e p : List ℝ) : List ℝ := if hiMean e p < loMean e p then e.map Neg.neg else e

/-- **after the flip the eigenfunction increases along the axis**: `cmax' − cmin' ≥ 0` -/
theorem axis_flip (e p : List ℝ) : 0 ≤ hiMean (axisFlip e p) p - loMean (axisFlip e p) p := by
  unfold axisFlip
  split_ifs with h
  · rw [hiMean_neg, loMean_neg]; linarith
  · linarith [not_lt.mp h]

/-- the flip is idempotent -/
theorem axis_flip_idem (e p : List ℝ) : axisFlip (axisFlip e p) p = axisFlip e p := by
  by_cases h : hiMean e p < loMean e p
  · have h1 : axisFlip e p = e.map Neg.neg := if_pos h
    rw [h1]; unfold axisFlip
    rw [hiMean_neg, loMean_neg, if_neg (by linarith)]
  · have h1 : axisFlip e p = e := if_neg h
    rw [h1, h1]

/-! ## 4. the implicit flow step `(M + step·A₀) V' = M V` -/

/-- **a coordinate function annihilated by `A₀` is a fixed point of the step** (e.g. constants, C01) -/
theorem flow_step_fixed (step : ℝ) (A0 M : Coo ℝ) (V : Nat → ℝ) (h0 : ∀ i, Coo.mulVec A0 V i = 0) :
    ∀ i, Coo.mulVec (Heat.heatMat step A0 M) V i = Coo.mulVec M V i := by
  intro i
  rw [Heat.heatMat, Coo.mulVec_append, C03.mulVec_scale, h0 i]; ring

/-- **`M + step·A₀` is positive definite** for `M > 0` (on vectors not vanishing on `range n`), `A₀ ≥ 0`, `step ≥ 0` -/
theorem flow_mass_pd (step : ℝ) (A0 M : Coo ℝ) (n : Nat) (hA : ∀ f, 0 ≤ Coo.form A0 f f)
    (hM : ∀ f : Nat → ℝ, (∃ i < n, f i ≠ 0) → 0 < Coo.form M f f) (hstep : 0 ≤ step)
    (f : Nat → ℝ) (hf : ∃ i < n, f i ≠ 0) : 0 < Coo.form (Heat.heatMat step A0 M) f f := by
  rw [C07.form_heatMat]
  have := hA f; have := hM f hf
  nlinarith [mul_nonneg hstep (hA f)]

/-- hence the step has at most one solution (on `range n`) -/
theorem flow_step_unique (step : ℝ) (A0 M : Coo ℝ) (n : Nat) (hA : ∀ f, 0 ≤ Coo.form A0 f f)
    (hM : ∀ f : Nat → ℝ, (∃ i < n, f i ≠ 0) → 0 < Coo.form M f f) (hstep : 0 ≤ step)
    (y z b : Nat → ℝ) (hy : ∀ i, Coo.mulVec (Heat.heatMat step A0 M) y i = b i)
    (hz : ∀ i, Coo.mulVec (Heat.heatMat step A0 M) z i = b i) : ∀ i < n, y i = z i := by
  have hsub : ∀ (m : Coo ℝ) (i : Nat), Coo.mulVec m (fun k => y k - z k) i = Coo.mulVec m y i - Coo.mulVec m z i := by
    intro m i
    induction m with
    | nil => simp [Coo.mulVec]
    | cons e m ih =>
      rw [C03.mulVec_cons, C03.mulVec_cons, C03.mulVec_cons, ih]
      by_cases h : e.1.1 = i <;> simp [h]; ring
  by_contra hne
  push Not at hne
  obtain ⟨i, hi, hyz⟩ := hne
  have hd : ∃ i < n, (fun k => y k - z k) i ≠ 0 := ⟨i, hi, sub_ne_zero.mpr hyz⟩
  have hpos := flow_mass_pd step A0 M n hA hM hstep _ hd
  have hz0 : Coo.form (Heat.heatMat step A0 M) (fun k => y k - z k) (fun k => y k - z k) = 0 :=
    C03.energy_zero_of_rows _ _ (fun i => by rw [hsub, hy, hz, sub_self])
  linarith

/-- a diagonal matrix with positive diagonal (the lumped mass matrix) is positive definite on `range n` -/
theorem diag_pd (n : Nat) (d : Nat → ℝ) (hd : ∀ i < n, 0 < d i) (f : Nat → ℝ) (hf : ∃ i < n, f i ≠ 0) :
    0 < Coo.form ((List.range n).map fun i => ((i, i), d i)) f f := by
  have hform : ∀ l : List Nat, Coo.form (l.map fun i => ((i, i), d i)) f f = (l.map fun i => f i * d i * f i).sum := by
    intro l
    induction l with
    | nil => rfl
    | cons a t ih => rw [List.map_cons, Coo.form_cons, ih]; simp
  rw [hform]
  obtain ⟨i, hi, hne⟩ := hf
  have hnn : ∀ x ∈ (List.range n).map (fun i => f i * d i * f i), 0 ≤ x := by
    intro x hx
    obtain ⟨j, hj, rfl⟩ := List.mem_map.mp hx
    have := (hd j (List.mem_range.mp hj)).le
    nlinarith [mul_self_nonneg (f j)]
  have hmem : f i * d i * f i ∈ (List.range n).map (fun i => f i * d i * f i) :=
    List.mem_map.mpr ⟨i, List.mem_range.mpr hi, rfl⟩
  have hle := List.single_le_sum hnn _ hmem
  have hp : 0 < f i * d i * f i := by
    have := hd i hi
    have := mul_self_pos.mpr hne
    nlinarith
  linarith

/-! ## non-vacuity -/

section Examples

/-- a mesh of positive area: the unit right triangle -/
noncomputable def vtxT : Nat → V3 ℝ := vtx3 ⟨0, 0, 0⟩ ⟨1, 0, 0⟩ ⟨0, 1, 0⟩

theorem ex_area : (Measures.centroid vtxT [(0, 1, 2)]).2 = 1 / 2 := by
  rw [centroid_snd]
  simp only [totalC, List.map_cons, List.map_nil, List.sum_cons, List.sum_nil, areaC, vtxT, vtx3]
  have : normSq (cross ((⟨0, 1, 0⟩ : V3 ℝ) - ⟨1, 0, 0⟩) (⟨0, 0, 0⟩ - ⟨0, 1, 0⟩)) = 1 := by v3_flat; norm_num
  rw [this, Real.sqrt_one]; norm_num

/-- the hypothesis `0 < A` of `normalize_spec` holds, so the normalised triangle has area 1 and centroid 0 -/
example : Measures.area (fun i => smul (1 / Real.sqrt (Measures.centroid vtxT [(0, 1, 2)]).2)
      (vtxT i - (Measures.centroid vtxT [(0, 1, 2)]).1)) [(0, 1, 2)] = 1 :=
  (normalize_spec [] vtxT [(0, 1, 2)] (by rw [ex_area]; norm_num)).2.2.1

example : normSq (smul (100 / Real.sqrt (normSq (⟨3, 4, 0⟩ : V3 ℝ))) ⟨3, 4, 0⟩) = 100 * 100 :=
  project_radius _ (by v3_flat; norm_num)

/-- an eigenfunction that decreases along the axis gets flipped -/
example : axisFlip [1, -1] [0, 5] = [-1, 1] := by
  have h1 : hiMean [1, -1] [0, 5] = 0 := by norm_num [hiMean, lmax, mean, List.filter_cons]
  have h2 : loMean [1, -1] [0, 5] = 5 := by norm_num [loMean, lmin, mean, List.filter_cons]
  simp [axisFlip, h1, h2]

example : lmax [1, -3, 2] = 2 ∧ lmin [1, -3, 2] = -3 := by
  constructor <;> simp [lmax, lmin] <;> norm_num

/-- the lumped mass matrix `diag(1,2)` and the path Laplacian: all hypotheses of `flow_mass_pd` hold -/
example (f : Nat → ℝ) (hf : ∃ i < 2, f i ≠ 0) :
    0 < Coo.form (Heat.heatMat 0.5 C03.exA ((List.range 2).map fun i => ((i, i), (i : ℝ) + 1))) f f :=
  flow_mass_pd 0.5 C03.exA _ 2 C03.exA_psd (fun f hf => diag_pd 2 _ (fun i _ => by positivity) f hf) (by norm_num) f hf

/-- constants are fixed by the step -/
example (i : Nat) : Coo.mulVec (Heat.heatMat 0.5 C03.exA C03.exB) C03.exY i = Coo.mulVec C03.exB C03.exY i :=
  flow_step_fixed 0.5 C03.exA C03.exB C03.exY (fun i => by simpa using C03.exY_eig i) i

end Examples

end LapyVerif.Props.C19
