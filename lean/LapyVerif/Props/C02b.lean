import Mathlib.Analysis.SpecialFunctions.Integrals.Basic
import LapyVerif.Props.C02
/-
  C02b — the barycentric moment formula adopted in C02 as the definition of `∫_τ x_h y_h` IS the integral:
  iterated interval integrals (Mathlib) over the reference simplex, in the barycentric parametrisation
  `(u, v) ↦ v0 + u (v1 − v0) + v (v2 − v0)` (Jacobian `2·area`), resp. `(u, v, w)` with Jacobian `6·vol`.
-/
namespace LapyVerif.Props.C02
open LapyVerif intervalIntegral MeasureTheory

/-! ### integrals of polynomials of low degree -/

theorem integral_cubic (a b c0 c1 c2 c3 : ℝ) :
    ∫ v in a..b, (c0 + c1 * v + c2 * v ^ 2 + c3 * v ^ 3)
      = c0 * (b - a) + c1 * ((b ^ 2 - a ^ 2) / 2) + c2 * ((b ^ 3 - a ^ 3) / 3) + c3 * ((b ^ 4 - a ^ 4) / 4) := by
  have h0 : IntervalIntegrable (fun _ : ℝ => c0) volume a b := intervalIntegrable_const
  have h1 : IntervalIntegrable (fun v : ℝ => c1 * v) volume a b :=
    (continuous_const.mul continuous_id).intervalIntegrable a b
  have h2 : IntervalIntegrable (fun v : ℝ => c2 * v ^ 2) volume a b :=
    (continuous_const.mul (continuous_id.pow 2)).intervalIntegrable a b
  have h3 : IntervalIntegrable (fun v : ℝ => c3 * v ^ 3) volume a b :=
    (continuous_const.mul (continuous_id.pow 3)).intervalIntegrable a b
  rw [integral_add ((h0.add h1).add h2) h3, integral_add (h0.add h1) h2, integral_add h0 h1,
    intervalIntegral.integral_const, intervalIntegral.integral_const_mul, intervalIntegral.integral_const_mul, intervalIntegral.integral_const_mul, integral_id,
    integral_pow, integral_pow]
  simp only [smul_eq_mul]; norm_num; ring

theorem integral_quadratic (a b c0 c1 c2 : ℝ) :
    ∫ v in a..b, (c0 + c1 * v + c2 * v ^ 2) = c0 * (b - a) + c1 * ((b ^ 2 - a ^ 2) / 2) + c2 * ((b ^ 3 - a ^ 3) / 3) := by
  have := integral_cubic a b c0 c1 c2 0
  simpa using this

theorem integral_quartic (a b c0 c1 c2 c3 c4 : ℝ) :
    ∫ v in a..b, (c0 + c1 * v + c2 * v ^ 2 + c3 * v ^ 3 + c4 * v ^ 4)
      = c0 * (b - a) + c1 * ((b ^ 2 - a ^ 2) / 2) + c2 * ((b ^ 3 - a ^ 3) / 3) + c3 * ((b ^ 4 - a ^ 4) / 4)
        + c4 * ((b ^ 5 - a ^ 5) / 5) := by
  have hc : IntervalIntegrable (fun v : ℝ => c0 + c1 * v + c2 * v ^ 2 + c3 * v ^ 3) volume a b := by
    apply Continuous.intervalIntegrable; fun_prop
  have h4 : IntervalIntegrable (fun v : ℝ => c4 * v ^ 4) volume a b :=
    (continuous_const.mul (continuous_id.pow 4)).intervalIntegrable a b
  rw [integral_add hc h4, integral_cubic, intervalIntegral.integral_const_mul, integral_pow]
  norm_num

/-- cubic in the Bernstein basis on `[0,1]` -/
theorem integral_bernstein3 (α β γ δ : ℝ) :
    ∫ u in (0 : ℝ)..1, (α * (1 - u) ^ 3 + β * u ^ 2 * (1 - u) + γ * u * (1 - u) ^ 2 + δ * u ^ 3)
      = α / 4 + β / 12 + γ / 12 + δ / 4 := by
  have : (fun u : ℝ => α * (1 - u) ^ 3 + β * u ^ 2 * (1 - u) + γ * u * (1 - u) ^ 2 + δ * u ^ 3)
      = fun u => α + (-3 * α + γ) * u + (3 * α + β - 2 * γ) * u ^ 2 + (-α - β + γ + δ) * u ^ 3 := by
    funext u; ring
  rw [this, integral_cubic]; ring

/-! ### triangles -/

/-- inner integral of a product of two affine functions of the barycentric coordinates -/
theorem tri_inner (x0 x1 x2 y0 y1 y2 u : ℝ) :
    ∫ v in (0 : ℝ)..(1 - u), (x0 * (1 - u - v) + x1 * u + x2 * v) * (y0 * (1 - u - v) + y1 * u + y2 * v)
      = ((x0 * y0 + x2 * y2) / 3 + (x0 * y2 + x2 * y0) / 6) * (1 - u) ^ 3 + (x1 * y1) * u ^ 2 * (1 - u)
        + ((x0 * y1 + x1 * y0) / 2 + (x1 * y2 + x2 * y1) / 2) * u * (1 - u) ^ 2 + 0 * u ^ 3 := by
  have : (fun v : ℝ => (x0 * (1 - u - v) + x1 * u + x2 * v) * (y0 * (1 - u - v) + y1 * u + y2 * v))
      = fun v => (x0 * (1 - u) + x1 * u) * (y0 * (1 - u) + y1 * u)
          + ((x0 * (1 - u) + x1 * u) * (y2 - y0) + (x2 - x0) * (y0 * (1 - u) + y1 * u)) * v
          + ((x2 - x0) * (y2 - y0)) * v ^ 2 := by
    funext v; ring
  rw [this, integral_quadratic]; ring

/-- **`∫_τ x_h y_h` in barycentric coordinates** for the affine functions with corner values `x`, `y`, per unit Jacobian -/
theorem tri_double_integral (x0 x1 x2 y0 y1 y2 : ℝ) :
    ∫ u in (0 : ℝ)..1, ∫ v in (0 : ℝ)..(1 - u),
        (x0 * (1 - u - v) + x1 * u + x2 * v) * (y0 * (1 - u - v) + y1 * u + y2 * v)
      = (x0 * y0 + x1 * y1 + x2 * y2) / 12 + (x0 * y1 + x1 * y0 + x1 * y2 + x2 * y1 + x2 * y0 + x0 * y2) / 24 := by
  simp only [tri_inner]
  rw [integral_bernstein3]; ring

/-- **moments of the barycentric coordinates on the reference triangle**: squares `1/12`, mixed products `1/24`
    (times the Jacobian `2|τ|`: `|τ|/6` and `|τ|/12`) -/
theorem tri_moments :
    (∫ u in (0 : ℝ)..1, ∫ v in (0 : ℝ)..(1 - u), (1 - u - v) ^ 2) = 1 / 12 ∧
    (∫ u in (0 : ℝ)..1, ∫ _v in (0 : ℝ)..(1 - u), u ^ 2) = 1 / 12 ∧
    (∫ u in (0 : ℝ)..1, ∫ v in (0 : ℝ)..(1 - u), v ^ 2) = 1 / 12 ∧
    (∫ u in (0 : ℝ)..1, ∫ v in (0 : ℝ)..(1 - u), (1 - u - v) * u) = 1 / 24 ∧
    (∫ u in (0 : ℝ)..1, ∫ v in (0 : ℝ)..(1 - u), (1 - u - v) * v) = 1 / 24 ∧
    (∫ u in (0 : ℝ)..1, ∫ v in (0 : ℝ)..(1 - u), u * v) = 1 / 24 := by
  have key := tri_double_integral
  refine ⟨?_, ?_, ?_, ?_, ?_, ?_⟩
  · have := key 1 0 0 1 0 0; simpa [sq] using this
  · have := key 0 1 0 0 1 0; simpa [sq] using this
  · have := key 0 0 1 0 0 1; simpa [sq] using this
  · have := key 1 0 0 0 1 0; simpa using this
  · have := key 1 0 0 0 0 1; simpa using this
  · have := key 0 1 0 0 0 1; simpa using this

/-- area of the reference triangle: `∫∫ 1 = 1/2`, so the Jacobian `2|τ|` gives `∫_τ 1 = |τ|` -/
theorem tri_measure : (∫ u in (0 : ℝ)..1, ∫ _v in (0 : ℝ)..(1 - u), (1 : ℝ)) = 1 / 2 := by
  have := tri_double_integral 1 1 1 1 1 1
  have e : ∀ u v : ℝ, (1 * (1 - u - v) + 1 * u + 1 * v) * (1 * (1 - u - v) + 1 * u + 1 * v) = 1 := by intro u v; ring
  simp only [e] at this
  rw [this]; norm_num

/-- **the moment formula of C02 is the integral** of the product of the two linear interpolants over the triangle,
    `∫_τ q = 2|τ| ∫₀¹∫₀^{1−u} q(v0 + u(v1−v0) + v(v2−v0)) dv du` -/
theorem triL2_eq_integral (a x0 x1 x2 y0 y1 y2 : ℝ) :
    Spec.triL2 a x0 x1 x2 y0 y1 y2 =
      2 * a * ∫ u in (0 : ℝ)..1, ∫ v in (0 : ℝ)..(1 - u),
        (x0 * (1 - u - v) + x1 * u + x2 * v) * (y0 * (1 - u - v) + y1 * u + y2 * v) := by
  rw [tri_double_integral, Spec.triL2]; ring

/-- **x·B·y = Σ_τ ∫_τ x_h y_h** with the integral an honest (iterated interval) integral -/
theorem mass_form_integral (vtx : Nat → V3 ℝ) (ts : List Tri) (h : NonDegenTri vtx ts) (x y : Nat → ℝ) :
    Coo.form (Fem.massTria false vtx ts) x y =
      (ts.map fun τ => 2 * Spec.triArea (vtx τ.1) (vtx τ.2.1) (vtx τ.2.2) *
        ∫ u in (0 : ℝ)..1, ∫ v in (0 : ℝ)..(1 - u),
          (x τ.1 * (1 - u - v) + x τ.2.1 * u + x τ.2.2 * v) * (y τ.1 * (1 - u - v) + y τ.2.1 * u + y τ.2.2 * v)).sum := by
  rw [mass_form vtx ts h]
  congr 1
  apply List.map_congr_left
  intro τ _
  exact triL2_eq_integral _ _ _ _ _ _ _

/-! ### tetrahedra -/

/-- polynomials of degree `≤ 3` in the Bernstein-type basis `(c−v)^p v^q` on `[0, c]`: `∫ = c^{p+q+1} p! q!/(p+q+1)!` -/
theorem integral_simplex_mid (c k30 k21 k12 k03 k20 k11 k02 k10 k01 k00 : ℝ) :
    ∫ v in (0 : ℝ)..c, (k30 * (c - v) ^ 3 + k21 * (c - v) ^ 2 * v + k12 * (c - v) * v ^ 2 + k03 * v ^ 3
        + k20 * (c - v) ^ 2 + k11 * (c - v) * v + k02 * v ^ 2 + k10 * (c - v) + k01 * v + k00)
      = k30 * c ^ 4 / 4 + k21 * c ^ 4 / 12 + k12 * c ^ 4 / 12 + k03 * c ^ 4 / 4
        + k20 * c ^ 3 / 3 + k11 * c ^ 3 / 6 + k02 * c ^ 3 / 3 + k10 * c ^ 2 / 2 + k01 * c ^ 2 / 2 + k00 * c := by
  have : (fun v : ℝ => k30 * (c - v) ^ 3 + k21 * (c - v) ^ 2 * v + k12 * (c - v) * v ^ 2 + k03 * v ^ 3
        + k20 * (c - v) ^ 2 + k11 * (c - v) * v + k02 * v ^ 2 + k10 * (c - v) + k01 * v + k00)
      = fun v => (k30 * c ^ 3 + k20 * c ^ 2 + k10 * c + k00)
          + (-3 * k30 * c ^ 2 + k21 * c ^ 2 - 2 * k20 * c + k11 * c - k10 + k01) * v
          + (3 * k30 * c - 2 * k21 * c + k12 * c + k20 - k11 + k02) * v ^ 2
          + (-k30 + k21 - k12 + k03) * v ^ 3 := by
    funext v; ring
  rw [this, integral_cubic]; ring

/-- quartics in the Bernstein basis on `[0,1]` -/
theorem integral_bernstein4 (a40 a31 a22 a13 a04 : ℝ) :
    ∫ u in (0 : ℝ)..1, (a40 * (1 - u) ^ 4 + a31 * u * (1 - u) ^ 3 + a22 * u ^ 2 * (1 - u) ^ 2 + a13 * u ^ 3 * (1 - u)
        + a04 * u ^ 4)
      = a40 / 5 + a31 / 20 + a22 / 30 + a13 / 20 + a04 / 5 := by
  have : (fun u : ℝ => a40 * (1 - u) ^ 4 + a31 * u * (1 - u) ^ 3 + a22 * u ^ 2 * (1 - u) ^ 2 + a13 * u ^ 3 * (1 - u)
        + a04 * u ^ 4)
      = fun u => a40 + (-4 * a40 + a31) * u + (6 * a40 - 3 * a31 + a22) * u ^ 2
          + (-4 * a40 + 3 * a31 - 2 * a22 + a13) * u ^ 3 + (a40 - a31 + a22 - a13 + a04) * u ^ 4 := by
    funext u; ring
  rw [this, integral_quartic]; ring

/-- innermost integral (over the fourth barycentric coordinate) -/
theorem tet_inner (x0 x1 x2 x3 y0 y1 y2 y3 u v : ℝ) :
    ∫ t in (0 : ℝ)..(1 - u - v),
        (x0 * (1 - u - v - t) + x1 * u + x2 * v + x3 * t) * (y0 * (1 - u - v - t) + y1 * u + y2 * v + y3 * t)
      = ((x0 * y0 + x3 * y3) / 3 + (x0 * y3 + x3 * y0) / 6) * (1 - u - v) ^ 3
        + (((x0 + x3) * y2 + x2 * (y0 + y3)) / 2) * (1 - u - v) ^ 2 * v + (x2 * y2) * (1 - u - v) * v ^ 2 + 0 * v ^ 3
        + ((((x0 + x3) * y1 + x1 * (y0 + y3)) / 2) * u) * (1 - u - v) ^ 2 + ((x1 * y2 + x2 * y1) * u) * (1 - u - v) * v
        + 0 * v ^ 2 + (x1 * y1 * u ^ 2) * (1 - u - v) + 0 * v + 0 := by
  have : (fun t : ℝ => (x0 * (1 - u - v - t) + x1 * u + x2 * v + x3 * t) * (y0 * (1 - u - v - t) + y1 * u + y2 * v + y3 * t))
      = fun t => (x0 * (1 - u - v) + x1 * u + x2 * v) * (y0 * (1 - u - v) + y1 * u + y2 * v)
          + ((x0 * (1 - u - v) + x1 * u + x2 * v) * (y3 - y0) + (x3 - x0) * (y0 * (1 - u - v) + y1 * u + y2 * v)) * t
          + ((x3 - x0) * (y3 - y0)) * t ^ 2 := by
    funext t; ring
  rw [this, integral_quadratic]; ring

/-- the two inner integrals -/
theorem tet_mid (x0 x1 x2 x3 y0 y1 y2 y3 u : ℝ) :
    ∫ v in (0 : ℝ)..(1 - u), ∫ t in (0 : ℝ)..(1 - u - v),
        (x0 * (1 - u - v - t) + x1 * u + x2 * v + x3 * t) * (y0 * (1 - u - v - t) + y1 * u + y2 * v + y3 * t)
      = (((x0 * y0 + x3 * y3) / 3 + (x0 * y3 + x3 * y0) / 6) / 4 + (((x0 + x3) * y2 + x2 * (y0 + y3)) / 2) / 12
            + (x2 * y2) / 12) * (1 - u) ^ 4
        + ((((x0 + x3) * y1 + x1 * (y0 + y3)) / 2) / 3 + (x1 * y2 + x2 * y1) / 6) * u * (1 - u) ^ 3
        + (x1 * y1 / 2) * u ^ 2 * (1 - u) ^ 2 + 0 * u ^ 3 * (1 - u) + 0 * u ^ 4 := by
  simp only [tet_inner]
  rw [integral_simplex_mid]; ring

/-- **`∫_τ x_h y_h` in barycentric coordinates on the reference tetrahedron**, per unit Jacobian -/
theorem tet_triple_integral (x0 x1 x2 x3 y0 y1 y2 y3 : ℝ) :
    ∫ u in (0 : ℝ)..1, ∫ v in (0 : ℝ)..(1 - u), ∫ t in (0 : ℝ)..(1 - u - v),
        (x0 * (1 - u - v - t) + x1 * u + x2 * v + x3 * t) * (y0 * (1 - u - v - t) + y1 * u + y2 * v + y3 * t)
      = (x0 * y0 + x1 * y1 + x2 * y2 + x3 * y3) / 60
        + (x0 * y1 + x1 * y0 + x0 * y2 + x2 * y0 + x0 * y3 + x3 * y0 + x1 * y2 + x2 * y1 + x1 * y3 + x3 * y1
            + x2 * y3 + x3 * y2) / 120 := by
  simp only [tet_mid]
  rw [integral_bernstein4]; ring

/-- **the moment formula of C02 for tetrahedra is the integral**,
    `∫_τ q = 6|τ| ∫₀¹∫₀^{1−u}∫₀^{1−u−v} q(v0 + u(v1−v0) + v(v2−v0) + t(v3−v0)) dt dv du` -/
theorem tetL2_eq_integral (w x0 x1 x2 x3 y0 y1 y2 y3 : ℝ) :
    Spec.tetL2 w x0 x1 x2 x3 y0 y1 y2 y3 =
      6 * w * ∫ u in (0 : ℝ)..1, ∫ v in (0 : ℝ)..(1 - u), ∫ t in (0 : ℝ)..(1 - u - v),
        (x0 * (1 - u - v - t) + x1 * u + x2 * v + x3 * t) * (y0 * (1 - u - v - t) + y1 * u + y2 * v + y3 * t) := by
  rw [tet_triple_integral, Spec.tetL2]; ring

/-- **moments on the reference tetrahedron**: squares `1/60`, mixed `1/120` (times `6|τ|`: `|τ|/10`, `|τ|/20`);
    volume of the reference tetrahedron `1/6` -/
theorem tet_moments :
    (∫ u in (0 : ℝ)..1, ∫ v in (0 : ℝ)..(1 - u), ∫ t in (0 : ℝ)..(1 - u - v), (1 - u - v - t) ^ 2) = 1 / 60 ∧
    (∫ u in (0 : ℝ)..1, ∫ v in (0 : ℝ)..(1 - u), ∫ _t in (0 : ℝ)..(1 - u - v), u ^ 2) = 1 / 60 ∧
    (∫ u in (0 : ℝ)..1, ∫ v in (0 : ℝ)..(1 - u), ∫ _t in (0 : ℝ)..(1 - u - v), v ^ 2) = 1 / 60 ∧
    (∫ u in (0 : ℝ)..1, ∫ v in (0 : ℝ)..(1 - u), ∫ t in (0 : ℝ)..(1 - u - v), t ^ 2) = 1 / 60 ∧
    (∫ u in (0 : ℝ)..1, ∫ v in (0 : ℝ)..(1 - u), ∫ t in (0 : ℝ)..(1 - u - v), (1 - u - v - t) * u) = 1 / 120 ∧
    (∫ u in (0 : ℝ)..1, ∫ v in (0 : ℝ)..(1 - u), ∫ t in (0 : ℝ)..(1 - u - v), (1 - u - v - t) * v) = 1 / 120 ∧
    (∫ u in (0 : ℝ)..1, ∫ v in (0 : ℝ)..(1 - u), ∫ t in (0 : ℝ)..(1 - u - v), (1 - u - v - t) * t) = 1 / 120 ∧
    (∫ u in (0 : ℝ)..1, ∫ v in (0 : ℝ)..(1 - u), ∫ _t in (0 : ℝ)..(1 - u - v), u * v) = 1 / 120 ∧
    (∫ u in (0 : ℝ)..1, ∫ v in (0 : ℝ)..(1 - u), ∫ t in (0 : ℝ)..(1 - u - v), u * t) = 1 / 120 ∧
    (∫ u in (0 : ℝ)..1, ∫ v in (0 : ℝ)..(1 - u), ∫ t in (0 : ℝ)..(1 - u - v), v * t) = 1 / 120 := by
  have key := tet_triple_integral
  refine ⟨?_, ?_, ?_, ?_, ?_, ?_, ?_, ?_, ?_, ?_⟩
  · have := key 1 0 0 0 1 0 0 0; simpa [sq] using this
  · have := key 0 1 0 0 0 1 0 0; simpa [sq] using this
  · have := key 0 0 1 0 0 0 1 0; simpa [sq] using this
  · have := key 0 0 0 1 0 0 0 1; simpa [sq] using this
  · have := key 1 0 0 0 0 1 0 0; simpa using this
  · have := key 1 0 0 0 0 0 1 0; simpa using this
  · have := key 1 0 0 0 0 0 0 1; simpa using this
  · have := key 0 1 0 0 0 0 1 0; simpa using this
  · have := key 0 1 0 0 0 0 0 1; simpa using this
  · have := key 0 0 1 0 0 0 0 1; simpa using this

theorem tet_measure :
    (∫ u in (0 : ℝ)..1, ∫ v in (0 : ℝ)..(1 - u), ∫ _t in (0 : ℝ)..(1 - u - v), (1 : ℝ)) = 1 / 6 := by
  have := tet_triple_integral 1 1 1 1 1 1 1 1
  have e : ∀ u v t : ℝ, (1 * (1 - u - v - t) + 1 * u + 1 * v + 1 * t) * (1 * (1 - u - v - t) + 1 * u + 1 * v + 1 * t) = 1 := by
    intro u v t; ring
  simp only [e] at this
  rw [this]; norm_num

/-- **x·B·y = Σ_τ ∫_τ x_h y_h** on tetrahedral meshes, with an honest (iterated interval) integral -/
theorem mass_form_integral_tet (vtx : Nat → V3 ℝ) (ts : List Tet) (h : NonDegenTet vtx ts) (x y : Nat → ℝ) :
    Coo.form (Fem.massTet false vtx ts) x y =
      (ts.map fun τ => 6 * Spec.tetVolume (vtx τ.1) (vtx τ.2.1) (vtx τ.2.2.1) (vtx τ.2.2.2) *
        ∫ u in (0 : ℝ)..1, ∫ v in (0 : ℝ)..(1 - u), ∫ t in (0 : ℝ)..(1 - u - v),
          (x τ.1 * (1 - u - v - t) + x τ.2.1 * u + x τ.2.2.1 * v + x τ.2.2.2 * t) *
          (y τ.1 * (1 - u - v - t) + y τ.2.1 * u + y τ.2.2.1 * v + y τ.2.2.2 * t)).sum := by
  rw [mass_form_tet vtx ts h]
  congr 1
  apply List.map_congr_left
  intro τ _
  exact tetL2_eq_integral _ _ _ _ _ _ _ _ _

/-! ### non-vacuity -/

theorem ex_nonDegenTri : NonDegenTri (vtx3 ⟨0, 0, 0⟩ ⟨1, 0, 0⟩ ⟨0, 1, 0⟩) [(0, 1, 2)] := by
  intro τ hτ
  simp only [List.mem_cons, List.not_mem_nil, or_false] at hτ
  subst hτ
  have : Fem.triVol (vtx3 (⟨0, 0, 0⟩ : V3 ℝ) ⟨1, 0, 0⟩ ⟨0, 1, 0⟩ 0) (vtx3 (⟨0, 0, 0⟩ : V3 ℝ) ⟨1, 0, 0⟩ ⟨0, 1, 0⟩ 1)
      (vtx3 (⟨0, 0, 0⟩ : V3 ℝ) ⟨1, 0, 0⟩ ⟨0, 1, 0⟩ 2) = 2 := by
    simp only [Fem.triVol, Fem.triCr, vtx3]; v3_flat; norm_num
  rw [this, epsK_real]; norm_num

/-- on the unit right triangle (area ½, Jacobian 1) the mass form of `x = y = λ₁` is `∫∫ u² = 1/12` -/
example : Coo.form (Fem.massTria false (vtx3 (⟨0, 0, 0⟩ : V3 ℝ) ⟨1, 0, 0⟩ ⟨0, 1, 0⟩) [(0, 1, 2)])
    (fun i => if i = 1 then 1 else 0) (fun i => if i = 1 then 1 else 0) = 1 / 12 := by
  rw [mass_form_integral _ _ ex_nonDegenTri]
  simp only [List.map_cons, List.map_nil, List.sum_cons, List.sum_nil]
  rw [tri_double_integral]
  have : Spec.triArea (vtx3 (⟨0, 0, 0⟩ : V3 ℝ) ⟨1, 0, 0⟩ ⟨0, 1, 0⟩ 0) (vtx3 (⟨0, 0, 0⟩ : V3 ℝ) ⟨1, 0, 0⟩ ⟨0, 1, 0⟩ 1)
      (vtx3 (⟨0, 0, 0⟩ : V3 ℝ) ⟨1, 0, 0⟩ ⟨0, 1, 0⟩ 2) = 1 / 2 := by
    have h : V3.normSq (Spec.triN (vtx3 (⟨0, 0, 0⟩ : V3 ℝ) ⟨1, 0, 0⟩ ⟨0, 1, 0⟩ 0)
        (vtx3 (⟨0, 0, 0⟩ : V3 ℝ) ⟨1, 0, 0⟩ ⟨0, 1, 0⟩ 1) (vtx3 (⟨0, 0, 0⟩ : V3 ℝ) ⟨1, 0, 0⟩ ⟨0, 1, 0⟩ 2)) = 1 := by
      simp only [Spec.triN, vtx3]; v3_flat; norm_num
    rw [Spec.triArea, h, Real.sqrt_one]
  rw [this]
  norm_num

end LapyVerif.Props.C02
