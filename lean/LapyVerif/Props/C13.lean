import LapyVerif.Lemmas.Isometry
import LapyVerif.Lemmas.FemTri
import LapyVerif.Model.Measures
/-
  C13 — geometric measures obey their defining formulas and transformation laws.
  Model: `Measures.*` (tied to `lapy/tria_mesh.py` by `Bridge/Measures.lean` and the differential check).
-/
namespace LapyVerif.Props.C13
open LapyVerif V3

theorem normSq_nonneg (a : V3 ℝ) : 0 ≤ normSq a := by
  v3_flat; nlinarith [sq_nonneg a.x, sq_nonneg a.y, sq_nonneg a.z]

/-! ### Heron = half the cross-product length -/

/-- sixteen times the squared area in terms of squared edge lengths -/
theorem heron_poly (v0 v1 v2 : V3 ℝ) :
    let A := normSq (v1 - v0); let B := normSq (v2 - v1); let C := normSq (v0 - v2)
    2 * A * B + 2 * B * C + 2 * C * A - A * A - B * B - C * C = 4 * normSq (cross (v1 - v0) (v2 - v0)) := by
  v3_flat; ring

/-- **`tria_areas` (Heron's formula) equals `½‖(v1−v0)×(v2−v0)‖`** for every triangle, degenerate ones included -/
theorem heron_eq_cross (v0 v1 v2 : V3 ℝ) : Measures.heron v0 v1 v2 = Spec.triArea v0 v1 v2 := by
  unfold Measures.heron Spec.triArea Spec.triN
  simp only [sqrt_real, Measures.c]
  set A := normSq (v1 - v0) with hA
  set B := normSq (v2 - v1) with hB
  set C := normSq (v0 - v2) with hC
  have hA0 := normSq_nonneg (v1 - v0); have hB0 := normSq_nonneg (v2 - v1); have hC0 := normSq_nonneg (v0 - v2)
  set a := Real.sqrt A; set b := Real.sqrt B; set c := Real.sqrt C
  have ha : a * a = A := Real.mul_self_sqrt hA0
  have hb : b * b = B := Real.mul_self_sqrt hB0
  have hc : c * c = C := Real.mul_self_sqrt hC0
  have key : ((1 : Nat) : ℝ) / ((2 : Nat) : ℝ) * (a + b + c) * (((1 : Nat) : ℝ) / ((2 : Nat) : ℝ) * (a + b + c) - a)
      * (((1 : Nat) : ℝ) / ((2 : Nat) : ℝ) * (a + b + c) - b) * (((1 : Nat) : ℝ) / ((2 : Nat) : ℝ) * (a + b + c) - c)
      = normSq (cross (v1 - v0) (v2 - v0)) / 4 := by
    have hp := heron_poly v0 v1 v2
    simp only [] at hp
    rw [← hA, ← hB, ← hC, ← ha, ← hb, ← hc] at hp
    push_cast
    linarith [hp]
  rw [key]
  rw [show normSq (cross (v1 - v0) (v2 - v0)) / 4 = normSq (cross (v1 - v0) (v2 - v0)) / (2 * 2) by ring]
  rw [Real.sqrt_div' _ (by positivity), Real.sqrt_mul_self (by norm_num)]

/-- `area()` is the sum of the cross-product areas, i.e. of the element areas used by the FEM matrices -/
theorem area_eq_sum (vtx : Nat → V3 ℝ) (ts : List Tri) :
    Measures.area vtx ts = (ts.map fun τ => Spec.triArea (vtx τ.1) (vtx τ.2.1) (vtx τ.2.2)).sum := by
  unfold Measures.area Measures.triAreas
  congr 1
  apply List.map_congr_left
  intro τ _
  exact heron_eq_cross _ _ _

/-! ### volume -/

theorem volume_open (vtx : Nat → V3 ℝ) (ts : List Tri) (h : Topo.isClosed ts = false) :
    Measures.volume vtx ts = .ok 0 := by
  simp [Measures.volume, h]

theorem volume_unoriented (vtx : Nat → V3 ℝ) (ts : List Tri) (hc : Topo.isClosed ts = true) (ho : Topo.isOriented ts = false) :
    Measures.volume vtx ts = .error "ValueError" := by
  simp [Measures.volume, hc, ho]

theorem volume_closed (vtx : Nat → V3 ℝ) (ts : List Tri) (hc : Topo.isClosed ts = true) (ho : Topo.isOriented ts = true) :
    Measures.volume vtx ts = .ok (Measures.volumeSum vtx ts) := by
  simp [Measures.volume, hc, ho]

/-- reversing every triangle negates the divergence-theorem sum -/
theorem volumeSum_flip (vtx : Nat → V3 ℝ) (ts : List Tri) :
    Measures.volumeSum vtx (ts.map fun τ => (τ.1, τ.2.2, τ.2.1)) = - Measures.volumeSum vtx ts := by
  unfold Measures.volumeSum
  rw [List.map_map]
  have : ∀ l : List Tri, (l.map ((fun τ : Tri => dot (vtx τ.1) (cross (vtx τ.2.1 - vtx τ.1) (vtx τ.2.2 - vtx τ.1))) ∘
      fun τ => (τ.1, τ.2.2, τ.2.1))).sum = - (l.map fun τ : Tri => dot (vtx τ.1) (cross (vtx τ.2.1 - vtx τ.1) (vtx τ.2.2 - vtx τ.1))).sum := by
    intro l
    induction l with
    | nil => simp
    | cons τ l ih =>
      simp only [List.map_cons, List.sum_cons, ih, Function.comp]
      v3_flat; ring
  simp only [] at this ⊢
  rw [this]; ring

/-- uniform scaling by `s` scales the volume by `s³` -/
theorem volumeSum_scale (vtx : Nat → V3 ℝ) (ts : List Tri) (s : ℝ) :
    Measures.volumeSum (fun i => smul s (vtx i)) ts = s * s * s * Measures.volumeSum vtx ts := by
  unfold Measures.volumeSum
  have : ∀ l : List Tri, (l.map fun τ : Tri => dot (smul s (vtx τ.1)) (cross (smul s (vtx τ.2.1) - smul s (vtx τ.1))
        (smul s (vtx τ.2.2) - smul s (vtx τ.1)))).sum
      = s * s * s * (l.map fun τ : Tri => dot (vtx τ.1) (cross (vtx τ.2.1 - vtx τ.1) (vtx τ.2.2 - vtx τ.1))).sum := by
    intro l
    induction l with
    | nil => simp
    | cons τ l ih =>
      simp only [List.map_cons, List.sum_cons, ih]
      v3_flat; ring
  simp only [] at this ⊢
  rw [this]; ring

/-! ### normals -/

/-- complement of the guard `ln < eps` -/
def NonDegenN (v0 v1 v2 : V3 ℝ) : Prop := ¬ (Real.sqrt (normSq (cross (v1 - v0) (v2 - v0))) < epsK)

theorem triNormal_eq (v0 v1 v2 : V3 ℝ) (h : NonDegenN v0 v1 v2) :
    Measures.triNormal v0 v1 v2 = smul (1 / Real.sqrt (normSq (cross (v1 - v0) (v2 - v0)))) (cross (v1 - v0) (v2 - v0)) := by
  simp only [Measures.triNormal, Measures.guard1, sqrt_real, if_neg h]
  apply V3.ext' <;> (simp only [smul_x, smul_y, smul_z]; ring)

/-- unit length, orthogonal to the triangle, a *positive* multiple of `(v1−v0)×(v2−v0)` (follows the winding) -/
theorem triNormal_spec (v0 v1 v2 : V3 ℝ) (h : NonDegenN v0 v1 v2) :
    normSq (Measures.triNormal v0 v1 v2) = 1 ∧
    dot (Measures.triNormal v0 v1 v2) (v1 - v0) = 0 ∧ dot (Measures.triNormal v0 v1 v2) (v2 - v0) = 0 ∧
    ∃ c : ℝ, 0 < c ∧ Measures.triNormal v0 v1 v2 = smul c (cross (v1 - v0) (v2 - v0)) := by
  have hs : 0 < Real.sqrt (normSq (cross (v1 - v0) (v2 - v0))) := lt_of_lt_of_le epsK_pos (not_lt.mp h)
  have hN : 0 < normSq (cross (v1 - v0) (v2 - v0)) := Real.sqrt_pos.mp hs
  have hss := Real.mul_self_sqrt hN.le
  rw [triNormal_eq v0 v1 v2 h]
  set s := Real.sqrt (normSq (cross (v1 - v0) (v2 - v0))) with hsd
  set n := cross (v1 - v0) (v2 - v0) with hn
  refine ⟨?_, ?_, ?_, 1 / s, by positivity, rfl⟩
  · have : normSq (smul (1 / s) n) = (1 / s) * (1 / s) * normSq n := by v3_flat; ring
    rw [this, ← hss]; field_simp
  · have : dot (smul (1 / s) n) (v1 - v0) = (1 / s) * dot n (v1 - v0) := by v3_flat; ring
    rw [this]
    have : dot n (v1 - v0) = 0 := by rw [hn]; v3_flat; ring
    rw [this]; ring
  · have : dot (smul (1 / s) n) (v2 - v0) = (1 / s) * dot n (v2 - v0) := by v3_flat; ring
    rw [this]
    have : dot n (v2 - v0) = 0 := by rw [hn]; v3_flat; ring
    rw [this]; ring

/-! ### qualities -/

theorem quality_cross (v0 v1 v2 : V3 ℝ) : cross (v1 - v0) (-(v0 - v2)) = cross (v1 - v0) (v2 - v0) := by
  apply V3.ext' <;> (v3_flat; ring)

/-- **Weitzenböck**: `(a²+b²+c²)² − 12‖n‖² = 2((A−B)² + (B−C)² + (C−A)²)` with `A,B,C` the squared edge lengths -/
theorem weitzenboeck (v0 v1 v2 : V3 ℝ) :
    let A := normSq (v1 - v0); let B := normSq (v2 - v1); let C := normSq (v0 - v2)
    (A + B + C) * (A + B + C) - 12 * normSq (cross (v1 - v0) (v2 - v0))
      = 2 * ((A - B) * (A - B) + (B - C) * (B - C) + (C - A) * (C - A)) := by
  have := heron_poly v0 v1 v2
  simp only [] at this ⊢
  linarith [this]

/-- the real-number core of the quality bound -/
theorem quality_core (A B C N q : ℝ) (hA : 0 ≤ A) (hB : 0 ≤ B) (hC : 0 ≤ C) (hN : 0 < N) (hq : 0 < q)
    (hqq : q * q = 12 * N)
    (hw : (A + B + C) * (A + B + C) - 12 * N = 2 * ((A - B) * (A - B) + (B - C) * (B - C) + (C - A) * (C - A))) :
    0 < A + B + C ∧ q ≤ A + B + C ∧ (q = A + B + C ↔ A = B ∧ B = C) := by
  have hE : 0 < A + B + C := by
    by_contra hneg
    have h0 : A + B + C = 0 := le_antisymm (not_lt.mp hneg) (by positivity)
    have : (A + B + C) * (A + B + C) = 0 := by rw [h0]; ring
    nlinarith [mul_self_nonneg (A - B), mul_self_nonneg (B - C), mul_self_nonneg (C - A)]
  have hle : q ≤ A + B + C := by
    by_contra hgt
    have hgt' : A + B + C < q := not_le.mp hgt
    have : (A + B + C) * (A + B + C) < q * q := by nlinarith
    nlinarith [mul_self_nonneg (A - B), mul_self_nonneg (B - C), mul_self_nonneg (C - A)]
  refine ⟨hE, hle, ?_, ?_⟩
  · intro heq
    have hz : (A - B) * (A - B) + (B - C) * (B - C) + (C - A) * (C - A) = 0 := by
      have : (A + B + C) * (A + B + C) = q * q := by rw [heq]
      linarith
    have h1 : (A - B) * (A - B) = 0 := by
      nlinarith [mul_self_nonneg (A - B), mul_self_nonneg (B - C), mul_self_nonneg (C - A)]
    have h2 : (B - C) * (B - C) = 0 := by
      nlinarith [mul_self_nonneg (A - B), mul_self_nonneg (B - C), mul_self_nonneg (C - A)]
    exact ⟨by linarith [mul_self_eq_zero.mp h1], by linarith [mul_self_eq_zero.mp h2]⟩
  · rintro ⟨h1, h2⟩
    have hEq : q * q = (A + B + C) * (A + B + C) := by
      subst h1; subst h2
      have : (A + A + A) * (A + A + A) - 12 * N = 0 := by rw [hw]; ring
      linarith
    have : (q - (A + B + C)) * (q + (A + B + C)) = 0 := by ring_nf; nlinarith
    rcases mul_eq_zero.mp this with h | h
    · linarith
    · linarith

/-- qualities lie in `(0, 1]` for non-degenerate triangles and equal 1 exactly for equilateral ones -/
theorem quality_range (v0 v1 v2 : V3 ℝ) (hN : 0 < normSq (cross (v1 - v0) (v2 - v0))) :
    0 < Measures.triQuality v0 v1 v2 ∧ Measures.triQuality v0 v1 v2 ≤ 1 ∧
    (Measures.triQuality v0 v1 v2 = 1 ↔
      normSq (v1 - v0) = normSq (v2 - v1) ∧ normSq (v2 - v1) = normSq (v0 - v2)) := by
  have hw := weitzenboeck v0 v1 v2
  have h3 : 0 < Real.sqrt 3 := Real.sqrt_pos.mpr (by norm_num)
  have h33 : Real.sqrt 3 * Real.sqrt 3 = 3 := Real.mul_self_sqrt (by norm_num)
  have hs : 0 < Real.sqrt (normSq (cross (v1 - v0) (v2 - v0))) := Real.sqrt_pos.mpr hN
  have hss := Real.mul_self_sqrt hN.le
  have hq : 0 < 2 * Real.sqrt 3 * Real.sqrt (normSq (cross (v1 - v0) (v2 - v0))) := by positivity
  have hqq : 2 * Real.sqrt 3 * Real.sqrt (normSq (cross (v1 - v0) (v2 - v0))) *
      (2 * Real.sqrt 3 * Real.sqrt (normSq (cross (v1 - v0) (v2 - v0)))) = 12 * normSq (cross (v1 - v0) (v2 - v0)) := by
    calc _ = 4 * (Real.sqrt 3 * Real.sqrt 3) * (Real.sqrt (normSq (cross (v1 - v0) (v2 - v0))) *
          Real.sqrt (normSq (cross (v1 - v0) (v2 - v0)))) := by ring
      _ = _ := by rw [h33, hss]; ring
  obtain ⟨hE, hle, hiff⟩ := quality_core _ _ _ _ _ (normSq_nonneg (v1 - v0)) (normSq_nonneg (v2 - v1))
    (normSq_nonneg (v0 - v2)) hN hq hqq hw
  have hdef : Measures.triQuality v0 v1 v2 =
      2 * Real.sqrt 3 * Real.sqrt (normSq (cross (v1 - v0) (v2 - v0))) /
        (normSq (v1 - v0) + normSq (v2 - v1) + normSq (v0 - v2)) := by
    unfold Measures.triQuality
    simp only [quality_cross, sqrt_real, Measures.c]
    push_cast
    rfl
  rw [hdef]
  refine ⟨div_pos hq hE, (div_le_one hE).mpr hle, ?_⟩
  rw [div_eq_one_iff_eq hE.ne']
  exact hiff

/-! ### transformation laws of the per-element measures -/

/-- under a similarity with factor `s` every triangle area is multiplied by `s²` (isometries: unchanged) -/
theorem triArea_similarity {s : ℝ} {T : V3 ℝ → V3 ℝ} (h : IsSimilarity s T) (v0 v1 v2 : V3 ℝ) :
    Spec.triArea (T v0) (T v1) (T v2) = s * s * Spec.triArea v0 v1 v2 := by
  unfold Spec.triArea Spec.triN
  rw [sim_cross_normSq h]
  rw [show s * s * (s * s) * normSq (cross (v1 - v0) (v2 - v0)) = (s * s) * (s * s) * normSq (cross (v1 - v0) (v2 - v0)) by ring]
  rw [Real.sqrt_mul (mul_nonneg (mul_self_nonneg s) (mul_self_nonneg s)), Real.sqrt_mul_self (mul_self_nonneg s)]
  ring

theorem heron_similarity {s : ℝ} {T : V3 ℝ → V3 ℝ} (h : IsSimilarity s T) (v0 v1 v2 : V3 ℝ) :
    Measures.heron (T v0) (T v1) (T v2) = s * s * Measures.heron v0 v1 v2 := by
  rw [heron_eq_cross, heron_eq_cross, triArea_similarity h]

theorem area_similarity {s : ℝ} {T : V3 ℝ → V3 ℝ} (h : IsSimilarity s T) (vtx : Nat → V3 ℝ) (ts : List Tri) :
    Measures.area (fun i => T (vtx i)) ts = s * s * Measures.area vtx ts := by
  unfold Measures.area Measures.triAreas
  induction ts with
  | nil => simp
  | cons τ ts ih =>
    simp only [List.map_cons, List.sum_cons] at ih ⊢
    rw [ih, heron_similarity h]; ring

/-- qualities are invariant under every similarity -/
theorem quality_similarity {s : ℝ} {T : V3 ℝ → V3 ℝ} (h : IsSimilarity s T) (hs : s ≠ 0) (v0 v1 v2 : V3 ℝ) :
    Measures.triQuality (T v0) (T v1) (T v2) = Measures.triQuality v0 v1 v2 := by
  unfold Measures.triQuality
  simp only [quality_cross, sqrt_real, Measures.c]
  rw [sim_cross_normSq h, sim_normSq h, sim_normSq h, sim_normSq h]
  rw [show s * s * (s * s) * normSq (cross (v1 - v0) (v2 - v0)) = (s * s) * (s * s) * normSq (cross (v1 - v0) (v2 - v0)) by ring]
  rw [Real.sqrt_mul (mul_nonneg (mul_self_nonneg s) (mul_self_nonneg s)), Real.sqrt_mul_self (mul_self_nonneg s)]
  have hss : s * s ≠ 0 := mul_ne_zero hs hs
  by_cases hE : normSq (v1 - v0) + normSq (v2 - v1) + normSq (v0 - v2) = 0
  · rw [hE]
    have : s * s * normSq (v1 - v0) + s * s * normSq (v2 - v1) + s * s * normSq (v0 - v2) = 0 := by
      rw [← mul_add, ← mul_add, hE]; ring
    rw [this]; simp
  · field_simp

end LapyVerif.Props.C13
