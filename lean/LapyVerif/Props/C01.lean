import LapyVerif.Lemmas.FemTri
import LapyVerif.Lemmas.FemTet
/-
  C01 — the stiffness matrix is the exact piecewise-linear Dirichlet form.

  All theorems are about the ℝ-instance of the model `Fem.stiffTria` / `Fem.stiffTet` (which the bridges of
  `Bridge/Fem.lean` tie to what `/repo` computes now), for EVERY vertex map and EVERY element list — no bound on
  the number of elements, no manifoldness / orientation / index-range hypothesis — under exactly the complement
  of the code's own degeneracy guard (`NonDegenTri`, `NonDegenTet`).
-/
namespace LapyVerif.Props.C01
open LapyVerif V3

/-! ## triangles -/

/-- under the complement of the guard no entry of `vol` is replaced -/
theorem triVols_nondegen (vtx : Nat → V3 ℝ) (ts : List Tri) (h : NonDegenTri vtx ts) :
    Fem.triVols vtx ts = ts.map fun τ => Fem.triVol (vtx τ.1) (vtx τ.2.1) (vtx τ.2.2) := by
  unfold Fem.triVols
  apply map_id_of_forall
  intro x hx
  obtain ⟨τ, hτ, rfl⟩ := List.mem_map.mp hx
  simp only [Fem.clampLt, if_neg (h τ hτ)]

/-- the assembled matrix is the concatenation of the per-triangle blocks -/
theorem stiffTria_blocks (vtx : Nat → V3 ℝ) (ts : List Tri) (h : NonDegenTri vtx ts) :
    Fem.stiffTria vtx ts = (ts.map fun τ =>
      let v1 := vtx τ.1; let v2 := vtx τ.2.1; let v3 := vtx τ.2.2
      Fem.triBlockA τ (Fem.triA12 v1 v2 v3 (Fem.triVol v1 v2 v3)) (Fem.triA23 v1 v2 v3 (Fem.triVol v1 v2 v3))
        (Fem.triA31 v1 v2 v3 (Fem.triVol v1 v2 v3))).flatten := by
  unfold Fem.stiffTria
  rw [triVols_nondegen vtx ts h, zip_map_self]

/-- **f·A·g = Σ_τ area(τ) ∇f|τ · ∇g|τ**  (the Dirichlet form of the linear interpolants) -/
theorem stiff_form (vtx : Nat → V3 ℝ) (ts : List Tri) (h : NonDegenTri vtx ts) (f g : Nat → ℝ) :
    Coo.form (Fem.stiffTria vtx ts) f g =
      (ts.map fun τ =>
        Spec.triArea (vtx τ.1) (vtx τ.2.1) (vtx τ.2.2) *
          dot (Spec.gradTri (vtx τ.1) (vtx τ.2.1) (vtx τ.2.2) (f τ.1) (f τ.2.1) (f τ.2.2))
              (Spec.gradTri (vtx τ.1) (vtx τ.2.1) (vtx τ.2.2) (g τ.1) (g τ.2.1) (g τ.2.2))).sum := by
  rw [stiffTria_blocks vtx ts h, Coo.form_flatten, List.map_map]
  congr 1
  apply List.map_congr_left
  intro τ hτ
  obtain ⟨t1, t2, t3⟩ := τ
  exact FemTri.local_form _ _ _ t1 t2 t3 f g (FemTri.normSq_pos_of_nondegen _ _ _ (h _ hτ))

theorem dot_comm (a b : V3 ℝ) : dot a b = dot b a := by v3_flat; ring

/-- symmetric as a bilinear form -/
theorem stiff_form_symm (vtx : Nat → V3 ℝ) (ts : List Tri) (h : NonDegenTri vtx ts) (f g : Nat → ℝ) :
    Coo.form (Fem.stiffTria vtx ts) f g = Coo.form (Fem.stiffTria vtx ts) g f := by
  rw [stiff_form vtx ts h, stiff_form vtx ts h]
  congr 1
  apply List.map_congr_left
  intro τ _
  rw [dot_comm]

/-- symmetric entry by entry (the stored, duplicate-summed entries) -/
theorem stiff_entry_symm (vtx : Nat → V3 ℝ) (ts : List Tri) (h : NonDegenTri vtx ts) (i j : Nat) :
    Coo.entry (Fem.stiffTria vtx ts) i j = Coo.entry (Fem.stiffTria vtx ts) j i := by
  rw [Coo.entry_eq_form, Coo.entry_eq_form, stiff_form_symm vtx ts h]

theorem gradTri_const (v1 v2 v3 : V3 ℝ) (c : ℝ) : Spec.gradTri v1 v2 v3 c c c = ⟨0, 0, 0⟩ := by
  apply V3.ext' <;> (simp only [Spec.gradTri]; v3_flat; ring)

/-- constants are annihilated: every row of `A·c` vanishes (hence also every column, by symmetry) -/
theorem stiff_const_zero (vtx : Nat → V3 ℝ) (ts : List Tri) (h : NonDegenTri vtx ts) (c : ℝ) (i : Nat) :
    Coo.mulVec (Fem.stiffTria vtx ts) (fun _ => c) i = 0 := by
  rw [Coo.mulVec_eq_form, stiff_form vtx ts h]
  apply List.sum_eq_zero
  intro x hx
  obtain ⟨τ, _, rfl⟩ := List.mem_map.mp hx
  rw [gradTri_const]
  v3_flat; ring

/-- positive semi-definite -/
theorem stiff_psd (vtx : Nat → V3 ℝ) (ts : List Tri) (h : NonDegenTri vtx ts) (f : Nat → ℝ) :
    0 ≤ Coo.form (Fem.stiffTria vtx ts) f f := by
  rw [stiff_form vtx ts h]
  apply List.sum_nonneg
  intro x hx
  obtain ⟨τ, hτ, rfl⟩ := List.mem_map.mp hx
  have ha := FemTri.area_pos_of_nondegen _ _ _ (h τ hτ)
  have : ∀ a : V3 ℝ, 0 ≤ dot a a := by intro a; v3_flat; nlinarith [sq_nonneg a.x, sq_nonneg a.y, sq_nonneg a.z]
  exact mul_nonneg ha.le (this _)

/-- finite entries: every denominator of the assembly is non-zero -/
theorem stiff_denominators (vtx : Nat → V3 ℝ) (ts : List Tri) (h : NonDegenTri vtx ts) :
    ∀ x ∈ Fem.triVols vtx ts, x ≠ 0 := by
  rw [triVols_nondegen vtx ts h]
  intro x hx
  obtain ⟨τ, hτ, rfl⟩ := List.mem_map.mp hx
  have := lt_of_lt_of_le epsK_pos (not_lt.mp (h τ hτ))
  exact this.ne'

/-! ### independence of element vertex order / orientation -/

theorem triN_swap (v1 v2 v3 : V3 ℝ) : normSq (Spec.triN v2 v1 v3) = normSq (Spec.triN v1 v2 v3) := by
  simp only [Spec.triN]; v3_flat; ring
theorem triN_rot (v1 v2 v3 : V3 ℝ) : normSq (Spec.triN v2 v3 v1) = normSq (Spec.triN v1 v2 v3) := by
  simp only [Spec.triN]; v3_flat; ring

theorem gradTri_swap (v1 v2 v3 : V3 ℝ) (f1 f2 f3 : ℝ) :
    Spec.gradTri v2 v1 v3 f2 f1 f3 = Spec.gradTri v1 v2 v3 f1 f2 f3 := by
  unfold Spec.gradTri
  simp only []
  rw [triN_swap]
  apply V3.ext' <;> (simp only [Spec.triN]; v3_flat; ring)

theorem gradTri_rot (v1 v2 v3 : V3 ℝ) (f1 f2 f3 : ℝ) :
    Spec.gradTri v2 v3 v1 f2 f3 f1 = Spec.gradTri v1 v2 v3 f1 f2 f3 := by
  unfold Spec.gradTri
  simp only []
  rw [triN_rot]
  apply V3.ext' <;> (simp only [Spec.triN]; v3_flat; ring)

theorem triArea_swap (v1 v2 v3 : V3 ℝ) : Spec.triArea v2 v1 v3 = Spec.triArea v1 v2 v3 := by
  simp only [Spec.triArea, triN_swap]
theorem triArea_rot (v1 v2 v3 : V3 ℝ) : Spec.triArea v2 v3 v1 = Spec.triArea v1 v2 v3 := by
  simp only [Spec.triArea, triN_rot]

/-- flip of a triangle (changes the orientation) -/
def swapTri (τ : Tri) : Tri := (τ.2.1, τ.1, τ.2.2)
/-- cyclic rotation of a triangle -/
def rotTri (τ : Tri) : Tri := (τ.2.1, τ.2.2, τ.1)

theorem triVol_swap (v1 v2 v3 : V3 ℝ) : Fem.triVol v2 v1 v3 = Fem.triVol v1 v2 v3 := by
  rw [FemTri.triVol_eq, FemTri.triVol_eq, triArea_swap]
theorem triVol_rot (v1 v2 v3 : V3 ℝ) : Fem.triVol v2 v3 v1 = Fem.triVol v1 v2 v3 := by
  rw [FemTri.triVol_eq, FemTri.triVol_eq, triArea_rot]

/-- Re-ordering the vertices of any subset of the triangles — by the generators `swapTri`, `rotTri` of S₃, i.e. by
    any permutation, either orientation — leaves the stiffness form, hence every stored entry, unchanged.
    `σ τ` chooses the permutation per triangle (`none`, `swap`, `rot`; compose by iterating the theorem). -/
theorem stiff_form_reorder (vtx : Nat → V3 ℝ) (ts : List Tri) (h : NonDegenTri vtx ts)
    (σ : Tri → Tri) (hσ : ∀ τ, σ τ = τ ∨ σ τ = swapTri τ ∨ σ τ = rotTri τ) (f g : Nat → ℝ) :
    Coo.form (Fem.stiffTria vtx (ts.map σ)) f g = Coo.form (Fem.stiffTria vtx ts) f g := by
  have h' : NonDegenTri vtx (ts.map σ) := by
    intro τ' hτ'
    obtain ⟨τ, hτ, rfl⟩ := List.mem_map.mp hτ'
    rcases hσ τ with e | e | e <;> rw [e]
    · exact h τ hτ
    · simp only [swapTri]; rw [triVol_swap]; exact h τ hτ
    · simp only [rotTri]; rw [triVol_rot]; exact h τ hτ
  rw [stiff_form vtx _ h', stiff_form vtx ts h, List.map_map]
  congr 1
  apply List.map_congr_left
  intro τ _
  rcases hσ τ with e | e | e <;> simp only [Function.comp, e]
  · simp only [swapTri, gradTri_swap, triArea_swap]
  · simp only [rotTri, gradTri_rot, triArea_rot]

theorem stiff_entry_reorder (vtx : Nat → V3 ℝ) (ts : List Tri) (h : NonDegenTri vtx ts)
    (σ : Tri → Tri) (hσ : ∀ τ, σ τ = τ ∨ σ τ = swapTri τ ∨ σ τ = rotTri τ) (i j : Nat) :
    Coo.entry (Fem.stiffTria vtx (ts.map σ)) i j = Coo.entry (Fem.stiffTria vtx ts) i j := by
  rw [Coo.entry_eq_form, Coo.entry_eq_form, stiff_form_reorder vtx ts h σ hσ]

/-! ## tetrahedra -/

theorem tetVols_nondegen (vtx : Nat → V3 ℝ) (ts : List Tet) (h : NonDegenTet vtx ts) :
    Fem.tetVols vtx ts = ts.map fun τ => Fem.tetVol (vtx τ.1) (vtx τ.2.1) (vtx τ.2.2.1) (vtx τ.2.2.2) := by
  unfold Fem.tetVols
  apply map_id_of_forall
  intro x hx
  obtain ⟨τ, hτ, rfl⟩ := List.mem_map.mp hx
  have := h τ hτ
  simp only [beq_iff_eq, if_neg this]

theorem tetDet_ne_zero (v1 v2 v3 v4 : V3 ℝ) (h : Fem.tetVol v1 v2 v3 v4 ≠ 0) : Spec.tetDet v1 v2 v3 v4 ≠ 0 := by
  rw [FemTet.tetVol_eq] at h
  exact abs_ne_zero.mp h

/-- **f·A·g = Σ_τ vol(τ) ∇f|τ · ∇g|τ** for tetrahedral meshes -/
theorem stiff_form_tet (vtx : Nat → V3 ℝ) (ts : List Tet) (h : NonDegenTet vtx ts) (f g : Nat → ℝ) :
    Coo.form (Fem.stiffTet vtx ts) f g =
      (ts.map fun τ =>
        Spec.tetVolume (vtx τ.1) (vtx τ.2.1) (vtx τ.2.2.1) (vtx τ.2.2.2) *
          dot (Spec.gradTet (vtx τ.1) (vtx τ.2.1) (vtx τ.2.2.1) (vtx τ.2.2.2) (f τ.1) (f τ.2.1) (f τ.2.2.1) (f τ.2.2.2))
              (Spec.gradTet (vtx τ.1) (vtx τ.2.1) (vtx τ.2.2.1) (vtx τ.2.2.2) (g τ.1) (g τ.2.1) (g τ.2.2.1) (g τ.2.2.2))).sum := by
  unfold Fem.stiffTet
  rw [tetVols_nondegen vtx ts h, zip_map_self, Coo.form_flatten, List.map_map]
  congr 1
  apply List.map_congr_left
  intro τ hτ
  obtain ⟨t1, t2, t3, t4⟩ := τ
  have := FemTet.local_form (vtx t1) (vtx t2) (vtx t3) (vtx t4) t1 t2 t3 t4 f g (tetDet_ne_zero _ _ _ _ (h _ hτ))
  simpa [Function.comp] using this

theorem stiff_form_symm_tet (vtx : Nat → V3 ℝ) (ts : List Tet) (h : NonDegenTet vtx ts) (f g : Nat → ℝ) :
    Coo.form (Fem.stiffTet vtx ts) f g = Coo.form (Fem.stiffTet vtx ts) g f := by
  rw [stiff_form_tet vtx ts h, stiff_form_tet vtx ts h]
  congr 1
  apply List.map_congr_left
  intro τ _
  rw [dot_comm]

theorem stiff_entry_symm_tet (vtx : Nat → V3 ℝ) (ts : List Tet) (h : NonDegenTet vtx ts) (i j : Nat) :
    Coo.entry (Fem.stiffTet vtx ts) i j = Coo.entry (Fem.stiffTet vtx ts) j i := by
  rw [Coo.entry_eq_form, Coo.entry_eq_form, stiff_form_symm_tet vtx ts h]

theorem gradTet_const (v1 v2 v3 v4 : V3 ℝ) (c : ℝ) : Spec.gradTet v1 v2 v3 v4 c c c c = ⟨0, 0, 0⟩ := by
  apply V3.ext' <;> (simp only [Spec.gradTet]; v3_flat; ring)

theorem stiff_const_zero_tet (vtx : Nat → V3 ℝ) (ts : List Tet) (h : NonDegenTet vtx ts) (c : ℝ) (i : Nat) :
    Coo.mulVec (Fem.stiffTet vtx ts) (fun _ => c) i = 0 := by
  rw [Coo.mulVec_eq_form, stiff_form_tet vtx ts h]
  apply List.sum_eq_zero
  intro x hx
  obtain ⟨τ, _, rfl⟩ := List.mem_map.mp hx
  rw [gradTet_const]
  v3_flat; ring

theorem stiff_psd_tet (vtx : Nat → V3 ℝ) (ts : List Tet) (h : NonDegenTet vtx ts) (f : Nat → ℝ) :
    0 ≤ Coo.form (Fem.stiffTet vtx ts) f f := by
  rw [stiff_form_tet vtx ts h]
  apply List.sum_nonneg
  intro x hx
  obtain ⟨τ, hτ, rfl⟩ := List.mem_map.mp hx
  have hv : 0 ≤ Spec.tetVolume (vtx τ.1) (vtx τ.2.1) (vtx τ.2.2.1) (vtx τ.2.2.2) := by
    unfold Spec.tetVolume; positivity
  have : ∀ a : V3 ℝ, 0 ≤ dot a a := by intro a; v3_flat; nlinarith [sq_nonneg a.x, sq_nonneg a.y, sq_nonneg a.z]
  exact mul_nonneg hv (this _)

end LapyVerif.Props.C01
