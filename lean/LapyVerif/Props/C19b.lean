import LapyVerif.Props.C19
import LapyVerif.Props.C02
import LapyVerif.Model.Flow
/-
  C19b — the executable model `Model/Flow.lean` satisfies the statements of `Props/C19.lean`
  (which were phrased on definitions local to that file).
-/
namespace LapyVerif.Props.C19
open LapyVerif V3

/-! ### maximum / minimum: the model folds from the left with `if m < x then x else m` -/

theorem foldl_max_comm (l : List ℝ) (a x : ℝ) : l.foldl max (max a x) = max x (l.foldl max a) := by
  induction l generalizing a with
  | nil => exact max_comm a x
  | cons y l ih =>
    rw [List.foldl_cons, List.foldl_cons, show max (max a x) y = max (max a y) x by ac_rfl, ih]

theorem foldl_max_eq_foldr (l : List ℝ) (a : ℝ) : l.foldl max a = l.foldr max a := by
  induction l generalizing a with
  | nil => rfl
  | cons x l ih => rw [List.foldl_cons, List.foldr_cons, foldl_max_comm, ih]

theorem foldl_min_comm (l : List ℝ) (a x : ℝ) : l.foldl min (min a x) = min x (l.foldl min a) := by
  induction l generalizing a with
  | nil => exact min_comm a x
  | cons y l ih =>
    rw [List.foldl_cons, List.foldl_cons, show min (min a x) y = min (min a y) x by ac_rfl, ih]

theorem foldl_min_eq_foldr (l : List ℝ) (a : ℝ) : l.foldl min a = l.foldr min a := by
  induction l generalizing a with
  | nil => rfl
  | cons x l ih => rw [List.foldl_cons, List.foldr_cons, foldl_min_comm, ih]

theorem ite_lt_eq_max : (fun m x : ℝ => if m < x then x else m) = max := by
  funext m x
  by_cases h : m < x
  · rw [if_pos h, max_eq_right h.le]
  · rw [if_neg h, max_eq_left (not_lt.mp h)]

theorem ite_lt_eq_min : (fun m x : ℝ => if x < m then x else m) = min := by
  funext m x
  by_cases h : x < m
  · rw [if_pos h, min_eq_right h.le]
  · rw [if_neg h, min_eq_left (not_lt.mp h)]

/-- **`Flow.maxL` is the maximum used in C19** (both are `0` on the empty list) -/
theorem maxL_eq_lmax (e : List ℝ) : Flow.maxL e = lmax e := by
  unfold Flow.maxL lmax
  rw [ite_lt_eq_max, foldl_max_eq_foldr]

theorem minL_eq_lmin (e : List ℝ) : Flow.minL e = lmin e := by
  unfold Flow.minL lmin
  rw [ite_lt_eq_min, foldl_min_eq_foldr]

/-! ### the axis difference and the conditional flip -/

/-- selecting by a flag list computed from `e` = filtering the pairs `(e_i, p_i)` -/
theorem sel_eq_filter (e p : List ℝ) (g : ℝ → Bool) :
    ((p.zip (e.map g)).filter (·.2)).map (·.1) = ((e.zip p).filter fun q => g q.1).map (·.2) := by
  induction e generalizing p with
  | nil => simp
  | cons a e ih =>
    cases p with
    | nil => simp
    | cons b p =>
      simp only [List.map_cons, List.zip_cons_cons, List.filter_cons]
      by_cases h : g a = true
      · simp only [h, if_true, List.map_cons, ih]
      · have h' : g a = false := by simpa using h
        simp only [h', Bool.false_eq_true, if_false, ih]

theorem meanSel_eq (e p : List ℝ) (g : ℝ → Bool) :
    Flow.meanSel p (e.map g) = mean (((e.zip p).filter fun q => g q.1).map (·.2)) := by
  unfold Flow.meanSel mean
  simp only [sel_eq_filter]

/-- **`Flow.axisDiff` is `cmax − cmin` of C19** (no length hypothesis is needed: both sides truncate the zip alike) -/
theorem axisDiff_eq (e p : List ℝ) : Flow.axisDiff e p = hiMean e p - loMean e p := by
  unfold Flow.axisDiff hiMean loMean
  simp only [meanSel_eq, maxL_eq_lmax, minL_eq_lmin]
  congr 3
  · apply List.filter_congr
    intro q _
    apply decide_eq_decide.mpr
    push_cast
    constructor <;> intro h <;> linarith
  · apply List.filter_congr
    intro q _
    apply decide_eq_decide.mpr
    push_cast
    constructor <;> intro h <;> linarith

/-- **`Flow.alignAxis` is the flip of C19** -/
theorem alignAxis_eq (e p : List ℝ) : Flow.alignAxis e p = axisFlip e p := by
  unfold Flow.alignAxis axisFlip
  rw [axisDiff_eq]
  by_cases h : hiMean e p < loMean e p
  · rw [if_pos h, if_pos (by linarith)]
  · rw [if_neg h, if_neg (by linarith)]

/-- **`axis_flip` for the model**: after `alignAxis` the eigenfunction does not decrease along its axis -/
theorem flow_axis_flip (e p : List ℝ) : 0 ≤ Flow.axisDiff (Flow.alignAxis e p) p := by
  rw [alignAxis_eq, axisDiff_eq]; exact axis_flip e p

theorem flow_alignAxis_idem (e p : List ℝ) : Flow.alignAxis (Flow.alignAxis e p) p = Flow.alignAxis e p := by
  rw [alignAxis_eq, alignAxis_eq]; exact axis_flip_idem e p

/-! ### projection to the sphere of radius 100 -/

theorem project100_eq (v : V3 ℝ) : Flow.project100 v = smul (100 / Real.sqrt (normSq v)) v := by
  unfold Flow.project100
  apply V3.ext' <;> (v3_flat; push_cast; ring)

/-- **`project_radius` for the model** -/
theorem flow_project_radius (v : V3 ℝ) (hv : normSq v ≠ 0) : normSq (Flow.project100 v) = 100 * 100 := by
  rw [project100_eq]; exact project_radius v hv

/-! ### the implicit step -/

theorem stepMatrix_eq (step : ℝ) (A0 : Coo ℝ) (vcur : Nat → V3 ℝ) (ts : List Tri) :
    Flow.stepMatrix step A0 vcur ts = Heat.heatMat step A0 (Fem.massTriaStandalone true vcur ts) := rfl

/-- under the complement of the degeneracy guards the step matrix is `lumped mass + step · A₀` with the solver's
    lumped mass matrix -/
theorem stepMatrix_eq_solver (step : ℝ) (A0 : Coo ℝ) (vcur : Nat → V3 ℝ) (ts : List Tri) (h : NonDegenTri vcur ts) :
    Flow.stepMatrix step A0 vcur ts = Heat.heatMat step A0 (Fem.massTria true vcur ts) := by
  rw [stepMatrix_eq, C02.standalone_eq_solver true vcur ts h]

/-- **`flow_step_fixed` for the model**: a coordinate function annihilated by `A₀` solves the step with itself -/
theorem flow_step_fixed_model (step : ℝ) (A0 : Coo ℝ) (vcur : Nat → V3 ℝ) (ts : List Tri) (V : Nat → ℝ)
    (h0 : ∀ i, Coo.mulVec A0 V i = 0) (i : Nat) :
    Coo.mulVec (Flow.stepMatrix step A0 vcur ts) V i = Coo.mulVec (Fem.massTriaStandalone true vcur ts) V i :=
  flow_step_fixed step A0 _ V h0 i

/-- form of the step matrix -/
theorem stepMatrix_form (step : ℝ) (A0 : Coo ℝ) (vcur : Nat → V3 ℝ) (ts : List Tri) (f g : Nat → ℝ) :
    Coo.form (Flow.stepMatrix step A0 vcur ts) f g =
      Coo.form (Fem.massTriaStandalone true vcur ts) f g + step * Coo.form A0 f g :=
  C07.form_heatMat step A0 _ f g

/-- a diagonal COO list with positive values: the form is a sum of non-negative terms -/
theorem diag_form_terms (M : Coo ℝ) (hd : ∀ e ∈ M, e.1.1 = e.1.2) (hp : ∀ e ∈ M, 0 < e.2) (f : Nat → ℝ) :
    ∀ x ∈ M.map (fun e : (Nat × Nat) × ℝ => f e.1.1 * e.2 * f e.1.2), 0 ≤ x := by
  intro x hx
  obtain ⟨e, he, rfl⟩ := List.mem_map.mp hx
  rw [← hd e he]
  have := (hp e he).le
  nlinarith [mul_self_nonneg (f e.1.1)]

/-- the lumped mass form is non-negative, and positive as soon as `f` does not vanish at a vertex of some triangle -/
theorem lumped_form_pos (vcur : Nat → V3 ℝ) (ts : List Tri) (h : NonDegenTri vcur ts) (f : Nat → ℝ) :
    0 ≤ Coo.form (Fem.massTria true vcur ts) f f ∧
    ((∃ τ ∈ ts, f τ.1 ≠ 0 ∨ f τ.2.1 ≠ 0 ∨ f τ.2.2 ≠ 0) → 0 < Coo.form (Fem.massTria true vcur ts) f f) := by
  have hd := C02.lumped_diagonal vcur ts h
  have hp := C02.massTria_values_pos true vcur ts h
  have hnn := diag_form_terms _ hd hp f
  refine ⟨List.sum_nonneg hnn, ?_⟩
  rintro ⟨τ, hτ, hf⟩
  -- a diagonal triplet at a vertex where `f ≠ 0`
  have hex : ∃ e ∈ Fem.massTria true vcur ts, f e.1.1 ≠ 0 := by
    rw [C02.massTria_blocks true vcur ts h]
    have hb : C02.triMassBlock true vcur τ ∈ ts.map (C02.triMassBlock true vcur) := List.mem_map.mpr ⟨τ, hτ, rfl⟩
    obtain ⟨t1, t2, t3⟩ := τ
    rcases hf with hf | hf | hf
    · exact ⟨((t1, t1), Fem.triVol (vcur t1) (vcur t2) (vcur t3) / ((12 : Nat) : ℝ)),
        List.mem_flatten.mpr ⟨_, hb, by simp [C02.triMassBlock, Fem.triBlockL]⟩, hf⟩
    · exact ⟨((t2, t2), Fem.triVol (vcur t1) (vcur t2) (vcur t3) / ((12 : Nat) : ℝ)),
        List.mem_flatten.mpr ⟨_, hb, by simp [C02.triMassBlock, Fem.triBlockL]⟩, hf⟩
    · exact ⟨((t3, t3), Fem.triVol (vcur t1) (vcur t2) (vcur t3) / ((12 : Nat) : ℝ)),
        List.mem_flatten.mpr ⟨_, hb, by simp [C02.triMassBlock, Fem.triBlockL]⟩, hf⟩
  obtain ⟨e, he, hfe⟩ := hex
  have hmem : f e.1.1 * e.2 * f e.1.2 ∈ (Fem.massTria true vcur ts).map (fun e => f e.1.1 * e.2 * f e.1.2) :=
    List.mem_map.mpr ⟨e, he, rfl⟩
  have hle := List.single_le_sum hnn _ hmem
  have hpos : 0 < f e.1.1 * e.2 * f e.1.2 := by
    rw [← hd e he]
    have := hp e he
    have := mul_self_pos.mpr hfe
    nlinarith
  exact lt_of_lt_of_le hpos hle

/-- **`flow_mass_pd` for the model**: the matrix of every flow iteration is positive definite on the vertices used by
    the mesh, whenever the current iterate has no degenerate triangle -/
theorem flow_system_pd (step : ℝ) (A0 : Coo ℝ) (vcur : Nat → V3 ℝ) (ts : List Tri) (h : NonDegenTri vcur ts)
    (hA : ∀ f, 0 ≤ Coo.form A0 f f) (hstep : 0 ≤ step) (f : Nat → ℝ)
    (hf : ∃ τ ∈ ts, f τ.1 ≠ 0 ∨ f τ.2.1 ≠ 0 ∨ f τ.2.2 ≠ 0) :
    0 < Coo.form (Flow.stepMatrix step A0 vcur ts) f f := by
  rw [stepMatrix_eq_solver step A0 vcur ts h, C07.form_heatMat]
  have h1 := (lumped_form_pos vcur ts h f).2 hf
  have h2 := mul_nonneg hstep (hA f)
  linarith

/-! ### the quality gates and the stopping quantity -/

/-- **a mesh is returned (`none`) exactly when all four gates pass** -/
theorem gates_spec (svol fl sp : ℝ) :
    Flow.gates svol fl sp = none ↔
      ¬ (95 / 100 < fl) ∧ ¬ (svol < 99 / 100) ∧ ¬ (8 / 10000 < fl) ∧ ¬ (sp < 6 / 10) := by
  unfold Flow.gates
  push_cast
  by_cases h1 : (95 : ℝ) / 100 < fl
  · simp [h1]
  · by_cases h2 : svol < 99 / 100
    · simp [h1, h2]
    · by_cases h3 : (8 : ℝ) / 10000 < fl
      · simp [h1, h2, h3]
      · by_cases h4 : sp < 6 / 10
        · simp [h1, h2, h3, h4]
        · simp [h1, h2, h3, h4]

/-- the first gate is implied by the third: the message "global normal flip" wins whenever `fl > 0.95` -/
theorem gates_accept_range (svol fl sp : ℝ) (h : Flow.gates svol fl sp = none) :
    fl ≤ 8 / 10000 ∧ 99 / 100 ≤ svol ∧ 6 / 10 ≤ sp := by
  obtain ⟨_, h2, h3, h4⟩ := (gates_spec svol fl sp).mp h
  exact ⟨not_lt.mp h3, not_lt.mp h2, not_lt.mp h4⟩

/-- the stopping quantity is a sum of three squares -/
theorem stepDiff_nonneg (M : Coo ℝ) (dv : List (V3 ℝ)) : 0 ≤ Flow.stepDiff M dv := by
  unfold Flow.stepDiff
  simp only []
  nlinarith [mul_self_nonneg (((List.range dv.length).map fun i => (dv.getD i ⟨0, 0, 0⟩).x *
      Coo.mulVec M (fun j => (dv.getD j ⟨0, 0, 0⟩).x) i).sum),
    mul_self_nonneg (((List.range dv.length).map fun i => (dv.getD i ⟨0, 0, 0⟩).y *
      Coo.mulVec M (fun j => (dv.getD j ⟨0, 0, 0⟩).y) i).sum),
    mul_self_nonneg (((List.range dv.length).map fun i => (dv.getD i ⟨0, 0, 0⟩).z *
      Coo.mulVec M (fun j => (dv.getD j ⟨0, 0, 0⟩).z) i).sum)]

/-! ### non-vacuity (the positive-definiteness of the flow system is instantiated in `Props/Examples.lean`) -/
section Examples

example : Flow.maxL ([1, -3, 2] : List ℝ) = 2 ∧ Flow.minL ([1, -3, 2] : List ℝ) = -3 := by
  rw [maxL_eq_lmax, minL_eq_lmin]
  constructor <;> simp [lmax, lmin] <;> norm_num

/-- an eigenfunction that decreases along the axis is negated by the model -/
example : Flow.alignAxis ([1, -1] : List ℝ) [0, 5] = [-1, 1] := by
  rw [alignAxis_eq]
  have h1 : hiMean [1, -1] [0, 5] = 0 := by norm_num [hiMean, lmax, mean, List.filter_cons]
  have h2 : loMean [1, -1] [0, 5] = 5 := by norm_num [loMean, lmin, mean, List.filter_cons]
  simp [axisFlip, h1, h2]

example : normSq (Flow.project100 (⟨3, 4, 0⟩ : V3 ℝ)) = 100 * 100 := flow_project_radius _ (by v3_flat; norm_num)

/-- a good sphere passes the gates; each gate can fail -/
example : Flow.gates (0.995 : ℝ) 0.0001 0.7 = none := by
  rw [gates_spec]; norm_num
example : Flow.gates (0.98 : ℝ) 0.0001 0.7 ≠ none := by
  rw [Ne, gates_spec]; norm_num
example : Flow.gates (0.995 : ℝ) 0.97 0.7 = some "global normal flip" := by
  unfold Flow.gates; norm_num

end Examples

end LapyVerif.Props.C19
