import LapyVerif.Props.C01
import LapyVerif.Model.DiffGeo
/-
  C06 — gradient and divergence are exact on linear data and mutually adjoint.
  Model: `DiffGeo.*` (tied to `lapy/diffgeo.py` by `Bridge/DiffGeo.lean`).  All statements hold for every vertex map,
  every element list and every per-element vector field, under the complement of the kernels' own degeneracy guard.
-/
namespace LapyVerif.Props.C06
open LapyVerif V3

/-- complement of the guard `ln < eps` of the triangle kernels -/
def NonDegenLn (vtx : Nat → V3 ℝ) (ts : List Tri) : Prop :=
  ∀ τ ∈ ts, ¬ (Real.sqrt (normSq (Spec.triN (vtx τ.1) (vtx τ.2.1) (vtx τ.2.2))) < epsK)

theorem triNormal_eq (v0 v1 v2 : V3 ℝ) : cross (v1 - v0) (-(v0 - v2)) = Spec.triN v0 v1 v2 := by
  apply V3.ext' <;> (simp only [Spec.triN]; v3_flat; ring)

theorem triNormalLen_eq (v0 v1 v2 : V3 ℝ) (h : ¬ (Real.sqrt (normSq (Spec.triN v0 v1 v2)) < epsK)) :
    DiffGeo.triNormalLen v0 v1 v2 = (Spec.triN v0 v1 v2, Real.sqrt (normSq (Spec.triN v0 v1 v2))) := by
  simp only [DiffGeo.triNormalLen, triNormal_eq, DiffGeo.guard1, sqrt_real, if_neg h]

theorem sqrt_pos_of_guard {N : ℝ} (h : ¬ (Real.sqrt N < epsK)) : 0 < Real.sqrt N :=
  lt_of_lt_of_le epsK_pos (not_lt.mp h)

/-- **the triangle gradient is the gradient of the linear interpolant**, whatever the winding of the triangle -/
theorem triGrad_eq_spec (v0 v1 v2 : V3 ℝ) (f0 f1 f2 : ℝ) (h : ¬ (Real.sqrt (normSq (Spec.triN v0 v1 v2)) < epsK)) :
    DiffGeo.triGrad1 v0 v1 v2 f0 f1 f2 = Spec.gradTri v0 v1 v2 f0 f1 f2 := by
  have hs := sqrt_pos_of_guard h
  have hN : 0 < normSq (Spec.triN v0 v1 v2) := Real.sqrt_pos.mp hs
  have hss : Real.sqrt (normSq (Spec.triN v0 v1 v2)) * Real.sqrt (normSq (Spec.triN v0 v1 v2)) = normSq (Spec.triN v0 v1 v2) :=
    Real.mul_self_sqrt hN.le
  unfold DiffGeo.triGrad1
  rw [triNormalLen_eq v0 v1 v2 h]
  simp only [Spec.gradTri]
  set s := Real.sqrt (normSq (Spec.triN v0 v1 v2)) with hsdef
  set n := Spec.triN v0 v1 v2
  have hs0 : s ≠ 0 := hs.ne'
  have key : ∀ w : V3 ℝ, smul (((1 : Nat) : ℝ) / s) (cross (smul (((1 : Nat) : ℝ) / s) n) w) = smul (1 / normSq n) (cross n w) := by
    intro w
    rw [← hss]
    apply V3.ext' <;> (v3_flat; push_cast; field_simp)
  exact key _

theorem triGrad_char (v0 v1 v2 : V3 ℝ) (f0 f1 f2 : ℝ) (h : ¬ (Real.sqrt (normSq (Spec.triN v0 v1 v2)) < epsK)) :
    let g := DiffGeo.triGrad1 v0 v1 v2 f0 f1 f2
    dot g (v1 - v0) = f1 - f0 ∧ dot g (v2 - v0) = f2 - f0 ∧ dot g (Spec.triN v0 v1 v2) = 0 := by
  have hN : normSq (Spec.triN v0 v1 v2) ≠ 0 := (Real.sqrt_pos.mp (sqrt_pos_of_guard h)).ne'
  simp only [triGrad_eq_spec v0 v1 v2 f0 f1 f2 h]
  exact Spec.gradTri_char v0 v1 v2 f0 f1 f2 hN

/-- always tangent to the triangle -/
theorem triGrad_tangent (v0 v1 v2 : V3 ℝ) (f0 f1 f2 : ℝ) (h : ¬ (Real.sqrt (normSq (Spec.triN v0 v1 v2)) < epsK)) :
    dot (DiffGeo.triGrad1 v0 v1 v2 f0 f1 f2) (Spec.triN v0 v1 v2) = 0 :=
  (triGrad_char v0 v1 v2 f0 f1 f2 h).2.2

/-- for an affine function `a·x + b` the gradient is the projection of `a` onto the triangle plane -/
theorem triGrad_affine (v0 v1 v2 a : V3 ℝ) (b : ℝ) (h : ¬ (Real.sqrt (normSq (Spec.triN v0 v1 v2)) < epsK)) :
    DiffGeo.triGrad1 v0 v1 v2 (dot a v0 + b) (dot a v1 + b) (dot a v2 + b)
      = a - smul (dot a (Spec.triN v0 v1 v2) / normSq (Spec.triN v0 v1 v2)) (Spec.triN v0 v1 v2) := by
  have hN : normSq (Spec.triN v0 v1 v2) ≠ 0 := (Real.sqrt_pos.mp (sqrt_pos_of_guard h)).ne'
  rw [triGrad_eq_spec v0 v1 v2 _ _ _ h]
  symm
  apply Spec.gradTri_unique v0 v1 v2 _ _ _ hN
  · simp only [Spec.triN]; v3_flat; field_simp; ring
  · simp only [Spec.triN]; v3_flat; field_simp; ring
  · have : dot (a - smul (dot a (Spec.triN v0 v1 v2) / normSq (Spec.triN v0 v1 v2)) (Spec.triN v0 v1 v2)) (Spec.triN v0 v1 v2)
        = dot a (Spec.triN v0 v1 v2) - dot a (Spec.triN v0 v1 v2) / normSq (Spec.triN v0 v1 v2) * normSq (Spec.triN v0 v1 v2) := by
      v3_flat; ring
    rw [this]; field_simp; ring

/-! ### tetrahedra -/

/-- complement of the guard `|vol| < eps` of the tetra gradient -/
def NonDegenDet (vtx : Nat → V3 ℝ) (ts : List Tet) : Prop :=
  ∀ τ ∈ ts, ¬ (|Spec.tetDet (vtx τ.1) (vtx τ.2.1) (vtx τ.2.2.1) (vtx τ.2.2.2)| < epsK)

theorem tetGradVol_eq (v0 v1 v2 v3 : V3 ℝ) (h : ¬ (|Spec.tetDet v0 v1 v2 v3| < epsK)) :
    DiffGeo.tetGradVol v0 v1 v2 v3 = - Spec.tetDet v0 v1 v2 v3 := by
  have e : dot (v3 - v0) (cross (v1 - v0) (v0 - v2)) = - Spec.tetDet v0 v1 v2 v3 := by
    simp only [Spec.tetDet]; v3_flat; ring
  have h' : ¬ (|dot (v3 - v0) (cross (v1 - v0) (v0 - v2))| < epsK) := by rw [e, abs_neg]; exact h
  simp only [DiffGeo.tetGradVol, abs_real]
  rw [if_neg h', e]

/-- **the tetra gradient is the gradient of the linear interpolant for either orientation of the element** -/
theorem tetGrad_eq_spec (v0 v1 v2 v3 : V3 ℝ) (f0 f1 f2 f3 : ℝ) (h : ¬ (|Spec.tetDet v0 v1 v2 v3| < epsK)) :
    DiffGeo.tetGrad1 v0 v1 v2 v3 f0 f1 f2 f3 = Spec.gradTet v0 v1 v2 v3 f0 f1 f2 f3 := by
  have hd : Spec.tetDet v0 v1 v2 v3 ≠ 0 := by
    intro h0; rw [h0, abs_zero] at h; exact h epsK_pos
  unfold DiffGeo.tetGrad1
  rw [tetGradVol_eq v0 v1 v2 v3 h]
  simp only [Spec.gradTet]
  set D := Spec.tetDet v0 v1 v2 v3
  apply V3.ext' <;> (v3_flat; push_cast; field_simp; ring)

theorem tetGrad_char (v0 v1 v2 v3 : V3 ℝ) (f0 f1 f2 f3 : ℝ) (h : ¬ (|Spec.tetDet v0 v1 v2 v3| < epsK)) :
    let g := DiffGeo.tetGrad1 v0 v1 v2 v3 f0 f1 f2 f3
    dot g (v1 - v0) = f1 - f0 ∧ dot g (v2 - v0) = f2 - f0 ∧ dot g (v3 - v0) = f3 - f0 := by
  have hd : Spec.tetDet v0 v1 v2 v3 ≠ 0 := by
    intro h0; rw [h0, abs_zero] at h; exact h epsK_pos
  simp only [tetGrad_eq_spec v0 v1 v2 v3 f0 f1 f2 f3 h]
  exact Spec.gradTet_char v0 v1 v2 v3 f0 f1 f2 f3 hd

/-- for an affine function `a·x + b` the tetra gradient is `a` — for positively AND negatively oriented elements -/
theorem tetGrad_affine (v0 v1 v2 v3 a : V3 ℝ) (b : ℝ) (h : ¬ (|Spec.tetDet v0 v1 v2 v3| < epsK)) :
    DiffGeo.tetGrad1 v0 v1 v2 v3 (dot a v0 + b) (dot a v1 + b) (dot a v2 + b) (dot a v3 + b) = a := by
  have hd : Spec.tetDet v0 v1 v2 v3 ≠ 0 := by
    intro h0; rw [h0, abs_zero] at h; exact h epsK_pos
  rw [tetGrad_eq_spec v0 v1 v2 v3 _ _ _ _ h]
  symm
  apply Spec.gradTet_unique v0 v1 v2 v3 _ _ _ _ hd <;> (v3_flat; ring)

/-! ### adjointness -/

/-- per triangle: `½ Σ_k f_k x_k = − area · X·∇f` for EVERY vector `X` (only its tangential part enters either side) -/
theorem triDiv1_adjoint (v0 v1 v2 X : V3 ℝ) (f0 f1 f2 : ℝ) (h : ¬ (Real.sqrt (normSq (Spec.triN v0 v1 v2)) < epsK)) :
    let x := DiffGeo.triDiv1 v0 v1 v2 X
    f0 * (DiffGeo.half * x.1) + f1 * (DiffGeo.half * x.2.1) + f2 * (DiffGeo.half * x.2.2)
      = - (Spec.triArea v0 v1 v2 * dot X (Spec.gradTri v0 v1 v2 f0 f1 f2)) := by
  have hs := sqrt_pos_of_guard h
  have hN : 0 < normSq (Spec.triN v0 v1 v2) := Real.sqrt_pos.mp hs
  have hss := Real.mul_self_sqrt hN.le
  simp only [DiffGeo.triDiv1]
  rw [triNormalLen_eq v0 v1 v2 h]
  simp only [Spec.triArea, Spec.gradTri, DiffGeo.half]
  set s := Real.sqrt (normSq (Spec.triN v0 v1 v2)) with hsdef
  have hs0 : s ≠ 0 := hs.ne'
  have hN' : normSq (Spec.triN v0 v1 v2) = s * s := hss.symm
  rw [hN']
  simp only [Spec.triN]
  v3_flat
  push_cast
  field_simp
  ring

/-- the edge-normal variant computes the same three values, for every `X` -/
theorem triDiv2_eq_triDiv1 (v0 v1 v2 X : V3 ℝ) (h : ¬ (Real.sqrt (normSq (Spec.triN v0 v1 v2)) < epsK)) :
    DiffGeo.triDiv2_1 v0 v1 v2 X = DiffGeo.triDiv1 v0 v1 v2 X := by
  have hs := sqrt_pos_of_guard h
  simp only [DiffGeo.triDiv2_1, DiffGeo.triDiv1]
  rw [triNormalLen_eq v0 v1 v2 h]
  set s := Real.sqrt (normSq (Spec.triN v0 v1 v2)) with hsdef
  have hs0 : s ≠ 0 := hs.ne'
  simp only [Prod.mk.injEq, Spec.triN]
  and_intros <;> (v3_flat; push_cast; field_simp; ring)

theorem neg_sum_map {α : Type} (l : List α) (g : α → ℝ) : -(l.map g).sum = (l.map fun a => -g a).sum := by
  induction l with
  | nil => simp
  | cons a l ih => simp [← ih]; ring

/-- **Σ_i f_i div(X)_i = − Σ_τ area(τ) X_τ·∇_τ f** -/
theorem triDiv_adjoint (vtx : Nat → V3 ℝ) (ts : List Tri) (Xs : List (V3 ℝ)) (h : NonDegenLn vtx ts) (f : Nat → ℝ) :
    Coo.form (DiffGeo.triDiv vtx ts Xs) f (fun _ => 1) =
      - ((ts.zip Xs).map fun p => Spec.triArea (vtx p.1.1) (vtx p.1.2.1) (vtx p.1.2.2) *
          dot p.2 (Spec.gradTri (vtx p.1.1) (vtx p.1.2.1) (vtx p.1.2.2) (f p.1.1) (f p.1.2.1) (f p.1.2.2))).sum := by
  unfold DiffGeo.triDiv
  rw [Coo.form_flatten, List.map_map, neg_sum_map]
  congr 1
  apply List.map_congr_left
  intro p hp
  obtain ⟨⟨t0, t1, t2⟩, X⟩ := p
  have hτ : (t0, t1, t2) ∈ ts := (List.of_mem_zip hp).1
  have := triDiv1_adjoint (vtx t0) (vtx t1) (vtx t2) X (f t0) (f t1) (f t2) (h _ hτ)
  simp only [Function.comp, Coo.form, List.map, List.sum_cons, List.sum_nil] at this ⊢
  linarith

/-- the entries of `div(X)` sum to zero -/
theorem triDiv_sum_zero (vtx : Nat → V3 ℝ) (ts : List Tri) (Xs : List (V3 ℝ)) (h : NonDegenLn vtx ts) :
    Coo.total (DiffGeo.triDiv vtx ts Xs) = 0 := by
  have := triDiv_adjoint vtx ts Xs h (fun _ => 1)
  have e : Coo.form (DiffGeo.triDiv vtx ts Xs) (fun _ => 1) (fun _ => 1) = Coo.total (DiffGeo.triDiv vtx ts Xs) := by
    simp [Coo.form, Coo.total]
  rw [← e, this, neg_eq_zero]
  apply List.sum_eq_zero
  intro x hx
  obtain ⟨p, _, rfl⟩ := List.mem_map.mp hx
  rw [C01.gradTri_const]; v3_flat; ring

/-- the two triangle divergences are the same matrix of triplets, for every field -/
theorem triDiv2_eq_triDiv (vtx : Nat → V3 ℝ) (ts : List Tri) (Xs : List (V3 ℝ)) (h : NonDegenLn vtx ts) :
    DiffGeo.triDiv2 vtx ts Xs = DiffGeo.triDiv vtx ts Xs := by
  unfold DiffGeo.triDiv2 DiffGeo.triDiv
  congr 1
  apply List.map_congr_left
  intro p hp
  obtain ⟨⟨t0, t1, t2⟩, X⟩ := p
  have hτ : (t0, t1, t2) ∈ ts := (List.of_mem_zip hp).1
  simp only [triDiv2_eq_triDiv1 _ _ _ X (h _ hτ)]

theorem nondegenTri_of_ln (vtx : Nat → V3 ℝ) (ts : List Tri) (h : NonDegenLn vtx ts) : NonDegenTri vtx ts := by
  intro τ hτ
  have h1 := not_lt.mp (h τ hτ)
  rw [FemTri.triVol_eq, Spec.triArea]
  have h0 : 0 ≤ Real.sqrt (normSq (Spec.triN (vtx τ.1) (vtx τ.2.1) (vtx τ.2.2))) := Real.sqrt_nonneg _
  apply not_lt.mpr
  linarith

/-- **div(grad f) = −A f**: row by row, with `A` the stiffness matrix of C01 -/
theorem triDiv_grad (vtx : Nat → V3 ℝ) (ts : List Tri) (h : NonDegenLn vtx ts) (f : Nat → ℝ) (i : Nat) :
    Coo.mulVec (DiffGeo.triDiv vtx ts (DiffGeo.triGrad vtx ts f)) (fun _ => 1) i
      = - Coo.mulVec (Fem.stiffTria vtx ts) f i := by
  rw [Coo.mulVec_eq_form, Coo.mulVec_eq_form, triDiv_adjoint vtx ts _ h,
    C01.stiff_form vtx ts (nondegenTri_of_ln vtx ts h)]
  congr 1
  unfold DiffGeo.triGrad
  rw [zip_map_self]
  congr 1
  apply List.map_congr_left
  intro τ hτ
  simp only [triGrad_eq_spec _ _ _ _ _ _ (h τ hτ)]
  rw [C01.dot_comm]

/-! ### adjointness on tetrahedra -/

theorem sgn_neg_det (D : ℝ) (hD : D ≠ 0) : DiffGeo.sgn (-D) * D = -|D| := by
  unfold DiffGeo.sgn
  rcases lt_or_gt_of_ne hD with h | h
  · have h1 : ¬ (-D < 0) := by linarith
    have h2 : (0 : ℝ) < -D := by linarith
    rw [if_neg h1, if_pos h2, abs_of_neg h]; push_cast; ring
  · have h1 : -D < 0 := by linarith
    rw [if_pos h1, abs_of_pos h]; push_cast; ring

/-- per tetrahedron: `−(1/6) Σ_k f_k x_k = − vol · X·∇f`, for either orientation -/
theorem tetDiv1_adjoint (v0 v1 v2 v3 X : V3 ℝ) (f0 f1 f2 f3 : ℝ) (hd : Spec.tetDet v0 v1 v2 v3 ≠ 0) :
    let x := DiffGeo.tetDiv1 v0 v1 v2 v3 X
    let c : ℝ := -(((1 : Nat) : ℝ) / ((6 : Nat) : ℝ))
    f0 * (c * x.1) + f1 * (c * x.2.1) + f2 * (c * x.2.2.1) + f3 * (c * x.2.2.2)
      = - (Spec.tetVolume v0 v1 v2 v3 * dot X (Spec.gradTet v0 v1 v2 v3 f0 f1 f2 f3)) := by
  intro x c
  have e : dot (v3 - v0) (cross (v2 - v0) (v1 - v0)) = - Spec.tetDet v0 v1 v2 v3 := by
    simp only [Spec.tetDet]; v3_flat; ring
  have hsg := sgn_neg_det (Spec.tetDet v0 v1 v2 v3) hd
  simp only [x, c, DiffGeo.tetDiv1, e, Spec.tetVolume, Spec.gradTet]
  set D := Spec.tetDet v0 v1 v2 v3 with hD
  set σ := DiffGeo.sgn (-D) with hσ
  have habs : |D| = -(σ * D) := by rw [hsg]; ring
  rw [habs]
  have hDD : D = Spec.tetDet v0 v1 v2 v3 := hD
  -- expand D only where it multiplies: keep 1/D symbolic, clear denominators
  have key : ∀ (P : V3 ℝ), dot X (smul (1 / D) P) = dot X P / D := by intro P; v3_flat; field_simp
  rw [key]
  have hnum : f0 * (-(((1 : Nat) : ℝ) / ((6 : Nat) : ℝ)) * dot (smul σ (cross (v2 - v1) (v3 - v1))) X)
      + f1 * (-(((1 : Nat) : ℝ) / ((6 : Nat) : ℝ)) * dot (smul σ (cross (v3 - v0) (v2 - v0))) X)
      + f2 * (-(((1 : Nat) : ℝ) / ((6 : Nat) : ℝ)) * dot (smul σ (cross (v1 - v0) (v3 - v0))) X)
      + f3 * (-(((1 : Nat) : ℝ) / ((6 : Nat) : ℝ)) * dot (smul σ (cross (v2 - v0) (v1 - v0))) X)
      = σ / 6 * dot X (smul (f1 - f0) (cross (v2 - v0) (v3 - v0)) + smul (f2 - f0) (cross (v3 - v0) (v1 - v0))
          + smul (f3 - f0) (cross (v1 - v0) (v2 - v0))) := by
    v3_flat; push_cast; ring
  rw [hnum]
  field_simp

/-- **Σ_i f_i div(X)_i = − Σ_τ vol(τ) X_τ·∇_τ f** on tetrahedral meshes of any (mixed) orientation -/
theorem tetDiv_adjoint (vtx : Nat → V3 ℝ) (ts : List Tet) (Xs : List (V3 ℝ)) (h : NonDegenDet vtx ts) (f : Nat → ℝ) :
    Coo.form (DiffGeo.tetDiv vtx ts Xs) f (fun _ => 1) =
      - ((ts.zip Xs).map fun p => Spec.tetVolume (vtx p.1.1) (vtx p.1.2.1) (vtx p.1.2.2.1) (vtx p.1.2.2.2) *
          dot p.2 (Spec.gradTet (vtx p.1.1) (vtx p.1.2.1) (vtx p.1.2.2.1) (vtx p.1.2.2.2)
            (f p.1.1) (f p.1.2.1) (f p.1.2.2.1) (f p.1.2.2.2))).sum := by
  unfold DiffGeo.tetDiv
  simp only []
  rw [Coo.form_flatten, List.map_map, neg_sum_map]
  congr 1
  apply List.map_congr_left
  intro p hp
  obtain ⟨⟨t0, t1, t2, t3⟩, X⟩ := p
  have hτ : (t0, t1, t2, t3) ∈ ts := (List.of_mem_zip hp).1
  have hd : Spec.tetDet (vtx t0) (vtx t1) (vtx t2) (vtx t3) ≠ 0 := by
    intro h0; have := h _ hτ; simp only [] at this; rw [h0, abs_zero] at this; exact this epsK_pos
  have := tetDiv1_adjoint (vtx t0) (vtx t1) (vtx t2) (vtx t3) X (f t0) (f t1) (f t2) (f t3) hd
  simp only [Function.comp, Coo.form, List.map, List.sum_cons, List.sum_nil] at this ⊢
  linarith

theorem tetDiv_sum_zero (vtx : Nat → V3 ℝ) (ts : List Tet) (Xs : List (V3 ℝ)) (h : NonDegenDet vtx ts) :
    Coo.total (DiffGeo.tetDiv vtx ts Xs) = 0 := by
  have := tetDiv_adjoint vtx ts Xs h (fun _ => 1)
  have e : Coo.form (DiffGeo.tetDiv vtx ts Xs) (fun _ => 1) (fun _ => 1) = Coo.total (DiffGeo.tetDiv vtx ts Xs) := by
    simp [Coo.form, Coo.total]
  rw [← e, this, neg_eq_zero]
  apply List.sum_eq_zero
  intro x hx
  obtain ⟨p, _, rfl⟩ := List.mem_map.mp hx
  rw [C01.gradTet_const]; v3_flat; ring

theorem nondegenTet_of_det (vtx : Nat → V3 ℝ) (ts : List Tet) (h : NonDegenDet vtx ts) : NonDegenTet vtx ts := by
  intro τ hτ
  rw [FemTet.tetVol_eq]
  intro h0
  have := h τ hτ
  rw [h0] at this
  exact this epsK_pos

/-- **div(grad f) = −A f** on tetrahedral meshes -/
theorem tetDiv_grad (vtx : Nat → V3 ℝ) (ts : List Tet) (h : NonDegenDet vtx ts) (f : Nat → ℝ) (i : Nat) :
    Coo.mulVec (DiffGeo.tetDiv vtx ts (DiffGeo.tetGrad vtx ts f)) (fun _ => 1) i
      = - Coo.mulVec (Fem.stiffTet vtx ts) f i := by
  rw [Coo.mulVec_eq_form, Coo.mulVec_eq_form, tetDiv_adjoint vtx ts _ h,
    C01.stiff_form_tet vtx ts (nondegenTet_of_det vtx ts h)]
  congr 1
  unfold DiffGeo.tetGrad
  rw [zip_map_self]
  congr 1
  apply List.map_congr_left
  intro τ hτ
  simp only [tetGrad_eq_spec _ _ _ _ _ _ _ _ (h τ hτ)]
  rw [C01.dot_comm]

/-- every triplet of a divergence has column 0, so the summed entry `(i,0)` is the `i`-th component of the vector -/
theorem entry_col0 (m : Coo ℝ) (h : ∀ e ∈ m, e.1.2 = 0) (i : Nat) :
    Coo.entry m i 0 = Coo.mulVec m (fun _ => 1) i := by
  induction m with
  | nil => rfl
  | cons e m ih =>
    have he := h e (by simp)
    have ih' := ih (fun e' he' => h e' (by simp [he']))
    simp only [Coo.entry, Coo.mulVec] at ih' ⊢
    by_cases h1 : e.1.1 = i <;> simp [h1, he, ih']

end LapyVerif.Props.C06
