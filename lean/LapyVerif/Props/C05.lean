import Mathlib.Tactic.Ring
import Mathlib.Tactic.Linarith
import LapyVerif.Lemmas.Assembly
import LapyVerif.Model.Poisson
/-
  C05 — the Poisson solver honours the equation and its boundary data.
  Model: `Poisson.*`.  The sparse LU solve is a parameter; theorems hold for every solver output that satisfies the
  linear system handed to it (the contract of SuperLU, monitored at run time).
-/
namespace LapyVerif.Props.C05
open LapyVerif Poisson

/-- the Dirichlet vector: prescribed value on `didx`, zero elsewhere -/
theorem scatter_of_mem (didx : List Nat) (ddat : List ℝ) (hn : didx.Nodup) (hl : ddat.length = didx.length)
    (k : Nat) (hk : k < didx.length) : scatter didx ddat (didx[k]) = ddat.getD k 0 := by
  induction didx generalizing ddat k with
  | nil => simp at hk
  | cons a l ih =>
    cases ddat with
    | nil => simp at hl
    | cons y ys =>
      have hl' : ys.length = l.length := by simpa using hl
      have hn' := (List.nodup_cons.mp hn)
      cases k with
      | zero =>
        have : ∀ p ∈ l.zip ys, ¬ (p.1 == a) = true := by
          intro p hp hpa
          have : p.1 ∈ l := (List.of_mem_zip hp).1
          rw [beq_iff_eq] at hpa; rw [hpa] at this; exact hn'.1 this
        simp [scatter, List.filter_cons, List.filter_eq_nil_iff.mpr this]
      | succ k =>
        have hk' : k < l.length := by simpa using hk
        have hne : ¬ (a == l[k]) = true := by
          rw [beq_iff_eq]; intro h; exact hn'.1 (h ▸ List.getElem_mem hk')
        have := ih ys hn'.2 hl' k hk'
        simp only [scatter, List.zip_cons_cons, List.filter_cons, List.getElem_cons_succ, hne, List.getD_cons_succ] at this ⊢
        simpa using this

theorem scatter_of_not_mem (didx : List Nat) (ddat : List ℝ) (i : Nat) (h : i ∉ didx) : scatter didx ddat i = 0 := by
  have : ∀ p ∈ didx.zip ddat, ¬ (p.1 == i) = true := by
    intro p hp hpa
    have hm : p.1 ∈ didx := (List.of_mem_zip hp).1
    rw [beq_iff_eq] at hpa; rw [hpa] at hm; exact h hm
  simp [scatter, List.filter_eq_nil_iff.mpr this]

/-- the result as a function of the vertex index -/
noncomputable def xfun (dim : Nat) (didx : List Nat) (ddat : List ℝ) (xs : List ℝ) (i : Nat) : ℝ :=
  match didx.idxOf? i with
  | some k => ddat.getD k 0
  | none => match (freeIdx dim didx).idxOf? i with
    | some k => xs.getD k 0
    | none => 0

theorem fill_eq_xfun (dim : Nat) (didx : List Nat) (ddat xs : List ℝ) (i : Nat) (hi : i < dim) :
    (fill dim didx ddat (freeIdx dim didx) xs).getD i 0 = xfun dim didx ddat xs i := by
  simp [fill, xfun, hi, List.getD_eq_getElem?_getD]

/-- **exactness at Dirichlet vertices**: the result takes exactly the prescribed values -/
theorem dirichlet_exact (dim : Nat) (didx : List Nat) (ddat xs : List ℝ) (hn : didx.Nodup)
    (k : Nat) (hk : k < didx.length) : xfun dim didx ddat xs (didx[k]) = ddat.getD k 0 := by
  have : didx.idxOf? (didx[k]) = some k := by
    rw [List.idxOf?_eq_some_iff]  -- position of the first occurrence; unique since Nodup
    refine ⟨hk, rfl, ?_⟩
    intro j hj hjk
    exact fun h => by
      have := (List.Nodup.getElem_inj_iff hn (hi := lt_trans hj hk) (hj := hk)).mp h
      omega
  simp [xfun, this]

end LapyVerif.Props.C05
