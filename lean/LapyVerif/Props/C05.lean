import Mathlib.Tactic.Ring
import Mathlib.Tactic.Linarith
import LapyVerif.Lemmas.Assembly
import LapyVerif.Model.Poisson
/-
  C05 — the Poisson solver honours the equation and its boundary data.
  Model: `Poisson.*`.  The sparse LU solve is a parameter; theorems hold for every solver output that satisfies the
  linear system handed to it (the contract of SuperLU, monitored at run time).
-/
namespace LapyVerif.Props.C05
open LapyVerif Poisson

/-- the Dirichlet vector: prescribed value on `didx`, zero elsewhere -/
theorem scatter_of_mem (didx : List Nat) (ddat : List ℝ) (hn : didx.Nodup) (hl : ddat.length = didx.length)
    (k : Nat) (hk : k < didx.length) : scatter didx ddat (didx[k]) = ddat.getD k 0 := by
  induction didx generalizing ddat k with
  | nil => simp at hk
  | cons a l ih =>
    cases ddat with
    | nil => simp at hl
    | cons y ys =>
      have hl' : ys.length = l.length := by simpa using hl
      have hn' := (List.nodup_cons.mp hn)
      cases k with
      | zero =>
        have : ∀ p ∈ l.zip ys, ¬ (p.1 == a) = true := by
          intro p hp hpa
          have : p.1 ∈ l := (List.of_mem_zip hp).1
          rw [beq_iff_eq] at hpa; rw [hpa] at this; exact hn'.1 this
        simp [scatter, List.filter_eq_nil_iff.mpr this]
      | succ k =>
        have hk' : k < l.length := by simpa using hk
        have hne : ¬ (a == l[k]) = true := by
          rw [beq_iff_eq]; intro h; exact hn'.1 (h ▸ List.getElem_mem hk')
        have := ih ys hn'.2 hl' k hk'
        simp only [scatter, List.zip_cons_cons, List.filter_cons, List.getElem_cons_succ, hne, List.getD_cons_succ] at this ⊢
        simpa using this

theorem scatter_of_not_mem (didx : List Nat) (ddat : List ℝ) (i : Nat) (h : i ∉ didx) : scatter didx ddat i = 0 := by
  have : ∀ p ∈ didx.zip ddat, ¬ (p.1 == i) = true := by
    intro p hp hpa
    have hm : p.1 ∈ didx := (List.of_mem_zip hp).1
    rw [beq_iff_eq] at hpa; rw [hpa] at hm; exact h hm
  simp [scatter, List.filter_eq_nil_iff.mpr this]

/-- the result as a function of the vertex index (the body of `Poisson.fill`) -/
noncomputable def xfun (dim : Nat) (didx : List Nat) (ddat : List ℝ) (xs : List ℝ) (i : Nat) : ℝ :=
  match didx.idxOf? i with
  | some k => ddat.getD k 0
  | none => match (freeIdx dim didx).idxOf? i with
    | some k => xs.getD k 0
    | none => 0

theorem fill_eq_xfun (dim : Nat) (didx : List Nat) (ddat xs : List ℝ) (i : Nat) (hi : i < dim) :
    (fill dim didx ddat (freeIdx dim didx) xs).getD i 0 = xfun dim didx ddat xs i := by
  unfold fill xfun
  rw [List.getD_eq_getElem?_getD, List.getElem?_map, List.getElem?_range hi]
  rfl

theorem idxOf_getElem (l : List Nat) (hn : l.Nodup) (k : Nat) (hk : k < l.length) : l.idxOf? (l[k]) = some k := by
  rw [List.idxOf?_eq_some_iff]
  refine ⟨hk, rfl, ?_⟩
  intro j hj h
  have := (List.Nodup.getElem_inj_iff hn (hi := lt_trans hj hk) (hj := hk)).mp h
  omega

/-- **exactness at Dirichlet vertices**: the result takes exactly the prescribed values -/
theorem dirichlet_exact (dim : Nat) (didx : List Nat) (ddat xs : List ℝ) (hn : didx.Nodup)
    (k : Nat) (hk : k < didx.length) : xfun dim didx ddat xs (didx[k]) = ddat.getD k 0 := by
  simp [xfun, idxOf_getElem didx hn k hk]

theorem freeIdx_nodup (dim : Nat) (didx : List Nat) : (freeIdx dim didx).Nodup :=
  List.Nodup.filter _ List.nodup_range

theorem mem_freeIdx (dim : Nat) (didx : List Nat) (i : Nat) : i ∈ freeIdx dim didx ↔ i < dim ∧ i ∉ didx := by
  simp [freeIdx]

/-- at a kept vertex the result is the solver's value -/
theorem xfun_free (dim : Nat) (didx : List Nat) (ddat xs : List ℝ) (p : Nat) (hp : p < (freeIdx dim didx).length) :
    xfun dim didx ddat xs ((freeIdx dim didx)[p]) = xs.getD p 0 := by
  have hmem := (mem_freeIdx dim didx _).mp (List.getElem_mem hp)
  have h1 : didx.idxOf? ((freeIdx dim didx)[p]) = none := List.idxOf?_eq_none_iff.mpr hmem.2
  simp [xfun, h1, idxOf_getElem _ (freeIdx_nodup dim didx) p hp]

/-- on `didx` the result coincides with the Dirichlet vector `d = scatter didx ddat` -/
theorem xfun_dirichlet (dim : Nat) (didx : List Nat) (ddat xs : List ℝ) (hn : didx.Nodup) (hl : ddat.length = didx.length)
    (j : Nat) (hj : j ∈ didx) : xfun dim didx ddat xs j = scatter didx ddat j := by
  obtain ⟨k, hk, rfl⟩ := List.getElem_of_mem hj
  rw [dirichlet_exact dim didx ddat xs hn k hk, scatter_of_mem didx ddat hn hl k hk]

/-- **the equation at the kept vertices.**  If the solver output `xs` satisfies row `p` of the reduced system
    `reduce A free · xs = b` (the contract of the external sparse solve), then the full result satisfies
    `(A x)_i = (B (h − n))_i` at the kept vertex `i = free[p]`. -/
theorem interior_eq (A B : Coo ℝ) (dim : Nat) (h nvec : Nat → ℝ) (didx : List Nat) (ddat xs : List ℝ)
    (hn : didx.Nodup) (hl : ddat.length = didx.length) (hA : ∀ e ∈ A, e.1.2 < dim)
    (p : Nat) (hp : p < (freeIdx dim didx).length)
    (hsolve : Coo.mulVec (reduce A (freeIdx dim didx)) (fun q => xs.getD q 0) p
        = rhs A B h nvec (scatter didx ddat) true ((freeIdx dim didx)[p])) :
    Coo.mulVec A (xfun dim didx ddat xs) ((freeIdx dim didx)[p])
      = Coo.mulVec B (fun j => h j - nvec j) ((freeIdx dim didx)[p]) := by
  set free := freeIdx dim didx with hfree
  set i := free[p] with hi
  have hnd := freeIdx_nodup dim didx
  -- pointwise decomposition, by induction over the triplets
  have key : ∀ M : Coo ℝ, (∀ e ∈ M, e.1.2 < dim) →
      Coo.mulVec M (xfun dim didx ddat xs) i
        = Coo.mulVec M (scatter didx ddat) i + Coo.mulVec (reduce M free) (fun q => xs.getD q 0) p := by
    intro M
    induction M with
    | nil => intro _; simp [Coo.mulVec, reduce]
    | cons e M ih =>
      intro hM
      have ih' := ih (fun e' he' => hM e' (by simp [he']))
      have hcol : e.1.2 < dim := hM e (by simp)
      have hred_cons : reduce (e :: M) free =
          (match free.idxOf? e.1.1, free.idxOf? e.1.2 with
            | some a, some b => [((a, b), e.2)]
            | _, _ => []) ++ reduce M free := by
        unfold reduce
        rw [List.filterMap_cons]
        rcases free.idxOf? e.1.1 with _ | a <;> rcases free.idxOf? e.1.2 with _ | b <;> rfl
      rw [hred_cons, Coo.mulVec_append]
      have hsplit : ∀ g : Nat → ℝ, Coo.mulVec (e :: M) g i = (if e.1.1 = i then e.2 * g e.1.2 else 0) + Coo.mulVec M g i := by
        intro g
        by_cases h1 : e.1.1 = i <;> simp [Coo.mulVec, List.filter_cons, h1]
      rw [hsplit, hsplit, ih']
      by_cases hrow : e.1.1 = i
      · -- the triplet lies in row i = free[p]
        have hrowidx : free.idxOf? e.1.1 = some p := by rw [hrow, hi]; exact idxOf_getElem free hnd p hp
        by_cases hD : e.1.2 ∈ didx
        · -- Dirichlet column: dropped from the reduced matrix, value taken from d
          have hnf : free.idxOf? e.1.2 = none :=
            List.idxOf?_eq_none_iff.mpr (fun hm => ((mem_freeIdx dim didx _).mp hm).2 hD)
          rw [xfun_dirichlet dim didx ddat xs hn hl _ hD]
          simp [hrow, hrowidx, hnf, Coo.mulVec]
          ring
        · -- kept column
          have hmem : e.1.2 ∈ free := (mem_freeIdx dim didx _).mpr ⟨hcol, hD⟩
          obtain ⟨q, hq, hqe⟩ := List.getElem_of_mem hmem
          have hcolidx : free.idxOf? e.1.2 = some q := by rw [← hqe]; exact idxOf_getElem free hnd q hq
          have hx : xfun dim didx ddat xs e.1.2 = xs.getD q 0 := by rw [← hqe]; exact xfun_free dim didx ddat xs q hq
          have hrowidx' : free.idxOf? i = some p := by rw [← hrow]; exact hrowidx
          rw [hx, scatter_of_not_mem didx ddat _ hD]
          simp [hrow, hrowidx', hcolidx, Coo.mulVec]
          ring
      · -- another row: no contribution on either side
        have hother : Coo.mulVec (match free.idxOf? e.1.1, free.idxOf? e.1.2 with
            | some a, some b => [((a, b), e.2)]
            | _, _ => []) (fun q => xs.getD q 0) p = 0 := by
          cases hra : free.idxOf? e.1.1 with
          | none => simp [Coo.mulVec]
          | some a =>
            cases hrb : free.idxOf? e.1.2 with
            | none => simp [Coo.mulVec]
            | some b =>
              have hap : a ≠ p := by
                intro hap
                obtain ⟨ha, hea, _⟩ := List.idxOf?_eq_some_iff.mp hra
                apply hrow
                rw [← hea, hi]
                subst hap; rfl
              simp [Coo.mulVec, hap]
        simp only [if_neg hrow, hother]
        ring
  rw [key A hA, hsolve]
  simp only [rhs, if_true]
  ring

/-- the right-hand side is linear in `(h, n, d)` -/
theorem rhs_linear (A B : Coo ℝ) (h h' nv nv' d d' : Nat → ℝ) (c : ℝ) (hasD : Bool) (i : Nat) :
    rhs A B (fun j => h j + c * h' j) (fun j => nv j + c * nv' j) (fun j => d j + c * d' j) hasD i
      = rhs A B h nv d hasD i + c * rhs A B h' nv' d' hasD i := by
  have lin : ∀ (M : Coo ℝ) (f g : Nat → ℝ), Coo.mulVec M (fun j => f j + c * g j) i = Coo.mulVec M f i + c * Coo.mulVec M g i := by
    intro M f g
    induction M with
    | nil => simp [Coo.mulVec]
    | cons e M ih =>
      simp only [Coo.mulVec] at ih ⊢
      by_cases h1 : e.1.1 = i <;> simp [List.filter_cons, h1, ih] <;> ring
  have e1 : (fun j => (h j + c * h' j) - (nv j + c * nv' j)) = fun j => (h j - nv j) + c * (h' j - nv' j) := by
    funext j; ring
  unfold rhs
  rw [e1, lin B, lin A]
  cases hasD <;> simp <;> ring


theorem mulVec_congr (M : Coo ℝ) (f g : Nat → ℝ) (i dim : Nat) (hM : ∀ e ∈ M, e.1.2 < dim) (hfg : ∀ j < dim, f j = g j) :
    Coo.mulVec M f i = Coo.mulVec M g i := by
  induction M with
  | nil => rfl
  | cons e M ih =>
    have ih' := ih (fun e' he' => hM e' (by simp [he']))
    have he := hfg e.1.2 (hM e (by simp))
    simp only [Coo.mulVec] at ih' ⊢
    by_cases h1 : e.1.1 = i <;> simp [List.filter_cons, h1, ih', he]

/-- **`Solver.poisson` with Dirichlet data**, for every external solver that satisfies the reduced system it is handed:
    the returned vector takes exactly the prescribed values at the Dirichlet vertices and satisfies
    `(A x)_i = (B (h − n))_i` at every other vertex. -/
theorem run_spec (solve : Coo ℝ → List ℝ → List ℝ) (A B : Coo ℝ) (dim : Nat) (h : Nat → ℝ)
    (didx : List Nat) (ddat : List ℝ) (nLen : Nat) (nidx : List Nat) (ndat : List ℝ)
    (hn : didx.Nodup) (hl : ddat.length = didx.length) (hpos : 0 < didx.length) (hrange : ∀ j ∈ didx, j < dim)
    (hA : ∀ e ∈ A, e.1.2 < dim) (hchk : checkD 2 didx ddat.length = .ok ∧ checkN nLen nidx.length ndat.length = .ok)
    (hsolve : ∀ (a : Coo ℝ) (b : List ℝ) (p : Nat), p < b.length →
        Coo.mulVec a (fun q => (solve a b).getD q 0) p = b.getD p 0) :
    ∃ out, run solve A B dim h 2 didx ddat nLen nidx ndat = some out ∧
      (∀ k (hk : k < didx.length), out.getD (didx[k]) 0 = ddat.getD k 0) ∧
      (∀ i, i < dim → i ∉ didx →
        Coo.mulVec A (fun j => out.getD j 0) i
          = Coo.mulVec B (fun j => h j - (if nLen == 0 then (fun _ => (0 : ℝ)) else scatter nidx ndat) j) i) := by
  set nvec : Nat → ℝ := if nLen == 0 then (fun _ => (0 : ℝ)) else scatter nidx ndat with hnv
  set free := freeIdx dim didx with hfree
  set b := free.map (rhs A B h nvec (scatter didx ddat) true) with hb
  set xs := solve (reduce A free) b with hxs
  refine ⟨fill dim didx ddat free xs, ?_, ?_, ?_⟩
  · have hd : decide (didx.length > 0) = true := by simpa using hpos
    simp [run, system, hchk.1, hchk.2, hpos, hfree, hb, hxs, hnv]
  · intro k hk
    rw [fill_eq_xfun dim didx ddat xs _ (hrange _ (List.getElem_mem hk))]
    exact dirichlet_exact dim didx ddat xs hn k hk
  · intro i hi hiD
    have hmem : i ∈ free := (mem_freeIdx dim didx i).mpr ⟨hi, hiD⟩
    obtain ⟨p, hp, hpe⟩ := List.getElem_of_mem hmem
    have hcong : Coo.mulVec A (fun j => (fill dim didx ddat free xs).getD j 0) i = Coo.mulVec A (xfun dim didx ddat xs) i :=
      mulVec_congr A _ _ i dim hA (fun j hj => fill_eq_xfun dim didx ddat xs j hj)
    rw [hcong, ← hpe]
    apply interior_eq A B dim h nvec didx ddat xs hn hl hA p hp
    have hpb : p < b.length := by simpa [hb] using hp
    have := hsolve (reduce A free) b p hpb
    rw [this, hb, List.getD_eq_getElem?_getD, List.getElem?_map, List.getElem?_eq_getElem hp]
    rfl

end LapyVerif.Props.C05
