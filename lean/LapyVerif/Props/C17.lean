import Mathlib.Tactic.Linarith
import Mathlib.Tactic.Positivity
import LapyVerif.Lemmas.Isometry
import LapyVerif.Lemmas.FemTri
import LapyVerif.Props.C01
import LapyVerif.Model.Curvature
/-
  C17 — curvature post-processing returns an ordered, oriented principal frame; the per-triangle directions are an
  orthonormal frame of the triangle plane; the anisotropic stiffness matrix built from such a frame is a symmetric,
  positive semi-definite form dominated by the isotropic one, and equals it for weights 1.
  Models: `Curvature.post`, `Curvature.triaDirs` (`Model/Curvature.lean`), `Fem.stiffTriaAniso` (`Model/Fem.lean`).
-/
namespace LapyVerif.Props.C17
open LapyVerif V3 Curvature

/-! ### 1. the stable three-element argsort -/

/-- closed form of the insertion sort -/
theorem argsort3_eq (k0 k1 k2 : ℝ) : argsort3 k0 k1 k2 =
    if k1 < k0 then
      (if k2 < k1 then (2, 1, 0) else if k2 < k0 then (1, 2, 0) else (1, 0, 2))
    else
      (if k2 < k0 then (2, 0, 1) else if k2 < k1 then (0, 2, 1) else (0, 1, 2)) := by
  by_cases h10 : k1 < k0 <;> by_cases h20 : k2 < k0 <;> by_cases h21 : k2 < k1 <;>
    simp [argsort3, argsort3.go, h10, h20, h21]

/-- **`argsort3` returns a permutation of `(0,1,2)` along which the keys ascend** -/
theorem argsort3_perm (k : Nat → ℝ) :
    let r := argsort3 (k 0) (k 1) (k 2)
    (r = (0, 1, 2) ∨ r = (0, 2, 1) ∨ r = (1, 0, 2) ∨ r = (1, 2, 0) ∨ r = (2, 0, 1) ∨ r = (2, 1, 0)) ∧
    k r.1 ≤ k r.2.1 ∧ k r.2.1 ≤ k r.2.2 := by
  intro r
  have hr : r = argsort3 (k 0) (k 1) (k 2) := rfl
  rw [argsort3_eq] at hr
  by_cases h10 : k 1 < k 0 <;> by_cases h20 : k 2 < k 0 <;> by_cases h21 : k 2 < k 1 <;>
    simp only [h10, h20, h21, if_true, if_false] at hr <;> rw [hr] <;>
    refine ⟨by simp, ?_, ?_⟩ <;> simp only <;> linarith

/-- stability: equal keys keep their input order -/
theorem argsort3_stable (c : ℝ) : argsort3 c c c = (0, 1, 2) := by
  rw [argsort3_eq]; simp

/-- the three returned indices are `< 3` and pairwise distinct -/
theorem argsort3_indices (k0 k1 k2 : ℝ) :
    let r := argsort3 k0 k1 k2
    r.1 < 3 ∧ r.2.1 < 3 ∧ r.2.2 < 3 ∧ r.1 ≠ r.2.1 ∧ r.2.1 ≠ r.2.2 ∧ r.1 ≠ r.2.2 := by
  intro r
  have h := (argsort3_perm (fun i => if i = 0 then k0 else if i = 1 then k1 else k2)).1
  simp only [if_true, one_ne_zero, if_false, OfNat.ofNat_ne_zero, OfNat.ofNat_ne_one] at h
  have hr : r = argsort3 k0 k1 k2 := rfl
  rcases h with h | h | h | h | h | h <;> rw [hr, h] <;> simp

/-! ### 2. the frame returned by `Curvature.post` -/

/-- the body of `post` after the argsort, with the three indices as parameters -/
noncomputable def postIdx (ev : Nat → ℝ) (evec : Nat → V3 ℝ) (vn : V3 ℝ) (i0 i1 i2 : Nat) : Frame ℝ :=
  let cmin := if ev i2 < ev i1 then ev i2 else ev i1
  let cmax := if ev i2 < ev i1 then ev i1 else ev i2
  let umin := if ev i2 < ev i1 then evec i1 else evec i2
  let umax := if ev i2 < ev i1 then evec i2 else evec i1
  let normal := smul (sgn (dot (evec i0) vn)) (evec i0)
  { umin := umin
    umax := if dot (cross umin umax) normal < 0 then -umax else umax
    cmin := cmin, cmax := cmax
    cmean := (ev i1 + ev i2) / ((2 : Nat) : ℝ)
    cgauss := ev i1 * ev i2
    normal := normal }

/-- the alignment keys `−|e_j · n_v|` -/
noncomputable def alignKey (evec : Nat → V3 ℝ) (vn : V3 ℝ) (j : Nat) : ℝ := -|dot (evec j) vn|

/-- the argsort of the alignment keys: `i0` = best aligned with the vertex normal -/
noncomputable def alignIdx (evec : Nat → V3 ℝ) (vn : V3 ℝ) : Nat × Nat × Nat :=
  argsort3 (alignKey evec vn 0) (alignKey evec vn 1) (alignKey evec vn 2)

theorem post_eq (ev : Nat → ℝ) (evec : Nat → V3 ℝ) (vn : V3 ℝ) :
    post ev evec vn =
      postIdx ev evec vn (alignIdx evec vn).1 (alignIdx evec vn).2.1 (alignIdx evec vn).2.2 := by
  unfold post postIdx
  simp only [abs_real]
  by_cases h : ev (alignIdx evec vn).2.2 < ev (alignIdx evec vn).2.1 <;>
    simp only [alignIdx, alignKey] at h ⊢ <;> simp [h]

/-- the contract of the external symmetric eigen-solver: the three returned eigenvectors are orthonormal -/
def Orthonormal3 (evec : Nat → V3 ℝ) : Prop :=
  ∀ i j, i < 3 → j < 3 → dot (evec i) (evec j) = if i = j then 1 else 0

/-- an orthonormal triple -/
structure ON3 (u w n : V3 ℝ) : Prop where
  uu : dot u u = 1
  ww : dot w w = 1
  nn : dot n n = 1
  uw : dot u w = 0
  un : dot u n = 0
  wn : dot w n = 0

theorem dot_comm (a b : V3 ℝ) : dot a b = dot b a := by v3_flat; ring

theorem ON3.swap {u w n : V3 ℝ} (h : ON3 u w n) : ON3 w u n :=
  ⟨h.ww, h.uu, h.nn, by rw [dot_comm]; exact h.uw, h.wn, h.un⟩

/-- squared triple product of an orthonormal triple (Gram determinant) -/
theorem ON3.det_sq {u w n : V3 ℝ} (h : ON3 u w n) : dot (cross u w) n * dot (cross u w) n = 1 := by
  have e : dot (cross u w) n * dot (cross u w) n =
      dot u u * (dot w w * dot n n - dot w n * dot w n) - dot u w * (dot u w * dot n n - dot w n * dot u n)
        + dot u n * (dot u w * dot w n - dot w w * dot u n) := by v3_flat; ring
  rw [e, h.uu, h.ww, h.nn, h.uw, h.un, h.wn]; ring

theorem ON3.det_abs {u w n : V3 ℝ} (h : ON3 u w n) : |dot (cross u w) n| = 1 := by
  have := h.det_sq
  rw [← abs_mul_abs_self] at this
  nlinarith [abs_nonneg (dot (cross u w) n)]

theorem orthonormal3_ON3 {evec : Nat → V3 ℝ} (h : Orthonormal3 evec) {i0 i1 i2 : Nat} (h0 : i0 < 3) (h1 : i1 < 3)
    (h2 : i2 < 3) (d01 : i0 ≠ i1) (d12 : i1 ≠ i2) (d02 : i0 ≠ i2) : ON3 (evec i2) (evec i1) (evec i0) :=
  ⟨by rw [h i2 i2 h2 h2, if_pos rfl], by rw [h i1 i1 h1 h1, if_pos rfl], by rw [h i0 i0 h0 h0, if_pos rfl],
   by rw [h i2 i1 h2 h1, if_neg (Ne.symm d12)], by rw [h i2 i0 h2 h0, if_neg (Ne.symm d02)],
   by rw [h i1 i0 h1 h0, if_neg (Ne.symm d01)]⟩

/-! the sign function of the model -/
theorem sgn_mul_self (x : ℝ) : sgn x * x = |x| := by
  unfold sgn
  by_cases h1 : x < 0
  · rw [if_pos h1, abs_of_neg h1]; push_cast; ring
  · by_cases h2 : 0 < x
    · rw [if_neg h1, if_pos h2, abs_of_pos h2]; push_cast; ring
    · have : x = 0 := le_antisymm (not_lt.mp h2) (not_lt.mp h1)
      rw [if_neg h1, if_neg h2, this]; simp

theorem sgn_sq {x : ℝ} (hx : x ≠ 0) : sgn x * sgn x = 1 := by
  unfold sgn
  by_cases h1 : x < 0
  · rw [if_pos h1]; push_cast; ring
  · have h2 : 0 < x := lt_of_le_of_ne (not_lt.mp h1) (Ne.symm hx)
    rw [if_neg h1, if_pos h2]; push_cast; ring

theorem sgn_abs {x : ℝ} (hx : x ≠ 0) : |sgn x| = 1 := by
  have := sgn_sq hx
  rw [← abs_mul_abs_self] at this
  nlinarith [abs_nonneg (sgn x)]

theorem sgn_zero : sgn (0 : ℝ) = 0 := by simp [sgn]

/-- the core of the orientation step: given an orthonormal triple `(u, w, n)` and a sign `s`, flipping `w` when the
    triple product with `s • n` is negative produces a frame whose triple product with `s • n` is `|s|` -/
theorem orient_core {u w n : V3 ℝ} (h : ON3 u w n) (s : ℝ) :
    let w' := if dot (cross u w) (smul s n) < 0 then -w else w
    dot w' w' = 1 ∧ dot u w' = 0 ∧ dot w' n = 0 ∧ dot (cross u w') (smul s n) = |s| := by
  intro w'
  have hd : dot (cross u w) (smul s n) = s * dot (cross u w) n := by v3_flat; ring
  have ht := h.det_abs
  by_cases hneg : dot (cross u w) (smul s n) < 0
  · have hw' : w' = -w := if_pos hneg
    rw [hw']
    refine ⟨?_, ?_, ?_, ?_⟩
    · have : dot (-w) (-w) = dot w w := by v3_flat; ring
      rw [this, h.ww]
    · have : dot u (-w) = -dot u w := by v3_flat; ring
      rw [this, h.uw]; simp
    · have : dot (-w) n = -dot w n := by v3_flat; ring
      rw [this, h.wn]; simp
    · have : dot (cross u (-w)) (smul s n) = -dot (cross u w) (smul s n) := by v3_flat; ring
      rw [this, ← abs_of_neg hneg, hd, abs_mul, ht, mul_one]
  · have hw' : w' = w := if_neg hneg
    rw [hw']
    refine ⟨h.ww, h.uw, h.wn, ?_⟩
    rw [← abs_of_nonneg (not_lt.mp hneg), hd, abs_mul, ht, mul_one]

/-- a vector orthogonal to three vectors with non-zero triple product vanishes -/
theorem eq_zero_of_orth {a b c d : V3 ℝ} (hdet : dot a (cross b c) ≠ 0) (ha : dot d a = 0) (hb : dot d b = 0)
    (hc : dot d c = 0) : d = ⟨0, 0, 0⟩ := by
  have ex : dot a (cross b c) * d.x = dot d a * (cross b c).x + dot d b * (cross c a).x + dot d c * (cross a b).x := by
    v3_flat; ring
  have ey : dot a (cross b c) * d.y = dot d a * (cross b c).y + dot d b * (cross c a).y + dot d c * (cross a b).y := by
    v3_flat; ring
  have ez : dot a (cross b c) * d.z = dot d a * (cross b c).z + dot d b * (cross c a).z + dot d c * (cross a b).z := by
    v3_flat; ring
  rw [ha, hb, hc] at ex ey ez
  simp only [zero_mul, add_zero] at ex ey ez
  apply V3.ext'
  · exact (mul_eq_zero.mp ex).resolve_left hdet
  · exact (mul_eq_zero.mp ey).resolve_left hdet
  · exact (mul_eq_zero.mp ez).resolve_left hdet

/-- everything about `postIdx` for an orthonormal triple `(evec i2, evec i1, evec i0)` -/
theorem postIdx_frame (ev : Nat → ℝ) (evec : Nat → V3 ℝ) (vn : V3 ℝ) (i0 i1 i2 : Nat)
    (h : ON3 (evec i2) (evec i1) (evec i0)) :
    let F := postIdx ev evec vn i0 i1 i2
    F.cmin ≤ F.cmax ∧ F.cmean = (F.cmin + F.cmax) / 2 ∧ F.cgauss = F.cmin * F.cmax ∧
    ((F.cmin = ev i1 ∧ F.cmax = ev i2 ∧ F.umin = evec i2 ∧ (F.umax = evec i1 ∨ F.umax = -evec i1)) ∨
     (F.cmin = ev i2 ∧ F.cmax = ev i1 ∧ F.umin = evec i1 ∧ (F.umax = evec i2 ∨ F.umax = -evec i2))) ∧
    dot F.umin F.umin = 1 ∧ dot F.umax F.umax = 1 ∧ dot F.umin F.umax = 0 ∧
    dot F.umin (evec i0) = 0 ∧ dot F.umax (evec i0) = 0 ∧
    F.normal = smul (sgn (dot (evec i0) vn)) (evec i0) ∧
    dot F.normal vn = |dot (evec i0) vn| ∧
    dot (cross F.umin F.umax) F.normal = |sgn (dot (evec i0) vn)| := by
  intro F
  by_cases hs : ev i2 < ev i1
  · -- swapped
    obtain ⟨o1, o2, o3, o4⟩ := orient_core h.swap (sgn (dot (evec i0) vn))
    have hF : F = { umin := evec i1,
                    umax := if dot (cross (evec i1) (evec i2)) (smul (sgn (dot (evec i0) vn)) (evec i0)) < 0
                      then -evec i2 else evec i2,
                    cmin := ev i2, cmax := ev i1, cmean := (ev i1 + ev i2) / ((2 : Nat) : ℝ), cgauss := ev i1 * ev i2,
                    normal := smul (sgn (dot (evec i0) vn)) (evec i0) } := by
      simp only [F, postIdx, if_pos hs]
    rw [hF]
    refine ⟨hs.le, by push_cast; ring, by ring, Or.inr ⟨rfl, rfl, rfl, ?_⟩, h.ww, o1, o2, h.wn, o3, rfl, ?_, o4⟩
    · by_cases hd : dot (cross (evec i1) (evec i2)) (smul (sgn (dot (evec i0) vn)) (evec i0)) < 0
      · right; simp only [if_pos hd]
      · left; simp only [if_neg hd]
    · have : dot (smul (sgn (dot (evec i0) vn)) (evec i0)) vn = sgn (dot (evec i0) vn) * dot (evec i0) vn := by
        v3_flat; ring
      simp only [this, sgn_mul_self]
  · obtain ⟨o1, o2, o3, o4⟩ := orient_core h (sgn (dot (evec i0) vn))
    have hF : F = { umin := evec i2,
                    umax := if dot (cross (evec i2) (evec i1)) (smul (sgn (dot (evec i0) vn)) (evec i0)) < 0
                      then -evec i1 else evec i1,
                    cmin := ev i1, cmax := ev i2, cmean := (ev i1 + ev i2) / ((2 : Nat) : ℝ), cgauss := ev i1 * ev i2,
                    normal := smul (sgn (dot (evec i0) vn)) (evec i0) } := by
      simp only [F, postIdx, if_neg hs]
    rw [hF]
    refine ⟨not_lt.mp hs, by push_cast; ring, by ring, Or.inl ⟨rfl, rfl, rfl, ?_⟩, h.uu, o1, o2, h.un, o3, rfl, ?_, o4⟩
    · by_cases hd : dot (cross (evec i2) (evec i1)) (smul (sgn (dot (evec i0) vn)) (evec i0)) < 0
      · right; simp only [if_pos hd]
      · left; simp only [if_neg hd]
    · have : dot (smul (sgn (dot (evec i0) vn)) (evec i0)) vn = sgn (dot (evec i0) vn) * dot (evec i0) vn := by
        v3_flat; ring
      simp only [this, sgn_mul_self]

/-- the orthonormal triple selected by the alignment sort -/
theorem align_ON3 {evec : Nat → V3 ℝ} (hon : Orthonormal3 evec) (vn : V3 ℝ) :
    ON3 (evec (alignIdx evec vn).2.2) (evec (alignIdx evec vn).2.1) (evec (alignIdx evec vn).1) := by
  obtain ⟨h0, h1, h2, d01, d12, d02⟩ := argsort3_indices (alignKey evec vn 0) (alignKey evec vn 1) (alignKey evec vn 2)
  exact orthonormal3_ON3 hon h0 h1 h2 d01 d12 d02

/-- the selected eigenvector is the one best aligned with the vertex normal -/
theorem align_best (evec : Nat → V3 ℝ) (vn : V3 ℝ) (j : Nat) (hj : j < 3) :
    |dot (evec j) vn| ≤ |dot (evec (alignIdx evec vn).1) vn| := by
  obtain ⟨hp, h1, h2⟩ := argsort3_perm (alignKey evec vn)
  obtain ⟨_, _, _, d01, d12, d02⟩ := argsort3_indices (alignKey evec vn 0) (alignKey evec vn 1) (alignKey evec vn 2)
  have hr : alignIdx evec vn = argsort3 (alignKey evec vn 0) (alignKey evec vn 1) (alignKey evec vn 2) := rfl
  simp only [← hr] at hp h1 h2 d01 d12 d02
  have key : ∀ i, alignKey evec vn (alignIdx evec vn).1 ≤ alignKey evec vn i →
      |dot (evec i) vn| ≤ |dot (evec (alignIdx evec vn).1) vn| := by
    intro i hi; simp only [alignKey] at hi; linarith
  have hj' : j = (alignIdx evec vn).1 ∨ j = (alignIdx evec vn).2.1 ∨ j = (alignIdx evec vn).2.2 := by
    rcases hp with h | h | h | h | h | h <;> rw [h] <;> simp only <;> omega
  rcases hj' with h | h | h
  · rw [h]
  · rw [h]; exact key _ h1
  · rw [h]; exact key _ (h1.trans h2)

/-- **the frame returned by `Curvature.post`**: ordered principal curvatures, symmetric functions, an orthonormal
    tangent pair orthogonal to the selected eigenvector `n₀ = evec i0` (the best aligned with `vn`), the normal
    `sgn(n₀·vn) n₀`, never pointing against `vn`, and a non-negative triple product -/
theorem frame_post (ev : Nat → ℝ) (evec : Nat → V3 ℝ) (vn : V3 ℝ) (hon : Orthonormal3 evec) :
    let F := post ev evec vn
    let n0 := evec (alignIdx evec vn).1
    F.cmin ≤ F.cmax ∧ F.cmean = (F.cmin + F.cmax) / 2 ∧ F.cgauss = F.cmin * F.cmax ∧
    dot F.umin F.umin = 1 ∧ dot F.umax F.umax = 1 ∧ dot F.umin F.umax = 0 ∧
    dot F.umin n0 = 0 ∧ dot F.umax n0 = 0 ∧
    F.normal = smul (sgn (dot n0 vn)) n0 ∧
    (∀ j, j < 3 → |dot (evec j) vn| ≤ |dot n0 vn|) ∧
    dot F.normal vn = |dot n0 vn| ∧ 0 ≤ dot F.normal vn ∧
    0 ≤ dot (cross F.umin F.umax) F.normal := by
  intro F n0
  have hF : F = postIdx ev evec vn (alignIdx evec vn).1 (alignIdx evec vn).2.1 (alignIdx evec vn).2.2 := post_eq ev evec vn
  obtain ⟨a1, a2, a3, _, a5, a6, a7, a8, a9, a10, a11, a12⟩ := postIdx_frame ev evec vn _ _ _ (align_ON3 hon vn)
  rw [← hF] at a1 a2 a3 a5 a6 a7 a8 a9 a10 a11 a12
  exact ⟨a1, a2, a3, a5, a6, a7, a8, a9, a10, align_best evec vn, a11, by rw [a11]; exact abs_nonneg _,
    by rw [a12]; exact abs_nonneg _⟩

/-- which eigenvalue goes with which direction: `umin` is the eigenvector of `cmax` and `umax` (up to sign) that of
    `cmin` — the code pairs them crosswise (for the curvature tensor the direction of minimal curvature is the
    eigenvector of the larger eigenvalue) -/
theorem frame_post_pairing (ev : Nat → ℝ) (evec : Nat → V3 ℝ) (vn : V3 ℝ) (hon : Orthonormal3 evec) :
    let F := post ev evec vn
    ∃ j1 j2, j1 < 3 ∧ j2 < 3 ∧ j1 ≠ j2 ∧ j1 ≠ (alignIdx evec vn).1 ∧ j2 ≠ (alignIdx evec vn).1 ∧
      F.cmin = ev j1 ∧ F.cmax = ev j2 ∧ F.umin = evec j2 ∧ (F.umax = evec j1 ∨ F.umax = -evec j1) := by
  intro F
  have hF : F = postIdx ev evec vn (alignIdx evec vn).1 (alignIdx evec vn).2.1 (alignIdx evec vn).2.2 := post_eq ev evec vn
  obtain ⟨h0, h1, h2, d01, d12, d02⟩ := argsort3_indices (alignKey evec vn 0) (alignKey evec vn 1) (alignKey evec vn 2)
  obtain ⟨_, _, _, a4, _⟩ := postIdx_frame ev evec vn _ _ _ (align_ON3 hon vn)
  rw [← hF] at a4
  rcases a4 with ⟨c1, c2, c3, c4⟩ | ⟨c1, c2, c3, c4⟩
  · exact ⟨_, _, h1, h2, d12, Ne.symm d01, Ne.symm d02, c1, c2, c3, c4⟩
  · exact ⟨_, _, h2, h1, Ne.symm d12, Ne.symm d02, Ne.symm d01, c1, c2, c3, c4⟩

/-- **generic case `n₀·vn ≠ 0`: a right-handed orthonormal frame whose normal points to the side of `vn`** -/
theorem frame_post_oriented (ev : Nat → ℝ) (evec : Nat → V3 ℝ) (vn : V3 ℝ) (hon : Orthonormal3 evec)
    (hne : dot (evec (alignIdx evec vn).1) vn ≠ 0) :
    let F := post ev evec vn
    dot F.normal F.normal = 1 ∧ dot F.umin F.normal = 0 ∧ dot F.umax F.normal = 0 ∧ 0 < dot F.normal vn ∧
    dot (cross F.umin F.umax) F.normal = 1 := by
  intro F
  have hF : F = postIdx ev evec vn (alignIdx evec vn).1 (alignIdx evec vn).2.1 (alignIdx evec vn).2.2 := post_eq ev evec vn
  have hon3 := align_ON3 hon vn
  obtain ⟨_, _, _, _, _, _, _, a8, a9, a10, a11, a12⟩ := postIdx_frame ev evec vn _ _ _ hon3
  rw [← hF] at a8 a9 a10 a11 a12
  have hsm : ∀ (a b : V3 ℝ) (s : ℝ), dot a (smul s b) = s * dot a b := by intro a b s; v3_flat; ring
  refine ⟨?_, ?_, ?_, ?_, ?_⟩
  · rw [a10]
    have : dot (smul (sgn (dot (evec (alignIdx evec vn).1) vn)) (evec (alignIdx evec vn).1))
        (smul (sgn (dot (evec (alignIdx evec vn).1) vn)) (evec (alignIdx evec vn).1))
        = sgn (dot (evec (alignIdx evec vn).1) vn) * sgn (dot (evec (alignIdx evec vn).1) vn) *
          dot (evec (alignIdx evec vn).1) (evec (alignIdx evec vn).1) := by v3_flat; ring
    rw [this, sgn_sq hne, hon3.nn]; ring
  · rw [a10, hsm, a8]; ring
  · rw [a10, hsm, a9]; ring
  · rw [a11]; exact abs_pos.mpr hne
  · rw [a12, sgn_abs hne]

/-- **degenerate case `n₀·vn = 0`**: this happens exactly when the vertex normal is the zero vector; then the returned
    "normal" is the zero vector (not a unit vector) and the handedness test is void (triple product 0) -/
theorem frame_post_degenerate (ev : Nat → ℝ) (evec : Nat → V3 ℝ) (vn : V3 ℝ) (hon : Orthonormal3 evec) :
    (dot (evec (alignIdx evec vn).1) vn = 0 ↔ vn = ⟨0, 0, 0⟩) ∧
    (dot (evec (alignIdx evec vn).1) vn = 0 →
      (post ev evec vn).normal = ⟨0, 0, 0⟩ ∧
      dot (cross (post ev evec vn).umin (post ev evec vn).umax) (post ev evec vn).normal = 0) := by
  have hF : post ev evec vn = postIdx ev evec vn (alignIdx evec vn).1 (alignIdx evec vn).2.1 (alignIdx evec vn).2.2 :=
    post_eq ev evec vn
  have hon3 := align_ON3 hon vn
  obtain ⟨_, _, _, _, _, _, _, _, _, a10, _, a12⟩ := postIdx_frame ev evec vn _ _ _ hon3
  rw [← hF] at a10 a12
  refine ⟨⟨fun h0 => ?_, fun hv => ?_⟩, fun h0 => ⟨?_, ?_⟩⟩
  · have hz : ∀ j, j < 3 → dot vn (evec j) = 0 := by
      intro j hj
      have := align_best evec vn j hj
      rw [h0, abs_zero] at this
      rw [dot_comm]; exact abs_eq_zero.mp (le_antisymm this (abs_nonneg _))
    have hdet : dot (evec 0) (cross (evec 1) (evec 2)) ≠ 0 := by
      have hO : ON3 (evec 1) (evec 2) (evec 0) :=
        ⟨by rw [hon 1 1 (by omega) (by omega), if_pos rfl], by rw [hon 2 2 (by omega) (by omega), if_pos rfl],
         by rw [hon 0 0 (by omega) (by omega), if_pos rfl], by rw [hon 1 2 (by omega) (by omega), if_neg (by omega)],
         by rw [hon 1 0 (by omega) (by omega), if_neg (by omega)], by rw [hon 2 0 (by omega) (by omega), if_neg (by omega)]⟩
      have := hO.det_abs
      rw [dot_comm] at this
      intro hc; rw [hc, abs_zero] at this; exact zero_ne_one this
    exact eq_zero_of_orth hdet (hz 0 (by omega)) (hz 1 (by omega)) (hz 2 (by omega))
  · rw [hv]; v3_flat; ring
  · rw [a10, h0, sgn_zero]; apply V3.ext' <;> (v3_flat; ring)
  · rw [a12, h0, sgn_zero, abs_zero]

/-! ### 3. the per-triangle directions of `curvature_tria` -/

/-- the threshold `1e-8` of `np.maximum(·, 1e-8)` -/
noncomputable def e8 : ℝ := 1 / 100000000

theorem e8_pos : 0 < e8 := by unfold e8; norm_num

theorem floor8_of_ge {x : ℝ} (h : ¬ x < e8) : floor8 x = x := by
  have : ¬ x < ((1 : Nat) : ℝ) / ((100000000 : Nat) : ℝ) := by
    simpa [e8] using h
  simp only [floor8, if_neg this]

/-- unit normal of the triangle as computed by `triaDirs` when the floor is inactive -/
noncomputable def unitNormal (v0 v1 v2 : V3 ℝ) : V3 ℝ :=
  let n := cross (v1 - v0) (v2 - v0)
  ⟨n.x / Real.sqrt (normSq n), n.y / Real.sqrt (normSq n), n.z / Real.sqrt (normSq n)⟩

/-- the part of `t` in the triangle plane -/
noncomputable def inPlane (v0 v1 v2 t : V3 ℝ) : V3 ℝ := t - smul (dot (unitNormal v0 v1 v2) t) (unitNormal v0 v1 v2)

theorem div_len_unit (p : V3 ℝ) (hp : 0 < Real.sqrt (normSq p)) :
    dot (⟨p.x / Real.sqrt (normSq p), p.y / Real.sqrt (normSq p), p.z / Real.sqrt (normSq p)⟩ : V3 ℝ)
      ⟨p.x / Real.sqrt (normSq p), p.y / Real.sqrt (normSq p), p.z / Real.sqrt (normSq p)⟩ = 1 := by
  have hN : 0 < normSq p := Real.sqrt_pos.mp hp
  have hs : Real.sqrt (normSq p) * Real.sqrt (normSq p) = normSq p := Real.mul_self_sqrt hN.le
  have e : ∀ L : ℝ, dot (⟨p.x / L, p.y / L, p.z / L⟩ : V3 ℝ) ⟨p.x / L, p.y / L, p.z / L⟩ = normSq p / (L * L) := by
    intro L; v3_flat; ring
  rw [e, hs, div_self hN.ne']

theorem dot_div_len (p q : V3 ℝ) (L : ℝ) :
    dot (⟨p.x / L, p.y / L, p.z / L⟩ : V3 ℝ) q = dot p q / L := by
  v3_flat; ring

/-- **the two directions of `curvature_tria` are an orthonormal frame of the triangle plane**, whenever neither
    `np.maximum(·, 1e-8)` is active (triangle not degenerate, pooled direction not normal to the triangle) -/
theorem curvTria_frame (v0 v1 v2 tumin : V3 ℝ)
    (hn : ¬ Real.sqrt (normSq (cross (v1 - v0) (v2 - v0))) < e8)
    (hp : ¬ Real.sqrt (normSq (inPlane v0 v1 v2 tumin)) < e8) :
    let u := triaDirs v0 v1 v2 tumin
    let n := cross (v1 - v0) (v2 - v0)
    dot u.1 u.1 = 1 ∧ dot u.2 u.2 = 1 ∧ dot u.1 u.2 = 0 ∧ dot u.1 n = 0 ∧ dot u.2 n = 0 ∧
    u.2 = cross (unitNormal v0 v1 v2) u.1 ∧
    u.1 = smul (1 / Real.sqrt (normSq (inPlane v0 v1 v2 tumin))) (inPlane v0 v1 v2 tumin) := by
  intro u n
  have hLn : 0 < Real.sqrt (normSq n) := lt_of_lt_of_le e8_pos (not_lt.mp hn)
  have hLp : 0 < Real.sqrt (normSq (inPlane v0 v1 v2 tumin)) := lt_of_lt_of_le e8_pos (not_lt.mp hp)
  set tn := unitNormal v0 v1 v2 with htn
  set p := inPlane v0 v1 v2 tumin with hpdef
  have hu : u = (⟨p.x / Real.sqrt (normSq p), p.y / Real.sqrt (normSq p), p.z / Real.sqrt (normSq p)⟩,
      cross tn ⟨p.x / Real.sqrt (normSq p), p.y / Real.sqrt (normSq p), p.z / Real.sqrt (normSq p)⟩) := by
    simp only [u, triaDirs, sqrt_real]
    rw [floor8_of_ge hn]
    have : (⟨(cross (v1 - v0) (v2 - v0)).x / Real.sqrt (normSq (cross (v1 - v0) (v2 - v0))),
        (cross (v1 - v0) (v2 - v0)).y / Real.sqrt (normSq (cross (v1 - v0) (v2 - v0))),
        (cross (v1 - v0) (v2 - v0)).z / Real.sqrt (normSq (cross (v1 - v0) (v2 - v0)))⟩ : V3 ℝ) = tn := rfl
    rw [this]
    have hp' : tumin - smul (dot tn tumin) tn = p := rfl
    rw [hp', floor8_of_ge hp]
  set u1 : V3 ℝ := ⟨p.x / Real.sqrt (normSq p), p.y / Real.sqrt (normSq p), p.z / Real.sqrt (normSq p)⟩ with hu1
  have tn_unit : dot tn tn = 1 := div_len_unit n hLn
  have tn_n : ∀ q : V3 ℝ, dot tn q = dot n q / Real.sqrt (normSq n) := fun q => dot_div_len n q _
  have p_tn : dot p tn = 0 := by
    have : dot p tn = dot tumin tn - dot tn tumin * dot tn tn := by simp only [hpdef, inPlane, ← htn]; v3_flat; ring
    rw [this, tn_unit, dot_comm tumin tn]; ring
  have u1_unit : dot u1 u1 = 1 := div_len_unit p hLp
  have u1_tn : dot u1 tn = 0 := by rw [hu1, dot_div_len, p_tn]; simp
  have u1_n : dot u1 n = 0 := by
    have h1 : dot tn u1 = 0 := by rw [dot_comm]; exact u1_tn
    rw [tn_n] at h1
    have := (div_eq_zero_iff.mp h1).resolve_right hLn.ne'
    rw [dot_comm]; exact this
  have u2_unit : dot (cross tn u1) (cross tn u1) = 1 := by
    have := normSq_cross tn u1
    simp only [normSq] at this
    rw [this, tn_unit, u1_unit, dot_comm tn u1, u1_tn]; ring
  have u12 : dot u1 (cross tn u1) = 0 := by v3_flat; ring
  have u2_n : dot (cross tn u1) n = 0 := by
    have h1 : dot (cross tn u1) tn = 0 := by v3_flat; ring
    rw [dot_comm, tn_n] at h1
    have := (div_eq_zero_iff.mp h1).resolve_right hLn.ne'
    rw [dot_comm]; exact this
  rw [hu]
  refine ⟨u1_unit, u2_unit, u12, u1_n, u2_n, rfl, ?_⟩
  apply V3.ext' <;> (simp only [hu1]; v3_flat; ring)

/-! ### 4. the anisotropic stiffness matrix -/

/-- `F = f1 (v3−v2) + f2 (v1−v3) + f3 (v2−v1)`: the corner values combined with the opposite edge vectors
    (`n × F / |n|²` is the gradient of the linear interpolant) -/
def edgeComb (v1 v2 v3 : V3 ℝ) (f1 f2 f3 : ℝ) : V3 ℝ := smul f1 (v3 - v2) + smul f2 (v1 - v3) + smul f3 (v2 - v1)

/-- the anisotropic block of one triangle -/
noncomputable def anisoBlock (v1 v2 v3 : V3 ℝ) (τ : Tri) (u1 u2 : V3 ℝ) (d0 d1 vol : ℝ) : Coo ℝ :=
  Fem.triBlockA τ (Fem.anisoDot u1 u2 d0 d1 (v3 - v2) (v1 - v3) / vol) (Fem.anisoDot u1 u2 d0 d1 (v1 - v3) (v2 - v1) / vol)
    (Fem.anisoDot u1 u2 d0 d1 (v2 - v1) (v3 - v2) / vol)

/-- the isotropic block of one triangle (`_fem_tria`) -/
noncomputable def isoBlock (v1 v2 v3 : V3 ℝ) (τ : Tri) (vol : ℝ) : Coo ℝ :=
  Fem.triBlockA τ (Fem.triA12 v1 v2 v3 vol) (Fem.triA23 v1 v2 v3 vol) (Fem.triA31 v1 v2 v3 vol)

/-- **`f·A_τ·g = (d0 (u1·F)(u1·G) + d1 (u2·F)(u2·G)) / vol`** — pure algebra, for any `vol` -/
theorem aniso_local_form (v1 v2 v3 : V3 ℝ) (t1 t2 t3 : Nat) (u1 u2 : V3 ℝ) (d0 d1 vol : ℝ) (f g : Nat → ℝ) :
    Coo.form (anisoBlock v1 v2 v3 (t1, t2, t3) u1 u2 d0 d1 vol) f g =
      (d0 * (dot u1 (edgeComb v1 v2 v3 (f t1) (f t2) (f t3)) * dot u1 (edgeComb v1 v2 v3 (g t1) (g t2) (g t3))) +
       d1 * (dot u2 (edgeComb v1 v2 v3 (f t1) (f t2) (f t3)) * dot u2 (edgeComb v1 v2 v3 (g t1) (g t2) (g t3)))) / vol := by
  simp only [anisoBlock, Fem.triBlockA, Fem.triBlock, Coo.form, List.map, List.sum_cons, List.sum_nil, Fem.anisoDot,
    edgeComb]
  v3_flat
  ring

/-- the isotropic block in the same shape: `f·A_τ·g = F·G / vol` -/
theorem iso_local_form (v1 v2 v3 : V3 ℝ) (t1 t2 t3 : Nat) (vol : ℝ) (f g : Nat → ℝ) :
    Coo.form (isoBlock v1 v2 v3 (t1, t2, t3) vol) f g =
      dot (edgeComb v1 v2 v3 (f t1) (f t2) (f t3)) (edgeComb v1 v2 v3 (g t1) (g t2) (g t3)) / vol := by
  simp only [isoBlock, Fem.triBlockA, Fem.triBlock, Coo.form, List.map, List.sum_cons, List.sum_nil, Fem.triA12,
    Fem.triA23, Fem.triA31, edgeComb]
  v3_flat
  ring

theorem aniso_local_symm (v1 v2 v3 : V3 ℝ) (t1 t2 t3 : Nat) (u1 u2 : V3 ℝ) (d0 d1 vol : ℝ) (f g : Nat → ℝ) :
    Coo.form (anisoBlock v1 v2 v3 (t1, t2, t3) u1 u2 d0 d1 vol) f g =
      Coo.form (anisoBlock v1 v2 v3 (t1, t2, t3) u1 u2 d0 d1 vol) g f := by
  rw [aniso_local_form, aniso_local_form]; ring

theorem edgeComb_const (v1 v2 v3 : V3 ℝ) (c : ℝ) : edgeComb v1 v2 v3 c c c = ⟨0, 0, 0⟩ := by
  apply V3.ext' <;> (simp only [edgeComb]; v3_flat; ring)

/-- constants are annihilated -/
theorem aniso_const_zero (v1 v2 v3 : V3 ℝ) (t1 t2 t3 : Nat) (u1 u2 : V3 ℝ) (d0 d1 vol : ℝ) (f : Nat → ℝ) (c : ℝ) :
    Coo.form (anisoBlock v1 v2 v3 (t1, t2, t3) u1 u2 d0 d1 vol) f (fun _ => c) = 0 := by
  rw [aniso_local_form, edgeComb_const]; v3_flat; ring

/-- positive semi-definite for non-negative weights -/
theorem aniso_psd (v1 v2 v3 : V3 ℝ) (t1 t2 t3 : Nat) (u1 u2 : V3 ℝ) (d0 d1 vol : ℝ) (f : Nat → ℝ)
    (h0 : 0 ≤ d0) (h1 : 0 ≤ d1) (hv : 0 < vol) :
    0 ≤ Coo.form (anisoBlock v1 v2 v3 (t1, t2, t3) u1 u2 d0 d1 vol) f f := by
  rw [aniso_local_form]
  apply div_nonneg _ hv.le
  exact add_nonneg (mul_nonneg h0 (mul_self_nonneg _)) (mul_nonneg h1 (mul_self_nonneg _))

/-- Bessel's inequality for an orthonormal pair -/
theorem bessel (u1 u2 F : V3 ℝ) (h11 : dot u1 u1 = 1) (h22 : dot u2 u2 = 1) (h12 : dot u1 u2 = 0) :
    dot u1 F * dot u1 F + dot u2 F * dot u2 F ≤ dot F F := by
  have e : dot (F - smul (dot u1 F) u1 - smul (dot u2 F) u2) (F - smul (dot u1 F) u1 - smul (dot u2 F) u2) =
      dot F F - 2 * (dot u1 F * dot u1 F) - 2 * (dot u2 F * dot u2 F) + dot u1 F * dot u1 F * dot u1 u1
        + dot u2 F * dot u2 F * dot u2 u2 + 2 * (dot u1 F * dot u2 F * dot u1 u2) := by v3_flat; ring
  have nn : ∀ a : V3 ℝ, 0 ≤ dot a a := by
    intro a; v3_flat; nlinarith [sq_nonneg a.x, sq_nonneg a.y, sq_nonneg a.z]
  have := nn (F - smul (dot u1 F) u1 - smul (dot u2 F) u2)
  rw [e, h11, h22, h12] at this
  linarith

/-- weights `≤ 1` and an orthonormal pair: the anisotropic energy is at most the isotropic one (the lower bound
    `0 ≤ d` is not needed for this direction) -/
theorem aniso_le_iso (v1 v2 v3 : V3 ℝ) (t1 t2 t3 : Nat) (u1 u2 : V3 ℝ) (d0 d1 vol : ℝ) (f : Nat → ℝ)
    (h0' : d0 ≤ 1) (h1' : d1 ≤ 1) (hv : 0 < vol)
    (h11 : dot u1 u1 = 1) (h22 : dot u2 u2 = 1) (h12 : dot u1 u2 = 0) :
    Coo.form (anisoBlock v1 v2 v3 (t1, t2, t3) u1 u2 d0 d1 vol) f f ≤ Coo.form (isoBlock v1 v2 v3 (t1, t2, t3) vol) f f := by
  rw [aniso_local_form, iso_local_form]
  apply div_le_div_of_nonneg_right _ hv.le
  set F := edgeComb v1 v2 v3 (f t1) (f t2) (f t3)
  have hb := bessel u1 u2 F h11 h22 h12
  have s1 : 0 ≤ dot u1 F * dot u1 F := mul_self_nonneg _
  have s2 : 0 ≤ dot u2 F * dot u2 F := mul_self_nonneg _
  nlinarith [mul_le_of_le_one_left s1 h0', mul_le_of_le_one_left s2 h1']

/-- `F` lies in the triangle plane -/
theorem edgeComb_perp (v1 v2 v3 : V3 ℝ) (f1 f2 f3 : ℝ) : dot (Spec.triN v1 v2 v3) (edgeComb v1 v2 v3 f1 f2 f3) = 0 := by
  simp only [Spec.triN, edgeComb]; v3_flat; ring

/-- Parseval in the plane: an orthonormal pair orthogonal to `n ≠ 0` resolves every vector `F ⟂ n` -/
theorem parseval_plane (u1 u2 n F G : V3 ℝ) (h11 : dot u1 u1 = 1) (h22 : dot u2 u2 = 1) (h12 : dot u1 u2 = 0)
    (h1n : dot u1 n = 0) (h2n : dot u2 n = 0) (hn : normSq n ≠ 0) (hF : dot n F = 0) :
    dot u1 F * dot u1 G + dot u2 F * dot u2 G = dot F G := by
  set r := F - smul (dot u1 F) u1 - smul (dot u2 F) u2 with hr
  have r1 : dot r u1 = 0 := by
    have : dot r u1 = dot u1 F - dot u1 F * dot u1 u1 - dot u2 F * dot u1 u2 := by simp only [hr]; v3_flat; ring
    rw [this, h11, h12]; ring
  have r2 : dot r u2 = 0 := by
    have : dot r u2 = dot u2 F - dot u1 F * dot u1 u2 - dot u2 F * dot u2 u2 := by simp only [hr]; v3_flat; ring
    rw [this, h22, h12]; ring
  have rn : dot r n = 0 := by
    have : dot r n = dot n F - dot u1 F * dot u1 n - dot u2 F * dot u2 n := by simp only [hr]; v3_flat; ring
    rw [this, hF, h1n, h2n]; ring
  have hdet : dot u1 (cross u2 n) ≠ 0 := by
    have e := triple_sq u1 u2 n
    simp only [normSq] at e hn
    rw [h11, h22, h12, h1n, h2n] at e
    intro hc
    rw [hc] at e
    apply hn; linarith
  have hr0 := eq_zero_of_orth hdet r1 r2 rn
  have : dot F G = dot r G + dot u1 F * dot u1 G + dot u2 F * dot u2 G := by simp only [hr]; v3_flat; ring
  rw [this, hr0]; v3_flat; ring

/-- **weights 1 and an orthonormal frame of the triangle plane give the isotropic block** -/
theorem aniso_one_eq_iso (v1 v2 v3 : V3 ℝ) (t1 t2 t3 : Nat) (u1 u2 : V3 ℝ) (vol : ℝ) (f g : Nat → ℝ)
    (h11 : dot u1 u1 = 1) (h22 : dot u2 u2 = 1) (h12 : dot u1 u2 = 0)
    (h1n : dot u1 (Spec.triN v1 v2 v3) = 0) (h2n : dot u2 (Spec.triN v1 v2 v3) = 0)
    (hn : normSq (Spec.triN v1 v2 v3) ≠ 0) :
    Coo.form (anisoBlock v1 v2 v3 (t1, t2, t3) u1 u2 1 1 vol) f g = Coo.form (isoBlock v1 v2 v3 (t1, t2, t3) vol) f g := by
  rw [aniso_local_form, iso_local_form, one_mul, one_mul,
    parseval_plane u1 u2 _ _ _ h11 h22 h12 h1n h2n hn (edgeComb_perp v1 v2 v3 _ _ _)]

/-! #### the assembled matrix -/

theorem zip_map_zip {α β γ δ : Type} (l : List α) (h : α → β) (us : List γ) (g : (α × β) × γ → δ) :
    ((l.zip (l.map h)).zip us).map g = (l.zip us).map fun p => g ((p.1, h p.1), p.2) := by
  induction l generalizing us with
  | nil => rfl
  | cons a l ih =>
    cases us with
    | nil => rfl
    | cons u us => simp only [List.map_cons, List.zip_cons_cons, ih]

/-- per-triangle inputs of `_fem_tria_aniso`: `(u1, u2, d0, d1)` -/
abbrev AnisoIn := V3 ℝ × V3 ℝ × ℝ × ℝ

/-- the block of triangle `τ` with input `u` -/
noncomputable def anisoBlockOf (vtx : Nat → V3 ℝ) (τ : Tri) (u : AnisoIn) : Coo ℝ :=
  anisoBlock (vtx τ.1) (vtx τ.2.1) (vtx τ.2.2) τ u.1 u.2.1 u.2.2.1 u.2.2.2 (Fem.triVol (vtx τ.1) (vtx τ.2.1) (vtx τ.2.2))

/-- the assembled anisotropic matrix is the concatenation of the per-triangle blocks -/
theorem stiffAniso_blocks (vtx : Nat → V3 ℝ) (ts : List Tri) (us : List AnisoIn) (h : NonDegenTri vtx ts) :
    Fem.stiffTriaAniso vtx ts us = ((ts.zip us).map fun p => anisoBlockOf vtx p.1 p.2).flatten := by
  unfold Fem.stiffTriaAniso
  rw [C01.triVols_nondegen vtx ts h, zip_map_zip]
  rfl

/-- the energy density of one triangle: `(d0 (u1·F)(u1·G) + d1 (u2·F)(u2·G)) / vol` -/
noncomputable def anisoTerm (vtx : Nat → V3 ℝ) (f g : Nat → ℝ) (τ : Tri) (u : AnisoIn) : ℝ :=
  let F := edgeComb (vtx τ.1) (vtx τ.2.1) (vtx τ.2.2) (f τ.1) (f τ.2.1) (f τ.2.2)
  let G := edgeComb (vtx τ.1) (vtx τ.2.1) (vtx τ.2.2) (g τ.1) (g τ.2.1) (g τ.2.2)
  (u.2.2.1 * (dot u.1 F * dot u.1 G) + u.2.2.2 * (dot u.2.1 F * dot u.2.1 G)) /
    Fem.triVol (vtx τ.1) (vtx τ.2.1) (vtx τ.2.2)

theorem anisoBlockOf_form (vtx : Nat → V3 ℝ) (f g : Nat → ℝ) (τ : Tri) (u : AnisoIn) :
    Coo.form (anisoBlockOf vtx τ u) f g = anisoTerm vtx f g τ u := by
  obtain ⟨t1, t2, t3⟩ := τ
  exact aniso_local_form _ _ _ t1 t2 t3 _ _ _ _ _ f g

/-- **`f·A·g = Σ_τ (d0 (u1·F)(u1·G) + d1 (u2·F)(u2·G)) / vol_τ`** -/
theorem stiffAniso_form (vtx : Nat → V3 ℝ) (ts : List Tri) (us : List AnisoIn) (h : NonDegenTri vtx ts)
    (f g : Nat → ℝ) :
    Coo.form (Fem.stiffTriaAniso vtx ts us) f g = ((ts.zip us).map fun p => anisoTerm vtx f g p.1 p.2).sum := by
  rw [stiffAniso_blocks vtx ts us h, Coo.form_flatten, List.map_map]
  congr 1
  apply List.map_congr_left
  intro p _
  exact anisoBlockOf_form vtx f g p.1 p.2

/-- symmetric as a bilinear form, hence entry by entry -/
theorem stiffAniso_symm (vtx : Nat → V3 ℝ) (ts : List Tri) (us : List AnisoIn) (h : NonDegenTri vtx ts) (f g : Nat → ℝ) :
    Coo.form (Fem.stiffTriaAniso vtx ts us) f g = Coo.form (Fem.stiffTriaAniso vtx ts us) g f := by
  rw [stiffAniso_form vtx ts us h, stiffAniso_form vtx ts us h]
  congr 1
  apply List.map_congr_left
  intro p _
  simp only [anisoTerm]; ring

theorem stiffAniso_entry_symm (vtx : Nat → V3 ℝ) (ts : List Tri) (us : List AnisoIn) (h : NonDegenTri vtx ts)
    (i j : Nat) : Coo.entry (Fem.stiffTriaAniso vtx ts us) i j = Coo.entry (Fem.stiffTriaAniso vtx ts us) j i := by
  rw [Coo.entry_eq_form, Coo.entry_eq_form, stiffAniso_symm vtx ts us h]

/-- constants are annihilated: every row of `A·c` vanishes -/
theorem stiffAniso_const_zero (vtx : Nat → V3 ℝ) (ts : List Tri) (us : List AnisoIn) (h : NonDegenTri vtx ts)
    (c : ℝ) (i : Nat) : Coo.mulVec (Fem.stiffTriaAniso vtx ts us) (fun _ => c) i = 0 := by
  rw [Coo.mulVec_eq_form, stiffAniso_form vtx ts us h]
  apply List.sum_eq_zero
  intro x hx
  obtain ⟨p, _, rfl⟩ := List.mem_map.mp hx
  simp only [anisoTerm, edgeComb_const]
  v3_flat; ring

theorem triVol_pos_of_nondegen {vtx : Nat → V3 ℝ} {ts : List Tri} (h : NonDegenTri vtx ts) {τ : Tri} (hτ : τ ∈ ts) :
    0 < Fem.triVol (vtx τ.1) (vtx τ.2.1) (vtx τ.2.2) :=
  lt_of_lt_of_le epsK_pos (not_lt.mp (h τ hτ))

/-- **positive semi-definite for non-negative weights** -/
theorem stiffAniso_psd (vtx : Nat → V3 ℝ) (ts : List Tri) (us : List AnisoIn) (h : NonDegenTri vtx ts)
    (hd : ∀ u ∈ us, 0 ≤ u.2.2.1 ∧ 0 ≤ u.2.2.2) (f : Nat → ℝ) :
    0 ≤ Coo.form (Fem.stiffTriaAniso vtx ts us) f f := by
  rw [stiffAniso_form vtx ts us h]
  apply List.sum_nonneg
  intro x hx
  obtain ⟨p, hp, rfl⟩ := List.mem_map.mp hx
  have hτ := (List.of_mem_zip hp).1
  have hu := hd _ (List.of_mem_zip hp).2
  simp only [anisoTerm]
  apply div_nonneg _ (triVol_pos_of_nondegen h hτ).le
  exact add_nonneg (mul_nonneg hu.1 (mul_self_nonneg _)) (mul_nonneg hu.2 (mul_self_nonneg _))

/-- the isotropic form in the same shape -/
theorem stiffIso_form (vtx : Nat → V3 ℝ) (ts : List Tri) (h : NonDegenTri vtx ts) (f g : Nat → ℝ) :
    Coo.form (Fem.stiffTria vtx ts) f g = (ts.map fun τ =>
      dot (edgeComb (vtx τ.1) (vtx τ.2.1) (vtx τ.2.2) (f τ.1) (f τ.2.1) (f τ.2.2))
          (edgeComb (vtx τ.1) (vtx τ.2.1) (vtx τ.2.2) (g τ.1) (g τ.2.1) (g τ.2.2)) /
        Fem.triVol (vtx τ.1) (vtx τ.2.1) (vtx τ.2.2)).sum := by
  rw [C01.stiffTria_blocks vtx ts h, Coo.form_flatten, List.map_map]
  congr 1
  apply List.map_congr_left
  intro τ _
  obtain ⟨t1, t2, t3⟩ := τ
  exact iso_local_form _ _ _ t1 t2 t3 _ f g

theorem map_fst_zip_eq {α β γ : Type} (l : List α) (us : List β) (hl : us.length = l.length) (k : α → γ) :
    l.map k = (l.zip us).map fun p => k p.1 := by
  have : (l.zip us).map (fun p => k p.1) = ((l.zip us).map Prod.fst).map k := by rw [List.map_map]; rfl
  rw [this, List.map_fst_zip (by omega)]

/-- **weights `≤ 1` and orthonormal direction pairs: the anisotropic energy is dominated by the isotropic one** -/
theorem stiffAniso_le_iso (vtx : Nat → V3 ℝ) (ts : List Tri) (us : List AnisoIn) (h : NonDegenTri vtx ts)
    (hl : us.length = ts.length)
    (hd : ∀ u ∈ us, u.2.2.1 ≤ 1 ∧ u.2.2.2 ≤ 1 ∧ dot u.1 u.1 = 1 ∧ dot u.2.1 u.2.1 = 1 ∧ dot u.1 u.2.1 = 0)
    (f : Nat → ℝ) :
    Coo.form (Fem.stiffTriaAniso vtx ts us) f f ≤ Coo.form (Fem.stiffTria vtx ts) f f := by
  rw [stiffAniso_form vtx ts us h, stiffIso_form vtx ts h, map_fst_zip_eq ts us hl]
  apply List.sum_le_sum
  intro p hp
  have hτ := (List.of_mem_zip hp).1
  obtain ⟨h0', h1', h11, h22, h12⟩ := hd _ (List.of_mem_zip hp).2
  simp only [anisoTerm]
  apply div_le_div_of_nonneg_right _ (triVol_pos_of_nondegen h hτ).le
  set F := edgeComb (vtx p.1.1) (vtx p.1.2.1) (vtx p.1.2.2) (f p.1.1) (f p.1.2.1) (f p.1.2.2)
  have hb := bessel p.2.1 p.2.2.1 F h11 h22 h12
  have s1 : 0 ≤ dot p.2.1 F * dot p.2.1 F := mul_self_nonneg _
  have s2 : 0 ≤ dot p.2.2.1 F * dot p.2.2.1 F := mul_self_nonneg _
  nlinarith [mul_le_of_le_one_left s1 h0', mul_le_of_le_one_left s2 h1']

/-- **anisotropy 0 (all weights 1) with orthonormal in-plane direction pairs reproduces the isotropic matrix**:
    same bilinear form, same stored entries -/
theorem stiffAniso_one_eq_iso (vtx : Nat → V3 ℝ) (ts : List Tri) (us : List AnisoIn) (h : NonDegenTri vtx ts)
    (hl : us.length = ts.length)
    (hd : ∀ p ∈ ts.zip us, p.2.2.2.1 = 1 ∧ p.2.2.2.2 = 1 ∧ dot p.2.1 p.2.1 = 1 ∧ dot p.2.2.1 p.2.2.1 = 1 ∧
      dot p.2.1 p.2.2.1 = 0 ∧ dot p.2.1 (Spec.triN (vtx p.1.1) (vtx p.1.2.1) (vtx p.1.2.2)) = 0 ∧
      dot p.2.2.1 (Spec.triN (vtx p.1.1) (vtx p.1.2.1) (vtx p.1.2.2)) = 0) :
    (∀ f g, Coo.form (Fem.stiffTriaAniso vtx ts us) f g = Coo.form (Fem.stiffTria vtx ts) f g) ∧
    (∀ i j, Coo.entry (Fem.stiffTriaAniso vtx ts us) i j = Coo.entry (Fem.stiffTria vtx ts) i j) := by
  have hform : ∀ f g, Coo.form (Fem.stiffTriaAniso vtx ts us) f g = Coo.form (Fem.stiffTria vtx ts) f g := by
    intro f g
    rw [stiffAniso_form vtx ts us h, stiffIso_form vtx ts h, map_fst_zip_eq ts us hl]
    congr 1
    apply List.map_congr_left
    intro p hp
    have hτ := (List.of_mem_zip hp).1
    obtain ⟨e0, e1, h11, h22, h12, h1n, h2n⟩ := hd p hp
    have hn := (FemTri.normSq_pos_of_nondegen _ _ _ (h _ hτ)).ne'
    simp only [anisoTerm, e0, e1, one_mul]
    rw [parseval_plane p.2.1 p.2.2.1 _ _ _ h11 h22 h12 h1n h2n hn (edgeComb_perp _ _ _ _ _ _)]
  exact ⟨hform, fun i j => by rw [Coo.entry_eq_form, Coo.entry_eq_form, hform]⟩

/-- the anisotropy weights `exp(−a |c|)` lie in `(0, 1]`; anisotropy `a = 0` gives weight 1 -/
theorem exp_weight_mem (a c : ℝ) (ha : 0 ≤ a) :
    0 < Real.exp (-a * |c|) ∧ Real.exp (-a * |c|) ≤ 1 ∧ Real.exp (-0 * |c|) = 1 := by
  refine ⟨Real.exp_pos _, ?_, by simp⟩
  rw [Real.exp_le_one_iff]
  have := mul_nonneg ha (abs_nonneg c)
  linarith

/-- the frame of `curvTria_frame` satisfies the hypotheses consumed by `stiffAniso_le_iso` / `stiffAniso_one_eq_iso`
    for the triangle `(v0,v1,v2)` -/
theorem curvTria_feeds_aniso (v0 v1 v2 tumin : V3 ℝ)
    (hn : ¬ Real.sqrt (normSq (cross (v1 - v0) (v2 - v0))) < e8)
    (hp : ¬ Real.sqrt (normSq (inPlane v0 v1 v2 tumin)) < e8) :
    let u := triaDirs v0 v1 v2 tumin
    dot u.1 u.1 = 1 ∧ dot u.2 u.2 = 1 ∧ dot u.1 u.2 = 0 ∧
    dot u.1 (Spec.triN v0 v1 v2) = 0 ∧ dot u.2 (Spec.triN v0 v1 v2) = 0 := by
  obtain ⟨a, b, c, d, e, _⟩ := curvTria_frame v0 v1 v2 tumin hn hp
  exact ⟨a, b, c, d, e⟩

/-! ### non-vacuity -/
section Examples

example : argsort3 (3 : ℝ) 1 2 = (1, 2, 0) := by rw [argsort3_eq]; norm_num
example : argsort3 (-1 : ℝ) (-1) (-2) = (2, 0, 1) := by rw [argsort3_eq]; norm_num

/-- the standard basis as eigenvector matrix -/
def stdBasis : Nat → V3 ℝ := fun i => match i with
  | 0 => ⟨1, 0, 0⟩
  | 1 => ⟨0, 1, 0⟩
  | _ => ⟨0, 0, 1⟩

theorem stdBasis_orthonormal : Orthonormal3 stdBasis := by
  intro i j hi hj
  have hi' : i = 0 ∨ i = 1 ∨ i = 2 := by omega
  have hj' : j = 0 ∨ j = 1 ∨ j = 2 := by omega
  rcases hi' with rfl | rfl | rfl <;> rcases hj' with rfl | rfl | rfl <;> simp [stdBasis, dot]

/-- eigenvalues `(5, 3, 0)` -/
def exEv : Nat → ℝ := fun i => if i = 0 then 5 else if i = 1 then 3 else 0

/-- vertex normal `(0,0,-2)`: the third eigenvector is selected and flipped; eigenvalues `5 > 3` are swapped -/
example :
    let F := post exEv stdBasis ⟨0, 0, -2⟩
    F.cmin = 3 ∧ F.cmax = 5 ∧ F.cmean = 4 ∧ F.cgauss = 15 ∧ F.normal = ⟨0, 0, -1⟩ ∧
    dot (cross F.umin F.umax) F.normal = 1 := by
  intro F
  have hidx : alignIdx stdBasis ⟨0, 0, -2⟩ = (2, 0, 1) := by
    simp only [alignIdx, alignKey, argsort3_eq, stdBasis, dot]; norm_num
  have hne : dot (stdBasis (alignIdx stdBasis ⟨0, 0, -2⟩).1) (⟨0, 0, -2⟩ : V3 ℝ) ≠ 0 := by
    rw [hidx]; simp [stdBasis, dot]
  have hF : F = postIdx exEv stdBasis ⟨0, 0, -2⟩ 2 0 1 := by
    have := post_eq exEv stdBasis ⟨0, 0, -2⟩
    rw [hidx] at this; exact this
  have h5 := (frame_post_oriented exEv stdBasis ⟨0, 0, -2⟩ stdBasis_orthonormal hne).2.2.2.2
  refine ⟨?_, ?_, ?_, ?_, ?_, h5⟩
  · rw [hF]; simp [postIdx, exEv]; norm_num
  · rw [hF]; simp [postIdx, exEv]; norm_num
  · rw [hF]; simp [postIdx, exEv]; norm_num
  · rw [hF]; simp [postIdx, exEv]; norm_num
  · rw [hF]; simp only [postIdx, stdBasis, dot, sgn]; apply V3.ext' <;> (v3_flat; norm_num)

/-- the unit right triangle in the plane `z = 0`, pooled direction `(1,0,5)` -/
example :
    let u := triaDirs (⟨0, 0, 0⟩ : V3 ℝ) ⟨1, 0, 0⟩ ⟨0, 1, 0⟩ ⟨1, 0, 5⟩
    dot u.1 u.1 = 1 ∧ dot u.2 u.2 = 1 ∧ dot u.1 u.2 = 0 := by
  have hcr : cross ((⟨1, 0, 0⟩ : V3 ℝ) - ⟨0, 0, 0⟩) ((⟨0, 1, 0⟩ : V3 ℝ) - ⟨0, 0, 0⟩) = ⟨0, 0, 1⟩ := by
    apply V3.ext' <;> (v3_flat; norm_num)
  have hn1 : normSq (⟨0, 0, 1⟩ : V3 ℝ) = 1 := by v3_flat; norm_num
  have hn : ¬ Real.sqrt (normSq (cross ((⟨1, 0, 0⟩ : V3 ℝ) - ⟨0, 0, 0⟩) ((⟨0, 1, 0⟩ : V3 ℝ) - ⟨0, 0, 0⟩))) < e8 := by
    rw [hcr, hn1, Real.sqrt_one]; unfold e8; norm_num
  have hin : inPlane (⟨0, 0, 0⟩ : V3 ℝ) ⟨1, 0, 0⟩ ⟨0, 1, 0⟩ ⟨1, 0, 5⟩ = ⟨1, 0, 0⟩ := by
    simp only [inPlane, unitNormal, hcr, hn1, Real.sqrt_one]
    apply V3.ext' <;> (v3_flat; norm_num)
  have hp : ¬ Real.sqrt (normSq (inPlane (⟨0, 0, 0⟩ : V3 ℝ) ⟨1, 0, 0⟩ ⟨0, 1, 0⟩ ⟨1, 0, 5⟩)) < e8 := by
    rw [hin]
    have : normSq (⟨1, 0, 0⟩ : V3 ℝ) = 1 := by v3_flat; norm_num
    rw [this, Real.sqrt_one]; unfold e8; norm_num
  obtain ⟨a, b, c, _⟩ := curvTria_frame _ _ _ _ hn hp
  exact ⟨a, b, c⟩

/-- one non-degenerate triangle with the in-plane frame `(e_x, e_y)` and weights 1: the hypotheses of
    `stiffAniso_one_eq_iso` are satisfiable -/
example : ∀ f g, Coo.form (Fem.stiffTriaAniso (vtx3 (⟨0, 0, 0⟩ : V3 ℝ) ⟨1, 0, 0⟩ ⟨0, 1, 0⟩) [(0, 1, 2)]
      [(⟨1, 0, 0⟩, ⟨0, 1, 0⟩, 1, 1)]) f g =
    Coo.form (Fem.stiffTria (vtx3 (⟨0, 0, 0⟩ : V3 ℝ) ⟨1, 0, 0⟩ ⟨0, 1, 0⟩) [(0, 1, 2)]) f g := by
  have hN : Spec.triN (⟨0, 0, 0⟩ : V3 ℝ) ⟨1, 0, 0⟩ ⟨0, 1, 0⟩ = ⟨0, 0, 1⟩ := by
    apply V3.ext' <;> (simp only [Spec.triN]; v3_flat; norm_num)
  have hnd : NonDegenTri (vtx3 (⟨0, 0, 0⟩ : V3 ℝ) ⟨1, 0, 0⟩ ⟨0, 1, 0⟩) [(0, 1, 2)] := by
    intro τ hτ
    simp only [List.mem_singleton] at hτ
    subst hτ
    simp only [vtx3]
    rw [FemTri.triVol_eq, Spec.triArea, hN]
    have : normSq (⟨0, 0, 1⟩ : V3 ℝ) = 1 := by v3_flat; norm_num
    rw [this, Real.sqrt_one, epsK_real]; norm_num
  refine (stiffAniso_one_eq_iso _ _ _ hnd rfl ?_).1
  intro p hp
  simp only [List.zip_cons_cons, List.zip_nil_right, List.mem_singleton] at hp
  subst hp
  simp only [vtx3, hN]
  refine ⟨trivial, trivial, ?_, ?_, ?_, ?_, ?_⟩ <;> (v3_flat; norm_num)

example : 0 < Real.exp (-(3 : ℝ) * |(-2 : ℝ)|) ∧ Real.exp (-(3 : ℝ) * |(-2 : ℝ)|) ≤ 1 :=
  ⟨(exp_weight_mem 3 (-2) (by norm_num)).1, (exp_weight_mem 3 (-2) (by norm_num)).2.1⟩

end Examples

end LapyVerif.Props.C17
