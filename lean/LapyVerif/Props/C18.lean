import Mathlib.Tactic.Linarith
import Mathlib.Tactic.Positivity
import Mathlib.Tactic.FieldSimp
import Mathlib.Data.Complex.Basic
import Mathlib.Data.List.Nodup
import Mathlib.Tactic.LinearCombination
import LapyVerif.Lemmas.Assembly
import LapyVerif.Lemmas.BridgeTac
import LapyVerif.Model.Conformal
/-
  C18 — building blocks of `lapy/conformal.py`: the stereographic pair, Möbius maps, the Beltrami coefficient of an
  affine map, the generalised Laplacian of `linear_beltrami_solver` with landmark elimination, the guards.
  Model: `Model/Conformal.lean` (complex numbers are pairs `(re, im)`).
-/
namespace LapyVerif.Props.C18
open LapyVerif V3 Conformal

/-! ### 1./2. stereographic projections -/

theorem one_real : (Conformal.one : ℝ) = 1 := by simp [Conformal.one]
theorem two_real : (Conformal.two : ℝ) = 2 := by simp [Conformal.two]

theorem denom_pos (w : ℝ × ℝ) : 0 < 1 + w.1 * w.1 + w.2 * w.2 := by
  nlinarith [mul_self_nonneg w.1, mul_self_nonneg w.2]

/-- **every output of `inverse_stereographic` lies on the unit sphere** -/
theorem invStereo_unit (w : ℝ × ℝ) : normSq (invStereo w) = 1 := by
  have h := (denom_pos w).ne'
  simp only [invStereo, one_real, two_real]
  v3_flat
  field_simp
  ring

/-- … so does every output of the (repaired) final step of `spherical_conformal_map` -/
theorem invStereoSouth_unit (w : ℝ × ℝ) : normSq (invStereoSouth w) = 1 := by
  have h := invStereo_unit w
  simp only [invStereoSouth]
  have e : normSq (⟨(invStereo w).x, (invStereo w).y, -(invStereo w).z⟩ : V3 ℝ) = normSq (invStereo w) := by
    v3_flat; ring
  rw [e, h]

/-- `stereographic ∘ inverse_stereographic = id` on the whole plane -/
theorem stereo_invStereo (w : ℝ × ℝ) : stereo (invStereo w) = w := by
  have h := (denom_pos w).ne'
  have h2 : 1 - (-1 + w.1 * w.1 + w.2 * w.2) / (1 + w.1 * w.1 + w.2 * w.2) = 2 / (1 + w.1 * w.1 + w.2 * w.2) := by
    field_simp; ring
  simp only [stereo, invStereo, one_real, two_real, h2]
  apply Prod.ext <;> (simp only; field_simp)

/-- `inverse_stereographic ∘ stereographic = id` on the unit sphere minus the north pole -/
theorem invStereo_stereo (u : V3 ℝ) (hu : normSq u = 1) (hz : u.z ≠ 1) : invStereo (stereo u) = u := by
  have h1 : 1 - u.z ≠ 0 := sub_ne_zero.mpr (Ne.symm hz)
  have hxy : u.x * u.x + u.y * u.y = 1 - u.z * u.z := by
    have : normSq u = u.x * u.x + u.y * u.y + u.z * u.z := by v3_flat
    linarith
  have hden : 1 + u.x / (1 - u.z) * (u.x / (1 - u.z)) + u.y / (1 - u.z) * (u.y / (1 - u.z)) = 2 / (1 - u.z) := by
    have : 1 + u.x / (1 - u.z) * (u.x / (1 - u.z)) + u.y / (1 - u.z) * (u.y / (1 - u.z))
        = 1 + (u.x * u.x + u.y * u.y) / ((1 - u.z) * (1 - u.z)) := by field_simp; ring
    rw [this, hxy]; field_simp; ring
  have hnum : -1 + u.x / (1 - u.z) * (u.x / (1 - u.z)) + u.y / (1 - u.z) * (u.y / (1 - u.z)) = 2 * u.z / (1 - u.z) := by
    have : -1 + u.x / (1 - u.z) * (u.x / (1 - u.z)) + u.y / (1 - u.z) * (u.y / (1 - u.z))
        = -1 + (u.x * u.x + u.y * u.y) / ((1 - u.z) * (1 - u.z)) := by field_simp; ring
    rw [this, hxy]; field_simp; ring
  simp only [stereo, invStereo, one_real, two_real, hden, hnum]
  apply V3.ext' <;> (simp only []; field_simp)

/-- the south-pole pair used by `spherical_conformal_map` (after the repair) is consistent -/
theorem south_pair :
    (∀ w : ℝ × ℝ, stereoSouth (invStereoSouth w) = w) ∧
    (∀ u : V3 ℝ, normSq u = 1 → u.z ≠ -1 → invStereoSouth (stereoSouth u) = u) := by
  constructor
  · intro w
    have := stereo_invStereo w
    simp only [stereo, stereoSouth, invStereoSouth, one_real] at this ⊢
    simpa [sub_eq_add_neg] using this
  · intro u hu hz
    have hu' : normSq (⟨u.x, u.y, -u.z⟩ : V3 ℝ) = 1 := by
      have : normSq (⟨u.x, u.y, -u.z⟩ : V3 ℝ) = normSq u := by v3_flat; ring
      rw [this, hu]
    have hz' : (⟨u.x, u.y, -u.z⟩ : V3 ℝ).z ≠ 1 := by
      intro h; apply hz; simp only at h; linarith
    have := invStereo_stereo ⟨u.x, u.y, -u.z⟩ hu' hz'
    have hs : stereo (⟨u.x, u.y, -u.z⟩ : V3 ℝ) = stereoSouth u := by
      simp only [stereo, stereoSouth, one_real, sub_neg_eq_add]
    rw [hs] at this
    simp only [invStereoSouth, this, V3.mk_x, V3.mk_y, V3.mk_z, neg_neg]

/-- what the unrepaired code returned: pairing the south-pole projection with the north-pole inverse mirrors the
    sphere in the plane `z = 0` -/
theorem south_mirror (u : V3 ℝ) (hu : normSq u = 1) (hz : u.z ≠ -1) :
    invStereo (stereoSouth u) = ⟨u.x, u.y, -u.z⟩ := by
  have := south_pair.2 u hu hz
  simp only [invStereoSouth] at this
  have hx : (invStereo (stereoSouth u)).x = u.x := by have := congrArg V3.x this; simpa using this
  have hy : (invStereo (stereoSouth u)).y = u.y := by have := congrArg V3.y this; simpa using this
  have hzz : -(invStereo (stereoSouth u)).z = u.z := by have := congrArg V3.z this; simpa using this
  apply V3.ext' <;> simp only <;> linarith

/-! ### 3. Möbius maps -/

/-- every output of a Möbius map pulled back to the sphere is on the sphere -/
theorem mobius_unit (a b c d z : ℝ × ℝ) : normSq (invStereo (mobius a b c d z)) = 1 := invStereo_unit _

/-- the pair model read in Mathlib's `ℂ` -/
def toC (z : ℝ × ℝ) : ℂ := ⟨z.1, z.2⟩

theorem toC_inj {a b : ℝ × ℝ} (h : toC a = toC b) : a = b := by
  have h1 := congrArg Complex.re h
  have h2 := congrArg Complex.im h
  exact Prod.ext h1 h2

theorem toC_zero : toC (0, 0) = 0 := rfl
theorem toC_ne_zero {a : ℝ × ℝ} (h : a ≠ (0, 0)) : toC a ≠ 0 := fun hc => h (toC_inj (hc.trans toC_zero.symm))

theorem toC_cadd (a b : ℝ × ℝ) : toC (cadd a b) = toC a + toC b := by
  apply Complex.ext <;> simp [toC, cadd]
theorem toC_csub (a b : ℝ × ℝ) : toC (csub a b) = toC a - toC b := by
  apply Complex.ext <;> simp [toC, csub]
theorem toC_cmul (a b : ℝ × ℝ) : toC (cmul a b) = toC a * toC b := by
  apply Complex.ext <;> simp [toC, cmul]
/-- the model's division agrees with `ℂ`'s for every divisor (both give `0` for the divisor `0`) -/
theorem toC_cdiv (a b : ℝ × ℝ) : toC (cdiv a b) = toC a / toC b := by
  apply Complex.ext
  · simp only [toC, cdiv, Complex.div_re, Complex.normSq_apply]; ring
  · simp only [toC, cdiv, Complex.div_im, Complex.normSq_apply]; ring
theorem toC_mobius (a b c d z : ℝ × ℝ) :
    toC (mobius a b c d z) = (toC a * toC z + toC b) / (toC c * toC z + toC d) := by
  simp only [mobius, toC_cdiv, toC_cadd, toC_cmul]

/-- cross ratio `(z1 − z3)(z2 − z4) / ((z1 − z4)(z2 − z3))` in the pair model -/
noncomputable def cr (z1 z2 z3 z4 : ℝ × ℝ) : ℝ × ℝ :=
  cdiv (cmul (csub z1 z3) (csub z2 z4)) (cmul (csub z1 z4) (csub z2 z3))

theorem toC_cr (z1 z2 z3 z4 : ℝ × ℝ) :
    toC (cr z1 z2 z3 z4) = ((toC z1 - toC z3) * (toC z2 - toC z4)) / ((toC z1 - toC z4) * (toC z2 - toC z3)) := by
  simp only [cr, toC_cdiv, toC_cmul, toC_csub]

/-- difference of two Möbius images -/
theorem mobius_sub (a b c d z w : ℂ) (hz : c * z + d ≠ 0) (hw : c * w + d ≠ 0) :
    (a * z + b) / (c * z + d) - (a * w + b) / (c * w + d) = (a * d - b * c) * (z - w) / ((c * z + d) * (c * w + d)) := by
  rw [div_sub_div _ _ hz hw]
  congr 1
  ring

/-- **Möbius maps preserve the cross ratio** (in `ℂ`).  No distinctness hypothesis is needed: with the convention
    `x / 0 = 0` shared by the model and `ℂ`, both sides vanish together. -/
theorem mobius_cross_ratio_C (a b c d z1 z2 z3 z4 : ℂ) (hdet : a * d - b * c ≠ 0)
    (h1 : c * z1 + d ≠ 0) (h2 : c * z2 + d ≠ 0) (h3 : c * z3 + d ≠ 0) (h4 : c * z4 + d ≠ 0) :
    let M := fun z => (a * z + b) / (c * z + d)
    ((M z1 - M z3) * (M z2 - M z4)) / ((M z1 - M z4) * (M z2 - M z3)) =
      ((z1 - z3) * (z2 - z4)) / ((z1 - z4) * (z2 - z3)) := by
  intro M
  simp only [M, mobius_sub a b c d _ _ h1 h3, mobius_sub a b c d _ _ h2 h4, mobius_sub a b c d _ _ h1 h4,
    mobius_sub a b c d _ _ h2 h3]
  set k := (a * d - b * c) * (a * d - b * c) / ((c * z1 + d) * (c * z2 + d) * (c * z3 + d) * (c * z4 + d)) with hk
  have hk0 : k ≠ 0 := by
    rw [hk]
    exact div_ne_zero (mul_ne_zero hdet hdet) (mul_ne_zero (mul_ne_zero (mul_ne_zero h1 h2) h3) h4)
  have e1 : (a * d - b * c) * (z1 - z3) / ((c * z1 + d) * (c * z3 + d)) *
      ((a * d - b * c) * (z2 - z4) / ((c * z2 + d) * (c * z4 + d))) = k * ((z1 - z3) * (z2 - z4)) := by
    rw [hk]; field_simp
  have e2 : (a * d - b * c) * (z1 - z4) / ((c * z1 + d) * (c * z4 + d)) *
      ((a * d - b * c) * (z2 - z3) / ((c * z2 + d) * (c * z3 + d))) = k * ((z1 - z4) * (z2 - z3)) := by
    rw [hk]; field_simp
  rw [e1, e2, mul_div_mul_left _ _ hk0]

/-- **Möbius maps of the model preserve the cross ratio** -/
theorem mobius_cross_ratio (a b c d z1 z2 z3 z4 : ℝ × ℝ)
    (hdet : csub (cmul a d) (cmul b c) ≠ (0, 0))
    (h1 : cadd (cmul c z1) d ≠ (0, 0)) (h2 : cadd (cmul c z2) d ≠ (0, 0))
    (h3 : cadd (cmul c z3) d ≠ (0, 0)) (h4 : cadd (cmul c z4) d ≠ (0, 0)) :
    cr (mobius a b c d z1) (mobius a b c d z2) (mobius a b c d z3) (mobius a b c d z4) = cr z1 z2 z3 z4 := by
  apply toC_inj
  rw [toC_cr, toC_cr]
  simp only [toC_mobius]
  have hdet' := toC_ne_zero hdet
  have h1' := toC_ne_zero h1; have h2' := toC_ne_zero h2; have h3' := toC_ne_zero h3; have h4' := toC_ne_zero h4
  simp only [toC_csub, toC_cadd, toC_cmul] at hdet' h1' h2' h3' h4'
  exact mobius_cross_ratio_C _ _ _ _ _ _ _ _ hdet' h1' h2' h3' h4'

/-! ### 4. the Beltrami coefficient of an affine map -/

/-- twice the signed area of the planar triangle, as in the code -/
def areas2 (p0 p1 p2 : ℝ × ℝ) : ℝ := (csub p2 p1).1 * (csub p0 p2).2 - (csub p2 p1).2 * (csub p0 p2).1

/-- the discrete `∂/∂x` of the code -/
noncomputable def ddx (p0 p1 p2 : ℝ × ℝ) (f0 f1 f2 : ℝ) : ℝ :=
  ((csub p2 p1).2 / areas2 p0 p1 p2) * f0 + ((csub p0 p2).2 / areas2 p0 p1 p2) * f1 + ((csub p1 p0).2 / areas2 p0 p1 p2) * f2
/-- the discrete `∂/∂y` of the code -/
noncomputable def ddy (p0 p1 p2 : ℝ × ℝ) (f0 f1 f2 : ℝ) : ℝ :=
  (-((csub p2 p1).1 / areas2 p0 p1 p2)) * f0 + (-((csub p0 p2).1 / areas2 p0 p1 p2)) * f1 +
    (-((csub p1 p0).1 / areas2 p0 p1 p2)) * f2

/-- the discrete derivatives of an affine function are its exact partial derivatives **with the opposite sign**:
    the code's `dx`, `dy` are `−∂/∂x`, `−∂/∂y` (for `p = (0,0),(1,0),(0,1)` and `f = x` the code's `dx f` is `−1`).
    Both signs flip together, so the quadratic quantities `E, F, G` — all that `beltrami_coefficient` uses — are
    unaffected. -/
theorem ddx_affine (p0 p1 p2 : ℝ × ℝ) (hA : areas2 p0 p1 p2 ≠ 0) (α β γ : ℝ) :
    ddx p0 p1 p2 (α + β * p0.1 + γ * p0.2) (α + β * p1.1 + γ * p1.2) (α + β * p2.1 + γ * p2.2) = -β := by
  have hA' : (p2.1 - p1.1) * (p0.2 - p2.2) - (p2.2 - p1.2) * (p0.1 - p2.1) ≠ 0 := hA
  simp only [ddx, areas2, csub]
  field_simp
  ring

theorem ddy_affine (p0 p1 p2 : ℝ × ℝ) (hA : areas2 p0 p1 p2 ≠ 0) (α β γ : ℝ) :
    ddy p0 p1 p2 (α + β * p0.1 + γ * p0.2) (α + β * p1.1 + γ * p1.2) (α + β * p2.1 + γ * p2.2) = -γ := by
  have hA' : (p2.1 - p1.1) * (p0.2 - p2.2) - (p2.2 - p1.2) * (p0.1 - p2.1) ≠ 0 := hA
  simp only [ddy, areas2, csub]
  field_simp
  ring

/-- `beltrami1` in terms of the discrete derivatives -/
theorem beltrami1_eq (p0 p1 p2 : ℝ × ℝ) (m0 m1 m2 : V3 ℝ) :
    beltrami1 p0 p1 p2 m0 m1 m2 =
      (let xu := ddx p0 p1 p2 m0.x m1.x m2.x; let xv := ddy p0 p1 p2 m0.x m1.x m2.x
       let yu := ddx p0 p1 p2 m0.y m1.y m2.y; let yv := ddy p0 p1 p2 m0.y m1.y m2.y
       let zu := ddx p0 p1 p2 m0.z m1.z m2.z; let zv := ddy p0 p1 p2 m0.z m1.z m2.z
       let E := xu * xu + yu * yu + zu * zu
       let G := xv * xv + yv * yv + zv * zv
       let F := xu * xv + yu * yv + zu * zv
       ((E - G) / (E + G + 2 * Real.sqrt (E * G - F * F)), (2 * F) / (E + G + 2 * Real.sqrt (E * G - F * F)))) := by
  simp only [beltrami1, ddx, ddy, areas2, two_real, sqrt_real]

/-- complex conjugation on pairs -/
def cconj (z : ℝ × ℝ) : ℝ × ℝ := (z.1, -z.2)

/-- the real-affine map `z ↦ a z + b z̄` of the plane (`w_z = a`, `w_z̄ = b`) -/
def affMap (a b z : ℝ × ℝ) : ℝ × ℝ := cadd (cmul a z) (cmul b (cconj z))

/-- isometric embedding of the plane into space: origin `o`, orthonormal directions `e1`, `e2` -/
def embed (o e1 e2 : V3 ℝ) (w : ℝ × ℝ) : V3 ℝ := o + smul w.1 e1 + smul w.2 e2

/-- **the Beltrami coefficient computed by `beltrami_coefficient` for an orientation-preserving affine map
    `z ↦ a z + b z̄` (`|b| < |a|`), embedded isometrically anywhere in space, is exactly `b / a`** -/
theorem beltrami_affine (p0 p1 p2 a b : ℝ × ℝ) (o e1 e2 : V3 ℝ) (hA : areas2 p0 p1 p2 ≠ 0)
    (h11 : dot e1 e1 = 1) (h22 : dot e2 e2 = 1) (h12 : dot e1 e2 = 0)
    (hab : b.1 * b.1 + b.2 * b.2 < a.1 * a.1 + a.2 * a.2) :
    beltrami1 p0 p1 p2 (embed o e1 e2 (affMap a b p0)) (embed o e1 e2 (affMap a b p1)) (embed o e1 e2 (affMap a b p2))
      = cdiv b a := by
  -- the three coordinates are affine functions of the planar corner
  have hx : ∀ p : ℝ × ℝ, (embed o e1 e2 (affMap a b p)).x =
      o.x + ((a.1 + b.1) * e1.x + (a.2 + b.2) * e2.x) * p.1 + ((b.2 - a.2) * e1.x + (a.1 - b.1) * e2.x) * p.2 := by
    intro p; simp only [embed, affMap, cadd, cmul, cconj]; v3_flat; ring
  have hy : ∀ p : ℝ × ℝ, (embed o e1 e2 (affMap a b p)).y =
      o.y + ((a.1 + b.1) * e1.y + (a.2 + b.2) * e2.y) * p.1 + ((b.2 - a.2) * e1.y + (a.1 - b.1) * e2.y) * p.2 := by
    intro p; simp only [embed, affMap, cadd, cmul, cconj]; v3_flat; ring
  have hz : ∀ p : ℝ × ℝ, (embed o e1 e2 (affMap a b p)).z =
      o.z + ((a.1 + b.1) * e1.z + (a.2 + b.2) * e2.z) * p.1 + ((b.2 - a.2) * e1.z + (a.1 - b.1) * e2.z) * p.2 := by
    intro p; simp only [embed, affMap, cadd, cmul, cconj]; v3_flat; ring
  rw [beltrami1_eq]
  simp only [hx, hy, hz, ddx_affine p0 p1 p2 hA, ddy_affine p0 p1 p2 hA, neg_mul_neg]
  -- first fundamental form of the affine map
  have d11 : e1.x * e1.x + e1.y * e1.y + e1.z * e1.z = 1 := h11
  have d22 : e2.x * e2.x + e2.y * e2.y + e2.z * e2.z = 1 := h22
  have d12 : e1.x * e2.x + e1.y * e2.y + e1.z * e2.z = 0 := h12
  have hE : ((a.1 + b.1) * e1.x + (a.2 + b.2) * e2.x) * ((a.1 + b.1) * e1.x + (a.2 + b.2) * e2.x) +
      ((a.1 + b.1) * e1.y + (a.2 + b.2) * e2.y) * ((a.1 + b.1) * e1.y + (a.2 + b.2) * e2.y) +
      ((a.1 + b.1) * e1.z + (a.2 + b.2) * e2.z) * ((a.1 + b.1) * e1.z + (a.2 + b.2) * e2.z)
      = (a.1 + b.1) * (a.1 + b.1) + (a.2 + b.2) * (a.2 + b.2) := by
    linear_combination ((a.1 + b.1) * (a.1 + b.1)) * d11 + ((a.2 + b.2) * (a.2 + b.2)) * d22 +
      (2 * (a.1 + b.1) * (a.2 + b.2)) * d12
  have hG : ((b.2 - a.2) * e1.x + (a.1 - b.1) * e2.x) * ((b.2 - a.2) * e1.x + (a.1 - b.1) * e2.x) +
      ((b.2 - a.2) * e1.y + (a.1 - b.1) * e2.y) * ((b.2 - a.2) * e1.y + (a.1 - b.1) * e2.y) +
      ((b.2 - a.2) * e1.z + (a.1 - b.1) * e2.z) * ((b.2 - a.2) * e1.z + (a.1 - b.1) * e2.z)
      = (b.2 - a.2) * (b.2 - a.2) + (a.1 - b.1) * (a.1 - b.1) := by
    linear_combination ((b.2 - a.2) * (b.2 - a.2)) * d11 + ((a.1 - b.1) * (a.1 - b.1)) * d22 +
      (2 * (b.2 - a.2) * (a.1 - b.1)) * d12
  have hF : ((a.1 + b.1) * e1.x + (a.2 + b.2) * e2.x) * ((b.2 - a.2) * e1.x + (a.1 - b.1) * e2.x) +
      ((a.1 + b.1) * e1.y + (a.2 + b.2) * e2.y) * ((b.2 - a.2) * e1.y + (a.1 - b.1) * e2.y) +
      ((a.1 + b.1) * e1.z + (a.2 + b.2) * e2.z) * ((b.2 - a.2) * e1.z + (a.1 - b.1) * e2.z)
      = (a.1 + b.1) * (b.2 - a.2) + (a.2 + b.2) * (a.1 - b.1) := by
    linear_combination ((a.1 + b.1) * (b.2 - a.2)) * d11 + ((a.2 + b.2) * (a.1 - b.1)) * d22 +
      ((a.1 + b.1) * (a.1 - b.1) + (a.2 + b.2) * (b.2 - a.2)) * d12
  rw [hE, hG, hF]
  -- the Jacobian `|a|² − |b|²`
  have hJ : ((a.1 + b.1) * (a.1 + b.1) + (a.2 + b.2) * (a.2 + b.2)) * ((b.2 - a.2) * (b.2 - a.2) + (a.1 - b.1) * (a.1 - b.1))
      - ((a.1 + b.1) * (b.2 - a.2) + (a.2 + b.2) * (a.1 - b.1)) * ((a.1 + b.1) * (b.2 - a.2) + (a.2 + b.2) * (a.1 - b.1))
      = (a.1 * a.1 + a.2 * a.2 - (b.1 * b.1 + b.2 * b.2)) * (a.1 * a.1 + a.2 * a.2 - (b.1 * b.1 + b.2 * b.2)) := by ring
  rw [hJ, Real.sqrt_mul_self (by linarith)]
  have hbn : 0 ≤ b.1 * b.1 + b.2 * b.2 := by nlinarith [mul_self_nonneg b.1, mul_self_nonneg b.2]
  have ha : a.1 * a.1 + a.2 * a.2 ≠ 0 := by linarith
  have hden : (a.1 + b.1) * (a.1 + b.1) + (a.2 + b.2) * (a.2 + b.2) + ((b.2 - a.2) * (b.2 - a.2) + (a.1 - b.1) * (a.1 - b.1))
      + 2 * (a.1 * a.1 + a.2 * a.2 - (b.1 * b.1 + b.2 * b.2)) = 4 * (a.1 * a.1 + a.2 * a.2) := by ring
  have hEG : (a.1 + b.1) * (a.1 + b.1) + (a.2 + b.2) * (a.2 + b.2) - ((b.2 - a.2) * (b.2 - a.2) + (a.1 - b.1) * (a.1 - b.1))
      = 4 * (b.1 * a.1 + b.2 * a.2) := by ring
  have h2F : 2 * ((a.1 + b.1) * (b.2 - a.2) + (a.2 + b.2) * (a.1 - b.1)) = 4 * (b.2 * a.1 - b.1 * a.2) := by ring
  rw [hden, hEG, h2F, mul_div_mul_left _ _ (by norm_num : (4 : ℝ) ≠ 0), mul_div_mul_left _ _ (by norm_num : (4 : ℝ) ≠ 0)]
  rfl

/-! ### 5. the generalised Laplacian of `linear_beltrami_solver` -/

/-- the per-triangle block is symmetric as a bilinear form … -/
theorem lbs_block_symm (t0 t1 t2 : Nat) (p0 p1 p2 mu : ℝ × ℝ) (f g : Nat → ℝ) :
    Coo.form (lbsBlock (t0, t1, t2) p0 p1 p2 mu) f g = Coo.form (lbsBlock (t0, t1, t2) p0 p1 p2 mu) g f := by
  simp only [lbsBlock, Coo.form, List.map, List.sum_cons, List.sum_nil]
  ring

/-- … hence entry by entry (the stored, duplicate-summed entries) -/
theorem lbs_block_entry_symm (t0 t1 t2 : Nat) (p0 p1 p2 mu : ℝ × ℝ) (i j : Nat) :
    Coo.entry (lbsBlock (t0, t1, t2) p0 p1 p2 mu) i j = Coo.entry (lbsBlock (t0, t1, t2) p0 p1 p2 mu) j i := by
  rw [Coo.entry_eq_form, Coo.entry_eq_form, lbs_block_symm]

/-- the block annihilates constants: `f·B·c = 0` for every `f` (the edge normals of a triangle add up to zero) -/
theorem lbs_block_const (t0 t1 t2 : Nat) (p0 p1 p2 mu : ℝ × ℝ) (f : Nat → ℝ) (c : ℝ) :
    Coo.form (lbsBlock (t0, t1, t2) p0 p1 p2 mu) f (fun _ => c) = 0 := by
  simp only [lbsBlock, Coo.form, List.map, List.sum_cons, List.sum_nil, two_real, one_real]
  ring

/-- every row of the block sums to zero -/
theorem lbs_rowsum (t0 t1 t2 : Nat) (p0 p1 p2 mu : ℝ × ℝ) (i : Nat) :
    Coo.mulVec (lbsBlock (t0, t1, t2) p0 p1 p2 mu) (fun _ => 1) i = 0 := by
  rw [Coo.mulVec_eq_form, lbs_block_const]

/-- the assembled generalised Laplacian: symmetric, rows sum to zero -/
theorem lbsMatrix_symm (pl : Nat → ℝ × ℝ) (ts : List Tri) (mus : List (ℝ × ℝ)) (f g : Nat → ℝ) :
    Coo.form (lbsMatrix pl ts mus) f g = Coo.form (lbsMatrix pl ts mus) g f := by
  unfold lbsMatrix
  rw [Coo.form_flatten, Coo.form_flatten, List.map_map, List.map_map]
  congr 1
  apply List.map_congr_left
  intro p _
  obtain ⟨⟨t0, t1, t2⟩, mu⟩ := p
  exact lbs_block_symm t0 t1 t2 _ _ _ mu f g

theorem lbsMatrix_rowsum (pl : Nat → ℝ × ℝ) (ts : List Tri) (mus : List (ℝ × ℝ)) (i : Nat) :
    Coo.mulVec (lbsMatrix pl ts mus) (fun _ => 1) i = 0 := by
  unfold lbsMatrix
  rw [Coo.mulVec_flatten, List.map_map]
  apply List.sum_eq_zero
  intro x hx
  obtain ⟨p, _, rfl⟩ := List.mem_map.mp hx
  obtain ⟨⟨t0, t1, t2⟩, mu⟩ := p
  exact lbs_rowsum t0 t1 t2 _ _ _ mu i

/-! #### landmark elimination -/

theorem idxOf_getElem (l : List Nat) (hn : l.Nodup) (k : Nat) (hk : k < l.length) : l.idxOf? (l[k]) = some k := by
  rw [List.idxOf?_eq_some_iff]
  refine ⟨hk, rfl, ?_⟩
  intro j hj h
  have := (List.Nodup.getElem_inj_iff hn (hi := lt_trans hj hk) (hj := hk)).mp h
  omega

theorem entry_cons (e : (Nat × Nat) × ℝ) (M : Coo ℝ) (a b : Nat) :
    Coo.entry (e :: M) a b = (if e.1.1 = a ∧ e.1.2 = b then e.2 else 0) + Coo.entry M a b := by
  by_cases h1 : e.1.1 = a <;> by_cases h2 : e.1.2 = b <;> simp [Coo.entry, h1, h2]

theorem mulVec_cons (e : (Nat × Nat) × ℝ) (M : Coo ℝ) (g : Nat → ℝ) (i : Nat) :
    Coo.mulVec (e :: M) g i = (if e.1.1 = i then e.2 * g e.1.2 else 0) + Coo.mulVec M g i := by
  by_cases h1 : e.1.1 = i <;> simp [Coo.mulVec, h1]

/-- the kept part of the matrix has no entry in a landmark row or column -/
theorem kept_no_landmark (A : Coo ℝ) (L : List Nat) :
    ∀ e ∈ A.filter (fun e => !L.contains e.1.1 && !L.contains e.1.2), e.1.1 ∉ L ∧ e.1.2 ∉ L := by
  intro e he
  have := (List.mem_filter.mp he).2
  simpa using this

theorem mulVec_kept_landmark (A : Coo ℝ) (L : List Nat) (x : Nat → ℝ) {l : Nat} (hl : l ∈ L) :
    Coo.mulVec (A.filter (fun e => !L.contains e.1.1 && !L.contains e.1.2)) x l = 0 := by
  have h := kept_no_landmark A L
  generalize A.filter (fun e => !L.contains e.1.1 && !L.contains e.1.2) = M at h
  induction M with
  | nil => rfl
  | cons e M ih =>
    rw [mulVec_cons, ih (fun e' he' => h e' (List.mem_cons_of_mem _ he'))]
    have : e.1.1 ≠ l := fun hc => (h e List.mem_cons_self).1 (hc ▸ hl)
    simp [this]

/-- the diagonal part: a `1` at every landmark -/
theorem mulVec_diag (L : List Nat) (hL : L.Nodup) (x : Nat → ℝ) (i : Nat) :
    Coo.mulVec (L.map fun l => ((l, l), (Conformal.one : ℝ))) x i = if i ∈ L then x i else 0 := by
  induction L with
  | nil => rfl
  | cons l L ih =>
    rw [List.map_cons, mulVec_cons, ih (List.nodup_cons.mp hL).2]
    have hnot : l ∉ L := (List.nodup_cons.mp hL).1
    by_cases h : l = i
    · subst h; simp [hnot, one_real]
    · have h' : i ≠ l := Ne.symm h
      simp [h, h', List.mem_cons]

/-- **in the eliminated matrix the row of a landmark is the unit row** -/
theorem lbsEliminate_row (A : Coo ℝ) (L : List Nat) (hL : L.Nodup) (x : Nat → ℝ) {l : Nat} (hl : l ∈ L) :
    Coo.mulVec (lbsEliminate A L) x l = x l := by
  rw [lbsEliminate, Coo.mulVec_append, mulVec_kept_landmark A L x hl, mulVec_diag L hL, if_pos hl, zero_add]

/-- entries of the eliminated matrix in landmark rows and columns: only the diagonal `1` -/
theorem lbsEliminate_entries (A : Coo ℝ) (L : List Nat) (hL : L.Nodup) {l : Nat} (hl : l ∈ L) (j : Nat) :
    Coo.entry (lbsEliminate A L) l j = (if j = l then 1 else 0) ∧
    Coo.entry (lbsEliminate A L) j l = (if j = l then 1 else 0) := by
  have hk := kept_no_landmark A L
  have hdiag : ∀ a b : Nat, Coo.entry (L.map fun l => ((l, l), (Conformal.one : ℝ))) a b = if a = b ∧ a ∈ L then 1 else 0 := by
    intro a b
    clear hl hk
    induction L with
    | nil => simp [Coo.entry]
    | cons l' L ih =>
      have hnot : l' ∉ L := (List.nodup_cons.mp hL).1
      rw [List.map_cons, entry_cons, ih (List.nodup_cons.mp hL).2]
      by_cases hab : a = b
      · subst hab
        by_cases h : l' = a
        · subst h; simp [hnot, one_real]
        · have h' : ¬ a = l' := fun hc => h hc.symm
          simp [h, h', List.mem_cons]
      · have : ¬ (l' = a ∧ l' = b) := fun ⟨h1, h2⟩ => hab (h1 ▸ h2)
        simp [hab, this]
  have hkept : ∀ a b : Nat, (a ∈ L ∨ b ∈ L) →
      Coo.entry (A.filter (fun e => !L.contains e.1.1 && !L.contains e.1.2)) a b = 0 := by
    intro a b hab
    generalize A.filter (fun e => !L.contains e.1.1 && !L.contains e.1.2) = M at hk
    induction M with
    | nil => rfl
    | cons e M ih =>
      have ih' := ih (fun e' he' => hk e' (List.mem_cons_of_mem _ he'))
      obtain ⟨k1, k2⟩ := hk e List.mem_cons_self
      simp only [Coo.entry] at ih' ⊢
      have : ¬ (e.1.1 = a ∧ e.1.2 = b) := by
        rintro ⟨r1, r2⟩
        rcases hab with h | h
        · exact k1 (r1 ▸ h)
        · exact k2 (r2 ▸ h)
      have hb : (e.1.1 == a && e.1.2 == b) = false := by
        simpa using this
      simp only [List.filter_cons, hb]
      exact ih'
  constructor
  · rw [lbsEliminate, Coo.entry_append, hkept l j (Or.inl hl), hdiag, zero_add]
    by_cases h : j = l
    · subst h; simp [hl]
    · have : ¬ l = j := fun hc => h hc.symm
      simp [h, this]
  · rw [lbsEliminate, Coo.entry_append, hkept j l (Or.inr hl), hdiag, zero_add]
    by_cases h : j = l
    · subst h; simp [hl]
    · simp [h]

/-- the right-hand side at a landmark is its target value -/
theorem lbsRhs_landmark (A : Coo ℝ) (nv : Nat) (L : List Nat) (target : List ℝ) (hL : L.Nodup) (k : Nat)
    (hk : k < L.length) (hlt : L[k] < nv) : (lbsRhs A nv L target).getD L[k] 0 = target.getD k 0 := by
  simp only [lbsRhs, List.getD_eq_getElem?_getD, List.getElem?_map, List.getElem?_range hlt, Option.map_some,
    idxOf_getElem L hL k hk, Option.getD_some]

/-- the part of row `i` that the elimination moves to the right-hand side -/
noncomputable def movedSum (A : Coo ℝ) (L : List Nat) (target : List ℝ) (i : Nat) : ℝ :=
  ((A.filter fun e => e.1.1 == i).map fun e =>
    match L.idxOf? e.1.2 with
    | some k => e.2 * target.getD k 0
    | none => 0).sum

theorem lbsRhs_interior (A : Coo ℝ) (nv : Nat) (L : List Nat) (target : List ℝ) {i : Nat} (hi : i < nv) (hiL : i ∉ L) :
    (lbsRhs A nv L target).getD i 0 = -movedSum A L target i := by
  have hnone : L.idxOf? i = none := List.idxOf?_eq_none_iff.mpr hiL
  simp only [lbsRhs, List.getD_eq_getElem?_getD, List.getElem?_map, List.getElem?_range hi, Option.map_some, hnone,
    Option.getD_some, movedSum]
  rfl

/-- row `i ∉ L` of the original matrix = kept part + moved part, once `x` has the target values at the landmarks -/
theorem row_split (A : Coo ℝ) (L : List Nat) (target : List ℝ) (x : Nat → ℝ) {i : Nat} (hiL : i ∉ L)
    (hx : ∀ l k, L.idxOf? l = some k → x l = target.getD k 0) :
    Coo.mulVec A x i =
      Coo.mulVec (A.filter (fun e => !L.contains e.1.1 && !L.contains e.1.2)) x i + movedSum A L target i := by
  induction A with
  | nil => simp [Coo.mulVec, movedSum]
  | cons e A ih =>
    have hms : movedSum (e :: A) L target i =
        (if e.1.1 = i then (match L.idxOf? e.1.2 with | some k => e.2 * target.getD k 0 | none => 0) else 0)
          + movedSum A L target i := by
      by_cases h1 : e.1.1 = i <;> simp [movedSum, h1]
    rw [mulVec_cons, hms, ih]
    by_cases hrow : e.1.1 = i
    · by_cases hcol : e.1.2 ∈ L
      · -- landmark column: dropped from the matrix, moved to the right-hand side
        have hkeep : (!L.contains e.1.1 && !L.contains e.1.2) = false := by simp [hcol]
        obtain ⟨k, hk⟩ : ∃ k, L.idxOf? e.1.2 = some k := by
          cases h : L.idxOf? e.1.2 with
          | none => exact absurd hcol (List.idxOf?_eq_none_iff.mp h)
          | some k => exact ⟨k, rfl⟩
        rw [List.filter_cons, hkeep]
        simp only [hrow, if_true, hk, hx _ _ hk, Bool.false_eq_true, if_false]
        ring
      · have hkeep : (!L.contains e.1.1 && !L.contains e.1.2) = true := by
          have : e.1.1 ∉ L := hrow ▸ hiL
          simp [hcol, this]
        have hnone : L.idxOf? e.1.2 = none := List.idxOf?_eq_none_iff.mpr hcol
        rw [List.filter_cons, hkeep]
        simp only [if_true, mulVec_cons, hrow, hnone]
        ring
    · by_cases hkeep : (!L.contains e.1.1 && !L.contains e.1.2) = true
      · rw [List.filter_cons, hkeep]
        simp only [if_true, mulVec_cons, hrow, if_false]
        ring
      · rw [Bool.not_eq_true] at hkeep
        rw [List.filter_cons, hkeep]
        simp only [hrow, if_false, Bool.false_eq_true]
        ring

/-- **landmark elimination is exact**: any solution `x` of the eliminated system `A' x = b` takes the target values
    at the landmarks and satisfies the original generalised Laplace equation `(A x)_i = 0` at every other vertex -/
theorem lbs_eliminate_spec (A : Coo ℝ) (nv : Nat) (L : List Nat) (target : List ℝ) (x : Nat → ℝ) (hL : L.Nodup)
    (hLn : ∀ l ∈ L, l < nv)
    (hsolve : ∀ i, i < nv → Coo.mulVec (lbsEliminate A L) x i = (lbsRhs A nv L target).getD i 0) :
    (∀ k (hk : k < L.length), x L[k] = target.getD k 0) ∧
    (∀ i, i < nv → i ∉ L → Coo.mulVec A x i = 0) := by
  have hland : ∀ k (hk : k < L.length), x L[k] = target.getD k 0 := by
    intro k hk
    have hm : L[k] ∈ L := List.getElem_mem hk
    have h1 := hsolve L[k] (hLn _ hm)
    rw [lbsEliminate_row A L hL x hm, lbsRhs_landmark A nv L target hL k hk (hLn _ hm)] at h1
    exact h1
  refine ⟨hland, ?_⟩
  intro i hi hiL
  have hx : ∀ l k, L.idxOf? l = some k → x l = target.getD k 0 := by
    intro l k hlk
    obtain ⟨hk, hget, _⟩ := List.idxOf?_eq_some_iff.mp hlk
    rw [← hget]; exact hland k hk
  have h1 := hsolve i hi
  rw [lbsEliminate, Coo.mulVec_append, mulVec_diag L hL, if_neg hiL, add_zero, lbsRhs_interior A nv L target hi hiL] at h1
  rw [row_split A L target x hiL hx, h1]; ring

/-! ### 6. the guards of `spherical_conformal_map` -/

/-- only genus-0 meshes (Euler characteristic 2) are accepted -/
theorem eulerGuard_spec (e : Int) : eulerGuard e = .ok () ↔ e = 2 := by
  unfold eulerGuard
  by_cases h : e = 2
  · subst h; simp
  · simp [h]

/-- `fixnum = max(round(nv/10), 3)` with Python's round-half-to-even: at least 3; when the floor is not active it is a
    nearest integer to `nv/10`, and a tie is resolved to the even neighbour -/
theorem fixnum_spec (nv : Nat) :
    3 ≤ fixnum nv ∧
    (3 < fixnum nv → 10 * fixnum nv ≤ nv + 5 ∧ nv ≤ 10 * fixnum nv + 5 ∧
      ((nv + 5 = 10 * fixnum nv ∨ nv = 10 * fixnum nv + 5) → fixnum nv % 2 = 0)) ∧
    (fixnum nv = 3 → nv ≤ 35) := by
  unfold fixnum
  simp only [beq_iff_eq]
  split_ifs <;> omega

/-- `fixnum` as a function of the rounded quotient -/
theorem fixnum_eq (nv : Nat) :
    fixnum nv = max (if nv % 10 < 5 then nv / 10 else if 5 < nv % 10 then nv / 10 + 1
      else if nv / 10 % 2 = 0 then nv / 10 else nv / 10 + 1) 3 := by
  unfold fixnum
  simp only [beq_iff_eq, gt_iff_lt]

example : fixnum 25 = 3 ∧ fixnum 35 = 4 ∧ fixnum 45 = 4 ∧ fixnum 55 = 6 ∧ fixnum 100 = 10 ∧ fixnum 0 = 3 := by decide
example : eulerGuard 2 = .ok () ∧ eulerGuard 0 ≠ .ok () := by
  constructor
  · exact (eulerGuard_spec 2).mpr rfl
  · intro h; have := (eulerGuard_spec 0).mp h; omega

/-! ### non-vacuity -/
section Examples

/-- the point `w = 1 + i` goes to `(2/3, 2/3, 1/3)` on the unit sphere and back -/
example : invStereo ((1, 1) : ℝ × ℝ) = ⟨2 / 3, 2 / 3, 1 / 3⟩ := by
  simp only [invStereo, one_real, two_real]; apply V3.ext' <;> norm_num
example : stereo (⟨2 / 3, 2 / 3, 1 / 3⟩ : V3 ℝ) = (1, 1) := by
  simp only [stereo, one_real]; apply Prod.ext <;> norm_num

/-- the hypotheses of `invStereo_stereo` are satisfiable: the south pole -/
example : invStereo (stereo (⟨0, 0, -1⟩ : V3 ℝ)) = ⟨0, 0, -1⟩ :=
  invStereo_stereo _ (by v3_flat; norm_num) (by norm_num)

/-- the Möbius map `z ↦ (2z + 1)/(z + 3)` and four points on the real axis -/
example : cr (mobius (2, 0) (1, 0) (1, 0) (3, 0) ((0, 0) : ℝ × ℝ)) (mobius (2, 0) (1, 0) (1, 0) (3, 0) (1, 0))
    (mobius (2, 0) (1, 0) (1, 0) (3, 0) (2, 0)) (mobius (2, 0) (1, 0) (1, 0) (3, 0) (5, 0))
    = cr (0, 0) (1, 0) (2, 0) (5, 0) := by
  apply mobius_cross_ratio <;> (simp only [csub, cadd, cmul]; intro h; have := congrArg Prod.fst h; norm_num at this)

/-- `z ↦ 2z + z̄` on the unit right triangle, target plane `z = 7`: Beltrami coefficient `1/2` -/
example : beltrami1 ((0, 0) : ℝ × ℝ) (1, 0) (0, 1)
    (embed ⟨0, 0, 7⟩ ⟨1, 0, 0⟩ ⟨0, 1, 0⟩ (affMap (2, 0) (1, 0) (0, 0)))
    (embed ⟨0, 0, 7⟩ ⟨1, 0, 0⟩ ⟨0, 1, 0⟩ (affMap (2, 0) (1, 0) (1, 0)))
    (embed ⟨0, 0, 7⟩ ⟨1, 0, 0⟩ ⟨0, 1, 0⟩ (affMap (2, 0) (1, 0) (0, 1))) = (1 / 2, 0) := by
  rw [beltrami_affine _ _ _ _ _ _ _ _ (by simp [areas2, csub]) (by v3_flat; norm_num) (by v3_flat; norm_num)
    (by v3_flat; norm_num) (by norm_num)]
  simp only [cdiv]; apply Prod.ext <;> norm_num

/-- the sign of the code's discrete derivative: `dx` of `f = x` on the unit right triangle is `−1` -/
example : ddx ((0, 0) : ℝ × ℝ) (1, 0) (0, 1) 0 1 0 = -1 := by
  simp [ddx, areas2, csub]

/-- a 2-vertex system with landmark `1 ↦ 5`: the hypotheses of `lbs_eliminate_spec` are satisfiable -/
example : Coo.mulVec (lbsEliminate ([((0, 0), 2), ((0, 1), -2), ((1, 0), -2), ((1, 1), 2)] : Coo ℝ) [1])
    (fun i => if i = 1 then 5 else 5) 1 = 5 :=
  lbsEliminate_row _ [1] (by simp) _ (by simp)

/-- … and its solution `x = (5,5)`: the full hypothesis `A' x = b` of `lbs_eliminate_spec` holds, so the theorem
    applies non-vacuously -/
example : ∀ i, i < 2 →
    Coo.mulVec (lbsEliminate ([((0, 0), 2), ((0, 1), -2), ((1, 0), -2), ((1, 1), 2)] : Coo ℝ) [1]) (fun _ => 5) i =
      (lbsRhs ([((0, 0), 2), ((0, 1), -2), ((1, 0), -2), ((1, 1), 2)] : Coo ℝ) 2 [1] [5]).getD i 0 := by
  intro i hi
  have : i = 0 ∨ i = 1 := by omega
  rcases this with rfl | rfl <;>
    simp [lbsEliminate, lbsRhs, Coo.mulVec, List.range, List.range.loop, List.idxOf?, List.findIdx?, List.findIdx?.go,
      one_real]

end Examples

end LapyVerif.Props.C18
