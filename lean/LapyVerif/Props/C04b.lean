import Mathlib.Analysis.SpecialFunctions.Pow.Real
import LapyVerif.Props.C04
import LapyVerif.Props.C03
import LapyVerif.Model.Spectral
/-
  C04b — the executable model of the `shapedna.py` glue (`Model/Spectral.lean`) computes the functions the C04 theorems
  are about; scale invariance of the normalised spectrum.
-/
namespace LapyVerif

noncomputable instance : HasRpow ℝ := ⟨Real.rpow⟩

@[simp] theorem rpow_real (x y : ℝ) : HasRpow.rpow x y = x ^ y := rfl

namespace Props.C04
open LapyVerif

/-- the model's `reweight_ev` is the `reweight` of C04 (`((i+1 : ℕ) : ℝ) = (i : ℝ) + 1`) -/
theorem spectral_reweight_eq (ev : List ℝ) : Spectral.reweight ev = reweight ev := by
  unfold Spectral.reweight reweight
  apply List.map_congr_left
  rintro ⟨x, i⟩ _
  simp only []
  push_cast
  rfl

/-- the model's `compute_distance` is the `dist` of C04 -/
theorem spectral_distance_eq (a b : List ℝ) : Spectral.distance a b = dist a b := by
  unfold Spectral.distance dist
  simp only [sqrt_real]
  congr 2
  apply List.map_congr_left
  intro p _
  ring

theorem pow23_real (vol : ℝ) : Spectral.pow23 vol = vol ^ ((2 : ℝ) / 3) := by
  simp only [Spectral.pow23, rpow_real]; push_cast; rfl

/-- **`normalize_ev`**: `surface` multiplies by the area, `volume` by `vol^(2/3)`, `geometry` by the area for triangle
    meshes and by `vol^(2/3)` for tetrahedral meshes -/
theorem normalizeEv_spec (ev : List ℝ) (area vol : ℝ) :
    (∀ isTet, Spectral.normalizeEv .surface isTet ev area vol = ev.map (· * area)) ∧
    (∀ isTet, Spectral.normalizeEv .volume isTet ev area vol = ev.map (· * vol ^ ((2 : ℝ) / 3))) ∧
    Spectral.normalizeEv .geometry false ev area vol = ev.map (· * area) ∧
    Spectral.normalizeEv .geometry true ev area vol = ev.map (· * vol ^ ((2 : ℝ) / 3)) := by
  simp [Spectral.normalizeEv, pow23_real]

/-- **scaled copies get the same normalised spectrum**: eigenvalues `λ/s²`, area `s²·area`, volume `s³·vol` -/
theorem normalizeEv_scale (m : Spectral.Method) (isTet : Bool) (ev : List ℝ) (s area vol : ℝ) (hs : 0 < s)
    (hvol : 0 < vol) :
    Spectral.normalizeEv m isTet (ev.map (· / (s * s))) (s * s * area) (s * s * s * vol)
      = Spectral.normalizeEv m isTet ev area vol := by
  have key : ∀ lam : ℝ, lam / (s * s) * (s * s * area) = lam * area ∧
      lam / (s * s) * Spectral.pow23 (s * s * s * vol) = lam * Spectral.pow23 vol := by
    intro lam
    rw [pow23_real, pow23_real]
    exact normalize_ev_scale s lam area vol hs hvol
  have h1 : (ev.map (· / (s * s))).map (· * (s * s * area)) = ev.map (· * area) := by
    rw [List.map_map]; exact List.map_congr_left fun lam _ => (key lam).1
  have h2 : (ev.map (· / (s * s))).map (· * Spectral.pow23 (s * s * s * vol)) = ev.map (· * Spectral.pow23 vol) := by
    rw [List.map_map]; exact List.map_congr_left fun lam _ => (key lam).2
  cases m <;> cases isTet <;> simp only [Spectral.normalizeEv, h1, h2, Bool.false_eq_true, if_false, if_true]

/-- the integer fields of the ShapeDNA dictionary -/
theorem dictFields_spec (isTet : Bool) (nElems nVerts k : Nat) :
    (Spectral.dictFields isTet nElems nVerts k).lookup "Elements" = some nElems ∧
    (Spectral.dictFields isTet nElems nVerts k).lookup "DoF" = some nVerts ∧
    (Spectral.dictFields isTet nElems nVerts k).lookup "NumEW" = some k ∧
    (Spectral.dictFields isTet nElems nVerts k).lookup "Dimension" = some (if isTet then 3 else 2) ∧
    (Spectral.dictFields isTet nElems nVerts k).lookup "Refine" = some 0 ∧
    (Spectral.dictFields isTet nElems nVerts k).lookup "Degree" = some 1 ∧
    (Spectral.dictFields isTet nElems nVerts k).map (·.1) = ["Refine", "Degree", "Dimension", "Elements", "DoF", "NumEW"] := by
  refine ⟨?_, ?_, ?_, ?_, ?_, ?_, ?_⟩ <;> simp [Spectral.dictFields, List.lookup]

/-- the model's shifted matrix is the `shiftMat` of C03 -/
theorem spectral_shiftMat_eq (σ : ℝ) (A B : Coo ℝ) : Spectral.shiftMat σ A B = C03.shiftMat σ A B := rfl

/-! non-vacuity -/
example : Spectral.reweight ([2, 4, 9] : List ℝ) = [2, 2, 3] := by
  rw [spectral_reweight_eq]; simp [reweight, List.zipIdx]; norm_num

example : Spectral.distance ([1, 2] : List ℝ) [4, 6] = 5 := by
  rw [spectral_distance_eq]
  simp only [dist, List.zip_cons_cons, List.zip_nil_right, List.map_cons, List.map_nil, List.sum_cons, List.sum_nil]
  rw [show ((1 : ℝ) - 4) ^ 2 + ((2 - 6) ^ 2 + 0) = 5 * 5 by norm_num, Real.sqrt_mul_self (by norm_num)]

example : Spectral.normalizeEv .geometry true ([8] : List ℝ) 1 8 = [32] := by
  rw [(normalizeEv_spec [8] 1 8).2.2.2]
  have : (8 : ℝ) ^ ((2 : ℝ) / 3) = 4 := by
    rw [show (8 : ℝ) = 2 ^ ((3 : ℕ) : ℝ) by norm_num, ← Real.rpow_mul (by norm_num)]
    rw [show ((3 : ℕ) : ℝ) * ((2 : ℝ) / 3) = ((2 : ℕ) : ℝ) by push_cast; norm_num, Real.rpow_natCast]; norm_num
  simp [this]; norm_num

end Props.C04
end LapyVerif
