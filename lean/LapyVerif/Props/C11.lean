import Mathlib.Tactic.Ring
import Mathlib.Tactic.Linarith
import LapyVerif.Lemmas.BridgeTac
import LapyVerif.Lemmas.RefineLemmas
import LapyVerif.Lemmas.RefineTopo
import LapyVerif.Model.Measures
import LapyVerif.Model.TetTopo
/-
  C11 — one refinement step keeps the old vertices, adds one midpoint vertex per edge, replaces every triangle by four
  children with the same winding; `rm_free_vertices_` renumbers by rank.
  Model: `Refine.refine1`, `Refine.refine`, `RmFree.tri`, `RmFree.tet` (`Model/Refine.lean`).
-/
namespace LapyVerif.Props.C11
open LapyVerif V3 Refine

/-- every triangle has three pairwise distinct vertex indices -/
def Distinct (ts : List Tri) : Prop := ∀ τ ∈ ts, τ.1 ≠ τ.2.1 ∧ τ.2.1 ≠ τ.2.2 ∧ τ.2.2 ≠ τ.1
/-- all vertex indices are `< n` -/
def InRange (n : Nat) (ts : List Tri) : Prop := ∀ τ ∈ ts, τ.1 < n ∧ τ.2.1 < n ∧ τ.2.2 < n

instance (ts : List Tri) : Decidable (Distinct ts) := by unfold Distinct; infer_instance
instance (n : Nat) (ts : List Tri) : Decidable (InRange n ts) := by unfold InRange; infer_instance

section Generic
variable {K : Type} [Zero K] [Add K] [Mul K] [Div K] [NatCast K]

/-- the vertex array read as a function (out-of-range reads give the zero vector, as in the model) -/
def vtxOf (verts : List (V3 K)) : Nat → V3 K := fun i => verts.getD i ⟨0, 0, 0⟩

/-! ### 1. counts and the edge numbering -/

theorem refine_tris_length (verts : List (V3 K)) (ts : List Tri) : (refine1 verts ts).2.length = 4 * ts.length := by
  rw [refine1_tris, refTris_length]

theorem refine_verts_length (verts : List (V3 K)) (ts : List Tri) :
    (refine1 verts ts).1.length = verts.length + (edgeList ts).length := by
  simp only [refine1, List.length_append, List.length_map]

/-- the triangle count quadruples, the vertex count grows by the edge count -/
theorem refine_counts (verts : List (V3 K)) (ts : List Tri) :
    (refine1 verts ts).2.length = 4 * ts.length ∧
    (refine1 verts ts).1.length = verts.length + (edgeList ts).length :=
  ⟨refine_tris_length verts ts, refine_verts_length verts ts⟩

end Generic

/-- `edgeList ts` lists every undirected edge `(i,j)`, `i ≤ j`, of the mesh exactly once, in row-major order -/
theorem edgeList_spec (ts : List Tri) :
    (edgeList ts).Nodup ∧
    (∀ i j, (i, j) ∈ edgeList ts ↔ i ≤ j ∧ (i, j) ∈ Topo.symKeys ts) ∧
    (edgeList ts).Pairwise (fun a b => Topo.lexLe a b = true) :=
  ⟨edgeList_nodup ts, fun _ _ => mem_edgeList, edgeList_sorted ts⟩

theorem symKeys_ne {ts : List Tri} (hd : Distinct ts) {k : Nat × Nat} (hk : k ∈ Topo.symKeys ts) : k.1 ≠ k.2 := by
  rw [Topo.mem_symKeys] at hk
  obtain ⟨τ, hτ, hk⟩ := hk
  have := hd τ hτ
  simp only [List.mem_cons, List.not_mem_nil, or_false] at hk
  rcases hk with rfl | rfl | rfl | rfl | rfl | rfl <;> simp only <;> omega

/-- without degenerate triangles all listed edges are proper: `i < j` -/
theorem edgeList_lt {ts : List Tri} (hd : Distinct ts) : ∀ k ∈ edgeList ts, k.1 < k.2 := by
  intro k hk
  rw [mem_edgeList] at hk
  have := symKeys_ne hd hk.2
  omega

/-- … and their number is the number of distinct undirected edges `{i,j}`, `i < j` (the `triu(adj_sym, 1)` count) -/
theorem edgeList_length {ts : List Tri} (hd : Distinct ts) :
    (edgeList ts).length = (Measures.undirectedEdges (Topo.symKeys ts)).length := by
  unfold Measures.undirectedEdges
  symm
  apply eraseDups_length_eq (edgeList_nodup ts)
  intro k
  rw [mem_edgeList, List.mem_filter, decide_eq_true_eq]
  constructor
  · rintro ⟨h1, h2⟩; have := symKeys_ne hd h2; exact ⟨h2, by omega⟩
  · rintro ⟨h1, h2⟩; exact ⟨by omega, h1⟩

section Generic
variable {K : Type} [Zero K] [Add K] [Mul K] [Div K] [NatCast K]

/-! ### 2. old vertices are kept, new vertices are the edge midpoints -/

theorem refine_keeps_old (verts : List (V3 K)) (ts : List Tri) (i : Nat) (hi : i < verts.length) :
    (refine1 verts ts).1[i]? = verts[i]? := by
  simp only [refine1]
  exact List.getElem?_append_left hi

/-- the refined vertex array is the old one followed by one vertex per edge -/
theorem refine_verts_eq (verts : List (V3 K)) (ts : List Tri) :
    (refine1 verts ts).1 = verts ++ (edgeList ts).map fun k => midpoint (vtxOf verts k.1) (vtxOf verts k.2) := rfl

theorem refine_midpoints (verts : List (V3 K)) (ts : List Tri) (k : Nat) (hk : k < (edgeList ts).length) :
    (refine1 verts ts).1[verts.length + k]? =
      some (midpoint (vtxOf verts (edgeList ts)[k].1) (vtxOf verts (edgeList ts)[k].2)) := by
  rw [refine_verts_eq, List.getElem?_append_right (Nat.le_add_right _ _)]
  simp only [Nat.add_sub_cancel_left, List.getElem?_map, List.getElem?_eq_getElem hk, Option.map_some]

theorem vtxOf_refine_old (verts : List (V3 K)) (ts : List Tri) (i : Nat) (hi : i < verts.length) :
    vtxOf (refine1 verts ts).1 i = vtxOf verts i := by
  simp only [vtxOf, List.getD_eq_getElem?_getD, refine_keeps_old verts ts i hi]

theorem vtxOf_refine_new (verts : List (V3 K)) (ts : List Tri) (k : Nat) (hk : k < (edgeList ts).length) :
    vtxOf (refine1 verts ts).1 (verts.length + k) =
      midpoint (vtxOf verts (edgeList ts)[k].1) (vtxOf verts (edgeList ts)[k].2) := by
  simp only [vtxOf, List.getD_eq_getElem?_getD]
  rw [refine_midpoints verts ts k hk]
  rfl

/-! ### 3. the edge lookup -/

/-- for an edge of the mesh the lookup is `vno +` the position of the sorted pair in `edgeList`; it is symmetric -/
theorem edgeVertex_spec {ts : List Tri} {a b : Nat} (vno : Nat) (h : (a, b) ∈ Topo.symKeys ts) :
    (∃ k, ∃ hk : k < (edgeList ts).length, (edgeList ts)[k] = (min a b, max a b) ∧
      edgeVertex (edgeList ts) vno a b = vno + k) ∧
    edgeVertex (edgeList ts) vno a b = edgeVertex (edgeList ts) vno b a :=
  ⟨edgeVertex_of_mem (edge_mem_edgeList h), edgeVertex_comm _ _ _ _⟩

/-- the numbering is a bijection between edge positions and new indices -/
theorem edgeVertex_edgeList (ts : List Tri) (vno k : Nat) (hk : k < (edgeList ts).length) :
    edgeVertex (edgeList ts) vno (edgeList ts)[k].1 (edgeList ts)[k].2 = vno + k :=
  edgeVertex_getElem (edgeList_nodup ts) vno k hk (mem_edgeList.mp (List.getElem_mem hk)).1

theorem tri_edges_mem {ts : List Tri} {t0 t1 t2 : Nat} (h : (t0, t1, t2) ∈ ts) :
    (t0, t1) ∈ Topo.symKeys ts ∧ (t1, t2) ∈ Topo.symKeys ts ∧ (t2, t0) ∈ Topo.symKeys ts := by
  simp only [Topo.mem_symKeys]
  exact ⟨⟨_, h, by simp⟩, ⟨_, h, by simp⟩, ⟨_, h, by simp⟩⟩

end Generic

/-! ### 3'. the new vertex on an edge is the midpoint of its end points (ℝ) -/

theorem midpoint_comm (a b : V3 ℝ) : midpoint a b = midpoint b a := by
  apply V3.ext' <;> (simp only [midpoint]; v3_flat; ring)

theorem midpoint_self (a : V3 ℝ) : midpoint a a = a := by
  apply V3.ext' <;> (simp only [midpoint]; v3_flat; push_cast; ring)

/-- the refined vertex array at the new index of edge `{a,b}` holds the midpoint of `a` and `b` -/
theorem children_vertices (verts : List (V3 ℝ)) {ts : List Tri} {a b : Nat} (h : (a, b) ∈ Topo.symKeys ts) :
    vtxOf (refine1 verts ts).1 (edgeVertex (edgeList ts) verts.length a b) = midpoint (vtxOf verts a) (vtxOf verts b) := by
  obtain ⟨k, hk, hget, hev⟩ := (edgeVertex_spec verts.length h).1
  rw [hev, vtxOf_refine_new verts ts k hk, hget]
  rcases Nat.le_total a b with hab | hab
  · rw [Nat.min_eq_left hab, Nat.max_eq_right hab]
  · rw [Nat.min_eq_right hab, Nat.max_eq_left hab]; exact midpoint_comm _ _

/-! ### 4. geometry of the four children -/

/-- un-normalised normal of the triangle `(a,b,c)`: twice the area vector -/
def triCross (a b c : V3 ℝ) : V3 ℝ := cross (b - a) (c - a)
/-- integrand of the divergence-theorem volume -/
def triVol (a b c : V3 ℝ) : ℝ := dot a (cross (b - a) (c - a))
/-- centroid of a triangle -/
noncomputable def triCentroid (a b c : V3 ℝ) : V3 ℝ := smul (1 / 3) (a + b + c)

/-- each child has one quarter of the parent's area vector: same plane, same winding, a quarter of the area -/
theorem child_cross (p0 p1 p2 : V3 ℝ) :
    triCross p0 (midpoint p0 p1) (midpoint p2 p0) = smul (1 / 4) (triCross p0 p1 p2) ∧
    triCross p1 (midpoint p1 p2) (midpoint p0 p1) = smul (1 / 4) (triCross p0 p1 p2) ∧
    triCross p2 (midpoint p2 p0) (midpoint p1 p2) = smul (1 / 4) (triCross p0 p1 p2) ∧
    triCross (midpoint p0 p1) (midpoint p1 p2) (midpoint p2 p0) = smul (1 / 4) (triCross p0 p1 p2) := by
  refine ⟨?_, ?_, ?_, ?_⟩ <;> apply V3.ext' <;>
    (simp only [triCross, midpoint]; v3_flat; push_cast; ring)

/-- the signed-volume integrands of the children add up to the parent's -/
theorem child_volume (p0 p1 p2 : V3 ℝ) :
    triVol p0 (midpoint p0 p1) (midpoint p2 p0) + triVol p1 (midpoint p1 p2) (midpoint p0 p1) +
    triVol p2 (midpoint p2 p0) (midpoint p1 p2) + triVol (midpoint p0 p1) (midpoint p1 p2) (midpoint p2 p0)
      = triVol p0 p1 p2 := by
  simp only [triVol, midpoint]; v3_flat; push_cast; ring

/-- the children's centroids, each weighted by its area fraction `1/4`, add up to the parent's centroid -/
theorem child_centroid (p0 p1 p2 : V3 ℝ) :
    smul (1 / 4) (triCentroid p0 (midpoint p0 p1) (midpoint p2 p0)) +
    smul (1 / 4) (triCentroid p1 (midpoint p1 p2) (midpoint p0 p1)) +
    smul (1 / 4) (triCentroid p2 (midpoint p2 p0) (midpoint p1 p2)) +
    smul (1 / 4) (triCentroid (midpoint p0 p1) (midpoint p1 p2) (midpoint p2 p0)) = triCentroid p0 p1 p2 := by
  apply V3.ext' <;> (simp only [triCentroid, midpoint]; v3_flat; push_cast; ring)

/-- the four children tile the parent: every child vertex is a convex combination of the parent's vertices (it is a
    vertex or an edge midpoint) -/
theorem midpoint_eq (a b : V3 ℝ) : midpoint a b = smul (1 / 2) a + smul (1 / 2) b := by
  apply V3.ext' <;> (simp only [midpoint]; v3_flat; push_cast; ring)

/-! ### 5. mesh-level conservation -/

theorem sum_map_flatMap {α β : Type} (g : α → List β) (f : β → ℝ) (l : List α) :
    ((l.flatMap g).map f).sum = (l.map fun a => ((g a).map f).sum).sum := by
  induction l with
  | nil => rfl
  | cons a l ih => simp only [List.flatMap_cons, List.map_append, List.sum_append, List.map_cons, List.sum_cons, ih]

/-- a per-triangle quantity whose four children add up to the parent's value has the same total on the refined mesh -/
theorem refTris_sum {mv : Nat → Nat → Nat} {ts : List Tri} {f' f : Tri → ℝ}
    (h : ∀ τ ∈ ts, ((children mv τ).map f').sum = f τ) : ((refTris mv ts).map f').sum = (ts.map f).sum := by
  rw [refTris, sum_map_flatMap]
  congr 1
  exact List.map_congr_left h

/-- the vertex data seen by the children of `τ`: old corners unchanged, new corners are the edge midpoints -/
theorem refine_vtx (verts : List (V3 ℝ)) {ts : List Tri} (hr : InRange verts.length ts) {τ : Tri} (hτ : τ ∈ ts) :
    vtxOf (refine1 verts ts).1 τ.1 = vtxOf verts τ.1 ∧
    vtxOf (refine1 verts ts).1 τ.2.1 = vtxOf verts τ.2.1 ∧
    vtxOf (refine1 verts ts).1 τ.2.2 = vtxOf verts τ.2.2 ∧
    vtxOf (refine1 verts ts).1 (edgeVertex (edgeList ts) verts.length τ.1 τ.2.1) =
      midpoint (vtxOf verts τ.1) (vtxOf verts τ.2.1) ∧
    vtxOf (refine1 verts ts).1 (edgeVertex (edgeList ts) verts.length τ.2.1 τ.2.2) =
      midpoint (vtxOf verts τ.2.1) (vtxOf verts τ.2.2) ∧
    vtxOf (refine1 verts ts).1 (edgeVertex (edgeList ts) verts.length τ.2.2 τ.1) =
      midpoint (vtxOf verts τ.2.2) (vtxOf verts τ.1) := by
  obtain ⟨h0, h1, h2⟩ := hr τ hτ
  obtain ⟨e0, e1, e2⟩ := tri_edges_mem (ts := ts) (t0 := τ.1) (t1 := τ.2.1) (t2 := τ.2.2) hτ
  exact ⟨vtxOf_refine_old verts ts _ h0, vtxOf_refine_old verts ts _ h1, vtxOf_refine_old verts ts _ h2,
    children_vertices verts e0, children_vertices verts e1, children_vertices verts e2⟩

/-- **the divergence-theorem volume sum is unchanged by a refinement step** (no orientation, closedness or
    non-degeneracy hypothesis: it is an identity triangle by triangle) -/
theorem refine_volumeSum (verts : List (V3 ℝ)) (ts : List Tri) (hr : InRange verts.length ts) :
    Measures.volumeSum (vtxOf (refine1 verts ts).1) (refine1 verts ts).2 = Measures.volumeSum (vtxOf verts) ts := by
  unfold Measures.volumeSum
  congr 1
  rw [refine1_tris]
  apply refTris_sum
  intro τ hτ
  obtain ⟨h0, h1, h2, h01, h12, h20⟩ := refine_vtx verts hr hτ
  simp only [children, List.map_cons, List.map_nil, List.sum_cons, List.sum_nil, h0, h1, h2, h01, h12, h20]
  have := child_volume (vtxOf verts τ.1) (vtxOf verts τ.2.1) (vtxOf verts τ.2.2)
  simp only [triVol] at this
  linarith

/-- per-triangle area vectors `cross (v1 - v0) (v2 - v0)` of a mesh -/
def crossList (vtx : Nat → V3 ℝ) (ts : List Tri) : List (V3 ℝ) :=
  ts.map fun τ => triCross (vtx τ.1) (vtx τ.2.1) (vtx τ.2.2)

/-- **parent by parent, the area vectors of the refined mesh are four copies of a quarter of the parent's** -/
theorem refine_crossList (verts : List (V3 ℝ)) (ts : List Tri) (hr : InRange verts.length ts) :
    crossList (vtxOf (refine1 verts ts).1) (refine1 verts ts).2 =
      (crossList (vtxOf verts) ts).flatMap fun n => List.replicate 4 (smul (1 / 4) n) := by
  rw [refine1_tris, crossList, crossList, refTris, List.map_flatMap, List.flatMap_map]
  apply List.flatMap_congr
  intro τ hτ
  obtain ⟨h0, h1, h2, h01, h12, h20⟩ := refine_vtx verts hr hτ
  obtain ⟨c0, c1, c2, c3⟩ := child_cross (vtxOf verts τ.1) (vtxOf verts τ.2.1) (vtxOf verts τ.2.2)
  simp only [children, List.map_cons, List.map_nil, h0, h1, h2, h01, h12, h20, c0, c1, c2, c3]
  rfl

theorem crossArea_eq (a b c : V3 ℝ) : Measures.crossArea a b c = (1 / 2) * Real.sqrt (normSq (triCross a b c)) := by
  simp only [Measures.crossArea, Measures.c, triCross, sqrt_real]; push_cast; ring

theorem sqrt_normSq_quarter (n : V3 ℝ) : Real.sqrt (normSq (smul (1 / 4) n)) = (1 / 4) * Real.sqrt (normSq n) := by
  have : normSq (smul (1 / 4) n) = (1 / 4) * (1 / 4) * normSq n := by v3_flat; ring
  rw [this, Real.sqrt_mul (mul_self_nonneg _), Real.sqrt_mul_self (by norm_num)]

/-- **the total cross-product area `Σ ½‖cross‖` (the one used by `vertex_areas` and `centroid`) is unchanged** -/
theorem refine_crossArea (verts : List (V3 ℝ)) (ts : List Tri) (hr : InRange verts.length ts) :
    (((refine1 verts ts).2).map fun τ =>
        Measures.crossArea (vtxOf (refine1 verts ts).1 τ.1) (vtxOf (refine1 verts ts).1 τ.2.1)
          (vtxOf (refine1 verts ts).1 τ.2.2)).sum =
    (ts.map fun τ => Measures.crossArea (vtxOf verts τ.1) (vtxOf verts τ.2.1) (vtxOf verts τ.2.2)).sum := by
  rw [refine1_tris]
  apply refTris_sum
  intro τ hτ
  obtain ⟨h0, h1, h2, h01, h12, h20⟩ := refine_vtx verts hr hτ
  obtain ⟨c0, c1, c2, c3⟩ := child_cross (vtxOf verts τ.1) (vtxOf verts τ.2.1) (vtxOf verts τ.2.2)
  simp only [children, List.map_cons, List.map_nil, List.sum_cons, List.sum_nil, h0, h1, h2, h01, h12, h20,
    crossArea_eq, c0, c1, c2, c3, sqrt_normSq_quarter]
  ring

/-! ### 6. `refine_(it)` is `it` single steps -/
section Iter
variable {K : Type} [Zero K] [Add K] [Mul K] [Div K] [NatCast K]

theorem refine_zero (verts : List (V3 K)) (ts : List Tri) : refine 0 verts ts = (verts, ts) := rfl

theorem refine_succ (n : Nat) (verts : List (V3 K)) (ts : List Tri) :
    refine (n + 1) verts ts = (let r := refine1 verts ts; refine n r.1 r.2) := rfl

theorem refine_one (verts : List (V3 K)) (ts : List Tri) : refine 1 verts ts = refine1 verts ts := rfl

/-- `refine (m+n)` is `refine m` followed by `refine n` -/
theorem refine_add (m n : Nat) (verts : List (V3 K)) (ts : List Tri) :
    refine (m + n) verts ts = refine n (refine m verts ts).1 (refine m verts ts).2 := by
  induction m generalizing verts ts with
  | zero => simp only [Nat.zero_add, refine_zero]
  | succ m ih => rw [Nat.add_right_comm, refine_succ, refine_succ]; exact ih _ _

/-- `refine_(it)` = `it` successive single steps -/
theorem refine_iter (n : Nat) (verts : List (V3 K)) (ts : List Tri) :
    refine n verts ts = (fun p : List (V3 K) × List Tri => refine1 p.1 p.2)^[n] (verts, ts) := by
  induction n generalizing verts ts with
  | zero => rfl
  | succ n ih => rw [refine_succ, Function.iterate_succ_apply]; exact ih _ _

theorem refine_tris_length_iter (n : Nat) (verts : List (V3 K)) (ts : List Tri) :
    (refine n verts ts).2.length = 4 ^ n * ts.length := by
  induction n generalizing verts ts with
  | zero => simp [refine_zero]
  | succ n ih => rw [refine_succ]; simp only; rw [ih, refine_tris_length]; ring
end Iter

/-! ### 7. topology of the refined mesh

  The statements "`is_oriented`, `is_manifold`, Euler characteristic are unchanged" are FALSE for the model (and for the
  code) if only `Distinct` and `InRange` are assumed: two triangles with the same vertex set share their three new
  vertices, so their inner edges coincide.  Counterexample: the "pillow" `[(0,1,2),(0,2,1)]` is closed, manifold,
  oriented with Euler characteristic 2; its refinement has the inner half-edge `(m20,m01)` twice and every inner edge
  in four triangles: not oriented, not manifold, Euler characteristic 5 (see the `example`s at the end).
  The theorems below therefore carry the extra hypothesis `FaceSimple` (no two triangles have the same vertex set) and
  the suffix `_partial`.  Closedness needs no extra hypothesis. -/

/-- no two triangles (at different positions of the list) have the same vertex set -/
def FaceSimple (ts : List Tri) : Prop := ts.Pairwise (fun τ σ => ¬ Refine.SameVerts τ σ)

instance (ts : List Tri) : Decidable (FaceSimple ts) := by unfold FaceSimple; infer_instance

section Topology
variable {K : Type} [Zero K] [Add K] [Mul K] [Div K] [NatCast K]

/-- the new vertex on edge `{a,b}` in the refinement of `(verts, ts)` -/
abbrev newVertex (verts : List (V3 K)) (ts : List Tri) (a b : Nat) : Nat := edgeVertex (edgeList ts) verts.length a b

omit [Zero K] [Add K] [Mul K] [Div K] [NatCast K] in
/-- the edge numbering is symmetric, yields new indices `≥ vno`, and is injective on undirected edges -/
theorem newVertex_spec (verts : List (V3 K)) (ts : List Tri) :
    (∀ a b, newVertex verts ts a b = newVertex verts ts b a) ∧
    (∀ a b, (a, b) ∈ Topo.symKeys ts → verts.length ≤ newVertex verts ts a b ∧
      newVertex verts ts a b < verts.length + (edgeList ts).length) ∧
    (∀ a b c d, (a, b) ∈ Topo.symKeys ts → (c, d) ∈ Topo.symKeys ts → newVertex verts ts a b = newVertex verts ts c d →
      (a = c ∧ b = d) ∨ (a = d ∧ b = c)) := by
  have hm := edgeVertex_edgeMap verts.length ts
  refine ⟨hm.comm, fun a b h => ⟨hm.ge a b h, ?_⟩, hm.inj⟩
  obtain ⟨k, hk, _, hev⟩ := (edgeVertex_spec verts.length h).1
  show edgeVertex (edgeList ts) verts.length a b < _
  omega

/-- **every half-edge of the refined mesh is a first half `(i, m_ij)` or a second half `(m_ij, j)` of a parent
    half-edge `(i,j)`, or one of the six inner half-edges of a parent** -/
theorem refine_halfEdges (verts : List (V3 K)) (ts : List Tri) (k : Nat × Nat) :
    k ∈ Topo.dirKeys (refine1 verts ts).2 ↔
      (∃ s ∈ Topo.dirKeys ts, k = (s.1, newVertex verts ts s.1 s.2)) ∨
      (∃ s ∈ Topo.dirKeys ts, k = (newVertex verts ts s.1 s.2, s.2)) ∨
      k ∈ ts.flatMap (Refine.inner (newVertex verts ts)) := by
  rw [refine1_tris]; exact mem_dirKeys_refTris k

/-- **the two halves of a parent half-edge occur as often as the parent half-edge; any other half-edge of the refined
    mesh is an inner one** -/
theorem refine_halfEdge_count (verts : List (V3 K)) (ts : List Tri) (hr : InRange verts.length ts) :
    (∀ s ∈ Topo.dirKeys ts,
      (Topo.dirKeys (refine1 verts ts).2).count (s.1, newVertex verts ts s.1 s.2) = (Topo.dirKeys ts).count s ∧
      (Topo.dirKeys (refine1 verts ts).2).count (newVertex verts ts s.1 s.2, s.2) = (Topo.dirKeys ts).count s) ∧
    (∀ k, (Topo.dirKeys (refine1 verts ts).2).count k = (ts.flatMap (Refine.inner (newVertex verts ts))).count k ∨
      ∃ s ∈ Topo.dirKeys ts, (Topo.dirKeys (refine1 verts ts).2).count k = (Topo.dirKeys ts).count s) := by
  rw [refine1_tris]
  obtain ⟨h1, h2, h3⟩ := count_dirKeys_refTris (edgeVertex_edgeMap verts.length ts) hr
  exact ⟨fun s hs => ⟨h1 s hs, h2 s hs⟩, h3⟩

omit [Zero K] [Add K] [Mul K] [Div K] [NatCast K] in
/-- **each inner half-edge occurs exactly once** (three inner edges per parent, once in each direction: `6 T` in all) -/
theorem refine_inner_once (verts : List (V3 K)) (ts : List Tri) (hd : Distinct ts) (hs : FaceSimple ts) :
    (ts.flatMap (Refine.inner (newVertex verts ts))).Nodup ∧
    (ts.flatMap (Refine.inner (newVertex verts ts))).length = 6 * ts.length ∧
    (∀ k, k ∈ ts.flatMap (Refine.inner (newVertex verts ts)) → (k.2, k.1) ∈ ts.flatMap (Refine.inner (newVertex verts ts))) := by
  refine ⟨innerAll_nodup (edgeVertex_edgeMap verts.length ts) hd hs, innerAll_length _ _, ?_⟩
  intro k hk
  obtain ⟨τ, hτ, hk⟩ := List.mem_flatMap.mp hk
  refine List.mem_flatMap.mpr ⟨τ, hτ, ?_⟩
  simp only [Refine.inner, List.mem_cons, List.not_mem_nil, or_false] at hk ⊢
  rcases hk with rfl | rfl | rfl | rfl | rfl | rfl <;> simp

/-- **closedness is unchanged** -/
theorem refine_isClosed (verts : List (V3 K)) (ts : List Tri) (hr : InRange verts.length ts) :
    Topo.isClosed (refine1 verts ts).2 = Topo.isClosed ts := by
  rw [refine1_tris]; exact isClosed_refTris (edgeVertex_edgeMap verts.length ts) hr

/-- **manifoldness is unchanged** (for meshes without repeated faces) -/
theorem refine_isManifold_partial (verts : List (V3 K)) (ts : List Tri) (hr : InRange verts.length ts)
    (hd : Distinct ts) (hs : FaceSimple ts) : Topo.isManifold (refine1 verts ts).2 = Topo.isManifold ts := by
  rw [refine1_tris]; exact isManifold_refTris (edgeVertex_edgeMap verts.length ts) hr hd hs

/-- **orientedness is unchanged** (for meshes without repeated faces) -/
theorem refine_isOriented_partial (verts : List (V3 K)) (ts : List Tri) (hr : InRange verts.length ts)
    (hd : Distinct ts) (hs : FaceSimple ts) : Topo.isOriented (refine1 verts ts).2 = Topo.isOriented ts := by
  rw [refine1_tris]; exact isOriented_refTris (edgeVertex_edgeMap verts.length ts) hr hd hs

/-- the three counts entering the Euler characteristic: `V' = V + E`, `E' = 2E + 3T`, `T' = 4T` -/
theorem refine_VET_partial (verts : List (V3 K)) (ts : List Tri) (hr : InRange verts.length ts)
    (hd : Distinct ts) (hs : FaceSimple ts) :
    (Topo.usedVerts (refine1 verts ts).2).length = (Topo.usedVerts ts).length + (edgeList ts).length ∧
    Coo.nnz (Topo.adjSym ts) / 2 = (edgeList ts).length ∧
    Coo.nnz (Topo.adjSym (refine1 verts ts).2) / 2 = 2 * (edgeList ts).length + 3 * ts.length ∧
    (refine1 verts ts).2.length = 4 * ts.length := by
  have hm := edgeVertex_edgeMap verts.length ts
  have hV := usedVerts_refTris hm hr
  rw [newVerts_card] at hV
  have hN := nnz_refTris hm hr hd hs
  have hE := nnz_eq_two_edges hd
  refine ⟨?_, ?_, ?_, refine_tris_length verts ts⟩
  · rw [refine1_tris, usedVerts_length, usedVerts_length]; exact hV
  · rw [Coo.nnz, Topo.adjSym, Topo.keys_adj, hE]; omega
  · rw [refine1_tris, Coo.nnz, Topo.adjSym, Topo.keys_adj, hN, hE]; omega

/-- **the Euler characteristic `V - E + T` is unchanged** (for meshes without repeated faces) -/
theorem refine_euler_partial (verts : List (V3 K)) (ts : List Tri) (hr : InRange verts.length ts)
    (hd : Distinct ts) (hs : FaceSimple ts) : Topo.euler (refine1 verts ts).2 = Topo.euler ts := by
  obtain ⟨hV, hE, hE', hT⟩ := refine_VET_partial verts ts hr hd hs
  simp only [Topo.euler, hV, hE, hE', hT]
  push_cast
  ring

end Topology

/-! ### 5'. the model's `area` (Heron), `volume` and `centroid` of the refined mesh -/

theorem sqrt_quarter (x : ℝ) : Real.sqrt (1 / 4 * x) = 1 / 2 * Real.sqrt x := by
  have : (1 / 4 : ℝ) * x = (1 / 2) * (1 / 2) * x := by ring
  rw [this, Real.sqrt_mul (mul_self_nonneg _), Real.sqrt_mul_self (by norm_num)]

theorem sqrt_sixteenth (x : ℝ) : Real.sqrt (1 / 16 * x) = 1 / 4 * Real.sqrt x := by
  have : (1 / 16 : ℝ) * x = (1 / 4) * (1 / 4) * x := by ring
  rw [this, Real.sqrt_mul (mul_self_nonneg _), Real.sqrt_mul_self (by norm_num)]

/-- Heron's formula in the three edge lengths, with the model's order of operations -/
noncomputable def heronL (a b cc : ℝ) : ℝ :=
  Real.sqrt ((1 / 2 * (a + b + cc)) * (1 / 2 * (a + b + cc) - a) * (1 / 2 * (a + b + cc) - b) * (1 / 2 * (a + b + cc) - cc))

theorem heron_eq (v0 v1 v2 : V3 ℝ) : Measures.heron v0 v1 v2 =
    heronL (Real.sqrt (normSq (v1 - v0))) (Real.sqrt (normSq (v2 - v1))) (Real.sqrt (normSq (v0 - v2))) := by
  simp only [Measures.heron, Measures.c, heronL, sqrt_real]; push_cast; rfl

theorem heronL_half (a b cc : ℝ) : heronL (1 / 2 * a) (1 / 2 * b) (1 / 2 * cc) = 1 / 4 * heronL a b cc := by
  unfold heronL; rw [← sqrt_sixteenth]; congr 1; ring

theorem heronL_rot (a b cc : ℝ) : heronL b cc a = heronL a b cc := by
  unfold heronL; congr 1; ring

/-- the edges of the children are halves of the parent's edges -/
theorem child_edges (p0 p1 p2 : V3 ℝ) :
    normSq (midpoint p0 p1 - p0) = 1 / 4 * normSq (p1 - p0) ∧
    normSq (midpoint p2 p0 - midpoint p0 p1) = 1 / 4 * normSq (p2 - p1) ∧
    normSq (p0 - midpoint p2 p0) = 1 / 4 * normSq (p0 - p2) ∧
    normSq (midpoint p1 p2 - p1) = 1 / 4 * normSq (p2 - p1) ∧
    normSq (midpoint p0 p1 - midpoint p1 p2) = 1 / 4 * normSq (p0 - p2) ∧
    normSq (p1 - midpoint p0 p1) = 1 / 4 * normSq (p1 - p0) ∧
    normSq (midpoint p2 p0 - p2) = 1 / 4 * normSq (p0 - p2) ∧
    normSq (midpoint p1 p2 - midpoint p2 p0) = 1 / 4 * normSq (p1 - p0) ∧
    normSq (p2 - midpoint p1 p2) = 1 / 4 * normSq (p2 - p1) := by
  refine ⟨?_, ?_, ?_, ?_, ?_, ?_, ?_, ?_, ?_⟩ <;> (simp only [midpoint]; v3_flat; push_cast; ring)

/-- Heron areas of the four children add up to the parent's Heron area -/
theorem child_heron (p0 p1 p2 : V3 ℝ) :
    Measures.heron p0 (midpoint p0 p1) (midpoint p2 p0) + (Measures.heron p1 (midpoint p1 p2) (midpoint p0 p1) +
    (Measures.heron p2 (midpoint p2 p0) (midpoint p1 p2) +
     Measures.heron (midpoint p0 p1) (midpoint p1 p2) (midpoint p2 p0))) = Measures.heron p0 p1 p2 := by
  obtain ⟨e1, e2, e3, e4, e5, e6, e7, e8, e9⟩ := child_edges p0 p1 p2
  have e10 : normSq (midpoint p1 p2 - midpoint p0 p1) = 1 / 4 * normSq (p0 - p2) := by
    rw [← e5]; v3_flat; ring
  have e11 : normSq (midpoint p2 p0 - midpoint p1 p2) = 1 / 4 * normSq (p1 - p0) := by
    rw [← e8]; v3_flat; ring
  have e12 : normSq (midpoint p0 p1 - midpoint p2 p0) = 1 / 4 * normSq (p2 - p1) := by
    rw [← e2]; v3_flat; ring
  simp only [heron_eq, e1, e2, e3, e4, e5, e6, e7, e8, e9, e10, e11, e12, sqrt_quarter, heronL_half]
  rw [heronL_rot (Real.sqrt (normSq (p1 - p0))) (Real.sqrt (normSq (p2 - p1))) (Real.sqrt (normSq (p0 - p2))),
    ← heronL_rot (Real.sqrt (normSq (p0 - p2))) (Real.sqrt (normSq (p1 - p0))) (Real.sqrt (normSq (p2 - p1)))]
  ring

/-- **the total (Heron) area `TriaMesh.area()` is unchanged by a refinement step** -/
theorem refine_area (verts : List (V3 ℝ)) (ts : List Tri) (hr : InRange verts.length ts) :
    Measures.area (vtxOf (refine1 verts ts).1) (refine1 verts ts).2 = Measures.area (vtxOf verts) ts := by
  unfold Measures.area Measures.triAreas
  rw [refine1_tris]
  apply refTris_sum
  intro τ hτ
  obtain ⟨h0, h1, h2, h01, h12, h20⟩ := refine_vtx verts hr hτ
  simp only [children, List.map_cons, List.map_nil, List.sum_cons, List.sum_nil, h0, h1, h2, h01, h12, h20, add_zero]
  exact child_heron _ _ _

/-- **`volume()` (with its closedness / orientation guards) is unchanged** for meshes without repeated faces -/
theorem refine_volume_partial (verts : List (V3 ℝ)) (ts : List Tri) (hr : InRange verts.length ts)
    (hd : Distinct ts) (hs : FaceSimple ts) :
    Measures.volume (vtxOf (refine1 verts ts).1) (refine1 verts ts).2 = Measures.volume (vtxOf verts) ts := by
  unfold Measures.volume
  rw [refine_isClosed verts ts hr, refine_isOriented_partial verts ts hr hd hs, refine_volumeSum verts ts hr]

/-- `Σ` of a list of vectors, left to right from the zero vector (as `np.sum(axis=0)` in the model) -/
def vsum (l : List (V3 ℝ)) : V3 ℝ := l.foldl (· + ·) ⟨0, 0, 0⟩

theorem v3_add_assoc (a b c : V3 ℝ) : a + b + c = a + (b + c) := by
  apply V3.ext' <;> (v3_flat; ring)
theorem v3_zero_add (a : V3 ℝ) : (⟨0, 0, 0⟩ : V3 ℝ) + a = a := by
  apply V3.ext' <;> (v3_flat; ring)
theorem v3_add_zero (a : V3 ℝ) : a + (⟨0, 0, 0⟩ : V3 ℝ) = a := by
  apply V3.ext' <;> (v3_flat; ring)

theorem foldl_add_eq (l : List (V3 ℝ)) (a : V3 ℝ) : l.foldl (· + ·) a = a + vsum l := by
  induction l generalizing a with
  | nil => simp only [List.foldl_nil, vsum, v3_add_zero]
  | cons x l ih => simp only [List.foldl_cons, vsum]; rw [ih, ih (⟨0, 0, 0⟩ + x), v3_zero_add, v3_add_assoc]

theorem vsum_nil : vsum [] = ⟨0, 0, 0⟩ := rfl
theorem vsum_cons (x : V3 ℝ) (l : List (V3 ℝ)) : vsum (x :: l) = x + vsum l := by
  simp only [vsum, List.foldl_cons]; rw [foldl_add_eq, v3_zero_add]; rfl
theorem vsum_append (l m : List (V3 ℝ)) : vsum (l ++ m) = vsum l + vsum m := by
  induction l with
  | nil => simp only [List.nil_append, vsum_nil, v3_zero_add]
  | cons x l ih => simp only [List.cons_append, vsum_cons, ih, v3_add_assoc]

theorem vsum_map_flatMap {α β : Type} (g : α → List β) (f : β → V3 ℝ) (l : List α) :
    vsum ((l.flatMap g).map f) = vsum (l.map fun a => vsum ((g a).map f)) := by
  induction l with
  | nil => rfl
  | cons a l ih => simp only [List.flatMap_cons, List.map_append, vsum_append, List.map_cons, vsum_cons, ih]

/-- the area used as weight by `centroid()` is the cross-product area -/
theorem centroid_weight (v0 v1 v2 : V3 ℝ) :
    (Measures.c 1 / Measures.c 2) * sqrt (normSq (cross (v2 - v1) (v0 - v2))) = Measures.crossArea v0 v1 v2 := by
  have : cross (v2 - v1) (v0 - v2) = cross (v1 - v0) (v2 - v0) := by apply V3.ext' <;> (v3_flat; ring)
  rw [this]; rfl

/-- total cross-product area of a mesh -/
noncomputable def totalArea (vtx : Nat → V3 ℝ) (ts : List Tri) : ℝ :=
  (ts.map fun τ => Measures.crossArea (vtx τ.1) (vtx τ.2.1) (vtx τ.2.2)).sum

/-- one summand of `centroid()`: the triangle centre weighted by `area / total` -/
noncomputable def weightedCentre (vtx : Nat → V3 ℝ) (T : ℝ) (τ : Tri) : V3 ℝ :=
  smul (Measures.crossArea (vtx τ.1) (vtx τ.2.1) (vtx τ.2.2) / T)
    (smul (Measures.c 1 / Measures.c 3) (vtx τ.1 + vtx τ.2.1 + vtx τ.2.2))

theorem zip_map_self {α β γ : Type} (l : List α) (g : α → β) (f : α × β → γ) :
    (l.zip (l.map g)).map f = l.map fun a => f (a, g a) := by
  induction l with
  | nil => rfl
  | cons a l ih => simp only [List.map_cons, List.zip_cons_cons, ih]

theorem centroid_eq (vtx : Nat → V3 ℝ) (ts : List Tri) :
    Measures.centroid vtx ts = (vsum (ts.map (weightedCentre vtx (totalArea vtx ts))), totalArea vtx ts) := by
  simp only [Measures.centroid, centroid_weight, zip_map_self]
  rfl

/-- the weighted centres of the four children add up to the parent's weighted centre (any total `T`) -/
theorem child_weightedCentre (p0 p1 p2 : V3 ℝ) (T : ℝ) :
    let m01 := midpoint p0 p1; let m12 := midpoint p1 p2; let m20 := midpoint p2 p0
    smul (Measures.crossArea p0 m01 m20 / T) (smul (Measures.c 1 / Measures.c 3) (p0 + m01 + m20)) +
    (smul (Measures.crossArea p1 m12 m01 / T) (smul (Measures.c 1 / Measures.c 3) (p1 + m12 + m01)) +
    (smul (Measures.crossArea p2 m20 m12 / T) (smul (Measures.c 1 / Measures.c 3) (p2 + m20 + m12)) +
    (smul (Measures.crossArea m01 m12 m20 / T) (smul (Measures.c 1 / Measures.c 3) (m01 + m12 + m20)) + ⟨0, 0, 0⟩))) =
    smul (Measures.crossArea p0 p1 p2 / T) (smul (Measures.c 1 / Measures.c 3) (p0 + p1 + p2)) := by
  intro m01 m12 m20
  obtain ⟨c0, c1, c2, c3⟩ := child_cross p0 p1 p2
  simp only [crossArea_eq, m01, m12, m20, c0, c1, c2, c3, sqrt_normSq_quarter]
  apply V3.ext' <;> (simp only [midpoint, Measures.c]; v3_flat; push_cast; ring)

/-- **`centroid()` (centroid and total area) is unchanged by a refinement step** -/
theorem refine_centroid (verts : List (V3 ℝ)) (ts : List Tri) (hr : InRange verts.length ts) :
    Measures.centroid (vtxOf (refine1 verts ts).1) (refine1 verts ts).2 = Measures.centroid (vtxOf verts) ts := by
  have hT : totalArea (vtxOf (refine1 verts ts).1) (refine1 verts ts).2 = totalArea (vtxOf verts) ts :=
    refine_crossArea verts ts hr
  rw [centroid_eq, centroid_eq, hT]
  congr 1
  rw [refine1_tris, refTris, vsum_map_flatMap]
  congr 1
  apply List.map_congr_left
  intro τ hτ
  obtain ⟨h0, h1, h2, h01, h12, h20⟩ := refine_vtx verts hr hτ
  simp only [children, List.map_cons, List.map_nil, vsum_cons, vsum_nil, weightedCentre, h0, h1, h2, h01, h12, h20]
  exact child_weightedCentre _ _ _ _

/-! ### 7'. the hypotheses are inherited by the refined mesh, hence everything iterates -/

section Inherit
variable {K : Type} [Zero K] [Add K] [Mul K] [Div K] [NatCast K]

/-- **the refined mesh is again in range, without degenerate triangles and without repeated faces** -/
theorem refine_inherits (verts : List (V3 K)) (ts : List Tri) (hr : InRange verts.length ts) (hd : Distinct ts)
    (hs : FaceSimple ts) :
    InRange (refine1 verts ts).1.length (refine1 verts ts).2 ∧ Distinct (refine1 verts ts).2 ∧
    FaceSimple (refine1 verts ts).2 := by
  have hm := edgeVertex_edgeMap verts.length ts
  rw [refine_verts_length, refine1_tris]
  exact ⟨refTris_inRange hr _ (fun a b h => ((newVertex_spec verts ts).2.1 a b h).2), refTris_distinct hm hr hd,
    refTris_faceSimple hm hr hd hs⟩

/-- **`refine_(it)` keeps closedness, manifoldness, orientedness and the Euler characteristic** and multiplies the
    number of triangles by `4^it` -/
theorem refine_iter_topology_partial (n : Nat) (verts : List (V3 K)) (ts : List Tri) (hr : InRange verts.length ts)
    (hd : Distinct ts) (hs : FaceSimple ts) :
    (InRange (refine n verts ts).1.length (refine n verts ts).2 ∧ Distinct (refine n verts ts).2 ∧
      FaceSimple (refine n verts ts).2) ∧
    Topo.isClosed (refine n verts ts).2 = Topo.isClosed ts ∧
    Topo.isManifold (refine n verts ts).2 = Topo.isManifold ts ∧
    Topo.isOriented (refine n verts ts).2 = Topo.isOriented ts ∧
    Topo.euler (refine n verts ts).2 = Topo.euler ts ∧
    (refine n verts ts).2.length = 4 ^ n * ts.length := by
  induction n generalizing verts ts with
  | zero => exact ⟨⟨hr, hd, hs⟩, rfl, rfl, rfl, rfl, by simp [refine_zero]⟩
  | succ n ih =>
    obtain ⟨hr', hd', hs'⟩ := refine_inherits verts ts hr hd hs
    obtain ⟨hi, h1, h2, h3, h4, h5⟩ := ih (refine1 verts ts).1 (refine1 verts ts).2 hr' hd' hs'
    rw [refine_succ]
    refine ⟨hi, h1.trans (refine_isClosed verts ts hr), h2.trans (refine_isManifold_partial verts ts hr hd hs),
      h3.trans (refine_isOriented_partial verts ts hr hd hs), h4.trans (refine_euler_partial verts ts hr hd hs), ?_⟩
    simp only [h5, refine_tris_length]; ring

end Inherit

/-- range of the refined mesh (no other hypothesis) -/
theorem refine_inRange {K : Type} [Zero K] [Add K] [Mul K] [Div K] [NatCast K] (verts : List (V3 K)) (ts : List Tri)
    (hr : InRange verts.length ts) : InRange (refine1 verts ts).1.length (refine1 verts ts).2 := by
  rw [refine_verts_length, refine1_tris]
  exact refTris_inRange hr _ (fun a b h => ((newVertex_spec verts ts).2.1 a b h).2)

/-- **`refine_(it)` keeps the volume sum, the total area (Heron and cross-product) and the centroid** -/
theorem refine_iter_measures (n : Nat) (verts : List (V3 ℝ)) (ts : List Tri) (hr : InRange verts.length ts) :
    InRange (refine n verts ts).1.length (refine n verts ts).2 ∧
    Measures.volumeSum (vtxOf (refine n verts ts).1) (refine n verts ts).2 = Measures.volumeSum (vtxOf verts) ts ∧
    Measures.area (vtxOf (refine n verts ts).1) (refine n verts ts).2 = Measures.area (vtxOf verts) ts ∧
    Measures.centroid (vtxOf (refine n verts ts).1) (refine n verts ts).2 = Measures.centroid (vtxOf verts) ts := by
  induction n generalizing verts ts with
  | zero => exact ⟨hr, rfl, rfl, rfl⟩
  | succ n ih =>
    obtain ⟨hi, h1, h2, h3⟩ := ih (refine1 verts ts).1 (refine1 verts ts).2 (refine_inRange verts ts hr)
    rw [refine_succ]
    exact ⟨hi, h1.trans (refine_volumeSum verts ts hr), h2.trans (refine_area verts ts hr),
      h3.trans (refine_centroid verts ts hr)⟩

/-! ### 8. `rm_free_vertices_` -/
namespace RmFreeProps
open RmFree

/-- membership mask of the used indices -/
def mask (used : List Nat) : Nat → Bool := fun i => used.contains i

theorem mask_iff (used : List Nat) (i : Nat) : mask used i = true ↔ i ∈ used := by
  simp [mask]

/-- `del` = the unused indices `< nv`, ascending -/
theorem run_del (nv : Nat) (used : List Nat) :
    (run nv used).del = (List.range nv).filter (fun i => !used.contains i) ∧
    (∀ i, i ∈ (run nv used).del ↔ i < nv ∧ i ∉ used) ∧ (run nv used).del.Pairwise (· < ·) := by
  refine ⟨rfl, ?_, filter_range_sorted _ nv⟩
  intro i; simp [run]

theorem run_changed (nv : Nat) (used : List Nat) : (run nv used).changed = true ↔ ∃ i, i < nv ∧ i ∉ used := by
  have h := (run_del nv used).2.1
  have hc : (run nv used).changed = !(run nv used).del.isEmpty := rfl
  rw [hc]
  cases hd : (run nv used).del with
  | nil =>
    simp only [List.isEmpty_nil, Bool.not_true, Bool.false_eq_true, false_iff]
    rintro ⟨i, hi⟩; have := (h i).mpr hi; rw [hd] at this; cases this
  | cons a l =>
    simp only [List.isEmpty_cons, Bool.not_false, true_iff]
    exact ⟨a, (h a).mp (by rw [hd]; exact List.mem_cons_self)⟩

/-- `keep` = the used indices `< nv`, ascending (also on the early-return path, where it is `range nv`) -/
theorem run_keep (nv : Nat) (used : List Nat) :
    (run nv used).keep = (List.range nv).filter (mask used) ∧
    (∀ i, i ∈ (run nv used).keep ↔ i < nv ∧ i ∈ used) ∧ (run nv used).keep.Pairwise (· < ·) := by
  have h1 : (run nv used).keep = (List.range nv).filter (mask used) := by
    have hk : (run nv used).keep = if (run nv used).del.isEmpty then List.range nv else (List.range nv).filter (mask used) := rfl
    rw [hk]
    split
    · next he =>
      symm; rw [List.filter_eq_self]
      intro i hi
      rw [mask_iff]
      by_contra hn
      have := ((run_del nv used).2.1 i).mpr ⟨List.mem_range.mp hi, hn⟩
      rw [List.isEmpty_iff] at he; rw [he] at this; cases this
    · rfl
  refine ⟨h1, ?_, ?_⟩
  · intro i; rw [h1, List.mem_filter, List.mem_range, mask_iff]
  · rw [h1]; exact filter_range_sorted _ nv

/-- `lookup` on a used index is its rank among the used indices -/
theorem run_lookup (nv : Nat) (used : List Nat) {i : Nat} (hi : i ∈ used) :
    (run nv used).lookup i = rank (mask used) i := by
  have : (run nv used).lookup i = rank (mask used) (i + 1) - 1 := rfl
  rw [this, rank_succ, if_pos ((mask_iff used i).mpr hi)]; omega

/-- `lookup` is strictly increasing on the used indices -/
theorem run_lookup_strictMono (nv : Nat) (used : List Nat) {i j : Nat} (hi : i ∈ used) (hj : j ∈ used) (h : i < j) :
    (run nv used).lookup i < (run nv used).lookup j := by
  rw [run_lookup nv used hi, run_lookup nv used hj]
  exact rank_strictMono _ ((mask_iff used i).mpr hi) h

theorem run_lookup_inj (nv : Nat) (used : List Nat) {i j : Nat} (hi : i ∈ used) (hj : j ∈ used)
    (h : (run nv used).lookup i = (run nv used).lookup j) : i = j := by
  rcases Nat.lt_trichotomy i j with hlt | heq | hgt
  · have := run_lookup_strictMono nv used hi hj hlt; omega
  · exact heq
  · have := run_lookup_strictMono nv used hj hi hgt; omega

/-- `keep[lookup i] = i`: `lookup` is the new index of a kept vertex -/
theorem run_keep_lookup (nv : Nat) (used : List Nat) {i : Nat} (hi : i ∈ used) (hlt : i < nv) :
    (run nv used).keep[(run nv used).lookup i]? = some i := by
  rw [(run_keep nv used).1, run_lookup nv used hi]
  exact filter_range_rank _ nv i ((mask_iff used i).mpr hi) hlt

theorem run_lookup_lt (nv : Nat) (used : List Nat) {i : Nat} (hi : i ∈ used) (hlt : i < nv) :
    (run nv used).lookup i < (run nv used).keep.length := by
  have := run_keep_lookup nv used hi hlt
  rw [List.getElem?_eq_some_iff] at this; exact this.1

/-- `lookup (keep[k]) = k` -/
theorem run_lookup_keep (nv : Nat) (used : List Nat) (k : Nat) (hk : k < (run nv used).keep.length) :
    (run nv used).lookup (run nv used).keep[k] = k := by
  have hm := List.getElem_mem hk
  rw [(run_keep nv used).2.1] at hm
  have := run_keep_lookup nv used hm.2 hm.1
  rw [List.getElem?_eq_some_iff] at this
  obtain ⟨h1, h2⟩ := this
  have hnd : (run nv used).keep.Nodup := (run_keep nv used).2.2.imp (fun h => Nat.ne_of_lt h)
  exact (List.Nodup.getElem_inj_iff hnd).mp h2

/-- nothing unused: early return, identity renumbering -/
theorem run_unchanged (nv : Nat) (used : List Nat) (h : ∀ i, i < nv → i ∈ used) :
    (run nv used).changed = false ∧ (run nv used).keep = List.range nv ∧ (run nv used).del = [] ∧
    ∀ i, i < nv → (run nv used).lookup i = i := by
  have hc : (run nv used).changed = false := by
    rw [Bool.eq_false_iff, Ne, run_changed]; rintro ⟨i, hi, hn⟩; exact hn (h i hi)
  have hk : (run nv used).keep = List.range nv := by
    rw [(run_keep nv used).1, List.filter_eq_self]
    intro i hi; exact (mask_iff used i).mpr (h i (List.mem_range.mp hi))
  have hd : (run nv used).del = [] := by
    rw [List.eq_nil_iff_forall_not_mem]; intro i hi
    exact (((run_del nv used).2.1 i).mp hi).2 (h i (((run_del nv used).2.1 i).mp hi).1)
  refine ⟨hc, hk, hd, ?_⟩
  intro i hi
  have h1 := run_keep_lookup nv used (h i hi) hi
  rw [List.getElem?_eq_some_iff] at h1
  obtain ⟨h1, h2⟩ := h1
  simp only [hk, List.getElem_range] at h2
  exact h2

end RmFreeProps

/-- all vertex indices of a tetrahedron list are `< n` -/
def InRange4 (n : Nat) (ts : List Tet) : Prop := ∀ τ ∈ ts, τ.1 < n ∧ τ.2.1 < n ∧ τ.2.2.1 < n ∧ τ.2.2.2 < n

namespace RmFreeProps
open RmFree


theorem flat3_map (f : Nat → Nat) (ts : List Tri) :
    flat3 (ts.map fun τ => (f τ.1, f τ.2.1, f τ.2.2)) = (flat3 ts).map f := by
  induction ts with
  | nil => rfl
  | cons τ ts ih => simp only [flat3, List.map_cons, List.flatMap_cons, List.map_append, List.map_nil] at *; rw [ih]
theorem flat4_map (f : Nat → Nat) (ts : List Tet) :
    flat4 (ts.map fun τ => (f τ.1, f τ.2.1, f τ.2.2.1, f τ.2.2.2)) = (flat4 ts).map f := by
  induction ts with
  | nil => rfl
  | cons τ ts ih => simp only [flat4, List.map_cons, List.flatMap_cons, List.map_append, List.map_nil] at *; rw [ih]

/-- number of distinct used indices = `keep.length`, when all used indices are in range -/
theorem run_keep_length (nv : Nat) (used : List Nat) (hr : ∀ i ∈ used, i < nv) :
    used.eraseDups.length = (run nv used).keep.length := by
  apply eraseDups_length_eq ((run_keep nv used).2.2.imp (fun h => Nat.ne_of_lt h))
  intro i; rw [(run_keep nv used).2.1]
  exact ⟨fun h => h.2, fun h => ⟨hr i h, h⟩⟩

/-- after renumbering, the number of distinct used indices is still `keep.length` -/
theorem run_map_lookup_length (nv : Nat) (used : List Nat) (hr : ∀ i ∈ used, i < nv) :
    (used.map (run nv used).lookup).eraseDups.length = (run nv used).keep.length := by
  rw [eraseDups_length_map_inj, run_keep_length nv used hr]
  intro x hx y hy h; exact run_lookup_inj nv used hx hy h

/-! #### triangles -/

theorem tri_result (nv : Nat) (ts : List Tri) : (tri nv ts).1 = run nv (flat3 ts) := rfl

/-- the new triangle array is the old one with `lookup` applied to every entry (on the early-return path `lookup` is
    the identity on `0..nv-1`) -/
theorem tri_tris (nv : Nat) (ts : List Tri) (hr : InRange nv ts) :
    (tri nv ts).2 = ts.map fun τ => ((tri nv ts).1.lookup τ.1, (tri nv ts).1.lookup τ.2.1, (tri nv ts).1.lookup τ.2.2) := by
  rw [tri_result]
  have h2 : (tri nv ts).2 = if (run nv (flat3 ts)).changed then
      ts.map (fun τ => ((run nv (flat3 ts)).lookup τ.1, (run nv (flat3 ts)).lookup τ.2.1, (run nv (flat3 ts)).lookup τ.2.2))
      else ts := rfl
  rw [h2]
  split
  · rfl
  · next hc =>
    have hall : ∀ i, i < nv → i ∈ flat3 ts := by
      intro i hi; by_contra hn; exact hc ((run_changed nv _).mpr ⟨i, hi, hn⟩)
    have hid := (run_unchanged nv _ hall).2.2.2
    conv_lhs => rw [← List.map_id ts]
    apply List.map_congr_left
    intro τ hτ
    obtain ⟨h0, h1, h2⟩ := hr τ hτ
    simp only [id, hid _ h0, hid _ h1, hid _ h2]

theorem flat3_lt {nv : Nat} {ts : List Tri} (hr : InRange nv ts) : ∀ i ∈ flat3 ts, i < nv := by
  intro i hi
  obtain ⟨τ, hτ, h⟩ := mem_flat3.mp hi
  obtain ⟨h0, h1, h2⟩ := hr τ hτ
  rcases h with rfl | rfl | rfl <;> assumption

/-- **`rm_free_vertices_` on a triangle mesh** -/
theorem rm_free_tri (nv : Nat) (ts : List Tri) (hr : InRange nv ts) :
    let r := (tri nv ts).1
    let ts' := (tri nv ts).2
    (∀ i, i ∈ r.del ↔ i < nv ∧ i ∉ flat3 ts) ∧ r.del.Pairwise (· < ·) ∧
    (∀ i, i ∈ r.keep ↔ i < nv ∧ i ∈ flat3 ts) ∧ r.keep.Pairwise (· < ·) ∧
    r.keep.length + r.del.length = nv ∧
    (∀ i ∈ flat3 ts, r.keep[r.lookup i]? = some i) ∧
    (∀ k (hk : k < r.keep.length), r.lookup r.keep[k] = k) ∧
    (∀ i ∈ flat3 ts, ∀ j ∈ flat3 ts, i < j → r.lookup i < r.lookup j) ∧
    ts' = ts.map (fun τ => (r.lookup τ.1, r.lookup τ.2.1, r.lookup τ.2.2)) ∧
    InRange r.keep.length ts' ∧
    Topo.hasFreeVertices r.keep.length ts' = false := by
  intro r ts'
  have hr' := flat3_lt hr
  have hts' : ts' = ts.map (fun τ => (r.lookup τ.1, r.lookup τ.2.1, r.lookup τ.2.2)) := tri_tris nv ts hr
  refine ⟨(run_del nv _).2.1, (run_del nv _).2.2, (run_keep nv _).2.1, (run_keep nv _).2.2, ?_,
    fun i hi => run_keep_lookup nv _ hi (hr' i hi), run_lookup_keep nv _,
    fun i hi j hj h => run_lookup_strictMono nv _ hi hj h, hts', ?_, ?_⟩
  · show (run nv (flat3 ts)).keep.length + (run nv (flat3 ts)).del.length = nv
    rw [(run_keep nv _).1, (run_del nv _).1]
    have := List.length_eq_length_filter_add (l := List.range nv) (mask (flat3 ts))
    rw [List.length_range] at this
    exact this.symm
  · rw [hts']
    intro τ' hτ'
    obtain ⟨τ, hτ, rfl⟩ := List.mem_map.mp hτ'
    have m0 : τ.1 ∈ flat3 ts := mem_flat3.mpr ⟨τ, hτ, Or.inl rfl⟩
    have m1 : τ.2.1 ∈ flat3 ts := mem_flat3.mpr ⟨τ, hτ, Or.inr (Or.inl rfl)⟩
    have m2 : τ.2.2 ∈ flat3 ts := mem_flat3.mpr ⟨τ, hτ, Or.inr (Or.inr rfl)⟩
    exact ⟨run_lookup_lt nv _ m0 (hr' _ m0), run_lookup_lt nv _ m1 (hr' _ m1), run_lookup_lt nv _ m2 (hr' _ m2)⟩
  · have hu : (Topo.usedVerts ts').length = r.keep.length := by
      unfold Topo.usedVerts
      rw [List.length_mergeSort]
      show (flat3 ts').eraseDups.length = _
      rw [hts', flat3_map]
      exact run_map_lookup_length nv _ hr'
    simp only [Topo.hasFreeVertices, hu, bne_self_eq_false]

/-- nothing unused: the early return, nothing changes -/
theorem rm_free_tri_unchanged (nv : Nat) (ts : List Tri) (h : ∀ i, i < nv → i ∈ flat3 ts) :
    (tri nv ts).2 = ts ∧ (tri nv ts).1.keep = List.range nv ∧ (tri nv ts).1.del = [] ∧
    (tri nv ts).1.changed = false := by
  obtain ⟨hc, hk, hd, _⟩ := run_unchanged nv _ h
  refine ⟨?_, hk, hd, hc⟩
  have h2 : (tri nv ts).2 = if (run nv (flat3 ts)).changed then
      ts.map (fun τ => ((run nv (flat3 ts)).lookup τ.1, (run nv (flat3 ts)).lookup τ.2.1, (run nv (flat3 ts)).lookup τ.2.2))
      else ts := rfl
  rw [h2, hc]; rfl

/-- something is removed exactly when some index `< nv` is unused -/
theorem rm_free_tri_changed (nv : Nat) (ts : List Tri) :
    (tri nv ts).1.changed = true ↔ ∃ i, i < nv ∧ i ∉ flat3 ts := run_changed nv _

end RmFreeProps

namespace RmFreeProps
open RmFree
/-! #### tetrahedra -/

theorem tet_result (nv : Nat) (ts : List Tet) : (tet nv ts).1 = run nv (flat4 ts) := rfl

theorem tet_tets (nv : Nat) (ts : List Tet) (hr : InRange4 nv ts) :
    (tet nv ts).2 = ts.map fun τ => ((tet nv ts).1.lookup τ.1, (tet nv ts).1.lookup τ.2.1,
      (tet nv ts).1.lookup τ.2.2.1, (tet nv ts).1.lookup τ.2.2.2) := by
  rw [tet_result]
  have h2 : (tet nv ts).2 = if (run nv (flat4 ts)).changed then
      ts.map (fun τ => ((run nv (flat4 ts)).lookup τ.1, (run nv (flat4 ts)).lookup τ.2.1,
        (run nv (flat4 ts)).lookup τ.2.2.1, (run nv (flat4 ts)).lookup τ.2.2.2))
      else ts := rfl
  rw [h2]
  split
  · rfl
  · next hc =>
    have hall : ∀ i, i < nv → i ∈ flat4 ts := by
      intro i hi; by_contra hn; exact hc ((run_changed nv _).mpr ⟨i, hi, hn⟩)
    have hid := (run_unchanged nv _ hall).2.2.2
    conv_lhs => rw [← List.map_id ts]
    apply List.map_congr_left
    intro τ hτ
    obtain ⟨h0, h1, h2, h3⟩ := hr τ hτ
    simp only [id, hid _ h0, hid _ h1, hid _ h2, hid _ h3]

theorem flat4_lt {nv : Nat} {ts : List Tet} (hr : InRange4 nv ts) : ∀ i ∈ flat4 ts, i < nv := by
  intro i hi
  obtain ⟨τ, hτ, h⟩ := mem_flat4.mp hi
  obtain ⟨h0, h1, h2, h3⟩ := hr τ hτ
  rcases h with rfl | rfl | rfl | rfl <;> assumption

/-- **`rm_free_vertices_` on a tetrahedral mesh** -/
theorem rm_free_tet (nv : Nat) (ts : List Tet) (hr : InRange4 nv ts) :
    let r := (tet nv ts).1
    let ts' := (tet nv ts).2
    (∀ i, i ∈ r.del ↔ i < nv ∧ i ∉ flat4 ts) ∧ r.del.Pairwise (· < ·) ∧
    (∀ i, i ∈ r.keep ↔ i < nv ∧ i ∈ flat4 ts) ∧ r.keep.Pairwise (· < ·) ∧
    r.keep.length + r.del.length = nv ∧
    (∀ i ∈ flat4 ts, r.keep[r.lookup i]? = some i) ∧
    (∀ k (hk : k < r.keep.length), r.lookup r.keep[k] = k) ∧
    (∀ i ∈ flat4 ts, ∀ j ∈ flat4 ts, i < j → r.lookup i < r.lookup j) ∧
    ts' = ts.map (fun τ => (r.lookup τ.1, r.lookup τ.2.1, r.lookup τ.2.2.1, r.lookup τ.2.2.2)) ∧
    InRange4 r.keep.length ts' ∧
    TetTopo.hasFreeVertices r.keep.length ts' = false := by
  intro r ts'
  have hr' := flat4_lt hr
  have hts' : ts' = ts.map (fun τ => (r.lookup τ.1, r.lookup τ.2.1, r.lookup τ.2.2.1, r.lookup τ.2.2.2)) :=
    tet_tets nv ts hr
  refine ⟨(run_del nv _).2.1, (run_del nv _).2.2, (run_keep nv _).2.1, (run_keep nv _).2.2, ?_,
    fun i hi => run_keep_lookup nv _ hi (hr' i hi), run_lookup_keep nv _,
    fun i hi j hj h => run_lookup_strictMono nv _ hi hj h, hts', ?_, ?_⟩
  · show (run nv (flat4 ts)).keep.length + (run nv (flat4 ts)).del.length = nv
    rw [(run_keep nv _).1, (run_del nv _).1]
    have := List.length_eq_length_filter_add (l := List.range nv) (mask (flat4 ts))
    rw [List.length_range] at this
    exact this.symm
  · rw [hts']
    intro τ' hτ'
    obtain ⟨τ, hτ, rfl⟩ := List.mem_map.mp hτ'
    have m0 : τ.1 ∈ flat4 ts := mem_flat4.mpr ⟨τ, hτ, Or.inl rfl⟩
    have m1 : τ.2.1 ∈ flat4 ts := mem_flat4.mpr ⟨τ, hτ, Or.inr (Or.inl rfl)⟩
    have m2 : τ.2.2.1 ∈ flat4 ts := mem_flat4.mpr ⟨τ, hτ, Or.inr (Or.inr (Or.inl rfl))⟩
    have m3 : τ.2.2.2 ∈ flat4 ts := mem_flat4.mpr ⟨τ, hτ, Or.inr (Or.inr (Or.inr rfl))⟩
    exact ⟨run_lookup_lt nv _ m0 (hr' _ m0), run_lookup_lt nv _ m1 (hr' _ m1), run_lookup_lt nv _ m2 (hr' _ m2),
      run_lookup_lt nv _ m3 (hr' _ m3)⟩
  · have hu : (TetTopo.usedVerts ts').length = r.keep.length := by
      unfold TetTopo.usedVerts
      show (flat4 ts').eraseDups.length = _
      rw [hts', flat4_map]
      exact run_map_lookup_length nv _ hr'
    simp only [TetTopo.hasFreeVertices, hu, bne_self_eq_false]

theorem rm_free_tet_unchanged (nv : Nat) (ts : List Tet) (h : ∀ i, i < nv → i ∈ flat4 ts) :
    (tet nv ts).2 = ts ∧ (tet nv ts).1.keep = List.range nv ∧ (tet nv ts).1.del = [] ∧
    (tet nv ts).1.changed = false := by
  obtain ⟨hc, hk, hd, _⟩ := run_unchanged nv _ h
  refine ⟨?_, hk, hd, hc⟩
  have h2 : (tet nv ts).2 = if (run nv (flat4 ts)).changed then
      ts.map (fun τ => ((run nv (flat4 ts)).lookup τ.1, (run nv (flat4 ts)).lookup τ.2.1,
        (run nv (flat4 ts)).lookup τ.2.2.1, (run nv (flat4 ts)).lookup τ.2.2.2))
      else ts := rfl
  rw [h2, hc]; rfl

theorem rm_free_tet_changed (nv : Nat) (ts : List Tet) :
    (tet nv ts).1.changed = true ↔ ∃ i, i < nv ∧ i ∉ flat4 ts := run_changed nv _

end RmFreeProps

/-! ### 9. non-vacuity: concrete meshes -/
section Examples

/-- two triangles sharing the edge `{1,2}` -/
def ts2 : List Tri := [(0, 1, 2), (1, 3, 2)]
/-- boundary of a tetrahedron (closed, oriented) -/
def tsTet : List Tri := [(0, 2, 1), (0, 1, 3), (1, 2, 3), (2, 0, 3)]
/-- the same triangle with both windings: closed, manifold, oriented, but not `FaceSimple` -/
def tsPillow : List Tri := [(0, 1, 2), (0, 2, 1)]

example : Distinct ts2 ∧ InRange 4 ts2 ∧ FaceSimple ts2 := by decide
example : Distinct tsTet ∧ InRange 4 tsTet ∧ FaceSimple tsTet := by decide
example : Topo.isOriented tsTet = true ∧ Topo.isManifold tsTet = true ∧ Topo.isClosed tsTet = true := by decide
example : Topo.isOriented ts2 = true ∧ Topo.isManifold ts2 = true ∧ Topo.isClosed ts2 = false := by decide

theorem ts2_edgeList : edgeList ts2 = [(0, 1), (0, 2), (1, 2), (1, 3), (2, 3)] := by
  simp [ts2, edgeList, Topo.symKeys, List.eraseDups_cons, List.mergeSort, Topo.lexLe]

theorem tsTet_edgeList : edgeList tsTet = [(0, 1), (0, 2), (0, 3), (1, 2), (1, 3), (2, 3)] := by
  simp [tsTet, edgeList, Topo.symKeys, List.eraseDups_cons, List.mergeSort, Topo.lexLe]

theorem tsPillow_edgeList : edgeList tsPillow = [(0, 1), (0, 2), (1, 2)] := by
  simp [tsPillow, edgeList, Topo.symKeys, List.eraseDups_cons, List.mergeSort, Topo.lexLe]

/-- the refined triangle list of `ts2`, for any four vertices -/
theorem ts2_refined {K : Type} [Zero K] [Add K] [Mul K] [Div K] [NatCast K] (verts : List (V3 K))
    (h : verts.length = 4) :
    (refine1 verts ts2).2 = [(0, 4, 5), (1, 6, 4), (2, 5, 6), (4, 6, 5), (1, 7, 6), (3, 8, 7), (2, 6, 8), (7, 8, 6)] := by
  rw [refine1_tris, h, ts2_edgeList]; decide

/-- four rational points in the plane `z = 0`; the new vertices are the five edge midpoints -/
example : (refine1 (K := Rat) [⟨0, 0, 0⟩, ⟨1, 0, 0⟩, ⟨0, 1, 0⟩, ⟨1, 1, 0⟩] ts2).1 =
    [⟨0, 0, 0⟩, ⟨1, 0, 0⟩, ⟨0, 1, 0⟩, ⟨1, 1, 0⟩,
     ⟨1/2, 0, 0⟩, ⟨0, 1/2, 0⟩, ⟨1/2, 1/2, 0⟩, ⟨1, 1/2, 0⟩, ⟨1/2, 1, 0⟩] := by
  rw [refine_verts_eq, ts2_edgeList]
  simp only [List.map_cons, List.map_nil, vtxOf, midpoint, List.getD_cons_zero, List.getD_cons_succ, List.cons_append,
    List.nil_append, List.cons.injEq, true_and, and_true]
  refine ⟨?_, ?_, ?_, ?_, ?_⟩ <;> apply V3.ext' <;> (v3_flat; norm_num)

/-- the real theorems apply to a concrete mesh: volume sum and area of the refined unit-square mesh -/
example (verts : List (V3 ℝ)) (h : verts.length = 4) :
    Measures.volumeSum (vtxOf (refine1 verts ts2).1) (refine1 verts ts2).2 = Measures.volumeSum (vtxOf verts) ts2 :=
  refine_volumeSum verts ts2 (by rw [h]; decide)

/-- the closed oriented tetrahedron surface stays closed, manifold and oriented, Euler characteristic 2 -/
example {K : Type} [Zero K] [Add K] [Mul K] [Div K] [NatCast K] (verts : List (V3 K)) (h : verts.length = 4) :
    Topo.isClosed (refine1 verts tsTet).2 = true ∧ Topo.isManifold (refine1 verts tsTet).2 = true ∧
    Topo.isOriented (refine1 verts tsTet).2 = true ∧ Topo.euler (refine1 verts tsTet).2 = Topo.euler tsTet := by
  have hr : InRange verts.length tsTet := by rw [h]; decide
  have hd : Distinct tsTet := by decide
  have hs : FaceSimple tsTet := by decide
  rw [refine_isClosed verts _ hr, refine_isManifold_partial verts _ hr hd hs,
    refine_isOriented_partial verts _ hr hd hs, refine_euler_partial verts _ hr hd hs]
  exact ⟨by decide, by decide, by decide, rfl⟩

/-- **counterexample to the unrestricted statements**: the pillow satisfies `Distinct`, `InRange`, is closed,
    manifold and oriented; its refinement is closed but neither manifold nor oriented -/
example : Distinct tsPillow ∧ InRange 3 tsPillow ∧ ¬ FaceSimple tsPillow ∧
    Topo.isClosed tsPillow = true ∧ Topo.isManifold tsPillow = true ∧ Topo.isOriented tsPillow = true := by decide

theorem pillow_refined {K : Type} [Zero K] [Add K] [Mul K] [Div K] [NatCast K] (verts : List (V3 K))
    (h : verts.length = 3) :
    (refine1 verts tsPillow).2 = [(0, 3, 4), (1, 5, 3), (2, 4, 5), (3, 5, 4), (0, 4, 3), (2, 5, 4), (1, 3, 5), (4, 5, 3)] := by
  rw [refine1_tris, h, tsPillow_edgeList]; decide

example {K : Type} [Zero K] [Add K] [Mul K] [Div K] [NatCast K] (verts : List (V3 K)) (h : verts.length = 3) :
    Topo.isClosed (refine1 verts tsPillow).2 = true ∧ Topo.isManifold (refine1 verts tsPillow).2 = false ∧
    Topo.isOriented (refine1 verts tsPillow).2 = false := by
  rw [pillow_refined verts h]; decide

/-- … and the Euler characteristic jumps from 2 to 5 -/
example {K : Type} [Zero K] [Add K] [Mul K] [Div K] [NatCast K] (verts : List (V3 K)) (h : verts.length = 3) :
    Topo.euler tsPillow = 2 ∧ Topo.euler (refine1 verts tsPillow).2 = 5 := by
  rw [pillow_refined verts h]
  simp only [Topo.euler, usedVerts_length]
  decide

/-- `rm_free_vertices_`: vertices 1 and 3 of five are unused -/
example : (RmFree.tri 5 [(0, 2, 4)]).2 = [(0, 1, 2)] ∧ (RmFree.tri 5 [(0, 2, 4)]).1.keep = [0, 2, 4] ∧
    (RmFree.tri 5 [(0, 2, 4)]).1.del = [1, 3] ∧ (RmFree.tri 5 [(0, 2, 4)]).1.changed = true := by decide
example : (RmFree.tri 4 ts2).2 = ts2 ∧ (RmFree.tri 4 ts2).1.changed = false := by decide
example : (RmFree.tet 6 [(5, 0, 3, 2)]).2 = [(3, 0, 2, 1)] ∧ (RmFree.tet 6 [(5, 0, 3, 2)]).1.keep = [0, 2, 3, 5] := by decide

end Examples

end LapyVerif.Props.C11
