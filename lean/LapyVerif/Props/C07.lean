import Mathlib.Algebra.BigOperators.Group.Finset.Basic
import Mathlib.Algebra.BigOperators.Ring.Finset
import LapyVerif.Props.C02
import LapyVerif.Model.Heat
/-
  C07 — heat diffusion is a conservative implicit Euler step; the kernel is the spectral sum.
-/
namespace LapyVerif.Props.C07
open LapyVerif

/-! ### the backward-Euler system -/

theorem form_heatMat (t : ℝ) (A B : Coo ℝ) (f g : Nat → ℝ) :
    Coo.form (Heat.heatMat t A B) f g = Coo.form B f g + t * Coo.form A f g := by
  unfold Heat.heatMat
  rw [Coo.form_append]
  congr 1
  induction A with
  | nil => simp [Coo.form]
  | cons e A ih =>
    simp only [Coo.form, List.map_cons, List.sum_cons, List.map_map] at ih ⊢
    rw [ih]; ring

/-- for a matrix whose row indices are `< n`: `1ᵀ M u = Σ_{i<n} (M u)_i` -/
theorem form_one_eq_sum_rows (M : Coo ℝ) (u : Nat → ℝ) (n : Nat) (hM : ∀ e ∈ M, e.1.1 < n) :
    Coo.form M (fun _ => 1) u = ∑ i ∈ Finset.range n, Coo.mulVec M u i := by
  induction M with
  | nil => simp [Coo.form, Coo.mulVec]
  | cons e M ih =>
    have ih' := ih (fun e' he' => hM e' (by simp [he']))
    have he : e.1.1 < n := hM e (by simp)
    rw [Coo.form_cons, ih']
    have : ∀ i, Coo.mulVec (e :: M) u i = (if e.1.1 = i then e.2 * u e.1.2 else 0) + Coo.mulVec M u i := by
      intro i
      by_cases h1 : e.1.1 = i <;> simp [Coo.mulVec, List.filter_cons, h1]
    simp only [this, Finset.sum_add_distrib]
    rw [Finset.sum_ite_eq (Finset.range n) e.1.1 (fun _ => e.2 * u e.1.2)]
    simp [he]

/-- **conservation of total heat.**  If `u` solves the backward-Euler system `(B + tA) u = b` (row by row, rows `< n`),
    the stiffness form is symmetric and annihilates constants (C01), then `1ᵀ B u = Σ_i b_i`; with the lumped
    (diagonal) `B` this is `Σ_i B_ii u_i`, and with `b` the indicator of the seed set it is the number of distinct seeds. -/
theorem heat_conservation (t : ℝ) (A B : Coo ℝ) (u b : Nat → ℝ) (n : Nat)
    (hA : ∀ e ∈ A, e.1.1 < n) (hB : ∀ e ∈ B, e.1.1 < n)
    (hsymm : ∀ f g, Coo.form A f g = Coo.form A g f) (hconst : ∀ i, Coo.mulVec A (fun _ => 1) i = 0)
    (hsolve : ∀ i < n, Coo.mulVec (Heat.heatMat t A B) u i = b i) :
    Coo.form B (fun _ => 1) u = ∑ i ∈ Finset.range n, b i := by
  have hH : ∀ e ∈ Heat.heatMat t A B, e.1.1 < n := by
    intro e he
    simp only [Heat.heatMat, List.mem_append, List.mem_map] at he
    rcases he with h | ⟨e', h', rfl⟩
    · exact hB e h
    · exact hA e' h'
  have h1 := form_one_eq_sum_rows (Heat.heatMat t A B) u n hH
  rw [form_heatMat] at h1
  have h2 : Coo.form A (fun _ => 1) u = 0 := by
    rw [hsymm]
    have := form_one_eq_sum_rows
    -- u ᵀ A 1 = Σ entries f(row) * a * 1: use the row action of A on constants
    have hrow : ∀ M : Coo ℝ, Coo.form M u (fun _ => 1) = (M.map fun e => u e.1.1 * e.2).sum := by
      intro M; simp [Coo.form]
    -- regroup by rows through mulVec_eq_form with indicators is heavier; instead use linearity in f:
    -- form A u 1 = Σ_i u_i (A 1)_i for rows < n
    have hlin : ∀ M : Coo ℝ, (∀ e ∈ M, e.1.1 < n) →
        Coo.form M u (fun _ => 1) = ∑ i ∈ Finset.range n, u i * Coo.mulVec M (fun _ => 1) i := by
      intro M
      induction M with
      | nil => intro _; simp [Coo.form, Coo.mulVec]
      | cons e M ih =>
        intro hM
        have ih' := ih (fun e' he' => hM e' (by simp [he']))
        have he : e.1.1 < n := hM e (by simp)
        rw [Coo.form_cons, ih']
        have : ∀ i, Coo.mulVec (e :: M) (fun _ => (1 : ℝ)) i = (if e.1.1 = i then e.2 * 1 else 0) + Coo.mulVec M (fun _ => 1) i := by
          intro i
          by_cases h1 : e.1.1 = i <;> simp [Coo.mulVec, List.filter_cons, h1]
        simp only [this, mul_add, Finset.sum_add_distrib]
        congr 1
        have : ∀ i ∈ Finset.range n, u i * (if e.1.1 = i then e.2 * 1 else 0) = if e.1.1 = i then u e.1.1 * e.2 * 1 else 0 := by
          intro i _
          by_cases h1 : e.1.1 = i
          · subst h1; simp
          · simp [h1]
        rw [Finset.sum_congr rfl this, Finset.sum_ite_eq (Finset.range n) e.1.1 (fun _ => u e.1.1 * e.2 * 1)]
        simp [he]
    rw [hlin A hA]
    apply Finset.sum_eq_zero
    intro i _
    rw [hconst i]; ring
  rw [h2] at h1
  have h3 : ∑ i ∈ Finset.range n, Coo.mulVec (Heat.heatMat t A B) u i = ∑ i ∈ Finset.range n, b i :=
    Finset.sum_congr rfl (fun i hi => hsolve i (Finset.mem_range.mp hi))
  linarith

/-- the seed vector sums to the number of seeded vertices (a vertex seeded twice counts once) -/
theorem seedVec_sum (nv : Nat) (vids : List Nat) :
    (Heat.seedVec (K := ℝ) nv vids).sum = (((List.range nv).filter fun i => vids.contains i).length : ℝ) := by
  unfold Heat.seedVec
  induction (List.range nv) with
  | nil => simp
  | cons a l ih =>
    by_cases ha : vids.contains a = true
    · simp only [List.map_cons, List.sum_cons, ih, List.filter_cons, ha, if_true, List.length_cons]
      push_cast; ring
    · simp only [List.map_cons, List.sum_cons, ih, List.filter_cons, ha, if_false]
      simp

/-! ### the spectral kernel -/

/-- **`kernel` is the spectral sum** `Σ_{j<n} e^{−λ_j t} φ_j(p) φ_j(q)` — and hence symmetric in `(p, q)` -/
theorem kernel_entry (ts : List ℝ) (q : Nat) (evecs : List (List ℝ)) (evals : List ℝ) (n p s : Nat)
    (hp : p < evecs.length) (hs : s < ts.length) :
    ((Heat.kernel ts q evecs evals n).getD p []).getD s 0 =
      ((((evecs.getD p []).take n).zip ((evals.take n).zip ((evecs.getD q []).take n))).map fun x =>
        x.1 * (Real.exp (-x.2.1 * ts.getD s 0) * x.2.2)).sum := by
  simp [Heat.kernel, List.getD_eq_getElem?_getD, hp, hs]

/-- zipped spectral sums are symmetric in the two eigenvector rows -/
theorem spectral_sum_symm (a b lam : List ℝ) (t : ℝ) :
    ((a.zip (lam.zip b)).map fun x => x.1 * (Real.exp (-x.2.1 * t) * x.2.2)).sum =
    ((b.zip (lam.zip a)).map fun x => x.1 * (Real.exp (-x.2.1 * t) * x.2.2)).sum := by
  induction a generalizing b lam with
  | nil => cases b <;> cases lam <;> simp
  | cons x a ih =>
    cases lam with
    | nil => cases b <;> simp
    | cons l lam =>
      cases b with
      | nil => simp
      | cons y b =>
        simp only [List.zip_cons_cons, List.map_cons, List.sum_cons, ih]
        ring

theorem kernel_symm (ts : List ℝ) (evecs : List (List ℝ)) (evals : List ℝ) (n p q s : Nat)
    (hp : p < evecs.length) (hq : q < evecs.length) (hs : s < ts.length) :
    ((Heat.kernel ts q evecs evals n).getD p []).getD s 0 = ((Heat.kernel ts p evecs evals n).getD q []).getD s 0 := by
  rw [kernel_entry ts q evecs evals n p s hp hs, kernel_entry ts p evecs evals n q s hq hs]
  exact spectral_sum_symm _ _ _ _

/-- `diagonal(t, x, …)` is the kernel at `p = q = x` -/
theorem diagonal_eq_kernel (ts : List ℝ) (xs : List Nat) (evecs : List (List ℝ)) (evals : List ℝ) (n k s : Nat)
    (hk : k < xs.length) (hx : xs.getD k 0 < evecs.length) (hs : s < ts.length) :
    ((Heat.diagonal ts xs evecs evals n).getD k []).getD s 0 =
      ((Heat.kernel ts (xs.getD k 0) evecs evals n).getD (xs.getD k 0) []).getD s 0 := by
  rw [kernel_entry ts _ evecs evals n _ s hx hs]
  simp only [Heat.diagonal, List.getD_eq_getElem?_getD, List.getElem?_map, hk, hs, List.getElem?_eq_getElem,
    Option.map_some, Option.getD_some, exp_real]
  generalize (evecs[xs[k]]?.getD []).take n = row
  generalize evals.take n = lam
  induction row generalizing lam with
  | nil => simp
  | cons x row ih =>
    cases lam with
    | nil => simp
    | cons l lam =>
      simp only [List.zip_cons_cons, List.map_cons, List.sum_cons, ih]
      congr 1
      · have : -(l * ts[s]) = -l * ts[s] := by ring
        rw [this]; ring

end LapyVerif.Props.C07
