import LapyVerif.Model.Geo
import LapyVerif.Props.C06
import LapyVerif.Props.C03
import LapyVerif.Props.C13
/-
  C08 — the geodesic / rotated right-hand sides handed to the Poisson solver (`Model/Geo.lean`): compatibility,
  post-processing, and exactness on affine data (composition of C06, C01 and the kernel theorems of C03).
-/
namespace LapyVerif.Props.C08
open LapyVerif V3

/-! ## 1. compatibility of the singular system -/

/-- **the geodesic right-hand side sums to zero** (it is a divergence; C06 holds for every field) -/
theorem geo_rhs_compatible (vtx : Nat → V3 ℝ) (ts : List Tri) (h : C06.NonDegenLn vtx ts) (f : Nat → ℝ) :
    Coo.total (Geo.geoRhsTri vtx ts f) = 0 :=
  C06.triDiv_sum_zero vtx ts _ h

theorem geo_rhs_compatible_tet (vtx : Nat → V3 ℝ) (ts : List Tet) (h : C06.NonDegenDet vtx ts) (f : Nat → ℝ) :
    Coo.total (Geo.geoRhsTet vtx ts f) = 0 :=
  C06.tetDiv_sum_zero vtx ts _ h

theorem rot_rhs_compatible (vtx : Nat → V3 ℝ) (ts : List Tri) (h : C06.NonDegenLn vtx ts) (f : Nat → ℝ) :
    Coo.total (Geo.rotRhs vtx ts f) = 0 :=
  C06.triDiv_sum_zero vtx ts _ h

/-- **compatibility on every connected component**: `Σ_i χ_i b_i = 0` for every `χ` that is constant on each triangle —
    in particular for the indicator function of an edge-connected component (the right-hand side is orthogonal to the
    whole kernel of the stiffness matrix, `C03.kernel_iff`) -/
theorem geo_rhs_compatible_components (vtx : Nat → V3 ℝ) (ts : List Tri) (h : C06.NonDegenLn vtx ts) (f χ : Nat → ℝ)
    (hχ : ∀ τ ∈ ts, χ τ.1 = χ τ.2.1 ∧ χ τ.2.1 = χ τ.2.2) :
    Coo.form (Geo.geoRhsTri vtx ts f) χ (fun _ => 1) = 0 := by
  unfold Geo.geoRhsTri
  rw [C06.triDiv_adjoint vtx ts _ h, neg_eq_zero]
  apply List.sum_eq_zero
  intro x hx
  obtain ⟨p, hp, rfl⟩ := List.mem_map.mp hx
  obtain ⟨e1, e2⟩ := hχ p.1 (List.of_mem_zip hp).1
  rw [← e2, ← e1, C01.gradTri_const]; v3_flat; ring

theorem geo_rhs_compatible_components_tet (vtx : Nat → V3 ℝ) (ts : List Tet) (h : C06.NonDegenDet vtx ts)
    (f χ : Nat → ℝ) (hχ : ∀ τ ∈ ts, χ τ.1 = χ τ.2.1 ∧ χ τ.1 = χ τ.2.2.1 ∧ χ τ.1 = χ τ.2.2.2) :
    Coo.form (Geo.geoRhsTet vtx ts f) χ (fun _ => 1) = 0 := by
  unfold Geo.geoRhsTet
  rw [C06.tetDiv_adjoint vtx ts _ h, neg_eq_zero]
  apply List.sum_eq_zero
  intro x hx
  obtain ⟨p, hp, rfl⟩ := List.mem_map.mp hx
  obtain ⟨e1, e2, e3⟩ := hχ p.1 (List.of_mem_zip hp).1
  rw [← e1, ← e2, ← e3, C01.gradTet_const]; v3_flat; ring

/-! ## 2. `vf -= min(vf)` -/

/-- the running minimum of `shiftMin` -/
noncomputable def runMin (a : ℝ) (l : List ℝ) : ℝ := l.foldl (fun m y => if y < m then y else m) a

theorem runMin_spec (a : ℝ) (l : List ℝ) :
    runMin a l ≤ a ∧ (∀ y ∈ l, runMin a l ≤ y) ∧ runMin a l ∈ a :: l := by
  induction l generalizing a with
  | nil => simp [runMin]
  | cons b t ih =>
    have hstep : runMin a (b :: t) = runMin (if b < a then b else a) t := rfl
    obtain ⟨h1, h2, h3⟩ := ih (if b < a then b else a)
    rw [hstep]
    by_cases hba : b < a
    · rw [if_pos hba] at h1 h2 h3 ⊢
      refine ⟨by linarith, ?_, ?_⟩
      · intro y hy
        rcases List.mem_cons.mp hy with rfl | hy'
        · exact h1
        · exact h2 y hy'
      · rcases List.mem_cons.mp h3 with h | h
        · rw [h]; simp
        · simp [h]
    · rw [if_neg hba] at h1 h2 h3 ⊢
      refine ⟨h1, ?_, ?_⟩
      · intro y hy
        rcases List.mem_cons.mp hy with rfl | hy'
        · linarith [not_lt.mp hba]
        · exact h2 y hy'
      · rcases List.mem_cons.mp h3 with h | h
        · rw [h]; simp
        · simp [h]

theorem shiftMin_eq (a : ℝ) (l : List ℝ) : Geo.shiftMin (a :: l) = (a :: l).map (· - runMin a l) := rfl

/-- **`shiftMin`**: same length, all entries `≥ 0`, the minimum becomes `0`, differences are preserved -/
theorem shiftMin_spec (x : List ℝ) (hne : x ≠ []) :
    (Geo.shiftMin x).length = x.length ∧ (∀ y ∈ Geo.shiftMin x, 0 ≤ y) ∧ (0 : ℝ) ∈ Geo.shiftMin x ∧
    ∀ i j (hi : i < x.length) (hj : j < x.length) (hi' : i < (Geo.shiftMin x).length) (hj' : j < (Geo.shiftMin x).length),
      (Geo.shiftMin x)[i] - (Geo.shiftMin x)[j] = x[i] - x[j] := by
  match x, hne with
  | a :: l, _ =>
    obtain ⟨h1, h2, h3⟩ := runMin_spec a l
    rw [shiftMin_eq]
    refine ⟨by simp, ?_, ?_, ?_⟩
    · intro y hy
      obtain ⟨z, hz, rfl⟩ := List.mem_map.mp hy
      rcases List.mem_cons.mp hz with rfl | hz'
      · show 0 ≤ z - runMin z l; linarith
      · have := h2 z hz'; show 0 ≤ z - runMin a l; linarith
    · exact List.mem_map.mpr ⟨runMin a l, h3, sub_self _⟩
    · intro i j hi hj hi' hj'
      simp only [List.getElem_map]; ring

theorem shiftMin_nil : Geo.shiftMin ([] : List ℝ) = [] := rfl

/-! ## 3. normalisation of the gradient rows -/

theorem normSq_nonneg (a : V3 ℝ) : 0 ≤ normSq a := C03.dot_self_nonneg a

theorem normSq_ne_zero_of_ne {a : V3 ℝ} (ha : a ≠ ⟨0, 0, 0⟩) : normSq a ≠ 0 :=
  fun h => ha (C03.eq_zero_of_dot_self a h)

theorem normalizeRow_eq (g : V3 ℝ) (hg : normSq g ≠ 0) :
    Geo.normalizeRow g = smul (1 / Real.sqrt (normSq g)) g := by
  have hpos : 0 < normSq g := lt_of_le_of_ne (normSq_nonneg g) (Ne.symm hg)
  have hs : Real.sqrt (normSq g) ≠ 0 := (Real.sqrt_pos.mpr hpos).ne'
  simp only [Geo.normalizeRow, sqrt_real, beq_iff_eq, if_neg hs]
  apply V3.ext' <;> (simp only [smul_x, smul_y, smul_z]; ring)

/-- **a non-zero row is scaled to unit length** -/
theorem normalizeRow_unit (g : V3 ℝ) (hg : normSq g ≠ 0) :
    Geo.normalizeRow g = smul (1 / Real.sqrt (normSq g)) g ∧ normSq (Geo.normalizeRow g) = 1 := by
  have hpos : 0 < normSq g := lt_of_le_of_ne (normSq_nonneg g) (Ne.symm hg)
  have hs : Real.sqrt (normSq g) ≠ 0 := (Real.sqrt_pos.mpr hpos).ne'
  have hss := Real.mul_self_sqrt hpos.le
  refine ⟨normalizeRow_eq g hg, ?_⟩
  rw [normalizeRow_eq g hg]
  have : normSq (smul (1 / Real.sqrt (normSq g)) g)
      = (1 / Real.sqrt (normSq g)) * (1 / Real.sqrt (normSq g)) * normSq g := by v3_flat; ring
  rw [this]
  nth_rewrite 3 [← hss]
  field_simp

/-- **a zero row stays zero** (`nan_to_num` of `0/0`) -/
theorem normalizeRow_zero : Geo.normalizeRow (⟨0, 0, 0⟩ : V3 ℝ) = ⟨0, 0, 0⟩ := by
  simp [Geo.normalizeRow, V3.normSq, V3.dot]

/-! ## 4. exactness on affine data -/

theorem mulVec_add (m : Coo ℝ) (x y : Nat → ℝ) (i : Nat) :
    Coo.mulVec m (fun k => x k + y k) i = Coo.mulVec m x i + Coo.mulVec m y i := by
  induction m with
  | nil => simp [Coo.mulVec]
  | cons e m ih =>
    rw [C03.mulVec_cons, C03.mulVec_cons, C03.mulVec_cons, ih]
    by_cases h : e.1.1 = i <;> simp [h]; ring

/-- the unit vector in the direction of `a` -/
noncomputable def unitVec (a : V3 ℝ) : V3 ℝ := smul (1 / Real.sqrt (normSq a)) a

/-- on a triangle in the plane `z = 0` the gradient of `a·x + b` with in-plane `a` is `a` itself -/
theorem triGrad_affine_flat (v0 v1 v2 a : V3 ℝ) (b : ℝ) (h0 : v0.z = 0) (h1 : v1.z = 0) (h2 : v2.z = 0) (ha : a.z = 0)
    (h : ¬ (Real.sqrt (normSq (Spec.triN v0 v1 v2)) < epsK)) :
    DiffGeo.triGrad1 v0 v1 v2 (dot a v0 + b) (dot a v1 + b) (dot a v2 + b) = a := by
  rw [C06.triGrad_affine _ _ _ _ _ h]
  have : dot a (Spec.triN v0 v1 v2) = 0 := by simp only [Spec.triN]; v3_flat; rw [h0, h1, h2, ha]; ring
  rw [this]
  apply V3.ext' <;> (v3_flat; simp)

/-- on a flat mesh, with `f = a·x + b`, `a ≠ 0` in the plane: the normalised gradient field is the gradient field of the
    unit-slope function `u = (a/‖a‖)·x` -/
theorem geo_field_affine_tri (vtx : Nat → V3 ℝ) (ts : List Tri) (hflat : ∀ i, (vtx i).z = 0)
    (hnd : C06.NonDegenLn vtx ts) (a : V3 ℝ) (b : ℝ) (haz : a.z = 0) (ha : a ≠ ⟨0, 0, 0⟩)
    (f : Nat → ℝ) (hf : ∀ i, f i = dot a (vtx i) + b) :
    (DiffGeo.triGrad vtx ts f).map Geo.normalizeRow = DiffGeo.triGrad vtx ts (fun i => dot (unitVec a) (vtx i)) := by
  unfold DiffGeo.triGrad
  rw [List.map_map]
  apply List.map_congr_left
  intro τ hτ
  have huz : (unitVec a).z = 0 := by simp [unitVec, haz]
  have e1 := triGrad_affine_flat (vtx τ.1) (vtx τ.2.1) (vtx τ.2.2) a b (hflat _) (hflat _) (hflat _) haz (hnd τ hτ)
  have e2 := triGrad_affine_flat (vtx τ.1) (vtx τ.2.1) (vtx τ.2.2) (unitVec a) 0 (hflat _) (hflat _) (hflat _) huz
    (hnd τ hτ)
  simp only [add_zero] at e2
  simp only [Function.comp, hf, e1, normalizeRow_eq a (normSq_ne_zero_of_ne ha)]
  rw [e2]; rfl

/-- **geodesic right-hand side on affine data (flat triangle mesh): `rhs = −A u`**, `u` the unit-slope affine function
    increasing along `a` -/
theorem geo_affine_tri (vtx : Nat → V3 ℝ) (ts : List Tri) (hflat : ∀ i, (vtx i).z = 0)
    (hnd : C06.NonDegenLn vtx ts) (a : V3 ℝ) (b : ℝ) (haz : a.z = 0) (ha : a ≠ ⟨0, 0, 0⟩)
    (f : Nat → ℝ) (hf : ∀ i, f i = dot a (vtx i) + b) (i : Nat) :
    Coo.mulVec (Geo.geoRhsTri vtx ts f) (fun _ => 1) i
      = - Coo.mulVec (Fem.stiffTria vtx ts) (fun i => dot (unitVec a) (vtx i)) i := by
  unfold Geo.geoRhsTri
  rw [geo_field_affine_tri vtx ts hflat hnd a b haz ha f hf, C06.triDiv_grad vtx ts hnd]

/-- **every solution of the (singular) geodesic system is `−u + const` on each connected component**: the unit-slope
    affine function decreasing along `grad f` -/
theorem geo_solution_affine (vtx : Nat → V3 ℝ) (ts : List Tri) (hflat : ∀ i, (vtx i).z = 0)
    (hnd : C06.NonDegenLn vtx ts) (a : V3 ℝ) (b : ℝ) (haz : a.z = 0) (ha : a ≠ ⟨0, 0, 0⟩)
    (f : Nat → ℝ) (hf : ∀ i, f i = dot a (vtx i) + b) (g : Nat → ℝ)
    (hg : ∀ i, Coo.mulVec (Fem.stiffTria vtx ts) g i = Coo.mulVec (Geo.geoRhsTri vtx ts f) (fun _ => 1) i) :
    (∀ i, Coo.mulVec (Fem.stiffTria vtx ts) (fun k => g k + dot (unitVec a) (vtx k)) i = 0) ∧
    ∀ i j, C03.EdgeConnected ts i j →
      g i + dot (unitVec a) (vtx i) = g j + dot (unitVec a) (vtx j) := by
  have hrows : ∀ i, Coo.mulVec (Fem.stiffTria vtx ts) (fun k => g k + dot (unitVec a) (vtx k)) i = 0 := by
    intro i
    rw [mulVec_add, hg i, geo_affine_tri vtx ts hflat hnd a b haz ha f hf i]; ring
  refine ⟨hrows, fun i j hc => ?_⟩
  exact C03.kernel_const_on_components vtx ts (C06.nondegenTri_of_ln vtx ts hnd) _
    (C03.energy_zero_of_rows _ _ hrows) i j hc

/-! ### tetrahedra (any, mixed, element orientation; no flatness) -/

theorem geo_field_affine_tet (vtx : Nat → V3 ℝ) (ts : List Tet) (hnd : C06.NonDegenDet vtx ts) (a : V3 ℝ) (b : ℝ)
    (ha : a ≠ ⟨0, 0, 0⟩) (f : Nat → ℝ) (hf : ∀ i, f i = dot a (vtx i) + b) :
    (DiffGeo.tetGrad vtx ts f).map Geo.normalizeRow = DiffGeo.tetGrad vtx ts (fun i => dot (unitVec a) (vtx i)) := by
  unfold DiffGeo.tetGrad
  rw [List.map_map]
  apply List.map_congr_left
  intro τ hτ
  have e1 := C06.tetGrad_affine (vtx τ.1) (vtx τ.2.1) (vtx τ.2.2.1) (vtx τ.2.2.2) a b (hnd τ hτ)
  have e2 := C06.tetGrad_affine (vtx τ.1) (vtx τ.2.1) (vtx τ.2.2.1) (vtx τ.2.2.2) (unitVec a) 0 (hnd τ hτ)
  simp only [add_zero] at e2
  simp only [Function.comp, hf, e1, normalizeRow_eq a (normSq_ne_zero_of_ne ha)]
  rw [e2]; rfl

theorem geo_affine_tet (vtx : Nat → V3 ℝ) (ts : List Tet) (hnd : C06.NonDegenDet vtx ts) (a : V3 ℝ) (b : ℝ)
    (ha : a ≠ ⟨0, 0, 0⟩) (f : Nat → ℝ) (hf : ∀ i, f i = dot a (vtx i) + b) (i : Nat) :
    Coo.mulVec (Geo.geoRhsTet vtx ts f) (fun _ => 1) i
      = - Coo.mulVec (Fem.stiffTet vtx ts) (fun i => dot (unitVec a) (vtx i)) i := by
  unfold Geo.geoRhsTet
  rw [geo_field_affine_tet vtx ts hnd a b ha f hf, C06.tetDiv_grad vtx ts hnd]

theorem geo_solution_affine_tet (vtx : Nat → V3 ℝ) (ts : List Tet) (hnd : C06.NonDegenDet vtx ts) (a : V3 ℝ) (b : ℝ)
    (ha : a ≠ ⟨0, 0, 0⟩) (f : Nat → ℝ) (hf : ∀ i, f i = dot a (vtx i) + b) (g : Nat → ℝ)
    (hg : ∀ i, Coo.mulVec (Fem.stiffTet vtx ts) g i = Coo.mulVec (Geo.geoRhsTet vtx ts f) (fun _ => 1) i) :
    (∀ i, Coo.mulVec (Fem.stiffTet vtx ts) (fun k => g k + dot (unitVec a) (vtx k)) i = 0) ∧
    ∀ i j, C03.EdgeConnectedTet ts i j →
      g i + dot (unitVec a) (vtx i) = g j + dot (unitVec a) (vtx j) := by
  have hrows : ∀ i, Coo.mulVec (Fem.stiffTet vtx ts) (fun k => g k + dot (unitVec a) (vtx k)) i = 0 := by
    intro i
    rw [mulVec_add, hg i, geo_affine_tet vtx ts hnd a b ha f hf i]; ring
  refine ⟨hrows, fun i j hc => ?_⟩
  exact C03.kernel_const_on_components_tet vtx ts (C06.nondegenTet_of_det vtx ts hnd) _
    (C03.energy_zero_of_rows _ _ hrows) i j hc

/-- `u` has unit slope: `‖a/‖a‖‖ = 1` and it is a positive multiple of `a` -/
theorem unitVec_spec (a : V3 ℝ) (ha : a ≠ ⟨0, 0, 0⟩) :
    normSq (unitVec a) = 1 ∧ 0 < dot (unitVec a) a := by
  have hn := normSq_ne_zero_of_ne ha
  have hpos : 0 < normSq a := lt_of_le_of_ne (normSq_nonneg a) (Ne.symm hn)
  have hs := Real.sqrt_pos.mpr hpos
  constructor
  · have := (normalizeRow_unit a hn).2
    rwa [normalizeRow_eq a hn] at this
  · have : dot (unitVec a) a = (1 / Real.sqrt (normSq a)) * normSq a := by simp only [unitVec]; v3_flat; ring
    rw [this]; positivity

/-! ## 5. the rotated field on a flat, positively oriented mesh -/

/-- the quarter turn of an in-plane vector about the `z` axis -/
def rotZ (a : V3 ℝ) : V3 ℝ := cross ⟨0, 0, 1⟩ a

/-- `n̂ × a` is `a` turned by a quarter: same length, orthogonal to `a`, still in the plane -/
theorem rotZ_spec (a : V3 ℝ) (haz : a.z = 0) :
    normSq (rotZ a) = normSq a ∧ dot (rotZ a) a = 0 ∧ (rotZ a).z = 0 := by
  refine ⟨?_, ?_, ?_⟩ <;> (simp only [rotZ]; v3_flat; try rw [haz]) <;> ring

/-- on a flat positively oriented non-degenerate triangle the unit normal of `tria_normals` is `e_z` -/
theorem triNormal_flat (v0 v1 v2 : V3 ℝ) (h0 : v0.z = 0) (h1 : v1.z = 0) (h2 : v2.z = 0)
    (hpos : 0 < (Spec.triN v0 v1 v2).z) (h : ¬ (Real.sqrt (normSq (Spec.triN v0 v1 v2)) < epsK)) :
    Measures.triNormal v0 v1 v2 = ⟨0, 0, 1⟩ := by
  have hN : C13.NonDegenN v0 v1 v2 := h
  rw [C13.triNormal_eq v0 v1 v2 hN]
  have hx : (cross (v1 - v0) (v2 - v0)).x = 0 := by v3_flat; rw [h0, h1, h2]; ring
  have hy : (cross (v1 - v0) (v2 - v0)).y = 0 := by v3_flat; rw [h0, h1, h2]; ring
  have hz : 0 < (cross (v1 - v0) (v2 - v0)).z := hpos
  have hn : normSq (cross (v1 - v0) (v2 - v0)) = (cross (v1 - v0) (v2 - v0)).z * (cross (v1 - v0) (v2 - v0)).z := by
    simp only [V3.normSq, V3.dot, hx, hy]; ring
  rw [hn, Real.sqrt_mul_self hz.le]
  apply V3.ext'
  · simp only [smul_x, hx, mul_zero]
  · simp only [smul_y, hy, mul_zero]
  · simp only [smul_z]; field_simp

/-- the rotated gradient field of an affine function is the gradient field of the affine function `r = (e_z × a)·x` -/
theorem rot_field_affine (vtx : Nat → V3 ℝ) (ts : List Tri) (hflat : ∀ i, (vtx i).z = 0)
    (hnd : C06.NonDegenLn vtx ts) (hor : ∀ τ ∈ ts, 0 < (Spec.triN (vtx τ.1) (vtx τ.2.1) (vtx τ.2.2)).z)
    (a : V3 ℝ) (b : ℝ) (haz : a.z = 0) (f : Nat → ℝ) (hf : ∀ i, f i = dot a (vtx i) + b) :
    ((ts.zip (DiffGeo.triGrad vtx ts f)).map fun (τ, g) =>
        cross (Measures.triNormal (vtx τ.1) (vtx τ.2.1) (vtx τ.2.2)) g)
      = DiffGeo.triGrad vtx ts (fun i => dot (rotZ a) (vtx i)) := by
  unfold DiffGeo.triGrad
  rw [zip_map_self]
  apply List.map_congr_left
  intro τ hτ
  have e1 := triGrad_affine_flat (vtx τ.1) (vtx τ.2.1) (vtx τ.2.2) a b (hflat _) (hflat _) (hflat _) haz (hnd τ hτ)
  have e2 := triGrad_affine_flat (vtx τ.1) (vtx τ.2.1) (vtx τ.2.2) (rotZ a) 0 (hflat _) (hflat _) (hflat _)
    (rotZ_spec a haz).2.2 (hnd τ hτ)
  simp only [add_zero] at e2
  simp only [hf, e1, triNormal_flat _ _ _ (hflat _) (hflat _) (hflat _) (hor τ hτ) (hnd τ hτ)]
  rw [e2]; rfl

/-- **rotated right-hand side on affine data: `rotRhs = −A r`** with `r = (e_z × a)·x`, whose level sets are the
    gradient lines of `f` -/
theorem rot_rhs_affine (vtx : Nat → V3 ℝ) (ts : List Tri) (hflat : ∀ i, (vtx i).z = 0)
    (hnd : C06.NonDegenLn vtx ts) (hor : ∀ τ ∈ ts, 0 < (Spec.triN (vtx τ.1) (vtx τ.2.1) (vtx τ.2.2)).z)
    (a : V3 ℝ) (b : ℝ) (haz : a.z = 0) (f : Nat → ℝ) (hf : ∀ i, f i = dot a (vtx i) + b) (i : Nat) :
    Coo.mulVec (Geo.rotRhs vtx ts f) (fun _ => 1) i
      = - Coo.mulVec (Fem.stiffTria vtx ts) (fun i => dot (rotZ a) (vtx i)) i := by
  unfold Geo.rotRhs
  rw [rot_field_affine vtx ts hflat hnd hor a b haz f hf, C06.triDiv_grad vtx ts hnd]

/-- every solution of `A g = rotRhs` is `−r + const` on each connected component -/
theorem rot_solution_affine (vtx : Nat → V3 ℝ) (ts : List Tri) (hflat : ∀ i, (vtx i).z = 0)
    (hnd : C06.NonDegenLn vtx ts) (hor : ∀ τ ∈ ts, 0 < (Spec.triN (vtx τ.1) (vtx τ.2.1) (vtx τ.2.2)).z)
    (a : V3 ℝ) (b : ℝ) (haz : a.z = 0) (f : Nat → ℝ) (hf : ∀ i, f i = dot a (vtx i) + b) (g : Nat → ℝ)
    (hg : ∀ i, Coo.mulVec (Fem.stiffTria vtx ts) g i = Coo.mulVec (Geo.rotRhs vtx ts f) (fun _ => 1) i) :
    ∀ i j, C03.EdgeConnected ts i j → g i + dot (rotZ a) (vtx i) = g j + dot (rotZ a) (vtx j) := by
  have hrows : ∀ i, Coo.mulVec (Fem.stiffTria vtx ts) (fun k => g k + dot (rotZ a) (vtx k)) i = 0 := by
    intro i
    rw [mulVec_add, hg i, rot_rhs_affine vtx ts hflat hnd hor a b haz f hf i]; ring
  intro i j hc
  exact C03.kernel_const_on_components vtx ts (C06.nondegenTri_of_ln vtx ts hnd) _
    (C03.energy_zero_of_rows _ _ hrows) i j hc

/-! ## non-vacuity -/

section Examples

/-- the unit square split into two positively oriented triangles, in the plane `z = 0` -/
noncomputable def vtxSq : Nat → V3 ℝ := vtx4 ⟨0, 0, 0⟩ ⟨1, 0, 0⟩ ⟨1, 1, 0⟩ ⟨0, 1, 0⟩
def tsSq : List Tri := [(0, 1, 2), (0, 2, 3)]

theorem vtxSq_flat : ∀ i, (vtxSq i).z = 0 := by
  intro i
  match i with
  | 0 => rfl
  | 1 => rfl
  | 2 => rfl
  | _ + 3 => rfl

theorem tsSq_triN : ∀ τ ∈ tsSq, Spec.triN (vtxSq τ.1) (vtxSq τ.2.1) (vtxSq τ.2.2) = ⟨0, 0, 1⟩ := by
  intro τ hτ
  simp only [tsSq, List.mem_cons, List.not_mem_nil, or_false] at hτ
  rcases hτ with rfl | rfl <;> (apply V3.ext' <;> (simp only [Spec.triN, vtxSq, vtx4]; v3_flat; norm_num))

theorem tsSq_nonDegen : C06.NonDegenLn vtxSq tsSq := by
  intro τ hτ
  rw [tsSq_triN τ hτ]
  have : normSq (⟨0, 0, 1⟩ : V3 ℝ) = 1 := by v3_flat; norm_num
  rw [this, Real.sqrt_one, epsK_real]; norm_num

theorem tsSq_oriented : ∀ τ ∈ tsSq, 0 < (Spec.triN (vtxSq τ.1) (vtxSq τ.2.1) (vtxSq τ.2.2)).z := by
  intro τ hτ; rw [tsSq_triN τ hτ]; norm_num

/-- all hypotheses of `geo_affine_tri`, `geo_solution_affine`, `rot_rhs_affine` hold for `f = 3x + 4y + 7` -/
example (i : Nat) :
    Coo.mulVec (Geo.geoRhsTri vtxSq tsSq (fun i => dot ⟨3, 4, 0⟩ (vtxSq i) + 7)) (fun _ => 1) i
      = - Coo.mulVec (Fem.stiffTria vtxSq tsSq) (fun i => dot (unitVec ⟨3, 4, 0⟩) (vtxSq i)) i :=
  geo_affine_tri vtxSq tsSq vtxSq_flat tsSq_nonDegen ⟨3, 4, 0⟩ 7 rfl (by intro h; simpa using congrArg V3.x h)
    _ (fun _ => rfl) i

example (i : Nat) :
    Coo.mulVec (Geo.rotRhs vtxSq tsSq (fun i => dot ⟨3, 4, 0⟩ (vtxSq i) + 7)) (fun _ => 1) i
      = - Coo.mulVec (Fem.stiffTria vtxSq tsSq) (fun i => dot (rotZ ⟨3, 4, 0⟩) (vtxSq i)) i :=
  rot_rhs_affine vtxSq tsSq vtxSq_flat tsSq_nonDegen tsSq_oriented ⟨3, 4, 0⟩ 7 rfl _ (fun _ => rfl) i

/-- the whole square is one component -/
example : C03.EdgeConnected tsSq 1 3 :=
  .step (0, 2, 3) (by simp [tsSq]) (j := 2) (by simp) (by simp)
    (.step (0, 1, 2) (by simp [tsSq]) (j := 1) (by simp) (by simp) (.refl 1))

example : Geo.shiftMin ([3, 1, 2] : List ℝ) = [2, 0, 1] := by
  have : runMin 3 [1, 2] = 1 := by simp [runMin]
  rw [shiftMin_eq, this]; norm_num

example : normSq (Geo.normalizeRow (⟨3, 4, 0⟩ : V3 ℝ)) = 1 :=
  (normalizeRow_unit _ (by v3_flat; norm_num)).2

end Examples

end LapyVerif.Props.C08
