import LapyVerif.Props.C01
/-
  C02 — the mass matrix is the exact piecewise-linear L² inner product.

  "Exact integral" is expressed through the moments of the barycentric coordinates on a simplex
  (`∫_τ λᵢ² = |τ|/6`, `∫_τ λᵢλⱼ = |τ|/12` on a triangle; `|τ|/10`, `|τ|/20` on a tetrahedron — the formula
  `∫ λ^α = d!·|τ|·α!/(|α|+d)!`), adopted as the definition of the integral of a product of two linear
  interpolants (`Spec.triL2`, `Spec.tetL2`), and equivalently through the edge-midpoint rule which is exact on
  quadratics (`triL2_eq_midpoint`).  The theorems show that the code's weights reproduce it for every mesh.
-/
namespace LapyVerif.Spec
open LapyVerif V3

/-- `∫_τ (Σ xᵢλᵢ)(Σ yⱼλⱼ)` on a triangle of area `a`, by the moment formula -/
noncomputable def triL2 (a x1 x2 x3 y1 y2 y3 : ℝ) : ℝ :=
  a / 6 * (x1 * y1 + x2 * y2 + x3 * y3) + a / 12 * (x1 * y2 + x2 * y1 + x2 * y3 + x3 * y2 + x3 * y1 + x1 * y3)

/-- the same integral by the edge-midpoint quadrature rule (weights `a/3` at the three edge midpoints) -/
theorem triL2_eq_midpoint (a x1 x2 x3 y1 y2 y3 : ℝ) :
    triL2 a x1 x2 x3 y1 y2 y3 =
      a / 3 * ((x1 + x2) / 2 * ((y1 + y2) / 2) + (x2 + x3) / 2 * ((y2 + y3) / 2) + (x3 + x1) / 2 * ((y3 + y1) / 2)) := by
  unfold triL2; ring

/-- `∫_τ (Σ xᵢλᵢ)(Σ yⱼλⱼ)` on a tetrahedron of volume `w` -/
noncomputable def tetL2 (w x1 x2 x3 x4 y1 y2 y3 y4 : ℝ) : ℝ :=
  w / 10 * (x1 * y1 + x2 * y2 + x3 * y3 + x4 * y4) +
  w / 20 * (x1 * y2 + x2 * y1 + x1 * y3 + x3 * y1 + x1 * y4 + x4 * y1 + x2 * y3 + x3 * y2 + x2 * y4 + x4 * y2 + x3 * y4 + x4 * y3)

end LapyVerif.Spec

namespace LapyVerif.Props.C02
open LapyVerif V3

/-! ## triangles -/

/-- the un-clamped mass blocks -/
noncomputable def triMassBlock (lump : Bool) (vtx : Nat → V3 ℝ) (τ : Tri) : Coo ℝ :=
  let vol := Fem.triVol (vtx τ.1) (vtx τ.2.1) (vtx τ.2.2)
  if lump then Fem.triBlockL τ (vol / ((12 : Nat) : ℝ))
  else Fem.triBlock τ (vol / ((48 : Nat) : ℝ)) (vol / ((48 : Nat) : ℝ)) (vol / ((48 : Nat) : ℝ))
        (vol / ((24 : Nat) : ℝ)) (vol / ((24 : Nat) : ℝ)) (vol / ((24 : Nat) : ℝ))

theorem massTria_blocks (lump : Bool) (vtx : Nat → V3 ℝ) (ts : List Tri) (h : NonDegenTri vtx ts) :
    Fem.massTria lump vtx ts = (ts.map (triMassBlock lump vtx)).flatten := by
  unfold Fem.massTria
  rw [C01.triVols_nondegen vtx ts h, zip_map_self]
  rfl

/-- **x·B·y = Σ_τ ∫_τ x_h y_h** (full mass matrix) -/
theorem mass_form (vtx : Nat → V3 ℝ) (ts : List Tri) (h : NonDegenTri vtx ts) (x y : Nat → ℝ) :
    Coo.form (Fem.massTria false vtx ts) x y =
      (ts.map fun τ => Spec.triL2 (Spec.triArea (vtx τ.1) (vtx τ.2.1) (vtx τ.2.2))
          (x τ.1) (x τ.2.1) (x τ.2.2) (y τ.1) (y τ.2.1) (y τ.2.2)).sum := by
  rw [massTria_blocks false vtx ts h, Coo.form_flatten, List.map_map]
  congr 1
  apply List.map_congr_left
  intro τ _
  obtain ⟨t1, t2, t3⟩ := τ
  simp only [Function.comp, triMassBlock, Bool.false_eq_true, if_false, Fem.triBlock, Coo.form, List.map, List.sum_cons,
    List.sum_nil, FemTri.triVol_eq, Spec.triL2]
  push_cast
  ring

theorem mass_form_symm (vtx : Nat → V3 ℝ) (ts : List Tri) (h : NonDegenTri vtx ts) (x y : Nat → ℝ) :
    Coo.form (Fem.massTria false vtx ts) x y = Coo.form (Fem.massTria false vtx ts) y x := by
  rw [mass_form vtx ts h, mass_form vtx ts h]
  congr 1
  apply List.map_congr_left
  intro τ _
  unfold Spec.triL2; ring

theorem mass_entry_symm (vtx : Nat → V3 ℝ) (ts : List Tri) (h : NonDegenTri vtx ts) (i j : Nat) :
    Coo.entry (Fem.massTria false vtx ts) i j = Coo.entry (Fem.massTria false vtx ts) j i := by
  rw [Coo.entry_eq_form, Coo.entry_eq_form, mass_form_symm vtx ts h]

/-- the entries sum to the total area (either lumping) -/
theorem mass_total (lump : Bool) (vtx : Nat → V3 ℝ) (ts : List Tri) (h : NonDegenTri vtx ts) :
    Coo.total (Fem.massTria lump vtx ts) =
      (ts.map fun τ => Spec.triArea (vtx τ.1) (vtx τ.2.1) (vtx τ.2.2)).sum := by
  rw [massTria_blocks lump vtx ts h, Coo.total_flatten, List.map_map]
  congr 1
  apply List.map_congr_left
  intro τ _
  obtain ⟨t1, t2, t3⟩ := τ
  cases lump <;>
  · simp only [Function.comp, triMassBlock, Bool.false_eq_true, if_false, if_true, Fem.triBlock, Fem.triBlockL, Coo.total,
      List.map, List.sum_cons, List.sum_nil, FemTri.triVol_eq]
    push_cast
    ring

/-- every stored value of a COO list whose values are all positive is positive (a non-empty sum of positive terms) -/
theorem entry_pos_of_mem (m : Coo ℝ) (hpos : ∀ e ∈ m, 0 < e.2) (i j : Nat) (hk : (i, j) ∈ Coo.keys m) :
    0 < Coo.entry m i j := by
  have hmem : ∃ e ∈ m, e.1 = (i, j) := by
    have : (i, j) ∈ m.map (·.1) := by
      simpa [Coo.keys] using hk
    obtain ⟨e, he, h1⟩ := List.mem_map.mp this
    exact ⟨e, he, h1⟩
  unfold Coo.entry
  obtain ⟨e, he, hke⟩ := hmem
  have hfe : e ∈ List.filter (fun e : (Nat × Nat) × ℝ => e.1.1 == i && e.1.2 == j) m := by
    simp [List.mem_filter, he, hke]
  have hall : ∀ x ∈ (List.filter (fun e : (Nat × Nat) × ℝ => e.1.1 == i && e.1.2 == j) m).map (·.2), 0 < x := by
    intro x hx
    obtain ⟨e', he', rfl⟩ := List.mem_map.mp hx
    exact hpos e' (List.mem_of_mem_filter he')
  have hne : (List.filter (fun e : (Nat × Nat) × ℝ => e.1.1 == i && e.1.2 == j) m).map (·.2) ≠ [] := by
    intro hnil
    have : e.2 ∈ (List.filter (fun e : (Nat × Nat) × ℝ => e.1.1 == i && e.1.2 == j) m).map (·.2) :=
      List.mem_map.mpr ⟨e, hfe, rfl⟩
    rw [hnil] at this; simp at this
  exact List.sum_pos _ hall hne

theorem massTria_values_pos (lump : Bool) (vtx : Nat → V3 ℝ) (ts : List Tri) (h : NonDegenTri vtx ts) :
    ∀ e ∈ Fem.massTria lump vtx ts, 0 < e.2 := by
  rw [massTria_blocks lump vtx ts h]
  intro e he
  obtain ⟨b, hb, heb⟩ := List.mem_flatten.mp he
  obtain ⟨τ, hτ, rfl⟩ := List.mem_map.mp hb
  have hv : 0 < Fem.triVol (vtx τ.1) (vtx τ.2.1) (vtx τ.2.2) := lt_of_lt_of_le epsK_pos (not_lt.mp (h τ hτ))
  obtain ⟨t1, t2, t3⟩ := τ
  cases lump <;>
  · simp only [triMassBlock, Bool.false_eq_true, if_false, if_true, Fem.triBlock, Fem.triBlockL, List.mem_cons,
      List.mem_nil_iff, or_false] at heb
    rcases heb with rfl | rfl | rfl | rfl | rfl | rfl | rfl | rfl | rfl <;> (simp only []; push_cast; positivity)

/-- **strictly positive stored entries** (what `B.data` holds after SciPy summed duplicates) -/
theorem mass_entry_pos (lump : Bool) (vtx : Nat → V3 ℝ) (ts : List Tri) (h : NonDegenTri vtx ts) (i j : Nat)
    (hk : (i, j) ∈ Coo.keys (Fem.massTria lump vtx ts)) : 0 < Coo.entry (Fem.massTria lump vtx ts) i j :=
  entry_pos_of_mem _ (massTria_values_pos lump vtx ts h) i j hk

/-- the lumped matrix is diagonal -/
theorem lumped_diagonal (vtx : Nat → V3 ℝ) (ts : List Tri) (h : NonDegenTri vtx ts) :
    ∀ e ∈ Fem.massTria true vtx ts, e.1.1 = e.1.2 := by
  rw [massTria_blocks true vtx ts h]
  intro e he
  obtain ⟨b, hb, heb⟩ := List.mem_flatten.mp he
  obtain ⟨τ, _, rfl⟩ := List.mem_map.mp hb
  obtain ⟨t1, t2, t3⟩ := τ
  simp only [triMassBlock, if_true, Fem.triBlockL, List.mem_cons, List.mem_nil_iff, or_false] at heb
  rcases heb with rfl | rfl | rfl <;> rfl

/-- **lumped = row sums of the full matrix**: `(B_lumped·g)_i` with `g ≡ 1` equals `(B·1)_i`, i.e. the lumped diagonal
    entry is the row sum (vertex area) -/
theorem lump_eq_rowsum (vtx : Nat → V3 ℝ) (ts : List Tri) (h : NonDegenTri vtx ts) (i : Nat) :
    Coo.mulVec (Fem.massTria true vtx ts) (fun _ => 1) i = Coo.mulVec (Fem.massTria false vtx ts) (fun _ => 1) i := by
  rw [Coo.mulVec_eq_form, Coo.mulVec_eq_form, massTria_blocks true vtx ts h, massTria_blocks false vtx ts h,
    Coo.form_flatten, Coo.form_flatten, List.map_map, List.map_map]
  congr 1
  apply List.map_congr_left
  intro τ _
  obtain ⟨t1, t2, t3⟩ := τ
  simp only [Function.comp, triMassBlock, Bool.false_eq_true, if_false, if_true, Fem.triBlock, Fem.triBlockL, Coo.form,
    List.map, List.sum_cons, List.sum_nil]
  push_cast
  ring

/-- the row sum is one third of the area of the incident triangles (the vertex area) -/
theorem lumped_row (vtx : Nat → V3 ℝ) (ts : List Tri) (h : NonDegenTri vtx ts) (i : Nat) :
    Coo.mulVec (Fem.massTria true vtx ts) (fun _ => 1) i =
      (ts.map fun τ => Spec.triArea (vtx τ.1) (vtx τ.2.1) (vtx τ.2.2) / 3 *
        ((if τ.1 = i then 1 else 0) + (if τ.2.1 = i then 1 else 0) + (if τ.2.2 = i then 1 else 0))).sum := by
  rw [Coo.mulVec_eq_form, massTria_blocks true vtx ts h, Coo.form_flatten, List.map_map]
  congr 1
  apply List.map_congr_left
  intro τ _
  obtain ⟨t1, t2, t3⟩ := τ
  simp only [Function.comp, triMassBlock, if_true, Fem.triBlockL, Coo.form, List.map, List.sum_cons, List.sum_nil,
    FemTri.triVol_eq]
  push_cast
  ring

/-! ### the stand-alone routine `fem_tria_mass` -/

/-- complement of the stand-alone routine's guard `vol == 0` -/
def NonDegenTriMass (vtx : Nat → V3 ℝ) (ts : List Tri) : Prop :=
  ∀ τ ∈ ts, (((1 : Nat) : ℝ) / ((2 : Nat) : ℝ)) * sqrt (normSq (Fem.triCr (vtx τ.1) (vtx τ.2.1) (vtx τ.2.2))) ≠ 0

theorem nondegenMass_of_nondegen (vtx : Nat → V3 ℝ) (ts : List Tri) (h : NonDegenTri vtx ts) : NonDegenTriMass vtx ts := by
  intro τ hτ
  have hv : 0 < Fem.triVol (vtx τ.1) (vtx τ.2.1) (vtx τ.2.2) := lt_of_lt_of_le epsK_pos (not_lt.mp (h τ hτ))
  unfold Fem.triVol at hv
  push_cast at hv ⊢
  intro h0
  have : sqrt (normSq (Fem.triCr (vtx τ.1) (vtx τ.2.1) (vtx τ.2.2))) = 0 := by
    have h2 : (1 / 2 : ℝ) ≠ 0 := by norm_num
    exact (mul_eq_zero.mp h0).resolve_left h2
  rw [this] at hv; simp at hv

/-- **the stand-alone mass routine returns the solver's matrices** (both lumping modes; triplet for triplet) -/
theorem standalone_eq_solver (lump : Bool) (vtx : Nat → V3 ℝ) (ts : List Tri) (h : NonDegenTri vtx ts) :
    Fem.massTriaStandalone lump vtx ts = Fem.massTria lump vtx ts := by
  have h2 := nondegenMass_of_nondegen vtx ts h
  rw [massTria_blocks lump vtx ts h]
  unfold Fem.massTriaStandalone Fem.triVolsMass
  have hraw : (List.map (fun vol : ℝ => if (vol == 0) = true then
        (((1 : Nat) : ℝ) / ((1000 : Nat) : ℝ)) * meanL (ts.map fun τ => (((1 : Nat) : ℝ) / ((2 : Nat) : ℝ)) *
          sqrt (normSq (Fem.triCr (vtx τ.1) (vtx τ.2.1) (vtx τ.2.2)))) else vol)
      (ts.map fun τ => (((1 : Nat) : ℝ) / ((2 : Nat) : ℝ)) * sqrt (normSq (Fem.triCr (vtx τ.1) (vtx τ.2.1) (vtx τ.2.2)))))
      = ts.map fun τ => (((1 : Nat) : ℝ) / ((2 : Nat) : ℝ)) * sqrt (normSq (Fem.triCr (vtx τ.1) (vtx τ.2.1) (vtx τ.2.2))) := by
    apply map_id_of_forall
    intro x hx
    obtain ⟨τ, hτ, rfl⟩ := List.mem_map.mp hx
    have := h2 τ hτ
    simp only [beq_iff_eq, if_neg this]
  simp only []
  rw [hraw, zip_map_self]
  congr 1
  apply List.map_congr_left
  intro τ _
  obtain ⟨t1, t2, t3⟩ := τ
  cases lump <;>
  · simp only [triMassBlock, Bool.false_eq_true, if_false, if_true, Fem.triBlock, Fem.triBlockL, Fem.triVol]
    push_cast
    simp only [List.cons.injEq, Prod.mk.injEq, and_true, true_and]
    and_intros <;> ring

/-! ## tetrahedra -/

noncomputable def tetMassBlock (lump : Bool) (vtx : Nat → V3 ℝ) (τ : Tet) : Coo ℝ :=
  let vol := Fem.tetVol (vtx τ.1) (vtx τ.2.1) (vtx τ.2.2.1) (vtx τ.2.2.2)
  if lump then Fem.tetBlockL τ (vol / ((24 : Nat) : ℝ))
  else
    let bii := vol / ((60 : Nat) : ℝ); let bij := vol / ((120 : Nat) : ℝ)
    Fem.tetBlock τ bij bij bij bij bij bij bii bii bii bii

theorem massTet_blocks (lump : Bool) (vtx : Nat → V3 ℝ) (ts : List Tet) (h : NonDegenTet vtx ts) :
    Fem.massTet lump vtx ts = (ts.map (tetMassBlock lump vtx)).flatten := by
  unfold Fem.massTet
  rw [C01.tetVols_nondegen vtx ts h, zip_map_self]
  rfl

/-- **x·B·y = Σ_τ ∫_τ x_h y_h** for tetrahedral meshes -/
theorem mass_form_tet (vtx : Nat → V3 ℝ) (ts : List Tet) (h : NonDegenTet vtx ts) (x y : Nat → ℝ) :
    Coo.form (Fem.massTet false vtx ts) x y =
      (ts.map fun τ => Spec.tetL2 (Spec.tetVolume (vtx τ.1) (vtx τ.2.1) (vtx τ.2.2.1) (vtx τ.2.2.2))
          (x τ.1) (x τ.2.1) (x τ.2.2.1) (x τ.2.2.2) (y τ.1) (y τ.2.1) (y τ.2.2.1) (y τ.2.2.2)).sum := by
  rw [massTet_blocks false vtx ts h, Coo.form_flatten, List.map_map]
  congr 1
  apply List.map_congr_left
  intro τ _
  obtain ⟨t1, t2, t3, t4⟩ := τ
  simp only [Function.comp, tetMassBlock, Bool.false_eq_true, if_false, Fem.tetBlock, Coo.form, List.map, List.sum_cons,
    List.sum_nil, FemTet.tetVol_eq_six_vol, Spec.tetL2]
  push_cast
  ring

theorem mass_form_symm_tet (vtx : Nat → V3 ℝ) (ts : List Tet) (h : NonDegenTet vtx ts) (x y : Nat → ℝ) :
    Coo.form (Fem.massTet false vtx ts) x y = Coo.form (Fem.massTet false vtx ts) y x := by
  rw [mass_form_tet vtx ts h, mass_form_tet vtx ts h]
  congr 1
  apply List.map_congr_left
  intro τ _
  unfold Spec.tetL2; ring

theorem mass_total_tet (lump : Bool) (vtx : Nat → V3 ℝ) (ts : List Tet) (h : NonDegenTet vtx ts) :
    Coo.total (Fem.massTet lump vtx ts) =
      (ts.map fun τ => Spec.tetVolume (vtx τ.1) (vtx τ.2.1) (vtx τ.2.2.1) (vtx τ.2.2.2)).sum := by
  rw [massTet_blocks lump vtx ts h, Coo.total_flatten, List.map_map]
  congr 1
  apply List.map_congr_left
  intro τ _
  obtain ⟨t1, t2, t3, t4⟩ := τ
  cases lump <;>
  · simp only [Function.comp, tetMassBlock, Bool.false_eq_true, if_false, if_true, Fem.tetBlock, Fem.tetBlockL, Coo.total,
      List.map, List.sum_cons, List.sum_nil, FemTet.tetVol_eq_six_vol]
    push_cast
    ring

theorem massTet_values_pos (lump : Bool) (vtx : Nat → V3 ℝ) (ts : List Tet) (h : NonDegenTet vtx ts) :
    ∀ e ∈ Fem.massTet lump vtx ts, 0 < e.2 := by
  rw [massTet_blocks lump vtx ts h]
  intro e he
  obtain ⟨b, hb, heb⟩ := List.mem_flatten.mp he
  obtain ⟨τ, hτ, rfl⟩ := List.mem_map.mp hb
  have hv : 0 < Fem.tetVol (vtx τ.1) (vtx τ.2.1) (vtx τ.2.2.1) (vtx τ.2.2.2) := by
    have h0 := h τ hτ
    rw [FemTet.tetVol_eq] at h0 ⊢
    exact abs_pos.mpr (abs_ne_zero.mp h0)
  obtain ⟨t1, t2, t3, t4⟩ := τ
  cases lump <;>
  · simp only [tetMassBlock, Bool.false_eq_true, if_false, if_true, Fem.tetBlock, Fem.tetBlockL, List.mem_cons,
      List.mem_nil_iff, or_false] at heb
    rcases heb with rfl | rfl | rfl | rfl | rfl | rfl | rfl | rfl | rfl | rfl | rfl | rfl | rfl | rfl | rfl | rfl <;>
      (simp only []; push_cast; positivity)

theorem mass_entry_pos_tet (lump : Bool) (vtx : Nat → V3 ℝ) (ts : List Tet) (h : NonDegenTet vtx ts) (i j : Nat)
    (hk : (i, j) ∈ Coo.keys (Fem.massTet lump vtx ts)) : 0 < Coo.entry (Fem.massTet lump vtx ts) i j :=
  entry_pos_of_mem _ (massTet_values_pos lump vtx ts h) i j hk

theorem lump_eq_rowsum_tet (vtx : Nat → V3 ℝ) (ts : List Tet) (h : NonDegenTet vtx ts) (i : Nat) :
    Coo.mulVec (Fem.massTet true vtx ts) (fun _ => 1) i = Coo.mulVec (Fem.massTet false vtx ts) (fun _ => 1) i := by
  rw [Coo.mulVec_eq_form, Coo.mulVec_eq_form, massTet_blocks true vtx ts h, massTet_blocks false vtx ts h,
    Coo.form_flatten, Coo.form_flatten, List.map_map, List.map_map]
  congr 1
  apply List.map_congr_left
  intro τ _
  obtain ⟨t1, t2, t3, t4⟩ := τ
  simp only [Function.comp, tetMassBlock, Bool.false_eq_true, if_false, if_true, Fem.tetBlock, Fem.tetBlockL, Coo.form,
    List.map, List.sum_cons, List.sum_nil]
  push_cast
  ring

end LapyVerif.Props.C02
