import LapyVerif.Props.C09
import LapyVerif.Lemmas.LevelLemmas
import LapyVerif.Lemmas.LevelBfs
/-
  C16 — `level_length` and `level_path`.

  Model: `Model/Level.lean`.  "Level not attained" is `f v ≠ level` for the corners involved; then `¬ level < f v`
  is `f v < level`, and the raw flag patterns of `isolated` become statements about the two sides of the level.
-/
namespace LapyVerif.Props.C16
open LapyVerif Level LevelLemmas LevelBfs V3

/-! ## 1. the isolated corner -/

/-- `v` is on the other side of the level than `a` and `b` -/
def Alone (level v a b : ℝ) : Prop := (level < v ∧ a < level ∧ b < level) ∨ (v < level ∧ level < a ∧ level < b)

theorem not_lt_iff {level x : ℝ} (h : x ≠ level) : ¬ level < x ↔ x < level := by
  rw [not_lt]; exact ⟨fun hle => lt_of_le_of_ne hle h, le_of_lt⟩

/-- **`isolated_spec`** (the six sign patterns): with no corner on the level, `isolated = some s` iff corner `s` is
    alone on its side -/
theorem isolated_spec {f0 f1 f2 level : ℝ} (h0 : f0 ≠ level) (h1 : f1 ≠ level) (h2 : f2 ≠ level) (s : Nat) :
    isolated f0 f1 f2 level = some s ↔
      (s = 0 ∧ Alone level f0 f1 f2) ∨ (s = 1 ∧ Alone level f1 f0 f2) ∨ (s = 2 ∧ Alone level f2 f0 f1) := by
  rw [isolated_eq_some]
  simp only [Alone, not_lt_iff h0, not_lt_iff h1, not_lt_iff h2]

/-- `isolated = none` iff the three corners are on the same side: the level set misses the triangle -/
theorem isolated_none_spec {f0 f1 f2 level : ℝ} (h0 : f0 ≠ level) (h1 : f1 ≠ level) (h2 : f2 ≠ level) :
    isolated f0 f1 f2 level = none ↔ (level < f0 ∧ level < f1 ∧ level < f2) ∨ (f0 < level ∧ f1 < level ∧ f2 < level) := by
  rw [isolated_eq_none]
  simp only [not_lt_iff h0, not_lt_iff h1, not_lt_iff h2]

/-- without any hypothesis: the raw flag patterns (`level < f_i`), as the code computes them -/
theorem isolated_spec_raw (f0 f1 f2 level : ℝ) (s : Nat) :
    isolated f0 f1 f2 level = some s ↔
      (s = 0 ∧ ((level < f0 ∧ ¬ level < f1 ∧ ¬ level < f2) ∨ (¬ level < f0 ∧ level < f1 ∧ level < f2))) ∨
      (s = 1 ∧ ((level < f1 ∧ ¬ level < f0 ∧ ¬ level < f2) ∨ (¬ level < f1 ∧ level < f0 ∧ level < f2))) ∨
      (s = 2 ∧ ((level < f2 ∧ ¬ level < f0 ∧ ¬ level < f1) ∨ (¬ level < f2 ∧ level < f0 ∧ level < f1))) :=
  isolated_eq_some f0 f1 f2 level s

/-! ## 2. crossing points -/

/-- **`crossPoint_on_level`**: the linear interpolant along the edge takes the value `level` at the parameter `x` -/
theorem crossPoint_on_level {fa fb level : ℝ} (h : fa ≠ fb) :
    (1 - (level - fa) / (fb - fa)) * fa + (level - fa) / (fb - fa) * fb = level := by
  have : fb - fa ≠ 0 := sub_ne_zero.2 (Ne.symm h)
  field_simp
  ring

/-- … and `x` is strictly inside `(0,1)` when the level is strictly between the two values -/
theorem crossPoint_param {fa fb level : ℝ} (h : (fa < level ∧ level < fb) ∨ (fb < level ∧ level < fa)) :
    0 < (level - fa) / (fb - fa) ∧ (level - fa) / (fb - fa) < 1 := by
  rcases h with ⟨h1, h2⟩ | ⟨h1, h2⟩
  · have hd : 0 < fb - fa := by linarith
    exact ⟨div_pos (by linarith) hd, (div_lt_one hd).2 (by linarith)⟩
  · have hd : fb - fa < 0 := by linarith
    exact ⟨div_pos_of_neg_of_neg (by linarith) hd, (div_lt_one_of_neg hd).2 (by linarith)⟩

/-- the point itself: `crossPoint = (1−x) v_a + x v_b` -/
theorem crossPoint_eq (vtx : Nat → V3 ℝ) (f : Nat → ℝ) (level : ℝ) (a b : Nat) :
    crossPoint vtx f level a b
      = smul (1 - (level - f a) / (f b - f a)) (vtx a) + smul ((level - f a) / (f b - f a)) (vtx b) :=
  crossPoint_real vtx f level a b

/-- **`crossPoint_symm`**: one point per mesh edge, whichever end it is computed from -/
theorem crossPoint_symm (vtx : Nat → V3 ℝ) (f : Nat → ℝ) (level : ℝ) (a b : Nat) (h : f a ≠ f b) :
    crossPoint vtx f level a b = crossPoint vtx f level b a :=
  LevelLemmas.crossPoint_symm vtx f level a b h

/-! ## 3. the segment of a crossed triangle is the level set of the linear interpolant -/

/-- barycentric combination -/
def bary (l0 l1 l2 : ℝ) (v0 v1 v2 : V3 ℝ) : V3 ℝ := smul l0 v0 + smul l1 v1 + smul l2 v2
/-- point of the segment `p q` at parameter `s` -/
def lerp (s : ℝ) (p q : V3 ℝ) : V3 ℝ := smul (1 - s) p + smul s q

/-- **`segment_is_levelset`** (⊆): every point of the segment between the two crossing points is a point of the
    triangle at which the linear interpolant equals `level` -/
theorem segment_is_levelset {f0 f1 f2 level : ℝ} (v0 v1 v2 : V3 ℝ) (h : Alone level f0 f1 f2) {s : ℝ}
    (hs0 : 0 ≤ s) (hs1 : s ≤ 1) :
    ∃ l0 l1 l2 : ℝ, 0 ≤ l0 ∧ 0 ≤ l1 ∧ 0 ≤ l2 ∧ l0 + l1 + l2 = 1 ∧
      lerp s (smul (1 - (level - f0) / (f1 - f0)) v0 + smul ((level - f0) / (f1 - f0)) v1)
             (smul (1 - (level - f0) / (f2 - f0)) v0 + smul ((level - f0) / (f2 - f0)) v2) = bary l0 l1 l2 v0 v1 v2 ∧
      l0 * f0 + l1 * f1 + l2 * f2 = level := by
  have hx1 : 0 < (level - f0) / (f1 - f0) ∧ (level - f0) / (f1 - f0) < 1 := by
    apply crossPoint_param; rcases h with ⟨a, b, c⟩ | ⟨a, b, c⟩
    · exact Or.inr ⟨b, a⟩
    · exact Or.inl ⟨a, b⟩
  have hx2 : 0 < (level - f0) / (f2 - f0) ∧ (level - f0) / (f2 - f0) < 1 := by
    apply crossPoint_param; rcases h with ⟨a, b, c⟩ | ⟨a, b, c⟩
    · exact Or.inr ⟨c, a⟩
    · exact Or.inl ⟨a, c⟩
  have hne1 : f0 ≠ f1 := by rcases h with ⟨a, b, c⟩ | ⟨a, b, c⟩ <;> intro e <;> linarith
  have hne2 : f0 ≠ f2 := by rcases h with ⟨a, b, c⟩ | ⟨a, b, c⟩ <;> intro e <;> linarith
  set x1 := (level - f0) / (f1 - f0) with hx1d
  set x2 := (level - f0) / (f2 - f0) with hx2d
  have e1 : (1 - x1) * f0 + x1 * f1 = level := crossPoint_on_level hne1
  have e2 : (1 - x2) * f0 + x2 * f2 = level := crossPoint_on_level hne2
  refine ⟨(1 - s) * (1 - x1) + s * (1 - x2), (1 - s) * x1, s * x2, ?_, ?_, ?_, by ring, ?_, ?_⟩
  · have : 0 ≤ (1 - s) * (1 - x1) := mul_nonneg (by linarith) (by linarith [hx1.2])
    have : 0 ≤ s * (1 - x2) := mul_nonneg hs0 (by linarith [hx2.2])
    linarith
  · exact mul_nonneg (by linarith) (le_of_lt hx1.1)
  · exact mul_nonneg hs0 (le_of_lt hx2.1)
  · unfold lerp bary
    apply V3.ext' <;> simp only [V3.add_x, V3.add_y, V3.add_z, V3.smul_x, V3.smul_y, V3.smul_z] <;> ring
  · calc ((1 - s) * (1 - x1) + s * (1 - x2)) * f0 + (1 - s) * x1 * f1 + s * x2 * f2
        = (1 - s) * ((1 - x1) * f0 + x1 * f1) + s * ((1 - x2) * f0 + x2 * f2) := by ring
      _ = level := by rw [e1, e2]; ring

/-- **`segment_is_levelset`** (⊇): conversely every point of the triangle (barycentric coordinates `≥ 0`, sum 1) at
    which the interpolant equals `level` lies on that segment -/
theorem levelset_in_segment {f0 f1 f2 level : ℝ} (v0 v1 v2 : V3 ℝ) (h : Alone level f0 f1 f2) {l0 l1 l2 : ℝ}
    (_h0 : 0 ≤ l0) (h1 : 0 ≤ l1) (h2 : 0 ≤ l2) (hsum : l0 + l1 + l2 = 1) (hval : l0 * f0 + l1 * f1 + l2 * f2 = level) :
    ∃ s : ℝ, 0 ≤ s ∧ s ≤ 1 ∧
      bary l0 l1 l2 v0 v1 v2 =
        lerp s (smul (1 - (level - f0) / (f1 - f0)) v0 + smul ((level - f0) / (f1 - f0)) v1)
               (smul (1 - (level - f0) / (f2 - f0)) v0 + smul ((level - f0) / (f2 - f0)) v2) := by
  -- `L = level − f0`, `d_i = f_i − f0` have the same sign; `l1 d1 + l2 d2 = L`
  have hL : l1 * (f1 - f0) + l2 * (f2 - f0) = level - f0 := by
    have : l0 = 1 - l1 - l2 := by linarith
    rw [this] at hval; linarith
  have hLne : level - f0 ≠ 0 := by rcases h with ⟨a, _, _⟩ | ⟨a, _, _⟩ <;> intro e <;> linarith
  have hd1 : f1 - f0 ≠ 0 := by rcases h with ⟨a, b, c⟩ | ⟨a, b, c⟩ <;> intro e <;> linarith
  have hd2 : f2 - f0 ≠ 0 := by rcases h with ⟨a, b, c⟩ | ⟨a, b, c⟩ <;> intro e <;> linarith
  refine ⟨l2 * (f2 - f0) / (level - f0), ?_, ?_, ?_⟩
  · rcases h with ⟨a, b, c⟩ | ⟨a, b, c⟩
    · exact div_nonneg_of_nonpos (mul_nonpos_of_nonneg_of_nonpos h2 (by linarith)) (by linarith)
    · exact div_nonneg (mul_nonneg h2 (by linarith)) (by linarith)
  · rcases h with ⟨a, b, c⟩ | ⟨a, b, c⟩
    · rw [div_le_one_of_neg (by linarith)]
      have : l1 * (f1 - f0) ≤ 0 := mul_nonpos_of_nonneg_of_nonpos h1 (by linarith)
      linarith
    · rw [div_le_one (by linarith)]
      have : 0 ≤ l1 * (f1 - f0) := mul_nonneg h1 (by linarith)
      linarith
  · have hl1 : l1 = (1 - l2 * (f2 - f0) / (level - f0)) * ((level - f0) / (f1 - f0)) := by
      field_simp
      linarith
    have hl2 : l2 = l2 * (f2 - f0) / (level - f0) * ((level - f0) / (f2 - f0)) := by
      field_simp
    have hl0 : l0 = 1 - l1 - l2 := by linarith
    set s := l2 * (f2 - f0) / (level - f0)
    set x1 := (level - f0) / (f1 - f0)
    set x2 := (level - f0) / (f2 - f0)
    unfold lerp bary
    rw [hl0]
    apply V3.ext' <;> simp only [V3.add_x, V3.add_y, V3.add_z, V3.smul_x, V3.smul_y, V3.smul_z] <;>
      (conv_lhs => rw [hl1, hl2]) <;> ring

/-! ## 4. `level_length` -/

/-- explicit description of the crossed triangles: index, isolated corner first, then the other two in cyclic order -/
theorem mem_crossed_iff {ts : List Tri} {f : Nat → ℝ} {level : ℝ} {k g0 g1 g2 : Nat} :
    (k, g0, g1, g2) ∈ crossed ts f level ↔
      ∃ τ s, ts[k]? = some τ ∧ isolated (f τ.1) (f τ.2.1) (f τ.2.2) level = some s ∧
        ((s = 0 ∧ (g0, g1, g2) = (τ.1, τ.2.1, τ.2.2)) ∨ (s = 1 ∧ (g0, g1, g2) = (τ.2.1, τ.2.2, τ.1)) ∨
         (s = 2 ∧ (g0, g1, g2) = (τ.2.2, τ.1, τ.2.1))) := by
  rw [mem_crossed]
  constructor
  · rintro ⟨τ, s, hk, hs, hr⟩
    refine ⟨τ, s, hk, hs, ?_⟩
    have h3 := isolated_lt_three hs
    have : s = 0 ∨ s = 1 ∨ s = 2 := by omega
    rcases this with rfl | rfl | rfl
    · exact Or.inl ⟨rfl, hr⟩
    · exact Or.inr (Or.inl ⟨rfl, hr⟩)
    · exact Or.inr (Or.inr ⟨rfl, hr⟩)
  · rintro ⟨τ, s, hk, hs, h⟩
    refine ⟨τ, s, hk, hs, ?_⟩
    rcases h with ⟨rfl, h⟩ | ⟨rfl, h⟩ | ⟨rfl, h⟩ <;> exact h

/-- in a crossed triangle (level not attained at its corners) the first corner is alone on its side -/
theorem crossed_alone {ts : List Tri} {f : Nat → ℝ} {level : ℝ} {c : Nat × Nat × Nat × Nat} (h : c ∈ crossed ts f level)
    (h1 : f c.2.2.1 ≠ level) (h2 : f c.2.2.2 ≠ level) (h0 : f c.2.1 ≠ level) :
    Alone level (f c.2.1) (f c.2.2.1) (f c.2.2.2) := by
  have := crossed_sep h
  simp only [not_lt_iff h0, not_lt_iff h1, not_lt_iff h2] at this
  exact this

/-- the contribution of one triangle to the length of the level set of the piecewise-linear interpolant -/
noncomputable def triLevelLen (vtx : Nat → V3 ℝ) (f : Nat → ℝ) (level : ℝ) (τ : Tri) : ℝ :=
  match isolated (f τ.1) (f τ.2.1) (f τ.2.2) level with
  | some s => Level.dist (crossPoint vtx f level (rot τ s).1 (rot τ s).2.1) (crossPoint vtx f level (rot τ s).1 (rot τ s).2.2)
  | none => 0

/-- **`level_length_spec`**: `level_length` is the sum over the crossed triangles of the length of the segment
    between the two crossing points -/
theorem level_length_spec (vtx : Nat → V3 ℝ) (ts : List Tri) (f : Nat → ℝ) (level : ℝ) :
    levelLength vtx ts f level = ((crossed ts f level).map fun c =>
      Level.dist (crossPoint vtx f level c.2.1 c.2.2.1) (crossPoint vtx f level c.2.1 c.2.2.2)).sum := rfl

/-- the same as a sum over ALL triangles (uncrossed ones contribute 0) -/
theorem level_length_sum_tri (vtx : Nat → V3 ℝ) (ts : List Tri) (f : Nat → ℝ) (level : ℝ) :
    levelLength vtx ts f level = (ts.map (triLevelLen vtx f level)).sum := by
  rw [level_length_spec, crossed_eq]
  generalize 0 = k0
  induction ts generalizing k0 with
  | nil => rfl
  | cons τ ts ih =>
    rw [List.zipIdx_cons, List.filterMap_cons, List.map_cons, List.sum_cons, ← ih (k0 + 1)]
    unfold triLevelLen
    cases isolated (f τ.1) (f τ.2.1) (f τ.2.2) level with
    | none => simp
    | some s => simp

/-- for several levels the method maps over them -/
theorem level_length_levels (vtx : Nat → V3 ℝ) (ts : List Tri) (f : Nat → ℝ) (levels : List ℝ) :
    (levels.map (levelLength vtx ts f)).length = levels.length := by simp

/-! ## 5. `pathData` -/

/-- **`pathData_points`**: the points are the crossing points of the stored edges; the stored edges are exactly the
    sorted crossed mesh edges `{g0,g1}`, `{g0,g2}` of the crossed triangles, without duplicates and in lexicographic
    order -/
theorem pathData_points (vtx : Nat → V3 ℝ) (ts : List Tri) (f : Nat → ℝ) (level : ℝ) :
    (pathData vtx ts f level).pts = (pathData vtx ts f level).edges.map (fun e => crossPoint vtx f level e.1 e.2) ∧
    (∀ e, e ∈ (pathData vtx ts f level).edges ↔
      ∃ c ∈ crossed ts f level, e = sortPair c.2.1 c.2.2.1 ∨ e = sortPair c.2.1 c.2.2.2) ∧
    (pathData vtx ts f level).edges.Nodup ∧
    (pathData vtx ts f level).edges.Pairwise (fun a b => Topo.lexLe a b = true) := by
  refine ⟨rfl, fun e => ?_, ?_, ?_⟩
  · rw [pathData_edges]; exact mem_edgesOf
  · rw [pathData_edges]; exact edgesOf_nodup _
  · rw [pathData_edges]; exact C09.pairwise_sortLex _

/-- a stored edge is a sorted pair of two vertices of one triangle, with different function values -/
theorem pathData_edge_sorted (vtx : Nat → V3 ℝ) (ts : List Tri) (f : Nat → ℝ) (level : ℝ) {e : Nat × Nat}
    (he : e ∈ (pathData vtx ts f level).edges) : e.1 ≤ e.2 ∧ f e.1 ≠ f e.2 := by
  rw [pathData_edges, mem_edgesOf] at he
  obtain ⟨c, hc, rfl | rfl⟩ := he
  · refine ⟨by simp [e1, sortPair], ?_⟩
    have := (crossed_ne hc).1
    unfold e1 sortPair
    rcases Nat.le_total c.2.1 c.2.2.1 with h | h
    · rw [Nat.min_eq_left h, Nat.max_eq_right h]; exact this
    · rw [Nat.min_eq_right h, Nat.max_eq_left h]; exact this.symm
  · refine ⟨by simp [e2, sortPair], ?_⟩
    have := (crossed_ne hc).2
    unfold e2 sortPair
    rcases Nat.le_total c.2.1 c.2.2.2 with h | h
    · rw [Nat.min_eq_left h, Nat.max_eq_right h]; exact this
    · rw [Nat.min_eq_right h, Nat.max_eq_left h]; exact this.symm

/-- **segments**: one per crossed triangle, in the same order; its two indices are valid and point to the sorted
    edges `{g0,g1}` and `{g0,g2}` of that triangle, so the segment joins the crossing points of those two edges -/
theorem pathData_segs_spec (vtx : Nat → V3 ℝ) (ts : List Tri) (f : Nat → ℝ) (level : ℝ) :
    ∃ ia ib : Nat × Nat × Nat × Nat → Nat,
      (pathData vtx ts f level).segs = (crossed ts f level).map (fun c => (c.1, ia c, ib c)) ∧
      ∀ c ∈ crossed ts f level,
        (∃ h : ia c < (pathData vtx ts f level).edges.length,
          (pathData vtx ts f level).edges[ia c] = sortPair c.2.1 c.2.2.1) ∧
        (∃ h : ib c < (pathData vtx ts f level).edges.length,
          (pathData vtx ts f level).edges[ib c] = sortPair c.2.1 c.2.2.2) ∧
        (pathData vtx ts f level).pts.getD (ia c) ⟨0, 0, 0⟩ = crossPoint vtx f level c.2.1 c.2.2.1 ∧
        (pathData vtx ts f level).pts.getD (ib c) ⟨0, 0, 0⟩ = crossPoint vtx f level c.2.1 c.2.2.2 := by
  refine ⟨fun c => idxIn (edgesOf (crossed ts f level)) (e1 c), fun c => idxIn (edgesOf (crossed ts f level)) (e2 c),
    pathData_segs vtx ts f level, ?_⟩
  intro c hc
  have m1 : e1 c ∈ edgesOf (crossed ts f level) := mem_edgesOf.2 ⟨c, hc, Or.inl rfl⟩
  have m2 : e2 c ∈ edgesOf (crossed ts f level) := mem_edgesOf.2 ⟨c, hc, Or.inr rfl⟩
  refine ⟨idxIn_spec m1, idxIn_spec m2, ?_, ?_⟩
  · rw [pathData_pts, pathData_edges, getD_pts vtx f level m1]
    exact crossPoint_sortPair vtx f level _ _ (crossed_ne hc).1
  · rw [pathData_pts, pathData_edges, getD_pts vtx f level m2]
    exact crossPoint_sortPair vtx f level _ _ (crossed_ne hc).2

/-- **`path_length_eq`**: the length accumulated by `level_path` is `level_length` (no hypothesis needed) -/
theorem path_length_eq (vtx : Nat → V3 ℝ) (ts : List Tri) (f : Nat → ℝ) (level : ℝ) :
    (pathData vtx ts f level).length = levelLength vtx ts f level := by
  obtain ⟨ia, ib, hsegs, hspec⟩ := pathData_segs_spec vtx ts f level
  rw [pathData_length, hsegs, level_length_spec, List.map_map]
  apply congrArg
  apply List.map_congr_left
  intro c hc
  obtain ⟨_, _, h1, h2⟩ := hspec c hc
  simp only [Function.comp]
  rw [h1, h2]

/-! ## 6. `np.interp` and the arc-length resampling -/

theorem le_getLast_of_pairwise {l : List ℝ} (hp : l.Pairwise (· < ·)) {xl : ℝ} (hl : l.getLast? = some xl) :
    ∀ y ∈ l, y ≤ xl := by
  intro y hy
  obtain ⟨i, hi, rfl⟩ := List.getElem_of_mem hy
  rw [List.getLast?_eq_getElem?, List.getElem?_eq_getElem (by omega)] at hl
  have hl' := Option.some.inj hl
  rcases Nat.lt_or_ge i (l.length - 1) with h | h
  · have := (List.pairwise_iff_getElem.1 hp) i (l.length - 1) hi (by omega) h
    rw [hl'] at this; exact le_of_lt this
  · have : i = l.length - 1 := by omega
    subst this; rw [hl']

/-- **`interp_spec`** (first point) -/
theorem interp_first (x0 f0 : ℝ) (xs fs : List ℝ) : interp (x0 :: xs) (f0 :: fs) x0 = f0 := by
  rw [interp_cons, if_pos (lt_irrefl x0)]

/-- **`interp_spec`** (last point), strictly increasing abscissae -/
theorem interp_last {xp fp : List ℝ} (hlen : xp.length = fp.length) (h2 : 2 ≤ xp.length) (hs : xp.Pairwise (· < ·))
    {xl : ℝ} (hl : xp.getLast? = some xl) : fp.getLast? = some (interp xp fp xl) := by
  have hall := le_getLast_of_pairwise hs hl
  have hgo := go_last xl xp fp hlen h2 hall
  match xp, fp, hlen, h2 with
  | x0 :: x1 :: xs, f0 :: f1 :: fs, _, _ =>
    have h01 : x0 < x1 := by
      have := List.rel_of_pairwise_cons hs (a' := x1) (by simp); exact this
    have hx1 : x1 ≤ xl := hall x1 (by simp)
    rw [interp_cons, if_neg (not_not.2 (lt_of_lt_of_le h01 hx1))]
    exact hgo

/-- **`interp_spec`** (between two abscissae): linear interpolation on `[xp[j], xp[j+1])` -/
theorem interp_mid {xp fp : List ℝ} (hlen : xp.length = fp.length) (hs : xp.Pairwise (· < ·)) (j : Nat)
    (hj : j + 1 < xp.length) {x : ℝ} (h1 : xp[j] ≤ x) (h2 : x < xp[j + 1]) :
    interp xp fp x =
      ((fp[j + 1]'(hlen ▸ hj) - fp[j]'(by omega)) / (xp[j + 1] - xp[j])) * (x - xp[j]) + fp[j]'(by omega) := by
  have hw : xp.Pairwise (· ≤ ·) := hs.imp le_of_lt
  match xp, fp, hlen, hj with
  | x0 :: xs, f0 :: fs, hlen, hj =>
    rw [interp_cons]
    by_cases hx : x0 < x
    · rw [if_neg (not_not.2 hx)]
      exact go_at x j (x0 :: xs) (f0 :: fs) hlen hw hj h1 h2
    · rw [if_pos hx]
      have hj0 : j = 0 := by
        by_contra hne
        have := (List.pairwise_iff_getElem.1 hs) 0 j (by simp) (by omega) (by omega)
        simp only [List.getElem_cons_zero] at this
        linarith [not_lt.1 hx]
      subst hj0
      simp only [List.getElem_cons_zero] at h1 ⊢
      have : x = x0 := le_antisymm (not_lt.1 hx) h1
      rw [this]; ring

/-- **`resample_length`** -/
theorem resample_length (path : List (V3 ℝ)) (n : Nat) : (resample1 path n).length = n := by
  rw [resample1_eq, List.length_map, samples_length]

/-- **`resample_endpoints`** (one pass): first and last point are unchanged -/
theorem resample1_endpoints {path : List (V3 ℝ)} {n : Nat} (h2 : 2 ≤ path.length) (hpos : 0 < totalLen path) (hn : 2 ≤ n) :
    (resample1 path n).head? = path.head? ∧ (resample1 path n).getLast? = path.getLast? := by
  obtain ⟨p, rest, rfl⟩ : ∃ p rest, path = p :: rest := by
    cases path with
    | nil => simp at h2
    | cons p rest => exact ⟨p, rest, rfl⟩
  obtain ⟨q, hq⟩ : ∃ q, (p :: rest).getLast? = some q := ⟨_, List.getLast?_eq_some_getLast (by simp)⟩
  rw [resample1_eq, List.head?_map, List.getLast?_map, samples_head hn, samples_last (by omega), hq]
  simp only [Option.map_some, List.head?_cons]
  rw [pointAt_zero, pointAt_total h2 hpos hq]
  exact ⟨rfl, rfl⟩

/-- the samples are equally spaced in arc length: the `i`-th output point is the point at arc length
    `i · total/(n−1)` -/
theorem resample1_equispaced {path : List (V3 ℝ)} {n : Nat} (hn : 2 ≤ n) (i : Nat) (hi : i < (resample1 path n).length) :
    (resample1 path n)[i] = pointAt path ((i : ℝ) * (totalLen path / ((n - 1 : Nat) : ℝ))) := by
  have hi' : i < (samples path n).length := by rw [resample_length] at hi; rw [samples_length]; exact hi
  have : (resample1 path n)[i] = pointAt path ((samples path n)[i]) := by
    simp only [resample1_eq, List.getElem_map]
  rw [this, samples_getElem hn i hi']

/-- … and that point lies on the segment of the polyline that contains this arc length -/
theorem pointAt_on_segment (path : List (V3 ℝ)) (j : Nat) (hj : j + 1 < path.length) {s : ℝ}
    (h1 : (arcLen path)[j]'(by rw [arcLen_length]; omega) ≤ s) (h2 : s < (arcLen path)[j + 1]'(by rw [arcLen_length]; omega))
    (hs : 0 < s) :
    pointAt path s = lerp ((s - (arcLen path)[j]'(by rw [arcLen_length]; omega)) /
        ((arcLen path)[j + 1]'(by rw [arcLen_length]; omega) - (arcLen path)[j]'(by rw [arcLen_length]; omega)))
      path[j] path[j + 1] := by
  have hlen : (arcLen path).length = path.length := by rw [arcLen_length]; omega
  have key : ∀ (g : V3 ℝ → ℝ), interp (arcLen path) (path.map g) s =
      ((g path[j + 1] - g path[j]) / ((arcLen path)[j + 1]'(by omega) - (arcLen path)[j]'(by omega))) *
        (s - (arcLen path)[j]'(by omega)) + g path[j] := by
    intro g
    obtain ⟨r, hr⟩ := cum_head 0 [] (segLens path)
    have hr' : arcLen path = 0 :: r := hr
    have hgo := go_at s j (arcLen path) (path.map g) (by simpa using hlen) (arcLen_pairwise path) (by omega) h1 h2
    simp only [List.getElem_map] at hgo
    rw [← hgo]
    obtain ⟨p, rest, rfl⟩ : ∃ p rest, path = p :: rest := by
      cases path with
      | nil => simp at hj
      | cons p rest => exact ⟨p, rest, rfl⟩
    have e : ∀ A : List ℝ, A = 0 :: r → interp A (g p :: rest.map g) s = interp.go s A (g p :: rest.map g) := by
      intro A hA; subst hA; rw [interp_cons, if_neg (not_not.2 hs)]
    exact e _ hr'
  unfold pointAt lerp
  rw [key, key, key]
  apply V3.ext' <;> simp only [V3.add_x, V3.add_y, V3.add_z, V3.smul_x, V3.smul_y, V3.smul_z] <;> ring

theorem resample1_pass {path : List (V3 ℝ)} {p q : V3 ℝ} {n : Nat} (hp : path.head? = some p)
    (hq : path.getLast? = some q) (hne : p ≠ q) (hn : 2 ≤ n) :
    (resample1 path n).head? = some p ∧ (resample1 path n).getLast? = some q := by
  have h2 : 2 ≤ path.length := by
    match path, hp, hq with
    | [a], hp, hq => simp at hp hq; exact absurd (hp.symm.trans hq) hne
    | a :: b :: r, _, _ => simp
  have := resample1_endpoints h2 (totalLen_pos_of_ne hp hq hne) hn
  rw [this.1, this.2]; exact ⟨hp, hq⟩

/-- **`resample_endpoints`** (the three passes of `__iterative_resample_polygon`): an open curve with different end
    points keeps them, and has `n` points -/
theorem resample_endpoints {path : List (V3 ℝ)} {p q : V3 ℝ} {n : Nat} (hp : path.head? = some p)
    (hq : path.getLast? = some q) (hne : p ≠ q) (hn : 2 ≤ n) :
    (resample path n).head? = some p ∧ (resample path n).getLast? = some q ∧ (resample path n).length = n := by
  unfold resample
  have h1 := resample1_pass hp hq hne hn
  have h2 := resample1_pass h1.1 h1.2 hne hn
  have h3 := resample1_pass h2.1 h2.2 hne hn
  exact ⟨h3.1, h3.2, resample_length _ n⟩

/-! ## 7. `level_path`: result, removal of near-duplicate points, errors -/

theorem eps_real : (Level.one / ((1000000 : Nat) : ℝ)) = 1 / 1000000 := by simp

/-- the ordered point list before the removal of near-duplicates -/
noncomputable def orderedPoints (vtx : Nat → V3 ℝ) (ts : List Tri) (f : Nat → ℝ) (level : ℝ) : List (V3 ℝ) :=
  (LevelLemmas.orderOf (segEdges (pathData vtx ts f level).segs)).map fun i => (pathData vtx ts f level).pts.getD i ⟨0, 0, 0⟩

/-- the triangle reported for every consecutive pair of ordered points -/
noncomputable def orderedTrias (vtx : Nat → V3 ℝ) (ts : List Tri) (f : Nat → ℝ) (level : ℝ) : List Nat :=
  triasOf (pathData vtx ts f level).segs (LevelLemmas.orderOf (segEdges (pathData vtx ts f level).segs))

theorem orderOf_length (es : List (Nat × Nat)) : (LevelLemmas.orderOf es).length = nNodes es := by
  simp [LevelLemmas.orderOf]

/-- **`level_path` raises** exactly when there is no segment, or the segment graph does not have exactly two end
    points (vertices of degree one), or some point is not reachable from the first end point -/
theorem levelPath_valueError_iff (vtx : Nat → V3 ℝ) (ts : List Tri) (f : Nat → ℝ) (level : ℝ) :
    levelPath vtx ts f level = .valueError ↔
      segEdges (pathData vtx ts f level).segs = [] ∨
      (endsOf (segEdges (pathData vtx ts f level).segs)).length ≠ 2 ∨
      (bfsDist (segEdges (pathData vtx ts f level).segs)).any (·.isNone) = true := by
  rw [levelPath_eq]
  simp only
  by_cases h1 : segEdges (pathData vtx ts f level).segs = []
  · simp [h1]
  · by_cases h2 : (endsOf (segEdges (pathData vtx ts f level).segs)).length = 2
    · by_cases h3 : (bfsDist (segEdges (pathData vtx ts f level).segs)).any (·.isNone) = true
      · simp [h1, h2, h3]
      · simp [h1, h2, h3]
    · simp [h1, h2]

/-- **`merge_eps`**: what an `.ok` result of `level_path` consists of.  `kept` is obtained from the ordered points by
    dropping exactly the points whose squared distance to their successor is `≤ 1/1000000` (the last point is always
    kept: `keepSpec`), so it is a sublist with the same last point; the length is `level_length`; one triangle index
    is returned per kept point other than the last (`tri.length + 1 = kept.length`), namely those of the pairs whose
    first point is kept. -/
theorem merge_eps {vtx : Nat → V3 ℝ} {ts : List Tri} {f : Nat → ℝ} {level : ℝ} {kept : List (V3 ℝ)} {L : ℝ}
    {tri : List Nat} (h : levelPath vtx ts f level = .ok kept L tri) :
    L = levelLength vtx ts f level ∧
    kept = keepSpec (1 / 1000000) (orderedPoints vtx ts f level) ∧
    kept.Sublist (orderedPoints vtx ts f level) ∧
    kept.getLast? = (orderedPoints vtx ts f level).getLast? ∧
    tri = (((orderedTrias vtx ts f level).zip (flagsOf (1 / 1000000) (orderedPoints vtx ts f level))).filter (·.2)).map (·.1) ∧
    tri.length + 1 = kept.length ∧
    (endsOf (segEdges (pathData vtx ts f level).segs)).length = 2 := by
  rw [levelPath_eq] at h
  simp only at h
  split at h
  · cases h
  · split at h
    · cases h
    · rename_i hends
      split at h
      · cases h
      · rw [eps_real] at h
        injection h with hk hL ht
        have hkept : kept = keepSpec (1 / 1000000) (orderedPoints vtx ts f level) := by
          rw [← hk]; exact kept_eq _ _
        have hP : orderedPoints vtx ts f level ≠ [] := by
          intro h0
          have := congrArg List.length h0
          simp [orderedPoints, orderOf_length, nNodes] at this
        have hlenT : (orderedTrias vtx ts f level).length = (flagsOf (1 / 1000000) (orderedPoints vtx ts f level)).length := by
          simp [orderedTrias, triasOf, flagsOf, orderedPoints]
        refine ⟨by rw [← hL]; exact path_length_eq vtx ts f level, hkept, ?_, ?_, ht.symm, ?_, ?_⟩
        · rw [hkept]; exact keepSpec_sublist _ _
        · rw [hkept]; exact keepSpec_getLast _ _
        · rw [← ht, hkept, keepSpec_length _ _ hP]
          have := filter_zip_length (orderedTrias vtx ts f level) _ hlenT
          unfold orderedTrias orderedPoints at this
          rw [this]
          rfl
        · simpa using hends

/-! ## 8. the order of the points when the segment graph is a simple path -/

/-- **`path_order`**: if the segment graph is the simple path `q` (`IsPath`: `q` lists every node once and the
    neighbours of `q[j]` are `q[j±1]`), listed from the end point the code starts at, then the breadth-first distance
    of `q[j]` is `j` and the order produced by the argsort is `q` itself.  (For the other end point apply the theorem
    to the reversed list, which is a path as well.) -/
theorem path_order {es : List (Nat × Nat)} {q : List Nat} (h : IsPath (nNodes es) es q)
    (hstart : q.head? = some ((endsOf es).headD 0)) :
    bfsDist es = (List.range (nNodes es)).map (fun i => some (q.idxOf i)) ∧ LevelLemmas.orderOf es = q := by
  have hlen := h.length
  have hpos : 0 < q.length := by rw [hlen]; simp [nNodes]
  have h0 : q[0] = (endsOf es).headD 0 := by
    rw [List.head?_eq_getElem?, List.getElem?_eq_getElem hpos] at hstart
    exact Option.some.inj hstart
  have hd : bfsDist es = (List.range (nNodes es)).map (fun i => some (q.idxOf i)) := by
    unfold bfsDist; rw [← h0]; exact bfs_path h hpos
  refine ⟨hd, ?_⟩
  unfold LevelLemmas.orderOf
  rw [hd]
  have : ((List.range (nNodes es)).map fun i =>
        ((((List.range (nNodes es)).map fun i => some (q.idxOf i)).getD i none).getD 0, i))
      = (List.range (nNodes es)).map fun i => (q.idxOf i, i) := by
    apply List.map_congr_left
    intro i hi
    have hi' := List.mem_range.1 hi
    simp [List.getD_eq_getElem?_getD, hi']
  rw [this]
  exact argsort_path h

/-- consecutive points of the order are joined by a segment, and the triangle reported for the pair is the index of a
    stored segment that joins them -/
theorem path_order_segments {segs : List (Nat × Nat × Nat)} {q : List Nat}
    (h : IsPath (nNodes (segEdges segs)) (segEdges segs) q) (j : Nat) (hj : j + 1 < q.length) :
    ∃ s ∈ segs, segOf segs q[j] q[j + 1] = some s.1 ∧
      ((s.2.1 = q[j] ∧ s.2.2 = q[j + 1]) ∨ (s.2.1 = q[j + 1] ∧ s.2.2 = q[j])) := by
  have hadj : q[j + 1] ∈ nbrOf (segEdges segs) q[j] := (h.adj j (by omega) _).2 (Or.inl ⟨hj, rfl⟩)
  obtain ⟨e, he, hor⟩ := mem_nbrOf.1 hadj
  unfold segEdges at he
  rw [List.mem_map] at he
  obtain ⟨s0, hs0, rfl⟩ := he
  have hex : ∃ s ∈ segs, ((s.2.1 == q[j] && s.2.2 == q[j + 1]) || (s.2.1 == q[j + 1] && s.2.2 == q[j])) = true := by
    refine ⟨s0, hs0, ?_⟩
    simp only at hor
    rcases hor with ⟨h1, h2⟩ | ⟨h1, h2⟩
    · simp [h1, ← h2]
    · simp [h1, ← h2]
  cases hf : segs.find? (fun s => (s.2.1 == q[j] && s.2.2 == q[j + 1]) || (s.2.1 == q[j + 1] && s.2.2 == q[j])) with
  | none =>
    rw [List.find?_eq_none] at hf
    obtain ⟨s, hs, hp⟩ := hex
    exact absurd hp (hf s hs)
  | some s =>
    refine ⟨s, List.mem_of_find?_eq_some hf, ?_, ?_⟩
    · unfold segOf; rw [hf]; rfl
    · have := List.find?_some hf
      simpa using this

/-- **`level_path` follows the curve.**  If the segment graph of the crossed triangles is a simple path `q` (listed
    from the end the code starts at), the ordered points are the crossing points of the stored edges `q[0], q[1], …`;
    and for consecutive points there is a crossed triangle `c` — the one reported — such that the two points are
    the crossing points of its two crossed edges (so they lie on two edges of that triangle, at the level value by
    `crossPoint_on_level`). -/
theorem level_path_order (vtx : Nat → V3 ℝ) (ts : List Tri) (f : Nat → ℝ) (level : ℝ) {q : List Nat}
    (h : IsPath (nNodes (segEdges (pathData vtx ts f level).segs)) (segEdges (pathData vtx ts f level).segs) q)
    (hstart : q.head? = some ((endsOf (segEdges (pathData vtx ts f level).segs)).headD 0)) :
    orderedPoints vtx ts f level = q.map (fun i => (pathData vtx ts f level).pts.getD i ⟨0, 0, 0⟩) ∧
    ∀ j (hj : j + 1 < q.length), ∃ c ∈ crossed ts f level,
      (orderedTrias vtx ts f level)[j]? = some c.1 ∧
      (((pathData vtx ts f level).pts.getD q[j] ⟨0, 0, 0⟩ = crossPoint vtx f level c.2.1 c.2.2.1 ∧
        (pathData vtx ts f level).pts.getD q[j + 1] ⟨0, 0, 0⟩ = crossPoint vtx f level c.2.1 c.2.2.2) ∨
       ((pathData vtx ts f level).pts.getD q[j] ⟨0, 0, 0⟩ = crossPoint vtx f level c.2.1 c.2.2.2 ∧
        (pathData vtx ts f level).pts.getD q[j + 1] ⟨0, 0, 0⟩ = crossPoint vtx f level c.2.1 c.2.2.1)) := by
  have hord := (path_order h hstart).2
  refine ⟨by unfold orderedPoints; rw [hord], ?_⟩
  intro j hj
  obtain ⟨s, hs, hseg, hends⟩ := path_order_segments h j hj
  obtain ⟨ia, ib, hsegs, hspec⟩ := pathData_segs_spec vtx ts f level
  rw [hsegs, List.mem_map] at hs
  obtain ⟨c, hc, rfl⟩ := hs
  obtain ⟨_, _, p1, p2⟩ := hspec c hc
  refine ⟨c, hc, ?_, ?_⟩
  · unfold orderedTrias triasOf
    have hz : (q.zip (q.drop 1))[j]? = some (q[j], q[j + 1]) :=
      List.getElem?_zip_eq_some.2 ⟨List.getElem?_eq_getElem (by omega),
        by rw [List.getElem?_drop, show 1 + j = j + 1 from by omega, List.getElem?_eq_getElem hj]⟩
    rw [hord, List.getElem?_map, hz]
    simp only [Option.map_some]
    rw [hseg]; rfl
  · simp only at hends
    rcases hends with ⟨e1, e2⟩ | ⟨e1, e2⟩
    · left; rw [← e1, ← e2]; exact ⟨p1, p2⟩
    · right; rw [← e1, ← e2]; exact ⟨p2, p1⟩

/-! ## non-vacuity: the unit square, `f = x`, level `1/2` -/

def sq : List Tri := [(0, 1, 2), (1, 3, 2)]
noncomputable def vtxSq : Nat → V3 ℝ := vtx4 ⟨0, 0, 0⟩ ⟨1, 0, 0⟩ ⟨0, 1, 0⟩ ⟨1, 1, 0⟩
noncomputable def fx : Nat → ℝ := fun i => (vtxSq i).x

theorem fx0 : fx 0 = 0 := rfl
theorem fx1 : fx 1 = 1 := rfl
theorem fx2 : fx 2 = 0 := rfl
theorem fx3 : fx 3 = 1 := rfl

theorem iso0 : isolated (fx 0) (fx 1) (fx 0) (1 / 2) = some 1 := by
  rw [isolated_eq_some]; norm_num [fx0, fx1]
theorem iso1 : isolated (fx 1) (fx 3) (fx 2) (1 / 2) = some 2 := by
  rw [isolated_eq_some]; norm_num [fx1, fx2, fx3]

theorem crossed_sq : crossed sq fx (1 / 2) = [(0, 1, 2, 0), (1, 2, 1, 3)] := by
  rw [crossed_eq]
  simp only [sq, List.zipIdx_cons, List.zipIdx_nil, List.filterMap_cons, List.filterMap_nil]
  have h0 : isolated (fx 0) (fx 1) (fx 2) (1 / 2) = some 1 := by rw [fx2, ← fx0]; exact iso0
  simp only [h0, iso1, Option.map_some]
  rfl


theorem cp (a b : Nat) : crossPoint vtxSq fx (1 / 2) a b
    = smul (1 - (1 / 2 - fx a) / (fx b - fx a)) (vtxSq a) + smul ((1 / 2 - fx a) / (fx b - fx a)) (vtxSq b) :=
  crossPoint_real _ _ _ _ _

theorem cp01 : crossPoint vtxSq fx (1 / 2) 0 1 = ⟨1 / 2, 0, 0⟩ := by
  rw [cp, fx0, fx1]; apply V3.ext' <;> simp [vtxSq, vtx4]
theorem cp12 : crossPoint vtxSq fx (1 / 2) 1 2 = ⟨1 / 2, 1 / 2, 0⟩ := by
  rw [cp, fx1, fx2]; apply V3.ext' <;> simp [vtxSq, vtx4] <;> norm_num
theorem cp23 : crossPoint vtxSq fx (1 / 2) 2 3 = ⟨1 / 2, 1, 0⟩ := by
  rw [cp, fx2, fx3]; apply V3.ext' <;> simp [vtxSq, vtx4]
theorem cp10 : crossPoint vtxSq fx (1 / 2) 1 0 = ⟨1 / 2, 0, 0⟩ := by
  rw [← crossPoint_symm _ _ _ 0 1 (by rw [fx0, fx1]; norm_num), cp01]
theorem cp21 : crossPoint vtxSq fx (1 / 2) 2 1 = ⟨1 / 2, 1 / 2, 0⟩ := by
  rw [← crossPoint_symm _ _ _ 1 2 (by rw [fx1, fx2]; norm_num), cp12]

theorem sqrt_four : Real.sqrt 4 = 2 := by
  rw [show (4 : ℝ) = 2 ^ 2 by norm_num, Real.sqrt_sq (by norm_num)]

theorem dist_a : Level.dist (⟨1 / 2, 1 / 2, 0⟩ : V3 ℝ) ⟨1 / 2, 0, 0⟩ = 1 / 2 := by
  unfold Level.dist; v3_flat; norm_num [sqrt_four]
theorem dist_b : Level.dist (⟨1 / 2, 1 / 2, 0⟩ : V3 ℝ) ⟨1 / 2, 1, 0⟩ = 1 / 2 := by
  unfold Level.dist; v3_flat; norm_num [sqrt_four]

/-- `level_length_spec`: two crossed triangles, each contributing `1/2` -/
theorem levelLength_sq : levelLength vtxSq sq fx (1 / 2) = 1 := by
  rw [level_length_spec, crossed_sq]
  simp only [List.map_cons, List.map_nil, List.sum_cons, List.sum_nil, cp12, cp10, cp21, cp23, dist_a, dist_b]
  norm_num


theorem sort_eq {l l' : List (Nat × Nat)} (hp : l.Perm l') (hs : l'.Pairwise fun a b => Topo.lexLe a b = true) :
    l.mergeSort (fun a b => Topo.lexLe a b) = l' := by
  apply List.Perm.eq_of_pairwise (le := fun a b => Topo.lexLe a b = true)
  · intro a b _ _; exact C09.lexLe_antisymm a b
  · exact C09.pairwise_sortLex l
  · exact hs
  · exact (List.mergeSort_perm l _).trans hp

theorem edges_sq : (pathData vtxSq sq fx (1 / 2)).edges = [(0, 1), (1, 2), (2, 3)] := by
  rw [pathData_edges, crossed_sq]
  unfold edgesOf
  exact sort_eq (by decide) (by decide)

theorem segs_sq : (pathData vtxSq sq fx (1 / 2)).segs = [(0, 1, 0), (1, 1, 2)] := by
  rw [pathData_segs, ← pathData_edges, edges_sq, crossed_sq]
  decide

theorem pts_sq : (pathData vtxSq sq fx (1 / 2)).pts = [⟨1 / 2, 0, 0⟩, ⟨1 / 2, 1 / 2, 0⟩, ⟨1 / 2, 1, 0⟩] := by
  rw [pathData_pts, edges_sq]
  simp only [List.map_cons, List.map_nil, cp01, cp12, cp23]

theorem order_sq : LevelLemmas.orderOf [(1, 0), (1, 2)] = [0, 1, 2] := by
  have hd : bfsDist [(1, 0), (1, 2)] = [some 0, some 1, some 2] := by decide
  have hn : nNodes [(1, 0), (1, 2)] = 3 := by decide
  unfold LevelLemmas.orderOf
  rw [hd, hn]
  have : ((List.range 3).map fun i => ((([some 0, some 1, some 2] : List (Option Nat)).getD i none).getD 0, i))
      = [(0, 0), (1, 1), (2, 2)] := by decide
  rw [this, sort_eq (List.Perm.refl _) (by decide)]
  rfl

/-- `level_path` on the square: three points in order along the segment `x = 1/2`, length 1, triangles `0, 1` -/
theorem levelPath_sq : levelPath vtxSq sq fx (1 / 2)
    = .ok [⟨1 / 2, 0, 0⟩, ⟨1 / 2, 1 / 2, 0⟩, ⟨1 / 2, 1, 0⟩] 1 [0, 1] := by
  have hL : (pathData vtxSq sq fx (1 / 2)).length = 1 := by rw [path_length_eq, levelLength_sq]
  have hes : segEdges [(0, 1, 0), (1, 1, 2)] = [(1, 0), (1, 2)] := rfl
  rw [levelPath_eq]
  simp only [hL, pts_sq, segs_sq, hes, order_sq]
  have h1 : ([(1, 0), (1, 2)] : List (Nat × Nat)).isEmpty = false := rfl
  have h2 : ((endsOf [(1, 0), (1, 2)]).length != 2) = false := by decide
  have h3 : (bfsDist [(1, 0), (1, 2)]).any (·.isNone) = false := by decide
  have h4 : triasOf [(0, 1, 0), (1, 1, 2)] [0, 1, 2] = [0, 1] := by decide
  simp only [h1, h2, h3, h4, Bool.false_eq_true, ↓reduceIte]
  have hf : flagsOf (Level.one / ((1000000 : Nat) : ℝ))
      (([0, 1, 2] : List Nat).map fun i => ([⟨1 / 2, 0, 0⟩, ⟨1 / 2, 1 / 2, 0⟩, ⟨1 / 2, 1, 0⟩] : List (V3 ℝ)).getD i ⟨0, 0, 0⟩)
      = [true, true] := by
    simp only [flagsOf, List.map_cons, List.map_nil, List.getD_cons_zero, List.getD_cons_succ, List.drop_succ_cons,
      List.drop_zero, List.zip_cons_cons, List.zip_nil_right, eps_real]
    v3_flat
    norm_num
  rw [hf]
  rfl

/-- `isolated_spec`, `segment_is_levelset`: their hypotheses hold in triangle 0 of the square -/
example : isolated (fx 0) (fx 1) (fx 2) (1 / 2) = some 1 ∧ Alone (1 / 2) (fx 1) (fx 0) (fx 2) := by
  have hA : Alone (1 / 2) (fx 1) (fx 0) (fx 2) := by left; rw [fx0, fx1, fx2]; norm_num
  exact ⟨(isolated_spec (by rw [fx0]; norm_num) (by rw [fx1]; norm_num) (by rw [fx2]; norm_num) 1).2
    (Or.inr (Or.inl ⟨rfl, hA⟩)), hA⟩

/-- `interp_spec` on `xp = [0,1,3]`, `fp = [0,2,6]` -/
example : interp [0, 1, 3] [0, 2, 6] (0 : ℝ) = 0 ∧ interp [0, 1, 3] [0, 2, 6] (2 : ℝ) = 4 ∧
    ([0, 2, 6] : List ℝ).getLast? = some (interp [0, 1, 3] [0, 2, 6] (3 : ℝ)) := by
  have hs : ([0, 1, 3] : List ℝ).Pairwise (· < ·) := by simp
  refine ⟨interp_first 0 0 _ _, ?_,
    interp_last (xp := [0, 1, 3]) (fp := [0, 2, 6]) (xl := 3) rfl (by simp) hs rfl⟩
  rw [interp_mid (xp := [0, 1, 3]) (fp := [0, 2, 6]) rfl hs 1 (by simp) (by norm_num) (by norm_num)]
  norm_num

/-- `resample_endpoints`, `resample_length`: the level path of the square resampled to 5 points keeps its ends -/
example : (resample [⟨1 / 2, 0, 0⟩, ⟨1 / 2, 1 / 2, 0⟩, (⟨1 / 2, 1, 0⟩ : V3 ℝ)] 5).head? = some ⟨1 / 2, 0, 0⟩ ∧
    (resample [⟨1 / 2, 0, 0⟩, ⟨1 / 2, 1 / 2, 0⟩, (⟨1 / 2, 1, 0⟩ : V3 ℝ)] 5).getLast? = some ⟨1 / 2, 1, 0⟩ ∧
    (resample [⟨1 / 2, 0, 0⟩, ⟨1 / 2, 1 / 2, 0⟩, (⟨1 / 2, 1, 0⟩ : V3 ℝ)] 5).length = 5 :=
  resample_endpoints rfl rfl (by intro h; have := congrArg V3.y h; norm_num at this) (by norm_num)

/-- `merge_eps` applied to the result on the square -/
example : (endsOf (segEdges (pathData vtxSq sq fx (1 / 2)).segs)).length = 2 := (merge_eps levelPath_sq).2.2.2.2.2.2

/-- `levelPath_valueError_iff`: a single uncrossed triangle has no segment, `level_path` raises -/
example : levelPath vtxSq [(0, 2, 0)] fx (1 / 2) = .valueError := by
  rw [levelPath_valueError_iff]
  left
  have : crossed [(0, 2, 0)] fx (1 / 2) = [] := by
    rw [crossed_eq]
    have h : isolated (fx 0) (fx 2) (fx 0) (1 / 2) = none := by
      rw [isolated_eq_none]; right; rw [fx0, fx2]; norm_num
    simp only [List.zipIdx_cons, List.zipIdx_nil, List.filterMap_cons, List.filterMap_nil, h, Option.map_none]
  rw [pathData_segs, this]
  rfl

/-- `path_order`: the segment graph of the square is the simple path `0 — 1 — 2` -/
theorem isPath_sq : IsPath (nNodes [(1, 0), (1, 2)]) [(1, 0), (1, 2)] [0, 1, 2] where
  nodup := by decide
  mem := by
    intro i
    have : nNodes [(1, 0), (1, 2)] = 3 := by decide
    rw [this]; simp; omega
  adj := by
    intro j hj x
    have hj' : j = 0 ∨ j = 1 ∨ j = 2 := by simp at hj; omega
    rcases hj' with rfl | rfl | rfl
    · have : nbrOf [(1, 0), (1, 2)] 0 = [1] := by decide
      simp [this]
    · have : nbrOf [(1, 0), (1, 2)] 1 = [0, 2] := by decide
      simp [this]; tauto
    · have : nbrOf [(1, 0), (1, 2)] 2 = [1] := by decide
      simp [this]

example : LevelLemmas.orderOf [(1, 0), (1, 2)] = [0, 1, 2] := (path_order isPath_sq (by decide)).2

end LapyVerif.Props.C16
