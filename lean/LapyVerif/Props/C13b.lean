import LapyVerif.Lemmas.Balanced
import LapyVerif.Props.C09
import LapyVerif.Props.C13
/-
  C13 (continued) — `volume()` does not depend on the position of the origin.

  For a closed, consistently oriented triangle list every directed half-edge `a→b` occurs exactly as often as its
  reverse `b→a` (`dirKeys_arcBalanced`), hence the sum over the half-edges of any antisymmetric quantity vanishes
  (`Lemmas.balanced_sum_zero`, discrete Stokes).  Applied to `c · (v_a × v_b)` this gives the translation invariance
  of the divergence-theorem sum, applied to `v_a × v_b` the vanishing of the total vector area.
  No `Distinct` hypothesis is needed: the counting argument works on the stored keys themselves.
-/
namespace LapyVerif.Props.C13
open LapyVerif V3 Lemmas
open LapyVerif.Props.C09 (triSymKeys triDirKeys symKeys_eq dirKeys_eq adjSym_eq adjDir_eq Distinct halfEdgeCount
  count_dirKeys)

/-! ### closed + oriented ⇒ every half-edge is matched by its reverse -/

theorem count_triSymKeys_eq_add (τ : Tri) (a b : Nat) :
    (triSymKeys τ).count (a, b) = (triDirKeys τ).count (a, b) + (triDirKeys τ).count (b, a) := by
  obtain ⟨t0, t1, t2⟩ := τ
  simp only [triSymKeys, triDirKeys, List.count_cons, List.count_nil, beq_iff_eq, Prod.mk.injEq]
  grind

/-- the symmetric key list contains each key as often as the directed list contains it or its reverse
    (for every triangle list, degenerate index triples included) -/
theorem count_symKeys_eq_add (ts : List Tri) (a b : Nat) :
    (Topo.symKeys ts).count (a, b) = (Topo.dirKeys ts).count (a, b) + (Topo.dirKeys ts).count (b, a) := by
  rw [symKeys_eq, dirKeys_eq]
  induction ts with
  | nil => simp
  | cons τ ts ih =>
    simp only [List.flatMap_cons, List.count_append, ih, count_triSymKeys_eq_add τ a b]
    omega

/-- in a closed, oriented triangle list each directed half-edge occurs as often as its reverse -/
theorem dirKeys_arcBalanced (ts : List Tri) (hc : Topo.isClosed ts = true) (ho : Topo.isOriented ts = true) :
    ArcBalanced (Topo.dirKeys ts) := by
  intro a b
  have hc' : ¬ ∃ k, (Topo.symKeys ts).count k = 1 := by
    unfold Topo.isClosed Topo.symData at hc
    rw [adjSym_eq, Bool.not_eq_true', ← Bool.not_eq_true, contains_one_data_unit] at hc
    exact hc
  have ho' : ∀ k, (Topo.dirKeys ts).count k ≤ 1 := by
    unfold Topo.isOriented Topo.dirData at ho
    rw [adjDir_eq, beq_iff_eq, maxL_data_unit_eq_one] at ho
    exact ho.2
  have h1 := ho' (a, b)
  have h2 := ho' (b, a)
  have h3 := count_symKeys_eq_add ts a b
  have h4 : (Topo.symKeys ts).count (a, b) ≠ 1 := fun h => hc' ⟨(a, b), h⟩
  omega

/-- the same in terms of `halfEdgeCount` (for non-degenerate index triples) -/
theorem halfEdgeCount_symm (ts : List Tri) (hd : Distinct ts) (hc : Topo.isClosed ts = true)
    (ho : Topo.isOriented ts = true) (a b : Nat) : halfEdgeCount ts a b = halfEdgeCount ts b a := by
  rw [← count_dirKeys ts hd, ← count_dirKeys ts hd]
  exact dirKeys_arcBalanced ts hc ho a b

/-! ### sums over triangles as sums over half-edges -/

theorem sum_dirKeys (ts : List Tri) (F : Nat → Nat → ℝ) :
    ((Topo.dirKeys ts).map fun h => F h.1 h.2).sum =
      (ts.map fun τ => F τ.1 τ.2.1 + F τ.2.1 τ.2.2 + F τ.2.2 τ.1).sum := by
  rw [dirKeys_eq]
  induction ts with
  | nil => simp
  | cons τ ts ih =>
    simp only [List.flatMap_cons, List.map_append, List.sum_append, ih, List.map_cons, List.sum_cons]
    simp only [triDirKeys, List.map_cons, List.map_nil, List.sum_cons, List.sum_nil]
    ring

/-- **discrete Stokes for a closed oriented mesh**: the per-triangle circulation of an antisymmetric edge quantity
    sums to zero -/
theorem circulation_sum_zero (ts : List Tri) (hc : Topo.isClosed ts = true) (ho : Topo.isOriented ts = true)
    (F : Nat → Nat → ℝ) (hF : ∀ a b, F a b = - F b a) :
    (ts.map fun τ => F τ.1 τ.2.1 + F τ.2.1 τ.2.2 + F τ.2.2 τ.1).sum = 0 := by
  rw [← sum_dirKeys]
  exact balanced_sum_zero _ (dirKeys_arcBalanced ts hc ho) F hF

/-! ### vector area and volume -/

theorem cross_antisymm (a b : V3 ℝ) : cross a b = - cross b a := by
  apply V3.ext' <;> (v3_flat; ring)

/-- twice the area vector of a triangle as a circulation of `v_a × v_b` -/
theorem triN_eq_circulation (v0 v1 v2 : V3 ℝ) :
    cross (v1 - v0) (v2 - v0) = cross v0 v1 + cross v1 v2 + cross v2 v0 := by
  apply V3.ext' <;> (v3_flat; ring)

/-- **the total vector area of a closed oriented mesh is zero** (component in every direction `c`) -/
theorem vector_area_dot_zero (vtx : Nat → V3 ℝ) (ts : List Tri) (hc : Topo.isClosed ts = true)
    (ho : Topo.isOriented ts = true) (c : V3 ℝ) :
    (ts.map fun τ => dot c (cross (vtx τ.2.1 - vtx τ.1) (vtx τ.2.2 - vtx τ.1))).sum = 0 := by
  have h := circulation_sum_zero ts hc ho (fun a b => dot c (cross (vtx a) (vtx b)))
    (fun a b => by v3_flat; ring)
  rw [← h]
  congr 1
  apply List.map_congr_left
  intro τ _
  rw [triN_eq_circulation]
  v3_flat; ring

/-- **the total vector area of a closed oriented mesh is zero** (as a vector) -/
theorem vector_area_zero (vtx : Nat → V3 ℝ) (ts : List Tri) (hc : Topo.isClosed ts = true)
    (ho : Topo.isOriented ts = true) :
    (ts.map fun τ => cross (vtx τ.2.1 - vtx τ.1) (vtx τ.2.2 - vtx τ.1)).sum = (0 : V3 ℝ) := by
  apply V3.ext'
  · rw [v3_sum_x, v3_zero_x]
    have := vector_area_dot_zero vtx ts hc ho ⟨1, 0, 0⟩
    simpa [dot] using this
  · rw [v3_sum_y, v3_zero_y]
    have := vector_area_dot_zero vtx ts hc ho ⟨0, 1, 0⟩
    simpa [dot] using this
  · rw [v3_sum_z, v3_zero_z]
    have := vector_area_dot_zero vtx ts hc ho ⟨0, 0, 1⟩
    simpa [dot] using this

/-- per triangle: moving the origin by `c` changes the signed-volume integrand by `c · (2 × area vector)` -/
theorem volume_integrand_translate (v0 v1 v2 c : V3 ℝ) :
    dot (v0 + c) (cross ((v1 + c) - (v0 + c)) ((v2 + c) - (v0 + c))) =
      dot v0 (cross (v1 - v0) (v2 - v0)) + dot c (cross (v1 - v0) (v2 - v0)) := by
  v3_flat; ring

/-- **translation invariance of the divergence-theorem volume** of a closed oriented mesh -/
theorem volume_translation_inv (vtx : Nat → V3 ℝ) (ts : List Tri) (hc : Topo.isClosed ts = true)
    (ho : Topo.isOriented ts = true) (c : V3 ℝ) :
    Measures.volumeSum (fun i => vtx i + c) ts = Measures.volumeSum vtx ts := by
  unfold Measures.volumeSum
  simp only []
  congr 1
  have hz := vector_area_dot_zero vtx ts hc ho c
  have hsplit : (ts.map fun τ : Tri => dot (vtx τ.1 + c)
        (cross (vtx τ.2.1 + c - (vtx τ.1 + c)) (vtx τ.2.2 + c - (vtx τ.1 + c)))).sum
      = (ts.map fun τ : Tri => dot (vtx τ.1) (cross (vtx τ.2.1 - vtx τ.1) (vtx τ.2.2 - vtx τ.1))).sum
        + (ts.map fun τ : Tri => dot c (cross (vtx τ.2.1 - vtx τ.1) (vtx τ.2.2 - vtx τ.1))).sum := by
    rw [← List.sum_map_add]
    congr 1
    apply List.map_congr_left
    intro τ _
    exact volume_integrand_translate _ _ _ _
  rw [hsplit, hz, add_zero]

/-- `volume()` itself (with its guards) is translation invariant, for every triangle list -/
theorem volume_translation_inv' (vtx : Nat → V3 ℝ) (ts : List Tri) (c : V3 ℝ) :
    Measures.volume (fun i => vtx i + c) ts = Measures.volume vtx ts := by
  unfold Measures.volume
  by_cases hc : Topo.isClosed ts = true
  · by_cases ho : Topo.isOriented ts = true
    · simp only [hc, ho, Bool.not_true, Bool.false_eq_true, if_false, volume_translation_inv vtx ts hc ho c]
    · simp only [Bool.not_eq_true] at ho
      simp [hc, ho]
  · simp only [Bool.not_eq_true] at hc
    simp [hc]

/-! ### non-vacuity: the boundary of a tetrahedron -/

open LapyVerif.Props.C09 (tetra) in
example : Topo.isClosed tetra = true ∧ Topo.isOriented tetra = true := by decide

open LapyVerif.Props.C09 (tetra) in
example (vtx : Nat → V3 ℝ) (c : V3 ℝ) :
    Measures.volume (fun i => vtx i + c) tetra = .ok (Measures.volumeSum vtx tetra) := by
  rw [volume_translation_inv', volume_closed vtx tetra (by decide) (by decide)]

/-- the hypothesis matters: for a single triangle (open) the sum does depend on the origin -/
example : Measures.volumeSum (fun i => vtx3 (⟨0, 0, 0⟩ : V3 ℝ) ⟨1, 0, 0⟩ ⟨0, 1, 0⟩ i + ⟨0, 0, 6⟩) [(0, 1, 2)] = 1 ∧
    Measures.volumeSum (vtx3 (⟨0, 0, 0⟩ : V3 ℝ) ⟨1, 0, 0⟩ ⟨0, 1, 0⟩) [(0, 1, 2)] = 0 := by
  constructor <;> (simp only [Measures.volumeSum, Measures.c, vtx3, List.map_cons, List.map_nil, List.sum_cons,
    List.sum_nil]; v3_flat; norm_num)

end LapyVerif.Props.C13
