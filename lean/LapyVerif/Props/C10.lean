import Mathlib.Tactic.Ring
import Mathlib.Tactic.Linarith
import LapyVerif.Lemmas.RealInst
import LapyVerif.Lemmas.BridgeTac
import LapyVerif.Lemmas.OrientFirstColumn
/-
  C10 — `orient_`.
-/
namespace LapyVerif.Props.C10
open LapyVerif Orient Topo OrientLemmas OrientFlood OrientMesh OrientFirstColumn

/-! ## 1. what `orient_` may change -/

/-- the vertices of a triangle as a list (compared up to permutation = as a multiset) -/
def verts (τ : Tri) : List Nat := [τ.1, τ.2.1, τ.2.2]

theorem swap01_vertexSet (τ : Tri) : (verts (swap01 τ)).Perm (verts τ) := List.Perm.swap _ _ _
theorem swap12_vertexSet (τ : Tri) : (verts (swap12 τ)).Perm (verts τ) := (List.Perm.swap _ _ _).cons _

/-- Phase 1 only flips (swap01) a set of triangles, in place, and returns the size of that set. -/
theorem consistent_flipBy {ts ts' : List Tri} {n : Nat} (h : consistent ts = some (some (ts', n))) :
    ∃ f : Nat → Bool, ts' = flipBy f ts ∧ n = flipCount f ts := by
  unfold consistent at h
  split at h
  · cases h; exact ⟨fun _ => false, (flipBy_false ts).symm, by simp [flipCount]⟩
  · dsimp only at h
    split at h
    · cases h
    · rename_i hor hchk
      split at h
      · cases h
      · rename_i v hv
        cases h
        -- the flood returns a vector whose indices are a sublist of `range tdim`, and `tdim ≤ ts.length`
        have hne : ts ≠ [] := by
          rintro rfl
          simp [halfEdgeRows, edgeCounts, maxL] at hchk
        have hlen : 0 < ts.length := List.length_pos_iff.2 hne
        have hidx := flood_idxOK _ _ _ _ _ _ (column_idxOK _ _ _) hv
        have htd := foldl_pairs_lt (neighbourPairs (halfEdgeRows ts) (edgeCounts (halfEdgeRows ts))) 0 ts.length hlen
          (fun p hp => pairs_idx_lt hp)
        have hsub : ((v.filter fun e => e.2 == -1).map (·.1)).Sublist (List.range ts.length) := by
          refine ((List.filter_sublist.map _).trans hidx).trans ?_
          exact List.range_sublist.2 (by omega)
        refine ⟨fun k => decide (k ∈ (v.filter fun e => e.2 == -1).map (·.1)), ?_, ?_⟩
        · simp [flipBy, List.contains_eq_mem]
        · simp only [flipCount]
          rw [filter_mem_of_sublist hsub List.nodup_range]

/-- `consistent` keeps the number and the order of the triangles; triangle `k` is either untouched or has its first
    two vertices swapped (so its vertex set is unchanged), and `n` counts the swapped ones. -/
theorem consistent_preserves {ts ts' : List Tri} {n : Nat} (h : consistent ts = some (some (ts', n))) :
    ts'.length = ts.length ∧
    ∃ f : Nat → Bool, (∀ k (h : k < ts.length) (h' : k < ts'.length), ts'[k] = if f k then swap01 ts[k] else ts[k]) ∧
      n = ((List.range ts.length).filter f).length := by
  obtain ⟨f, rfl, rfl⟩ := consistent_flipBy h
  exact ⟨flipBy_length f ts, f, fun k hk _ => flipBy_getElem f ts k hk, rfl⟩

theorem consistent_vertexSet {ts ts' : List Tri} {n : Nat} (h : consistent ts = some (some (ts', n)))
    (k : Nat) (hk : k < ts.length) (hk' : k < ts'.length) : (verts ts'[k]).Perm (verts ts[k]) := by
  obtain ⟨_, f, hf, _⟩ := consistent_preserves h
  rw [hf k hk hk']
  split
  · exact swap01_vertexSet _
  · exact List.Perm.refl _

section orient
set_option linter.unusedSectionVars false
variable {K : Type} [Zero K] [Add K] [Sub K] [Mul K] [Div K] [Neg K] [NatCast K] [HasSqrt K]
variable [LT K] [DecidableRel (α := K) (· < ·)]

/-- `orient` returns only a triangle list and a count (`Result.ok ts' n`): the vertex function is not part of the
    result.  The list is the input with a set `f` of triangles flipped (swap01) and then, if `g`, every triangle
    reversed (swap12); the count is `|f|`, or `#triangles − |f|` after the global reversal. -/
theorem orient_shape (vtx : Nat → V3 K) {ts ts' : List Tri} {n : Nat} (h : orient vtx ts = .ok ts' n) :
    ∃ (f : Nat → Bool) (g : Bool), ts' = (flipBy f ts).map (if g then swap12 else id) ∧
      n = if g then ts.length - flipCount f ts else flipCount f ts := by
  unfold orient at h
  split at h
  · cases h
  · cases h
  · rename_i ts1 fl hc
    obtain ⟨f, rfl, rfl⟩ := consistent_flipBy hc
    split at h
    · cases h
    · split at h
      · cases h; exact ⟨f, true, rfl, by simp [flipBy_length]⟩
      · cases h; exact ⟨f, false, by simp, rfl⟩

theorem orient_preserves (vtx : Nat → V3 K) {ts ts' : List Tri} {n : Nat} (h : orient vtx ts = .ok ts' n) :
    ts'.length = ts.length ∧
    ∀ k (hk : k < ts.length) (hk' : k < ts'.length),
      ts'[k] = ts[k] ∨ ts'[k] = swap01 ts[k] ∨ ts'[k] = swap12 ts[k] ∨ ts'[k] = swap12 (swap01 ts[k]) := by
  obtain ⟨f, g, rfl, _⟩ := orient_shape vtx h
  refine ⟨by simp [flipBy_length], fun k hk hk' => ?_⟩
  rw [List.getElem_map, flipBy_getElem f ts k hk]
  cases g <;> cases f k <;> simp

theorem orient_vertexSet (vtx : Nat → V3 K) {ts ts' : List Tri} {n : Nat} (h : orient vtx ts = .ok ts' n)
    (k : Nat) (hk : k < ts.length) (hk' : k < ts'.length) : (verts ts'[k]).Perm (verts ts[k]) := by
  rcases (orient_preserves vtx h).2 k hk hk' with h | h | h | h <;> rw [h]
  · exact swap01_vertexSet _
  · exact swap12_vertexSet _
  · exact (swap12_vertexSet _).trans (swap01_vertexSet _)

/-- `τ'` is a cyclic rotation of `τ` (same winding) -/
def SameWinding (τ τ' : Tri) : Prop := τ' = τ ∨ τ' = (τ.2.1, τ.2.2, τ.1) ∨ τ' = (τ.2.2, τ.1, τ.2.1)
/-- `τ'` has the same vertices in the opposite cyclic order -/
def Reversed (τ τ' : Tri) : Prop := SameWinding (swap01 τ) τ'

/-- for a proper triangle the two notions exclude each other -/
theorem not_same_and_reversed {τ τ' : Tri} (hτ : τ.1 ≠ τ.2.1 ∧ τ.2.1 ≠ τ.2.2 ∧ τ.2.2 ≠ τ.1) :
    ¬ (SameWinding τ τ' ∧ Reversed τ τ') := by
  obtain ⟨a, b, c⟩ := τ
  obtain ⟨a', b', c'⟩ := τ'
  simp only [SameWinding, Reversed, swap01, Prod.mk.injEq] at hτ ⊢
  omega

/-- **the returned count** is the number of triangles whose winding differs from before: there is a set `d` of
    indices such that the triangles in `d` come back reversed, the others with the same winding, and `n = |d|`. -/
theorem orient_count (vtx : Nat → V3 K) {ts ts' : List Tri} {n : Nat} (h : orient vtx ts = .ok ts' n) :
    ∃ d : Nat → Bool,
      (∀ k (hk : k < ts.length) (hk' : k < ts'.length),
        if d k = true then Reversed ts[k] ts'[k] else SameWinding ts[k] ts'[k]) ∧
      n = ((List.range ts.length).filter d).length := by
  obtain ⟨f, g, rfl, rfl⟩ := orient_shape vtx h
  refine ⟨fun k => f k != g, fun k hk hk' => ?_, ?_⟩
  · rw [List.getElem_map, flipBy_getElem f ts k hk]
    generalize ts[k] = τ
    obtain ⟨a, b, c⟩ := τ
    cases g <;> cases hf : f k <;> simp [hf, SameWinding, Reversed, swap01, swap12]
  · cases g
    · simp [flipCount]
    · have := List.length_eq_length_filter_add (l := List.range ts.length) f
      simp only [List.length_range] at this
      simp only [flipCount, ↓reduceIte, Bool.bne_true]
      omega

end orient

/-! ## 2. idempotence core, reversal of all triangles, sign of the volume -/

/-- an oriented mesh passes through phase 1 untouched, with count 0 -/
theorem orient_of_oriented {ts : List Tri} (h : isOriented ts = true) : consistent ts = some (some (ts, 0)) := by
  simp [consistent, h]

/-- the summand of the divergence-theorem volume -/
noncomputable def volTerm (vtx : Nat → V3 ℝ) (τ : Tri) : ℝ :=
  V3.dot (vtx τ.1) (V3.cross (vtx τ.2.1 - vtx τ.1) (vtx τ.2.2 - vtx τ.1))

theorem volTerm_swap12 (vtx : Nat → V3 ℝ) (τ : Tri) : volTerm vtx (swap12 τ) = - volTerm vtx τ := by
  simp only [volTerm, swap12]
  v3_flat
  ring

theorem sum_volTerm_swap12 (vtx : Nat → V3 ℝ) (ts : List Tri) :
    ((ts.map swap12).map (volTerm vtx)).sum = - (ts.map (volTerm vtx)).sum := by
  induction ts with
  | nil => simp
  | cons τ ts ih =>
    simp only [List.map_cons, List.sum_cons, ih, volTerm_swap12]
    ring

theorem volumeSum_swap12 (vtx : Nat → V3 ℝ) (ts : List Tri) :
    Measures.volumeSum vtx (ts.map swap12) = - Measures.volumeSum vtx ts := by
  have h := sum_volTerm_swap12 vtx ts
  unfold volTerm at h
  unfold Measures.volumeSum
  rw [h, neg_div]

theorem isClosed_map_swap12 (ts : List Tri) : isClosed (ts.map swap12) = isClosed ts :=
  OrientLemmas.isClosed_map_swap12 ts

theorem isOriented_map_swap12 (ts : List Tri) : isOriented (ts.map swap12) = isOriented ts :=
  OrientLemmas.isOriented_map_swap12 ts

/-- after `orient`, a closed mesh encloses a non-negative volume (and `volume` does not raise) -/
theorem orient_volume_nonneg (vtx : Nat → V3 ℝ) {ts ts' : List Tri} {n : Nat} (h : orient vtx ts = .ok ts' n)
    (hcl : isClosed ts' = true) : ∃ vol, Measures.volume vtx ts' = .ok vol ∧ 0 ≤ vol := by
  unfold orient at h
  split at h
  · cases h
  · cases h
  · rename_i ts1 fl hc
    split at h
    · cases h
    · rename_i vol hvol
      split at h
      · rename_i hneg
        cases h
        rw [isClosed_map_swap12] at hcl
        unfold Measures.volume at hvol ⊢
        rw [isClosed_map_swap12, isOriented_map_swap12]
        simp only [hcl, Bool.not_true, Bool.false_eq_true, ↓reduceIte] at hvol ⊢
        split at hvol
        · cases hvol
        · rename_i hno
          cases hvol
          rw [if_neg hno]
          refine ⟨_, rfl, ?_⟩
          rw [volumeSum_swap12]
          linarith
      · rename_i hneg
        cases h
        exact ⟨vol, hvol, not_lt.1 hneg⟩

/-- second call: if the first call returned an oriented list, the second returns it unchanged with count 0.
    (For a closed result the orientation hypothesis is automatic, see `orient_idempotent_closed`.) -/
theorem orient_idempotent_of_oriented (vtx : Nat → V3 ℝ) {ts ts' : List Tri} {n : Nat} (h : orient vtx ts = .ok ts' n)
    (hor : isOriented ts' = true) : orient vtx ts' = .ok ts' 0 := by
  have hc := orient_of_oriented hor
  by_cases hcl : isClosed ts' = true
  · obtain ⟨vol, hvol, hpos⟩ := orient_volume_nonneg vtx h hcl
    simp only [orient, hc, hvol]
    rw [if_neg (not_lt.2 hpos)]
  · have hvol : Measures.volume vtx ts' = .ok 0 := by simp [Measures.volume, hcl]
    simp only [orient, hc, hvol]
    rw [if_neg (lt_irrefl _)]

/-- what `orient` returns for a closed result is always oriented (otherwise `volume` would have raised) -/
theorem orient_closed_oriented (vtx : Nat → V3 ℝ) {ts ts' : List Tri} {n : Nat} (h : orient vtx ts = .ok ts' n)
    (hcl : isClosed ts' = true) : isOriented ts' = true := by
  obtain ⟨vol, hvol, _⟩ := orient_volume_nonneg vtx h hcl
  unfold Measures.volume at hvol
  simp only [hcl, Bool.not_true, Bool.false_eq_true, ↓reduceIte] at hvol
  split at hvol
  · cases hvol
  · rename_i h; simpa using h

theorem orient_idempotent_closed (vtx : Nat → V3 ℝ) {ts ts' : List Tri} {n : Nat} (h : orient vtx ts = .ok ts' n)
    (hcl : isClosed ts' = true) : orient vtx ts' = .ok ts' 0 :=
  orient_idempotent_of_oriented vtx h (orient_closed_oriented vtx h hcl)

/-! ## 3. non-manifold edges are rejected -/

theorem count_dir_both (ts : List Tri) (a b : Nat) :
    (ts.flatMap fun τ => dirEdges τ ++ (dirEdges τ).map Prod.swap).count (a, b)
      = (dirKeys ts).count (a, b) + (dirKeys ts).count (b, a) := by
  rw [dirKeys_eq]
  induction ts with
  | nil => rfl
  | cons τ ts ih =>
    simp only [List.flatMap_cons, List.count_append, ih]
    have : ((dirEdges τ).map Prod.swap).count (a, b) = (dirEdges τ).count (b, a) := by
      obtain ⟨t0, t1, t2⟩ := τ
      simp only [dirEdges, List.map_cons, List.map_nil, Prod.swap, List.count_cons, List.count_nil,
        beq_iff_eq, Prod.mk.injEq]
      have e1 : (t1 = a ∧ t0 = b) ↔ (t0 = b ∧ t1 = a) := and_comm
      have e2 : (t2 = a ∧ t1 = b) ↔ (t1 = b ∧ t2 = a) := and_comm
      have e3 : (t0 = a ∧ t2 = b) ↔ (t2 = b ∧ t0 = a) := and_comm
      simp only [e1, e2, e3]
    omega

/-- an edge `{a,b}` that lies in three triangles forces two of them to traverse it in the same direction -/
theorem not_oriented_of_three {ts : List Tri} {a b : Nat} (hab : a ≠ b)
    (h3 : 3 ≤ ts.countP fun τ => decide (a ∈ verts τ ∧ b ∈ verts τ)) : isOriented ts = false := by
  rw [← Bool.not_eq_true, isOriented_iff, List.nodup_iff_count_le_one]
  rintro ⟨_, hc⟩
  have h := count_flatMap_ge_countP ts (fun τ => dirEdges τ ++ (dirEdges τ).map Prod.swap) (a, b)
    (fun τ => decide (a ∈ verts τ ∧ b ∈ verts τ)) (by
      intro τ _ hτ
      simp only [decide_eq_true_eq] at hτ
      apply List.count_pos_iff.2
      rw [List.mem_append, List.mem_map]
      rcases dirEdge_of_verts hab hτ.1 hτ.2 with h | h
      · exact Or.inl h
      · exact Or.inr ⟨(b, a), h, rfl⟩)
  have e := count_dir_both ts a b
  have := hc (a, b)
  have := hc (b, a)
  omega

/-- `ValueError`: an edge contained in three or more triangles makes phase 1 (hence `orient_`) raise. -/
theorem nonmanifold_rejected {ts : List Tri} {a b : Nat} (hab : a ≠ b)
    (h3 : 3 ≤ ts.countP fun τ => decide (a ∈ verts τ ∧ b ∈ verts τ)) : consistent ts = some none := by
  have hno := not_oriented_of_three hab h3
  have hcnt : 3 ≤ (undKeys ts).count (min a b, max a b) :=
    Nat.le_trans h3 (count_flatMap_ge_countP ts undEdges _ _ (by
      intro τ _ hτ
      simp only [decide_eq_true_eq] at hτ
      exact List.count_pos_iff.2 (undEdge_of_verts hab hτ.1 hτ.2)))
  have hmax : 3 ≤ maxL ((edgeCounts (halfEdgeRows ts)).map (·.2)) := by
    refine Nat.le_trans hcnt (le_maxL ?_)
    rw [mem_cs]
    exact ⟨_, List.count_pos_iff.1 (by omega), rfl⟩
  unfold consistent
  rw [if_neg (by simp [hno])]
  dsimp only
  rw [if_pos]
  simp only [Bool.or_eq_true, bne_iff_ne, ne_eq]
  left; omega

theorem orient_nonmanifold_rejected {K : Type} [Zero K] [Add K] [Sub K] [Mul K] [Div K] [Neg K] [NatCast K] [HasSqrt K]
    [LT K] [DecidableRel (α := K) (· < ·)] (vtx : Nat → V3 K) {ts : List Tri} {a b : Nat} (hab : a ≠ b)
    (h3 : 3 ≤ ts.countP fun τ => decide (a ∈ verts τ ∧ b ∈ verts τ)) : orient vtx ts = .valueError := by
  simp [orient, nonmanifold_rejected hab h3]

/-! ## 4. the flood orients every edge-manifold orientable mesh -/

/-- every undirected edge `{a,b}` lies in at most two triangles (the complement of the hypothesis of
    `nonmanifold_rejected`) -/
def EdgeManifold (ts : List Tri) : Prop :=
  ∀ a b, a ≠ b → ts.countP (fun τ => decide (a ∈ verts τ ∧ b ∈ verts τ)) ≤ 2

/-- flipping (swap01) the triangles selected by some `s` gives an oriented list -/
def Orientable (ts : List Tri) : Prop := ∃ s : Nat → Bool, isOriented (flipBy s ts) = true

/-- each triangle shares an edge with another one -/
def EveryTriangleHasNeighbour (ts : List Tri) : Prop :=
  ∀ A (hA : A < ts.length), ∃ B, ∃ hB : B < ts.length, B ≠ A ∧
    ∃ a b, a ≠ b ∧ a ∈ verts ts[A] ∧ b ∈ verts ts[A] ∧ a ∈ verts ts[B] ∧ b ∈ verts ts[B]

/-- triangles `A` and `B` have a common edge -/
def ShareEdge (ts : List Tri) (A B : Nat) : Prop :=
  ∃ (hA : A < ts.length) (hB : B < ts.length) (a b : Nat),
    a ≠ b ∧ a ∈ verts ts[A] ∧ b ∈ verts ts[A] ∧ a ∈ verts ts[B] ∧ b ∈ verts ts[B]

theorem verts_of_undEdge {τ : Tri} {e : Nat × Nat} (he : e ∈ undEdges τ) : e.1 ∈ verts τ ∧ e.2 ∈ verts τ := by
  obtain ⟨t0, t1, t2⟩ := τ
  simp only [undEdges, List.mem_cons, List.not_mem_nil, or_false] at he
  simp only [verts, List.mem_cons, List.not_mem_nil, or_false]
  rcases he with rfl | rfl | rfl <;> simp only <;> omega

theorem ne_of_undEdge {τ : Tri} (hτ : TriDistinct τ) {e : Nat × Nat} (he : e ∈ undEdges τ) : e.1 ≠ e.2 := by
  obtain ⟨t0, t1, t2⟩ := τ
  simp only [TriDistinct] at hτ
  simp only [undEdges, List.mem_cons, List.not_mem_nil, or_false] at he
  rcases he with rfl | rfl | rfl <;> simp only <;> omega

theorem undEdges_nodup {τ : Tri} (hτ : TriDistinct τ) : (undEdges τ).Nodup := by
  obtain ⟨t0, t1, t2⟩ := τ
  simp only [TriDistinct] at hτ
  simp only [undEdges, List.nodup_cons, List.mem_cons, Prod.mk.injEq, List.not_mem_nil, or_false, not_false_eq_true,
    List.nodup_nil, and_true]
  omega

theorem count_flatMap_le_countP {α β : Type} [BEq β] [LawfulBEq β] (l : List α) (f : α → List β) (x : β)
    (p : α → Bool) (hp : ∀ a ∈ l, (f a).count x ≤ (if p a = true then 1 else 0)) :
    (l.flatMap f).count x ≤ l.countP p := by
  induction l with
  | nil => simp
  | cons a l ih =>
    rw [List.flatMap_cons, List.count_append, List.countP_cons]
    have h1 := ih (fun b hb => hp b (List.mem_cons_of_mem _ hb))
    have h2 := hp a List.mem_cons_self
    omega

theorem manifold_of_edgeManifold {ts : List Tri} (hd : ∀ τ ∈ ts, TriDistinct τ) (hm : EdgeManifold ts)
    (e : Nat × Nat) : (undKeys ts).count e ≤ 2 := by
  by_cases he : e.1 = e.2
  · have : (undKeys ts).count e = 0 := by
      apply List.count_eq_zero_of_not_mem
      unfold undKeys
      rw [List.mem_flatMap]
      rintro ⟨τ, hτ, hmem⟩
      exact ne_of_undEdge (hd τ hτ) hmem he
    omega
  · refine Nat.le_trans (count_flatMap_le_countP ts undEdges e _ ?_) (hm e.1 e.2 he)
    intro τ hτ
    by_cases hmem : e ∈ undEdges τ
    · rw [List.count_eq_one_of_mem (undEdges_nodup (hd τ hτ)) hmem, if_pos]
      simpa using verts_of_undEdge hmem
    · rw [List.count_eq_zero_of_not_mem hmem]; omega

theorem share_of_shareEdge {ts : List Tri} {A B : Nat} (h : ShareEdge ts A B) : Share ts A B := by
  obtain ⟨hA, hB, a, b, hab, h1, h2, h3, h4⟩ := h
  exact ⟨hA, hB, _, undEdge_of_verts hab h1 h2, undEdge_of_verts hab h3 h4⟩

theorem shareEdge_of_share {ts : List Tri} (hd : ∀ τ ∈ ts, TriDistinct τ) {A B : Nat} (h : Share ts A B) :
    ShareEdge ts A B := by
  obtain ⟨hA, hB, e, h1, h2⟩ := h
  exact ⟨hA, hB, e.1, e.2, ne_of_undEdge (hd _ (List.getElem_mem _)) h1, (verts_of_undEdge h1).1, (verts_of_undEdge h1).2,
    (verts_of_undEdge h2).1, (verts_of_undEdge h2).2⟩

/-- the hypotheses of the property in the form used by the lemma files -/
theorem meshOK_of {ts : List Tri} (hd : ∀ τ ∈ ts, TriDistinct τ) (hm : EdgeManifold ts) (hne : ts ≠ []) {s : Nat → Bool}
    (hs : isOriented (flipBy s ts) = true) : MeshOK ts s where
  distinct := hd
  manifold := manifold_of_edgeManifold hd hm
  oriented := (isOriented_flipBy_iff hd hne s).1 hs

theorem allShare_of {ts : List Tri} (h : EveryTriangleHasNeighbour ts) : AllShare ts := by
  intro A hA
  obtain ⟨B, hB, hne, a, b, hab, h1, h2, h3, h4⟩ := h A hA
  exact ⟨B, hne, share_of_shareEdge ⟨hA, hB, a, b, hab, h1, h2, h3, h4⟩⟩

/-- **`pair_sign`.**  Every entry `(A, B, w)` of the signed neighbour list has `w = +1` iff the orientation witness
    flips both or neither of `A`, `B`; moreover `A ≠ B` are indices of triangles with a common edge. -/
theorem pair_sign {ts : List Tri} (hd : ∀ τ ∈ ts, TriDistinct τ) (hm : EdgeManifold ts) (hne : ts ≠ []) {s : Nat → Bool}
    (hs : isOriented (flipBy s ts) = true) {A B : Nat} {w : Int}
    (hp : (A, B, w) ∈ neighbourPairs (halfEdgeRows ts) (edgeCounts (halfEdgeRows ts))) :
    w = (if s A = s B then 1 else -1) ∧ A ≠ B ∧ ShareEdge ts A B := by
  have h := meshOK_of hd hm hne hs
  have hw := OrientMesh.pair_sign h hp
  obtain ⟨h1, h2⟩ := share_of_pair hd hp
  refine ⟨?_, h1, shareEdge_of_share hd h2⟩
  simp only [sgnOf] at hw
  rw [hw]
  cases s A <;> cases s B <;> simp

/-- conversely every pair of different triangles with a common edge is in the neighbour list -/
theorem pair_complete {ts : List Tri} (hd : ∀ τ ∈ ts, TriDistinct τ) (hm : EdgeManifold ts) (hne : ts ≠ []) {s : Nat → Bool}
    (hs : isOriented (flipBy s ts) = true) {A B : Nat} (hAB : A ≠ B) (hsh : ShareEdge ts A B) :
    ∃ w, (A, B, w) ∈ neighbourPairs (halfEdgeRows ts) (edgeCounts (halfEdgeRows ts)) ∨
         (B, A, w) ∈ neighbourPairs (halfEdgeRows ts) (edgeCounts (halfEdgeRows ts)) := by
  obtain ⟨⟨p, hp, hk⟩, _⟩ := adj_of_share (meshOK_of hd hm hne hs) hAB (share_of_shareEdge hsh)
  obtain ⟨p1, p2, w⟩ := p
  rcases hk with ⟨rfl, rfl⟩ | ⟨rfl, rfl⟩
  · exact ⟨w, Or.inl hp⟩
  · exact ⟨w, Or.inr hp⟩

section flood
variable {ts : List Tri} {s : Nat → Bool}

/-- **`flood_inv` (as it holds for the model: `flood_inv_partial`).**
    The statement "every stored entry is `(k, ε)` with `ε = ±1`" is false for the first column and right after a
    re-seeding: `tmat[:,seed]` stores `±3` for a triangle that shares all three edges with the seed (e.g.
    `[(0,1,2),(0,2,1)]` gives column `[(0,1),(1,3)]`).  What holds is: with `σ k = -1` if `s k` else `+1`, and `g` a
    sign that is constant along neighbour pairs (it is `σ seed` on the component of each seed),
    * the first column has `Inv σ g`, i.e. every stored value `x` at `k` has the sign `σ k * g k` (so is non-zero);
    * `step` preserves `Inv σ g`, produces only values `±1`, and keeps every index already stored — no cancellation;
    * re-seeding at an unreached `seed` when the support is closed under adjacency preserves `Inv` for an updated `g`. -/
theorem flood_inv_partial (h : MeshOK ts s) :
    (Inv (sgnOf s) (fun _ => sgnOf s 0) (column ts.length (pairsOf ts) 0)) ∧
    (∀ g v, Gauge (pairsOf ts) g → Inv (sgnOf s) g v → IdxOK ts.length v →
      Inv (sgnOf s) g (step ts.length (pairsOf ts) v) ∧ Norm (step ts.length (pairsOf ts) v) ∧
      supp v ⊆ supp (step ts.length (pairsOf ts) v)) ∧
    (∀ g v seed, Gauge (pairsOf ts) g → Inv (sgnOf s) g v → IdxOK ts.length v → Closed (pairsOf ts) v →
      seed < ts.length → seed ∉ supp v →
      ∃ g', Gauge (pairsOf ts) g' ∧ Inv (sgnOf s) g' (addVec ts.length v (column ts.length (pairsOf ts) seed)) ∧
        v.length + 1 ≤ (addVec ts.length v (column ts.length (pairsOf ts) seed)).length) := by
  have hP := pairsOK h
  refine ⟨?_, ?_, ?_⟩
  · rintro ⟨k, x⟩ he
    have hpos : 0 < ts.length := by
      have := (column_idxOK _ _ _).lt he; simp only at this; omega
    exact column_pos hP hpos he
  · intro g v hg hinv hv
    exact ⟨(step_inv_norm hP hg hinv).1, (step_inv_norm hP hg hinv).2, supp_subset_step hP hg hinv hv⟩
  · intro g v seed hg hinv hv hcl hseed hns
    exact reseed hP hg hinv hv hcl hseed hns

/-- **`flood_progress`.**  A step that does not enlarge the stored vector leaves a support closed under adjacency
    (so the next round re-seeds in a new component), and a step never shrinks it. -/
theorem flood_progress (h : MeshOK ts s) {g : Nat → Int} {v : SVec} (hg : Gauge (pairsOf ts) g)
    (hinv : Inv (sgnOf s) g v) (hv : IdxOK ts.length v) :
    v.length ≤ (step ts.length (pairsOf ts) v).length ∧
    ((step ts.length (pairsOf ts) v).length = v.length → Closed (pairsOf ts) (step ts.length (pairsOf ts) v)) :=
  ⟨length_le_of_subset hv (supp_subset_step (pairsOK h) hg hinv hv), step_closed (pairsOK h) hg hinv hv⟩

/-- **`flood_terminates`** with the proviso on the first column.  With the fuel `2*tdim+2` the flood returns a vector
    whose support is all of `range tdim`, whose values are `±1` and equal `σ k * g k` for a sign `g` constant along
    neighbour pairs (`tdim = ts.length` when every triangle has a neighbour: `OrientMesh.tdim_eq`).
    Proviso `h0`: the first column is not a full vector with an entry `≠ ±1` (then the loop body never runs). -/
theorem flood_terminates_of_column (h : MeshOK ts s) (hne : ts ≠ [])
    (h0 : Norm (column ts.length (pairsOf ts) 0) ∨ (column ts.length (pairsOf ts) 0).length < ts.length) :
    ∃ v g, flood ts.length (pairsOf ts) (2 * ts.length + 2) (column ts.length (pairsOf ts) 0) 0 = some v ∧
      v.map (·.1) = List.range ts.length ∧ Gauge (pairsOf ts) g ∧ ∀ e ∈ v, e.2 = sgnOf s e.1 * g e.1 := by
  obtain ⟨v, hfl, hidx, hlen, ⟨g, hg, hinv⟩, hnorm⟩ := flood_spec (pairsOK h) (List.length_pos_iff.2 hne) h0
  refine ⟨v, g, hfl, hidx.eq_of_length (by simp [hlen]), hg, ?_⟩
  intro e he
  have h1 := hinv e he
  have h2 := hnorm e he
  have h3 := pm_mul ((pairsOK h).sgn e.1) (hg.sgn e.1)
  have key : ∀ c x : Int, (c = 1 ∨ c = -1) → (x = 1 ∨ x = -1) → 0 < c * x → x = c := by
    intro c x hc hx hpos
    rcases hc with rfl | rfl <;> rcases hx with rfl | rfl <;> revert hpos <;> decide
  exact key _ _ h3 h2 h1

/-- **`flood_terminates_partial`**: the same for every mesh except the same-vertex two-triangle pillow (for which the
    returned vector is `[(0,1),(1,±3)]`, not `±1`-valued: see the counterexample in section 5). -/
theorem flood_terminates_partial (h : MeshOK ts s) (hne : ts ≠ [])
    (hpillow : ∀ (h2 : ts.length = 2), ∃ x ∈ verts (ts[0]'(by omega)), x ∉ verts (ts[1]'(by omega))) :
    ∃ v g, flood ts.length (pairsOf ts) (2 * ts.length + 2) (column ts.length (pairsOf ts) 0) 0 = some v ∧
      v.map (·.1) = List.range ts.length ∧ Gauge (pairsOf ts) g ∧ ∀ e ∈ v, e.2 = sgnOf s e.1 * g e.1 :=
  flood_terminates_of_column h hne (column0_ok h hpillow)

end flood

/-- the version with the proviso stated on the first column -/
theorem consistent_oriented_of_column {ts : List Tri} (hd : ∀ τ ∈ ts, TriDistinct τ) (hm : EdgeManifold ts)
    (hor : Orientable ts) (hall : EveryTriangleHasNeighbour ts) (hne : ts ≠ [])
    (h0 : Norm (column ts.length (pairsOf ts) 0) ∨ (column ts.length (pairsOf ts) 0).length < ts.length) :
    ∃ ts' n, consistent ts = some (some (ts', n)) ∧ isOriented ts' = true := by
  obtain ⟨s, hs⟩ := hor
  exact consistent_oriented_core (meshOK_of hd hm hne hs) hne (allShare_of hall) h0

/-- **`consistent_oriented_partial`.**  Differs from the intended `consistent_oriented` by two extra hypotheses:
    * `hne : ts ≠ []` — `consistent [] = some none`: an empty mesh raises `ValueError` (`max(c)` of nothing is not 2);
    * `hpillow`: the mesh is not the two-triangle "pillow" whose triangles have the same three vertices.
    COUNTEREXAMPLE without `hpillow`: `ts = [(0,1,2),(0,1,2)]` has distinct vertices per triangle, every edge in
    exactly two triangles, is orientable (flip one of the two) and each triangle has a neighbour, but `tdim = 2` and
    the first column `tmat[:,0]` is `[(0,1),(1,-3)]`, already of length `tdim`; the `while` body (with its `np.sign`)
    never runs, `v == -1` selects nothing, and `consistent` returns the input unchanged with count 0 — not oriented
    (`example` in section 5).  With `[(0,1,2),(1,0,2)]` (already oriented) the early exit hides the problem. -/
theorem consistent_oriented_partial {ts : List Tri} (hd : ∀ τ ∈ ts, TriDistinct τ) (hm : EdgeManifold ts)
    (hor : Orientable ts) (hall : EveryTriangleHasNeighbour ts) (hne : ts ≠ [])
    (hpillow : ∀ (h2 : ts.length = 2), ∃ x ∈ verts (ts[0]'(by omega)), x ∉ verts (ts[1]'(by omega))) :
    ∃ ts' n, consistent ts = some (some (ts', n)) ∧ isOriented ts' = true := by
  obtain ⟨s, hs⟩ := hor
  have h := meshOK_of hd hm hne hs
  exact consistent_oriented_core h hne (allShare_of hall) (column0_ok h hpillow)

/-- in particular: every such mesh with at least three triangles -/
theorem consistent_oriented_of_three {ts : List Tri} (hd : ∀ τ ∈ ts, TriDistinct τ) (hm : EdgeManifold ts)
    (hor : Orientable ts) (hall : EveryTriangleHasNeighbour ts) (h3 : 3 ≤ ts.length) :
    ∃ ts' n, consistent ts = some (some (ts', n)) ∧ isOriented ts' = true :=
  consistent_oriented_partial hd hm hor hall (by rintro rfl; simp at h3) (fun h2 => by omega)

/-! ### the whole of `orient_` -/

/-- **The property C10 for `orient` (over ℝ).**  For an edge-manifold, orientable list of proper triangles in which
    every triangle has a neighbour (any number of components; not empty, not the same-vertex pillow), `orient`
    terminates without error; the result has the same number of triangles, in the same order, each with the same
    vertex set; it is oriented; if it is closed its volume is non-negative; a second call returns it unchanged with
    count 0.  (The vertex function is not part of the result, so the vertex array is untouched by construction; the
    count is characterised by `orient_shape`.) -/
theorem orient_spec_partial (vtx : Nat → V3 ℝ) {ts : List Tri} (hd : ∀ τ ∈ ts, TriDistinct τ) (hm : EdgeManifold ts)
    (hor : Orientable ts) (hall : EveryTriangleHasNeighbour ts) (hne : ts ≠ [])
    (hpillow : ∀ (h2 : ts.length = 2), ∃ x ∈ verts (ts[0]'(by omega)), x ∉ verts (ts[1]'(by omega))) :
    ∃ ts' n, orient vtx ts = .ok ts' n ∧ ts'.length = ts.length ∧
      (∀ k (hk : k < ts.length) (hk' : k < ts'.length), (verts ts'[k]).Perm (verts ts[k])) ∧
      isOriented ts' = true ∧
      (isClosed ts' = true → ∃ vol, Measures.volume vtx ts' = .ok vol ∧ 0 ≤ vol) ∧
      orient vtx ts' = .ok ts' 0 := by
  obtain ⟨ts1, fl, hc, hor1⟩ := consistent_oriented_partial hd hm hor hall hne hpillow
  have hvol : ∃ vol, Measures.volume vtx ts1 = .ok vol := by
    unfold Measures.volume
    split
    · exact ⟨_, rfl⟩
    · rw [if_neg (by simp [hor1])]; exact ⟨_, rfl⟩
  obtain ⟨vol, hvol⟩ := hvol
  have hres : ∃ ts' n, orient vtx ts = .ok ts' n ∧ isOriented ts' = true := by
    unfold orient
    simp only [hc, hvol]
    split
    · exact ⟨_, _, rfl, by rw [isOriented_map_swap12]; exact hor1⟩
    · exact ⟨_, _, rfl, hor1⟩
  obtain ⟨ts', n, ho, hor'⟩ := hres
  exact ⟨ts', n, ho, (orient_preserves vtx ho).1, fun k hk hk' => orient_vertexSet vtx ho k hk hk', hor',
    fun hcl => orient_volume_nonneg vtx ho hcl, orient_idempotent_of_oriented vtx ho hor'⟩

/-- **`orient_idempotent_partial`**: a second call returns 0 and changes nothing.  Differs from the unconditional
    statement by the hypotheses under which the first call is known to return an oriented list (those of
    `consistent_oriented_partial`); without any hypothesis see `orient_idempotent_of_oriented` (result oriented) and
    `orient_idempotent_closed` (result closed).  No counterexample to the unconditional statement is known: on 3000
    randomly re-wound Möbius strips (one or two components) the model returned a non-oriented list 2116 times and the
    second call always reproduced it with count 0; this is not proved. -/
theorem orient_idempotent_partial (vtx : Nat → V3 ℝ) {ts ts' : List Tri} {n : Nat}
    (hd : ∀ τ ∈ ts, TriDistinct τ) (hm : EdgeManifold ts)
    (hor : Orientable ts) (hall : EveryTriangleHasNeighbour ts) (hne : ts ≠ [])
    (hpillow : ∀ (h2 : ts.length = 2), ∃ x ∈ verts (ts[0]'(by omega)), x ∉ verts (ts[1]'(by omega)))
    (h : orient vtx ts = .ok ts' n) : orient vtx ts' = .ok ts' 0 := by
  obtain ⟨ts'', n', ho, _, _, _, _, hid⟩ := orient_spec_partial vtx hd hm hor hall hne hpillow
  rw [ho] at h
  cases h
  exact hid

/-! ## 5. non-vacuity: concrete meshes -/

/-- decidable criterion for `EdgeManifold` -/
theorem edgeManifold_of_counts {ts : List Tri} (h : ∀ e ∈ undKeys ts, (undKeys ts).count e ≤ 2) : EdgeManifold ts := by
  intro a b hab
  refine Nat.le_trans (count_flatMap_ge_countP ts undEdges (min a b, max a b) _ ?_) ?_
  · intro τ _ hτ
    simp only [decide_eq_true_eq] at hτ
    exact List.count_pos_iff.2 (undEdge_of_verts hab hτ.1 hτ.2)
  · by_cases hmem : (min a b, max a b) ∈ ts.flatMap undEdges
    · exact h _ hmem
    · rw [List.count_eq_zero_of_not_mem hmem]; omega

instance (τ : Tri) : Decidable (TriDistinct τ) := by unfold TriDistinct; infer_instance

/-- boundary of a tetrahedron with the second triangle wound the wrong way -/
def tet : List Tri := [(0,1,2),(0,1,3),(0,2,3),(1,3,2)]
def tetFixed : List Tri := [(0,1,2),(1,0,3),(0,2,3),(1,3,2)]

theorem tet_distinct : ∀ τ ∈ tet, TriDistinct τ := by decide
theorem tet_manifold : EdgeManifold tet := edgeManifold_of_counts (by decide)
theorem tet_orientable : Orientable tet := ⟨fun k => k == 1, by decide⟩
theorem tet_neighbours : EveryTriangleHasNeighbour tet := by
  intro A hA
  have : A = 0 ∨ A = 1 ∨ A = 2 ∨ A = 3 := by simp only [tet, List.length_cons, List.length_nil] at hA; omega
  rcases this with rfl | rfl | rfl | rfl
  · exact ⟨1, by decide, by decide, 0, 1, by simp [tet, verts]⟩
  · exact ⟨0, by decide, by decide, 0, 1, by simp [tet, verts]⟩
  · exact ⟨0, by decide, by decide, 0, 2, by simp [tet, verts]⟩
  · exact ⟨0, by decide, by decide, 1, 2, by simp [tet, verts]⟩

/-- the model evaluated on the tetrahedron: one triangle is flipped back, the result is oriented and closed -/
example : consistent tet = some (some (tetFixed, 1)) := by decide
example : isOriented tet = false ∧ isOriented tetFixed = true ∧ isClosed tetFixed = true := by decide

/-- `consistent_preserves`, `consistent_vertexSet` are not vacuous -/
example : tetFixed.length = tet.length ∧ ∃ f : Nat → Bool, (∀ k (_h : k < tet.length) (_h' : k < tetFixed.length),
    tetFixed[k] = if f k then swap01 tet[k] else tet[k]) ∧ 1 = ((List.range tet.length).filter f).length :=
  consistent_preserves (ts := tet) (by decide)

/-- `consistent_oriented_partial` applies to the tetrahedron (all hypotheses hold) and agrees with the evaluation -/
example : ∃ ts' n, consistent tet = some (some (ts', n)) ∧ isOriented ts' = true :=
  consistent_oriented_partial tet_distinct tet_manifold tet_orientable tet_neighbours (by decide)
    (fun h2 => absurd h2 (by decide))

/-- `pair_sign` on the tetrahedron: the pairs with triangle 1 carry `-1`, the others `+1` -/
example : neighbourPairs (halfEdgeRows tet) (edgeCounts (halfEdgeRows tet))
    = [(0, 1, -1), (0, 3, 1), (0, 2, 1), (1, 3, -1), (1, 2, -1), (2, 3, 1)] := by decide

/-- `orient_spec_partial`, `orient_idempotent_partial`, `orient_volume_nonneg`: for every vertex array the oriented
    tetrahedron comes back closed, oriented, with non-negative volume, and a second call changes nothing -/
example (vtx : Nat → V3 ℝ) : ∃ ts' n vol, orient vtx tet = .ok ts' n ∧ isOriented ts' = true ∧ isClosed ts' = true ∧
    Measures.volume vtx ts' = .ok vol ∧ 0 ≤ vol ∧ orient vtx ts' = .ok ts' 0 := by
  obtain ⟨ts', n, ho, _, _, hor, hvol, hid⟩ :=
    orient_spec_partial vtx tet_distinct tet_manifold tet_orientable tet_neighbours (by decide)
      (fun h2 => absurd h2 (by decide))
  have hcl : isClosed ts' = true := by
    have hc : consistent tet = some (some (tetFixed, 1)) := by decide
    have ho' := ho
    unfold orient at ho'
    simp only [hc] at ho'
    split at ho'
    · cases ho'
    · split at ho'
      · cases ho'; rw [isClosed_map_swap12]; decide
      · cases ho'; decide
  obtain ⟨vol, h1, h2⟩ := hvol hcl
  exact ⟨ts', n, vol, ho, hor, hcl, h1, h2, hid⟩

/-- the reversal lemmas on a concrete list -/
example : isOriented (tetFixed.map swap12) = true ∧ isClosed (tetFixed.map swap12) = true := by decide

/-- two components (two tetrahedra, one bad triangle in each): the flood is re-seeded and orients both -/
def twoTet : List Tri := [(0,1,2),(0,1,3),(0,2,3),(1,3,2),(4,5,6),(4,7,5),(4,6,7),(5,6,7)]
example : consistent twoTet
    = some (some ([(0,1,2),(1,0,3),(0,2,3),(1,3,2),(4,5,6),(4,7,5),(4,6,7),(6,5,7)], 2)) := by decide
example : isOriented [(0,1,2),(1,0,3),(0,2,3),(1,3,2),(4,5,6),(4,7,5),(4,6,7),(6,5,7)] = true := by decide

/-- a fan of three triangles around the edge `{0,1}`: rejected -/
def fan : List Tri := [(0,1,2),(0,1,3),(0,1,4)]
example : consistent fan = some none := nonmanifold_rejected (a := 0) (b := 1) (by decide) (by decide)
example : consistent fan = some none := by decide
example : isOriented fan = false := not_oriented_of_three (a := 0) (b := 1) (by decide) (by decide)

/-- THE COUNTEREXAMPLE to `consistent_oriented` without the pillow proviso: all its other hypotheses hold, the model
    returns the input unchanged with count 0, and the input is not oriented. -/
def pillow : List Tri := [(0,1,2),(0,1,2)]
example : (∀ τ ∈ pillow, TriDistinct τ) ∧ EdgeManifold pillow ∧ Orientable pillow ∧ pillow ≠ [] :=
  ⟨by decide, edgeManifold_of_counts (by decide), ⟨fun k => k == 1, by decide⟩, by decide⟩
example : EveryTriangleHasNeighbour pillow := by
  intro A hA
  have : A = 0 ∨ A = 1 := by simp only [pillow, List.length_cons, List.length_nil] at hA; omega
  rcases this with rfl | rfl
  · exact ⟨1, by decide, by decide, 0, 1, by simp [pillow, verts]⟩
  · exact ⟨0, by decide, by decide, 0, 1, by simp [pillow, verts]⟩
example : consistent pillow = some (some (pillow, 0)) ∧ isOriented pillow = false := by decide
example : column 2 (pairsOf pillow) 0 = [(0, 1), (1, -3)] := by decide
/-- the empty mesh raises -/
example : consistent [] = some none := by decide

end LapyVerif.Props.C10
