import LapyVerif.Props.C07
import LapyVerif.Props.C17
/-
  C07 (anisotropic option) — `diffusion(tria, vids, m, aniso=(a0,a1))` solves `(B_lumped + t·A_aniso) u = b` with the
  anisotropic stiffness of `Solver.__init__`'s aniso branch (`Fem.solverAniso`): the conservation law carries over.
-/
namespace LapyVerif.Props.C07
open LapyVerif

/-- the weights `exp(-a|c|)` are positive whatever the curvature output is -/
theorem anisoWeights_pos (a0 a1 c1 c2 : ℝ) :
    0 < (Fem.anisoWeights a0 a1 c1 c2).1 ∧ 0 < (Fem.anisoWeights a0 a1 c1 c2).2 := by
  simp only [Fem.anisoWeights, exp_real]
  exact ⟨Real.exp_pos _, Real.exp_pos _⟩

/-- `Solver(tria, lump=True, aniso=…)` keeps the lumped mass matrix: the `lump` flag is passed on -/
theorem solverAniso_mass (lump : Bool) (vtx : Nat → V3 ℝ) (ts : List Tri) (a0 a1 : ℝ) (cur : List (V3 ℝ × V3 ℝ × ℝ × ℝ)) :
    (Fem.solverAniso lump vtx ts a0 a1 cur).2 = Fem.massTria lump vtx ts := rfl

/-- **conservation with the anisotropic operator**: if `u` solves the system built by `diffusion(…, aniso=…)` then
    `1ᵀ B u = Σ b` with `B` the lumped mass matrix. -/
theorem heat_conservation_aniso (t : ℝ) (vtx : Nat → V3 ℝ) (ts : List Tri) (a0 a1 : ℝ) (cur : List (V3 ℝ × V3 ℝ × ℝ × ℝ))
    (h : NonDegenTri vtx ts) (u b : Nat → ℝ) (n : Nat)
    (hA : ∀ e ∈ (Fem.solverAniso true vtx ts a0 a1 cur).1, e.1.1 < n)
    (hB : ∀ e ∈ (Fem.solverAniso true vtx ts a0 a1 cur).2, e.1.1 < n)
    (hsolve : ∀ i < n, Coo.mulVec (Heat.heatMat t (Fem.solverAniso true vtx ts a0 a1 cur).1 (Fem.solverAniso true vtx ts a0 a1 cur).2) u i = b i) :
    Coo.form (Fem.massTria true vtx ts) (fun _ => 1) u = ∑ i ∈ Finset.range n, b i := by
  have := heat_conservation t _ _ u b n hA hB
    (fun f g => C17.stiffAniso_symm vtx ts _ h f g) (fun i => C17.stiffAniso_const_zero vtx ts _ h 1 i) hsolve
  simpa [Fem.solverAniso] using this

end LapyVerif.Props.C07
