import LapyVerif.Model.History
import LapyVerif.Lemmas.RealInst
/-
  C20 — mesh objects stay internally consistent across any history of operations.

  `TriInv s` says the cached adjacency equals what the constructor computes from the current triangles.  The step
  function is parametric in the table `reb` (does the method re-run the constructor?) that `Bridge/C20.lean`
  instantiates with the table extracted from the source.  The theorems hold for every scalar type, every state and
  every operation list — no length bound.
-/
namespace LapyVerif.Props.C20
open LapyVerif History

variable {K : Type} [Zero K] [Add K] [Sub K] [Mul K] [Div K] [Neg K] [NatCast K] [HasSqrt K]
variable [LT K] [DecidableRel (α := K) (· < ·)]

/-- what the proof needs from the source: every method whose model effect can change the triangles re-runs the constructor -/
def TriTableOk (reb : String → Bool) : Prop :=
  reb "orient_" = true ∧ reb "refine_" = true ∧ reb "rm_free_vertices_" = true

theorem inv_fresh (v : List (V3 K)) (t : List Tri) : TriInv (TriState.fresh v t) := ⟨rfl, rfl⟩

/-- vertex-only operations leave the triangles alone -/
theorem effect_keeps_t (s : TriState K) (op : TriOp K) (v' : List (V3 K)) (t' : List Tri)
    (h : triEffect s op = some (v', t'))
    (hop : op.name ≠ "orient_" ∧ op.name ≠ "refine_" ∧ op.name ≠ "rm_free_vertices_") : t' = s.t := by
  cases op with
  | orient => exact absurd rfl hop.1
  | refine it => exact absurd rfl hop.2.1
  | rmFree => exact absurd rfl hop.2.2
  | normalize => simp only [triEffect, Option.some.injEq, Prod.mk.injEq] at h; exact h.2.symm
  | smooth n =>
    simp only [triEffect] at h
    split at h
    · exact absurd h (by simp)
    · simp only [Option.some.injEq, Prod.mk.injEq] at h; exact h.2.symm
  | offset d =>
    simp only [triEffect] at h
    split at h
    · simp only [Option.some.injEq, Prod.mk.injEq] at h; exact h.2.symm
    · exact absurd h (by simp)

/-- **one step preserves the invariant** -/
theorem inv_step (reb : String → Bool) (hreb : TriTableOk reb) (s : TriState K) (hs : TriInv s) (op : TriOp K) :
    TriInv (triStep reb s op) := by
  unfold triStep
  cases he : triEffect s op with
  | none => exact hs
  | some p =>
    obtain ⟨v', t'⟩ := p
    by_cases hr : reb op.name = true
    · simp only [hr, if_true]; exact inv_fresh v' t'
    · simp only [hr, Bool.false_eq_true, if_false]
      have hop : op.name ≠ "orient_" ∧ op.name ≠ "refine_" ∧ op.name ≠ "rm_free_vertices_" := by
        refine ⟨?_, ?_, ?_⟩ <;> intro h <;> rw [h] at hr
        · exact hr hreb.1
        · exact hr hreb.2.1
        · exact hr hreb.2.2
      have ht := effect_keeps_t s op v' t' he hop
      subst ht
      exact hs

/-- **after any sequence of operations the cached adjacency is fresh** -/
theorem inv_history (reb : String → Bool) (hreb : TriTableOk reb) (s : TriState K) (hs : TriInv s) (ops : List (TriOp K)) :
    TriInv (triRun reb s ops) := by
  unfold triRun
  induction ops generalizing s with
  | nil => exact hs
  | cons op ops ih => exact ih _ (inv_step reb hreb s hs op)

/-- from a constructed mesh, any history -/
theorem inv_from_ctor (reb : String → Bool) (hreb : TriTableOk reb) (v : List (V3 K)) (t : List Tri) (ops : List (TriOp K)) :
    TriInv (triRun reb (TriState.fresh v t) ops) :=
  inv_history reb hreb _ (inv_fresh v t) ops

/-- **every query answers as on a freshly constructed mesh** -/
theorem query_fresh (s : TriState K) (hs : TriInv s) :
    qClosed s = Topo.isClosed s.t ∧ qManifold s = Topo.isManifold s.t ∧ qOriented s = Topo.isOriented s.t ∧
    qEuler s = Topo.euler s.t := by
  obtain ⟨h1, h2⟩ := hs
  refine ⟨?_, ?_, ?_, ?_⟩
  · simp only [qClosed, h1, Topo.isClosed, Topo.symData, Topo.adjSym]
  · simp only [qManifold, h1, Topo.isManifold, Topo.symData, Topo.adjSym]; rfl
  · simp only [qOriented, h2, Topo.isOriented, Topo.dirData, Topo.adjDir]
  · simp only [qEuler, h1, Topo.euler, Topo.adjSym]

/-- and the state after a history is indistinguishable from the freshly constructed one -/
theorem state_fresh (reb : String → Bool) (hreb : TriTableOk reb) (v : List (V3 K)) (t : List Tri) (ops : List (TriOp K)) :
    let s := triRun reb (TriState.fresh v t) ops
    s.symK = (TriState.fresh s.v s.t).symK ∧ s.dirK = (TriState.fresh s.v s.t).dirK :=
  inv_from_ctor reb hreb v t ops

/-! ### tetrahedral meshes -/

def TetTableOk (reb : String → Bool) : Prop := reb "orient_" = true ∧ reb "rm_free_vertices_" = true

theorem tet_inv_step (reb : String → Bool) (hreb : TetTableOk reb) (s : TetState K) (hs : TetInv s) (op : TetOp) :
    TetInv (tetStep reb s op) := by
  unfold tetStep
  cases he : tetEffect s op with
  | none => exact hs
  | some p =>
    obtain ⟨v', t'⟩ := p
    have hr : reb op.name = true := by cases op <;> simp [TetOp.name, hreb.1, hreb.2]
    simp only [hr, if_true]
    rfl

theorem tet_inv_history (reb : String → Bool) (hreb : TetTableOk reb) (s : TetState K) (hs : TetInv s) (ops : List TetOp) :
    TetInv (tetRun reb s ops) := by
  unfold tetRun
  induction ops generalizing s with
  | nil => exact hs
  | cons op ops ih => exact ih _ (tet_inv_step reb hreb s hs op)

/-- the invariant genuinely depends on the table: with a `rm_free_vertices_` that does not re-run the constructor
    (the defect F6 of the original `TetMesh`), a one-step history breaks it -/
example : ¬ TetInv (tetStep (K := ℝ) (fun n => n == "orient_")
    (TetState.fresh [⟨9, 9, 9⟩, ⟨0, 0, 0⟩, ⟨1, 0, 0⟩, ⟨0, 1, 0⟩, ⟨0, 0, 1⟩] [(1, 2, 3, 4)]) .rmFree) := by
  unfold TetInv
  decide

/-- a concrete non-trivial history satisfies the hypotheses -/
example : TriInv (triRun (K := ℝ) (fun n => n == "orient_" || n == "refine_" || n == "rm_free_vertices_")
    (TriState.fresh [⟨0, 0, 0⟩, ⟨1, 0, 0⟩, ⟨0, 1, 0⟩, ⟨1, 1, 0⟩] [(0, 1, 2), (1, 2, 3)]) [.refine 1, .normalize, .rmFree]) :=
  inv_from_ctor _ ⟨by decide, by decide, by decide⟩ _ _ _

end LapyVerif.Props.C20
