import Mathlib.Algebra.BigOperators.Group.Finset.Basic
import Mathlib.Algebra.BigOperators.Ring.Finset
import Mathlib.Algebra.Order.BigOperators.Group.Finset
import Mathlib.Tactic.FieldSimp
import LapyVerif.Props.C02
/-
  C03 — the algebra of shift-invert used by `eigs` (σ = −0.01, operator `(A − σB)⁻¹B`), the sign / orthogonality of
  generalized eigenpairs, and the zero eigenspace of the stiffness matrix.  Matrices are concrete `Coo ℝ` triplet lists;
  `Coo.form` is the bilinear form, `Coo.mulVec` the row action.
-/
namespace LapyVerif.Props.C03
open LapyVerif V3

/-- `A − σB` as a triplet list (a sparse sum is the concatenation of the triplets) -/
def shiftMat (σ : ℝ) (A B : Coo ℝ) : Coo ℝ := A ++ B.map fun e => (e.1, -σ * e.2)

/-! ### linear algebra of triplet lists -/

theorem form_scale (c : ℝ) (m : Coo ℝ) (f g : Nat → ℝ) :
    Coo.form (m.map fun e => (e.1, c * e.2)) f g = c * Coo.form m f g := by
  induction m with
  | nil => simp [Coo.form]
  | cons e m ih => rw [List.map_cons, Coo.form_cons, Coo.form_cons, ih]; ring

theorem form_shiftMat (σ : ℝ) (A B : Coo ℝ) (f g : Nat → ℝ) :
    Coo.form (shiftMat σ A B) f g = Coo.form A f g - σ * Coo.form B f g := by
  rw [shiftMat, Coo.form_append, form_scale]; ring

theorem mulVec_cons (e : (Nat × Nat) × ℝ) (m : Coo ℝ) (x : Nat → ℝ) (i : Nat) :
    Coo.mulVec (e :: m) x i = (if e.1.1 = i then e.2 * x e.1.2 else 0) + Coo.mulVec m x i := by
  by_cases h1 : e.1.1 = i <;> simp [Coo.mulVec, h1]

theorem mulVec_scale (c : ℝ) (m : Coo ℝ) (x : Nat → ℝ) (i : Nat) :
    Coo.mulVec (m.map fun e => (e.1, c * e.2)) x i = c * Coo.mulVec m x i := by
  induction m with
  | nil => simp [Coo.mulVec]
  | cons e m ih =>
    rw [List.map_cons, mulVec_cons, mulVec_cons, ih]
    by_cases h : e.1.1 = i <;> simp [h, mul_add, mul_assoc]

theorem mulVec_shiftMat (σ : ℝ) (A B : Coo ℝ) (x : Nat → ℝ) (i : Nat) :
    Coo.mulVec (shiftMat σ A B) x i = Coo.mulVec A x i - σ * Coo.mulVec B x i := by
  rw [shiftMat, Coo.mulVec_append, mulVec_scale]; ring

/-- the row action is linear in the vector -/
theorem mulVec_smul (m : Coo ℝ) (c : ℝ) (x : Nat → ℝ) (i : Nat) :
    Coo.mulVec m (fun k => c * x k) i = c * Coo.mulVec m x i := by
  induction m with
  | nil => simp [Coo.mulVec]
  | cons e m ih =>
    rw [mulVec_cons, mulVec_cons, ih]
    by_cases h : e.1.1 = i <;> simp [h, mul_add]; ring

/-- `fᵀ M g = Σ_{i<n} f_i (M g)_i` for a matrix whose row indices are `< n` -/
theorem form_eq_sum_mulVec (M : Coo ℝ) (f g : Nat → ℝ) (n : Nat) (hM : ∀ e ∈ M, e.1.1 < n) :
    Coo.form M f g = ∑ i ∈ Finset.range n, f i * Coo.mulVec M g i := by
  induction M with
  | nil => simp [Coo.form, Coo.mulVec]
  | cons e M ih =>
    have ih' := ih (fun e' he' => hM e' (by simp [he']))
    have he : e.1.1 < n := hM e (by simp)
    rw [Coo.form_cons, ih']
    simp only [mulVec_cons, mul_add, Finset.sum_add_distrib, mul_ite, mul_zero]
    rw [Finset.sum_ite_eq (Finset.range n) e.1.1 (fun i => f i * (e.2 * g e.1.2))]
    simp only [Finset.mem_range, he, if_true]
    ring

/-- every triplet list has a bound on its row indices -/
theorem exists_row_bound (M : Coo ℝ) : ∃ n, ∀ e ∈ M, e.1.1 < n := by
  induction M with
  | nil => exact ⟨0, by simp⟩
  | cons e M ih =>
    obtain ⟨n, hn⟩ := ih
    refine ⟨max n (e.1.1 + 1), ?_⟩
    intro e' he'
    rcases List.mem_cons.mp he' with rfl | h
    · omega
    · have := hn e' h; omega

/-- a row-wise identity `A x = λ B x` (all rows) gives `fᵀ A x = λ fᵀ B x` for every `f`; no index-range hypothesis -/
theorem form_of_rows (A B : Coo ℝ) (x : Nat → ℝ) (lam : ℝ)
    (h : ∀ i, Coo.mulVec A x i = lam * Coo.mulVec B x i) (f : Nat → ℝ) :
    Coo.form A f x = lam * Coo.form B f x := by
  obtain ⟨n1, h1⟩ := exists_row_bound A
  obtain ⟨n2, h2⟩ := exists_row_bound B
  have hA : ∀ e ∈ A, e.1.1 < max n1 n2 := fun e he => lt_of_lt_of_le (h1 e he) (le_max_left _ _)
  have hB : ∀ e ∈ B, e.1.1 < max n1 n2 := fun e he => lt_of_lt_of_le (h2 e he) (le_max_right _ _)
  rw [form_eq_sum_mulVec A f x _ hA, form_eq_sum_mulVec B f x _ hB, Finset.mul_sum]
  apply Finset.sum_congr rfl
  intro i _
  rw [h i]; ring

/-! ### (a) the shifted matrix is positive definite -/

/-- **`A − σB` is positive definite** for `A ≥ 0`, `B > 0` (on vectors not vanishing on `range n`), `σ < 0` -/
theorem shift_pd (A B : Coo ℝ) (σ : ℝ) (n : Nat) (hA : ∀ f, 0 ≤ Coo.form A f f)
    (hB : ∀ f : Nat → ℝ, (∃ i < n, f i ≠ 0) → 0 < Coo.form B f f) (hσ : σ < 0)
    (f : Nat → ℝ) (hf : ∃ i < n, f i ≠ 0) : 0 < Coo.form (shiftMat σ A B) f f := by
  rw [form_shiftMat]
  have h1 := hA f
  have h2 := hB f hf
  nlinarith

/-- hence it is injective: `(A − σB) f = 0` (row-wise) forces `f = 0` on `range n` — the linear system of every
    shift-invert step has at most one solution -/
theorem shift_injective (A B : Coo ℝ) (σ : ℝ) (n : Nat) (hA : ∀ f, 0 ≤ Coo.form A f f)
    (hB : ∀ f : Nat → ℝ, (∃ i < n, f i ≠ 0) → 0 < Coo.form B f f) (hσ : σ < 0)
    (f : Nat → ℝ) (h0 : ∀ i, Coo.mulVec (shiftMat σ A B) f i = 0) : ∀ i < n, f i = 0 := by
  by_contra hne
  push Not at hne
  have hpos := shift_pd A B σ n hA hB hσ f hne
  have hz : Coo.form (shiftMat σ A B) f f = 0 := by
    have := form_of_rows (shiftMat σ A B) [] f 0 (fun i => by rw [h0 i]; simp) f
    simpa using this
  linarith

/-- two solutions of the same shifted system agree on `range n` -/
theorem shift_unique (A B : Coo ℝ) (σ : ℝ) (n : Nat) (hA : ∀ f, 0 ≤ Coo.form A f f)
    (hB : ∀ f : Nat → ℝ, (∃ i < n, f i ≠ 0) → 0 < Coo.form B f f) (hσ : σ < 0)
    (y z b : Nat → ℝ) (hy : ∀ i, Coo.mulVec (shiftMat σ A B) y i = b i)
    (hz : ∀ i, Coo.mulVec (shiftMat σ A B) z i = b i) : ∀ i < n, y i = z i := by
  have hsub : ∀ (M : Coo ℝ) (i : Nat), Coo.mulVec M (fun k => y k - z k) i = Coo.mulVec M y i - Coo.mulVec M z i := by
    intro M i
    induction M with
    | nil => simp [Coo.mulVec]
    | cons e M ih =>
      rw [mulVec_cons, mulVec_cons, mulVec_cons, ih]
      by_cases h : e.1.1 = i <;> simp [h]; ring
  have := shift_injective A B σ n hA hB hσ (fun k => y k - z k) (fun i => by rw [hsub, hy, hz, sub_self])
  intro i hi
  have := this i hi
  linarith

/-! ### (b) eigenpairs of the pencil and of the shift-inverted operator -/

/-- **`A x = λ B x`, `λ ≠ σ` ⇒ `(A − σB) (x/(λ−σ)) = B x`**: `x` is an eigenvector of `(A − σB)⁻¹ B` with
    eigenvalue `1/(λ − σ)` -/
theorem shift_pairs (A B : Coo ℝ) (σ lam : ℝ) (x : Nat → ℝ) (hne : lam ≠ σ)
    (h : ∀ i, Coo.mulVec A x i = lam * Coo.mulVec B x i) :
    ∀ i, Coo.mulVec (shiftMat σ A B) (fun k => (1 / (lam - σ)) * x k) i = Coo.mulVec B x i := by
  intro i
  have hd : lam - σ ≠ 0 := sub_ne_zero.mpr hne
  rw [mulVec_smul, mulVec_shiftMat, h i]
  field_simp

/-- conversely: `(A − σB) (μ x) = B x`, `μ ≠ 0` ⇒ `A x = (σ + 1/μ) B x` -/
theorem shift_pairs_conv (A B : Coo ℝ) (σ μ : ℝ) (x : Nat → ℝ) (hμ : μ ≠ 0)
    (h : ∀ i, Coo.mulVec (shiftMat σ A B) (fun k => μ * x k) i = Coo.mulVec B x i) :
    ∀ i, Coo.mulVec A x i = (σ + 1 / μ) * Coo.mulVec B x i := by
  intro i
  have := h i
  rw [mulVec_smul, mulVec_shiftMat] at this
  field_simp
  linarith

/-! ### (c) order reversal -/

/-- **`λ ↦ 1/(λ − σ)` is positive and strictly decreasing on `λ ≥ 0`** (σ < 0): the `k` largest transformed values are
    the `k` smallest eigenvalues, and ascending order of the eigenvalues is descending order of the transformed ones -/
theorem shift_order (σ lam mu : ℝ) (hσ : σ < 0) (hl : 0 ≤ lam) (hm : 0 ≤ mu) :
    0 < 1 / (lam - σ) ∧ (lam ≤ mu ↔ 1 / (mu - σ) ≤ 1 / (lam - σ)) ∧ (lam < mu ↔ 1 / (mu - σ) < 1 / (lam - σ)) := by
  have h1 : 0 < lam - σ := by linarith
  have h2 : 0 < mu - σ := by linarith
  refine ⟨by positivity, ?_, ?_⟩
  · rw [one_div_le_one_div h2 h1]; constructor <;> intro h <;> linarith
  · rw [one_div_lt_one_div h2 h1]; constructor <;> intro h <;> linarith

/-- the inverse transformation recovers the eigenvalue -/
theorem shift_back (σ lam : ℝ) (hne : lam ≠ σ) : σ + 1 / (1 / (lam - σ)) = lam := by
  have hd : lam - σ ≠ 0 := sub_ne_zero.mpr hne
  field_simp; ring

/-- a list of eigenvalues is ascending iff the list of transformed values is descending -/
theorem shift_sorted (σ : ℝ) (hσ : σ < 0) (l : List ℝ) (hl : ∀ x ∈ l, 0 ≤ x) :
    l.Pairwise (· ≤ ·) ↔ (l.map fun lam => 1 / (lam - σ)).Pairwise (· ≥ ·) := by
  rw [List.pairwise_map]
  constructor
  · intro h
    exact h.imp_of_mem fun {a b} ha hb hab => ((shift_order σ a b hσ (hl a ha) (hl b hb)).2.1.mp hab)
  · intro h
    exact h.imp_of_mem fun {a b} ha hb hab => ((shift_order σ a b hσ (hl a ha) (hl b hb)).2.1.mpr hab)

/-! ### (d), (e) sign and orthogonality of generalized eigenpairs -/

/-- **generalized eigenvalues are non-negative**: `A x = λ B x`, `xᵀAx ≥ 0`, `xᵀBx > 0` ⇒ `λ ≥ 0` -/
theorem gen_eig_nonneg (A B : Coo ℝ) (x : Nat → ℝ) (lam : ℝ)
    (h : ∀ i, Coo.mulVec A x i = lam * Coo.mulVec B x i) (hA : 0 ≤ Coo.form A x x) (hB : 0 < Coo.form B x x) :
    0 ≤ lam := by
  have := form_of_rows A B x lam h x
  by_contra hneg
  have hneg' : lam < 0 := not_le.mp hneg
  nlinarith

/-- the Rayleigh quotient -/
theorem gen_eig_rayleigh (A B : Coo ℝ) (x : Nat → ℝ) (lam : ℝ)
    (h : ∀ i, Coo.mulVec A x i = lam * Coo.mulVec B x i) (hB : Coo.form B x x ≠ 0) :
    lam = Coo.form A x x / Coo.form B x x := by
  rw [form_of_rows A B x lam h x]; field_simp

/-- **eigenvectors to different eigenvalues are `B`-orthogonal** -/
theorem eig_B_orth (A B : Coo ℝ) (x y : Nat → ℝ) (lam mu : ℝ)
    (hAs : ∀ f g, Coo.form A f g = Coo.form A g f) (hBs : ∀ f g, Coo.form B f g = Coo.form B g f)
    (hx : ∀ i, Coo.mulVec A x i = lam * Coo.mulVec B x i) (hy : ∀ i, Coo.mulVec A y i = mu * Coo.mulVec B y i)
    (hne : lam ≠ mu) : Coo.form B x y = 0 := by
  have h1 := form_of_rows A B x lam hx y   -- yᵀAx = λ yᵀBx
  have h2 := form_of_rows A B y mu hy x    -- xᵀAy = μ xᵀBy
  rw [hAs y x, hBs y x] at h1
  have : (lam - mu) * Coo.form B x y = 0 := by linarith
  rcases mul_eq_zero.mp this with h | h
  · exact absurd (sub_eq_zero.mp h) hne
  · exact h

/-! ### (f) the zero eigenspace: functions constant on every connected component -/

theorem all_zero_of_sum_zero (l : List ℝ) (h : ∀ x ∈ l, 0 ≤ x) (hs : l.sum = 0) : ∀ x ∈ l, x = 0 := by
  induction l with
  | nil => intro x hx; simp at hx
  | cons a t ih =>
    have ha : 0 ≤ a := h a (by simp)
    have ht : 0 ≤ t.sum := List.sum_nonneg fun x hx => h x (by simp [hx])
    rw [List.sum_cons] at hs
    intro x hx
    rcases List.mem_cons.mp hx with rfl | hx'
    · linarith
    · exact ih (fun y hy => h y (by simp [hy])) (by linarith) x hx'

theorem dot_self_nonneg (a : V3 ℝ) : 0 ≤ dot a a := by
  v3_flat; nlinarith [sq_nonneg a.x, sq_nonneg a.y, sq_nonneg a.z]

theorem eq_zero_of_dot_self (a : V3 ℝ) (h : dot a a = 0) : a = ⟨0, 0, 0⟩ := by
  simp only [V3.dot] at h
  have hx : a.x = 0 := by nlinarith [sq_nonneg a.x, sq_nonneg a.y, sq_nonneg a.z]
  have hy : a.y = 0 := by nlinarith [sq_nonneg a.x, sq_nonneg a.y, sq_nonneg a.z]
  have hz : a.z = 0 := by nlinarith [sq_nonneg a.x, sq_nonneg a.y, sq_nonneg a.z]
  apply V3.ext' <;> simp [hx, hy, hz]

theorem dot_zero_left (b : V3 ℝ) : dot (⟨0, 0, 0⟩ : V3 ℝ) b = 0 := by v3_flat; ring

/-- **zero Dirichlet energy ⇒ constant on every triangle** -/
theorem kernel_const_on_elements (vtx : Nat → V3 ℝ) (ts : List Tri) (hnd : NonDegenTri vtx ts) (f : Nat → ℝ)
    (h0 : Coo.form (Fem.stiffTria vtx ts) f f = 0) : ∀ τ ∈ ts, f τ.1 = f τ.2.1 ∧ f τ.2.1 = f τ.2.2 := by
  rw [C01.stiff_form vtx ts hnd] at h0
  intro τ hτ
  have hnn : ∀ x ∈ (ts.map fun τ => Spec.triArea (vtx τ.1) (vtx τ.2.1) (vtx τ.2.2) *
      dot (Spec.gradTri (vtx τ.1) (vtx τ.2.1) (vtx τ.2.2) (f τ.1) (f τ.2.1) (f τ.2.2))
        (Spec.gradTri (vtx τ.1) (vtx τ.2.1) (vtx τ.2.2) (f τ.1) (f τ.2.1) (f τ.2.2))), 0 ≤ x := by
    intro x hx
    obtain ⟨σ, hσ, rfl⟩ := List.mem_map.mp hx
    exact mul_nonneg (FemTri.area_pos_of_nondegen _ _ _ (hnd σ hσ)).le (dot_self_nonneg _)
  have hz := all_zero_of_sum_zero _ hnn h0 _ (List.mem_map.mpr ⟨τ, hτ, rfl⟩)
  have ha := FemTri.area_pos_of_nondegen _ _ _ (hnd τ hτ)
  have hg := eq_zero_of_dot_self _ ((mul_eq_zero.mp hz).resolve_left ha.ne')
  have hN := (FemTri.normSq_pos_of_nondegen _ _ _ (hnd τ hτ)).ne'
  obtain ⟨c1, c2, _⟩ := Spec.gradTri_char (vtx τ.1) (vtx τ.2.1) (vtx τ.2.2) (f τ.1) (f τ.2.1) (f τ.2.2) hN
  rw [hg, dot_zero_left] at c1 c2
  constructor <;> linarith

/-- two vertices are connected through a chain of triangles -/
inductive EdgeConnected (ts : List Tri) : Nat → Nat → Prop
  | refl (i : Nat) : EdgeConnected ts i i
  | step {i j k : Nat} (τ : Tri) (hτ : τ ∈ ts) (hj : j ∈ [τ.1, τ.2.1, τ.2.2]) (hk : k ∈ [τ.1, τ.2.1, τ.2.2])
      (h : EdgeConnected ts i j) : EdgeConnected ts i k

/-- **the zero eigenspace consists of functions that are constant on every connected component** -/
theorem kernel_const_on_components (vtx : Nat → V3 ℝ) (ts : List Tri) (hnd : NonDegenTri vtx ts) (f : Nat → ℝ)
    (h0 : Coo.form (Fem.stiffTria vtx ts) f f = 0) (i j : Nat) (hc : EdgeConnected ts i j) : f i = f j := by
  have hel := kernel_const_on_elements vtx ts hnd f h0
  induction hc with
  | refl => rfl
  | step τ hτ hj hk _ ih =>
    obtain ⟨e1, e2⟩ := hel τ hτ
    have hall : ∀ v ∈ [τ.1, τ.2.1, τ.2.2], f v = f τ.1 := by
      intro v hv
      simp only [List.mem_cons, List.not_mem_nil, or_false] at hv
      rcases hv with rfl | rfl | rfl
      · rfl
      · exact e1.symm
      · exact (e1.trans e2).symm
    rw [ih, hall _ hj, hall _ hk]

/-- an eigenvector to the eigenvalue 0 (every row of `A x` vanishes) has zero energy -/
theorem energy_zero_of_rows (A : Coo ℝ) (x : Nat → ℝ) (h : ∀ i, Coo.mulVec A x i = 0) : Coo.form A x x = 0 := by
  have := form_of_rows A [] x 0 (fun i => by rw [h i]; simp) x
  simpa using this

/-- conversely, **functions constant on every triangle are annihilated** by the stiffness matrix -/
theorem const_in_kernel (vtx : Nat → V3 ℝ) (ts : List Tri) (hnd : NonDegenTri vtx ts) (f : Nat → ℝ)
    (hf : ∀ τ ∈ ts, f τ.1 = f τ.2.1 ∧ f τ.2.1 = f τ.2.2) :
    (∀ g, Coo.form (Fem.stiffTria vtx ts) f g = 0) ∧ ∀ i, Coo.mulVec (Fem.stiffTria vtx ts) f i = 0 := by
  have h1 : ∀ g, Coo.form (Fem.stiffTria vtx ts) f g = 0 := by
    intro g
    rw [C01.stiff_form vtx ts hnd]
    apply List.sum_eq_zero
    intro x hx
    obtain ⟨τ, hτ, rfl⟩ := List.mem_map.mp hx
    obtain ⟨e1, e2⟩ := hf τ hτ
    rw [← e2, ← e1, C01.gradTri_const, dot_zero_left, mul_zero]
  refine ⟨h1, fun i => ?_⟩
  rw [Coo.mulVec_eq_form, C01.stiff_form_symm vtx ts hnd]
  exact h1 _

/-- **characterisation of the kernel** of the triangle stiffness matrix -/
theorem kernel_iff (vtx : Nat → V3 ℝ) (ts : List Tri) (hnd : NonDegenTri vtx ts) (f : Nat → ℝ) :
    (∀ i, Coo.mulVec (Fem.stiffTria vtx ts) f i = 0) ↔ ∀ τ ∈ ts, f τ.1 = f τ.2.1 ∧ f τ.2.1 = f τ.2.2 :=
  ⟨fun h => kernel_const_on_elements vtx ts hnd f (energy_zero_of_rows _ f h),
   fun h => (const_in_kernel vtx ts hnd f h).2⟩

/-! #### tetrahedra -/

theorem kernel_const_on_elements_tet (vtx : Nat → V3 ℝ) (ts : List Tet) (hnd : NonDegenTet vtx ts) (f : Nat → ℝ)
    (h0 : Coo.form (Fem.stiffTet vtx ts) f f = 0) :
    ∀ τ ∈ ts, f τ.1 = f τ.2.1 ∧ f τ.1 = f τ.2.2.1 ∧ f τ.1 = f τ.2.2.2 := by
  rw [C01.stiff_form_tet vtx ts hnd] at h0
  intro τ hτ
  have hvol : ∀ σ ∈ ts, 0 < Spec.tetVolume (vtx σ.1) (vtx σ.2.1) (vtx σ.2.2.1) (vtx σ.2.2.2) := by
    intro σ hσ
    have := abs_pos.mpr (C01.tetDet_ne_zero _ _ _ _ (hnd σ hσ))
    unfold Spec.tetVolume; positivity
  have hnn : ∀ x ∈ (ts.map fun τ => Spec.tetVolume (vtx τ.1) (vtx τ.2.1) (vtx τ.2.2.1) (vtx τ.2.2.2) *
      dot (Spec.gradTet (vtx τ.1) (vtx τ.2.1) (vtx τ.2.2.1) (vtx τ.2.2.2) (f τ.1) (f τ.2.1) (f τ.2.2.1) (f τ.2.2.2))
        (Spec.gradTet (vtx τ.1) (vtx τ.2.1) (vtx τ.2.2.1) (vtx τ.2.2.2) (f τ.1) (f τ.2.1) (f τ.2.2.1) (f τ.2.2.2))),
      0 ≤ x := by
    intro x hx
    obtain ⟨σ, hσ, rfl⟩ := List.mem_map.mp hx
    exact mul_nonneg (hvol σ hσ).le (dot_self_nonneg _)
  have hz := all_zero_of_sum_zero _ hnn h0 _ (List.mem_map.mpr ⟨τ, hτ, rfl⟩)
  have hg := eq_zero_of_dot_self _ ((mul_eq_zero.mp hz).resolve_left (hvol τ hτ).ne')
  obtain ⟨c1, c2, c3⟩ := Spec.gradTet_char (vtx τ.1) (vtx τ.2.1) (vtx τ.2.2.1) (vtx τ.2.2.2)
    (f τ.1) (f τ.2.1) (f τ.2.2.1) (f τ.2.2.2) (C01.tetDet_ne_zero _ _ _ _ (hnd τ hτ))
  rw [hg, dot_zero_left] at c1 c2 c3
  refine ⟨?_, ?_, ?_⟩ <;> linarith

inductive EdgeConnectedTet (ts : List Tet) : Nat → Nat → Prop
  | refl (i : Nat) : EdgeConnectedTet ts i i
  | step {i j k : Nat} (τ : Tet) (hτ : τ ∈ ts) (hj : j ∈ [τ.1, τ.2.1, τ.2.2.1, τ.2.2.2])
      (hk : k ∈ [τ.1, τ.2.1, τ.2.2.1, τ.2.2.2]) (h : EdgeConnectedTet ts i j) : EdgeConnectedTet ts i k

theorem kernel_const_on_components_tet (vtx : Nat → V3 ℝ) (ts : List Tet) (hnd : NonDegenTet vtx ts) (f : Nat → ℝ)
    (h0 : Coo.form (Fem.stiffTet vtx ts) f f = 0) (i j : Nat) (hc : EdgeConnectedTet ts i j) : f i = f j := by
  have hel := kernel_const_on_elements_tet vtx ts hnd f h0
  induction hc with
  | refl => rfl
  | step τ hτ hj hk _ ih =>
    obtain ⟨e1, e2, e3⟩ := hel τ hτ
    have hall : ∀ v ∈ [τ.1, τ.2.1, τ.2.2.1, τ.2.2.2], f v = f τ.1 := by
      intro v hv
      simp only [List.mem_cons, List.not_mem_nil, or_false] at hv
      rcases hv with rfl | rfl | rfl | rfl
      · rfl
      · exact e1.symm
      · exact e2.symm
      · exact e3.symm
    rw [ih, hall _ hj, hall _ hk]

theorem const_in_kernel_tet (vtx : Nat → V3 ℝ) (ts : List Tet) (hnd : NonDegenTet vtx ts) (f : Nat → ℝ)
    (hf : ∀ τ ∈ ts, f τ.1 = f τ.2.1 ∧ f τ.1 = f τ.2.2.1 ∧ f τ.1 = f τ.2.2.2) :
    (∀ g, Coo.form (Fem.stiffTet vtx ts) f g = 0) ∧ ∀ i, Coo.mulVec (Fem.stiffTet vtx ts) f i = 0 := by
  have h1 : ∀ g, Coo.form (Fem.stiffTet vtx ts) f g = 0 := by
    intro g
    rw [C01.stiff_form_tet vtx ts hnd]
    apply List.sum_eq_zero
    intro x hx
    obtain ⟨τ, hτ, rfl⟩ := List.mem_map.mp hx
    obtain ⟨e1, e2, e3⟩ := hf τ hτ
    rw [← e1, ← e2, ← e3, C01.gradTet_const, dot_zero_left, mul_zero]
  refine ⟨h1, fun i => ?_⟩
  rw [Coo.mulVec_eq_form, C01.stiff_form_symm_tet vtx ts hnd]
  exact h1 _

/-! ### non-vacuity -/

section Examples

/-- the path graph on two vertices: `A` its Laplacian, `B` the identity -/
def exA : Coo ℝ := [((0, 0), 1), ((0, 1), -1), ((1, 0), -1), ((1, 1), 1)]
def exB : Coo ℝ := [((0, 0), 1), ((1, 1), 1)]

theorem exA_psd (f : Nat → ℝ) : 0 ≤ Coo.form exA f f := by
  have : Coo.form exA f f = (f 0 - f 1) ^ 2 := by simp [Coo.form, exA]; ring
  rw [this]; positivity

theorem exB_pd (f : Nat → ℝ) (hf : ∃ i < 2, f i ≠ 0) : 0 < Coo.form exB f f := by
  have : Coo.form exB f f = f 0 ^ 2 + f 1 ^ 2 := by simp [Coo.form, exB]; ring
  rw [this]
  obtain ⟨i, hi, hne⟩ := hf
  have : i = 0 ∨ i = 1 := by omega
  rcases this with rfl | rfl
  · have := sq_pos_of_ne_zero hne; positivity
  · have := sq_pos_of_ne_zero hne; positivity

/-- the hypotheses of `shift_pd` / `shift_injective` hold for `(exA, exB)`, `σ = −0.01`, `n = 2` -/
example (f : Nat → ℝ) (hf : ∃ i < 2, f i ≠ 0) : 0 < Coo.form (shiftMat (-0.01) exA exB) f f :=
  shift_pd exA exB (-0.01) 2 exA_psd exB_pd (by norm_num) f hf

/-- `x = (1, −1)` is an eigenvector with `λ = 2`, `y = (1, 1)` with `λ = 0` -/
def exX : Nat → ℝ := fun i => if i = 0 then 1 else if i = 1 then -1 else 0
def exY : Nat → ℝ := fun i => if i = 0 then 1 else if i = 1 then 1 else 0

theorem exX_eig : ∀ i, Coo.mulVec exA exX i = 2 * Coo.mulVec exB exX i := by
  intro i
  by_cases h0 : i = 0
  · subst h0; simp [Coo.mulVec, exA, exB, exX]; norm_num
  · by_cases h1 : i = 1
    · subst h1; simp [Coo.mulVec, exA, exB, exX]; norm_num
    · have h0' : ¬ 0 = i := fun h => h0 h.symm
      have h1' : ¬ 1 = i := fun h => h1 h.symm
      simp [Coo.mulVec, exA, exB, h0', h1']

theorem exY_eig : ∀ i, Coo.mulVec exA exY i = 0 * Coo.mulVec exB exY i := by
  intro i
  by_cases h0 : i = 0
  · subst h0; simp [Coo.mulVec, exA, exB, exY]
  · by_cases h1 : i = 1
    · subst h1; simp [Coo.mulVec, exA, exB, exY]
    · have h0' : ¬ 0 = i := fun h => h0 h.symm
      have h1' : ¬ 1 = i := fun h => h1 h.symm
      simp [Coo.mulVec, exA, exB, h0', h1']

theorem ex_symm : (∀ f g, Coo.form exA f g = Coo.form exA g f) ∧ (∀ f g, Coo.form exB f g = Coo.form exB g f) := by
  constructor <;> intro f g <;> simp [Coo.form, exA, exB] <;> ring

/-- the conclusions on the example: `λ = 2 ≥ 0`, `xᵀBy = 0`, and `x/(2+0.01)` solves the shifted system -/
example : Coo.form exB exX exY = 0 :=
  eig_B_orth exA exB exX exY 2 0 ex_symm.1 ex_symm.2 exX_eig exY_eig (by norm_num)

example : ∀ i, Coo.mulVec (shiftMat (-0.01) exA exB) (fun k => (1 / (2 - (-0.01))) * exX k) i = Coo.mulVec exB exX i :=
  shift_pairs exA exB (-0.01) 2 exX (by norm_num) exX_eig

example : (0 : ℝ) < 1 / (2 - (-0.01)) ∧ (1 : ℝ) / (2 - (-0.01)) < 1 / (0 - (-0.01)) := by
  have := shift_order (-0.01) 0 2 (by norm_num) (by norm_num) (by norm_num)
  exact ⟨(shift_order (-0.01) 2 0 (by norm_num) (by norm_num) (by norm_num)).1, this.2.2.mp (by norm_num)⟩

/-- two triangles sharing an edge are one component: `0` and `3` are connected -/
example : EdgeConnected [(0, 1, 2), (2, 1, 3)] 0 3 :=
  .step (2, 1, 3) (by simp) (j := 1) (by simp) (by simp) (.step (0, 1, 2) (by simp) (j := 0) (by simp) (by simp) (.refl 0))

/-- a non-degenerate one-triangle mesh: the hypotheses of the kernel theorems are satisfiable, and the constant function
    is in the kernel -/
theorem ex_nonDegenTri : NonDegenTri (vtx3 ⟨0, 0, 0⟩ ⟨1, 0, 0⟩ ⟨0, 1, 0⟩) [(0, 1, 2)] := by
  intro τ hτ
  simp only [List.mem_cons, List.not_mem_nil, or_false] at hτ
  subst hτ
  have : Fem.triVol (vtx3 (⟨0, 0, 0⟩ : V3 ℝ) ⟨1, 0, 0⟩ ⟨0, 1, 0⟩ 0) (vtx3 (⟨0, 0, 0⟩ : V3 ℝ) ⟨1, 0, 0⟩ ⟨0, 1, 0⟩ 1)
      (vtx3 (⟨0, 0, 0⟩ : V3 ℝ) ⟨1, 0, 0⟩ ⟨0, 1, 0⟩ 2) = 2 := by
    simp only [Fem.triVol, Fem.triCr, vtx3]; v3_flat; norm_num
  rw [this, epsK_real]; norm_num

example : ∀ i, Coo.mulVec (Fem.stiffTria (vtx3 (⟨0, 0, 0⟩ : V3 ℝ) ⟨1, 0, 0⟩ ⟨0, 1, 0⟩) [(0, 1, 2)])
    (fun _ => (5 : ℝ)) i = 0 :=
  (kernel_iff _ _ ex_nonDegenTri (fun _ => (5 : ℝ))).mpr (by simp)

end Examples

end LapyVerif.Props.C03
