import Mathlib.Tactic.Ring
import Mathlib.Tactic.Linarith
import LapyVerif.Lemmas.BridgeTac
import Mathlib.Algebra.Group.Nat.Even
import LapyVerif.Model.TetTopo
import LapyVerif.Model.Measures
import LapyVerif.Lemmas.TetLemmas
/-
  C12 — `TetMesh.orient_`, `is_oriented`, `boundary_tria` (model: `Model/TetTopo.lean`).
-/

namespace LapyVerif.Props.C12
open LapyVerif V3 TetTopo TetLemmas

/-! ## 1. `is_oriented` -/

/-- the empty mesh: `np.max` of an empty array raises in the code; the model answers `false` (first branch, vacuous `all`)
    although "all signed volumes positive" holds vacuously.  Hence the hypothesis `ts ≠ []` of `isOriented_iff`. -/
theorem isOriented_nil (vtx : Nat → V3 ℝ) : TetTopo.isOriented vtx [] = false := by
  simp [TetTopo.isOriented]

/-- **`is_oriented` is true iff all signed volumes are positive** (non-empty mesh).  Branch structure: the first branch
    (`max < 0`, answer `false`) cannot be taken when all volumes are positive and the mesh is non-empty; the second
    branch answers `true` exactly when all are positive; the last answers `false`. -/
theorem isOriented_iff (vtx : Nat → V3 ℝ) (ts : List Tet) (hne : ts ≠ []) :
    TetTopo.isOriented vtx ts = true ↔ ∀ τ ∈ ts, 0 < TetTopo.signedVol vtx τ := by
  unfold TetTopo.isOriented
  simp only [List.all_map, List.all_eq_true, Function.comp_apply, decide_eq_true_eq]
  constructor
  · intro h
    split_ifs at h with h1 h2
    · exact h2
  · intro h
    have hnot : ¬ ∀ x ∈ ts, TetTopo.signedVol vtx x < 0 := by
      intro hall
      obtain ⟨τ, hτ⟩ := List.exists_mem_of_ne_nil ts hne
      have := h τ hτ; have := hall τ hτ
      linarith
    rw [if_neg hnot, if_pos h]

/-! ## 2. `orient_` -/

/-- the swap of columns 1 and 2 -/
def swap12 (τ : Tet) : Tet := (τ.1, τ.2.2.1, τ.2.1, τ.2.2.2)

/-- the vertices of a tetrahedron as a list -/
def tetVerts (τ : Tet) : List Nat := [τ.1, τ.2.1, τ.2.2.1, τ.2.2.2]

/-- **swapping two vertices negates the signed volume** -/
theorem signedVol_swap (vtx : Nat → V3 ℝ) (τ : Tet) :
    TetTopo.signedVol vtx (τ.1, τ.2.2.1, τ.2.1, τ.2.2.2) = - TetTopo.signedVol vtx τ := by
  simp only [TetTopo.signedVol]; v3_flat; ring

theorem swap12_verts (τ : Tet) : (tetVerts (swap12 τ)).Perm (tetVerts τ) := by
  simp only [tetVerts, swap12]
  exact List.Perm.cons _ (List.Perm.swap _ _ _)

/-- what `orient` does to one tetrahedron -/
noncomputable def orient1 (vtx : Nat → V3 ℝ) (τ : Tet) : Tet :=
  if TetTopo.signedVol vtx τ < 0 then swap12 τ else τ

theorem filter_id_length_eq_zero {l : List Bool} (h : (l.filter id).length = 0) : ∀ b ∈ l, b = false := by
  intro b hb
  cases b with
  | false => rfl
  | true =>
    have : true ∈ l.filter id := List.mem_filter.mpr ⟨hb, rfl⟩
    rw [List.length_eq_zero_iff.mp h] at this
    exact absurd this List.not_mem_nil

theorem zip_map_eq {α β γ : Type} (l : List α) (f : α → β) (g : α × β → γ) :
    (l.zip (l.map f)).map g = l.map (fun a => g (a, f a)) := by
  induction l with
  | nil => rfl
  | cons a t ih => simp [ih]

/-- the tetrahedron list returned by `orient`, whichever branch is taken -/
theorem orient_fst (vtx : Nat → V3 ℝ) (ts : List Tet) :
    (TetTopo.orient vtx ts).1 = ts.map (orient1 vtx) := by
  unfold TetTopo.orient
  simp only
  split_ifs with h
  · simp only [beq_iff_eq] at h
    have hall := filter_id_length_eq_zero h
    simp only [List.mem_map, forall_exists_index, and_imp, forall_apply_eq_imp_iff₂, decide_eq_false_iff_not] at hall
    symm
    calc ts.map (orient1 vtx) = ts.map id := by
            apply List.map_congr_left
            intro τ hτ
            simp only [orient1, if_neg (hall τ hτ), id]
      _ = ts := List.map_id _
  · simp only [zip_map_eq]
    apply List.map_congr_left
    intro τ _
    simp only [orient1, swap12, decide_eq_true_eq]

/-- the number returned by `orient` is the number of tetrahedra with negative signed volume -/
theorem orient_snd (vtx : Nat → V3 ℝ) (ts : List Tet) :
    (TetTopo.orient vtx ts).2 = ts.countP (fun τ => decide (TetTopo.signedVol vtx τ < 0)) := by
  unfold TetTopo.orient
  simp only
  have hc : ((ts.map fun τ => decide (TetTopo.signedVol vtx τ < 0)).filter id).length
      = ts.countP (fun τ => decide (TetTopo.signedVol vtx τ < 0)) := by
    rw [List.countP_eq_length_filter, List.filter_map, List.length_map]; rfl
  split_ifs with h
  · simp only [beq_iff_eq] at h
    rw [← hc, h]
  · exact hc

/-- **specification of `orient_`**: same number of tetrahedra in the same order; tetrahedron `k` is untouched unless its
    signed volume is negative, in which case its vertices 1 and 2 are swapped; the returned number is the number of
    negative tetrahedra; every tetrahedron keeps its vertex set (even as a multiset). Coordinates are not an output of
    `orient` (the vertex array `vtx` is only read). -/
theorem orient_spec (vtx : Nat → V3 ℝ) (ts : List Tet) :
    (TetTopo.orient vtx ts).1.length = ts.length ∧
    (∀ k (h : k < ts.length) (h' : k < (TetTopo.orient vtx ts).1.length),
        (¬ TetTopo.signedVol vtx ts[k] < 0 → (TetTopo.orient vtx ts).1[k] = ts[k]) ∧
        (TetTopo.signedVol vtx ts[k] < 0 →
          (TetTopo.orient vtx ts).1[k] = (ts[k].1, ts[k].2.2.1, ts[k].2.1, ts[k].2.2.2)) ∧
        (tetVerts (TetTopo.orient vtx ts).1[k]).Perm (tetVerts ts[k])) ∧
    (TetTopo.orient vtx ts).2 = ts.countP (fun τ => decide (TetTopo.signedVol vtx τ < 0)) := by
  refine ⟨by rw [orient_fst, List.length_map], ?_, orient_snd vtx ts⟩
  intro k h h'
  have hk : (TetTopo.orient vtx ts).1[k] = orient1 vtx ts[k] := by
    simp only [orient_fst, List.getElem_map]
  rw [hk]
  refine ⟨fun hn => by simp only [orient1, if_neg hn], fun hn => by simp only [orient1, if_pos hn, swap12], ?_⟩
  unfold orient1
  split_ifs
  · exact swap12_verts _
  · exact List.Perm.refl _

/-- after `orient`, no tetrahedron has negative signed volume -/
theorem orient1_nonneg (vtx : Nat → V3 ℝ) (τ : Tet) : ¬ TetTopo.signedVol vtx (orient1 vtx τ) < 0 := by
  unfold orient1
  split_ifs with h
  · have := signedVol_swap vtx τ
    simp only [swap12]; rw [this]; linarith
  · exact h

theorem orient1_pos (vtx : Nat → V3 ℝ) (τ : Tet) (h0 : TetTopo.signedVol vtx τ ≠ 0) :
    0 < TetTopo.signedVol vtx (orient1 vtx τ) := by
  unfold orient1
  split_ifs with h
  · have := signedVol_swap vtx τ
    simp only [swap12]; rw [this]; linarith
  · exact lt_of_le_of_ne (not_lt.mp h) (Ne.symm h0)

/-- **after `orient_`, `is_oriented` is true** if no tetrahedron is degenerate (and the mesh is not empty) -/
theorem orient_oriented (vtx : Nat → V3 ℝ) (ts : List Tet) (hne : ts ≠ [])
    (hnd : ∀ τ ∈ ts, TetTopo.signedVol vtx τ ≠ 0) :
    TetTopo.isOriented vtx (TetTopo.orient vtx ts).1 = true := by
  rw [orient_fst, isOriented_iff _ _ (by simpa using hne)]
  intro τ hτ
  obtain ⟨σ, hσ, rfl⟩ := List.mem_map.mp hτ
  exact orient1_pos vtx σ (hnd σ hσ)

/-- a mesh without negative tetrahedra is returned unchanged, with count 0 -/
theorem orient_of_no_neg (vtx : Nat → V3 ℝ) (ts : List Tet) (h : ∀ τ ∈ ts, ¬ TetTopo.signedVol vtx τ < 0) :
    TetTopo.orient vtx ts = (ts, 0) := by
  have h2 : (TetTopo.orient vtx ts).2 = 0 := by
    rw [orient_snd, List.countP_eq_zero]
    intro τ hτ; simpa using h τ hτ
  have h1 : (TetTopo.orient vtx ts).1 = ts := by
    rw [orient_fst]
    calc ts.map (orient1 vtx) = ts.map id := by
            apply List.map_congr_left
            intro τ hτ
            simp only [orient1, if_neg (h τ hτ), id]
      _ = ts := List.map_id _
  exact Prod.ext h1 h2

/-- **`orient_` is idempotent**: a second call changes nothing and reports 0 flips (degenerate tetrahedra allowed) -/
theorem orient_idempotent (vtx : Nat → V3 ℝ) (ts : List Tet) :
    TetTopo.orient vtx (TetTopo.orient vtx ts).1 = ((TetTopo.orient vtx ts).1, 0) := by
  apply orient_of_no_neg
  rw [orient_fst]
  intro τ hτ
  obtain ⟨σ, _, rfl⟩ := List.mem_map.mp hτ
  exact orient1_nonneg vtx σ

/-! ## 3. `boundary_tria` -/

/-- the key (sorted vertex triple) of an entry of the face table -/
abbrev keyOf (e : Tri × Nat) : Nat × Nat × Nat := faceKey e.1

/-- how often a key occurs among the `4·|ts|` faces -/
def keyCount (ts : List Tet) (k : Nat × Nat × Nat) : Nat := ((allFaces ts).map keyOf).count k

theorem allFaces_length (ts : List Tet) : (allFaces ts).length = 4 * ts.length := TetLemmas.allFaces_length ts

/-- **`sort3` sorts**: the result is a permutation of the input and ascending -/
theorem sort3_spec (a b c : Nat) :
    [(sort3 a b c).1, (sort3 a b c).2.1, (sort3 a b c).2.2].Perm [a, b, c] ∧
    (sort3 a b c).1 ≤ (sort3 a b c).2.1 ∧ (sort3 a b c).2.1 ≤ (sort3 a b c).2.2 :=
  ⟨sort3_perm a b c, sort3_sorted a b c⟩

theorem uniq_iff_keyCount (ts : List Tet) (e : Tri × Nat) :
    uniq keyOf (allFaces ts) e = true ↔ keyCount ts (keyOf e) = 1 := by
  simp only [uniq, keyCount, cls_length_eq_count, beq_iff_eq]

/-- membership in `boundaryFaces`: a face of the table whose key occurs exactly once -/
theorem mem_boundaryFaces_iff (ts : List Tet) (e : Tri × Nat) :
    e ∈ boundaryFaces ts ↔ e ∈ allFaces ts ∧ keyCount ts (keyOf e) = 1 := by
  rw [(boundaryFaces_perm ts).mem_iff, List.mem_filter]
  exact and_congr_right fun _ => uniq_iff_keyCount ts e

/-- (d) **the index stored with a boundary face is the index of a tetrahedron that has this face** (in the table's
    winding) — this is what hands a per-tetrahedron function value to the face -/
theorem bnd_owner (ts : List Tet) (f : Tri) (k : Nat) (h : (f, k) ∈ boundaryFaces ts) :
    ∃ hk : k < ts.length, f ∈ tetFaces ts[k] :=
  mem_allFaces.mp ((mem_boundaryFaces_iff ts (f, k)).mp h).1

theorem lex3_trans (a b c : Nat × Nat × Nat) (h1 : lex3 a b = true) (h2 : lex3 b c = true) : lex3 a c = true := by
  simp only [lex3, Bool.or_eq_true, decide_eq_true_eq, Bool.and_eq_true, beq_iff_eq] at *
  omega

theorem lex3_total (a b : Nat × Nat × Nat) : (lex3 a b || lex3 b a) = true := by
  simp only [lex3, Bool.or_eq_true, decide_eq_true_eq, Bool.and_eq_true, beq_iff_eq]
  omega

/-- the boundary faces are listed in the lexicographic order of their sorted triples (`np.unique(axis=0)`) -/
theorem boundaryFaces_sorted (ts : List Tet) :
    (boundaryFaces ts).Pairwise (fun a b => lex3 (keyOf a) (keyOf b) = true) := by
  unfold boundaryFaces
  simp only
  rw [List.pairwise_map]
  have hs := List.pairwise_mergeSort
    (le := fun a b : (Nat × Nat × Nat) × Tri × Nat => lex3 a.1 b.1)
    (fun a b c => lex3_trans a.1 b.1 c.1) (fun a b => lex3_total a.1 b.1)
    (List.filter (fun e => (List.filter (fun e' => e'.1 == e.1)
        (List.map (fun x => (sort3 x.1.1 x.1.2.1 x.1.2.2, x.1, x.2)) (allFaces ts))).length == 1)
      (List.map (fun x => (sort3 x.1.1 x.1.2.1 x.1.2.2, x.1, x.2)) (allFaces ts)))
  refine hs.imp_of_mem ?_
  intro a b ha hb hab
  rw [List.mem_mergeSort, List.mem_filter, List.mem_map] at ha hb
  obtain ⟨⟨x, _, rfl⟩, _⟩ := ha
  obtain ⟨⟨y, _, rfl⟩, _⟩ := hb
  exact hab

/-- **specification of `boundary_tria`**.
    (a) every boundary entry is an entry of the face table;
    (b) an entry of the face table is a boundary entry iff its key occurs exactly once among the `4·|ts|` faces —
        (b') equivalently, iff no other *position* of the table carries the same key;
    (c) no two boundary entries have the same key (each boundary face is listed once). -/
theorem boundaryFaces_spec (ts : List Tet) :
    (∀ e ∈ boundaryFaces ts, e ∈ allFaces ts) ∧
    (∀ e ∈ allFaces ts, e ∈ boundaryFaces ts ↔ keyCount ts (keyOf e) = 1) ∧
    (∀ i (hi : i < (allFaces ts).length), (allFaces ts)[i] ∈ boundaryFaces ts ↔
        ∀ j (hj : j < (allFaces ts).length), keyOf (allFaces ts)[j] = keyOf (allFaces ts)[i] → j = i) ∧
    ((boundaryFaces ts).map keyOf).Nodup := by
  refine ⟨fun e he => ((mem_boundaryFaces_iff ts e).mp he).1,
    fun e he => by rw [mem_boundaryFaces_iff]; exact and_iff_right he, ?_, ?_⟩
  · intro i hi
    rw [mem_boundaryFaces_iff]
    have hlen : i < ((allFaces ts).map keyOf).length := by simpa using hi
    have hget : ((allFaces ts).map keyOf)[i] = keyOf (allFaces ts)[i] := by simp
    have := count_getElem_eq_one_iff ((allFaces ts).map keyOf) i hlen
    rw [hget] at this
    rw [keyCount, and_iff_right (List.getElem_mem hi), this]
    constructor
    · intro h j hj hk
      exact h j (by simpa using hj) (by simpa using hk)
    · intro h j hj hk
      exact h j (by simpa using hj) (by simpa using hk)
  · exact ((boundaryFaces_perm ts).map keyOf).nodup_iff.mpr (nodup_map_filter_uniq keyOf (allFaces ts))

/-- (c') in particular the list of boundary entries has no repetition -/
theorem boundaryFaces_nodup (ts : List Tet) : (boundaryFaces ts).Nodup :=
  List.Nodup.of_map _ (boundaryFaces_spec ts).2.2.2

/-! ## 4./5. geometry of the face table -/

-- `tetFaces τ` (in `Lemmas/TetLemmas.lean`) lists the four faces of `τ` in the winding of the code's table
-- `[3,1,2],[2,0,3],[1,3,0],[0,2,1]`; `faceKey f = sort3 f.1 f.2.1 f.2.2` is the sorted triple of a face.

/-- the vertex opposite to each face of `tetFaces`, in the same order -/
def tetOpposite (τ : Tet) : List Nat := [τ.1, τ.2.1, τ.2.2.1, τ.2.2.2]

/-- `normal(p,q,r) · (o - p)`: positive iff `o` lies on the side the winding's normal points to -/
def sideOf (vtx : Nat → V3 ℝ) (f : Tri) (o : Nat) : ℝ :=
  dot (cross (vtx f.2.1 - vtx f.1) (vtx f.2.2 - vtx f.1)) (vtx o - vtx f.1)

/-- the origin-cone term of `TriaMesh.volume()` for one triangle (six times the signed volume of the cone) -/
def cone (vtx : Nat → V3 ℝ) (f : Tri) : ℝ :=
  dot (vtx f.1) (cross (vtx f.2.1 - vtx f.1) (vtx f.2.2 - vtx f.1))

/-- for every listed face, the opposite vertex is on the negative side by exactly the signed volume -/
theorem sideOf_eq (vtx : Nat → V3 ℝ) (τ : Tet) :
    sideOf vtx (τ.2.2.2, τ.2.1, τ.2.2.1) τ.1 = - TetTopo.signedVol vtx τ ∧
    sideOf vtx (τ.2.2.1, τ.1, τ.2.2.2) τ.2.1 = - TetTopo.signedVol vtx τ ∧
    sideOf vtx (τ.2.1, τ.2.2.2, τ.1) τ.2.2.1 = - TetTopo.signedVol vtx τ ∧
    sideOf vtx (τ.1, τ.2.2.1, τ.2.1) τ.2.2.2 = - TetTopo.signedVol vtx τ := by
  refine ⟨?_, ?_, ?_, ?_⟩ <;> (simp only [sideOf, TetTopo.signedVol]; v3_flat; ring)

/-- **the listed winding of every face of a positively oriented tetrahedron points away from the fourth vertex** -/
theorem bnd_outward (vtx : Nat → V3 ℝ) (τ : Tet) (h : 0 < TetTopo.signedVol vtx τ) :
    ∀ i (hi : i < 4), sideOf vtx ((tetFaces τ)[i]'(by simpa [tetFaces] using hi))
        ((tetOpposite τ)[i]'(by simpa [tetOpposite] using hi)) < 0 := by
  obtain ⟨h0, h1, h2, h3⟩ := sideOf_eq vtx τ
  intro i hi
  match i, hi with
  | 0, _ => simp only [tetFaces, tetOpposite, List.getElem_cons_zero]; linarith
  | 1, _ => simp only [tetFaces, tetOpposite, List.getElem_cons_succ, List.getElem_cons_zero]; linarith
  | 2, _ => simp only [tetFaces, tetOpposite, List.getElem_cons_succ, List.getElem_cons_zero]; linarith
  | 3, _ => simp only [tetFaces, tetOpposite, List.getElem_cons_succ, List.getElem_cons_zero]; linarith

/-- the same, written out for `τ = (a,b,c,d)` -/
theorem bnd_outward' (vtx : Nat → V3 ℝ) (a b c d : Nat) (h : 0 < TetTopo.signedVol vtx (a, b, c, d)) :
    dot (cross (vtx b - vtx d) (vtx c - vtx d)) (vtx a - vtx d) < 0 ∧
    dot (cross (vtx a - vtx c) (vtx d - vtx c)) (vtx b - vtx c) < 0 ∧
    dot (cross (vtx d - vtx b) (vtx a - vtx b)) (vtx c - vtx b) < 0 ∧
    dot (cross (vtx c - vtx a) (vtx b - vtx a)) (vtx d - vtx a) < 0 := by
  obtain ⟨h0, h1, h2, h3⟩ := sideOf_eq vtx (a, b, c, d)
  simp only [sideOf] at h0 h1 h2 h3
  refine ⟨?_, ?_, ?_, ?_⟩ <;> linarith

/-- **divergence theorem on one tetrahedron**: the origin-cone terms of its four listed faces add up to its signed
    volume (whatever its orientation, degenerate or not) -/
theorem face_volume_sum (vtx : Nat → V3 ℝ) (τ : Tet) :
    ((tetFaces τ).map (cone vtx)).sum = TetTopo.signedVol vtx τ := by
  simp only [tetFaces, cone, TetTopo.signedVol, List.map_cons, List.map_nil, List.sum_cons, List.sum_nil]
  v3_flat; ring

theorem face_volume_sum' (vtx : Nat → V3 ℝ) (τ : Tet) :
    cone vtx (τ.2.2.2, τ.2.1, τ.2.2.1) + cone vtx (τ.2.2.1, τ.1, τ.2.2.2) + cone vtx (τ.2.1, τ.2.2.2, τ.1)
      + cone vtx (τ.1, τ.2.2.1, τ.2.1) = TetTopo.signedVol vtx τ := by
  simp only [cone, TetTopo.signedVol]; v3_flat; ring

/-- **reversing the winding negates the cone term; cyclic rotation leaves it unchanged** -/
theorem face_reverse (vtx : Nat → V3 ℝ) (p q r : Nat) :
    cone vtx (p, r, q) = - cone vtx (p, q, r) ∧ cone vtx (q, r, p) = cone vtx (p, q, r) ∧
    cone vtx (r, p, q) = cone vtx (p, q, r) := by
  refine ⟨?_, ?_, ?_⟩ <;> (simp only [cone]; v3_flat; ring)

/-! ## 6. the boundary surface of a tetrahedral mesh -/

/-- `g` is `f` with two vertices exchanged (the three odd permutations of a triple) -/
def OddPerm (f g : Tri) : Prop :=
  g = (f.1, f.2.2, f.2.1) ∨ g = (f.2.2, f.2.1, f.1) ∨ g = (f.2.1, f.1, f.2.2)

instance (f g : Tri) : Decidable (OddPerm f g) := by unfold OddPerm; infer_instance

/-- every face (sorted triple) belongs to at most two tetrahedra -/
def FaceManifold (ts : List Tet) : Prop := ∀ e ∈ allFaces ts, keyCount ts (keyOf e) ≤ 2

instance (ts : List Tet) : Decidable (FaceManifold ts) := by unfold FaceManifold; infer_instance

/-- two entries of the face table with the same key have opposite windings (as is the case for the common face of two
    positively oriented tetrahedra lying on different sides of it) -/
def OppositeShared (ts : List Tet) : Prop :=
  (allFaces ts).Pairwise (fun a b => keyOf a = keyOf b → OddPerm a.1 b.1)

instance (ts : List Tet) : Decidable (OppositeShared ts) := by unfold OppositeShared; infer_instance

/-- positional reading of `OppositeShared` -/
theorem oppositeShared_iff (ts : List Tet) :
    OppositeShared ts ↔ ∀ i j (hi : i < (allFaces ts).length) (hj : j < (allFaces ts).length), i < j →
      keyOf (allFaces ts)[i] = keyOf (allFaces ts)[j] → OddPerm (allFaces ts)[i].1 (allFaces ts)[j].1 :=
  List.pairwise_iff_getElem

theorem cone_oddPerm (vtx : Nat → V3 ℝ) (f g : Tri) (h : OddPerm f g) : cone vtx g = - cone vtx f := by
  rcases h with rfl | rfl | rfl <;> (simp only [cone]; v3_flat; ring)

/-- under `FaceManifold` every key class of the face table has at most two elements -/
theorem cls_length_le_two (ts : List Tet) (hm : FaceManifold ts) (k : Nat × Nat × Nat) :
    (cls keyOf (allFaces ts) k).length ≤ 2 := by
  rcases hc : cls keyOf (allFaces ts) k with _ | ⟨x, r⟩
  · simp
  · have hx : x ∈ cls keyOf (allFaces ts) k := by rw [hc]; exact List.mem_cons_self
    obtain ⟨hxa, hxk⟩ := List.mem_filter.mp hx
    have hxk' : keyOf x = k := by simpa using hxk
    have := hm x hxa
    rw [keyCount, ← cls_length_eq_count, hxk', hc] at this
    exact this

theorem mem_cls_key {ts : List Tet} {k : Nat × Nat × Nat} {x : Tri × Nat} (hx : x ∈ cls keyOf (allFaces ts) k) :
    keyOf x = k := by
  simpa using (List.mem_filter.mp hx).2

/-- interior faces cancel in pairs: every key class that is not a singleton has cone sum `0` -/
theorem class_cone_sum (vtx : Nat → V3 ℝ) (ts : List Tet) (hm : FaceManifold ts) (ho : OppositeShared ts)
    (k : Nat × Nat × Nat) :
    (cls keyOf (allFaces ts) k).length = 1 ∨
      ((cls keyOf (allFaces ts) k).map (fun e => cone vtx e.1)).sum = 0 := by
  have hle := cls_length_le_two ts hm k
  have hpw : (cls keyOf (allFaces ts) k).Pairwise (fun a b => keyOf a = keyOf b → OddPerm a.1 b.1) :=
    List.Pairwise.filter _ ho
  have hkey : ∀ x ∈ cls keyOf (allFaces ts) k, keyOf x = k := fun x hx => mem_cls_key hx
  match hc : cls keyOf (allFaces ts) k, hle, hpw, hkey with
  | [], _, _, _ => right; simp
  | [x], _, _, _ => left; simp
  | [x, y], _, hpw, hkey =>
    right
    have hxy : OddPerm x.1 y.1 := by
      have := List.pairwise_cons.mp hpw
      exact this.1 y (by simp) ((hkey x (by simp)).trans (hkey y (by simp)).symm)
    have := cone_oddPerm vtx _ _ hxy
    simp only [List.map_cons, List.map_nil, List.sum_cons, List.sum_nil, this]
    ring
  | _ :: _ :: _ :: _, hle, _, _ => simp at hle

/-- **the boundary's cone sum equals the sum of the tetrahedra's signed volumes** (interior faces cancel in pairs) -/
theorem bnd_volume_cone (vtx : Nat → V3 ℝ) (ts : List Tet) (hm : FaceManifold ts) (ho : OppositeShared ts) :
    ((boundaryFaces ts).map (fun e => cone vtx e.1)).sum = (ts.map (TetTopo.signedVol vtx)).sum := by
  obtain ⟨r, hr, hsum⟩ := sum_eq_uniq_add keyOf (fun e : Tri × Nat => cone vtx e.1) (fun x => x = 0) rfl
    (fun a b ha hb => by rw [ha, hb, add_zero]) (allFaces ts) (class_cone_sum vtx ts hm ho)
  rw [((boundaryFaces_perm ts).map _).sum_eq, ← add_zero (List.sum _), ← hr, ← hsum,
    allFaces_sum (cone vtx) ts]
  congr 1
  exact List.map_congr_left (fun τ _ => face_volume_sum vtx τ)

theorem sum_div_six {α : Type} (g : α → ℝ) (l : List α) : (l.map (fun τ => g τ / 6)).sum = (l.map g).sum / 6 := by
  induction l with
  | nil => simp
  | cons a t ih => simp only [List.map_cons, List.sum_cons, ih]; ring

/-- **`TriaMesh.volume`'s divergence sum of the boundary surface equals the sum of the tetrahedra's volumes**
    (`signedVol/6` each) -/
theorem bnd_volume (vtx : Nat → V3 ℝ) (ts : List Tet) (hm : FaceManifold ts) (ho : OppositeShared ts) :
    Measures.volumeSum vtx ((boundaryFaces ts).map (·.1)) = (ts.map (fun τ => TetTopo.signedVol vtx τ / 6)).sum := by
  have h := bnd_volume_cone vtx ts hm ho
  rw [sum_div_six, ← h]
  simp only [Measures.volumeSum, Measures.c, List.map_map]
  push_cast
  rfl

/-! ### closedness (∂∂ = 0) -/

/-- the triangle `f` contains both `x` and `y` (for `x ≠ y`: it contains the undirected edge `{x,y}`) -/
def hasEdge (f : Tri) (x y : Nat) : Bool :=
  decide (x ∈ [f.1, f.2.1, f.2.2]) && decide (y ∈ [f.1, f.2.1, f.2.2])

/-- the four vertices of the tetrahedron are pairwise different -/
def TetDistinct (τ : Tet) : Prop := (tetVerts τ).Nodup

instance (τ : Tet) : Decidable (TetDistinct τ) := by unfold TetDistinct; infer_instance

/-- containing an edge only depends on the sorted triple -/
theorem hasEdge_of_key_eq {f g : Tri} (h : faceKey f = faceKey g) (x y : Nat) : hasEdge f x y = hasEdge g x y := by
  have hf := fun v => mem_sort3 f.1 f.2.1 f.2.2 v
  have hg := fun v => mem_sort3 g.1 g.2.1 g.2.2 v
  simp only [faceKey] at h
  simp only [h] at hf
  simp only [hasEdge, ← hf, ← hg]

/-- every tetrahedron with four different vertices has 0 or 2 faces at a given edge -/
theorem tet_edge_even (τ : Tet) (hd : TetDistinct τ) (x y : Nat) (hxy : x ≠ y) :
    Even (((tetFaces τ).map (fun f => if hasEdge f x y then 1 else 0)).sum) := by
  obtain ⟨a, b, c, d⟩ := τ
  simp only [TetDistinct, tetVerts, List.nodup_cons, List.mem_cons, List.not_mem_nil, or_false, not_or,
    List.nodup_nil, and_true, not_false_eq_true] at hd
  obtain ⟨⟨hab, hac, had⟩, ⟨hbc, hbd⟩, hcd⟩ := hd
  simp only [tetFaces, hasEdge, List.map_cons, List.map_nil, List.sum_cons, List.sum_nil, List.mem_cons,
    List.not_mem_nil, or_false, Bool.and_eq_true, decide_eq_true_eq]
  rw [Nat.even_iff]
  split_ifs <;> omega

theorem even_sum_of_forall_even (l : List Nat) (h : ∀ a ∈ l, Even a) : Even l.sum := by
  induction l with
  | nil => simp
  | cons a t ih =>
    rw [List.sum_cons]
    exact (h a List.mem_cons_self).add (ih fun b hb => h b (List.mem_cons_of_mem _ hb))

/-- **∂∂ = 0**: every undirected edge lies in an even number of boundary faces -/
theorem bnd_closed_edges (ts : List Tet) (hd : ∀ τ ∈ ts, TetDistinct τ) (hm : FaceManifold ts)
    (x y : Nat) (hxy : x ≠ y) :
    Even ((boundaryFaces ts).countP (fun e => hasEdge e.1 x y)) := by
  let w : Tri × Nat → Nat := fun e => if hasEdge e.1 x y then 1 else 0
  have hcls : ∀ k, (cls keyOf (allFaces ts) k).length = 1 ∨ Even (((cls keyOf (allFaces ts) k).map w).sum) := by
    intro k
    have hle := cls_length_le_two ts hm k
    have hkey : ∀ e ∈ cls keyOf (allFaces ts) k, keyOf e = k := fun e he => mem_cls_key he
    match hc : cls keyOf (allFaces ts) k, hle, hkey with
    | [], _, _ => right; simp
    | [_], _, _ => left; simp
    | [a, b], _, hkey =>
      right
      have hab : hasEdge a.1 x y = hasEdge b.1 x y :=
        hasEdge_of_key_eq ((hkey a (by simp)).trans (hkey b (by simp)).symm) x y
      simp only [w, List.map_cons, List.map_nil, List.sum_cons, List.sum_nil, hab]
      split_ifs <;> decide
    | _ :: _ :: _ :: _, hle, _ => simp at hle
  obtain ⟨r, hr, hsum⟩ := sum_eq_uniq_add keyOf w Even (by decide) (fun a b ha hb => ha.add hb) (allFaces ts) hcls
  have hall : Even (((allFaces ts).map w).sum) := by
    rw [allFaces_sum (fun f => if hasEdge f x y then 1 else 0) ts]
    apply even_sum_of_forall_even
    intro n hn
    obtain ⟨τ, hτ, rfl⟩ := List.mem_map.mp hn
    exact tet_edge_even τ (hd τ hτ) x y hxy
  rw [hsum, Nat.even_add] at hall
  have hb : Even (((List.filter (uniq keyOf (allFaces ts)) (allFaces ts)).map w).sum) := hall.mpr hr
  rw [← ((boundaryFaces_perm ts).map w).sum_eq] at hb
  rw [← sum_map_ite_eq_countP]
  exact hb

/-- `adj_sym[i,j]` of a triangle list is the number of occurrences of `(i,j)` among its `symKeys` -/
theorem entry_adjSym (T : List Tri) (i j : Nat) :
    Coo.entry (Topo.adjSym T) i j = (Topo.symKeys T).count (i, j) := by
  unfold Topo.adjSym
  induction Topo.symKeys T with
  | nil => rfl
  | cons k ks ih =>
    obtain ⟨a, b⟩ := k
    simp only [Coo.entry] at ih
    by_cases h : a = i ∧ b = j
    · obtain ⟨rfl, rfl⟩ := h
      simp [Coo.entry, ih, Nat.add_comm]
    · have h' : ¬ (a, b) = (i, j) := by simpa using h
      have hb : (a == i && b == j) = false := by simpa using h
      simp [Coo.entry, hb, h', ih]

/-- for a triangle with three different vertices, each undirected edge is stored once per direction -/
theorem tri_symKeys_count (f : Tri) (hf : [f.1, f.2.1, f.2.2].Nodup) (x y : Nat) :
    (Topo.symKeys [f]).count (x, y) = if x ≠ y ∧ hasEdge f x y then 1 else 0 := by
  obtain ⟨a, b, c⟩ := f
  simp only [List.nodup_cons, List.mem_cons, List.not_mem_nil, or_false, not_or, List.nodup_nil, and_true,
    not_false_eq_true] at hf
  obtain ⟨⟨hab, hac⟩, hbc⟩ := hf
  simp only [Topo.symKeys, List.flatMap_cons, List.flatMap_nil, List.append_nil, List.count_cons, List.count_nil,
    beq_iff_eq, Prod.mk.injEq, hasEdge, List.mem_cons, List.not_mem_nil, or_false, Bool.and_eq_true,
    decide_eq_true_eq]
  split_ifs <;> omega

theorem symKeys_count (T : List Tri) (hT : ∀ f ∈ T, [f.1, f.2.1, f.2.2].Nodup) (x y : Nat) :
    (Topo.symKeys T).count (x, y) = if x ≠ y then T.countP (fun f => hasEdge f x y) else 0 := by
  induction T with
  | nil => simp [Topo.symKeys]
  | cons f t ih =>
    have hsplit : Topo.symKeys (f :: t) = Topo.symKeys [f] ++ Topo.symKeys t := by
      simp [Topo.symKeys]
    rw [hsplit, List.count_append, ih (fun g hg => hT g (List.mem_cons_of_mem _ hg)),
      tri_symKeys_count f (hT f List.mem_cons_self), List.countP_cons]
    by_cases hxy : x = y
    · simp [hxy]
    · cases hasEdge f x y <;> simp [hxy, Nat.add_comm]

/-- a triangle list whose triangles have three different vertices and in which every edge lies in an even number of
    triangles is closed in the sense of `TriaMesh.is_closed` (`1 not in adj_sym.data`) -/
theorem isClosed_of_even (T : List Tri) (hT : ∀ f ∈ T, [f.1, f.2.1, f.2.2].Nodup)
    (heven : ∀ x y, x ≠ y → Even (T.countP (fun f => hasEdge f x y))) : Topo.isClosed T = true := by
  simp only [Topo.isClosed, Topo.symData, Coo.data, Bool.not_eq_true', List.contains_eq_mem, decide_eq_false_iff_not,
    List.mem_map, not_exists, not_and]
  intro k _ h1
  rw [entry_adjSym, symKeys_count T hT] at h1
  split_ifs at h1 with hxy
  · have := heven k.1 k.2 hxy
    rw [h1] at this
    exact absurd this (by decide)

theorem tetFaces_distinct (τ : Tet) (hd : TetDistinct τ) (f : Tri) (hf : f ∈ tetFaces τ) :
    [f.1, f.2.1, f.2.2].Nodup := by
  obtain ⟨a, b, c, d⟩ := τ
  simp only [TetDistinct, tetVerts, List.nodup_cons, List.mem_cons, List.not_mem_nil, or_false, not_or,
    List.nodup_nil, and_true, not_false_eq_true] at hd
  obtain ⟨⟨hab, hac, had⟩, ⟨hbc, hbd⟩, hcd⟩ := hd
  simp only [tetFaces, List.mem_cons, List.not_mem_nil, or_false] at hf
  rcases hf with rfl | rfl | rfl | rfl <;>
    simp only [List.nodup_cons, List.mem_cons, List.not_mem_nil, or_false, not_or, List.nodup_nil, and_true,
      not_false_eq_true] <;> omega

/-- **the boundary surface of a face-manifold tetrahedral mesh is closed** (`TriaMesh.is_closed` answers `True`) -/
theorem bnd_closed (ts : List Tet) (hd : ∀ τ ∈ ts, TetDistinct τ) (hm : FaceManifold ts) :
    Topo.isClosed ((boundaryFaces ts).map (·.1)) = true := by
  apply isClosed_of_even
  · intro f hf
    obtain ⟨⟨f', k⟩, he, rfl⟩ := List.mem_map.mp hf
    obtain ⟨hk, hmem⟩ := bnd_owner ts f' k he
    exact tetFaces_distinct ts[k] (hd _ (List.getElem_mem hk)) f' hmem
  · intro x y hxy
    rw [List.countP_map]
    exact bnd_closed_edges ts hd hm x y hxy

/-- **for an oriented mesh every boundary face is wound so that its normal points away from the remaining vertex of
    the tetrahedron that owns it** (outward normal) -/
theorem bnd_outward_mesh (vtx : Nat → V3 ℝ) (ts : List Tet) (ho : TetTopo.isOriented vtx ts = true)
    (f : Tri) (k : Nat) (h : (f, k) ∈ boundaryFaces ts) :
    ∃ (hk : k < ts.length) (i : Nat) (hi : i < 4),
      f = (tetFaces ts[k])[i]'(by simpa [tetFaces] using hi) ∧
      sideOf vtx f ((tetOpposite ts[k])[i]'(by simpa [tetOpposite] using hi)) < 0 := by
  obtain ⟨hk, hmem⟩ := bnd_owner ts f k h
  have hne : ts ≠ [] := by rintro rfl; simp at hk
  have hpos := (isOriented_iff vtx ts hne).mp ho ts[k] (List.getElem_mem hk)
  obtain ⟨i, hi, hfi⟩ := List.getElem_of_mem hmem
  have hi4 : i < 4 := by simpa [tetFaces] using hi
  exact ⟨hk, i, hi4, hfi.symm, hfi ▸ bnd_outward vtx ts[k] hpos i hi4⟩

/-! ## 7. non-vacuity -/

section Examples

/-- the unit tetrahedron and its mirror image below the plane `z = 0` -/
noncomputable def vtx5 : Nat → V3 ℝ := fun i =>
  match i with
  | 0 => ⟨0, 0, 0⟩
  | 1 => ⟨1, 0, 0⟩
  | 2 => ⟨0, 1, 0⟩
  | 3 => ⟨0, 0, 1⟩
  | _ => ⟨0, 0, -1⟩

/-- two tetrahedra glued along the face `{0,1,2}` -/
def ts2 : List Tet := [(0, 1, 2, 3), (0, 2, 1, 4)]

example : TetTopo.signedVol vtx5 (0, 1, 2, 3) = 1 := by
  simp only [TetTopo.signedVol, vtx5]; v3_flat; norm_num

example : TetTopo.signedVol vtx5 (0, 2, 1, 4) = 1 := by
  simp only [TetTopo.signedVol, vtx5]; v3_flat; norm_num

theorem ts2_signedVol : ∀ τ ∈ ts2, TetTopo.signedVol vtx5 τ = 1 := by
  intro τ hτ
  simp only [ts2, List.mem_cons, List.not_mem_nil, or_false] at hτ
  rcases hτ with rfl | rfl <;> (simp only [TetTopo.signedVol, vtx5]; v3_flat; norm_num)

/-- a concrete positively oriented mesh: the hypotheses of `isOriented_iff`, `bnd_outward`, `bnd_outward_mesh` hold -/
theorem ts2_oriented : TetTopo.isOriented vtx5 ts2 = true := by
  rw [isOriented_iff _ _ (by decide)]
  intro τ hτ; rw [ts2_signedVol τ hτ]; norm_num

/-- `orient` flips a negatively oriented tetrahedron and reports it -/
example : TetTopo.orient vtx5 [(0, 2, 1, 3)] = ([(0, 1, 2, 3)], 1) := by
  have hneg : TetTopo.signedVol vtx5 (0, 2, 1, 3) < 0 := by
    simp only [TetTopo.signedVol, vtx5]; v3_flat; norm_num
  apply Prod.ext
  · rw [orient_fst]; simp [orient1, hneg, swap12]
  · rw [orient_snd]; simp [hneg]

/-- the combinatorial hypotheses of `bnd_volume` and `bnd_closed` hold for the two-tetrahedra mesh -/
example : FaceManifold ts2 := by decide
example : OppositeShared ts2 := by decide
example : ∀ τ ∈ ts2, TetDistinct τ := by decide
example : allFaces ts2 = [((3, 1, 2), 0), ((4, 2, 1), 1), ((2, 0, 3), 0), ((1, 0, 4), 1), ((1, 3, 0), 0),
    ((2, 4, 0), 1), ((0, 2, 1), 0), ((0, 1, 2), 1)] := by decide
example : keyCount ts2 (0, 1, 2) = 2 ∧ keyCount ts2 (1, 2, 3) = 1 := by decide

/-- the six outer faces, in the lexicographic order of their sorted triples; the shared face `{0,1,2}` is gone -/
theorem ts2_boundary : boundaryFaces ts2 =
    [((1, 3, 0), 0), ((1, 0, 4), 1), ((2, 0, 3), 0), ((2, 4, 0), 1), ((3, 1, 2), 0), ((4, 2, 1), 1)] := by
  simp [boundaryFaces, allFaces, ts2, sort3, List.zipIdx, List.mergeSort, List.MergeSort.Internal.splitInTwo, lex3]

example : ((3, 1, 2), 0) ∈ boundaryFaces ts2 ∧ ((0, 2, 1), 0) ∉ boundaryFaces ts2 := by
  simp only [mem_boundaryFaces_iff]; decide

/-- the conclusions of the stretch theorems on the example: the surface is closed and encloses `1/6 + 1/6` -/
example : Topo.isClosed ((boundaryFaces ts2).map (·.1)) = true :=
  bnd_closed ts2 (by decide) (by decide)

example : Measures.volumeSum vtx5 ((boundaryFaces ts2).map (·.1)) = 1 / 3 := by
  rw [bnd_volume vtx5 ts2 (by decide) (by decide)]
  simp only [ts2, List.map_cons, List.map_nil, List.sum_cons, List.sum_nil,
    ts2_signedVol (0, 1, 2, 3) (by decide), ts2_signedVol (0, 2, 1, 4) (by decide)]
  norm_num

/-- without `OppositeShared` the volume statement fails: two copies of the same tetrahedron are face-manifold, have an
    empty boundary (cone sum `0`) but total signed volume `2` -/
example : FaceManifold [(0, 1, 2, 3), (0, 1, 2, 3)] ∧ ¬ OppositeShared [(0, 1, 2, 3), (0, 1, 2, 3)] := by decide

end Examples

end LapyVerif.Props.C12
