import LapyVerif.Props.C01
import LapyVerif.Props.C02
import LapyVerif.Props.C05
import LapyVerif.Props.C06
import LapyVerif.Props.C07
import LapyVerif.Props.C13
import LapyVerif.Props.C19b
/-
  Non-vacuity: every theorem of C01, C02, C05, C06, C07, C13 (and the model-level C19b) listed below is instantiated on
  a concrete, non-trivial mesh / system whose hypotheses are discharged here.
  Meshes: the unit square split in two triangles, the unit right triangle, the unit tetrahedron.
-/
namespace LapyVerif.Props.Examples
open LapyVerif V3

/-! ### the meshes -/

/-- corners of the unit square in the plane `z = 0` -/
def vsq : Nat → V3 ℝ := vtx4 ⟨0, 0, 0⟩ ⟨1, 0, 0⟩ ⟨0, 1, 0⟩ ⟨1, 1, 0⟩
/-- the square split along the diagonal `1–2` (consistently oriented) -/
def tsq : List Tri := [(0, 1, 2), (1, 3, 2)]
/-- the unit right triangle -/
def vtri : Nat → V3 ℝ := vtx3 ⟨0, 0, 0⟩ ⟨1, 0, 0⟩ ⟨0, 1, 0⟩
/-- corners of the unit tetrahedron -/
def vtet : Nat → V3 ℝ := vtx4 ⟨0, 0, 0⟩ ⟨1, 0, 0⟩ ⟨0, 1, 0⟩ ⟨0, 0, 1⟩
def ttet : List Tet := [(0, 1, 2, 3)]

theorem normSq_ez : normSq (⟨0, 0, 1⟩ : V3 ℝ) = 1 := by v3_flat; norm_num

theorem triN_sq0 : Spec.triN (vsq 0) (vsq 1) (vsq 2) = ⟨0, 0, 1⟩ := by
  apply V3.ext' <;> (simp only [Spec.triN, vsq, vtx4]; v3_flat; norm_num)
theorem triN_sq1 : Spec.triN (vsq 1) (vsq 3) (vsq 2) = ⟨0, 0, 1⟩ := by
  apply V3.ext' <;> (simp only [Spec.triN, vsq, vtx4]; v3_flat; norm_num)
theorem triN_tri : Spec.triN (vtri 0) (vtri 1) (vtri 2) = ⟨0, 0, 1⟩ := by
  apply V3.ext' <;> (simp only [Spec.triN, vtri, vtx3]; v3_flat; norm_num)

theorem triArea_sq0 : Spec.triArea (vsq 0) (vsq 1) (vsq 2) = 1 / 2 := by
  rw [Spec.triArea, triN_sq0, normSq_ez, Real.sqrt_one]
theorem triArea_sq1 : Spec.triArea (vsq 1) (vsq 3) (vsq 2) = 1 / 2 := by
  rw [Spec.triArea, triN_sq1, normSq_ez, Real.sqrt_one]
theorem triArea_tri : Spec.triArea (vtri 0) (vtri 1) (vtri 2) = 1 / 2 := by
  rw [Spec.triArea, triN_tri, normSq_ez, Real.sqrt_one]

theorem eps_lt_two : ¬ ((4 : ℝ) * (1 / 2) < epsK) := by rw [epsK_real]; norm_num

/-- **the two-triangle square passes the degeneracy guard of `_fem_tria`** -/
theorem nd_sq : NonDegenTri vsq tsq := by
  intro τ hτ
  simp only [tsq, List.mem_cons, List.mem_nil_iff, or_false] at hτ
  rcases hτ with rfl | rfl
  · rw [FemTri.triVol_eq, triArea_sq0]; exact eps_lt_two
  · rw [FemTri.triVol_eq, triArea_sq1]; exact eps_lt_two

theorem nd_tri : NonDegenTri vtri [(0, 1, 2)] := by
  intro τ hτ
  simp only [List.mem_singleton] at hτ
  subst hτ
  rw [FemTri.triVol_eq, triArea_tri]; exact eps_lt_two

theorem tetDet_unit : Spec.tetDet (vtet 0) (vtet 1) (vtet 2) (vtet 3) = 1 := by
  simp only [Spec.tetDet, vtet, vtx4]; v3_flat; norm_num

/-- **the unit tetrahedron passes the guard `vol == 0` of `_fem_tetra`** -/
theorem nd_tet : NonDegenTet vtet ttet := by
  intro τ hτ
  simp only [ttet, List.mem_singleton] at hτ
  subst hτ
  rw [FemTet.tetVol_eq, tetDet_unit]; norm_num

/-! ### C01 -/

/-- `stiff_form` on the square: `f·A·g = ½ ∇f·∇g|τ₀ + ½ ∇f·∇g|τ₁` -/
theorem ex_stiff_form (f g : Nat → ℝ) :
    Coo.form (Fem.stiffTria vsq tsq) f g =
      1 / 2 * dot (Spec.gradTri (vsq 0) (vsq 1) (vsq 2) (f 0) (f 1) (f 2)) (Spec.gradTri (vsq 0) (vsq 1) (vsq 2) (g 0) (g 1) (g 2))
      + 1 / 2 * dot (Spec.gradTri (vsq 1) (vsq 3) (vsq 2) (f 1) (f 3) (f 2)) (Spec.gradTri (vsq 1) (vsq 3) (vsq 2) (g 1) (g 3) (g 2)) := by
  rw [C01.stiff_form vsq tsq nd_sq]
  simp only [tsq, List.map_cons, List.map_nil, List.sum_cons, List.sum_nil, triArea_sq0, triArea_sq1, add_zero]

example (f : Nat → ℝ) : 0 ≤ Coo.form (Fem.stiffTria vsq tsq) f f := C01.stiff_psd vsq tsq nd_sq f
example (c : ℝ) (i : Nat) : Coo.mulVec (Fem.stiffTria vsq tsq) (fun _ => c) i = 0 := C01.stiff_const_zero vsq tsq nd_sq c i
example (i j : Nat) : Coo.entry (Fem.stiffTria vsq tsq) i j = Coo.entry (Fem.stiffTria vsq tsq) j i :=
  C01.stiff_entry_symm vsq tsq nd_sq i j

/-- re-ordering both triangles (a flip and a rotation) does not change the form -/
example (f g : Nat → ℝ) :
    Coo.form (Fem.stiffTria vsq [(1, 0, 2), (1, 3, 2)]) f g = Coo.form (Fem.stiffTria vsq tsq) f g := by
  have := C01.stiff_form_reorder vsq tsq nd_sq (fun τ => if τ = (0, 1, 2) then C01.swapTri τ else τ)
    (fun τ => by by_cases h : τ = (0, 1, 2) <;> simp [h]) f g
  simpa [tsq, C01.swapTri] using this

/-- the gradient of the hat function of vertex 0 on the unit right triangle is `(−1,−1,0)` … -/
theorem grad_hat0 : Spec.gradTri (vtri 0) (vtri 1) (vtri 2) 1 0 0 = ⟨-1, -1, 0⟩ := by
  unfold Spec.gradTri
  simp only [triN_tri, normSq_ez]
  apply V3.ext' <;> (simp only [vtri, vtx3]; v3_flat; norm_num)
theorem grad_hat1 : Spec.gradTri (vtri 0) (vtri 1) (vtri 2) 0 1 0 = ⟨1, 0, 0⟩ := by
  unfold Spec.gradTri
  simp only [triN_tri, normSq_ez]
  apply V3.ext' <;> (simp only [vtri, vtx3]; v3_flat; norm_num)

/-- … so the stored entries of the one-triangle stiffness matrix are `A₀₁ = −1/2`, `A₀₀ = 1` -/
theorem ex_stiff_entry : Coo.entry (Fem.stiffTria vtri [(0, 1, 2)]) 0 1 = -1 / 2 ∧
    Coo.entry (Fem.stiffTria vtri [(0, 1, 2)]) 0 0 = 1 := by
  constructor
  · rw [Coo.entry_eq_form, C01.stiff_form vtri _ nd_tri]
    simp only [List.map_cons, List.map_nil, List.sum_cons, List.sum_nil, triArea_tri, if_true, one_ne_zero, if_false,
      OfNat.ofNat_ne_zero, OfNat.ofNat_ne_one, zero_ne_one, grad_hat0, grad_hat1]
    v3_flat; norm_num
  · rw [Coo.entry_eq_form, C01.stiff_form vtri _ nd_tri]
    simp only [List.map_cons, List.map_nil, List.sum_cons, List.sum_nil, triArea_tri, if_true, one_ne_zero, if_false,
      OfNat.ofNat_ne_zero, grad_hat0]
    v3_flat; norm_num

example (f g : Nat → ℝ) : Coo.form (Fem.stiffTet vtet ttet) f g =
    Spec.tetVolume (vtet 0) (vtet 1) (vtet 2) (vtet 3) *
      dot (Spec.gradTet (vtet 0) (vtet 1) (vtet 2) (vtet 3) (f 0) (f 1) (f 2) (f 3))
          (Spec.gradTet (vtet 0) (vtet 1) (vtet 2) (vtet 3) (g 0) (g 1) (g 2) (g 3)) := by
  rw [C01.stiff_form_tet vtet ttet nd_tet]
  simp [ttet]

example (f : Nat → ℝ) : 0 ≤ Coo.form (Fem.stiffTet vtet ttet) f f := C01.stiff_psd_tet vtet ttet nd_tet f

theorem tetVolume_unit : Spec.tetVolume (vtet 0) (vtet 1) (vtet 2) (vtet 3) = 1 / 6 := by
  rw [Spec.tetVolume, tetDet_unit]; norm_num

/-! ### C02 -/

/-- `mass_form` on the square -/
example (x y : Nat → ℝ) : Coo.form (Fem.massTria false vsq tsq) x y =
    Spec.triL2 (1 / 2) (x 0) (x 1) (x 2) (y 0) (y 1) (y 2) + Spec.triL2 (1 / 2) (x 1) (x 3) (x 2) (y 1) (y 3) (y 2) := by
  rw [C02.mass_form vsq tsq nd_sq]
  simp only [tsq, List.map_cons, List.map_nil, List.sum_cons, List.sum_nil, triArea_sq0, triArea_sq1, add_zero]

/-- `mass_total`: the entries of the mass matrix of the unit square sum to its area 1 (either lumping) -/
theorem ex_mass_total (lump : Bool) : Coo.total (Fem.massTria lump vsq tsq) = 1 := by
  rw [C02.mass_total lump vsq tsq nd_sq]
  simp only [tsq, List.map_cons, List.map_nil, List.sum_cons, List.sum_nil, triArea_sq0, triArea_sq1]
  norm_num

theorem key01_mem : (0, 1) ∈ Coo.keys (Fem.massTria false vsq tsq) := by
  rw [C02.massTria_blocks false vsq tsq nd_sq]
  simp [Coo.keys, tsq, C02.triMassBlock, Fem.triBlock]

/-- `mass_entry_pos` at the stored key `(0,1)` -/
example : 0 < Coo.entry (Fem.massTria false vsq tsq) 0 1 := C02.mass_entry_pos false vsq tsq nd_sq 0 1 key01_mem

example (i : Nat) : Coo.mulVec (Fem.massTria true vsq tsq) (fun _ => 1) i = Coo.mulVec (Fem.massTria false vsq tsq) (fun _ => 1) i :=
  C02.lump_eq_rowsum vsq tsq nd_sq i

example (lump : Bool) : Fem.massTriaStandalone lump vsq tsq = Fem.massTria lump vsq tsq :=
  C02.standalone_eq_solver lump vsq tsq nd_sq

/-- the lumped mass of the corner `0` of the square is a third of the area of its only triangle -/
example : Coo.mulVec (Fem.massTria true vsq tsq) (fun _ => 1) 0 = 1 / 6 := by
  rw [C02.lumped_row vsq tsq nd_sq]
  simp only [tsq, List.map_cons, List.map_nil, List.sum_cons, List.sum_nil, triArea_sq0, triArea_sq1]
  norm_num

example (x y : Nat → ℝ) : Coo.form (Fem.massTet false vtet ttet) x y =
    Spec.tetL2 (1 / 6) (x 0) (x 1) (x 2) (x 3) (y 0) (y 1) (y 2) (y 3) := by
  rw [C02.mass_form_tet vtet ttet nd_tet]
  simp only [ttet, List.map_cons, List.map_nil, List.sum_cons, List.sum_nil, tetVolume_unit, add_zero]

/-- `mass_total_tet`: the unit tetrahedron has volume `1/6` -/
theorem ex_mass_total_tet (lump : Bool) : Coo.total (Fem.massTet lump vtet ttet) = 1 / 6 := by
  rw [C02.mass_total_tet lump vtet ttet nd_tet]
  simp only [ttet, List.map_cons, List.map_nil, List.sum_cons, List.sum_nil, tetVolume_unit, add_zero]

example (i : Nat) : Coo.mulVec (Fem.massTet true vtet ttet) (fun _ => 1) i = Coo.mulVec (Fem.massTet false vtet ttet) (fun _ => 1) i :=
  C02.lump_eq_rowsum_tet vtet ttet nd_tet i

theorem key01_mem_tet : (0, 1) ∈ Coo.keys (Fem.massTet false vtet ttet) := by
  rw [C02.massTet_blocks false vtet ttet nd_tet]
  simp [Coo.keys, ttet, C02.tetMassBlock, Fem.tetBlock]

example : 0 < Coo.entry (Fem.massTet false vtet ttet) 0 1 := C02.mass_entry_pos_tet false vtet ttet nd_tet 0 1 key01_mem_tet

/-! ### C05 -/

/-- path Laplacian on three vertices -/
def pathA : Coo ℝ := [((0, 0), 1), ((0, 1), -1), ((1, 0), -1), ((1, 1), 2), ((1, 2), -1), ((2, 1), -1), ((2, 2), 1)]
/-- identity "mass matrix" -/
def eye3 : Coo ℝ := [((0, 0), 1), ((1, 1), 1), ((2, 2), 1)]

theorem free3 : Poisson.freeIdx 3 [0] = [1, 2] := by decide

/-- `dirichlet_exact`: vertex 0 carries the prescribed value 5 -/
example : C05.xfun 3 [0] [5] [5, 5] 0 = 5 := by
  have := C05.dirichlet_exact 3 [0] [5] [5, 5] (by simp) 0 (by simp)
  simpa using this

theorem reduce3 : Poisson.reduce pathA [1, 2] = [((0, 0), 2), ((0, 1), -1), ((1, 0), -1), ((1, 1), 1)] := by
  simp [Poisson.reduce, pathA, List.idxOf?, List.findIdx?, List.findIdx?.go]

/-- the hypotheses of `interior_eq` are satisfiable: Dirichlet value 5 at vertex 0, zero source, and the explicit
    solution `xs = (5,5)` of the reduced system `[[2,−1],[−1,1]] xs = (5,0)` -/
theorem ex_interior_eq (p : Nat) (hp : p < 2) :
    Coo.mulVec pathA (C05.xfun 3 [0] [5] [5, 5]) ([1, 2][p]'(by simpa using hp)) = 0 := by
  have hp' : p < (Poisson.freeIdx 3 [0]).length := by rw [free3]; simpa using hp
  have hsolve : Coo.mulVec (Poisson.reduce pathA (Poisson.freeIdx 3 [0])) (fun q => ([5, 5] : List ℝ).getD q 0) p
      = Poisson.rhs pathA eye3 (fun _ => 0) (fun _ => 0) (Poisson.scatter [0] [5]) true ((Poisson.freeIdx 3 [0])[p]) := by
    have hpc : p = 0 ∨ p = 1 := by omega
    simp only [free3, reduce3]
    rcases hpc with rfl | rfl
    · simp [Coo.mulVec, Poisson.rhs, Poisson.scatter, pathA, eye3]; norm_num
    · simp [Coo.mulVec, Poisson.rhs, Poisson.scatter, pathA, eye3]
  have := C05.interior_eq pathA eye3 3 (fun _ => 0) (fun _ => 0) [0] [5] [5, 5] (by simp) (by simp)
    (by intro e he; simp only [pathA, List.mem_cons, List.mem_nil_iff, or_false] at he
        rcases he with rfl | rfl | rfl | rfl | rfl | rfl | rfl <;> simp) p hp' hsolve
  simp only [free3] at this
  rw [this]
  simp [Coo.mulVec, eye3]

/-- `rhs_linear` on the same system -/
example (i : Nat) :
    Poisson.rhs pathA eye3 (fun j => (j : ℝ) + 2 * 1) (fun j => 0 + 2 * (j : ℝ)) (fun _ => 1 + 2 * 0) true i =
      Poisson.rhs pathA eye3 (fun j => (j : ℝ)) (fun _ => 0) (fun _ => 1) true i +
        2 * Poisson.rhs pathA eye3 (fun _ => 1) (fun j => (j : ℝ)) (fun _ => 0) true i :=
  C05.rhs_linear pathA eye3 _ _ _ _ _ _ 2 true i

/-! ### C06 -/

theorem eps_lt_one : ¬ ((1 : ℝ) < epsK) := by rw [epsK_real]; norm_num

theorem ndln_sq : C06.NonDegenLn vsq tsq := by
  intro τ hτ
  simp only [tsq, List.mem_cons, List.mem_nil_iff, or_false] at hτ
  rcases hτ with rfl | rfl
  · rw [triN_sq0, normSq_ez, Real.sqrt_one]; exact eps_lt_one
  · rw [triN_sq1, normSq_ez, Real.sqrt_one]; exact eps_lt_one

theorem nddet_tet : C06.NonDegenDet vtet ttet := by
  intro τ hτ
  simp only [ttet, List.mem_singleton] at hτ
  subst hτ
  rw [tetDet_unit, abs_one]; exact eps_lt_one

/-- `triGrad_affine` on the first triangle of the square: the gradient of `x ↦ a·x + b` is the in-plane part of `a` -/
example (a : V3 ℝ) (b : ℝ) :
    DiffGeo.triGrad1 (vsq 0) (vsq 1) (vsq 2) (dot a (vsq 0) + b) (dot a (vsq 1) + b) (dot a (vsq 2) + b) = ⟨a.x, a.y, 0⟩ := by
  rw [C06.triGrad_affine _ _ _ a b (ndln_sq (0, 1, 2) (by simp [tsq])), triN_sq0, normSq_ez]
  apply V3.ext' <;> (v3_flat; ring)

/-- `tetGrad_affine` on the unit tetrahedron -/
example (a : V3 ℝ) (b : ℝ) :
    DiffGeo.tetGrad1 (vtet 0) (vtet 1) (vtet 2) (vtet 3) (dot a (vtet 0) + b) (dot a (vtet 1) + b) (dot a (vtet 2) + b)
      (dot a (vtet 3) + b) = a :=
  C06.tetGrad_affine _ _ _ _ a b (nddet_tet (0, 1, 2, 3) (by simp [ttet]))

/-- `triDiv_adjoint` on the square with two arbitrary per-triangle vectors -/
example (X0 X1 : V3 ℝ) (f : Nat → ℝ) :
    Coo.form (DiffGeo.triDiv vsq tsq [X0, X1]) f (fun _ => 1) =
      -(1 / 2 * dot X0 (Spec.gradTri (vsq 0) (vsq 1) (vsq 2) (f 0) (f 1) (f 2)) +
        1 / 2 * dot X1 (Spec.gradTri (vsq 1) (vsq 3) (vsq 2) (f 1) (f 3) (f 2))) := by
  rw [C06.triDiv_adjoint vsq tsq [X0, X1] ndln_sq f]
  simp only [tsq, List.zip_cons_cons, List.zip_nil_right, List.map_cons, List.map_nil, List.sum_cons, List.sum_nil,
    triArea_sq0, triArea_sq1, add_zero]

/-- `triDiv_grad`: `div ∘ grad = −A` row by row on the square -/
example (f : Nat → ℝ) (i : Nat) :
    Coo.mulVec (DiffGeo.triDiv vsq tsq (DiffGeo.triGrad vsq tsq f)) (fun _ => 1) i = -Coo.mulVec (Fem.stiffTria vsq tsq) f i :=
  C06.triDiv_grad vsq tsq ndln_sq f i

/-- `tetDiv_adjoint` on the unit tetrahedron -/
example (X : V3 ℝ) (f : Nat → ℝ) :
    Coo.form (DiffGeo.tetDiv vtet ttet [X]) f (fun _ => 1) =
      -(1 / 6 * dot X (Spec.gradTet (vtet 0) (vtet 1) (vtet 2) (vtet 3) (f 0) (f 1) (f 2) (f 3))) := by
  rw [C06.tetDiv_adjoint vtet ttet [X] nddet_tet f]
  simp only [ttet, List.zip_cons_cons, List.zip_nil_right, List.map_cons, List.map_nil, List.sum_cons, List.sum_nil,
    tetVolume_unit, add_zero]

/-! ### C07 -/

/-- lumped mass `diag(1,2)` on two vertices -/
def massB : Coo ℝ := [((0, 0), 1), ((1, 1), 2)]
/-- the solution of `(B + A) u = (1,0)` with `A` the path Laplacian `C03.exA`: `u = (3/5, 1/5)` -/
noncomputable def heatU : Nat → ℝ := fun i => if i = 0 then 3 / 5 else if i = 1 then 1 / 5 else 0
def heatRhs : Nat → ℝ := fun i => if i = 0 then 1 else 0

theorem exA_const (i : Nat) : Coo.mulVec C03.exA (fun _ => 1) i = 0 := by
  by_cases h0 : i = 0
  · subst h0; simp [Coo.mulVec, C03.exA]
  · by_cases h1 : i = 1
    · subst h1; simp [Coo.mulVec, C03.exA]
    · have h0' : ¬ 0 = i := fun h => h0 h.symm
      have h1' : ¬ 1 = i := fun h => h1 h.symm
      simp [Coo.mulVec, C03.exA, h0', h1']

/-- `heat_conservation` with an explicit solution: one backward-Euler step from a unit seed at vertex 0 keeps the
    total heat `1ᵀ B u = 3/5 + 2·1/5 = 1` -/
theorem ex_heat_conservation : Coo.form massB (fun _ => 1) heatU = 1 := by
  have h := C07.heat_conservation 1 C03.exA massB heatU heatRhs 2
    (by intro e he; simp only [C03.exA, List.mem_cons, List.mem_nil_iff, or_false] at he
        rcases he with rfl | rfl | rfl | rfl <;> simp)
    (by intro e he; simp only [massB, List.mem_cons, List.mem_nil_iff, or_false] at he
        rcases he with rfl | rfl <;> simp)
    C03.ex_symm.1 exA_const
    (by intro i hi
        have : i = 0 ∨ i = 1 := by omega
        rcases this with rfl | rfl <;>
          simp [Heat.heatMat, Coo.mulVec, C03.exA, massB, heatU, heatRhs] <;> norm_num)
  rw [h]
  simp [heatRhs]

/-- a 2×2 eigenvector table (rows = vertices), eigenvalues `0, 2` -/
def evT : List (List ℝ) := [[1, 1], [1, -1]]

example : ((Heat.kernel [1 / 2] 1 evT [0, 2] 2).getD 0 []).getD 0 0 = ((Heat.kernel [1 / 2] 0 evT [0, 2] 2).getD 1 []).getD 0 0 :=
  C07.kernel_symm [1 / 2] evT [0, 2] 2 0 1 0 (by simp [evT]) (by simp [evT]) (by simp)

/-- the heat kernel between the two vertices at `t = 1/2`: `1 − e^{−1}` -/
example : ((Heat.kernel [1 / 2] 1 evT [0, 2] 2).getD 0 []).getD 0 0 = 1 - Real.exp (-1) := by
  rw [C07.kernel_entry _ _ _ _ _ _ _ (by simp [evT]) (by simp)]
  simp [evT]
  ring

example : ((Heat.diagonal [1 / 2] [1] evT [0, 2] 2).getD 0 []).getD 0 0 =
    ((Heat.kernel [1 / 2] 1 evT [0, 2] 2).getD 1 []).getD 0 0 := by
  have := C07.diagonal_eq_kernel [1 / 2] [1] evT [0, 2] 2 0 0 (by simp) (by simp [evT]) (by simp)
  simpa using this

/-! ### C13 -/

theorem sqrt_144 : Real.sqrt 144 = 12 := by
  rw [show (144 : ℝ) = 12 * 12 by norm_num, Real.sqrt_mul_self (by norm_num)]

/-- `heron_eq_cross` on the 3-4-5 triangle: both formulas give area 6 -/
theorem ex_heron_345 : Measures.heron (⟨0, 0, 0⟩ : V3 ℝ) ⟨3, 0, 0⟩ ⟨0, 4, 0⟩ = 6 := by
  rw [C13.heron_eq_cross, Spec.triArea]
  have : normSq (Spec.triN (⟨0, 0, 0⟩ : V3 ℝ) ⟨3, 0, 0⟩ ⟨0, 4, 0⟩) = 144 := by
    simp only [Spec.triN]; v3_flat; norm_num
  rw [this, sqrt_144]; norm_num

/-- the equilateral triangle `e_x, e_y, e_z` has quality exactly 1 -/
theorem ex_quality_equilateral : Measures.triQuality (⟨1, 0, 0⟩ : V3 ℝ) ⟨0, 1, 0⟩ ⟨0, 0, 1⟩ = 1 := by
  have hN : 0 < normSq (cross ((⟨0, 1, 0⟩ : V3 ℝ) - ⟨1, 0, 0⟩) (⟨0, 0, 1⟩ - ⟨1, 0, 0⟩)) := by v3_flat; norm_num
  refine (C13.quality_range _ _ _ hN).2.2.mpr ⟨?_, ?_⟩ <;> (v3_flat; norm_num)

/-- the unit right triangle has quality strictly between 0 and 1 -/
theorem ex_quality_right : 0 < Measures.triQuality (⟨0, 0, 0⟩ : V3 ℝ) ⟨1, 0, 0⟩ ⟨0, 1, 0⟩ ∧
    Measures.triQuality (⟨0, 0, 0⟩ : V3 ℝ) ⟨1, 0, 0⟩ ⟨0, 1, 0⟩ < 1 := by
  have hN : 0 < normSq (cross ((⟨1, 0, 0⟩ : V3 ℝ) - ⟨0, 0, 0⟩) (⟨0, 1, 0⟩ - ⟨0, 0, 0⟩)) := by v3_flat; norm_num
  obtain ⟨h1, h2, h3⟩ := C13.quality_range _ _ _ hN
  refine ⟨h1, lt_of_le_of_ne h2 ?_⟩
  intro h
  have := (h3.mp h).1
  revert this
  v3_flat; norm_num

theorem ndN_tri : C13.NonDegenN (⟨0, 0, 0⟩ : V3 ℝ) ⟨1, 0, 0⟩ ⟨0, 1, 0⟩ := by
  have : normSq (cross ((⟨1, 0, 0⟩ : V3 ℝ) - ⟨0, 0, 0⟩) (⟨0, 1, 0⟩ - ⟨0, 0, 0⟩)) = 1 := by v3_flat; norm_num
  unfold C13.NonDegenN
  rw [this, Real.sqrt_one]; exact eps_lt_one

/-- `triNormal_spec`: the unit right triangle is not degenerate; its normal is `e_z` -/
example : Measures.triNormal (⟨0, 0, 0⟩ : V3 ℝ) ⟨1, 0, 0⟩ ⟨0, 1, 0⟩ = ⟨0, 0, 1⟩ := by
  have : normSq (cross ((⟨1, 0, 0⟩ : V3 ℝ) - ⟨0, 0, 0⟩) (⟨0, 1, 0⟩ - ⟨0, 0, 0⟩)) = 1 := by v3_flat; norm_num
  rw [C13.triNormal_eq _ _ _ ndN_tri, this, Real.sqrt_one]
  apply V3.ext' <;> (v3_flat; norm_num)

example : normSq (Measures.triNormal (⟨0, 0, 0⟩ : V3 ℝ) ⟨1, 0, 0⟩ ⟨0, 1, 0⟩) = 1 := (C13.triNormal_spec _ _ _ ndN_tri).1

/-- `area()` of the unit square is 1 … -/
theorem ex_area_sq : Measures.area vsq tsq = 1 := by
  rw [C13.area_eq_sum]
  simp only [tsq, List.map_cons, List.map_nil, List.sum_cons, List.sum_nil, triArea_sq0, triArea_sq1]
  norm_num

/-- … and `area_similarity` with the scaling `v ↦ 3v` gives 9 -/
theorem ex_area_scaled : Measures.area (fun i => smul 3 (vsq i)) tsq = 9 := by
  rw [C13.area_similarity (scale_isSimilarity 3) vsq tsq, ex_area_sq]; norm_num

/-! ### C19b: the flow step on the square -/

/-- all hypotheses of `flow_system_pd` hold for the square, the path-free stiffness of the square itself and any
    function that does not vanish at vertex 3 -/
example (f : Nat → ℝ) (hf : f 3 ≠ 0) : 0 < Coo.form (Flow.stepMatrix (1 / 1000) (Fem.stiffTria vsq tsq) vsq tsq) f f :=
  C19.flow_system_pd _ _ vsq tsq nd_sq (fun g => C01.stiff_psd vsq tsq nd_sq g) (by norm_num) f
    ⟨(1, 3, 2), by simp [tsq], Or.inr (Or.inl hf)⟩

/-- constants are fixed points of the flow step (`flow_step_fixed_model` with C01's `stiff_const_zero`) -/
example (c : ℝ) (i : Nat) :
    Coo.mulVec (Flow.stepMatrix (1 / 1000) (Fem.stiffTria vsq tsq) vsq tsq) (fun _ => c) i =
      Coo.mulVec (Fem.massTriaStandalone true vsq tsq) (fun _ => c) i :=
  C19.flow_step_fixed_model _ _ vsq tsq _ (fun i => C01.stiff_const_zero vsq tsq nd_sq c i) i

end LapyVerif.Props.Examples
