import LapyVerif.Lemmas.FormatLemmas
/-
  C14 — the text file formats: what the writers produce is read back unchanged, foreign files load to the mesh they
  describe, and truncated / wrong-kind files are rejected.
  Model: `Model/Formats.lean`.  Numbers are decimal text tokens; `parse (fmt x) = x` for floats is the harness's contract.
-/
namespace LapyVerif.Props.C14
open LapyVerif Formats

def GoodCoord (s : String) : Prop := isFloatTok s = true ∧ GoodTok s
def GoodMesh (k : Nat) (coords : List (List String)) (elems : List (List Nat)) : Prop :=
  (∀ row ∈ coords, row.length = 3 ∧ ∀ s ∈ row, GoodCoord s) ∧ (∀ e ∈ elems, e.length = k) ∧ elems ≠ []

/-- the element rows as written: the count `k` followed by the indices -/
def elemRows (k : Nat) (elems : List (List Nat)) : List (List String) :=
  elems.map fun e => toString k :: e.map toString

theorem writeVtk_eq (k : Nat) (coords : List (List String)) (elems : List (List Nat)) :
    writeVtk k coords elems =
      "# vtk DataFile Version 1.0" :: "vtk output" :: "ASCII" :: "DATASET POLYDATA" ::
        ("POINTS " ++ toString coords.length ++ " float") ::
        ((coords.map fun r => " ".intercalate r) ++
          ("POLYGONS " ++ toString elems.length ++ " " ++ toString ((k + 1) * elems.length)) ::
          ((elemRows k elems).map fun r => " ".intercalate r)) := by
  unfold writeVtk elemRows
  rw [List.map_map]
  simp only [List.cons_append, List.nil_append, List.append_assoc]
  rfl

theorem skipToAscii_header (r : List String) :
    skipToAscii ("# vtk DataFile Version 1.0" :: "vtk output" :: "ASCII" :: r) = some r := by
  simp [skipToAscii, skipToAscii.go]

/-- the last part of `readVtk`: cut the integer block into rows and check it (same code) -/
def vtkFinish (k : Nat) (coords : List String) (tnum : Nat) (nums : List String) : Except Fail RawMesh :=
  let rows := chunk (k + 1) tnum nums
  if (rows.getLast?.bind (·.head?)) != some (toString k) then .error .format else
  if nums.any (fun s => s.startsWith "-") then .error .data else
  .ok { coords := coords, elems := rows.map fun r => (r.drop 1).map (·.toNat!) }

/-- the part of `readVtk` after the vertex block has been read (same code) -/
def vtkBody (k : Nat) (coords toks : List String) : Except Fail RawMesh :=
  let (hd, toks) := readLine toks
  match hd with
  | kw :: a :: b :: _ =>
    if kw == "POLYGONS" || kw == "CELLS" then
      if !(isNatTok a && isNatTok b) then .error .data else
      let tnum := a.toNat!; let ttnum := b.toNat!
      if tnum == 0 then .error .data else
      if ttnum != (k + 1) * tnum then .error .format else
      match takeNums isIntTok ttnum [] toks with
      | .error e => .error e
      | .ok (nums, _) => vtkFinish k coords tnum nums
    else if kw == "TRIANGLE_STRIPS" && k == 3 then
      if !isNatTok a then .error .data else
      match readVtk.strips a.toNat! toks [] with
      | .error e => .error e
      | .ok tr => .ok { coords := coords, elems := tr }
    else .error .format
  | _ => .error .data

theorem words_points (n : Nat) : words ("POINTS " ++ toString n ++ " float") = ["POINTS", toString n, "float"] := by
  have e : "POINTS " ++ toString n ++ " float" = ("POINTS" ++ " " ++ toString n) ++ " " ++ "float" := by
    rw [show ("POINTS " : String) = "POINTS" ++ " " by decide, show (" float" : String) = " " ++ "float" by decide]
    simp only [String.append_assoc]
  rw [e, words_append_space, words_append_space, words_tok "POINTS" (by decide), words_toString,
    words_tok "float" (by decide)]
  rfl

/-- `readVtk` on a file with the writer's five header lines: read `3·n` coordinates, then the body -/
theorem readVtk_header (k n : Nat) (tail : List String) :
    readVtk k ("# vtk DataFile Version 1.0" :: "vtk output" :: "ASCII" :: "DATASET POLYDATA" ::
        ("POINTS " ++ toString n ++ " float") :: tail) =
      match takeNums isFloatTok (3 * n) [] (tokenize tail) with
      | .error e => .error e
      | .ok (coords, toks) => vtkBody k coords toks := by
  have h1 : ("DATASET POLYDATA".startsWith "DATASET POLYDATA" ||
      "DATASET POLYDATA".startsWith "DATASET UNSTRUCTURED_GRID") = true := by simp
  have h2 : (("POINTS" : String) != "POINTS" || (("float" : String) != "float" && ("float" : String) != "double")) = false := by
    decide
  unfold readVtk
  rw [skipToAscii_header]
  simp only [h1, h2, words_points, isNatTok_toString, toNat!_toString, Bool.not_true, Bool.false_eq_true, if_false]
  rfl

theorem vtkBody_nil (k : Nat) (coords : List String) : vtkBody k coords [] = .error .data := rfl

/-- the body on a `POLYGONS m t` header line -/
theorem vtkBody_polygons (k m t : Nat) (coords toks : List String) (hm : m ≠ 0) :
    vtkBody k coords ("POLYGONS" :: toString m :: toString t :: NL :: toks) =
      if t ≠ (k + 1) * m then .error .format else
      match takeNums isIntTok t [] toks with
      | .error e => .error e
      | .ok (nums, _) => vtkFinish k coords m nums := by
  have hrl : readLine ("POLYGONS" :: toString m :: toString t :: NL :: toks)
      = (["POLYGONS", toString m, toString t], toks) := by
    have := readLine_row ["POLYGONS", toString m, toString t]
      (by
        intro x hx
        simp only [List.mem_cons, List.not_mem_nil, or_false] at hx
        rcases hx with rfl | rfl | rfl
        · decide
        · exact (goodTok_toString m).ne_NL
        · exact (goodTok_toString t).ne_NL) toks
    simpa using this
  have h1 : (("POLYGONS" : String) == "POLYGONS" || ("POLYGONS" : String) == "CELLS") = true := by decide
  unfold vtkBody
  rw [hrl]
  simp only [h1, isNatTok_toString, toNat!_toString, Bool.and_self, Bool.not_true, Bool.false_eq_true, if_false, if_true]
  have hm' : (m == 0) = false := by simpa using hm
  simp only [hm', Bool.false_eq_true, if_false]
  by_cases ht : t = (k + 1) * m
  · simp [ht]
  · simp [ht]

theorem words_polygons (m t : Nat) :
    words ("POLYGONS " ++ toString m ++ " " ++ toString t) = ["POLYGONS", toString m, toString t] := by
  have e : "POLYGONS " ++ toString m ++ " " ++ toString t = ("POLYGONS" ++ " " ++ toString m) ++ " " ++ toString t := by
    rw [show ("POLYGONS " : String) = "POLYGONS" ++ " " by decide]
  rw [e, words_append_space, words_append_space, words_tok "POLYGONS" (by decide), words_toString, words_toString]
  rfl

theorem length_flatten_const {α : Type} (rows : List (List α)) (k : Nat) (h : ∀ r ∈ rows, r.length = k) :
    rows.flatten.length = k * rows.length := by
  induction rows with
  | nil => simp
  | cons r rows ih =>
    rw [List.flatten_cons, List.length_append, h r List.mem_cons_self, ih fun r' hr' => h r' (List.mem_cons_of_mem _ hr'),
      List.length_cons, Nat.mul_succ, Nat.add_comm]

section mesh
variable {k : Nat} {coords : List (List String)} {elems : List (List Nat)}

theorem GoodMesh.coords_tok (h : GoodMesh k coords elems) : ∀ row ∈ coords, ∀ t ∈ row, GoodTok t :=
  fun row hr t ht => ((h.1 row hr).2 t ht).2

theorem GoodMesh.coords_ok (h : GoodMesh k coords elems) :
    ∀ row ∈ coords, ∀ t ∈ row, (t == NL) = false ∧ isFloatTok t = true :=
  fun row hr t ht => ⟨((h.1 row hr).2 t ht).2.ne_NL, ((h.1 row hr).2 t ht).1⟩

theorem GoodMesh.coords_len (h : GoodMesh k coords elems) : coords.flatten.length = 3 * coords.length :=
  length_flatten_const coords 3 fun r hr => (h.1 r hr).1

theorem elemRows_tok (k : Nat) (elems : List (List Nat)) : ∀ row ∈ elemRows k elems, ∀ t ∈ row, GoodTok t := by
  intro row hr t ht
  obtain ⟨e, _, rfl⟩ := List.mem_map.mp hr
  rcases List.mem_cons.mp ht with rfl | ht
  · exact goodTok_toString k
  · obtain ⟨n, _, rfl⟩ := List.mem_map.mp ht
    exact goodTok_toString n

theorem elemRows_ok (k : Nat) (elems : List (List Nat)) :
    ∀ row ∈ elemRows k elems, ∀ t ∈ row, (t == NL) = false ∧ isIntTok t = true := by
  intro row hr t ht
  refine ⟨(elemRows_tok k elems row hr t ht).ne_NL, ?_⟩
  obtain ⟨e, _, rfl⟩ := List.mem_map.mp hr
  rcases List.mem_cons.mp ht with rfl | ht
  · exact isIntTok_toString k
  · obtain ⟨n, _, rfl⟩ := List.mem_map.mp ht
    exact isIntTok_toString n

theorem elemRows_length (h : GoodMesh k coords elems) : ∀ r ∈ elemRows k elems, r.length = k + 1 := by
  intro r hr
  obtain ⟨e, he, rfl⟩ := List.mem_map.mp hr
  simp [h.2.1 e he]

theorem elemRows_flatten_length (h : GoodMesh k coords elems) :
    (elemRows k elems).flatten.length = (k + 1) * elems.length := by
  rw [length_flatten_const _ (k + 1) (elemRows_length h)]
  simp [elemRows]

theorem elemRows_decode (k : Nat) (elems : List (List Nat)) :
    (elemRows k elems).map (fun r => (r.drop 1).map (·.toNat!)) = elems := by
  unfold elemRows
  rw [List.map_map]
  conv => rhs; rw [← List.map_id elems]
  apply List.map_congr_left
  intro e _
  simp only [Function.comp_apply, List.drop_one, List.tail_cons, id_eq]
  exact map_toNat!_toString e

/-- the final checks succeed on the rows the writer produced -/
theorem vtkFinish_elemRows (h : GoodMesh k coords elems) (cs : List String) :
    vtkFinish k cs elems.length (elemRows k elems).flatten = .ok { coords := cs, elems := elems } := by
  have hlen : (elemRows k elems).length = elems.length := by simp [elemRows]
  have hchunk : chunk (k + 1) elems.length (elemRows k elems).flatten = elemRows k elems := by
    rw [← hlen]; exact chunk_flatten (k + 1) _ (elemRows_length h)
  have hlast : ((elemRows k elems).getLast?.bind (·.head?)) = some (toString k) := by
    obtain ⟨init, e, he⟩ : ∃ init e, elems = init ++ [e] :=
      ⟨elems.dropLast, elems.getLast h.2.2, (List.dropLast_concat_getLast h.2.2).symm⟩
    rw [he]; simp [elemRows]
  have hneg : (elemRows k elems).flatten.any (fun s => s.startsWith "-") = false := by
    rw [List.any_eq_false]
    intro s hs
    obtain ⟨row, hr, hs⟩ := List.mem_flatten.mp hs
    obtain ⟨e, _, rfl⟩ := List.mem_map.mp hr
    rcases List.mem_cons.mp hs with rfl | hs
    · rw [not_startsWith_minus_toString]; decide
    · obtain ⟨n, _, rfl⟩ := List.mem_map.mp hs
      rw [not_startsWith_minus_toString]; decide
  have hmap : (elemRows k elems).map (fun r => (r.drop 1).map (·.toNat!)) = elems := by
    unfold elemRows
    rw [List.map_map]
    conv => rhs; rw [← List.map_id elems]
    apply List.map_congr_left
    intro e _
    simp only [Function.comp_apply, List.drop_one, List.tail_cons, id_eq]
    exact map_toNat!_toString e
  unfold vtkFinish
  simp only [hchunk, hlast, hneg, hmap, bne_self_eq_false, Bool.false_eq_true, if_false]

/-- **`read_vtk ∘ write_vtk = id`** on the connectivity (values, order, winding) and the coordinate tokens -/
theorem vtk_roundtrip (h : GoodMesh k coords elems) :
    readVtk k (writeVtk k coords elems) = .ok { coords := coords.flatten, elems := elems } := by
  rw [writeVtk_eq, readVtk_header, tokenize_append, tokenize_rows coords h.coords_tok, ← h.coords_len,
    takeNums_rows isFloatTok coords h.coords_ok, tokenize_cons, words_polygons]
  simp only [List.nil_append, List.reverse_nil, List.cons_append]
  rw [dropNL_cons_of_ne _ _ (by decide), vtkBody_polygons _ _ _ _ _ (by simpa using h.2.2), if_neg (by simp),
    tokenize_rows _ (elemRows_tok k elems), ← elemRows_flatten_length h]
  have := takeNums_rows isIntTok (elemRows k elems) (elemRows_ok k elems) [] []
  rw [List.append_nil] at this
  rw [this]
  simp only [List.reverse_nil, List.nil_append]
  exact vtkFinish_elemRows h _

/-- **a file of the other kind is rejected** (`ttnum ≠ (k'+1)·tnum`): e.g. `k = 3`, `k' = 4` or the other way round -/
theorem vtk_wrong_kind_gen (k' : Nat) (hk : k' ≠ k) (h : GoodMesh k coords elems) :
    readVtk k' (writeVtk k coords elems) = .error .format := by
  rw [writeVtk_eq, readVtk_header, tokenize_append, tokenize_rows coords h.coords_tok, ← h.coords_len,
    takeNums_rows isFloatTok coords h.coords_ok, tokenize_cons, words_polygons]
  simp only [List.nil_append, List.reverse_nil, List.cons_append]
  have hM : elems.length ≠ 0 := by simpa using h.2.2
  rw [dropNL_cons_of_ne _ _ (by decide), vtkBody_polygons _ _ _ _ _ hM, if_pos]
  intro heq
  have : k + 1 = k' + 1 := Nat.eq_of_mul_eq_mul_right (Nat.pos_of_ne_zero hM) heq
  omega

theorem take_map {α β : Type} (f : α → β) (l : List α) (j : Nat) : (l.map f).take j = (l.take j).map f :=
  (List.map_take).symm

/-- **every truncated file is rejected**: cutting the written file after `m` lines, anywhere, gives an error — never a
    different mesh.  (`m ≤ 2`: no `ASCII` line, `format`; otherwise `data`: the stream ends before the announced
    number of coordinates / the element header / the announced number of integers.) -/
theorem vtk_truncation (h : GoodMesh k coords elems) (m : Nat) (hm : m < (writeVtk k coords elems).length) :
    ∃ e, readVtk k ((writeVtk k coords elems).take m) = .error e := by
  rw [writeVtk_eq] at hm ⊢
  simp only [List.length_cons, List.length_append, List.length_map] at hm
  by_cases h5 : m < 5
  · have hcases : m = 0 ∨ m = 1 ∨ m = 2 ∨ m = 3 ∨ m = 4 := by omega
    rcases hcases with rfl | rfl | rfl | rfl | rfl
    · exact ⟨_, by simp [readVtk, skipToAscii, skipToAscii.go]; rfl⟩
    · exact ⟨_, by simp [readVtk, skipToAscii, skipToAscii.go]; rfl⟩
    · exact ⟨_, by simp [readVtk, skipToAscii, skipToAscii.go]; rfl⟩
    · exact ⟨_, by simp [readVtk, skipToAscii, skipToAscii.go]; rfl⟩
    · exact ⟨_, by simp [readVtk, skipToAscii, skipToAscii.go]; rfl⟩
  · obtain ⟨j, rfl⟩ : ∃ j, m = j + 5 := ⟨m - 5, by omega⟩
    simp only [List.take_succ_cons]
    rw [readVtk_header]
    by_cases hj : j ≤ coords.length
    · -- the cut is inside (or right after) the vertex block
      rw [List.take_append_of_le_length (by simpa using hj), take_map,
        tokenize_rows _ (fun row hr => h.coords_tok row (List.mem_of_mem_take hr))]
      have hok : ∀ row ∈ coords.take j, ∀ t ∈ row, (t == NL) = false ∧ isFloatTok t = true :=
        fun row hr => h.coords_ok row (List.mem_of_mem_take hr)
      have hlen : (coords.take j).flatten.length = 3 * j := by
        rw [length_flatten_const _ 3 (fun r hr => (h.1 r (List.mem_of_mem_take hr)).1), List.length_take,
          Nat.min_eq_left hj]
      by_cases hjn : j = coords.length
      · have := takeNums_rows isFloatTok (coords.take j) hok [] []
        rw [List.append_nil, hlen, hjn] at this
        rw [hjn, this]
        exact ⟨_, rfl⟩
      · obtain ⟨d, hd⟩ : ∃ d, 3 * coords.length = 3 * j + (d + 1) := ⟨3 * coords.length - 3 * j - 1, by omega⟩
        have := takeNums_short isFloatTok (coords.take j) hok d []
        rw [hlen, ← hd] at this
        rw [this]
        exact ⟨_, rfl⟩
    · -- the cut is inside the element block
      obtain ⟨j', rfl⟩ : ∃ j', j = coords.length + 1 + j' := ⟨j - coords.length - 1, by omega⟩
      have hj' : j' < elems.length := by simp [elemRows] at hm; omega
      rw [List.take_append, List.take_of_length_le (by simp; omega)]
      simp only [List.length_map, show coords.length + 1 + j' - coords.length = j' + 1 by omega,
        List.take_succ_cons]
      rw [tokenize_append, tokenize_rows coords h.coords_tok, ← h.coords_len,
        takeNums_rows isFloatTok coords h.coords_ok, tokenize_cons, words_polygons]
      simp only [List.nil_append, List.reverse_nil, List.cons_append]
      have hM : elems.length ≠ 0 := by omega
      rw [dropNL_cons_of_ne _ _ (by decide), vtkBody_polygons _ _ _ _ _ hM, if_neg (by simp), take_map,
        tokenize_rows _ (fun row hr => elemRows_tok k elems row (List.mem_of_mem_take hr))]
      have hok : ∀ row ∈ (elemRows k elems).take j', ∀ t ∈ row, (t == NL) = false ∧ isIntTok t = true :=
        fun row hr => elemRows_ok k elems row (List.mem_of_mem_take hr)
      have hlen : ((elemRows k elems).take j').flatten.length = (k + 1) * j' := by
        rw [length_flatten_const _ (k + 1) (fun r hr => elemRows_length h r (List.mem_of_mem_take hr)),
          List.length_take, Nat.min_eq_left (by simp [elemRows]; omega)]
      obtain ⟨d, hd⟩ : ∃ d, (k + 1) * elems.length = (k + 1) * j' + (d + 1) := by
        refine ⟨(k + 1) * elems.length - (k + 1) * j' - 1, ?_⟩
        have : (k + 1) * j' < (k + 1) * elems.length := Nat.mul_lt_mul_of_pos_left hj' (by omega)
        omega
      have := takeNums_short isIntTok ((elemRows k elems).take j') hok d []
      rw [hlen, ← hd] at this
      rw [this]
      exact ⟨_, rfl⟩
end mesh

theorem vtk_wrong_kind {coords : List (List String)} {elems : List (List Nat)} :
    (GoodMesh 3 coords elems → readVtk 4 (writeVtk 3 coords elems) = .error .format) ∧
    (GoodMesh 4 coords elems → readVtk 3 (writeVtk 4 coords elems) = .error .format) :=
  ⟨vtk_wrong_kind_gen 4 (by decide), vtk_wrong_kind_gen 3 (by decide)⟩

/-! ## OFF -/

theorem words_offCounts (n m : Nat) : words (toString n ++ " " ++ toString m ++ " 0") = [toString n, toString m, "0"] := by
  rw [show (" 0" : String) = " " ++ "0" by decide, ← String.append_assoc, words_append_space, words_append_space,
    words_toString, words_toString, words_tok "0" (by decide)]
  rfl

theorem foldl_max_const (l : List Nat) (c : Nat) (h : ∀ x ∈ l, x = c) (hne : l ≠ []) : l.foldl max 0 = c := by
  have key : ∀ (l : List Nat) (a : Nat), (∀ x ∈ l, x = c) → l.foldl max a = if l = [] then a else max a c := by
    intro l
    induction l with
    | nil => intro a _; simp
    | cons x l ih =>
      intro a hx
      have hxc : x = c := hx x List.mem_cons_self
      rw [List.foldl_cons, ih _ fun y hy => hx y (List.mem_cons_of_mem _ hy), hxc]
      by_cases hl : l = [] <;> simp [hl, Nat.max_assoc]
  rw [key l 0 h, if_neg hne, Nat.zero_max]

/-- **a foreign OFF file loads to the mesh it describes** (zero-based indices unchanged, order and winding kept) -/
theorem off_spec {coords : List (List String)} {elems : List (List Nat)} (h : GoodMesh 3 coords elems) :
    readOff (["OFF", s!"{coords.length} {elems.length} 0"] ++ coords.map (" ".intercalate) ++
        elems.map (fun e => " ".intercalate ("3" :: e.map toString))) =
      .ok { coords := coords.flatten, elems := elems } := by
  have hlines : (["OFF", s!"{coords.length} {elems.length} 0"] ++ coords.map (" ".intercalate) ++
        elems.map (fun e => " ".intercalate ("3" :: e.map toString))) =
      "OFF" :: (toString coords.length ++ " " ++ toString elems.length ++ " 0") ::
        ((coords.map fun r => " ".intercalate r) ++ ((elemRows 3 elems).map fun r => " ".intercalate r)) := by
    unfold elemRows
    rw [List.map_map]
    simp only [List.cons_append, List.nil_append]
    rfl
  have hM : elems.length ≠ 0 := by simpa using h.2.2
  have hoff : ("OFF".startsWith "OFF") = true := by simp
  have hoff' : ("OFF".startsWith "#") = false := by simp
  -- the element token stream starts with a number, not with a line break
  have hdrop : dropNL ((elemRows 3 elems).flatMap (· ++ [NL])) = (elemRows 3 elems).flatMap (· ++ [NL]) := by
    obtain ⟨e, es, he⟩ := List.exists_cons_of_ne_nil h.2.2
    rw [he]
    simp only [elemRows, List.map_cons, List.flatMap_cons, List.cons_append]
    exact dropNL_cons_of_ne _ _ (goodTok_toString 3).ne_NL
  have hnums := takeNums_rows isIntTok (elemRows 3 elems) (elemRows_ok 3 elems) [] []
  rw [List.append_nil, elemRows_flatten_length h] at hnums
  have hlen : (elemRows 3 elems).length = elems.length := by simp [elemRows]
  have hchunk : chunk 4 elems.length (elemRows 3 elems).flatten = elemRows 3 elems := by
    rw [← hlen]; exact chunk_flatten 4 _ (elemRows_length h)
  have hmax : ((elemRows 3 elems).map fun r => (r.headD "0").toNat!).foldl max 0 = 3 := by
    apply foldl_max_const
    · intro x hx
      obtain ⟨r, hr, rfl⟩ := List.mem_map.mp hx
      obtain ⟨e, _, rfl⟩ := List.mem_map.mp hr
      exact toNat!_toString 3
    · simpa [elemRows] using h.2.2
  rw [hlines]
  unfold readOff
  simp only [List.dropWhile_cons, hoff', hoff, Bool.false_eq_true, if_false, Bool.not_true, words_offCounts,
    isNatTok_toString, toNat!_toString, Bool.and_self]
  rw [tokenize_append, tokenize_rows coords h.coords_tok, ← h.coords_len,
    takeNums_rows isFloatTok coords h.coords_ok, tokenize_rows _ (elemRows_tok 3 elems), hdrop]
  simp only [List.reverse_nil, List.nil_append]
  rw [show 4 * elems.length = (3 + 1) * elems.length by rfl, hnums]
  simp only [List.reverse_nil, List.nil_append, hchunk, hmax, elemRows_decode]
  simp [hM]

/-! ## TRIANGLE_STRIPS -/

/-- the triangles of one strip `i0 i1 … i_{n-1}`: `(i_j, i_{j+1}, i_{j+2})` for even `j`, `(i_{j+1}, i_j, i_{j+2})` for odd
    `j` (alternating winding) -/
def stripTris (ix : List Nat) : List (List Nat) :=
  (List.range (ix.length - 2)).map fun j =>
    if j % 2 == 0 then [ix.getD j 0, ix.getD (j + 1) 0, ix.getD (j + 2) 0]
    else [ix.getD (j + 1) 0, ix.getD j 0, ix.getD (j + 2) 0]

/-- one round of the strip loop on a line `n i0 … i_{n-1}` -/
theorem strips_one (ix : List Nat) (rest : List String) (acc : List (List Nat)) (m : Nat) :
    readVtk.strips (m + 1) ((toString ix.length :: ix.map toString) ++ NL :: rest) acc =
      readVtk.strips m rest (acc ++ stripTris ix) := by
  have hrl : readLine ((toString ix.length :: ix.map toString) ++ NL :: rest)
      = (toString ix.length :: ix.map toString, rest) := by
    apply readLine_row
    intro t ht
    rcases List.mem_cons.mp ht with rfl | ht
    · exact (goodTok_toString _).ne_NL
    · obtain ⟨n, _, rfl⟩ := List.mem_map.mp ht
      exact (goodTok_toString n).ne_NL
  have hall : (ix.map toString).all isNatTok = true := by
    rw [List.all_eq_true]
    intro t ht
    obtain ⟨n, _, rfl⟩ := List.mem_map.mp ht
    exact isNatTok_toString n
  rw [readVtk.strips, hrl]
  simp only [isNatTok_toString, toNat!_toString, List.length_map, hall, map_toNat!_toString, Bool.not_true,
    bne_self_eq_false, Bool.or_self, Bool.false_eq_true, if_false]
  rfl

/-- **TRIANGLE_STRIPS with a single strip** are unrolled with alternating winding -/
theorem strips_spec {coords : List (List String)} (hc : ∀ row ∈ coords, row.length = 3 ∧ ∀ s ∈ row, GoodCoord s)
    (ix : List Nat) :
    readVtk 3 (["# vtk DataFile Version 1.0", "vtk output", "ASCII", "DATASET POLYDATA",
        s!"POINTS {coords.length} float"] ++ coords.map (" ".intercalate) ++
        [s!"TRIANGLE_STRIPS 1 {ix.length + 1}", " ".intercalate (toString ix.length :: ix.map toString)]) =
      .ok { coords := coords.flatten, elems := stripTris ix } := by
  have hlines : (["# vtk DataFile Version 1.0", "vtk output", "ASCII", "DATASET POLYDATA",
        s!"POINTS {coords.length} float"] ++ coords.map (" ".intercalate) ++
        [s!"TRIANGLE_STRIPS 1 {ix.length + 1}", " ".intercalate (toString ix.length :: ix.map toString)]) =
      "# vtk DataFile Version 1.0" :: "vtk output" :: "ASCII" :: "DATASET POLYDATA" ::
        ("POINTS " ++ toString coords.length ++ " float") ::
        ((coords.map fun r => " ".intercalate r) ++
          [("TRIANGLE_STRIPS 1 " ++ toString (ix.length + 1)),
            " ".intercalate (toString ix.length :: ix.map toString)]) := by
    simp only [List.cons_append, List.nil_append]
    rfl
  have hctok : ∀ row ∈ coords, ∀ t ∈ row, GoodTok t := fun row hr t ht => ((hc row hr).2 t ht).2
  have hcok : ∀ row ∈ coords, ∀ t ∈ row, (t == NL) = false ∧ isFloatTok t = true :=
    fun row hr t ht => ⟨((hc row hr).2 t ht).2.ne_NL, ((hc row hr).2 t ht).1⟩
  have hclen : coords.flatten.length = 3 * coords.length := length_flatten_const coords 3 fun r hr => (hc r hr).1
  have hw : words ("TRIANGLE_STRIPS 1 " ++ toString (ix.length + 1)) =
      ["TRIANGLE_STRIPS", "1", toString (ix.length + 1)] := by
    rw [show ("TRIANGLE_STRIPS 1 " : String) = "TRIANGLE_STRIPS" ++ " " ++ "1" ++ " " by decide,
      words_append_space, words_append_space, words_tok "TRIANGLE_STRIPS" (by decide), words_tok "1" (by decide),
      words_toString]
    rfl
  have hrow : ∀ t ∈ toString ix.length :: ix.map toString, GoodTok t := by
    intro t ht
    rcases List.mem_cons.mp ht with rfl | ht
    · exact goodTok_toString _
    · obtain ⟨n, _, rfl⟩ := List.mem_map.mp ht
      exact goodTok_toString n
  rw [hlines, readVtk_header, tokenize_append, tokenize_rows coords hctok, ← hclen,
    takeNums_rows isFloatTok coords hcok, tokenize_cons, hw, tokenize_cons, words_intercalate _ hrow]
  simp only [List.nil_append, List.reverse_nil, List.cons_append]
  rw [dropNL_cons_of_ne _ _ (by decide)]
  have hrl : readLine ("TRIANGLE_STRIPS" :: "1" :: toString (ix.length + 1) :: NL ::
        (toString ix.length :: (ix.map toString ++ NL :: tokenize [])))
      = (["TRIANGLE_STRIPS", "1", toString (ix.length + 1)],
          toString ix.length :: (ix.map toString ++ NL :: tokenize [])) := by
    have := readLine_row ["TRIANGLE_STRIPS", "1", toString (ix.length + 1)]
      (by
        intro x hx
        simp only [List.mem_cons, List.not_mem_nil, or_false] at hx
        rcases hx with rfl | rfl | rfl
        · decide
        · decide
        · exact (goodTok_toString _).ne_NL) (toString ix.length :: (ix.map toString ++ NL :: tokenize []))
    simpa using this
  have h1 : (("TRIANGLE_STRIPS" : String) == "POLYGONS" || ("TRIANGLE_STRIPS" : String) == "CELLS") = false := by decide
  have h2 : (("TRIANGLE_STRIPS" : String) == "TRIANGLE_STRIPS" && (3 : Nat) == 3) = true := by decide
  have h3 : isNatTok "1" = true := isNatTok_toString 1
  have h4 : ("1" : String).toNat! = 1 := toNat!_toString 1
  unfold vtkBody
  rw [hrl]
  simp only [h1, h2, h3, h4, Bool.false_eq_true, if_false, if_true, Bool.not_true]
  have := strips_one ix (tokenize []) [] 0
  simp only [List.cons_append, List.nil_append] at this
  rw [this]
  rfl

/-! ## Gmsh 2 ASCII -/

def gmshNodeRows (coords : List (List String)) : List (List String) :=
  (coords.zipIdx 1).map fun p => toString p.2 :: p.1

def gmshElemRows (elems : List (List Nat)) : List (List String) :=
  (elems.zipIdx 1).map fun p => [toString p.2, "4", "2", "0", "1"] ++ p.1.map fun a => toString (a + 1)

/-- a Gmsh 2.2 ASCII file: numbered node lines `i x y z`, numbered tetrahedron lines `i 4 2 0 1 a+1 b+1 c+1 d+1`
    (node numbers 1-based) -/
def gmshFile (coords : List (List String)) (elems : List (List Nat)) : List String :=
  ["$MeshFormat", "2.2 0 8", "$EndMeshFormat", "$Nodes", toString coords.length] ++
  (gmshNodeRows coords).map (" ".intercalate) ++ ["$EndNodes", "$Elements", toString elems.length] ++
  (gmshElemRows elems).map (" ".intercalate) ++ ["$EndElements"]

theorem fst_mem_of_mem_zipIdx {α : Type} (l : List α) (k : Nat) (p : α × Nat) (h : p ∈ l.zipIdx k) : p.1 ∈ l := by
  induction l generalizing k with
  | nil => simp at h
  | cons x l ih =>
    rw [List.zipIdx_cons, List.mem_cons] at h
    rcases h with rfl | h
    · simp
    · exact List.mem_cons_of_mem _ (ih _ h)

theorem zipIdx_map_flatMap_drop {α β : Type} (l : List α) (k n : Nat) (f : α × Nat → List β) (g : α → List β)
    (h : ∀ p, (f p).drop n = g p.1) : ((l.zipIdx k).map f).flatMap (·.drop n) = l.flatMap g := by
  induction l generalizing k with
  | nil => rfl
  | cons x l ih => simp [List.zipIdx_cons, h, ih]

theorem zipIdx_map_map_drop {α β γ : Type} (l : List α) (k n : Nat) (f : α × Nat → List β) (d : List β → γ)
    (g : α → γ) (h : ∀ p, d ((f p).drop n) = g p.1) :
    ((l.zipIdx k).map f).map (fun r => d (r.drop n)) = l.map g := by
  induction l generalizing k with
  | nil => rfl
  | cons x l ih => simp [List.zipIdx_cons, h, ih]

section gmsh
variable {coords : List (List String)} {elems : List (List Nat)}

theorem gmshNodeRows_mem (r : List String) (hr : r ∈ gmshNodeRows coords) :
    ∃ row ∈ coords, ∃ i : Nat, r = toString i :: row := by
  obtain ⟨p, hp, rfl⟩ := List.mem_map.mp hr
  exact ⟨p.1, fst_mem_of_mem_zipIdx _ _ _ hp, p.2, rfl⟩

theorem gmshElemRows_mem (r : List String) (hr : r ∈ gmshElemRows elems) :
    ∃ e ∈ elems, ∃ i : Nat, r = [toString i, "4", "2", "0", "1"] ++ e.map fun a => toString (a + 1) := by
  obtain ⟨p, hp, rfl⟩ := List.mem_map.mp hr
  exact ⟨p.1, fst_mem_of_mem_zipIdx _ _ _ hp, p.2, rfl⟩

theorem gmshNodeRows_good (h : GoodMesh 4 coords elems) :
    ∀ r ∈ gmshNodeRows coords, r.length = 4 ∧ ∀ t ∈ r, GoodTok t ∧ isFloatTok t = true := by
  intro r hr
  obtain ⟨row, hrow, i, rfl⟩ := gmshNodeRows_mem r hr
  refine ⟨by simp [(h.1 row hrow).1], ?_⟩
  intro t ht
  rcases List.mem_cons.mp ht with rfl | ht
  · exact ⟨goodTok_toString i, isFloatTok_toString i⟩
  · exact ⟨((h.1 row hrow).2 t ht).2, ((h.1 row hrow).2 t ht).1⟩

theorem gmshElemRows_good (h : GoodMesh 4 coords elems) :
    ∀ r ∈ gmshElemRows elems, r.length = 9 ∧ ∀ t ∈ r, GoodTok t ∧ isIntTok t = true := by
  intro r hr
  obtain ⟨e, he, i, rfl⟩ := gmshElemRows_mem r hr
  refine ⟨by simp [h.2.1 e he], ?_⟩
  intro t ht
  simp only [List.cons_append, List.nil_append, List.mem_cons, List.mem_map] at ht
  rcases ht with rfl | rfl | rfl | rfl | rfl | ⟨a, _, rfl⟩
  · exact ⟨goodTok_toString i, isIntTok_toString i⟩
  · exact ⟨goodTok_toString 4, isIntTok_toString 4⟩
  · exact ⟨goodTok_toString 2, isIntTok_toString 2⟩
  · exact ⟨goodTok_toString 0, isIntTok_toString 0⟩
  · exact ⟨goodTok_toString 1, isIntTok_toString 1⟩
  · exact ⟨goodTok_toString _, isIntTok_toString _⟩

/-- **a foreign Gmsh 2.2 ASCII file loads to the mesh it describes**, node numbers converted from 1-based to 0-based -/
theorem gmsh_spec (h : GoodMesh 4 coords elems) :
    readGmsh (gmshFile coords elems) = .ok { coords := coords.flatten, elems := elems } := by
  have hfile : gmshFile coords elems =
      "$MeshFormat" :: "2.2 0 8" :: "$EndMeshFormat" :: "$Nodes" :: toString coords.length ::
        ((gmshNodeRows coords).map (fun r => " ".intercalate r) ++
          ("$EndNodes" :: "$Elements" :: toString elems.length ::
            ((gmshElemRows elems).map (fun r => " ".intercalate r) ++ ["$EndElements"]))) := by
    unfold gmshFile
    simp only [List.cons_append, List.nil_append, List.append_assoc]
  have hM : elems.length ≠ 0 := by simpa using h.2.2
  have hN := gmshNodeRows_good h
  have hE := gmshElemRows_good h
  have hNlen : (gmshNodeRows coords).length = coords.length := by simp [gmshNodeRows]
  have hElen : (gmshElemRows elems).length = elems.length := by simp [gmshElemRows]
  -- header facts
  have h0 : ("$MeshFormat".startsWith "$MeshFormat") = true := by simp
  have h1 : words "2.2 0 8" = ["2.2", "0", "8"] := by decide
  have h2 : ("$EndMeshFormat".startsWith "$EndMeshFormat") = true := by simp
  have h3 : ("$Nodes".startsWith "$Nodes") = true := by simp
  have h4 : (toString coords.length).trimAscii.toString = toString coords.length :=
    trimAscii_tok _ (goodTok_toString _).2
  -- node block
  have hnodes := takeNums_rows isFloatTok (gmshNodeRows coords)
    (fun r hr t ht => ⟨((hN r hr).2 t ht).1.ne_NL, ((hN r hr).2 t ht).2⟩) []
  rw [length_flatten_const _ 4 (fun r hr => (hN r hr).1), hNlen] at hnodes
  have hchunkN : chunk 4 coords.length (gmshNodeRows coords).flatten = gmshNodeRows coords := by
    rw [← hNlen]; exact chunk_flatten 4 _ fun r hr => (hN r hr).1
  have hcoords : (gmshNodeRows coords).flatMap (·.drop 1) = coords.flatten := by
    unfold gmshNodeRows
    rw [zipIdx_map_flatMap_drop coords 1 1 _ id (fun p => rfl)]
    simp [List.flatMap_id]
  -- element block
  have helems := takeNums_rows isIntTok (gmshElemRows elems)
    (fun r hr t ht => ⟨((hE r hr).2 t ht).1.ne_NL, ((hE r hr).2 t ht).2⟩) []
  rw [length_flatten_const _ 9 (fun r hr => (hE r hr).1), hElen, Nat.mul_comm] at helems
  have hchunkE : chunk 9 elems.length (gmshElemRows elems).flatten = gmshElemRows elems := by
    rw [← hElen]; exact chunk_flatten 9 _ fun r hr => (hE r hr).1
  rw [hfile]
  unfold readGmsh
  simp only [h0, h1, h2, h3, h4, isNatTok_toString, toNat!_toString, Bool.not_true, Bool.false_eq_true, if_false,
    bne_self_eq_false, Bool.or_self]
  rw [tokenize_append, tokenize_rows _ (fun r hr t ht => ((hN r hr).2 t ht).1), hnodes]
  simp only [tokenize_cons, words_tok "$EndNodes" (by decide), words_tok "$Elements" (by decide), words_toString,
    tokenize_append, tokenize_rows _ (fun r hr t ht => ((hE r hr).2 t ht).1), words_tok "$EndElements" (by decide)]
  simp only [List.cons_append, List.nil_append, show tokenize [] = [] from rfl]
  -- the three header lines between the blocks
  have rl1 : ∀ (t : String) (r : List String), (t == NL) = false → readLine (t :: NL :: r) = ([t], r) := by
    intro t r ht
    have := readLine_row [t] (by simpa using ht) r
    simpa using this
  rw [dropNL_cons_of_ne _ _ (by decide)]
  simp only [rl1 "$EndNodes" _ (by decide), rl1 "$Elements" _ (by decide), rl1 (toString elems.length) _
    (goodTok_toString _).ne_NL, List.headD_cons, show ("$EndNodes".startsWith "$EndNodes") = true by simp,
    show ("$Elements".startsWith "$Elements") = true by simp, Bool.not_true, Bool.or_self, Bool.false_eq_true, if_false,
    isNatTok_toString, toNat!_toString]
  -- the first element row
  have hfirst : ∃ a tl, (readLine ((gmshElemRows elems).flatMap (fun x => x ++ [NL]) ++ ["$EndElements", NL])).1
      = a :: "4" :: tl ∧ (a :: "4" :: tl).length = 9 := by
    obtain ⟨e, es, he⟩ := List.exists_cons_of_ne_nil h.2.2
    have hrow := hE ([toString 1, "4", "2", "0", "1"] ++ e.map fun a => toString (a + 1))
      (by rw [he]; simp [gmshElemRows, List.zipIdx_cons])
    refine ⟨toString 1, ["2", "0", "1"] ++ e.map fun a => toString (a + 1), ?_, by simpa using hrow.1⟩
    have := readLine_row _ (fun t ht => (hrow.2 t ht).1.ne_NL)
      (((es.zipIdx (1 + 1)).map fun p => [toString p.2, "4", "2", "0", "1"] ++ p.1.map fun a => toString (a + 1)).flatMap
        (fun x => x ++ [NL]) ++ ["$EndElements", NL])
    rw [he]
    simp only [gmshElemRows, List.zipIdx_cons, List.map_cons, List.flatMap_cons, List.append_assoc,
      List.cons_append, List.nil_append] at this ⊢
    rw [this]
  obtain ⟨a, tl, hf1, hf2⟩ := hfirst
  simp only [hf1, hf2, bne_self_eq_false, Bool.false_eq_true, if_false, helems]
  have hany : ((gmshElemRows elems).any fun r => (List.drop 5 r).any fun s => s.startsWith "-" || s == "0") = false := by
    rw [List.any_eq_false]
    intro r hr
    obtain ⟨e, _, i, rfl⟩ := gmshElemRows_mem r hr
    rw [Bool.not_eq_true, List.any_eq_false]
    intro s hs
    rw [List.drop_left' (by rfl)] at hs
    obtain ⟨a, _, rfl⟩ := List.mem_map.mp hs
    rw [not_startsWith_minus_toString, Bool.false_or, Bool.not_eq_true, beq_eq_false_iff_ne]
    intro h0
    have : Nat.repr (a + 1) = Nat.repr 0 := h0
    rw [Nat.repr_inj] at this
    omega
  have hdec : (gmshElemRows elems).map (fun r => List.map (fun s => s.toNat! - 1) (List.drop 5 r)) = elems := by
    have := zipIdx_map_map_drop elems 1 5
      (fun p => [toString p.2, "4", "2", "0", "1"] ++ p.1.map fun a => toString (a + 1))
      (List.map fun s : String => s.toNat! - 1) id (by
        intro p
        rw [List.drop_left' (by rfl), List.map_map]
        conv => rhs; rw [id, ← List.map_id p.1]
        apply List.map_congr_left
        intro a _
        show (toString (a + 1)).toNat! - 1 = id a
        rw [toNat!_toString]; rfl)
    simpa [gmshElemRows] using this
  rw [dropNL_cons_of_ne _ _ (by decide), rl1 "$EndElements" [] (by decide)]
  simp only [List.headD_cons, show ("$EndElements".startsWith "$EndElements") = true by simp, Bool.not_true,
    Bool.false_eq_true, if_false, List.reverse_nil, List.nil_append, hchunkE, hchunkN, hcoords, Nat.reduceSub, hany,
    hdec]
end gmsh

/-! ## vertex functions -/

/-- a value token of a vertex function: a float token without white space and without the bracket and separator
    characters `, ; ( ) { }` (true of every `str(float)`) -/
def VfTok (s : String) : Prop :=
  isFloatTok s = true ∧ ∀ c ∈ s.toList, isWs c = false ∧ [',', ';', '(', ')', '{', '}'].contains c = false

/-- **`read_vfunc ∘ write_vfunc = id`** -/
theorem vfunc_roundtrip (vals : List String) (hne : vals ≠ []) (h : ∀ v ∈ vals, VfTok v) :
    readVfunc (writeVfunc vals) = some vals := by
  have ht1 : ("Solution:" : String).trimAscii.toString = "Solution:" := trimAscii_tok _ (by decide)
  have ht2 : ("(" ++ ",".intercalate vals ++ ")").trimAscii.toString = "(" ++ ",".intercalate vals ++ ")" := by
    apply trimAscii_id
    · simp [String.toList_append]
    · rw [String.toList_append, List.getLast?_append]
      simp
  have hJ : ∀ c ∈ (",".intercalate vals).toList, ['{', '(', ')', '}'].contains c = false := by
    intro c hc
    rcases mem_intercalate _ _ _ hc with hc | ⟨v, hv, hc⟩
    · have : c = ',' := by simpa using hc
      subst this; decide
    · have := ((h v hv).2 c hc).2
      simp only [List.contains_eq_mem, List.mem_cons, List.not_mem_nil, or_false, decide_eq_false_iff_not,
        not_or] at this ⊢
      exact ⟨this.2.2.2.2.1, this.2.2.1, this.2.2.2.1, this.2.2.2.2.2⟩
  have hstrip : stripChars ("(" ++ ",".intercalate vals ++ ")") ['{', '(', ')', '}'] = ",".intercalate vals := by
    rw [stripChars_append, stripChars_append, stripChars_clean _ _ hJ,
      show stripChars "(" ['{', '(', ')', '}'] = "" by decide, show stripChars ")" ['{', '(', ')', '}'] = "" by decide]
    simp
  have hsplit : splitBy (fun c => c == ',' || c == ';') (",".intercalate vals) = vals := by
    rw [show ("," : String) = String.singleton ',' by decide]
    apply splitBy_intercalate _ ',' (by decide) vals hne
    intro v hv x hx
    have := ((h v hv).2 x hx).2
    simp only [List.contains_eq_mem, List.mem_cons, List.not_mem_nil, or_false, decide_eq_false_iff_not,
      not_or] at this
    simp [this.1, this.2.1]
  have htrim : vals.map (·.trimAscii.toString) = vals := by
    conv => rhs; rw [← List.map_id vals]
    apply List.map_congr_left
    intro v hv
    exact trimAscii_tok v fun c hc => ((h v hv).2 c hc).1
  have hall : vals.all isFloatTok = true := List.all_eq_true.mpr fun v hv => (h v hv).1
  unfold readVfunc writeVfunc
  simp only [List.map_cons, List.map_nil, ht1, ht2, List.contains_cons, beq_self_eq_true, Bool.true_or, Bool.not_true,
    Bool.false_eq_true, if_false, List.erase_cons_head, hstrip, hsplit, htrim, hall, if_true]

/-! ## `.ev` files -/

def strKeys : List (String × String) := [("Creator:", "Creator"), ("File:", "File"), ("User:", "User")]
def floatKeys : List (String × String) := [("Area:", "Area"), ("Volume:", "Volume"), ("BLength:", "BLength")]

/-- the stripped line -/
def tOf (l : String) : String := l.trimAsciiStart.toString

section steps
variable (fuel : Nat) (l : String) (rest : List String) (d : EvData)

theorem readEv_step_str (p : String × String) (h : strKeys.find? (fun p => (tOf l).startsWith p.1) = some p) :
    readEv (fuel + 1) (l :: rest) d = readEv fuel rest { d with strs := d.strs ++ [(p.2, afterColon l)] } := by
  unfold strKeys tOf at h
  rw [readEv]
  simp only [h]

theorem readEv_step_int (p : String × String) (h1 : strKeys.find? (fun p => (tOf l).startsWith p.1) = none)
    (h2 : intKeys.find? (fun p => (tOf l).startsWith p.1) = some p) (h3 : isIntTok (afterColon l) = true) :
    readEv (fuel + 1) (l :: rest) d = readEv fuel rest { d with ints := d.ints ++ [(p.2, afterColon l)] } := by
  unfold strKeys tOf at h1
  unfold tOf at h2
  rw [readEv]
  simp only [h1, h2, h3, if_true]

theorem readEv_step_pre (h1 : strKeys.find? (fun p => (tOf l).startsWith p.1) = none)
    (h2 : intKeys.find? (fun p => (tOf l).startsWith p.1) = none)
    (h3 : (tOf l).toLower.startsWith "time(pre)" = true) (h4 : isIntTok (afterColon l) = true) :
    readEv (fuel + 1) (l :: rest) d = readEv fuel rest { d with ints := d.ints ++ [("TimePre", afterColon l)] } := by
  unfold strKeys tOf at h1
  unfold tOf at h2 h3
  rw [readEv]
  simp only [h1, h2, h3, h4, if_true]

theorem readEv_step_float (p : String × String) (h1 : strKeys.find? (fun p => (tOf l).startsWith p.1) = none)
    (h2 : intKeys.find? (fun p => (tOf l).startsWith p.1) = none)
    (h3 : (tOf l).toLower.startsWith "time(pre)" = false)
    (h4 : floatKeys.find? (fun p => (tOf l).startsWith p.1) = some p) (h5 : isFloatTok (afterColon l) = true) :
    readEv (fuel + 1) (l :: rest) d = readEv fuel rest { d with floats := d.floats ++ [(p.2, afterColon l)] } := by
  unfold strKeys tOf at h1
  unfold tOf at h2 h3
  unfold floatKeys tOf at h4
  rw [readEv]
  simp only [h1, h2, h3, h4, h5, if_true, Bool.false_eq_true, if_false]

theorem readEv_step_skip (h1 : strKeys.find? (fun p => (tOf l).startsWith p.1) = none)
    (h2 : intKeys.find? (fun p => (tOf l).startsWith p.1) = none)
    (h3 : (tOf l).toLower.startsWith "time(pre)" = false)
    (h4 : floatKeys.find? (fun p => (tOf l).startsWith p.1) = none)
    (h5 : (tOf l).startsWith "Eigenvalues" = false) (h6 : (tOf l).startsWith "Eigenvectors" = false) :
    readEv (fuel + 1) (l :: rest) d = readEv fuel rest d := by
  unfold strKeys tOf at h1
  unfold tOf at h2 h3 h5 h6
  unfold floatKeys tOf at h4
  rw [readEv]
  simp only [h1, h2, h3, h4, h5, h6, Bool.false_eq_true, if_false]
end steps

/-- `" label: value"` -/
def kvLine (label v : String) : String := " " ++ label ++ ": " ++ v
/-- `" label : value"` (the timing lines) -/
def tLine (label v : String) : String := " " ++ label ++ " : " ++ v

/-- no white space at either end (`v.strip() == v`) -/
def Trimmed (v : String) : Prop := v.trimAscii.toString = v

theorem trim_space_left (v : String) : (" " ++ v).trimAscii.toString = v.trimAscii.toString := by
  rw [trimAscii_eq, trimAscii_eq, String.toList_append]
  rfl

theorem tOf_space (s : String) (h : s.toList.head?.any Char.isWhitespace = false) : tOf (" " ++ s) = s :=
  trimStart_space s h

theorem startsWith_eq_decide (s pat : String) : s.startsWith pat = decide (pat.toList <+: s.toList) := by
  rw [Bool.eq_iff_iff, String.startsWith_string_iff]; simp

theorem tOf_kvLine (label v : String) (h : (label ++ (": " ++ v)).toList.head?.any Char.isWhitespace = false) :
    tOf (kvLine label v) = label ++ (": " ++ v) := by
  have e : kvLine label v = " " ++ (label ++ (": " ++ v)) := by
    unfold kvLine; simp only [String.append_assoc]
  rw [e]; exact tOf_space _ h

theorem tOf_tLine (label v : String) (h : (label ++ (" : " ++ v)).toList.head?.any Char.isWhitespace = false) :
    tOf (tLine label v) = label ++ (" : " ++ v) := by
  have e : tLine label v = " " ++ (label ++ (" : " ++ v)) := by
    unfold tLine; simp only [String.append_assoc]
  rw [e]; exact tOf_space _ h

theorem afterColon_kvLine (label v : String) (h : ∀ x ∈ (" " ++ label).toList, x ≠ ':') :
    afterColon (kvLine label v) = v.trimAscii.toString := by
  have e : kvLine label v = (" " ++ label) ++ ":" ++ (" " ++ v) := by
    unfold kvLine
    rw [show (": " : String) = ":" ++ " " by decide]
    simp only [String.append_assoc]
  rw [e, afterColon_eq _ _ h, trim_space_left]

theorem afterColon_tLine (label v : String) (h : ∀ x ∈ (" " ++ label ++ " ").toList, x ≠ ':') :
    afterColon (tLine label v) = v.trimAscii.toString := by
  have e : tLine label v = (" " ++ label ++ " ") ++ ":" ++ (" " ++ v) := by
    unfold tLine
    rw [show (" : " : String) = " " ++ (":" ++ " ") by decide]
    simp only [String.append_assoc]
  rw [e, afterColon_eq _ _ h, trim_space_left]

set_option linter.unusedSimpArgs false

/-- evaluates the key searches of `readEv` on a line with a literal head -/
macro "ev_facts" : tactic =>
  `(tactic| simp [strKeys, floatKeys, intKeys, List.find?, startsWith_eq_decide, String.toLower, String.toList_map,
      String.toList_append])

section lines
variable (fuel : Nat) (v : String) (rest : List String) (d : EvData)

theorem readEv_strLine (K : String) (hK : K ∈ ["Creator", "File", "User"]) (hv : Trimmed v) :
    readEv (fuel + 1) (kvLine K v :: rest) d = readEv fuel rest { d with strs := d.strs ++ [(K, v)] } := by
  simp only [List.mem_cons, List.not_mem_nil, or_false] at hK
  rcases hK with rfl | rfl | rfl
  · rw [readEv_step_str fuel _ rest d ("Creator:", "Creator") (by rw [tOf_kvLine _ _ (by ev_facts)]; ev_facts),
      afterColon_kvLine _ _ (by decide), hv]
  · rw [readEv_step_str fuel _ rest d ("File:", "File") (by rw [tOf_kvLine _ _ (by ev_facts)]; ev_facts),
      afterColon_kvLine _ _ (by decide), hv]
  · rw [readEv_step_str fuel _ rest d ("User:", "User") (by rw [tOf_kvLine _ _ (by ev_facts)]; ev_facts),
      afterColon_kvLine _ _ (by decide), hv]

theorem readEv_intLine (K : String)
    (hK : K ∈ ["Refine", "Degree", "Dimension", "Elements", "DoF", "NumEW", "EulerChar"])
    (hv : Trimmed v) (hi : isIntTok v = true) :
    readEv (fuel + 1) (kvLine K v :: rest) d = readEv fuel rest { d with ints := d.ints ++ [(K, v)] } := by
  simp only [List.mem_cons, List.not_mem_nil, or_false] at hK
  rcases hK with rfl | rfl | rfl | rfl | rfl | rfl | rfl
  · rw [readEv_step_int fuel _ rest d ("Refine:", "Refine") (by rw [tOf_kvLine _ _ (by ev_facts)]; ev_facts)
      (by rw [tOf_kvLine _ _ (by ev_facts)]; ev_facts) (by rw [afterColon_kvLine _ _ (by decide), hv]; exact hi),
      afterColon_kvLine _ _ (by decide), hv]
  · rw [readEv_step_int fuel _ rest d ("Degree:", "Degree") (by rw [tOf_kvLine _ _ (by ev_facts)]; ev_facts)
      (by rw [tOf_kvLine _ _ (by ev_facts)]; ev_facts) (by rw [afterColon_kvLine _ _ (by decide), hv]; exact hi),
      afterColon_kvLine _ _ (by decide), hv]
  · rw [readEv_step_int fuel _ rest d ("Dimension:", "Dimension") (by rw [tOf_kvLine _ _ (by ev_facts)]; ev_facts)
      (by rw [tOf_kvLine _ _ (by ev_facts)]; ev_facts) (by rw [afterColon_kvLine _ _ (by decide), hv]; exact hi),
      afterColon_kvLine _ _ (by decide), hv]
  · rw [readEv_step_int fuel _ rest d ("Elements:", "Elements") (by rw [tOf_kvLine _ _ (by ev_facts)]; ev_facts)
      (by rw [tOf_kvLine _ _ (by ev_facts)]; ev_facts) (by rw [afterColon_kvLine _ _ (by decide), hv]; exact hi),
      afterColon_kvLine _ _ (by decide), hv]
  · rw [readEv_step_int fuel _ rest d ("DoF:", "DoF") (by rw [tOf_kvLine _ _ (by ev_facts)]; ev_facts)
      (by rw [tOf_kvLine _ _ (by ev_facts)]; ev_facts) (by rw [afterColon_kvLine _ _ (by decide), hv]; exact hi),
      afterColon_kvLine _ _ (by decide), hv]
  · rw [readEv_step_int fuel _ rest d ("NumEW:", "NumEW") (by rw [tOf_kvLine _ _ (by ev_facts)]; ev_facts)
      (by rw [tOf_kvLine _ _ (by ev_facts)]; ev_facts) (by rw [afterColon_kvLine _ _ (by decide), hv]; exact hi),
      afterColon_kvLine _ _ (by decide), hv]
  · rw [readEv_step_int fuel _ rest d ("EulerChar:", "EulerChar") (by rw [tOf_kvLine _ _ (by ev_facts)]; ev_facts)
      (by rw [tOf_kvLine _ _ (by ev_facts)]; ev_facts) (by rw [afterColon_kvLine _ _ (by decide), hv]; exact hi),
      afterColon_kvLine _ _ (by decide), hv]

theorem readEv_floatLine (K : String) (hK : K ∈ ["Area", "Volume", "BLength"])
    (hv : Trimmed v) (hf : isFloatTok v = true) :
    readEv (fuel + 1) (kvLine K v :: rest) d = readEv fuel rest { d with floats := d.floats ++ [(K, v)] } := by
  simp only [List.mem_cons, List.not_mem_nil, or_false] at hK
  rcases hK with rfl | rfl | rfl
  · rw [readEv_step_float fuel _ rest d ("Area:", "Area") (by rw [tOf_kvLine _ _ (by ev_facts)]; ev_facts)
      (by rw [tOf_kvLine _ _ (by ev_facts)]; ev_facts) (by rw [tOf_kvLine _ _ (by ev_facts)]; ev_facts)
      (by rw [tOf_kvLine _ _ (by ev_facts)]; ev_facts)
      (by rw [afterColon_kvLine _ _ (by decide), hv]; exact hf), afterColon_kvLine _ _ (by decide), hv]
  · rw [readEv_step_float fuel _ rest d ("Volume:", "Volume") (by rw [tOf_kvLine _ _ (by ev_facts)]; ev_facts)
      (by rw [tOf_kvLine _ _ (by ev_facts)]; ev_facts) (by rw [tOf_kvLine _ _ (by ev_facts)]; ev_facts)
      (by rw [tOf_kvLine _ _ (by ev_facts)]; ev_facts)
      (by rw [afterColon_kvLine _ _ (by decide), hv]; exact hf), afterColon_kvLine _ _ (by decide), hv]
  · rw [readEv_step_float fuel _ rest d ("BLength:", "BLength") (by rw [tOf_kvLine _ _ (by ev_facts)]; ev_facts)
      (by rw [tOf_kvLine _ _ (by ev_facts)]; ev_facts) (by rw [tOf_kvLine _ _ (by ev_facts)]; ev_facts)
      (by rw [tOf_kvLine _ _ (by ev_facts)]; ev_facts)
      (by rw [afterColon_kvLine _ _ (by decide), hv]; exact hf), afterColon_kvLine _ _ (by decide), hv]

theorem readEv_tPre (hv : Trimmed v) (hi : isIntTok v = true) :
    readEv (fuel + 1) (tLine "Time(Pre)" v :: rest) d = readEv fuel rest { d with ints := d.ints ++ [("TimePre", v)] } := by
  rw [readEv_step_pre fuel _ rest d (by rw [tOf_tLine _ _ (by ev_facts)]; ev_facts)
    (by rw [tOf_tLine _ _ (by ev_facts)]; ev_facts) (by rw [tOf_tLine _ _ (by ev_facts)]; ev_facts)
    (by rw [afterColon_tLine _ _ (by decide), hv]; exact hi), afterColon_tLine _ _ (by decide), hv]

theorem readEv_tAB (hv : Trimmed v) (hi : isIntTok v = true) :
    readEv (fuel + 1) (tLine "Time(calcAB)" v :: rest) d =
      readEv fuel rest { d with ints := d.ints ++ [("TimeCalcAB", v)] } := by
  rw [readEv_step_int fuel _ rest d ("Time(calcAB)", "TimeCalcAB") (by rw [tOf_tLine _ _ (by ev_facts)]; ev_facts)
    (by rw [tOf_tLine _ _ (by ev_facts)]; ev_facts) (by rw [afterColon_tLine _ _ (by decide), hv]; exact hi),
    afterColon_tLine _ _ (by decide), hv]

theorem readEv_tEW (hv : Trimmed v) (hi : isIntTok v = true) :
    readEv (fuel + 1) (tLine "Time(calcEW)" v :: rest) d =
      readEv fuel rest { d with ints := d.ints ++ [("TimeCalcEW", v)] } := by
  rw [readEv_step_int fuel _ rest d ("Time(calcEW)", "TimeCalcEW") (by rw [tOf_tLine _ _ (by ev_facts)]; ev_facts)
    (by rw [tOf_tLine _ _ (by ev_facts)]; ev_facts) (by rw [afterColon_tLine _ _ (by decide), hv]; exact hi),
    afterColon_tLine _ _ (by decide), hv]

theorem tOf_empty : tOf "" = "" := by
  unfold tOf; rw [trimAsciiStart_eq]; decide

theorem readEv_blank : readEv (fuel + 1) ("" :: rest) d = readEv fuel rest d := by
  apply readEv_step_skip <;> (rw [tOf_empty]; ev_facts)

/-- the `Time(total )` line is not a key of the reader -/
theorem readEv_total : readEv (fuel + 1) (tLine "Time(total )" v :: rest) d = readEv fuel rest d := by
  apply readEv_step_skip <;> (rw [tOf_tLine _ _ (by ev_facts)]; ev_facts)
end lines

/-! ### the `{ … }` blocks -/

theorem tOf_id (s : String) (h : s.toList.head?.any Char.isWhitespace = false) : tOf s = s := by
  unfold tOf
  rw [trimAsciiStart_eq]
  have := dropWhile_of_split Char.isWhitespace [] s.toList (by simp) h
  simp only [List.nil_append] at this
  simp only [trimStartL]
  rw [this, String.ofList_toList]

theorem braceBlock_skip (l : String) (r : List String) (h : l.contains '{' = false) :
    braceBlock (l :: r) = braceBlock r := by
  rw [braceBlock]; simp [h]

theorem braceBlock_start (l : String) (r : List String) (h : l.contains '{' = true) :
    braceBlock (l :: r) = braceBlock.collect "" (l :: r) := by
  rw [braceBlock]; simp [h]

/-- concatenation of a list of strings -/
def concatS : List String → String
  | [] => ""
  | a :: l => a ++ concatS l

/-- collecting up to the first line that contains `}` -/
theorem collect_block (pre : List String) (last : String) (rest : List String) (acc : String)
    (hpre : ∀ x ∈ pre, x.contains '}' = false) (hlast : last.contains '}' = true) :
    braceBlock.collect acc (pre ++ last :: rest) =
      some (acc ++ concatS (pre.map (·.trimAscii.toString)) ++ last.trimAscii.toString, rest) := by
  induction pre generalizing acc with
  | nil => simp [braceBlock.collect, hlast, concatS]
  | cons x pre ih =>
    rw [List.cons_append, braceBlock.collect]
    simp only [hpre x List.mem_cons_self, Bool.false_eq_true, if_false]
    rw [ih _ fun y hy => hpre y (List.mem_cons_of_mem _ hy)]
    simp only [List.map_cons, concatS, String.append_assoc]

theorem isFloatTok_empty : isFloatTok "" = false := by rw [isFloatTok_eq]; decide

theorem VfTok.ne_empty {s : String} (h : VfTok s) : s ≠ "" := by
  rintro rfl
  have := h.1
  rw [isFloatTok_empty] at this
  exact absurd this (by decide)

theorem VfTok.goodTok {s : String} (h : VfTok s) : GoodTok s := ⟨h.ne_empty, fun c hc => (h.2 c hc).1⟩

theorem VfTok.not_mem {s : String} (h : VfTok s) (c : Char) (hc : c ∈ s.toList) :
    c ≠ ',' ∧ c ≠ ';' ∧ c ≠ '(' ∧ c ≠ ')' ∧ c ≠ '{' ∧ c ≠ '}' := by
  have := (h.2 c hc).2
  simpa only [List.contains_eq_mem, List.mem_cons, List.not_mem_nil, or_false, decide_eq_false_iff_not, not_or]
    using this

/-- `" e ".strip() == e` -/
theorem trim_pad (e : String) (h : GoodTok e) : (" " ++ e ++ " ").trimAscii.toString = e := by
  rw [trimAscii_eq]
  apply String.toList_injective
  rw [String.toList_ofList, String.toList_append, String.toList_append]
  have hne : e.toList ≠ [] := fun h' => h.1 (String.toList_eq_nil_iff.mp h')
  have hws : ∀ c ∈ e.toList, Char.isWhitespace c = false := fun c hc => by rw [← isWs_eq]; exact h.2 c hc
  generalize e.toList = l at hne hws
  have h1 : (" " : String).toList = [' '] := by decide
  rw [h1]
  obtain ⟨x, r, rfl⟩ := List.exists_cons_of_ne_nil hne
  have e1 : trimStartL ([' '] ++ (x :: r) ++ [' ']) = (x :: r) ++ [' '] := by
    have := dropWhile_of_split Char.isWhitespace [' '] ((x :: r) ++ [' ']) (by decide)
      (by simp [hws x List.mem_cons_self])
    simpa [trimStartL] using this
  unfold trimL
  rw [e1]
  unfold trimEndL
  rw [List.reverse_append]
  have := dropWhile_of_split Char.isWhitespace [' '] (x :: r).reverse (by decide) (by
    rw [List.head?_reverse]
    cases hl : (x :: r).getLast? with
    | none => rfl
    | some y => simp only [Option.any_some]; exact hws y (List.mem_of_getLast? hl))
  simp only [List.reverse_cons, List.reverse_nil, List.nil_append] at this ⊢
  rw [this]
  simp

/-- splitting the brace-stripped eigenvalue line at `;` -/
theorem splitBy_evals (evals : List String) (hne : evals ≠ []) (h : ∀ e ∈ evals, ∀ c ∈ e.toList, c ≠ ';') :
    splitBy (fun x => x == ';') (" " ++ " ; ".intercalate evals ++ " ") = evals.map fun e => " " ++ e ++ " " := by
  induction evals with
  | nil => exact absurd rfl hne
  | cons a evals ih =>
    have hnone : ∀ x ∈ (" " ++ a ++ " ").toList, (x == ';') = false := by
      intro x hx
      simp only [String.toList_append, List.mem_append] at hx
      rcases hx with (hx | hx) | hx
      · have : x = ' ' := by simpa using hx
        subst this; decide
      · simpa using h a List.mem_cons_self x hx
      · have : x = ' ' := by simpa using hx
        subst this; decide
    cases evals with
    | nil =>
      rw [intercalate_singleton, splitBy_none _ _ hnone]
      rfl
    | cons b evals =>
      have e : " " ++ " ; ".intercalate (a :: b :: evals) ++ " " =
          (" " ++ a ++ " ") ++ String.singleton ';' ++ (" " ++ " ; ".intercalate (b :: evals) ++ " ") := by
        rw [intercalate_cons_cons, show (" ; " : String) = " " ++ String.singleton ';' ++ " " by decide]
        simp only [String.append_assoc]
      rw [e, splitBy_append _ _ _ ';' (by decide), splitBy_none _ _ hnone,
        ih (by simp) fun e he => h e (List.mem_cons_of_mem _ he)]
      rfl

theorem readEv_step_evals (fuel : Nat) (l : String) (rest : List String) (d : EvData)
    (h1 : strKeys.find? (fun p => (tOf l).startsWith p.1) = none)
    (h2 : intKeys.find? (fun p => (tOf l).startsWith p.1) = none)
    (h3 : (tOf l).toLower.startsWith "time(pre)" = false)
    (h4 : floatKeys.find? (fun p => (tOf l).startsWith p.1) = none)
    (h5 : (tOf l).startsWith "Eigenvalues" = true)
    (txt : String) (rest' : List String) (hb : braceBlock rest = some (txt, rest')) (vals : List String)
    (hvals : ((stripChars txt ['{', '}']).splitOn ";").map (·.trimAscii.toString) = vals)
    (hall : vals.all isFloatTok = true) :
    readEv (fuel + 1) (l :: rest) d = readEv fuel rest' { d with evals := vals } := by
  unfold strKeys tOf at h1
  unfold tOf at h2 h3 h5
  unfold floatKeys tOf at h4
  rw [readEv]
  simp only [h1, h2, h3, h4, h5, hb, hvals, hall, Bool.false_eq_true, if_false, if_true]

/-- the eigenvalue block `Eigenvalues:` / `{ e1 ; e2 ; … }` -/
theorem readEv_evals (fuel : Nat) (evals : List String) (hne : evals ≠ []) (h : ∀ e ∈ evals, VfTok e)
    (rest : List String) (d : EvData) :
    readEv (fuel + 1) ("Eigenvalues:" :: ("{ " ++ " ; ".intercalate evals ++ " }") :: rest) d =
      readEv fuel rest { d with evals := evals } := by
  have ht : tOf "Eigenvalues:" = "Eigenvalues:" := tOf_id _ (by decide)
  have hJ : ∀ c ∈ (" " ++ " ; ".intercalate evals ++ " ").toList, ['{', '}'].contains c = false := by
    intro c hc
    simp only [String.toList_append, List.mem_append] at hc
    rcases hc with (hc | hc) | hc
    · have : c = ' ' := by simpa using hc
      subst this; decide
    · rcases mem_intercalate _ _ _ hc with hc | ⟨v, hv, hc⟩
      · have : c = ' ' ∨ c = ';' ∨ c = ' ' := by simpa using hc
        rcases this with rfl | rfl | rfl <;> decide
      · have := (h v hv).not_mem c hc
        simp [this.2.2.2.2.1, this.2.2.2.2.2]
    · have : c = ' ' := by simpa using hc
      subst this; decide
  have hline : "{ " ++ " ; ".intercalate evals ++ " }" = "{" ++ (" " ++ " ; ".intercalate evals ++ " ") ++ "}" := by
    rw [show ("{ " : String) = "{" ++ " " by decide, show (" }" : String) = " " ++ "}" by decide]
    simp only [String.append_assoc]
  have htrim : ("{ " ++ " ; ".intercalate evals ++ " }").trimAscii.toString = "{ " ++ " ; ".intercalate evals ++ " }" := by
    apply trimAscii_id
    · simp [String.toList_append]
    · rw [String.toList_append, List.getLast?_append]; simp
  have hstrip : stripChars ("{ " ++ " ; ".intercalate evals ++ " }") ['{', '}'] = " " ++ " ; ".intercalate evals ++ " " := by
    rw [hline, stripChars_append, stripChars_append, stripChars_clean _ _ hJ,
      show stripChars "{" ['{', '}'] = "" by decide, show stripChars "}" ['{', '}'] = "" by decide]
    simp
  apply readEv_step_evals fuel _ _ d (by rw [ht]; ev_facts) (by rw [ht]; ev_facts) (by rw [ht]; ev_facts)
    (by rw [ht]; ev_facts) (by rw [ht]; ev_facts) ("{ " ++ " ; ".intercalate evals ++ " }") rest
  · rw [braceBlock_start _ _ (by simp [String.toList_append])]
    have := collect_block [] ("{ " ++ " ; ".intercalate evals ++ " }") rest ""
      (by simp) (by rw [String.contains_char_eq]; simp [String.toList_append])
    simp only [List.nil_append, List.map_nil, concatS, htrim] at this
    rw [this]; simp
  · rw [hstrip, show (";" : String) = String.ofList [';'] by decide, splitOn_char_eq_splitBy,
      splitBy_evals evals hne fun e he c hc => ((h e he).not_mem c hc).2.1, List.map_map]
    conv => rhs; rw [← List.map_id evals]
    apply List.map_congr_left
    intro e he
    exact trim_pad e (h e he).goodTok
  · exact List.all_eq_true.mpr fun e he => (h e he).1

/-! ### the eigenvector block -/

theorem readEv_step_evecs (fuel : Nat) (l : String) (rest : List String) (d : EvData)
    (h1 : strKeys.find? (fun p => (tOf l).startsWith p.1) = none)
    (h2 : intKeys.find? (fun p => (tOf l).startsWith p.1) = none)
    (h3 : (tOf l).toLower.startsWith "time(pre)" = false)
    (h4 : floatKeys.find? (fun p => (tOf l).startsWith p.1) = none)
    (h5 : (tOf l).startsWith "Eigenvalues" = false) (h6 : (tOf l).startsWith "Eigenvectors" = true)
    (sl : String) (rest1 : List String)
    (hdw : rest.dropWhile (fun x => !x.trimAscii.toString.startsWith "sizes") = sl :: rest1)
    (a b : String) (hw : (words sl).drop 1 = [a, b]) (hab : (isNatTok a && isNatTok b) = true)
    (txt : String) (rest' : List String) (hb : braceBlock rest1 = some (txt, rest'))
    (toks : List String)
    (htoks : words (String.ofList ((stripChars txt ['{', '}', '(', ')']).toList.map
      fun c => if c == ';' || c == ',' then ' ' else c)) = toks)
    (hall : toks.all isFloatTok = true) (hlen : toks.length = a.toNat! * b.toNat!) :
    readEv (fuel + 1) (l :: rest) d =
      readEv fuel rest' { d with evecs := some (a.toNat!, b.toNat!, chunk a.toNat! b.toNat! toks) } := by
  unfold strKeys tOf at h1
  unfold tOf at h2 h3 h5 h6
  unfold floatKeys tOf at h4
  have hlen' : (toks.length == a.toNat! * b.toNat!) = true := by simpa using hlen
  rw [readEv]
  simp only [h1, h2, h3, h4, h5, h6, hdw, hw, hab, hb, htoks, hall, hlen', Bool.false_eq_true, if_false, if_true,
    Bool.not_true]

/-- the cleaning the reader applies to the block text -/
def cleanS (s : String) : String :=
  String.ofList ((stripChars s ['{', '}', '(', ')']).toList.map fun c => if c == ';' || c == ',' then ' ' else c)

theorem cleanS_append (a b : String) : cleanS (a ++ b) = cleanS a ++ cleanS b := by
  apply String.toList_injective
  simp [cleanS, stripChars_append, String.toList_append]

/-- one column as written -/
def bodyOf (c : List String) : String := "(" ++ ",".intercalate c ++ ")"

theorem cleanS_intercalate (c : List String) (h : ∀ t ∈ c, VfTok t) : cleanS (",".intercalate c) = " ".intercalate c := by
  induction c with
  | nil => decide
  | cons a c ih =>
    have ha : cleanS a = a := by
      have hst : stripChars a ['{', '}', '(', ')'] = a := by
        apply stripChars_clean
        intro x hx
        have := (h a List.mem_cons_self).not_mem x hx
        simp [this.2.2.1, this.2.2.2.1, this.2.2.2.2.1, this.2.2.2.2.2]
      unfold cleanS
      rw [hst]
      apply String.toList_injective
      rw [String.toList_ofList]
      conv => rhs; rw [← List.map_id a.toList]
      apply List.map_congr_left
      intro x hx
      have := (h a List.mem_cons_self).not_mem x hx
      simp [this.1, this.2.1]
    cases c with
    | nil => rw [intercalate_singleton, intercalate_singleton, ha]
    | cons b c =>
      rw [intercalate_cons_cons, intercalate_cons_cons, cleanS_append, cleanS_append, ha,
        ih fun t ht => h t (List.mem_cons_of_mem _ ht), show cleanS "," = " " by decide]

theorem cleanS_bodyOf (c : List String) (h : ∀ t ∈ c, VfTok t) : cleanS (bodyOf c) = " ".intercalate c := by
  unfold bodyOf
  rw [cleanS_append, cleanS_append, cleanS_intercalate c h, show cleanS "(" = "" by decide,
    show cleanS ")" = "" by decide]
  simp

/-- the lines of the eigenvector block for the columns `init ++ [lc]` (as `write_ev` lays them out: `{ ` before the
    first column, ` ;` after every column but the last, ` }` after the last; a single column gives one line) -/
def evecBlock (init : List (List String)) (lc : List String) : List String :=
  match init with
  | [] => ["{ " ++ bodyOf lc ++ " }"]
  | c0 :: init' => ("{ " ++ bodyOf c0 ++ " ;") :: ((init'.map fun c => bodyOf c ++ " ;") ++ [bodyOf lc ++ " }"])

theorem concatS_append (a b : List String) : concatS (a ++ b) = concatS a ++ concatS b := by
  induction a with
  | nil => simp [concatS]
  | cons x a ih => simp [concatS, ih, String.append_assoc]

theorem cleanS_concatS (ls : List String) : cleanS (concatS ls) = concatS (ls.map cleanS) := by
  induction ls with
  | nil => decide
  | cons x ls ih => simp only [concatS, List.map_cons, cleanS_append, ih]

theorem words_space_left (z : String) : words (" " ++ z) = words z := by
  have := words_append_space "" z
  rw [words_empty, List.nil_append] at this
  rw [← this]; congr 1

theorem words_col (c : List String) (h : ∀ t ∈ c, VfTok t) (z : String) :
    words (" ".intercalate c ++ " " ++ z) = c ++ words z := by
  rw [words_append_space, words_intercalate c fun t ht => (h t ht).goodTok]

theorem words_col' (c : List String) (h : ∀ t ∈ c, VfTok t) : words (" ".intercalate c ++ " ") = c := by
  have := words_col c h ""
  rw [words_empty, List.append_nil, String.append_empty] at this
  exact this

theorem words_tailCols (init : List (List String)) (lc : List String) (h : ∀ c ∈ init ++ [lc], ∀ t ∈ c, VfTok t) :
    words (concatS ((init.map fun c => " ".intercalate c ++ "  ") ++ [" ".intercalate lc ++ " "])) =
      init.flatten ++ lc := by
  induction init with
  | nil =>
    have e : concatS (([] : List (List String)).map (fun c => " ".intercalate c ++ "  ") ++ [" ".intercalate lc ++ " "])
        = " ".intercalate lc ++ " " := by simp [concatS]
    rw [e, words_col' lc (h lc (by simp))]
    rfl
  | cons c init ih =>
    have e : concatS (((c :: init).map fun c => " ".intercalate c ++ "  ") ++ [" ".intercalate lc ++ " "])
        = " ".intercalate c ++ " " ++ (" " ++ concatS ((init.map fun c => " ".intercalate c ++ "  ") ++
            [" ".intercalate lc ++ " "])) := by
      simp only [List.map_cons, List.cons_append, concatS]
      rw [show ("  " : String) = " " ++ " " by decide]
      simp only [String.append_assoc]
    rw [e, words_col c (h c (by simp)), words_space_left,
      ih fun c' hc' => h c' (by
        rw [List.mem_append] at hc' ⊢
        rcases hc' with hc' | hc'
        · exact Or.inl (List.mem_cons_of_mem _ hc')
        · exact Or.inr hc')]
    simp

/-- the cleaned block text splits into the entries, column by column -/
theorem words_cleanS_evecBlock (init : List (List String)) (lc : List String)
    (h : ∀ c ∈ init ++ [lc], ∀ t ∈ c, VfTok t) :
    words (cleanS (concatS (evecBlock init lc))) = (init ++ [lc]).flatten := by
  rw [cleanS_concatS]
  cases init with
  | nil =>
    have e : concatS ((evecBlock [] lc).map cleanS) = " " ++ (" ".intercalate lc ++ " ") := by
      simp only [evecBlock, List.map_cons, List.map_nil, concatS, String.append_empty]
      rw [cleanS_append, cleanS_append, cleanS_bodyOf lc (h lc (by simp)), show cleanS "{ " = " " by decide,
        show cleanS " }" = " " by decide]
      simp only [String.append_assoc]
    rw [e, words_space_left, words_col' lc (h lc (by simp))]
    simp
  | cons c0 init =>
    have hc0 := h c0 (by simp)
    have hlc := h lc (by simp)
    have hin : ∀ c ∈ init, ∀ t ∈ c, VfTok t := fun c hc => h c (by simp [hc])
    have hmap : (init.map (cleanS ∘ fun c => bodyOf c ++ " ;")) = init.map fun c => " ".intercalate c ++ "  " := by
      apply List.map_congr_left
      intro c hc
      simp only [Function.comp_apply]
      rw [cleanS_append, cleanS_bodyOf c (hin c hc)]
      rfl
    have hlast : cleanS (bodyOf lc ++ " }") = " ".intercalate lc ++ " " := by
      rw [cleanS_append, cleanS_bodyOf lc hlc]; rfl
    have e : concatS ((evecBlock (c0 :: init) lc).map cleanS) =
        " " ++ (" ".intercalate c0 ++ " " ++ (" " ++
          concatS ((init.map fun c => " ".intercalate c ++ "  ") ++ [" ".intercalate lc ++ " "]))) := by
      simp only [evecBlock, List.map_cons, List.map_append, List.map_map, List.map_nil, concatS, hmap, hlast]
      rw [cleanS_append, cleanS_append, cleanS_bodyOf c0 hc0, show cleanS "{ " = " " by decide,
        show cleanS " ;" = " " ++ " " by decide]
      simp only [String.append_assoc]
    rw [e, words_space_left, words_col c0 hc0, words_space_left,
      words_tailCols init lc fun c hc => h c (by
        rw [List.mem_append] at hc ⊢
        rcases hc with hc | hc
        · exact Or.inl (List.mem_cons_of_mem _ hc)
        · exact Or.inr hc)]
    simp

theorem bodyOf_mem (c : List String) (h : ∀ t ∈ c, VfTok t) (x : Char) (hx : x ∈ (bodyOf c).toList) :
    x ≠ '{' ∧ x ≠ '}' := by
  unfold bodyOf at hx
  simp only [String.toList_append, List.mem_append] at hx
  rcases hx with (hx | hx) | hx
  · have : x = '(' := by simpa using hx
    subst this; decide
  · rcases mem_intercalate _ _ _ hx with hx | ⟨v, hv, hx⟩
    · have : x = ',' := by simpa using hx
      subst this; decide
    · have := (h v hv).not_mem x hx
      exact ⟨this.2.2.2.2.1, this.2.2.2.2.2⟩
  · have : x = ')' := by simpa using hx
    subst this; decide

theorem bodyOf_head (c : List String) : (bodyOf c).toList.head? = some '(' := by
  simp [bodyOf, String.toList_append]

theorem contains_close_false (pfx : String) (c : List String) (h : ∀ t ∈ c, VfTok t)
    (hp : pfx = "" ∨ pfx = "{ ") : (pfx ++ bodyOf c ++ " ;").contains '}' = false := by
  rw [String.contains_char_eq, decide_eq_false_iff_not, String.toList_append, String.toList_append,
    List.mem_append, List.mem_append]
  rintro ((hx | hx) | hx)
  · rcases hp with rfl | rfl <;> simp at hx
  · exact (bodyOf_mem c h _ hx).2 rfl
  · simp at hx

theorem trim_line (pfx sfx : String) (c : List String) (hp : pfx = "" ∨ pfx = "{ ") (hs : sfx = " ;" ∨ sfx = " }") :
    (pfx ++ bodyOf c ++ sfx).trimAscii.toString = pfx ++ bodyOf c ++ sfx := by
  apply trimAscii_id
  · rcases hp with rfl | rfl
    · simp [String.toList_append, bodyOf]
    · simp [String.toList_append]
  · rw [String.toList_append, List.getLast?_append]
    rcases hs with rfl | rfl <;> simp

/-- the reader collects exactly the block, whatever follows -/
theorem braceBlock_evecBlock (init : List (List String)) (lc : List String)
    (h : ∀ c ∈ init ++ [lc], ∀ t ∈ c, VfTok t) (rest : List String) :
    braceBlock ("" :: (evecBlock init lc ++ rest)) = some (concatS (evecBlock init lc), rest) := by
  rw [braceBlock_skip "" _ (by rw [String.contains_char_eq]; decide)]
  cases init with
  | nil =>
    have hl : ("{ " ++ bodyOf lc ++ " }").contains '}' = true := by
      rw [String.contains_char_eq]; simp [String.toList_append]
    have hs : ("{ " ++ bodyOf lc ++ " }").contains '{' = true := by
      rw [String.contains_char_eq]; simp [String.toList_append]
    simp only [evecBlock, List.cons_append, List.nil_append]
    rw [braceBlock_start _ _ hs]
    have := collect_block [] _ rest "" (by simp) hl
    simp only [List.nil_append, List.map_nil, concatS] at this
    rw [this, trim_line "{ " " }" lc (Or.inr rfl) (Or.inr rfl)]
    simp [concatS]
  | cons c0 init =>
    have hc0 := h c0 (by simp)
    have hlc := h lc (by simp)
    have hin : ∀ c ∈ init, ∀ t ∈ c, VfTok t := fun c hc => h c (by simp [hc])
    have hs : ("{ " ++ bodyOf c0 ++ " ;").contains '{' = true := by
      rw [String.contains_char_eq]; simp [String.toList_append]
    have hl : (bodyOf lc ++ " }").contains '}' = true := by
      rw [String.contains_char_eq]; simp [String.toList_append]
    simp only [evecBlock, List.cons_append, List.append_assoc, List.singleton_append, List.nil_append]
    rw [braceBlock_start _ _ hs]
    have := collect_block (("{ " ++ bodyOf c0 ++ " ;") :: init.map fun c => bodyOf c ++ " ;") (bodyOf lc ++ " }") rest ""
      (by
        intro x hx
        rcases List.mem_cons.mp hx with rfl | hx
        · exact contains_close_false "{ " c0 hc0 (Or.inr rfl)
        · obtain ⟨c, hc, rfl⟩ := List.mem_map.mp hx
          have := contains_close_false "" c (hin c hc) (Or.inl rfl)
          simpa using this) hl
    simp only [List.cons_append] at this
    rw [this]
    have ht0 := trim_line "{ " " ;" c0 (Or.inr rfl) (Or.inl rfl)
    have htl : (bodyOf lc ++ " }").trimAscii.toString = bodyOf lc ++ " }" := by
      have := trim_line "" " }" lc (Or.inl rfl) (Or.inr rfl)
      simpa using this
    have htm : (init.map fun c => bodyOf c ++ " ;").map (·.trimAscii.toString) = init.map fun c => bodyOf c ++ " ;" := by
      rw [List.map_map]
      apply List.map_congr_left
      intro c _
      have := trim_line "" " ;" c (Or.inl rfl) (Or.inl rfl)
      simpa using this
    simp only [List.map_cons, ht0, htl, htm]
    simp only [concatS, concatS_append, String.empty_append, String.append_empty, String.append_assoc]

/-- the eigenvector block `Eigenvectors:` / `sizes: n k` / blank / `{ (..) ; … (..) }`, every shape `(n,k)` with `k ≥ 1`
    (one column: a single line `{ (…) }`) -/
theorem readEv_evecs (fuel n k : Nat) (init : List (List String)) (lc : List String)
    (h : ∀ c ∈ init ++ [lc], ∀ t ∈ c, VfTok t) (hk : (init ++ [lc]).length = k)
    (hn : ∀ c ∈ init ++ [lc], c.length = n) (rest : List String) (d : EvData) :
    readEv (fuel + 1) ("Eigenvectors:" :: ("sizes: " ++ toString n ++ " " ++ toString k) :: "" ::
        (evecBlock init lc ++ rest)) d =
      readEv fuel rest { d with evecs := some (n, k, init ++ [lc]) } := by
  have ht : tOf "Eigenvectors:" = "Eigenvectors:" := tOf_id _ (by decide)
  have hsl : ("sizes: " ++ toString n ++ " " ++ toString k).trimAscii.toString =
      "sizes: " ++ toString n ++ " " ++ toString k := by
    apply trimAscii_id
    · simp [String.toList_append]
    · rw [String.toList_append, List.getLast?_append]
      have hne : (toString k).toList ≠ [] := fun e => (allDigits_toString k).1 (String.toList_eq_nil_iff.mp e)
      cases hl : (toString k).toList.getLast? with
      | none => exact absurd (List.getLast?_eq_none_iff.mp hl) hne
      | some y =>
        show (Option.any Char.isWhitespace ((some y).or _)) = false
        rw [Option.some_or, Option.any_some, ← isWs_eq]
        exact isWs_of_isDigit y ((allDigits_toString k).2 y (List.mem_of_getLast? hl))
  have hw : (words ("sizes: " ++ toString n ++ " " ++ toString k)).drop 1 = [toString n, toString k] := by
    have e : "sizes: " ++ toString n ++ " " ++ toString k = ("sizes:" ++ " " ++ toString n) ++ " " ++ toString k := by
      rw [show ("sizes: " : String) = "sizes:" ++ " " by decide]
    rw [e, words_append_space, words_append_space, words_tok "sizes:" (by decide), words_toString, words_toString]
    rfl
  have htoks := words_cleanS_evecBlock init lc h
  have hlen : (init ++ [lc]).flatten.length = n * k := by
    rw [length_flatten_const _ n hn, hk]
  have hchunk : chunk n k (init ++ [lc]).flatten = init ++ [lc] := by
    rw [← hk]; exact chunk_flatten n _ hn
  have := readEv_step_evecs fuel "Eigenvectors:" (("sizes: " ++ toString n ++ " " ++ toString k) :: "" ::
      (evecBlock init lc ++ rest)) d (by rw [ht]; ev_facts) (by rw [ht]; ev_facts) (by rw [ht]; ev_facts)
    (by rw [ht]; ev_facts) (by rw [ht]; ev_facts) (by rw [ht]; ev_facts)
    ("sizes: " ++ toString n ++ " " ++ toString k) ("" :: (evecBlock init lc ++ rest))
    (by
      rw [List.dropWhile_cons_of_neg]
      rw [hsl]
      simp [startsWith_eq_decide, String.toList_append])
    (toString n) (toString k) hw (by rw [isNatTok_toString, isNatTok_toString]; rfl)
    (concatS (evecBlock init lc)) rest (braceBlock_evecBlock init lc h rest)
    ((init ++ [lc]).flatten) htoks
    (by
      rw [List.all_eq_true]
      intro t ht
      obtain ⟨c, hc, ht⟩ := List.mem_flatten.mp ht
      exact (h c hc t ht).1)
    (by rw [toNat!_toString, toNat!_toString]; exact hlen)
  rw [this, toNat!_toString, toNat!_toString, hchunk]

/-- an optional `" label: value"` line -/
def optLine (l : List (String × String)) (key label : String) : List String :=
  match lookupS l key with
  | some v => [kvLine label v]
  | none => []

/-- an optional `" label : value"` line -/
def optTLine (l : List (String × String)) (key label : String) : List String :=
  match lookupS l key with
  | some v => [tLine label v]
  | none => []

/-- the `Time(total )` line (written when all three timings are present) -/
def totalPart (d : EvData) : List String :=
  match lookupS d.ints "TimePre", lookupS d.ints "TimeCalcAB", lookupS d.ints "TimeCalcEW" with
  | some a, some b, some c => [s!" Time(total ) : {a.toInt! + b.toInt! + c.toInt!}"]
  | _, _, _ => []

/-- the eigenvector part as `write_ev` lays it out -/
def evecPart (ev : Option (Nat × Nat × List (List String))) : List String :=
  match ev with
  | none => []
  | some (n, k, cols) =>
    let body := cols.map fun c => "(" ++ ",".intercalate c ++ ")"
    let lines := match body.reverse with
      | [] => []
      | last :: revInit => (revInit.reverse.map (· ++ " ;")) ++ [last ++ " }"]
    ["Eigenvectors:", s!"sizes: {n} {k}", ""] ++
      (match lines with
       | [] => ["{ "]
       | l0 :: ls => ("{ " ++ l0) :: ls)

theorem writeEv_eq (d : EvData) :
    writeEv d =
      optLine d.strs "Creator" "Creator" ++ optLine d.strs "File" "File" ++ optLine d.strs "User" "User" ++
      optLine d.ints "Refine" "Refine" ++ optLine d.ints "Degree" "Degree" ++ optLine d.ints "Dimension" "Dimension" ++
      optLine d.ints "Elements" "Elements" ++ optLine d.ints "DoF" "DoF" ++ optLine d.ints "NumEW" "NumEW" ++ [""] ++
      optLine d.floats "Area" "Area" ++ optLine d.floats "Volume" "Volume" ++ optLine d.floats "BLength" "BLength" ++
      optLine d.ints "EulerChar" "EulerChar" ++ [""] ++
      optTLine d.ints "TimePre" "Time(Pre)" ++ optTLine d.ints "TimeCalcAB" "Time(calcAB)" ++
      optTLine d.ints "TimeCalcEW" "Time(calcEW)" ++ totalPart d ++ [""] ++
      ["Eigenvalues:", "{ " ++ " ; ".intercalate d.evals ++ " }", ""] ++ evecPart d.evecs := rfl

/-- `blk` is consumed (with at most `blk.length` units of fuel) and turns the reader state `d` into `d'`, whatever
    follows -/
def Reads (blk : List String) (d d' : EvData) : Prop :=
  ∃ c, c ≤ blk.length ∧ ∀ f rest, readEv (f + c) (blk ++ rest) d = readEv f rest d'

theorem Reads.nil (d : EvData) : Reads [] d d := ⟨0, Nat.le_refl _, fun _ _ => rfl⟩

theorem Reads.append {a b : List String} {d d₁ d₂ : EvData} (h₁ : Reads a d d₁) (h₂ : Reads b d₁ d₂) :
    Reads (a ++ b) d d₂ := by
  obtain ⟨c₁, hc₁, h₁⟩ := h₁
  obtain ⟨c₂, hc₂, h₂⟩ := h₂
  refine ⟨c₁ + c₂, by rw [List.length_append]; omega, fun f rest => ?_⟩
  rw [show f + (c₁ + c₂) = (f + c₂) + c₁ by omega, List.append_assoc, h₁, h₂]

theorem Reads.one {l : String} {d d' : EvData} (h : ∀ f rest, readEv (f + 1) (l :: rest) d = readEv f rest d') :
    Reads [l] d d' := ⟨1, Nat.le_refl _, fun f rest => h f rest⟩

theorem Reads.run {blk : List String} {d d' : EvData} (h : Reads blk d d') (fuel : Nat) (hf : blk.length ≤ fuel) :
    readEv fuel blk d = some d' := by
  obtain ⟨c, hc, h⟩ := h
  have := h (fuel - c) []
  rw [List.append_nil, show fuel - c + c = fuel by omega] at this
  rw [this]
  cases fuel - c <;> rfl

/-- the entry the reader records for `key` -/
def optE (l : List (String × String)) (key : String) : List (String × String) :=
  match lookupS l key with
  | some v => [(key, v)]
  | none => []

theorem lookupS_mem {l : List (String × String)} {k v : String} (h : lookupS l k = some v) : ∃ k', (k', v) ∈ l := by
  unfold lookupS at h
  cases hf : l.find? (fun x => x.1 == k) with
  | none => rw [hf] at h; simp at h
  | some p =>
    rw [hf] at h
    simp only [Option.map_some, Option.some.injEq] at h
    exact ⟨p.1, h ▸ List.mem_of_find?_eq_some hf⟩

theorem optLine_none {l : List (String × String)} {k : String} (h : lookupS l k = none) (label : String) :
    optLine l k label = [] := by unfold optLine; rw [h]
theorem optLine_some {l : List (String × String)} {k v : String} (h : lookupS l k = some v) (label : String) :
    optLine l k label = [kvLine label v] := by unfold optLine; rw [h]
theorem optTLine_none {l : List (String × String)} {k : String} (h : lookupS l k = none) (label : String) :
    optTLine l k label = [] := by unfold optTLine; rw [h]
theorem optTLine_some {l : List (String × String)} {k v : String} (h : lookupS l k = some v) (label : String) :
    optTLine l k label = [tLine label v] := by unfold optTLine; rw [h]
theorem optE_none {l : List (String × String)} {k : String} (h : lookupS l k = none) : optE l k = [] := by
  unfold optE; rw [h]
theorem optE_some {l : List (String × String)} {k v : String} (h : lookupS l k = some v) : optE l k = [(k, v)] := by
  unfold optE; rw [h]

section opt
variable (src : List (String × String))

theorem reads_optStr (K : String) (hK : K ∈ ["Creator", "File", "User"]) (hv : ∀ p ∈ src, Trimmed p.2) (d : EvData) :
    Reads (optLine src K K) d { d with strs := d.strs ++ optE src K } := by
  cases hl : lookupS src K with
  | none =>
    rw [optLine_none hl, optE_none hl, List.append_nil]
    exact Reads.nil d
  | some v =>
    obtain ⟨k', hm⟩ := lookupS_mem hl
    rw [optLine_some hl, optE_some hl]
    have h1 : Trimmed v := hv (k', v) hm
    have := fun f rest => readEv_strLine f v rest d K hK h1
    exact Reads.one this

theorem reads_optInt (K : String) (hK : K ∈ ["Refine", "Degree", "Dimension", "Elements", "DoF", "NumEW", "EulerChar"])
    (hv : ∀ p ∈ src, Trimmed p.2 ∧ isIntTok p.2 = true) (d : EvData) :
    Reads (optLine src K K) d { d with ints := d.ints ++ optE src K } := by
  cases hl : lookupS src K with
  | none =>
    rw [optLine_none hl, optE_none hl, List.append_nil]
    exact Reads.nil d
  | some v =>
    obtain ⟨k', hm⟩ := lookupS_mem hl
    rw [optLine_some hl, optE_some hl]
    have h1 : Trimmed v := (hv (k', v) hm).1
    have h2 : isIntTok v = true := (hv (k', v) hm).2
    have := fun f rest => readEv_intLine f v rest d K hK h1 h2
    exact Reads.one this

theorem reads_optFloat (K : String) (hK : K ∈ ["Area", "Volume", "BLength"])
    (hv : ∀ p ∈ src, Trimmed p.2 ∧ isFloatTok p.2 = true) (d : EvData) :
    Reads (optLine src K K) d { d with floats := d.floats ++ optE src K } := by
  cases hl : lookupS src K with
  | none =>
    rw [optLine_none hl, optE_none hl, List.append_nil]
    exact Reads.nil d
  | some v =>
    obtain ⟨k', hm⟩ := lookupS_mem hl
    rw [optLine_some hl, optE_some hl]
    have h1 : Trimmed v := (hv (k', v) hm).1
    have h2 : isFloatTok v = true := (hv (k', v) hm).2
    have := fun f rest => readEv_floatLine f v rest d K hK h1 h2
    exact Reads.one this

theorem reads_tPre (hv : ∀ p ∈ src, Trimmed p.2 ∧ isIntTok p.2 = true) (d : EvData) :
    Reads (optTLine src "TimePre" "Time(Pre)") d
      { d with ints := d.ints ++ optE src "TimePre" } := by
  cases hl : lookupS src "TimePre" with
  | none =>
    rw [optTLine_none hl, optE_none hl, List.append_nil]
    exact Reads.nil d
  | some v =>
    obtain ⟨k', hm⟩ := lookupS_mem hl
    rw [optTLine_some hl, optE_some hl]
    have h1 : Trimmed v := (hv (k', v) hm).1
    have h2 : isIntTok v = true := (hv (k', v) hm).2
    have := fun f rest => readEv_tPre f v rest d h1 h2
    exact Reads.one this

theorem reads_tAB (hv : ∀ p ∈ src, Trimmed p.2 ∧ isIntTok p.2 = true) (d : EvData) :
    Reads (optTLine src "TimeCalcAB" "Time(calcAB)") d
      { d with ints := d.ints ++ optE src "TimeCalcAB" } := by
  cases hl : lookupS src "TimeCalcAB" with
  | none =>
    rw [optTLine_none hl, optE_none hl, List.append_nil]
    exact Reads.nil d
  | some v =>
    obtain ⟨k', hm⟩ := lookupS_mem hl
    rw [optTLine_some hl, optE_some hl]
    have h1 : Trimmed v := (hv (k', v) hm).1
    have h2 : isIntTok v = true := (hv (k', v) hm).2
    have := fun f rest => readEv_tAB f v rest d h1 h2
    exact Reads.one this

theorem reads_tEW (hv : ∀ p ∈ src, Trimmed p.2 ∧ isIntTok p.2 = true) (d : EvData) :
    Reads (optTLine src "TimeCalcEW" "Time(calcEW)") d
      { d with ints := d.ints ++ optE src "TimeCalcEW" } := by
  cases hl : lookupS src "TimeCalcEW" with
  | none =>
    rw [optTLine_none hl, optE_none hl, List.append_nil]
    exact Reads.nil d
  | some v =>
    obtain ⟨k', hm⟩ := lookupS_mem hl
    rw [optTLine_some hl, optE_some hl]
    have h1 : Trimmed v := (hv (k', v) hm).1
    have h2 : isIntTok v = true := (hv (k', v) hm).2
    have := fun f rest => readEv_tEW f v rest d h1 h2
    exact Reads.one this
end opt

theorem reads_blank (d : EvData) : Reads [""] d d := Reads.one fun f rest => readEv_blank f rest d

theorem reads_total (src d : EvData) : Reads (totalPart src) d d := by
  unfold totalPart
  split
  · rename_i a b c _ _ _
    have e : s!" Time(total ) : {a.toInt! + b.toInt! + c.toInt!}" =
        tLine "Time(total )" (toString (a.toInt! + b.toInt! + c.toInt!)) := by
      show " Time(total ) : " ++ _ = " " ++ "Time(total )" ++ " : " ++ _
      rw [show (" Time(total ) : " : String) = " " ++ "Time(total )" ++ " : " by decide]
    rw [e]
    exact Reads.one fun f rest => readEv_total f _ rest d
  · exact Reads.nil d

theorem reads_evals (evals : List String) (hne : evals ≠ []) (h : ∀ e ∈ evals, VfTok e) (d : EvData) :
    Reads ["Eigenvalues:", "{ " ++ " ; ".intercalate evals ++ " }"] d { d with evals := evals } :=
  ⟨1, by simp, fun f rest => readEv_evals f evals hne h rest d⟩

theorem evecPart_some (n k : Nat) (init : List (List String)) (lc : List String) :
    evecPart (some (n, k, init ++ [lc])) =
      "Eigenvectors:" :: ("sizes: " ++ toString n ++ " " ++ toString k) :: "" :: evecBlock init lc := by
  unfold evecPart
  simp only [List.map_append, List.map_cons, List.map_nil, List.reverse_append, List.reverse_cons, List.reverse_nil,
    List.nil_append, List.cons_append, List.reverse_reverse, List.map_map]
  cases init with
  | nil => rfl
  | cons c0 init => rfl

theorem reads_evecs (n k : Nat) (init : List (List String)) (lc : List String)
    (h : ∀ c ∈ init ++ [lc], ∀ t ∈ c, VfTok t) (hk : (init ++ [lc]).length = k)
    (hn : ∀ c ∈ init ++ [lc], c.length = n) (d : EvData) :
    Reads (evecPart (some (n, k, init ++ [lc]))) d { d with evecs := some (n, k, init ++ [lc]) } := by
  rw [evecPart_some]
  refine ⟨1, by simp, fun f rest => ?_⟩
  have := readEv_evecs f n k init lc h hk hn rest d
  simpa using this

/-- well-formedness of the data handed to `write_ev`: string values are stripped, integer / float fields are integer /
    float tokens, the eigenvalues are a non-empty list of float tokens, the eigenvectors (if present) are `k ≥ 1` columns
    of `n` float tokens each.  (`VfTok`: a float token without white space and without `, ; ( ) { }`.) -/
def EvGood (src : EvData) : Prop :=
  (∀ p ∈ src.strs, Trimmed p.2) ∧ (∀ p ∈ src.ints, Trimmed p.2 ∧ isIntTok p.2 = true) ∧
  (∀ p ∈ src.floats, Trimmed p.2 ∧ isFloatTok p.2 = true) ∧ src.evals ≠ [] ∧ (∀ e ∈ src.evals, VfTok e) ∧
  (match src.evecs with
   | none => True
   | some (n, k, cols) => cols ≠ [] ∧ cols.length = k ∧ ∀ c ∈ cols, c.length = n ∧ ∀ t ∈ c, VfTok t)

/-- the reader's initial state -/
def evEmpty : EvData := { strs := [], ints := [], floats := [], evals := [], evecs := none }

/-- what is read back: the entries under the keys the format knows, in the writer's order -/
def evCanon (src : EvData) : EvData :=
  { strs := optE src.strs "Creator" ++ optE src.strs "File" ++ optE src.strs "User"
    ints := optE src.ints "Refine" ++ optE src.ints "Degree" ++ optE src.ints "Dimension" ++ optE src.ints "Elements" ++
      optE src.ints "DoF" ++ optE src.ints "NumEW" ++ optE src.ints "EulerChar" ++ optE src.ints "TimePre" ++
      optE src.ints "TimeCalcAB" ++ optE src.ints "TimeCalcEW"
    floats := optE src.floats "Area" ++ optE src.floats "Volume" ++ optE src.floats "BLength"
    evals := src.evals
    evecs := src.evecs }

/-- `evCanon` with the eigenvector field given separately -/
def evCanonWith (src : EvData) (ev : Option (Nat × Nat × List (List String))) : EvData :=
  { evCanon src with evecs := ev }

theorem reads_writeEv (src : EvData) (h : EvGood src) : Reads (writeEv src) evEmpty (evCanon src) := by
  obtain ⟨hs, hi, hfl, hne, hev, hvec⟩ := h
  rw [writeEv_eq]
  -- everything before the eigenvector part
  have main := ((((((((((((((((((((reads_optStr src.strs "Creator" (by decide) hs evEmpty).append
    (reads_optStr src.strs "File" (by decide) hs _)).append
    (reads_optStr src.strs "User" (by decide) hs _)).append
    (reads_optInt src.ints "Refine" (by decide) hi _)).append
    (reads_optInt src.ints "Degree" (by decide) hi _)).append
    (reads_optInt src.ints "Dimension" (by decide) hi _)).append
    (reads_optInt src.ints "Elements" (by decide) hi _)).append
    (reads_optInt src.ints "DoF" (by decide) hi _)).append
    (reads_optInt src.ints "NumEW" (by decide) hi _)).append (reads_blank _)).append
    (reads_optFloat src.floats "Area" (by decide) hfl _)).append
    (reads_optFloat src.floats "Volume" (by decide) hfl _)).append
    (reads_optFloat src.floats "BLength" (by decide) hfl _)).append
    (reads_optInt src.ints "EulerChar" (by decide) hi _)).append (reads_blank _)).append
    (reads_tPre src.ints hi _)).append (reads_tAB src.ints hi _)).append (reads_tEW src.ints hi _)).append
    (reads_total src _)).append (reads_blank _)).append
    ((reads_evals src.evals hne hev _).append (reads_blank _))
  cases hvc : src.evecs with
  | none =>
    have e : evecPart none = [] := rfl
    rw [e, List.append_nil]
    have hc : evCanon src = evCanonWith src none := by unfold evCanonWith evCanon; rw [hvc]
    rw [hc]
    exact main
  | some x =>
    obtain ⟨n, k, cols⟩ := x
    rw [hvc] at hvec
    obtain ⟨hcne, hk, hcols⟩ := hvec
    obtain ⟨init, lc, rfl⟩ : ∃ init lc, cols = init ++ [lc] :=
      ⟨cols.dropLast, cols.getLast hcne, (List.dropLast_concat_getLast hcne).symm⟩
    have hc : evCanon src = evCanonWith src (some (n, k, init ++ [lc])) := by unfold evCanonWith evCanon; rw [hvc]
    rw [hc]
    have main' : Reads _ evEmpty (evCanonWith src none) := main
    exact main'.append (reads_evecs n k init lc (fun c hc => (hcols c hc).2) hk (fun c hc => (hcols c hc).1) _)

/-- **`read_ev ∘ write_ev`** returns the written data: the same `strs` / `ints` / `floats` entries (the keys of the format,
    in the writer's order), the same eigenvalues and the same eigenvectors — for every shape `(n,k)`, `k ≥ 1`, including a
    single column (`{`, `(`, `)`, `}` all on one line) and `n = 1` -/
theorem ev_roundtrip (src : EvData) (h : EvGood src) (fuel : Nat) (hf : (writeEv src).length ≤ fuel) :
    readEv fuel (writeEv src) evEmpty = some (evCanon src) :=
  (reads_writeEv src h).run fuel hf

/-- if the data uses only the keys of the format, each once and in the writer's order (`evCanon src = src`), it is read
    back unchanged -/
theorem ev_roundtrip_canon (src : EvData) (h : EvGood src) (hc : evCanon src = src) (fuel : Nat)
    (hf : (writeEv src).length ≤ fuel) : readEv fuel (writeEv src) evEmpty = some src := by
  have := ev_roundtrip src h fuel hf
  rwa [hc] at this

/-! ## decidability of the well-formedness predicates (through the character-list mirrors) and concrete instances

`decide` cannot evaluate core's `String.startsWith` / `splitOn` / `toNat!` / `trimAscii` (byte-level, well-founded
recursion), so `readVtk (writeVtk …)` cannot be evaluated *directly* by `decide` / `rfl`; the predicates below are decided
on `List Char` instead (`isFloatTok_eq`, `trimAscii_eq`, …) and the concrete results follow from the theorems. -/

instance (s : String) : Decidable (isFloatTok s = true) :=
  decidable_of_iff (isFloatTokL s.toList = true) (by rw [isFloatTok_eq])

instance (s : String) : Decidable (isIntTok s = true) :=
  decidable_of_iff (natL (stripSignL s.toList) = true) (by
    rw [← isIntTok_ofList, String.ofList_toList])

instance (s : String) : Decidable (Trimmed s) :=
  decidable_of_iff (trimL s.toList = s.toList) (by
    unfold Trimmed
    rw [trimAscii_eq]
    constructor
    · intro h; rw [h, String.ofList_toList]
    · intro h
      have := congrArg String.toList h
      rwa [String.toList_ofList] at this)

instance (s : String) : Decidable (GoodCoord s) := by unfold GoodCoord; infer_instance
instance (s : String) : Decidable (VfTok s) := by unfold VfTok; infer_instance
instance (k : Nat) (coords : List (List String)) (elems : List (List Nat)) : Decidable (GoodMesh k coords elems) := by
  unfold GoodMesh; infer_instance

instance (src : EvData) : Decidable (EvGood src) := by
  unfold EvGood
  rcases src.evecs with _ | ⟨n, k, cols⟩
  · infer_instance
  · infer_instance

/-- two triangles, coordinates as Python prints them -/
def exCoords : List (List String) :=
  [["0.5", "-1.25e-3", "1.0"], ["1.0", "0.0", "0.0"], ["0.0", "1.0", "0.0"], ["1.0", "1.0", "0.5"]]
def exElems : List (List Nat) := [[0, 1, 2], [1, 3, 2]]

theorem exMesh_good : GoodMesh 3 exCoords exElems := by decide

example : readVtk 3 (writeVtk 3 exCoords exElems) =
    .ok { coords := ["0.5", "-1.25e-3", "1.0", "1.0", "0.0", "0.0", "0.0", "1.0", "0.0", "1.0", "1.0", "0.5"],
          elems := [[0, 1, 2], [1, 3, 2]] } := vtk_roundtrip exMesh_good

example : writeVtk 3 exCoords exElems =
    ["# vtk DataFile Version 1.0", "vtk output", "ASCII", "DATASET POLYDATA", "POINTS 4 float",
     "0.5 -1.25e-3 1.0", "1.0 0.0 0.0", "0.0 1.0 0.0", "1.0 1.0 0.5", "POLYGONS 2 8", "3 0 1 2", "3 1 3 2"] := by decide

example : readVtk 4 (writeVtk 3 exCoords exElems) = .error .format := vtk_wrong_kind.1 exMesh_good
/-- cut after the third vertex line, and inside the element block -/
example : ∃ e, readVtk 3 ((writeVtk 3 exCoords exElems).take 8) = .error e := vtk_truncation exMesh_good 8 (by decide)
example : ∃ e, readVtk 3 ((writeVtk 3 exCoords exElems).take 11) = .error e := vtk_truncation exMesh_good 11 (by decide)

example : readOff (["OFF", "4 2 0", "0.5 -1.25e-3 1.0", "1.0 0.0 0.0", "0.0 1.0 0.0", "1.0 1.0 0.5", "3 0 1 2", "3 1 3 2"]) =
    .ok { coords := exCoords.flatten, elems := exElems } := by
  have := off_spec exMesh_good
  have e : (["OFF", s!"{exCoords.length} {exElems.length} 0"] ++ exCoords.map (" ".intercalate) ++
      exElems.map (fun e => " ".intercalate ("3" :: e.map toString))) =
      ["OFF", "4 2 0", "0.5 -1.25e-3 1.0", "1.0 0.0 0.0", "0.0 1.0 0.0", "1.0 1.0 0.5", "3 0 1 2", "3 1 3 2"] := by decide
  rw [e] at this
  exact this

/-- one tetrahedron -/
def exTet : List (List Nat) := [[0, 1, 2, 3]]
theorem exTet_good : GoodMesh 4 exCoords exTet := by decide

example : gmshFile exCoords exTet =
    ["$MeshFormat", "2.2 0 8", "$EndMeshFormat", "$Nodes", "4", "1 0.5 -1.25e-3 1.0", "2 1.0 0.0 0.0", "3 0.0 1.0 0.0",
     "4 1.0 1.0 0.5", "$EndNodes", "$Elements", "1", "1 4 2 0 1 1 2 3 4", "$EndElements"] := by decide
example : readGmsh (gmshFile exCoords exTet) = .ok { coords := exCoords.flatten, elems := [[0, 1, 2, 3]] } :=
  gmsh_spec exTet_good
example : readVtk 4 (writeVtk 4 exCoords exTet) = .ok { coords := exCoords.flatten, elems := exTet } :=
  vtk_roundtrip exTet_good

/-- a strip of five vertices gives three triangles with alternating winding -/
example : stripTris [0, 1, 2, 3, 4] = [[0, 1, 2], [2, 1, 3], [2, 3, 4]] := by decide

example : readVfunc (writeVfunc ["0.5", "-1.25e-3", "1.0"]) = some ["0.5", "-1.25e-3", "1.0"] :=
  vfunc_roundtrip _ (by decide) (by decide)
/-- a single value: `(0.5)` on one line -/
example : readVfunc (writeVfunc ["0.5"]) = some ["0.5"] := vfunc_roundtrip _ (by decide) (by decide)
example : writeVfunc ["0.5", "1.0"] = ["Solution:", "(0.5,1.0)"] := by decide

/-- `.ev` data with all kinds of fields; eigenvector shapes `(n,k)` = (1,1), (3,1), (1,3), (2,2) -/
def exEv (ev : Option (Nat × Nat × List (List String))) : EvData :=
  { strs := [("Creator", "LaPy"), ("File", "C:\\data\\my mesh.vtk")]
    ints := [("Refine", "0"), ("Degree", "1"), ("Dimension", "2"), ("Elements", "2"), ("DoF", "4"), ("NumEW", "2"),
      ("EulerChar", "-2"), ("TimePre", "1"), ("TimeCalcAB", "2"), ("TimeCalcEW", "3")]
    floats := [("Area", "1.5"), ("Volume", "0.0")]
    evals := ["0.0", "1.25e-3"]
    evecs := ev }

example : EvGood (exEv none) := by decide
example : EvGood (exEv (some (1, 1, [["0.5"]]))) := by decide
example : EvGood (exEv (some (3, 1, [["0.5", "1.0", "-2.0"]]))) := by decide
example : EvGood (exEv (some (1, 3, [["0.5"], ["1.0"], ["-2.0"]]))) := by decide
example : EvGood (exEv (some (2, 2, [["0.5", "1.0"], ["-2.0", "3e-2"]]))) := by decide

/-- the example data is in the writer's order already, so it is read back unchanged -/
theorem exEv_canon (ev : Option (Nat × Nat × List (List String))) : evCanon (exEv ev) = exEv ev := by
  unfold evCanon exEv
  dsimp only
  congr 1

/-- the written file (the `Time(total )` line, whose number comes from `String.toInt!`, is left out of the comparison) -/
example : (writeEv (exEv (some (3, 1, [["0.5", "1.0", "-2.0"]])))).take 16 ++
      (writeEv (exEv (some (3, 1, [["0.5", "1.0", "-2.0"]])))).drop 17 =
    [" Creator: LaPy", " File: C:\\data\\my mesh.vtk", " Refine: 0", " Degree: 1", " Dimension: 2", " Elements: 2",
     " DoF: 4", " NumEW: 2", "", " Area: 1.5", " Volume: 0.0", " EulerChar: -2", "", " Time(Pre) : 1",
     " Time(calcAB) : 2", " Time(calcEW) : 3", "", "Eigenvalues:", "{ 0.0 ; 1.25e-3 }", "",
     "Eigenvectors:", "sizes: 3 1", "", "{ (0.5,1.0,-2.0) }"] := by decide

example : readEv 100 (writeEv (exEv (some (3, 1, [["0.5", "1.0", "-2.0"]])))) evEmpty =
    some (exEv (some (3, 1, [["0.5", "1.0", "-2.0"]]))) := by
  rw [← exEv_canon]; exact ev_roundtrip _ (by decide) 100 (by decide)
example : readEv 100 (writeEv (exEv (some (1, 1, [["0.5"]])))) evEmpty = some (exEv (some (1, 1, [["0.5"]]))) := by
  rw [← exEv_canon]; exact ev_roundtrip _ (by decide) 100 (by decide)
example : readEv 100 (writeEv (exEv (some (1, 3, [["0.5"], ["1.0"], ["-2.0"]])))) evEmpty =
    some (exEv (some (1, 3, [["0.5"], ["1.0"], ["-2.0"]]))) := by
  rw [← exEv_canon]; exact ev_roundtrip _ (by decide) 100 (by decide)
example : readEv 100 (writeEv (exEv (some (2, 2, [["0.5", "1.0"], ["-2.0", "3e-2"]])))) evEmpty =
    some (exEv (some (2, 2, [["0.5", "1.0"], ["-2.0", "3e-2"]]))) := by
  rw [← exEv_canon]; exact ev_roundtrip _ (by decide) 100 (by decide)
example : (writeEv (exEv (some (2, 2, [["0.5", "1.0"], ["-2.0", "3e-2"]])))).drop 21 =
    ["Eigenvectors:", "sizes: 2 2", "", "{ (0.5,1.0) ;", "(-2.0,3e-2) }"] := by decide
example : readEv 100 (writeEv (exEv none)) evEmpty = some (exEv none) := by
  rw [← exEv_canon]; exact ev_roundtrip _ (by decide) 100 (by decide)

end LapyVerif.Props.C14
