import LapyVerif.Props.C01
import LapyVerif.Props.C09
import LapyVerif.Lemmas.Balanced
/-
  C05 (continued) — affine reproduction: on a flat triangle mesh the stiffness matrix annihilates affine functions
  at interior vertices, `(A u)_i = 0` for `u = a·x + b`.

  Route: `(A u)_i = Σ_τ area(τ) ∇λ_i|τ · ∇u|τ` (`C01.stiff_form`); on a flat non-degenerate triangle
  `area · ∇λ_i · ∇u = (σ/2) a · (ẑ × e_opp)` where `e_opp` is the edge opposite to `i`, directed with the winding, and
  `σ = ±1` the orientation of the triangle in the plane (`flat_term`); the opposite edges around `i` form closed loops
  (`BalancedAt`), so `Σ e_opp` telescopes to zero (`Lemmas.telescope_sum_zero`).
  Every triangle list, no bound on the number of triangles, no `Distinct` hypothesis (degenerate index triples are
  excluded by `NonDegenTri` anyway, and the identity is linear in the corner indicator).
-/
namespace LapyVerif.Props.C05
open LapyVerif V3 Lemmas

/-! ### one flat triangle -/

theorem flat_normSq (v1 v2 v3 : V3 ℝ) (h1 : v1.z = 0) (h2 : v2.z = 0) (h3 : v3.z = 0) :
    normSq (Spec.triN v1 v2 v3) = (Spec.triN v1 v2 v3).z * (Spec.triN v1 v2 v3).z := by
  simp only [Spec.triN]; v3_flat; rw [h1, h2, h3]; ring

theorem flat_term (v1 v2 v3 a : V3 ℝ) (b d1 d2 d3 σ : ℝ)
    (h1 : v1.z = 0) (h2 : v2.z = 0) (h3 : v3.z = 0)
    (hN : 0 < normSq (Spec.triN v1 v2 v3))
    (hσ : |(Spec.triN v1 v2 v3).z| = σ * (Spec.triN v1 v2 v3).z) :
    Spec.triArea v1 v2 v3 *
        dot (Spec.gradTri v1 v2 v3 d1 d2 d3)
          (Spec.gradTri v1 v2 v3 (dot a v1 + b) (dot a v2 + b) (dot a v3 + b))
      = σ / 2 * dot a (cross ⟨0, 0, 1⟩ (smul d1 (v3 - v2) + smul d2 (v1 - v3) + smul d3 (v2 - v1))) := by
  have hnn := flat_normSq v1 v2 v3 h1 h2 h3
  set n := (Spec.triN v1 v2 v3).z with hn
  have hn0 : n ≠ 0 := by
    intro h; rw [hnn, h] at hN; simp at hN
  have harea : Spec.triArea v1 v2 v3 = σ * n / 2 := by
    unfold Spec.triArea
    rw [hnn, Real.sqrt_mul_self_eq_abs, hσ]
  have hx : (Spec.triN v1 v2 v3).x = 0 := by simp only [Spec.triN]; v3_flat; rw [h1, h2, h3]; ring
  have hy : (Spec.triN v1 v2 v3).y = 0 := by simp only [Spec.triN]; v3_flat; rw [h1, h2, h3]; ring
  rw [harea]
  simp only [Spec.gradTri, hnn]
  v3_flat
  rw [hx, hy, ← hn, h1, h2, h3]
  have hdef : n = (v2.x - v1.x) * (v3.y - v1.y) - (v2.y - v1.y) * (v3.x - v1.x) := by
    rw [hn]; simp only [Spec.triN]; v3_flat
  field_simp
  rw [hdef]
  ring

/-! ### the link of a vertex -/

/-- the edges opposite to vertex `i` in `τ`, directed with the winding of `τ` (one arc per corner of `τ` equal to `i`) -/
def oppTri (i : Nat) (τ : Tri) : List (Nat × Nat) :=
  (if τ.1 = i then [(τ.2.1, τ.2.2)] else []) ++ (if τ.2.1 = i then [(τ.2.2, τ.1)] else []) ++
    (if τ.2.2 = i then [(τ.1, τ.2.1)] else [])

/-- the link of `i`: all opposite edges -/
def opp (i : Nat) (ts : List Tri) : List (Nat × Nat) := ts.flatMap (oppTri i)

theorem opp_eq (i : Nat) (ts : List Tri) :
    opp i ts = ts.flatMap fun (t0, t1, t2) =>
      (if t0 = i then [(t1, t2)] else []) ++ (if t1 = i then [(t2, t0)] else []) ++
        (if t2 = i then [(t0, t1)] else []) := rfl

/-- the opposite edges around `i` form closed loops: every vertex starts as many of them as it ends -/
def BalancedAt (i : Nat) (ts : List Tri) : Prop := DegBalanced (opp i ts)

theorem sum_opp (i : Nat) (ts : List Tri) (G : Nat × Nat → ℝ) :
    ((opp i ts).map G).sum = (ts.map fun τ => ((oppTri i τ).map G).sum).sum := by
  unfold opp
  induction ts with
  | nil => simp
  | cons τ ts ih => simp only [List.flatMap_cons, List.map_append, List.sum_append, ih, List.map_cons, List.sum_cons]

/-- all vertices of all triangles lie in the plane `z = 0` -/
def Flat (vtx : Nat → V3 ℝ) (ts : List Tri) : Prop :=
  ∀ τ ∈ ts, (vtx τ.1).z = 0 ∧ (vtx τ.2.1).z = 0 ∧ (vtx τ.2.2).z = 0

/-- `z`-component of twice the area vector: positive iff `τ` is counter-clockwise in the plane -/
def nz (vtx : Nat → V3 ℝ) (τ : Tri) : ℝ := (Spec.triN (vtx τ.1) (vtx τ.2.1) (vtx τ.2.2)).z

theorem term_eq (vtx : Nat → V3 ℝ) (a : V3 ℝ) (b σ : ℝ) (i : Nat) (τ : Tri)
    (hz : (vtx τ.1).z = 0 ∧ (vtx τ.2.1).z = 0 ∧ (vtx τ.2.2).z = 0)
    (hN : 0 < normSq (Spec.triN (vtx τ.1) (vtx τ.2.1) (vtx τ.2.2)))
    (hσ : (τ.1 = i ∨ τ.2.1 = i ∨ τ.2.2 = i) → |nz vtx τ| = σ * nz vtx τ) :
    Spec.triArea (vtx τ.1) (vtx τ.2.1) (vtx τ.2.2) *
        dot (Spec.gradTri (vtx τ.1) (vtx τ.2.1) (vtx τ.2.2)
              (if τ.1 = i then 1 else 0) (if τ.2.1 = i then 1 else 0) (if τ.2.2 = i then 1 else 0))
            (Spec.gradTri (vtx τ.1) (vtx τ.2.1) (vtx τ.2.2)
              (dot a (vtx τ.1) + b) (dot a (vtx τ.2.1) + b) (dot a (vtx τ.2.2) + b))
      = σ / 2 * ((oppTri i τ).map fun h =>
          dot a (cross ⟨0, 0, 1⟩ (vtx h.2)) - dot a (cross ⟨0, 0, 1⟩ (vtx h.1))).sum := by
  by_cases hi : τ.1 = i ∨ τ.2.1 = i ∨ τ.2.2 = i
  · rw [flat_term _ _ _ a b _ _ _ σ hz.1 hz.2.1 hz.2.2 hN (hσ hi)]
    congr 1
    unfold oppTri
    by_cases h1 : τ.1 = i <;> by_cases h2 : τ.2.1 = i <;> by_cases h3 : τ.2.2 = i <;>
      simp only [h1, h2, h3, if_true, if_false, List.nil_append, List.append_nil, List.cons_append, List.map_cons,
        List.map_nil, List.sum_cons, List.sum_nil] <;> v3_flat <;> ring
  · have h1 : ¬ τ.1 = i := fun h => hi (Or.inl h)
    have h2 : ¬ τ.2.1 = i := fun h => hi (Or.inr (Or.inl h))
    have h3 : ¬ τ.2.2 = i := fun h => hi (Or.inr (Or.inr h))
    simp only [oppTri, h1, h2, h3, if_false, List.append_nil, List.map_nil, List.sum_nil, mul_zero]
    rw [C01.gradTri_const]
    v3_flat; ring

/-! ### the theorem -/

/-- **affine functions are discretely harmonic at interior vertices of a flat mesh**: row `i` of `A u` vanishes
    for `u = a·x + b` when the edges opposite to `i` form closed loops and all triangles around `i` have the same
    orientation in the plane (`σ = 1`: counter-clockwise, `σ = -1`: clockwise). -/
theorem affine_harmonic (vtx : Nat → V3 ℝ) (ts : List Tri) (hnd : NonDegenTri vtx ts) (hflat : Flat vtx ts)
    (a : V3 ℝ) (b : ℝ) (i : Nat) (hbal : BalancedAt i ts) (σ : ℝ)
    (hσ : ∀ τ ∈ ts, (τ.1 = i ∨ τ.2.1 = i ∨ τ.2.2 = i) → |nz vtx τ| = σ * nz vtx τ) :
    Coo.mulVec (Fem.stiffTria vtx ts) (fun j => dot a (vtx j) + b) i = 0 := by
  rw [Coo.mulVec_eq_form, C01.stiff_form vtx ts hnd]
  have hterm : ∀ τ ∈ ts,
      Spec.triArea (vtx τ.1) (vtx τ.2.1) (vtx τ.2.2) *
        dot (Spec.gradTri (vtx τ.1) (vtx τ.2.1) (vtx τ.2.2)
              ((fun k => if k = i then (1 : ℝ) else 0) τ.1) ((fun k => if k = i then (1 : ℝ) else 0) τ.2.1)
              ((fun k => if k = i then (1 : ℝ) else 0) τ.2.2))
            (Spec.gradTri (vtx τ.1) (vtx τ.2.1) (vtx τ.2.2)
              ((fun j => dot a (vtx j) + b) τ.1) ((fun j => dot a (vtx j) + b) τ.2.1)
              ((fun j => dot a (vtx j) + b) τ.2.2))
      = σ / 2 * ((oppTri i τ).map fun h =>
          dot a (cross ⟨0, 0, 1⟩ (vtx h.2)) - dot a (cross ⟨0, 0, 1⟩ (vtx h.1))).sum := by
    intro τ hτ
    exact term_eq vtx a b σ i τ (hflat τ hτ) (FemTri.normSq_pos_of_nondegen _ _ _ (hnd τ hτ)) (hσ τ hτ)
  rw [List.map_congr_left hterm, List.sum_map_mul_left, ← sum_opp,
    telescope_sum_zero (opp i ts) hbal fun j => dot a (cross ⟨0, 0, 1⟩ (vtx j))]
  ring

/-- counter-clockwise version -/
theorem affine_harmonic_pos (vtx : Nat → V3 ℝ) (ts : List Tri) (hnd : NonDegenTri vtx ts) (hflat : Flat vtx ts)
    (a : V3 ℝ) (b : ℝ) (i : Nat) (hbal : BalancedAt i ts)
    (hpos : ∀ τ ∈ ts, (τ.1 = i ∨ τ.2.1 = i ∨ τ.2.2 = i) → 0 < nz vtx τ) :
    Coo.mulVec (Fem.stiffTria vtx ts) (fun j => dot a (vtx j) + b) i = 0 :=
  affine_harmonic vtx ts hnd hflat a b i hbal 1 fun τ hτ hi => by rw [abs_of_pos (hpos τ hτ hi), one_mul]

/-! ### without an orientation hypothesis: re-orient every triangle counter-clockwise first -/

/-- flip the clockwise triangles -/
noncomputable def orientCCW (vtx : Nat → V3 ℝ) (τ : Tri) : Tri := if nz vtx τ < 0 then C01.swapTri τ else τ

theorem nz_swap (vtx : Nat → V3 ℝ) (τ : Tri) : nz vtx (C01.swapTri τ) = - nz vtx τ := by
  simp only [nz, C01.swapTri, Spec.triN]; v3_flat; ring

theorem nz_ne_zero (vtx : Nat → V3 ℝ) (τ : Tri)
    (hz : (vtx τ.1).z = 0 ∧ (vtx τ.2.1).z = 0 ∧ (vtx τ.2.2).z = 0)
    (hN : 0 < normSq (Spec.triN (vtx τ.1) (vtx τ.2.1) (vtx τ.2.2))) : nz vtx τ ≠ 0 := by
  intro h
  rw [flat_normSq _ _ _ hz.1 hz.2.1 hz.2.2] at hN
  unfold nz at h
  rw [h] at hN; simp at hN

/-- **no orientation hypothesis**: the stiffness matrix does not see the winding of the triangles
    (`C01.stiff_form_reorder`), so it is enough that the link of `i` closes up after all triangles have been turned
    counter-clockwise. -/
theorem affine_harmonic_reorient (vtx : Nat → V3 ℝ) (ts : List Tri) (hnd : NonDegenTri vtx ts) (hflat : Flat vtx ts)
    (a : V3 ℝ) (b : ℝ) (i : Nat) (hbal : BalancedAt i (ts.map (orientCCW vtx))) :
    Coo.mulVec (Fem.stiffTria vtx ts) (fun j => dot a (vtx j) + b) i = 0 := by
  have hσ : ∀ τ, orientCCW vtx τ = τ ∨ orientCCW vtx τ = C01.swapTri τ ∨ orientCCW vtx τ = C01.rotTri τ := by
    intro τ; unfold orientCCW; split
    · exact Or.inr (Or.inl rfl)
    · exact Or.inl rfl
  rw [Coo.mulVec_eq_form, ← C01.stiff_form_reorder vtx ts hnd (orientCCW vtx) hσ, ← Coo.mulVec_eq_form]
  have hnd' : NonDegenTri vtx (ts.map (orientCCW vtx)) := by
    intro τ' hτ'
    obtain ⟨τ, hτ, rfl⟩ := List.mem_map.mp hτ'
    unfold orientCCW; split
    · simp only [C01.swapTri]; rw [C01.triVol_swap]; exact hnd τ hτ
    · exact hnd τ hτ
  have hflat' : Flat vtx (ts.map (orientCCW vtx)) := by
    intro τ' hτ'
    obtain ⟨τ, hτ, rfl⟩ := List.mem_map.mp hτ'
    have := hflat τ hτ
    unfold orientCCW; split
    · exact ⟨this.2.1, this.1, this.2.2⟩
    · exact this
  apply affine_harmonic_pos vtx _ hnd' hflat' a b i hbal
  intro τ' hτ' _
  obtain ⟨τ, hτ, rfl⟩ := List.mem_map.mp hτ'
  have hne := nz_ne_zero vtx τ (hflat τ hτ) (FemTri.normSq_pos_of_nondegen _ _ _ (hnd τ hτ))
  unfold orientCCW; split
  · rename_i h; rw [nz_swap]; linarith
  · rename_i h
    rcases lt_or_gt_of_ne hne with h' | h'
    · exact absurd h' h
    · exact h'

/-! ### which vertices are balanced -/

open LapyVerif.Props.C09 (Distinct hasHalfEdge halfEdgeCount halfEdgeCount_cons edgeCount edgeCount_eq_add
  halfEdgeCount_le_one)

theorem count_oppTri_fst (i p : Nat) (τ : Tri) (h : τ.1 ≠ τ.2.1 ∧ τ.2.1 ≠ τ.2.2 ∧ τ.2.2 ≠ τ.1) :
    ((oppTri i τ).map (·.1)).count p = if hasHalfEdge τ i p then 1 else 0 := by
  obtain ⟨t0, t1, t2⟩ := τ
  obtain ⟨h01, h12, h20⟩ := h
  simp only [oppTri, hasHalfEdge, beq_iff_eq, Bool.and_eq_true, Bool.or_eq_true] at *
  by_cases e0 : t0 = i <;> by_cases e1 : t1 = i <;> by_cases e2 : t2 = i <;>
    simp only [e0, e1, e2, if_true, if_false, List.nil_append, List.append_nil, List.cons_append, List.map_cons,
      List.map_nil, List.count_cons, List.count_nil, beq_iff_eq] <;> grind

theorem count_oppTri_snd (i p : Nat) (τ : Tri) (h : τ.1 ≠ τ.2.1 ∧ τ.2.1 ≠ τ.2.2 ∧ τ.2.2 ≠ τ.1) :
    ((oppTri i τ).map (·.2)).count p = if hasHalfEdge τ p i then 1 else 0 := by
  obtain ⟨t0, t1, t2⟩ := τ
  obtain ⟨h01, h12, h20⟩ := h
  simp only [oppTri, hasHalfEdge, beq_iff_eq, Bool.and_eq_true, Bool.or_eq_true] at *
  by_cases e0 : t0 = i <;> by_cases e1 : t1 = i <;> by_cases e2 : t2 = i <;>
    simp only [e0, e1, e2, if_true, if_false, List.nil_append, List.append_nil, List.cons_append, List.map_cons,
      List.map_nil, List.count_cons, List.count_nil, beq_iff_eq] <;> grind

/-- out-degree of `p` in the link of `i` = number of triangles with half-edge `i→p`; in-degree = number with `p→i` -/
theorem count_opp (i p : Nat) (ts : List Tri) (hd : Distinct ts) :
    ((opp i ts).map (·.1)).count p = halfEdgeCount ts i p ∧
    ((opp i ts).map (·.2)).count p = halfEdgeCount ts p i := by
  unfold opp
  induction ts with
  | nil => simp [halfEdgeCount]
  | cons τ ts ih =>
    have hτ := hd τ List.mem_cons_self
    obtain ⟨ih1, ih2⟩ := ih hd.tail
    simp only [List.flatMap_cons, List.map_append, List.count_append, ih1, ih2, count_oppTri_fst i p τ hτ,
      count_oppTri_snd i p τ hτ, halfEdgeCount_cons]
    exact ⟨trivial, trivial⟩

/-- `i` is balanced iff every half-edge out of `i` is matched by one into `i` -/
theorem balancedAt_iff (i : Nat) (ts : List Tri) (hd : Distinct ts) :
    BalancedAt i ts ↔ ∀ p, halfEdgeCount ts i p = halfEdgeCount ts p i := by
  unfold BalancedAt DegBalanced
  constructor
  · intro h p
    rw [← (count_opp i p ts hd).1, ← (count_opp i p ts hd).2]; exact h p
  · intro h p
    rw [(count_opp i p ts hd).1, (count_opp i p ts hd).2]; exact h p

/-- interior vertices of an oriented mesh are balanced: no edge at `i` is a boundary edge -/
theorem balancedAt_of_interior (i : Nat) (ts : List Tri) (hd : Distinct ts) (ho : Topo.isOriented ts = true)
    (hint : ∀ p, edgeCount ts i p ≠ 1) : BalancedAt i ts := by
  rw [balancedAt_iff i ts hd]
  intro p
  have h1 := halfEdgeCount_le_one ts hd ho i p
  have h2 := halfEdgeCount_le_one ts hd ho p i
  have h3 := edgeCount_eq_add ts hd i p
  have h4 := hint p
  omega

/-- every vertex of a closed oriented mesh is balanced -/
theorem balancedAt_of_closed (i : Nat) (ts : List Tri) (hd : Distinct ts) (hc : Topo.isClosed ts = true)
    (ho : Topo.isOriented ts = true) : BalancedAt i ts :=
  balancedAt_of_interior i ts hd ho fun p => (C09.isClosed_iff ts hd).1 hc i p

/-! ### non-vacuity: a four-triangle umbrella around vertex 0 -/

/-- centre `0` at the origin, rim `1,2,3,4` at `(±1,0,0)`, `(0,±1,0)` -/
def umbV : Nat → V3 ℝ := fun i =>
  match i with
  | 0 => ⟨0, 0, 0⟩
  | 1 => ⟨1, 0, 0⟩
  | 2 => ⟨0, 1, 0⟩
  | 3 => ⟨-1, 0, 0⟩
  | _ => ⟨0, -1, 0⟩

def umb : List Tri := [(0, 1, 2), (0, 2, 3), (0, 3, 4), (0, 4, 1)]

theorem umb_balanced : BalancedAt 0 umb := by
  unfold BalancedAt
  rw [degBalanced_iff_perm]
  decide

/-- a rim vertex is not balanced: its link is an open path -/
example : ¬ BalancedAt 1 umb := by
  unfold BalancedAt
  rw [degBalanced_iff_perm]
  decide

theorem umb_flat : Flat umbV umb := by
  intro τ hτ
  simp only [umb, List.mem_cons, List.not_mem_nil, or_false] at hτ
  rcases hτ with rfl | rfl | rfl | rfl <;> simp [umbV]

theorem umb_nz : ∀ τ ∈ umb, nz umbV τ = 1 := by
  intro τ hτ
  simp only [umb, List.mem_cons, List.not_mem_nil, or_false] at hτ
  rcases hτ with rfl | rfl | rfl | rfl <;> (simp only [nz, Spec.triN, umbV]; v3_flat; norm_num)

theorem umb_nondegen : NonDegenTri umbV umb := by
  intro τ hτ
  have h1 := umb_nz τ hτ
  have hz := umb_flat τ hτ
  have hnn := flat_normSq _ _ _ hz.1 hz.2.1 hz.2.2
  unfold nz at h1
  rw [h1] at hnn
  rw [Fem.triVol, FemTri.triCr_eq_triN, hnn, sqrt_real, epsK_real]
  norm_num

/-- all hypotheses of `affine_harmonic_pos` hold for the umbrella, so row 0 of `A u` vanishes for every affine `u` -/
example (a : V3 ℝ) (b : ℝ) : Coo.mulVec (Fem.stiffTria umbV umb) (fun j => dot a (umbV j) + b) 0 = 0 :=
  affine_harmonic_pos umbV umb umb_nondegen umb_flat a b 0 umb_balanced
    fun τ hτ _ => by rw [umb_nz τ hτ]; norm_num

/-- flipping one triangle of the umbrella destroys the balance of the stored link … -/
example : ¬ BalancedAt 0 [(0, 2, 1), (0, 2, 3), (0, 3, 4), (0, 4, 1)] := by
  unfold BalancedAt
  rw [degBalanced_iff_perm]
  decide

/-- … but `affine_harmonic_reorient` still applies -/
def umbF : List Tri := [(0, 2, 1), (0, 2, 3), (0, 3, 4), (0, 4, 1)]

theorem umbF_nz : nz umbV (0, 2, 1) = -1 := by
  simp only [nz, Spec.triN, umbV]; v3_flat; norm_num

theorem umbF_orient : umbF.map (orientCCW umbV) = [(2, 0, 1), (0, 2, 3), (0, 3, 4), (0, 4, 1)] := by
  have e0 : orientCCW umbV (0, 2, 1) = (2, 0, 1) := by
    unfold orientCCW; rw [umbF_nz]; norm_num [C01.swapTri]
  have e : ∀ τ ∈ umb, orientCCW umbV τ = τ := by
    intro τ hτ; unfold orientCCW; rw [umb_nz τ hτ]; norm_num
  simp only [umbF, List.map_cons, List.map_nil, e0]
  rw [e (0, 2, 3) (by decide), e (0, 3, 4) (by decide), e (0, 4, 1) (by decide)]

theorem umbF_nondegen : NonDegenTri umbV umbF := by
  intro τ hτ
  simp only [umbF, List.mem_cons, List.not_mem_nil, or_false] at hτ
  rcases hτ with rfl | rfl | rfl | rfl
  · have hnn := flat_normSq (umbV 0) (umbV 2) (umbV 1) (by simp [umbV]) (by simp [umbV]) (by simp [umbV])
    have h1 := umbF_nz
    unfold nz at h1
    simp only at h1
    rw [h1] at hnn
    rw [Fem.triVol, FemTri.triCr_eq_triN, hnn, sqrt_real, epsK_real]
    norm_num
  · exact umb_nondegen _ (by decide)
  · exact umb_nondegen _ (by decide)
  · exact umb_nondegen _ (by decide)

theorem umbF_flat : Flat umbV umbF := by
  intro τ hτ
  simp only [umbF, List.mem_cons, List.not_mem_nil, or_false] at hτ
  rcases hτ with rfl | rfl | rfl | rfl <;> simp [umbV]

example (a : V3 ℝ) (b : ℝ) : Coo.mulVec (Fem.stiffTria umbV umbF) (fun j => dot a (umbV j) + b) 0 = 0 := by
  apply affine_harmonic_reorient umbV umbF umbF_nondegen umbF_flat a b 0
  rw [umbF_orient]
  unfold BalancedAt
  rw [degBalanced_iff_perm]
  decide
end LapyVerif.Props.C05
