import LapyVerif.Lemmas.LevelLemmas
import LapyVerif.Props.C09
/-
  Breadth-first distances of `level_path` on a segment graph that is a simple path `q0 — q1 — … — qm`:
  the distance of `q_j` from `q_0` is `j`, hence the argsort of the distances lists the nodes in path order.
-/
namespace LapyVerif
namespace LevelBfs
open Level LevelLemmas

/-- the neighbour list used by `bfs` -/
def nbrOf (es : List (Nat × Nat)) (i : Nat) : List Nat :=
  es.filterMap fun e => if e.1 == i then some e.2 else if e.2 == i then some e.1 else none

theorem bfs_eq (n : Nat) (es : List (Nat × Nat)) (start : Nat) :
    bfs n es start = bfs.go (nbrOf es) n [start] 0 ((List.range n).map fun j => if j == start then some 0 else none) := rfl

theorem go_zero (nbr : Nat → List Nat) (fr : List Nat) (d : Nat) (dist : List (Option Nat)) :
    bfs.go nbr 0 fr d dist = dist := rfl

theorem go_succ (nbr : Nat → List Nat) (fuel : Nat) (fr : List Nat) (d : Nat) (dist : List (Option Nat)) :
    bfs.go nbr (fuel + 1) fr d dist =
      if fr.isEmpty then dist
      else bfs.go nbr fuel (((fr.flatMap nbr).eraseDups).filter fun j => (dist.getD j none).isNone) (d + 1)
        (dist.zipIdx.map fun p => if (((fr.flatMap nbr).eraseDups).filter fun j => (dist.getD j none).isNone).contains p.2
          then some (d + 1) else p.1) := rfl

theorem mem_nbrOf {es : List (Nat × Nat)} {i x : Nat} :
    x ∈ nbrOf es i ↔ ∃ e ∈ es, (e.1 = i ∧ x = e.2) ∨ (e.2 = i ∧ x = e.1) := by
  unfold nbrOf
  rw [List.mem_filterMap]
  constructor
  · rintro ⟨e, he, h⟩
    refine ⟨e, he, ?_⟩
    split at h
    · rename_i h1; simp at h1 h; exact Or.inl ⟨h1, h.symm⟩
    · split at h
      · rename_i h2; simp at h2 h; exact Or.inr ⟨h2, h.symm⟩
      · cases h
  · rintro ⟨e, he, h⟩
    refine ⟨e, he, ?_⟩
    rcases h with ⟨h1, rfl⟩ | ⟨h2, rfl⟩
    · simp [h1]
    · by_cases h1 : e.1 = i
      · simp [h1, ← h2]
      · simp [h1, h2]

/-- the segment graph is the simple path listed by `q` (all `n` nodes, each once; the neighbours of `q[j]` are
    `q[j+1]` and `q[j-1]`) -/
structure IsPath (n : Nat) (es : List (Nat × Nat)) (q : List Nat) : Prop where
  nodup : q.Nodup
  mem : ∀ i, i ∈ q ↔ i < n
  adj : ∀ j (hj : j < q.length) x, x ∈ nbrOf es q[j] ↔
    (∃ h : j + 1 < q.length, x = q[j + 1]) ∨ (∃ _ : 0 < j, x = q[j - 1])

theorem IsPath.length {n : Nat} {es : List (Nat × Nat)} {q : List Nat} (h : IsPath n es q) : q.length = n := by
  have hp : q.Perm (List.range n) :=
    (List.perm_ext_iff_of_nodup h.nodup List.nodup_range).2 (fun i => by rw [h.mem, List.mem_range])
  simpa using hp.length_eq

/-- distances known after `d` rounds -/
def distAt (n : Nat) (q : List Nat) (d : Nat) : List (Option Nat) :=
  (List.range n).map fun i => if q.idxOf i ≤ d then some (q.idxOf i) else none

theorem getD_distAt (n : Nat) (q : List Nat) (d i : Nat) (hi : i < n) :
    (distAt n q d).getD i none = if q.idxOf i ≤ d then some (q.idxOf i) else none := by
  simp [distAt, List.getD_eq_getElem?_getD, hi]

theorem zipIdx_map_range {α β : Type} (n : Nat) (g : Nat → α) (F : α × Nat → β) :
    (((List.range n).map g).zipIdx).map F = (List.range n).map fun j => F (g j, j) := by
  apply List.ext_getElem
  · simp
  · intro i h1 h2
    simp

theorem eq_singleton_of_mem_iff {l : List Nat} (hnd : l.Nodup) (a : Nat) (h : ∀ x, x ∈ l ↔ x = a) : l = [a] := by
  have hp : l.Perm [a] := (List.perm_ext_iff_of_nodup hnd (by simp)).2 (fun x => by rw [h]; simp)
  exact List.perm_singleton.1 hp

theorem eq_nil_of_not_mem {l : List Nat} (h : ∀ x, x ∉ l) : l = [] := List.eq_nil_iff_forall_not_mem.2 h

theorem idxOf_getElem' {q : List Nat} (hnd : q.Nodup) (j : Nat) (hj : j < q.length) : q.idxOf q[j] = j :=
  hnd.idxOf_getElem j hj

/-- the frontier after round `d` -/
theorem next_eq {n : Nat} {es : List (Nat × Nat)} {q : List Nat} (h : IsPath n es q) (d : Nat) (hd : d < q.length) :
    ((([q[d]].flatMap (nbrOf es)).eraseDups).filter fun j => ((distAt n q d).getD j none).isNone)
      = if h' : d + 1 < q.length then [q[d + 1]] else [] := by
  have hnd : ((([q[d]].flatMap (nbrOf es)).eraseDups).filter fun j => ((distAt n q d).getD j none).isNone).Nodup :=
    (Lemmas.nodup_eraseDups _).filter _
  have hmem : ∀ x, x ∈ ((([q[d]].flatMap (nbrOf es)).eraseDups).filter fun j => ((distAt n q d).getD j none).isNone)
      ↔ ∃ h' : d + 1 < q.length, x = q[d + 1] := by
    intro x
    rw [List.mem_filter, List.mem_eraseDups]
    simp only [List.flatMap_cons, List.flatMap_nil, List.append_nil]
    rw [h.adj d hd x]
    constructor
    · rintro ⟨hx | ⟨hpos, hx⟩, hnone⟩
      · exact hx
      · exfalso
        have hlt : d - 1 < q.length := by omega
        have hxn : x < n := (h.mem x).1 (hx ▸ List.getElem_mem hlt)
        rw [getD_distAt n q d x hxn, hx, idxOf_getElem' h.nodup (d - 1) hlt, if_pos (by omega)] at hnone
        simp at hnone
    · rintro ⟨h', hx⟩
      refine ⟨Or.inl ⟨h', hx⟩, ?_⟩
      have hxn : x < n := (h.mem x).1 (hx ▸ List.getElem_mem h')
      rw [getD_distAt n q d x hxn, hx, idxOf_getElem' h.nodup (d + 1) h', if_neg (by omega)]
      rfl
  by_cases h' : d + 1 < q.length
  · rw [dif_pos h']
    apply eq_singleton_of_mem_iff hnd
    intro x; rw [hmem]; exact ⟨fun ⟨_, hx⟩ => hx, fun hx => ⟨h', hx⟩⟩
  · rw [dif_neg h']
    apply eq_nil_of_not_mem
    intro x hx; exact h' ((hmem x).1 hx).1

theorem distAt_succ {n : Nat} {es : List (Nat × Nat)} {q : List Nat} (h : IsPath n es q) (d : Nat) (hd : d + 1 < q.length) :
    ((distAt n q d).zipIdx.map fun p => if [q[d + 1]].contains p.2 then some (d + 1) else p.1) = distAt n q (d + 1) := by
  unfold distAt
  rw [zipIdx_map_range]
  apply List.map_congr_left
  intro i hi
  have hin : i ∈ q := (h.mem i).2 (List.mem_range.1 hi)
  simp only [List.contains_cons, List.contains_nil, Bool.or_false, beq_iff_eq]
  by_cases hi1 : i = q[d + 1]
  · rw [if_pos hi1, hi1, idxOf_getElem' h.nodup (d + 1) hd, if_pos (Nat.le_refl _)]
  · rw [if_neg hi1]
    have hne : q.idxOf i ≠ d + 1 := by
      intro he
      apply hi1
      have := List.getElem_idxOf (List.idxOf_lt_length_iff.2 hin)
      rw [← this]; congr 1
    by_cases hle : q.idxOf i ≤ d
    · rw [if_pos hle, if_pos (by omega)]
    · rw [if_neg hle, if_neg (by omega)]

theorem distAt_final {n : Nat} {es : List (Nat × Nat)} {q : List Nat} (h : IsPath n es q) (d : Nat) (hd : q.length ≤ d + 1) :
    distAt n q d = (List.range n).map fun i => some (q.idxOf i) := by
  unfold distAt
  apply List.map_congr_left
  intro i hi
  have hin : i ∈ q := (h.mem i).2 (List.mem_range.1 hi)
  have := List.idxOf_lt_length_iff.2 hin
  rw [if_pos (by omega)]

/-- the loop invariant, run to the end -/
theorem go_path {n : Nat} {es : List (Nat × Nat)} {q : List Nat} (h : IsPath n es q) :
    ∀ (fuel d : Nat) (hd : d < q.length), fuel + d = q.length →
      bfs.go (nbrOf es) fuel [q[d]] d (distAt n q d) = (List.range n).map fun i => some (q.idxOf i) := by
  intro fuel
  induction fuel with
  | zero => intro d hd hf; omega
  | succ fuel ih =>
    intro d hd hf
    rw [go_succ]
    simp only [List.isEmpty_cons, Bool.false_eq_true, ↓reduceIte]
    rw [next_eq h d hd]
    by_cases h' : d + 1 < q.length
    · rw [dif_pos h', distAt_succ h d h']
      exact ih (d + 1) h' (by omega)
    · rw [dif_neg h']
      have hf0 : fuel = 0 := by omega
      subst hf0
      rw [go_zero]
      simp only [List.contains_nil, Bool.false_eq_true, ↓reduceIte]
      have : ((distAt n q d).zipIdx.map fun p => p.1) = distAt n q d := by
        have := List.zipIdx_map_fst 0 (distAt n q d)
        simp
      rw [this]
      exact distAt_final h d (by omega)

/-- **breadth-first distances on a simple path**: the distance of `q[j]` from `q[0]` is `j` -/
theorem bfs_path {n : Nat} {es : List (Nat × Nat)} {q : List Nat} (h : IsPath n es q) (hpos : 0 < q.length) :
    bfs n es q[0] = (List.range n).map fun i => some (q.idxOf i) := by
  rw [bfs_eq]
  have hinit : ((List.range n).map fun j => if j == q[0] then some 0 else none) = distAt n q 0 := by
    unfold distAt
    apply List.map_congr_left
    intro i hi
    have hin : i ∈ q := (h.mem i).2 (List.mem_range.1 hi)
    by_cases hi0 : i = q[0]
    · rw [hi0, idxOf_getElem' h.nodup 0 hpos]; simp
    · have hne : q.idxOf i ≠ 0 := by
        intro he
        apply hi0
        have := List.getElem_idxOf (List.idxOf_lt_length_iff.2 hin)
        rw [← this]; congr 1
      have : (i == q[0]) = false := by simpa using hi0
      simp only [this, Bool.false_eq_true, ↓reduceIte]
      rw [if_neg (by omega)]
  rw [hinit]
  exact go_path h n 0 hpos (by rw [h.length]; rfl)

/-- argsort of the distances = the path order -/
theorem argsort_path {n : Nat} {es : List (Nat × Nat)} {q : List Nat} (h : IsPath n es q) :
    ((((List.range n).map fun i => (q.idxOf i, i)).mergeSort (fun a b => Topo.lexLe a b)).map (·.2)) = q := by
  have htarget : ((List.range n).map fun i => (q.idxOf i, i)).mergeSort (fun a b => Topo.lexLe a b)
      = q.zipIdx.map fun p => (p.2, p.1) := by
    apply List.Perm.eq_of_pairwise (le := fun a b => Topo.lexLe a b = true)
    · intro a b _ _; exact Props.C09.lexLe_antisymm a b
    · exact Props.C09.pairwise_sortLex _
    · rw [List.pairwise_map, List.pairwise_iff_getElem]
      intro i j hi hj hij
      simp only [List.getElem_zipIdx, Topo.lexLe, Bool.or_eq_true, decide_eq_true_eq]
      left; omega
    · refine (List.mergeSort_perm _ _).trans ?_
      apply (List.perm_ext_iff_of_nodup ?_ ?_).2
      · rintro ⟨a, b⟩
        simp only [List.mem_map, List.mem_range, Prod.mk.injEq, Prod.exists, List.mk_mem_zipIdx_iff_getElem?]
        constructor
        · rintro ⟨i, hi, rfl, rfl⟩
          have hin : i ∈ q := (h.mem i).2 hi
          have hlt := List.idxOf_lt_length_iff.2 hin
          exact ⟨i, q.idxOf i, by rw [List.getElem?_eq_getElem hlt, List.getElem_idxOf hlt], rfl, rfl⟩
        · rintro ⟨x, j, hx, rfl, rfl⟩
          obtain ⟨hj, rfl⟩ := List.getElem?_eq_some_iff.1 hx
          exact ⟨q[j], (h.mem _).1 (List.getElem_mem hj), idxOf_getElem' h.nodup j hj, rfl⟩
      · apply List.Nodup.map_on _ List.nodup_range
        intro a _ b _ hab; exact (Prod.mk.inj hab).2
      · apply List.Nodup.map_on _ (List.Nodup.of_map Prod.snd (by rw [List.zipIdx_map_snd]; exact List.nodup_range'))
        rintro ⟨a1, a2⟩ _ ⟨b1, b2⟩ _ hab
        simp only [Prod.mk.injEq] at hab ⊢
        exact ⟨hab.2, hab.1⟩
  rw [htarget, List.map_map]
  have : ((fun x : Nat × Nat => x.2) ∘ fun p : Nat × Nat => (p.2, p.1)) = Prod.fst := rfl
  rw [this]
  exact List.zipIdx_map_fst 0 q

end LevelBfs
end LapyVerif
