import Mathlib.Tactic.Ring
import Mathlib.Tactic.Linarith
import Mathlib.Algebra.BigOperators.Group.List.Basic
import LapyVerif.Model.TetTopo
/-
  Combinatorial helper lemmas for C12 (`TetTopo.sort3`, `allFaces`, `boundaryFaces`) and two general list lemmas:
  "elements whose key is unique have pairwise different keys" and "the elements whose key is not unique contribute a
  sum in any additively closed set that contains every multi-element key class' sum".
-/
namespace LapyVerif.TetLemmas
open LapyVerif TetTopo

/-! ### `sort3` -/

theorem sort3_sorted (a b c : Nat) :
    (sort3 a b c).1 ≤ (sort3 a b c).2.1 ∧ (sort3 a b c).2.1 ≤ (sort3 a b c).2.2 := by
  simp only [sort3]; omega

theorem sort3_perm (a b c : Nat) :
    [(sort3 a b c).1, (sort3 a b c).2.1, (sort3 a b c).2.2].Perm [a, b, c] := by
  rw [List.perm_iff_count]; intro v
  simp only [sort3, List.count_cons, List.count_nil, beq_iff_eq]
  split_ifs <;> omega

theorem mem_sort3 (a b c v : Nat) :
    v ∈ [(sort3 a b c).1, (sort3 a b c).2.1, (sort3 a b c).2.2] ↔ v ∈ [a, b, c] :=
  (sort3_perm a b c).mem_iff

/-! ### the face table -/

/-- the four faces of a tetrahedron in the winding of the code's table `[3,1,2],[2,0,3],[1,3,0],[0,2,1]` -/
def tetFaces (τ : Tet) : List Tri :=
  [(τ.2.2.2, τ.2.1, τ.2.2.1), (τ.2.2.1, τ.1, τ.2.2.2), (τ.2.1, τ.2.2.2, τ.1), (τ.1, τ.2.2.1, τ.2.1)]

/-- the sorted vertex triple of a face: the key `boundary_tria` uses to recognise equal faces -/
def faceKey (f : Tri) : Nat × Nat × Nat := sort3 f.1 f.2.1 f.2.2

theorem allFaces_length (ts : List Tet) : (allFaces ts).length = 4 * ts.length := by
  simp only [allFaces, List.length_append, List.length_map, List.length_zipIdx]; omega

theorem mem_allFaces {ts : List Tet} {f : Tri} {k : Nat} :
    (f, k) ∈ allFaces ts ↔ ∃ h : k < ts.length, f ∈ tetFaces ts[k] := by
  simp only [allFaces, List.mem_append, List.mem_map, Prod.exists, Prod.mk.injEq, List.mem_zipIdx_iff_getElem?,
    tetFaces, List.mem_cons, List.not_mem_nil, or_false]
  constructor
  · rintro (((⟨a, b, c, d, k', h, rfl, rfl⟩ | ⟨a, b, c, d, k', h, rfl, rfl⟩) | ⟨a, b, c, d, k', h, rfl, rfl⟩) | ⟨a, b, c, d, k', h, rfl, rfl⟩) <;>
    · obtain ⟨hk, he⟩ := List.getElem?_eq_some_iff.mp h
      refine ⟨hk, ?_⟩
      rw [he]; simp
  · rintro ⟨hk, h⟩
    have he : ts[k]? = some ts[k] := List.getElem?_eq_getElem hk
    rcases h with h | h | h | h
    · exact Or.inl (Or.inl (Or.inl ⟨_, _, _, _, k, he, h.symm, rfl⟩))
    · exact Or.inl (Or.inl (Or.inr ⟨_, _, _, _, k, he, h.symm, rfl⟩))
    · exact Or.inl (Or.inr ⟨_, _, _, _, k, he, h.symm, rfl⟩)
    · exact Or.inr ⟨_, _, _, _, k, he, h.symm, rfl⟩

/-! ### keys that occur once -/

section Unique
variable {α κ : Type} [BEq κ] [LawfulBEq κ] (key : α → κ)

/-- the elements of `l` with key `k` -/
def cls (l : List α) (k : κ) : List α := l.filter (fun e => key e == k)

/-- the key of `e` occurs exactly once in `l` -/
def uniq (l : List α) (e : α) : Bool := (cls key l (key e)).length == 1

omit [LawfulBEq κ] in
theorem cls_length_eq_count (l : List α) (k : κ) : (cls key l k).length = (l.map key).count k := by
  rw [List.count_eq_length_filter, List.filter_map, List.length_map]; rfl

omit [LawfulBEq κ] in
theorem uniq_of_key_eq {l : List α} {e : α} {k : κ} (h : key e = k) :
    uniq key l e = ((cls key l k).length == 1) := by
  simp only [uniq, h]

/-- the elements with a unique key have pairwise different keys -/
theorem nodup_map_filter_uniq (l : List α) : ((l.filter (uniq key l)).map key).Nodup := by
  rw [List.nodup_iff_count]
  intro a
  rw [List.count_eq_length_filter, List.filter_map, List.length_map, List.filter_filter]
  by_cases h : (cls key l a).length = 1
  · have hsub : (l.filter (fun e => ((fun x => x == a) ∘ key) e && uniq key l e)).Sublist (cls key l a) := by
      have : l.filter (fun e => ((fun x => x == a) ∘ key) e && uniq key l e)
          = (cls key l a).filter (uniq key l) := by
        rw [cls, List.filter_filter]
        apply List.filter_congr
        intro e _
        simp only [Function.comp_apply, Bool.and_comm]
      rw [this]
      exact List.filter_sublist
    exact h ▸ hsub.length_le
  · have : l.filter (fun e => ((fun x => x == a) ∘ key) e && uniq key l e) = [] := by
      rw [List.filter_eq_nil_iff]
      intro e _
      simp only [Function.comp_apply, Bool.and_eq_true, beq_iff_eq, not_and]
      intro hk
      rw [uniq_of_key_eq key hk]
      simpa using h
    rw [this]; simp

theorem count_getElem_eq_one_iff {β : Type} [BEq β] [LawfulBEq β] :
    ∀ (l : List β) (i : Nat) (hi : i < l.length),
      l.count l[i] = 1 ↔ ∀ j (hj : j < l.length), l[j] = l[i] → j = i
  | [], i, hi => by simp at hi
  | a :: t, 0, _ => by
    simp only [List.getElem_cons_zero, List.count_cons_self, Nat.add_eq_right, List.count_eq_zero]
    constructor
    · intro hnm j hj hja
      match j, hj with
      | 0, _ => rfl
      | j + 1, hj =>
        simp only [List.getElem_cons_succ] at hja
        exact absurd (hja ▸ List.getElem_mem _) hnm
    · intro h hm
      obtain ⟨j, hj, hja⟩ := List.getElem_of_mem hm
      have := h (j + 1) (by simpa using hj) (by simpa using hja)
      omega
  | a :: t, i + 1, hi => by
    have hi' : i < t.length := by simpa using hi
    simp only [List.getElem_cons_succ]
    by_cases hat : a = t[i]
    · have hpos : 0 < t.count t[i] := List.count_pos_iff.mpr (List.getElem_mem _)
      constructor
      · intro h
        rw [List.count_cons, if_pos (by simpa using hat)] at h
        omega
      · intro h
        have := h 0 (by simp) (by simpa using hat)
        omega
    · rw [List.count_cons, if_neg (by simpa using hat), Nat.add_zero, count_getElem_eq_one_iff t i hi']
      constructor
      · intro h j hj hja
        match j, hj with
        | 0, _ => exact absurd (by simpa using hja) hat
        | j + 1, hj =>
          simp only [List.getElem_cons_succ] at hja
          have := h j (by simpa using hj) hja
          omega
      · intro h j hj hja
        have := h (j + 1) (by simpa using hj) (by simpa using hja)
        omega

end Unique

/-! ### `boundaryFaces` -/

/-- `boundaryFaces` is, up to the order produced by the sort, the sub-list of the faces whose key occurs once -/
theorem boundaryFaces_perm (ts : List Tet) :
    (boundaryFaces ts).Perm ((allFaces ts).filter (uniq (fun e : Tri × Nat => faceKey e.1) (allFaces ts))) := by
  unfold boundaryFaces
  simp only
  refine ((List.mergeSort_perm _ _).map _).trans (List.Perm.of_eq ?_)
  rw [List.filter_map, List.map_map]
  have hid : ∀ l : List (Tri × Nat),
      l.map ((fun e : (Nat × Nat × Nat) × Tri × Nat => (e.2.1, e.2.2)) ∘
        (fun x : Tri × Nat => (sort3 x.1.1 x.1.2.1 x.1.2.2, x.1, x.2))) = l := by
    intro l
    calc _ = l.map id := List.map_congr_left (fun x _ => rfl)
      _ = l := List.map_id _
  refine (hid _).trans ?_
  apply List.filter_congr
  intro e _
  simp only [Function.comp_apply, uniq, cls, faceKey]
  rw [List.filter_map, List.length_map]
  rfl

/-! ### sums over key classes -/

section ClassSum
variable {α κ M : Type} [BEq κ] [LawfulBEq κ] [AddCommMonoid M] (key : α → κ) (w : α → M)

theorem sum_filter_split (p : α → Bool) (l : List α) :
    (l.map w).sum = ((l.filter p).map w).sum + ((l.filter (fun e => !p e)).map w).sum := by
  induction l with
  | nil => simp
  | cons a t ih =>
    cases hp : p a
    · simp [hp, ih, add_left_comm]
    · simp [hp, ih, add_assoc]

theorem cls_cons_self (a : α) (t : List α) : a ∈ cls key (a :: t) (key a) := by
  simp [cls]

/-- the elements whose key is *not* unique contribute a sum that lies in any additively closed set `S` containing the
    sum of every key class that is not a singleton -/
theorem nonuniq_sum_mem (S : M → Prop) (h0 : S 0) (hadd : ∀ a b, S a → S b → S (a + b)) :
    ∀ (n : Nat) (l : List α), l.length ≤ n →
      (∀ k, (cls key l k).length = 1 ∨ S (((cls key l k).map w).sum)) →
      S (((l.filter (fun e => !uniq key l e)).map w).sum) := by
  intro n
  induction n with
  | zero =>
    intro l hl _
    have : l = [] := List.length_eq_zero_iff.mp (Nat.le_zero.mp hl)
    subst this; simpa using h0
  | succ n ih =>
    intro l hl hcls
    match l, hl, hcls with
    | [], _, _ => simpa using h0
    | a :: t, hl, hcls =>
      let L := a :: t
      let k := key a
      let p : α → Bool := fun e => key e == k
      let l' := L.filter (fun e => !p e)
      rw [sum_filter_split w p]
      apply hadd
      · -- the class of `k`
        have hc : (L.filter (fun e => !uniq key L e)).filter p
            = L.filter (fun e => p e && !((cls key L k).length == 1)) := by
          rw [List.filter_filter]
          apply List.filter_congr
          intro e _
          by_cases hpe : p e = true
          · have : key e = k := by simpa [p] using hpe
            rw [uniq_of_key_eq key this]
          · simp [hpe]
        rw [hc]
        cases hlen : ((cls key L k).length == 1)
        · have : L.filter (fun e => p e && !false) = cls key L k := by
            simp only [Bool.not_false, Bool.and_true]; rfl
          rw [this]
          rcases hcls k with h | h
          · simp [L, k, h] at hlen
          · exact h
        · simpa using h0
      · -- the other classes
        have hcls' : ∀ k', k' ≠ k → cls key l' k' = cls key L k' := by
          intro k' hk'
          simp only [cls, l', List.filter_filter]
          apply List.filter_congr
          intro e _
          by_cases he : key e = k'
          · simp [he, p, hk']
          · simp [he]
        have hcls0 : cls key l' k = [] := by
          simp only [cls, l', List.filter_filter, List.filter_eq_nil_iff]
          intro e _
          simp [p]
        have hc : (L.filter (fun e => !uniq key L e)).filter (fun e => !p e)
            = l'.filter (fun e => !uniq key l' e) := by
          simp only [l', List.filter_filter]
          apply List.filter_congr
          intro e _
          by_cases hpe : p e = true
          · simp [hpe]
          · have hne : key e ≠ k := by simpa [p] using hpe
            have hu : uniq key l' e = uniq key L e := by unfold uniq; rw [hcls' _ hne]
            change _ = (!uniq key l' e && !p e)
            rw [hu, Bool.and_comm]
        rw [hc]
        apply ih
        · have : l' = t.filter (fun e => !p e) := by
            simp [l', L, p, k]
          rw [this]
          exact (List.length_filter_le _ _).trans (Nat.le_of_succ_le_succ hl)
        · intro k'
          by_cases hk' : k' = k
          · subst hk'; right; rw [hcls0]; simpa using h0
          · rw [hcls' _ hk']; exact hcls k'

/-- sum of all = sum over the unique-key elements + a remainder in `S` -/
theorem sum_eq_uniq_add (S : M → Prop) (h0 : S 0) (hadd : ∀ a b, S a → S b → S (a + b)) (l : List α)
    (hcls : ∀ k, (cls key l k).length = 1 ∨ S (((cls key l k).map w).sum)) :
    ∃ r, S r ∧ (l.map w).sum = ((l.filter (uniq key l)).map w).sum + r :=
  ⟨_, nonuniq_sum_mem key w S h0 hadd l.length l (Nat.le_refl _) hcls, sum_filter_split w (uniq key l) l⟩

end ClassSum

theorem sum_map_ite_eq_countP {α : Type} (p : α → Bool) (l : List α) :
    (l.map (fun e => if p e then 1 else 0)).sum = l.countP p := by
  induction l with
  | nil => rfl
  | cons a t ih =>
    cases hp : p a <;> simp [hp, ih, Nat.add_comm]

theorem block_sum {M : Type} [AddCommMonoid M] (g : Tri → M) (ts : List Tet) (pick : Tet → Tri)
    (F : Tet × Nat → Tri × Nat) (hF : ∀ x, (F x).1 = pick x.1) :
    ((ts.zipIdx.map F).map (fun e : Tri × Nat => g e.1)) = ts.map (fun τ => g (pick τ)) := by
  rw [List.map_map]
  calc _ = (ts.zipIdx).map ((fun τ => g (pick τ)) ∘ Prod.fst) :=
        List.map_congr_left (fun x _ => by simp [hF])
    _ = _ := by rw [← List.map_map, List.zipIdx_map_fst]

/-- a sum over the face table is a sum over the tetrahedra of the four face terms -/
theorem allFaces_sum {M : Type} [AddCommMonoid M] (g : Tri → M) (ts : List Tet) :
    ((allFaces ts).map (fun e => g e.1)).sum = (ts.map (fun τ => ((tetFaces τ).map g).sum)).sum := by
  simp only [allFaces, List.map_append, List.sum_append, tetFaces, List.map_cons, List.map_nil, List.sum_cons,
    List.sum_nil, add_zero, List.sum_map_add, add_assoc]
  congr 1
  · refine congrArg _ (block_sum g ts _ _ ?_); intro x; rfl
  congr 1
  · refine congrArg _ (block_sum g ts _ _ ?_); intro x; rfl
  congr 1
  · refine congrArg _ (block_sum g ts _ _ ?_); intro x; rfl
  · refine congrArg _ (block_sum g ts _ _ ?_); intro x; rfl

end LapyVerif.TetLemmas
