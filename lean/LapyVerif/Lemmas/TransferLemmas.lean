import Mathlib.Tactic.Ring
import Mathlib.Tactic.Linarith
import Mathlib.Tactic.FieldSimp
import Mathlib.Algebra.BigOperators.Group.List.Basic
import Mathlib.Algebra.Order.BigOperators.Group.List
import LapyVerif.Lemmas.RealInst
import LapyVerif.Lemmas.Count
import LapyVerif.Model.Transfer
/-
  Helper lemmas for C15 (`map_tfunc_to_vfunc`, `map_vfunc_to_tfunc`, `smooth_vfunc`): componentwise reading of the row
  operations, single-column ("scalar") versions of the three maps, and the column-by-column correspondence between the
  list-of-rows model and the scalar versions.
-/
namespace LapyVerif
namespace TransferLemmas
open Transfer

/-- all rows have `cols` entries -/
def Rect (cols : Nat) (f : List (List ℝ)) : Prop := ∀ r ∈ f, r.length = cols
/-- column `k` of a list of rows -/
def col (k : Nat) (f : List (List ℝ)) : List ℝ := f.map (·.getD k 0)

theorem col_length (k : Nat) (f : List (List ℝ)) : (col k f).length = f.length := by simp [col]

theorem Rect.head {cols : Nat} {f : List (List ℝ)} (h : Rect cols f) (hne : f ≠ []) : (f.headD []).length = cols := by
  cases f with
  | nil => exact absurd rfl hne
  | cons r f => exact h r List.mem_cons_self

/-! ### row operations, componentwise -/

theorem length_rowAdd (a b : List ℝ) : (rowAdd a b).length = min a.length b.length := by simp [rowAdd]

theorem getD_rowAdd {a b : List ℝ} (h : a.length = b.length) (k : Nat) :
    (rowAdd a b).getD k 0 = a.getD k 0 + b.getD k 0 := by
  induction a generalizing b k with
  | nil =>
    cases b with
    | nil => simp [rowAdd]
    | cons y b => simp at h
  | cons x a ih =>
    cases b with
    | nil => simp at h
    | cons y b =>
      cases k with
      | zero => simp [rowAdd]
      | succ k =>
        have := ih (b := b) (by simpa using h) k
        simpa [rowAdd] using this

theorem getD_rowDiv (a : List ℝ) (c : ℝ) (k : Nat) : (rowDiv a c).getD k 0 = a.getD k 0 / c := by
  simp only [rowDiv, List.getD_eq_getElem?_getD, List.getElem?_map]
  cases a[k]? <;> simp

theorem getD_rowScale (a : List ℝ) (c : ℝ) (k : Nat) : (rowScale c a).getD k 0 = c * a.getD k 0 := by
  simp only [rowScale, List.getD_eq_getElem?_getD, List.getElem?_map]
  cases a[k]? <;> simp

theorem getD_map_mul (a : List ℝ) (c : ℝ) (k : Nat) : (a.map (· * c)).getD k 0 = a.getD k 0 * c := by
  simp only [List.getD_eq_getElem?_getD, List.getElem?_map]
  cases a[k]? <;> simp

theorem getD_rowZero (n k : Nat) : (rowZero n : List ℝ).getD k 0 = 0 := by
  simp only [rowZero, List.getD_eq_getElem?_getD, List.getElem?_replicate]
  split <;> simp

theorem length_rowZero (n : Nat) : (rowZero n : List ℝ).length = n := by simp [rowZero]
theorem length_rowDiv (a : List ℝ) (c : ℝ) : (rowDiv a c).length = a.length := by simp [rowDiv]
theorem length_rowScale (a : List ℝ) (c : ℝ) : (rowScale c a).length = a.length := by simp [rowScale]

/-! ### sums over `range` -/

theorem sum_range_indicator (a nv : Nat) (x : ℝ) :
    ((List.range nv).map fun i => if a = i then x else 0).sum = if a < nv then x else 0 := by
  induction nv with
  | zero => simp
  | succ n ih =>
    rw [List.range_succ, List.map_append, List.sum_append, ih]
    by_cases h1 : a < n
    · have : a ≠ n := by omega
      simp [h1, this, Nat.lt_succ_of_lt h1]
    · by_cases h2 : a = n
      · subst h2; simp
      · have : ¬ a < n + 1 := by omega
        simp [h1, h2, this]

theorem sum_map_add' {α : Type} (l : List α) (f g : α → ℝ) :
    (l.map fun x => f x + g x).sum = (l.map f).sum + (l.map g).sum := by
  induction l with
  | nil => simp
  | cons a l ih => simp only [List.map_cons, List.sum_cons, ih]; ring

theorem sum_map_mul_right' {α : Type} (l : List α) (f : α → ℝ) (c : ℝ) :
    (l.map fun x => f x * c).sum = (l.map f).sum * c := by
  induction l with
  | nil => simp
  | cons a l ih => simp only [List.map_cons, List.sum_cons, ih]; ring

theorem sum_map_mul_left' {α : Type} (l : List α) (f : α → ℝ) (c : ℝ) :
    (l.map fun x => c * f x).sum = c * (l.map f).sum := by
  induction l with
  | nil => simp
  | cons a l ih => simp only [List.map_cons, List.sum_cons, ih]; ring

theorem sum_map_div' {α : Type} (l : List α) (f : α → ℝ) (c : ℝ) :
    (l.map fun x => f x / c).sum = (l.map f).sum / c := by
  induction l with
  | nil => simp
  | cons a l ih => simp only [List.map_cons, List.sum_cons, ih]; ring

theorem sum_map_const' {α : Type} (l : List α) (c : ℝ) : (l.map fun _ => c).sum = (l.length : ℝ) * c := by
  induction l with
  | nil => simp
  | cons a l ih => simp only [List.map_cons, List.sum_cons, ih, List.length_cons]; push_cast; ring

/-! ### `t2v` -/

/-- number of corners of `τ` that are vertex `i` (as a real) -/
def corner (τ : Tri) (i : Nat) : ℝ :=
  (if τ.1 = i then 1 else 0) + (if τ.2.1 = i then 1 else 0) + (if τ.2.2 = i then 1 else 0)

/-- the (possibly area-weighted) rows that are scattered -/
noncomputable def wrows (vtx : Nat → V3 ℝ) (ts : List Tri) (tf : List (List ℝ)) (weighted : Bool) : List (List ℝ) :=
  (tf.zip (Measures.triAreas vtx ts)).map fun p => if weighted then p.1.map (· * p.2) else p.1

/-- the accumulation step for vertex `i` -/
def t2vStep (i : Nat) (acc : List ℝ) (p : Tri × List ℝ) : List ℝ :=
  let acc := if p.1.1 = i then rowAdd acc p.2 else acc
  let acc := if p.1.2.1 = i then rowAdd acc p.2 else acc
  if p.1.2.2 = i then rowAdd acc p.2 else acc

theorem t2v_eq (nv : Nat) (vtx : Nat → V3 ℝ) (ts : List Tri) (tf : List (List ℝ)) (w : Bool) :
    t2v nv vtx ts tf w = (List.range nv).map fun i =>
      rowDiv ((ts.zip (wrows vtx ts tf w)).foldl (t2vStep i) (rowZero (tf.headD []).length)) ((3 : Nat) : ℝ) := rfl

theorem condAdd_spec (b : Prop) [Decidable b] {cols : Nat} {acc r : List ℝ} (hacc : acc.length = cols)
    (hr : r.length = cols) (k : Nat) :
    (if b then rowAdd acc r else acc).length = cols ∧
      (if b then rowAdd acc r else acc).getD k 0 = acc.getD k 0 + (if b then 1 else 0) * r.getD k 0 := by
  by_cases h : b
  · simp only [h, ↓reduceIte, one_mul]
    exact ⟨by rw [length_rowAdd, hacc, hr, Nat.min_self], getD_rowAdd (hacc.trans hr.symm) k⟩
  · simp only [h, ↓reduceIte, zero_mul, add_zero]
    exact ⟨hacc, trivial⟩

theorem t2v_fold (i cols k : Nat) (L : List (Tri × List ℝ)) (hL : ∀ p ∈ L, p.2.length = cols) (acc : List ℝ)
    (hacc : acc.length = cols) :
    (L.foldl (t2vStep i) acc).length = cols ∧
      (L.foldl (t2vStep i) acc).getD k 0 = acc.getD k 0 + (L.map fun p => corner p.1 i * p.2.getD k 0).sum := by
  induction L generalizing acc with
  | nil => simp [hacc]
  | cons p L ih =>
    have hp := hL p List.mem_cons_self
    have hstep : (t2vStep i acc p).length = cols ∧
        (t2vStep i acc p).getD k 0 = acc.getD k 0 + corner p.1 i * p.2.getD k 0 := by
      obtain ⟨l1, g1⟩ := condAdd_spec (p.1.1 = i) hacc hp k
      obtain ⟨l2, g2⟩ := condAdd_spec (p.1.2.1 = i) l1 hp k
      obtain ⟨l3, g3⟩ := condAdd_spec (p.1.2.2 = i) l2 hp k
      refine ⟨l3, ?_⟩
      show (if p.1.2.2 = i then rowAdd _ p.2 else _).getD k 0 = _
      rw [g3, g2, g1]
      unfold corner
      ring
    obtain ⟨h1, h2⟩ := ih (fun q hq => hL q (List.mem_cons_of_mem _ hq)) (t2vStep i acc p) hstep.1
    rw [List.foldl_cons]
    refine ⟨h1, ?_⟩
    rw [h2, hstep.2, List.map_cons, List.sum_cons]
    ring

/-- the scalar weighted values -/
noncomputable def wvals (vtx : Nat → V3 ℝ) (ts : List Tri) (g : List ℝ) (weighted : Bool) : List ℝ :=
  (g.zip (Measures.triAreas vtx ts)).map fun p => if weighted then p.1 * p.2 else p.1

/-- single-column `map_tfunc_to_vfunc` -/
noncomputable def t2vScalar (nv : Nat) (vtx : Nat → V3 ℝ) (ts : List Tri) (g : List ℝ) (weighted : Bool) : List ℝ :=
  (List.range nv).map fun i => ((ts.zip (wvals vtx ts g weighted)).map fun p => corner p.1 i * p.2).sum / 3

theorem wrows_rect {cols : Nat} {tf : List (List ℝ)} (h : Rect cols tf) (vtx : Nat → V3 ℝ) (ts : List Tri) (w : Bool) :
    Rect cols (wrows vtx ts tf w) := by
  intro r hr
  unfold wrows at hr
  rw [List.mem_map] at hr
  obtain ⟨p, hp, rfl⟩ := hr
  have := h p.1 (List.of_mem_zip hp).1
  split <;> simp [this]

theorem col_wrows (k : Nat) (vtx : Nat → V3 ℝ) (ts : List Tri) (tf : List (List ℝ)) (w : Bool) :
    col k (wrows vtx ts tf w) = wvals vtx ts (col k tf) w := by
  unfold col wrows wvals
  rw [List.zip_map_left, List.map_map, List.map_map]
  apply List.map_congr_left
  intro p _
  cases w
  · rfl
  · show (p.1.map (· * p.2)).getD k 0 = p.1.getD k 0 * p.2
    exact getD_map_mul _ _ _

/-- **column-by-column correspondence for `t2v`** -/
theorem col_t2v {cols : Nat} (nv : Nat) (vtx : Nat → V3 ℝ) (ts : List Tri) {tf : List (List ℝ)} (h : Rect cols tf)
    (w : Bool) (k : Nat) : col k (t2v nv vtx ts tf w) = t2vScalar nv vtx ts (col k tf) w := by
  rw [t2v_eq]
  unfold t2vScalar col
  rw [List.map_map]
  apply List.map_congr_left
  intro i _
  simp only [Function.comp]
  rw [getD_rowDiv]
  have hrect := wrows_rect h vtx ts w
  by_cases hne : tf = []
  · subst hne
    simp [wrows, wvals, rowZero]
  · have hc := h.head hne
    obtain ⟨_, h2⟩ := t2v_fold i cols k (ts.zip (wrows vtx ts tf w))
      (fun p hp => hrect p.2 (List.of_mem_zip hp).2) (rowZero (tf.headD []).length) (by rw [length_rowZero, hc])
    rw [h2, getD_rowZero, zero_add]
    have e := col_wrows k vtx ts tf w
    unfold col at e
    rw [← e, List.zip_map_right, List.map_map]
    push_cast
    rfl

/-! ### `v2t` -/

theorem getD_map_nil (vf : List (List ℝ)) (f : List ℝ → List ℝ) (hf : f [] = []) (i : Nat) :
    (vf.map f).getD i [] = f (vf.getD i []) := by
  simp only [List.getD_eq_getElem?_getD, List.getElem?_map]
  cases vf[i]? <;> simp [hf]

theorem v2t_eq (ts : List Tri) (vf : List (List ℝ)) :
    v2t ts vf = ts.map fun τ =>
      rowAdd (rowAdd (rowDiv (vf.getD τ.1 []) ((3 : Nat) : ℝ)) (rowDiv (vf.getD τ.2.1 []) ((3 : Nat) : ℝ)))
        (rowDiv (vf.getD τ.2.2 []) ((3 : Nat) : ℝ)) := by
  unfold v2t
  simp only [getD_map_nil vf (fun r => rowDiv r ((3 : Nat) : ℝ)) (by simp [rowDiv])]

theorem getD_col (k : Nat) (f : List (List ℝ)) (j : Nat) : (col k f).getD j 0 = (f.getD j []).getD k 0 := by
  simp only [col, List.getD_eq_getElem?_getD, List.getElem?_map]
  cases f[j]? <;> simp

theorem Rect.getD {cols : Nat} {f : List (List ℝ)} (h : Rect cols f) {j : Nat} (hj : j < f.length) :
    (f.getD j []).length = cols := by
  rw [List.getD_eq_getElem?_getD, List.getElem?_eq_getElem hj]
  exact h _ (List.getElem_mem hj)

/-! ### `smooth1` -/

/-- the weight the code gives to every neighbour of `i`: `(1·a_i) · (1 / Σ_nb 1·a_i)` -/
noncomputable def wgt (sk : List (Nat × Nat)) (va : List ℝ) (i : Nat) : ℝ :=
  (((1 : Nat) : ℝ) * va.getD i 0) * (((1 : Nat) : ℝ) / ((rowNbrs sk i).map fun _ => ((1 : Nat) : ℝ) * va.getD i 0).sum)

theorem smooth1_eq (sk : List (Nat × Nat)) (va : List ℝ) (f : List (List ℝ)) :
    smooth1 sk va f = (List.range f.length).map fun i =>
      (rowNbrs sk i).foldl (fun acc j => rowAdd acc (rowScale (wgt sk va i) (f.getD j []))) (rowZero (f.headD []).length) :=
  rfl

theorem smooth_fold (cols k : Nat) (w : ℝ) (f : List (List ℝ)) (nb : List Nat)
    (hnb : ∀ j ∈ nb, (f.getD j []).length = cols) (acc : List ℝ) (hacc : acc.length = cols) :
    (nb.foldl (fun acc j => rowAdd acc (rowScale w (f.getD j []))) acc).length = cols ∧
      (nb.foldl (fun acc j => rowAdd acc (rowScale w (f.getD j []))) acc).getD k 0
        = acc.getD k 0 + (nb.map fun j => w * (f.getD j []).getD k 0).sum := by
  induction nb generalizing acc with
  | nil => simp [hacc]
  | cons j nb ih =>
    have hj := hnb j List.mem_cons_self
    have hl : (rowAdd acc (rowScale w (f.getD j []))).length = cols := by
      rw [length_rowAdd, length_rowScale, hacc, hj, Nat.min_self]
    obtain ⟨h1, h2⟩ := ih (fun q hq => hnb q (List.mem_cons_of_mem _ hq)) _ hl
    rw [List.foldl_cons]
    refine ⟨h1, ?_⟩
    rw [h2, getD_rowAdd (by rw [length_rowScale, hacc, hj]), getD_rowScale, List.map_cons, List.sum_cons]
    ring

/-- single-column `smooth1` -/
noncomputable def smooth1S (sk : List (Nat × Nat)) (va : List ℝ) (g : List ℝ) : List ℝ :=
  (List.range g.length).map fun i => ((rowNbrs sk i).map fun j => wgt sk va i * g.getD j 0).sum

/-- single-column `smooth` -/
noncomputable def smoothS (sk : List (Nat × Nat)) (va : List ℝ) (g : List ℝ) (n : Nat) : List ℝ :=
  (List.range (n - 1)).foldl (fun acc _ => smooth1S sk va acc) (smooth1S sk va g)

/-- every stored neighbour index is a valid row index -/
def NbrsInRange (sk : List (Nat × Nat)) (n : Nat) : Prop := ∀ i j, j ∈ rowNbrs sk i → j < n

theorem smooth1_length (sk : List (Nat × Nat)) (va : List ℝ) (f : List (List ℝ)) :
    (smooth1 sk va f).length = f.length := by simp [smooth1]

theorem smooth1S_length (sk : List (Nat × Nat)) (va : List ℝ) (g : List ℝ) :
    (smooth1S sk va g).length = g.length := by simp [smooth1S]

theorem smooth1_spec {cols : Nat} {sk : List (Nat × Nat)} (va : List ℝ) {f : List (List ℝ)} (hrect : Rect cols f)
    (hin : NbrsInRange sk f.length) (k : Nat) :
    Rect cols (smooth1 sk va f) ∧ col k (smooth1 sk va f) = smooth1S sk va (col k f) := by
  by_cases hne : f = []
  · subst hne
    refine ⟨?_, by simp [smooth1, smooth1S, col]⟩
    intro r hr; simp [smooth1] at hr
  have hc := hrect.head hne
  have key : ∀ i, ((rowNbrs sk i).foldl (fun acc j => rowAdd acc (rowScale (wgt sk va i) (f.getD j [])))
        (rowZero (f.headD []).length)).length = cols ∧
      ((rowNbrs sk i).foldl (fun acc j => rowAdd acc (rowScale (wgt sk va i) (f.getD j [])))
        (rowZero (f.headD []).length)).getD k 0
        = ((rowNbrs sk i).map fun j => wgt sk va i * (col k f).getD j 0).sum := by
    intro i
    obtain ⟨h1, h2⟩ := smooth_fold cols k (wgt sk va i) f (rowNbrs sk i)
      (fun j hj => hrect.getD (hin i j hj)) (rowZero (f.headD []).length) (by rw [length_rowZero, hc])
    refine ⟨h1, ?_⟩
    rw [h2, getD_rowZero, zero_add]
    simp only [getD_col]
  rw [smooth1_eq]
  constructor
  · intro r hr
    rw [List.mem_map] at hr
    obtain ⟨i, _, rfl⟩ := hr
    exact (key i).1
  · unfold smooth1S col
    rw [List.map_map, List.length_map]
    apply List.map_congr_left
    intro i _
    exact (key i).2

theorem smooth_spec {cols : Nat} {sk : List (Nat × Nat)} (va : List ℝ) {f : List (List ℝ)} (hrect : Rect cols f)
    (hin : NbrsInRange sk f.length) (k n : Nat) :
    Rect cols (smooth sk va f n) ∧ (smooth sk va f n).length = f.length ∧
      col k (smooth sk va f n) = smoothS sk va (col k f) n := by
  unfold smooth smoothS
  generalize List.range (n - 1) = l
  have h0 := smooth1_spec va hrect hin k
  have : ∀ (F : List (List ℝ)) (G : List ℝ), Rect cols F → F.length = f.length → col k F = G →
      Rect cols (l.foldl (fun acc _ => smooth1 sk va acc) F) ∧
      (l.foldl (fun acc _ => smooth1 sk va acc) F).length = f.length ∧
      col k (l.foldl (fun acc _ => smooth1 sk va acc) F) = l.foldl (fun acc _ => smooth1S sk va acc) G := by
    induction l with
    | nil => intro F G h1 h2 h3; exact ⟨h1, h2, h3⟩
    | cons a l ih =>
      intro F G h1 h2 h3
      rw [List.foldl_cons, List.foldl_cons]
      have hs := smooth1_spec va h1 (by rw [h2]; exact hin) k
      exact ih _ _ hs.1 (by rw [smooth1_length, h2]) (by rw [hs.2, h3])
  exact this _ _ h0.1 (smooth1_length _ _ _) h0.2

/-! ### the stored neighbours of a row -/

theorem mem_rowNbrs (sk : List (Nat × Nat)) (i j : Nat) : j ∈ rowNbrs sk i ↔ (i, j) ∈ sk := by
  unfold rowNbrs
  rw [List.mem_mergeSort, List.mem_map]
  constructor
  · rintro ⟨⟨a, b⟩, hk, rfl⟩
    rw [List.mem_filter, List.mem_eraseDups] at hk
    have : a = i := by simpa using hk.2
    subst this
    exact hk.1
  · intro h
    exact ⟨(i, j), List.mem_filter.2 ⟨List.mem_eraseDups.2 h, by simp⟩, rfl⟩

theorem nodup_rowNbrs (sk : List (Nat × Nat)) (i : Nat) : (rowNbrs sk i).Nodup := by
  unfold rowNbrs
  rw [(List.mergeSort_perm _ _).nodup_iff]
  apply List.Nodup.map_on
  · rintro ⟨a, b⟩ ha ⟨c, d⟩ hc hbd
    have h1 : a = i := by simpa using (List.mem_filter.1 ha).2
    have h2 : c = i := by simpa using (List.mem_filter.1 hc).2
    simp only at hbd
    rw [h1, h2, hbd]
  · exact (Lemmas.nodup_eraseDups sk).filter _

end TransferLemmas
end LapyVerif
