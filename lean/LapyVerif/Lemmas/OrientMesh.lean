import LapyVerif.Lemmas.OrientFlood
/-
  Mesh-level facts for C10: what the neighbour pairs of `orient_` are for an edge-manifold, orientable triangle list,
  and the reading of `isOriented (flipBy f ts)` as "no two triangles traverse an edge in the same direction".
-/
namespace LapyVerif
namespace OrientMesh
open Orient Topo OrientLemmas OrientFlood

/-- the three vertices of a triangle are pairwise different -/
def TriDistinct (τ : Tri) : Prop := τ.1 ≠ τ.2.1 ∧ τ.2.1 ≠ τ.2.2 ∧ τ.2.2 ≠ τ.1

/-- reverse the directed edge `x` iff `b` -/
def sw (b : Bool) (x : Nat × Nat) : Nat × Nat := if b then x.swap else x

def dirOf (b : Bool) (τ : Tri) : Tri := if b then swap01 τ else τ

theorem mem_dirEdges_swap01 (τ : Tri) (x : Nat × Nat) : x ∈ dirEdges (swap01 τ) ↔ x.swap ∈ dirEdges τ := by
  obtain ⟨t0, t1, t2⟩ := τ
  obtain ⟨p, q⟩ := x
  simp only [dirEdges, swap01, Prod.swap, List.mem_cons, Prod.mk.injEq, List.not_mem_nil, or_false]
  omega

theorem mem_dirEdges_dirOf (b : Bool) (τ : Tri) (x : Nat × Nat) : x ∈ dirEdges (dirOf b τ) ↔ sw b x ∈ dirEdges τ := by
  cases b
  · simp [dirOf, sw]
  · simp [dirOf, sw, mem_dirEdges_swap01]

theorem TriDistinct.swap01 {τ : Tri} (h : TriDistinct τ) : TriDistinct (swap01 τ) := by
  obtain ⟨t0, t1, t2⟩ := τ
  simp only [TriDistinct, Orient.swap01] at h ⊢
  omega

theorem TriDistinct.dirEdges_nodup {τ : Tri} (h : TriDistinct τ) : (dirEdges τ).Nodup := by
  obtain ⟨t0, t1, t2⟩ := τ
  simp only [TriDistinct] at h
  simp only [dirEdges, List.nodup_cons, List.mem_cons, Prod.mk.injEq, List.not_mem_nil, or_false, not_false_eq_true,
    List.nodup_nil, and_true]
  omega

/-- no directed edge is traversed by two different triangles after flipping the triangles selected by `f` -/
def OrientedBy (f : Nat → Bool) (ts : List Tri) : Prop :=
  ∀ A B (hA : A < ts.length) (hB : B < ts.length), A ≠ B →
    ∀ x, ¬ (sw (f A) x ∈ dirEdges ts[A] ∧ sw (f B) x ∈ dirEdges ts[B])

theorem flipBy_getElem' (f : Nat → Bool) (ts : List Tri) (k : Nat) (h : k < ts.length) (h' : k < (flipBy f ts).length) :
    (flipBy f ts)[k] = dirOf (f k) ts[k] := by
  rw [flipBy_getElem f ts k h]; rfl

theorem isOriented_flipBy_iff {ts : List Tri} (hd : ∀ τ ∈ ts, TriDistinct τ) (hne : ts ≠ []) (f : Nat → Bool) :
    isOriented (flipBy f ts) = true ↔ OrientedBy f ts := by
  have hlen := flipBy_length f ts
  rw [isOriented_iff, dirKeys_eq, List.nodup_flatMap, List.pairwise_iff_getElem]
  have hne' : flipBy f ts ≠ [] := by
    intro h; rw [h] at hlen; exact hne (List.length_eq_zero_iff.1 hlen.symm)
  have hnd : ∀ τ ∈ flipBy f ts, (dirEdges τ).Nodup := by
    intro τ hτ
    obtain ⟨k, hk, rfl⟩ := List.getElem_of_mem hτ
    rw [flipBy_getElem' f ts k (by omega)]
    have := hd ts[k] (List.getElem_mem _)
    unfold dirOf
    split
    · exact this.swap01.dirEdges_nodup
    · exact this.dirEdges_nodup
  constructor
  · rintro ⟨_, _, hp⟩ A B hA hB hAB x ⟨h1, h2⟩
    rw [← mem_dirEdges_dirOf, ← flipBy_getElem' f ts A hA (by omega)] at h1
    rw [← mem_dirEdges_dirOf, ← flipBy_getElem' f ts B hB (by omega)] at h2
    rcases Nat.lt_or_gt_of_ne hAB with hlt | hlt
    · exact hp A B (by omega) (by omega) hlt h1 h2
    · exact hp B A (by omega) (by omega) hlt h2 h1
  · intro h
    refine ⟨hne', hnd, ?_⟩
    intro A B hA hB hAB x h1 h2
    rw [flipBy_getElem' f ts A (by omega), mem_dirEdges_dirOf] at h1
    rw [flipBy_getElem' f ts B (by omega), mem_dirEdges_dirOf] at h2
    exact h A B (by omega) (by omega) (by omega) x ⟨h1, h2⟩

/-! ### rows of a triangle -/

theorem triRows_key (τ : Tri) (k : Nat) : (triRows τ k).map rowKey = undEdges τ := rfl

theorem triRows_dir {τ : Tri} (hτ : TriDistinct τ) {k : Nat} {r : Nat × Nat × Nat × Bool} (hr : r ∈ triRows τ k) :
    sw (!r.2.2.2) (r.1, r.2.1) ∈ dirEdges τ := by
  obtain ⟨t0, t1, t2⟩ := τ
  simp only [TriDistinct] at hτ
  simp only [triRows, List.mem_cons, List.not_mem_nil, or_false] at hr
  rcases hr with rfl | rfl | rfl
  · by_cases h : t0 < t1
    · simp [sw, dirEdges, h]; left; omega
    · simp [sw, dirEdges, h]; left; omega
  · by_cases h : t1 < t2
    · simp [sw, dirEdges, h]; right; left; omega
    · simp [sw, dirEdges, h]; right; left; omega
  · by_cases h : t2 < t0
    · simp [sw, dirEdges, h]; right; right; omega
    · simp [sw, dirEdges, h]; right; right; omega

theorem triRows_key_inj {τ : Tri} (hτ : TriDistinct τ) {k : Nat} {r r' : Nat × Nat × Nat × Bool}
    (hr : r ∈ triRows τ k) (hr' : r' ∈ triRows τ k) (hkey : rowKey r = rowKey r') : r = r' := by
  obtain ⟨t0, t1, t2⟩ := τ
  simp only [TriDistinct] at hτ
  simp only [triRows, List.mem_cons, List.not_mem_nil, or_false] at hr hr'
  rcases hr with rfl | rfl | rfl <;> rcases hr' with rfl | rfl | rfl <;>
    first
    | rfl
    | (exfalso; simp only [rowKey, Prod.mk.injEq] at hkey; omega)

theorem triRows_nodup {τ : Tri} (hτ : TriDistinct τ) (k : Nat) : (triRows τ k).Nodup := by
  obtain ⟨t0, t1, t2⟩ := τ
  simp only [TriDistinct] at hτ
  simp only [triRows, List.nodup_cons, List.mem_cons, Prod.mk.injEq, List.not_mem_nil, or_false, not_false_eq_true,
    List.nodup_nil, and_true]
  omega

theorem halfEdgeRows_nodup {ts : List Tri} (hd : ∀ τ ∈ ts, TriDistinct τ) : (halfEdgeRows ts).Nodup := by
  rw [halfEdgeRows_eq, List.nodup_flatMap]
  constructor
  · intro p hp
    exact triRows_nodup (hd _ (List.fst_mem_of_mem_zipIdx hp)) _
  · have h1 : (ts.zipIdx.map Prod.snd).Nodup := by
      rw [List.zipIdx_map_snd]; exact List.nodup_range'
    rw [List.Nodup, List.pairwise_map] at h1
    refine h1.imp ?_
    intro p q hpq r hr1 hr2
    exact hpq ((idx_of_mem_triRows hr1).symm.trans (idx_of_mem_triRows hr2))

/-- a row of the table belongs to the triangle whose index it carries -/
theorem row_info {ts : List Tri} {r : Nat × Nat × Nat × Bool} (hr : r ∈ halfEdgeRows ts) :
    ∃ (hk : r.2.2.1 < ts.length), r ∈ triRows ts[r.2.2.1] r.2.2.1 := by
  obtain ⟨k, τ, hk, hr'⟩ := mem_halfEdgeRows.1 hr
  have := idx_of_mem_triRows hr'
  obtain ⟨hk1, hk2⟩ := List.getElem?_eq_some_iff.1 hk
  subst this
  exact ⟨hk1, hk2 ▸ hr'⟩

theorem mem_rowsAt {rows : List (Nat × Nat × Nat × Bool)} {e : Nat × Nat} {r : Nat × Nat × Nat × Bool} :
    r ∈ rowsAt rows e ↔ r ∈ rows ∧ rowKey r = e := by
  rw [rowsAt_eq, List.mem_filter, beq_iff_eq]

/-- a row with key `e` exists in the table for every triangle having the undirected edge `e` -/
theorem exists_row {ts : List Tri} {A : Nat} (hA : A < ts.length) {e : Nat × Nat} (he : e ∈ undEdges ts[A]) :
    ∃ r, r ∈ rowsAt (halfEdgeRows ts) e ∧ r.2.2.1 = A := by
  rw [← triRows_key ts[A] A, List.mem_map] at he
  obtain ⟨r, hr, hkey⟩ := he
  refine ⟨r, mem_rowsAt.2 ⟨mem_halfEdgeRows.2 ⟨A, ts[A], List.getElem?_eq_getElem hA, hr⟩, hkey⟩, idx_of_mem_triRows hr⟩

theorem pair_of_nodup {α : Type} {l : List α} (hnd : l.Nodup) (hlen : l.length ≤ 2) {x y : α} (hx : x ∈ l) (hy : y ∈ l)
    (hxy : x ≠ y) : l = [x, y] ∨ l = [y, x] := by
  match l, hnd, hlen, hx, hy with
  | [], _, _, hx, _ => cases hx
  | [z], _, _, hx, hy =>
    simp only [List.mem_singleton] at hx hy
    exact absurd (hx.trans hy.symm) hxy
  | [z, w], _, _, hx, hy =>
    simp only [List.mem_cons, List.not_mem_nil, or_false] at hx hy
    rcases hx with rfl | rfl <;> rcases hy with rfl | rfl
    · exact absurd rfl hxy
    · exact Or.inl rfl
    · exact Or.inr rfl
    · exact absurd rfl hxy
  | _ :: _ :: _ :: _, _, hlen, _, _ => simp at hlen

/-! ### the neighbour pairs of an edge-manifold, orientable triangle list -/

/-- the signed neighbour pairs computed by `orient_` -/
abbrev pairsOf (ts : List Tri) : List (Nat × Nat × Int) :=
  neighbourPairs (halfEdgeRows ts) (edgeCounts (halfEdgeRows ts))

/-- `-1` for the triangles flipped by the witness, `+1` for the others -/
def sgnOf (s : Nat → Bool) (k : Nat) : Int := if s k then -1 else 1

/-- hypotheses on the mesh: distinct vertices per triangle, every undirected edge in at most two triangles,
    `s` is an orientation witness -/
structure MeshOK (ts : List Tri) (s : Nat → Bool) : Prop where
  distinct : ∀ τ ∈ ts, TriDistinct τ
  manifold : ∀ e, (undKeys ts).count e ≤ 2
  oriented : OrientedBy s ts

/-- triangles `A` and `B` have a common undirected edge -/
def Share (ts : List Tri) (A B : Nat) : Prop :=
  ∃ (hA : A < ts.length) (hB : B < ts.length) (e : Nat × Nat), e ∈ undEdges ts[A] ∧ e ∈ undEdges ts[B]

theorem rowsAt_nodup {ts : List Tri} (hd : ∀ τ ∈ ts, TriDistinct τ) (e : Nat × Nat) :
    (rowsAt (halfEdgeRows ts) e).Nodup := (halfEdgeRows_nodup hd).filter _

/-- anatomy of a neighbour pair: two rows of two different triangles with the same key -/
theorem pair_anatomy {ts : List Tri} (hd : ∀ τ ∈ ts, TriDistinct τ) {p : Nat × Nat × Int} (hp : p ∈ pairsOf ts) :
    ∃ (e : Nat × Nat) (a b : Nat × Nat × Nat × Bool) (hA : a.2.2.1 < ts.length) (hB : b.2.2.1 < ts.length),
      a ∈ triRows ts[a.2.2.1] a.2.2.1 ∧ b ∈ triRows ts[b.2.2.1] b.2.2.1 ∧ rowKey a = e ∧ rowKey b = e ∧
      a.2.2.1 ≠ b.2.2.1 ∧ p = (a.2.2.1, b.2.2.1, if a.2.2.2 != b.2.2.2 then 1 else -1) := by
  obtain ⟨kc, a, b, _, _, hab, rfl⟩ := mem_neighbourPairs hp
  have ha : a ∈ rowsAt (halfEdgeRows ts) kc.1 := by rw [hab]; simp
  have hb : b ∈ rowsAt (halfEdgeRows ts) kc.1 := by rw [hab]; simp
  obtain ⟨ha1, ha2⟩ := mem_rowsAt.1 ha
  obtain ⟨hb1, hb2⟩ := mem_rowsAt.1 hb
  obtain ⟨hA, hra⟩ := row_info ha1
  obtain ⟨hB, hrb⟩ := row_info hb1
  have hnd := rowsAt_nodup hd kc.1
  rw [hab] at hnd
  have hne : a ≠ b := by
    intro h; rw [h] at hnd; simp at hnd
  refine ⟨kc.1, a, b, hA, hB, hra, hrb, ha2, hb2, ?_, rfl⟩
  intro hidx
  apply hne
  have hrb' : b ∈ triRows ts[a.2.2.1] a.2.2.1 := by
    have := hrb
    simp only [← hidx] at this
    exact this
  exact triRows_key_inj (hd _ (List.getElem_mem _)) hra hrb' (ha2.trans hb2.symm)

theorem share_of_pair {ts : List Tri} (hd : ∀ τ ∈ ts, TriDistinct τ) {p : Nat × Nat × Int} (hp : p ∈ pairsOf ts) :
    p.1 ≠ p.2.1 ∧ Share ts p.1 p.2.1 := by
  obtain ⟨e, a, b, hA, hB, hra, hrb, ha2, hb2, hne, rfl⟩ := pair_anatomy hd hp
  refine ⟨hne, hA, hB, e, ?_, ?_⟩
  · rw [← triRows_key ts[a.2.2.1] a.2.2.1, ← ha2]; exact List.mem_map_of_mem hra
  · rw [← triRows_key ts[b.2.2.1] b.2.2.1, ← hb2]; exact List.mem_map_of_mem hrb

/-- `pair_sign`: the stored sign is `+1` iff both or neither triangle is flipped by the orientation witness -/
theorem pair_sign {ts : List Tri} {s : Nat → Bool} (h : MeshOK ts s) {p : Nat × Nat × Int} (hp : p ∈ pairsOf ts) :
    p.2.2 = sgnOf s p.1 * sgnOf s p.2.1 := by
  obtain ⟨e, a, b, hA, hB, hra, hrb, ha2, hb2, hne, rfl⟩ := pair_anatomy h.distinct hp
  have hda := triRows_dir (h.distinct _ (List.getElem_mem _)) hra
  have hdb := triRows_dir (h.distinct _ (List.getElem_mem _)) hrb
  have ea : (a.1, a.2.1) = e := ha2
  have eb : (b.1, b.2.1) = e := hb2
  rw [ea] at hda
  rw [eb] at hdb
  have k1 := h.oriented _ _ hA hB hne e
  have k2 := h.oriented _ _ hA hB hne e.swap
  obtain ⟨a1, a2, ak, ad⟩ := a
  obtain ⟨b1, b2, bk, bd⟩ := b
  obtain ⟨e1, e2⟩ := e
  simp only at hda hdb k1 k2 ⊢
  simp only [sgnOf]
  cases ad <;> cases bd <;> cases hsA : s ak <;> cases hsB : s bk <;> simp_all [sw]

theorem pairsOK {ts : List Tri} {s : Nat → Bool} (h : MeshOK ts s) : PairsOK ts.length (pairsOf ts) (sgnOf s) where
  sgn := by intro k; unfold sgnOf; split <;> simp
  lt := fun _ hp => pairs_idx_lt hp
  ne := fun _ hp => (share_of_pair h.distinct hp).1
  w := fun _ hp => pair_sign h hp

theorem share_of_adj {ts : List Tri} (hd : ∀ τ ∈ ts, TriDistinct τ) {A B : Nat} (h : Adj (pairsOf ts) A B) :
    A ≠ B ∧ Share ts A B := by
  obtain ⟨p, hp, hk⟩ := h
  obtain ⟨h1, hA, hB, e, he1, he2⟩ := share_of_pair hd hp
  rcases hk with ⟨rfl, rfl⟩ | ⟨rfl, rfl⟩
  · exact ⟨h1, hA, hB, e, he1, he2⟩
  · exact ⟨h1.symm, hB, hA, e, he2, he1⟩

theorem mem_neighbourPairs_of {rows : List (Nat × Nat × Nat × Bool)} {counts : List ((Nat × Nat) × Nat)}
    {kc : (Nat × Nat) × Nat} {a b : Nat × Nat × Nat × Bool} (hkc : kc ∈ counts) (h2 : kc.2 = 2)
    (hab : rowsAt rows kc.1 = [a, b]) :
    (a.2.2.1, b.2.2.1, if a.2.2.2 != b.2.2.2 then 1 else -1) ∈ neighbourPairs rows counts := by
  unfold neighbourPairs
  rw [List.mem_filterMap]
  refine ⟨kc, List.mem_filter.2 ⟨hkc, by simp [h2]⟩, ?_⟩
  have : rows.filter (fun r => r.1 == kc.1.1 && r.2.1 == kc.1.2) = [a, b] := hab
  rw [this]

/-- two different triangles with a common edge: that edge has exactly two rows, and they are neighbours -/
theorem adj_of_share {ts : List Tri} {s : Nat → Bool} (h : MeshOK ts s) {A B : Nat} (hAB : A ≠ B) (hs : Share ts A B) :
    Adj (pairsOf ts) A B ∧ 2 ∈ (edgeCounts (halfEdgeRows ts)).map (·.2) := by
  obtain ⟨hA, hB, e, heA, heB⟩ := hs
  obtain ⟨rA, hrA, hiA⟩ := exists_row hA heA
  obtain ⟨rB, hrB, hiB⟩ := exists_row hB heB
  have hne : rA ≠ rB := by
    intro h; rw [h] at hiA; exact hAB (hiA.symm.trans hiB)
  have hlen : (rowsAt (halfEdgeRows ts) e).length ≤ 2 := by
    rw [rowsAt_length, rowKeys_halfEdgeRows]; exact h.manifold e
  have hmemU : e ∈ undKeys ts := by
    unfold undKeys; rw [List.mem_flatMap]; exact ⟨ts[A], List.getElem_mem _, heA⟩
  have hcase := pair_of_nodup (rowsAt_nodup h.distinct e) hlen hrA hrB hne
  have hcnt : (undKeys ts).count e = 2 := by
    rw [← rowKeys_halfEdgeRows, ← rowsAt_length]
    rcases hcase with h | h <;> rw [h] <;> rfl
  have hkc : (e, 2) ∈ edgeCounts (halfEdgeRows ts) := by
    rw [edgeCounts_eq, List.mem_map]
    exact ⟨e, List.mem_eraseDups.2 hmemU, by rw [hcnt]⟩
  refine ⟨?_, List.mem_map.2 ⟨(e, 2), hkc, rfl⟩⟩
  rcases hcase with hc | hc
  · refine ⟨_, mem_neighbourPairs_of (kc := (e, 2)) hkc rfl hc, Or.inl ⟨hiA, hiB⟩⟩
  · refine ⟨_, mem_neighbourPairs_of (kc := (e, 2)) hkc rfl hc, Or.inr ⟨hiB, hiA⟩⟩

/-! ### `tdim` and the count check -/

theorem le_foldl_pairs_init (pairs : List (Nat × Nat × Int)) (m : Nat) :
    m ≤ pairs.foldl (fun m p => max m (max p.1 p.2.1)) m := by
  induction pairs generalizing m with
  | nil => exact Nat.le_refl _
  | cons p ps ih =>
    rw [List.foldl_cons]
    exact Nat.le_trans (Nat.le_max_left _ _) (ih _)

theorem le_foldl_pairs (pairs : List (Nat × Nat × Int)) (m : Nat) {p : Nat × Nat × Int} (hp : p ∈ pairs) :
    max p.1 p.2.1 ≤ pairs.foldl (fun m p => max m (max p.1 p.2.1)) m := by
  induction pairs generalizing m with
  | nil => cases hp
  | cons q ps ih =>
    rw [List.foldl_cons]
    rcases List.mem_cons.1 hp with rfl | hp'
    · exact Nat.le_trans (Nat.le_max_right _ _) (le_foldl_pairs_init _ _)
    · exact ih _ hp'

/-- every triangle shares an edge with another one -/
def AllShare (ts : List Tri) : Prop := ∀ A, A < ts.length → ∃ B, B ≠ A ∧ Share ts A B

theorem tdim_eq {ts : List Tri} {s : Nat → Bool} (h : MeshOK ts s) (hne : ts ≠ []) (hall : AllShare ts) :
    (pairsOf ts).foldl (fun m p => max m (max p.1 p.2.1)) 0 + 1 = ts.length := by
  have hpos : 0 < ts.length := List.length_pos_iff.2 hne
  have hle := foldl_pairs_lt (pairsOf ts) 0 ts.length hpos (fun p hp => pairs_idx_lt hp)
  obtain ⟨B, hB, hsh⟩ := hall (ts.length - 1) (by omega)
  obtain ⟨⟨p, hp, hk⟩, _⟩ := adj_of_share h (Ne.symm hB) hsh
  have := le_foldl_pairs (pairsOf ts) 0 hp
  rcases hk with ⟨h1, _⟩ | ⟨_, h1⟩ <;> omega

theorem check_passes {ts : List Tri} {s : Nat → Bool} (h : MeshOK ts s) (hne : ts ≠ []) (hall : AllShare ts) :
    (maxL ((edgeCounts (halfEdgeRows ts)).map (·.2)) != 2 || ((edgeCounts (halfEdgeRows ts)).map (·.2)).any (· < 1))
      = false := by
  have hpos : 0 < ts.length := List.length_pos_iff.2 hne
  obtain ⟨B, hB, hsh⟩ := hall 0 hpos
  obtain ⟨_, h2⟩ := adj_of_share h (Ne.symm hB) hsh
  have hmax : maxL ((edgeCounts (halfEdgeRows ts)).map (·.2)) = 2 := by
    apply Nat.le_antisymm
    · rw [maxL_le]
      intro x hx
      obtain ⟨k, _, rfl⟩ := (mem_cs ts x).1 hx
      exact h.manifold k
    · exact le_maxL h2
  rw [Bool.or_eq_false_iff]
  constructor
  · simp [hmax]
  · rw [List.any_eq_false]
    intro x hx
    obtain ⟨k, hk, rfl⟩ := (mem_cs ts x).1 hx
    have := List.count_pos_iff.2 hk
    simp; omega

/-- the first column is not full as soon as some triangle other than triangle 0 has no edge in common with it -/
theorem column0_short {ts : List Tri} {s : Nat → Bool} (h : MeshOK ts s) {k : Nat} (hk0 : k ≠ 0) (hk : k < ts.length)
    (hns : ¬ Share ts k 0) : (column ts.length (pairsOf ts) 0).length < ts.length := by
  have hidx := column_idxOK ts.length (pairsOf ts) 0
  have hnot : k ∉ supp (column ts.length (pairsOf ts) 0) := by
    intro hmem
    obtain ⟨x, hx⟩ := mem_supp.1 hmem
    rcases ((mem_column (pairsOK h) (by omega) k x).1 hx).1 with h0 | hadj
    · exact hk0 h0
    · exact hns (share_of_adj h.distinct hadj).2
  have hsub : (k :: supp (column ts.length (pairsOf ts) 0)) ⊆ List.range ts.length := by
    intro j hj
    rcases List.mem_cons.1 hj with rfl | hj
    · exact List.mem_range.2 hk
    · exact hidx.subset hj
  have := (List.subperm_of_subset (List.nodup_cons.2 ⟨hnot, hidx.nodup⟩) hsub).length_le
  simp [supp] at this
  omega

/-! ### from the flooded vector to an oriented list -/

theorem undEdge_of_dirEdge {τ : Tri} {y : Nat × Nat} (hy : y ∈ dirEdges τ) : (min y.1 y.2, max y.1 y.2) ∈ undEdges τ := by
  obtain ⟨t0, t1, t2⟩ := τ
  simp only [dirEdges, List.mem_cons, List.not_mem_nil, or_false] at hy
  rcases hy with rfl | rfl | rfl <;> simp [undEdges]

theorem undEdge_of_sw {τ : Tri} {b : Bool} {x : Nat × Nat} (hx : sw b x ∈ dirEdges τ) :
    (min x.1 x.2, max x.1 x.2) ∈ undEdges τ := by
  have := undEdge_of_dirEdge hx
  cases b
  · simpa [sw] using this
  · simpa [sw, Nat.min_comm, Nat.max_comm] using this

/-- a selection `f` that agrees with the witness `s` up to a sign which is the same for any two triangles with a common
    edge also orients the list -/
theorem orientedBy_of_agree {ts : List Tri} {s : Nat → Bool} (h : MeshOK ts s) {f : Nat → Bool}
    (hf : ∀ A B, A ≠ B → Share ts A B → (f A = f B ↔ s A = s B)) : OrientedBy f ts := by
  intro A B hA hB hAB x ⟨h1, h2⟩
  have hfa := hf A B hAB ⟨hA, hB, _, undEdge_of_sw h1, undEdge_of_sw h2⟩
  have k1 := h.oriented A B hA hB hAB x
  have k2 := h.oriented A B hA hB hAB x.swap
  obtain ⟨p, q⟩ := x
  cases hfA : f A <;> cases hfB : f B <;> cases hsA : s A <;> cases hsB : s B <;> simp_all [sw]

/-- indices stored with the value `-1` -/
def negOf (v : SVec) : List Nat := (v.filter fun e => e.2 == -1).map (·.1)

theorem mem_negOf {n : Nat} {v : SVec} (hv : IdxOK n v) {k : Nat} {x : Int} (hk : (k, x) ∈ v) : k ∈ negOf v ↔ x = -1 := by
  unfold negOf
  rw [List.mem_map]
  constructor
  · rintro ⟨⟨k', y⟩, he, rfl⟩
    rw [List.mem_filter] at he
    have hy : y = -1 := by simpa using he.2
    have e1 := get_of_mem hv.nodup hk
    have e2 := get_of_mem hv.nodup he.1
    rw [← e1, e2, hy]
  · rintro rfl
    exact ⟨(k, -1), List.mem_filter.2 ⟨hk, by simp⟩, rfl⟩

theorem full_support {n : Nat} {v : SVec} (hv : IdxOK n v) (hlen : v.length = n) {k : Nat} (hk : k < n) :
    ∃ x, (k, x) ∈ v := by
  have : v.map (·.1) = List.range n := hv.eq_of_length (by simp [hlen])
  apply mem_supp.1
  unfold supp
  rw [this]
  exact List.mem_range.2 hk

theorem agree_arith {bA bB : Bool} {c x y : Int} (hc : c = 1 ∨ c = -1) (hx : x = 1 ∨ x = -1) (hy : y = 1 ∨ y = -1)
    (ix : 0 < (if bA = true then (-1 : Int) else 1) * c * x) (iy : 0 < (if bB = true then (-1 : Int) else 1) * c * y) :
    (x = -1 ↔ y = -1) ↔ bA = bB := by
  rcases hc with rfl | rfl <;> rcases hx with rfl | rfl <;> rcases hy with rfl | rfl <;>
    cases bA <;> cases bB <;> revert ix iy <;> decide

theorem negOf_agree {n : Nat} {pairs : List (Nat × Nat × Int)} {s : Nat → Bool} {g : Nat → Int} {v : SVec}
    (hv : IdxOK n v) (hlen : v.length = n) (hg : Gauge pairs g) (hinv : Inv (sgnOf s) g v) (hnorm : Norm v)
    {A B : Nat} (hA : A < n) (hB : B < n) (hgAB : g A = g B) :
    (decide (A ∈ negOf v) = decide (B ∈ negOf v)) ↔ s A = s B := by
  obtain ⟨x, hx⟩ := full_support hv hlen hA
  obtain ⟨y, hy⟩ := full_support hv hlen hB
  have ix := hinv _ hx
  have iy := hinv _ hy
  have nx := hnorm _ hx
  have ny := hnorm _ hy
  simp only at ix iy nx ny
  rw [Bool.eq_iff_iff, decide_eq_true_iff, decide_eq_true_iff, mem_negOf hv hx, mem_negOf hv hy]
  rw [← hgAB] at iy
  unfold sgnOf at ix iy
  exact agree_arith (hg.sgn A) nx ny ix iy

/-- what `consistent` returns when the mesh is not yet oriented, the count check passes and the flood returns `v` -/
theorem consistent_eq_of_flood {ts : List Tri} (hor : isOriented ts = false)
    (hchk : (maxL ((edgeCounts (halfEdgeRows ts)).map (·.2)) != 2 ||
      ((edgeCounts (halfEdgeRows ts)).map (·.2)).any (· < 1)) = false) {v : SVec}
    (hfl : flood ((pairsOf ts).foldl (fun m p => max m (max p.1 p.2.1)) 0 + 1) (pairsOf ts)
      (2 * ((pairsOf ts).foldl (fun m p => max m (max p.1 p.2.1)) 0 + 1) + 2)
      (column ((pairsOf ts).foldl (fun m p => max m (max p.1 p.2.1)) 0 + 1) (pairsOf ts) 0) 0 = some v) :
    consistent ts = some (some (flipBy (fun k => decide (k ∈ negOf v)) ts, (negOf v).length)) := by
  unfold consistent
  rw [if_neg (by simp [hor])]
  dsimp only
  rw [if_neg (by rw [hchk]; simp), hfl]
  simp [flipBy, negOf, List.contains_eq_mem]

/-- **Core of part 4.**  For an edge-manifold list of proper triangles with orientation witness `s`, in which every
    triangle has a neighbour, phase 1 terminates and returns an oriented list — provided the very first column is not
    already a full, un-normalised vector (see `Props/C10.lean` for the counterexample without this proviso). -/
theorem consistent_oriented_core {ts : List Tri} {s : Nat → Bool} (h : MeshOK ts s) (hne : ts ≠ []) (hall : AllShare ts)
    (h0 : Norm (column ts.length (pairsOf ts) 0) ∨ (column ts.length (pairsOf ts) 0).length < ts.length) :
    ∃ ts' n, consistent ts = some (some (ts', n)) ∧ isOriented ts' = true := by
  by_cases hor : isOriented ts = true
  · exact ⟨ts, 0, by simp [consistent, hor], hor⟩
  · have hpos : 0 < ts.length := List.length_pos_iff.2 hne
    obtain ⟨v, hfl, hidx, hlen, ⟨g, hg, hinv⟩, hnorm⟩ := flood_spec (pairsOK h) hpos h0
    rw [← tdim_eq h hne hall] at hfl
    refine ⟨_, _, consistent_eq_of_flood (by simpa using hor) (check_passes h hne hall) hfl, ?_⟩
    rw [isOriented_flipBy_iff h.distinct hne]
    apply orientedBy_of_agree h
    intro A B hAB hsh
    obtain ⟨hadj, _⟩ := adj_of_share h hAB hsh
    obtain ⟨hA, hB, _⟩ := hsh
    exact negOf_agree hidx hlen hg hinv hnorm hA hB (hg.adj hadj)

end OrientMesh
end LapyVerif
