import LapyVerif.Lemmas.RealInst
/- projection lemmas for `V3` (used to turn vector expressions into coordinates before `ring`) -/
namespace LapyVerif.V3
variable {K : Type}

@[simp] theorem sub_x [Sub K] (a b : V3 K) : (a - b).x = a.x - b.x := rfl
@[simp] theorem sub_y [Sub K] (a b : V3 K) : (a - b).y = a.y - b.y := rfl
@[simp] theorem sub_z [Sub K] (a b : V3 K) : (a - b).z = a.z - b.z := rfl
@[simp] theorem add_x [Add K] (a b : V3 K) : (a + b).x = a.x + b.x := rfl
@[simp] theorem add_y [Add K] (a b : V3 K) : (a + b).y = a.y + b.y := rfl
@[simp] theorem add_z [Add K] (a b : V3 K) : (a + b).z = a.z + b.z := rfl
@[simp] theorem neg_x [Neg K] (a : V3 K) : (-a).x = -a.x := rfl
@[simp] theorem neg_y [Neg K] (a : V3 K) : (-a).y = -a.y := rfl
@[simp] theorem neg_z [Neg K] (a : V3 K) : (-a).z = -a.z := rfl
@[simp] theorem smul_x [Mul K] (c : K) (a : V3 K) : (smul c a).x = c * a.x := rfl
@[simp] theorem smul_y [Mul K] (c : K) (a : V3 K) : (smul c a).y = c * a.y := rfl
@[simp] theorem smul_z [Mul K] (c : K) (a : V3 K) : (smul c a).z = c * a.z := rfl
@[simp] theorem cross_x [Sub K] [Mul K] (a b : V3 K) : (cross a b).x = a.y * b.z - a.z * b.y := rfl
@[simp] theorem cross_y [Sub K] [Mul K] (a b : V3 K) : (cross a b).y = a.z * b.x - a.x * b.z := rfl
@[simp] theorem cross_z [Sub K] [Mul K] (a b : V3 K) : (cross a b).z = a.x * b.y - a.y * b.x := rfl
@[simp] theorem mk_x (a b c : K) : (V3.mk a b c).x = a := rfl
@[simp] theorem mk_y (a b c : K) : (V3.mk a b c).y = b := rfl
@[simp] theorem mk_z (a b c : K) : (V3.mk a b c).z = c := rfl

@[ext] theorem ext' {a b : V3 K} (hx : a.x = b.x) (hy : a.y = b.y) (hz : a.z = b.z) : a = b := by
  cases a; cases b; simp_all

end LapyVerif.V3
