import Mathlib.Tactic.Linarith
import Mathlib.Tactic.Positivity
import LapyVerif.Lemmas.Assembly
import LapyVerif.Spec.Grad
/-
  Per-triangle identities behind C01/C02 (one generic element, all real coordinates) and their lift to
  every element list.
-/
namespace LapyVerif
open V3

/-- complement of the code's own guard `vol < sys.float_info.epsilon` on every triangle -/
def NonDegenTri (vtx : Nat → V3 ℝ) (ts : List Tri) : Prop :=
  ∀ τ ∈ ts, ¬ (Fem.triVol (vtx τ.1) (vtx τ.2.1) (vtx τ.2.2) < epsK)

namespace FemTri

/-- the three vectors `cr` used by the code and the spec normal are the same vector -/
theorem triCr_eq_triN (v1 v2 v3 : V3 ℝ) : Fem.triCr v1 v2 v3 = Spec.triN v1 v2 v3 := by
  apply V3.ext' <;> (simp only [Fem.triCr, Spec.triN]; v3_flat; ring)

theorem triVol_eq (v1 v2 v3 : V3 ℝ) : Fem.triVol v1 v2 v3 = 4 * Spec.triArea v1 v2 v3 := by
  simp only [Fem.triVol, Spec.triArea, triCr_eq_triN, sqrt_real]; push_cast; ring

theorem normSq_pos_of_nondegen (v1 v2 v3 : V3 ℝ) (h : ¬ (Fem.triVol v1 v2 v3 < epsK)) :
    0 < normSq (Spec.triN v1 v2 v3) := by
  have h1 : epsK ≤ Fem.triVol v1 v2 v3 := not_lt.mp h
  have h2 : (0 : ℝ) < Fem.triVol v1 v2 v3 := lt_of_lt_of_le epsK_pos h1
  rw [Fem.triVol, triCr_eq_triN, sqrt_real] at h2
  have h3 : 0 < Real.sqrt (normSq (Spec.triN v1 v2 v3)) := by
    by_contra hc
    have : Real.sqrt (normSq (Spec.triN v1 v2 v3)) = 0 :=
      le_antisymm (not_lt.mp hc) (Real.sqrt_nonneg _)
    rw [this] at h2; simp at h2
  exact Real.sqrt_pos.mp h3

theorem area_pos_of_nondegen (v1 v2 v3 : V3 ℝ) (h : ¬ (Fem.triVol v1 v2 v3 < epsK)) :
    0 < Spec.triArea v1 v2 v3 := by
  have := normSq_pos_of_nondegen v1 v2 v3 h
  unfold Spec.triArea
  have := Real.sqrt_pos.mpr this
  positivity

/-- Lagrange: `(n×F)·(n×G) = |n|² F·G − (n·F)(n·G)` -/
theorem lagrange (n F G : V3 ℝ) : dot (cross n F) (cross n G) = normSq n * dot F G - dot n F * dot n G := by
  v3_flat; ring

/-- form of the stiffness block of one triangle = area × ∇f·∇g -/
theorem local_form (v1 v2 v3 : V3 ℝ) (t1 t2 t3 : Nat) (f g : Nat → ℝ)
    (hN : 0 < normSq (Spec.triN v1 v2 v3)) :
    Coo.form (Fem.triBlockA (t1, t2, t3) (Fem.triA12 v1 v2 v3 (Fem.triVol v1 v2 v3))
        (Fem.triA23 v1 v2 v3 (Fem.triVol v1 v2 v3)) (Fem.triA31 v1 v2 v3 (Fem.triVol v1 v2 v3))) f g
      = Spec.triArea v1 v2 v3 *
          dot (Spec.gradTri v1 v2 v3 (f t1) (f t2) (f t3)) (Spec.gradTri v1 v2 v3 (g t1) (g t2) (g t3)) := by
  set N := normSq (Spec.triN v1 v2 v3) with hNdef
  set s := Real.sqrt N with hs
  have hs2 : s * s = N := Real.mul_self_sqrt hN.le
  have hs0 : s ≠ 0 := (Real.sqrt_pos.mpr hN).ne'
  have hN0 : N ≠ 0 := hN.ne'
  -- spec side: ∇f·∇g = F·G / N
  set F := smul (f t1) (v3 - v2) + smul (f t2) (v1 - v3) + smul (f t3) (v2 - v1) with hF
  set G := smul (g t1) (v3 - v2) + smul (g t2) (v1 - v3) + smul (g t3) (v2 - v1) with hG
  have hnF : dot (Spec.triN v1 v2 v3) F = 0 := by simp only [hF, Spec.triN]; v3_flat; ring
  have hgg : dot (Spec.gradTri v1 v2 v3 (f t1) (f t2) (f t3)) (Spec.gradTri v1 v2 v3 (g t1) (g t2) (g t3))
      = dot F G / N := by
    have : dot (Spec.gradTri v1 v2 v3 (f t1) (f t2) (f t3)) (Spec.gradTri v1 v2 v3 (g t1) (g t2) (g t3))
        = (1 / N) * (1 / N) * dot (cross (Spec.triN v1 v2 v3) F) (cross (Spec.triN v1 v2 v3) G) := by
      simp only [Spec.gradTri, ← hF, ← hG, ← hNdef]; v3_flat; ring
    rw [this, lagrange, hnF, ← hNdef]; field_simp; ring
  -- code side: the block's form is the cotangent expression over 2 s
  have hcode : Coo.form (Fem.triBlockA (t1, t2, t3) (Fem.triA12 v1 v2 v3 (Fem.triVol v1 v2 v3))
        (Fem.triA23 v1 v2 v3 (Fem.triVol v1 v2 v3)) (Fem.triA31 v1 v2 v3 (Fem.triVol v1 v2 v3))) f g
      = dot F G / (2 * s) := by
    have hv : Fem.triVol v1 v2 v3 = 2 * s := by
      simp only [Fem.triVol, triCr_eq_triN, sqrt_real, ← hNdef, ← hs]; push_cast; ring
    rw [hv]
    simp only [Fem.triBlockA, Fem.triBlock, Coo.form, List.map, List.sum_cons, List.sum_nil, Fem.triA12, Fem.triA23,
      Fem.triA31, hF, hG]
    v3_flat
    field_simp
    ring
  rw [hcode, hgg, Spec.triArea, ← hNdef, ← hs]
  field_simp
  rw [← hs2]; ring

end FemTri
end LapyVerif
