import Mathlib.Data.List.Count
import Mathlib.Algebra.BigOperators.Group.List.Basic
import Mathlib.Tactic.Linarith
import LapyVerif.Lemmas.BridgeTac
/-
  Balanced half-edge lemmas (discrete Stokes).

  * `balanced_sum_zero`: if every directed arc `(a,b)` occurs in `H` as often as its reverse `(b,a)`, the sum of an
    antisymmetric quantity over `H` vanishes (scalar and `V3 ℝ` versions).
  * `telescope_sum_zero`: if every vertex is the start of as many arcs of `H` as it is the end of, the sum of
    `g q − g p` over the arcs `(p,q)` vanishes.
  Nothing here mentions triangles.
-/
namespace LapyVerif
namespace Lemmas

/-- every arc occurs as often as its reverse -/
def ArcBalanced (H : List (Nat × Nat)) : Prop := ∀ a b, H.count (a, b) = H.count (b, a)

/-- every vertex starts as many arcs as it ends (in-degree = out-degree) -/
def DegBalanced (H : List (Nat × Nat)) : Prop := ∀ p, (H.map (·.1)).count p = (H.map (·.2)).count p

theorem swap_injective : Function.Injective (Prod.swap : Nat × Nat → Nat × Nat) := by
  rintro ⟨a, b⟩ ⟨c, d⟩ h
  simp only [Prod.swap_prod_mk, Prod.mk.injEq] at h
  simp [h.1, h.2]

/-- reversing all arcs of an arc-balanced list permutes it -/
theorem ArcBalanced.swap_perm {H : List (Nat × Nat)} (hb : ArcBalanced H) : (H.map Prod.swap).Perm H := by
  rw [List.perm_iff_count]
  rintro ⟨a, b⟩
  have := List.count_map_of_injective H Prod.swap swap_injective (b, a)
  simp only [Prod.swap_prod_mk] at this
  rw [this]
  exact (hb a b).symm

theorem DegBalanced.perm {H : List (Nat × Nat)} (hb : DegBalanced H) : (H.map (·.1)).Perm (H.map (·.2)) :=
  List.perm_iff_count.mpr hb

theorem degBalanced_iff_perm (H : List (Nat × Nat)) : DegBalanced H ↔ (H.map (·.1)).Perm (H.map (·.2)) :=
  List.perm_iff_count.symm

/-- an arc-balanced list is degree-balanced -/
theorem ArcBalanced.degBalanced {H : List (Nat × Nat)} (hb : ArcBalanced H) : DegBalanced H := by
  rw [degBalanced_iff_perm]
  have h := hb.swap_perm.map (·.1)
  rw [List.map_map] at h
  exact h.symm

/-- **balanced half-edge lemma**: an antisymmetric quantity summed over an arc-balanced list is zero -/
theorem balanced_sum_zero (H : List (Nat × Nat)) (hb : ArcBalanced H) (F : Nat → Nat → ℝ)
    (hF : ∀ a b, F a b = - F b a) : (H.map fun h => F h.1 h.2).sum = 0 := by
  have h1 : ((H.map Prod.swap).map fun h => F h.1 h.2).sum = (H.map fun h => F h.1 h.2).sum :=
    (hb.swap_perm.map _).sum_eq
  have h2 : ((H.map Prod.swap).map fun h => F h.1 h.2) = (H.map fun h => F h.1 h.2).map fun x => -x := by
    rw [List.map_map, List.map_map]
    apply List.map_congr_left
    rintro ⟨a, b⟩ _
    simp only [Function.comp_apply, Prod.swap_prod_mk]
    exact hF b a
  rw [h2, ← List.sum_neg] at h1
  linarith

theorem sum_map_sub_real {α : Type} (l : List α) (f g : α → ℝ) :
    (l.map fun x => f x - g x).sum = (l.map f).sum - (l.map g).sum := by
  induction l with
  | nil => simp
  | cons x l ih => simp only [List.map_cons, List.sum_cons, ih]; ring

/-- **telescoping lemma**: the sum over the arcs `(p,q)` of `g q − g p` vanishes on a degree-balanced list -/
theorem telescope_sum_zero (H : List (Nat × Nat)) (hb : DegBalanced H) (g : Nat → ℝ) :
    (H.map fun h => g h.2 - g h.1).sum = 0 := by
  have h1 : ((H.map (·.1)).map g).sum = ((H.map (·.2)).map g).sum := (hb.perm.map g).sum_eq
  rw [List.map_map, List.map_map] at h1
  rw [sum_map_sub_real H (fun h => g h.2) (fun h => g h.1)]
  have e1 : (H.map (g ∘ fun h : Nat × Nat => h.1)) = H.map fun h => g h.1 := rfl
  have e2 : (H.map (g ∘ fun h : Nat × Nat => h.2)) = H.map fun h => g h.2 := rfl
  rw [e1, e2] at h1
  rw [h1]; ring

/-! ### `V3 ℝ`-valued sums (the model's `V3` carries only `Add`/`Zero`, so sums are taken componentwise) -/

open V3

theorem v3_zero_x : (0 : V3 ℝ).x = 0 := rfl
theorem v3_zero_y : (0 : V3 ℝ).y = 0 := rfl
theorem v3_zero_z : (0 : V3 ℝ).z = 0 := rfl

theorem v3_sum_x {α : Type} (l : List α) (f : α → V3 ℝ) : (l.map f).sum.x = (l.map fun a => (f a).x).sum := by
  induction l with
  | nil => rfl
  | cons a l ih => simp only [List.map_cons, List.sum_cons, add_x, ih]
theorem v3_sum_y {α : Type} (l : List α) (f : α → V3 ℝ) : (l.map f).sum.y = (l.map fun a => (f a).y).sum := by
  induction l with
  | nil => rfl
  | cons a l ih => simp only [List.map_cons, List.sum_cons, add_y, ih]
theorem v3_sum_z {α : Type} (l : List α) (f : α → V3 ℝ) : (l.map f).sum.z = (l.map fun a => (f a).z).sum := by
  induction l with
  | nil => rfl
  | cons a l ih => simp only [List.map_cons, List.sum_cons, add_z, ih]

/-- vector-valued balanced half-edge lemma -/
theorem balanced_sum_zero_v3 (H : List (Nat × Nat)) (hb : ArcBalanced H) (F : Nat → Nat → V3 ℝ)
    (hF : ∀ a b, F a b = - F b a) : (H.map fun h => F h.1 h.2).sum = (0 : V3 ℝ) := by
  apply V3.ext'
  · rw [v3_sum_x, v3_zero_x]
    exact balanced_sum_zero H hb (fun a b => (F a b).x) (fun a b => by rw [hF a b]; rfl)
  · rw [v3_sum_y, v3_zero_y]
    exact balanced_sum_zero H hb (fun a b => (F a b).y) (fun a b => by rw [hF a b]; rfl)
  · rw [v3_sum_z, v3_zero_z]
    exact balanced_sum_zero H hb (fun a b => (F a b).z) (fun a b => by rw [hF a b]; rfl)

/-- vector-valued telescoping lemma -/
theorem telescope_sum_zero_v3 (H : List (Nat × Nat)) (hb : DegBalanced H) (g : Nat → V3 ℝ) :
    (H.map fun h => g h.2 - g h.1).sum = (0 : V3 ℝ) := by
  apply V3.ext'
  · rw [v3_sum_x, v3_zero_x]; exact telescope_sum_zero H hb fun j => (g j).x
  · rw [v3_sum_y, v3_zero_y]; exact telescope_sum_zero H hb fun j => (g j).y
  · rw [v3_sum_z, v3_zero_z]; exact telescope_sum_zero H hb fun j => (g j).z

end Lemmas
end LapyVerif
