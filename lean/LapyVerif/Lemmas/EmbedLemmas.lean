import LapyVerif.Props.C19b
/-
  Helper lemmas for C19c (`Flow.embed`): extrema of a list, the effect of negating an eigenfunction on its extrema
  and poles, and the rescaling `unitRange`.
-/
namespace LapyVerif
namespace EmbedLemmas
open V3 Flow Props.C19

/-! ### `maxL`, `minL` -/

theorem foldr_max_ge (l : List ℝ) (a : ℝ) : a ≤ l.foldr max a ∧ ∀ x ∈ l, x ≤ l.foldr max a := by
  induction l with
  | nil => simp
  | cons y l ih =>
    simp only [List.foldr_cons, List.mem_cons, forall_eq_or_imp]
    exact ⟨le_trans ih.1 (le_max_right _ _), le_max_left _ _, fun x hx => le_trans (ih.2 x hx) (le_max_right _ _)⟩

theorem foldr_max_mem (l : List ℝ) (a : ℝ) : l.foldr max a = a ∨ l.foldr max a ∈ l := by
  induction l with
  | nil => simp
  | cons y l ih =>
    simp only [List.foldr_cons, List.mem_cons]
    rcases max_choice y (l.foldr max a) with h | h
    · right; left; exact h
    · rw [h]; rcases ih with h' | h'
      · left; exact h'
      · right; right; exact h'

theorem foldr_min_le (l : List ℝ) (a : ℝ) : l.foldr min a ≤ a ∧ ∀ x ∈ l, l.foldr min a ≤ x := by
  induction l with
  | nil => simp
  | cons y l ih =>
    simp only [List.foldr_cons, List.mem_cons, forall_eq_or_imp]
    exact ⟨le_trans (min_le_right _ _) ih.1, min_le_left _ _, fun x hx => le_trans (min_le_right _ _) (ih.2 x hx)⟩

theorem foldr_min_mem (l : List ℝ) (a : ℝ) : l.foldr min a = a ∨ l.foldr min a ∈ l := by
  induction l with
  | nil => simp
  | cons y l ih =>
    simp only [List.foldr_cons, List.mem_cons]
    rcases min_choice y (l.foldr min a) with h | h
    · right; left; exact h
    · rw [h]; rcases ih with h' | h'
      · left; exact h'
      · right; right; exact h'

/-- every entry is at most the maximum -/
theorem le_maxL {l : List ℝ} {x : ℝ} (h : x ∈ l) : x ≤ maxL l := by
  rw [maxL_eq_lmax]; exact (foldr_max_ge l _).2 x h

/-- the minimum is at most every entry -/
theorem minL_le {l : List ℝ} {x : ℝ} (h : x ∈ l) : minL l ≤ x := by
  rw [minL_eq_lmin]; exact (foldr_min_le l _).2 x h

/-- the maximum of a non-empty list is one of its entries -/
theorem maxL_mem {l : List ℝ} (h : l ≠ []) : maxL l ∈ l := by
  rw [maxL_eq_lmax]
  obtain ⟨a, r, rfl⟩ := List.exists_cons_of_ne_nil h
  rcases foldr_max_mem (a :: r) a with h' | h'
  · unfold lmax; simp only [List.headD_cons]; rw [h']; exact List.mem_cons_self
  · exact h'

theorem minL_mem {l : List ℝ} (h : l ≠ []) : minL l ∈ l := by
  rw [minL_eq_lmin]
  obtain ⟨a, r, rfl⟩ := List.exists_cons_of_ne_nil h
  rcases foldr_min_mem (a :: r) a with h' | h'
  · unfold lmin; simp only [List.headD_cons]; rw [h']; exact List.mem_cons_self
  · exact h'

/-- negating the list turns the maximum into minus the minimum -/
theorem maxL_neg (l : List ℝ) : maxL (l.map fun e => -e) = - minL l := by
  rw [maxL_eq_lmax, minL_eq_lmin]; exact lmax_neg l

theorem minL_neg (l : List ℝ) : minL (l.map fun e => -e) = - maxL l := by
  rw [maxL_eq_lmax, minL_eq_lmin]; exact lmin_neg l

/-! ### negating an eigenfunction swaps its poles -/

/-- **`poles_neg`** (the `V3` version of `hiMean_neg` / `loMean_neg`) -/
theorem poles_neg (v : List (V3 ℝ)) (ev : List ℝ) :
    poles v (ev.map fun e => -e) = ((poles v ev).2, (poles v ev).1) := by
  unfold poles
  simp only [maxL_neg, minL_neg, List.map_map]
  have h1 : ((fun e : ℝ => decide (((1 : Nat) : ℝ) / ((2 : Nat) : ℝ) * -minL ev < e)) ∘ fun e => -e)
      = fun e => decide (e < ((1 : Nat) : ℝ) / ((2 : Nat) : ℝ) * minL ev) := by
    funext e
    simp only [Function.comp]
    apply decide_eq_decide.mpr
    constructor <;> intro h <;> linarith
  have h2 : ((fun e : ℝ => decide (e < ((1 : Nat) : ℝ) / ((2 : Nat) : ℝ) * -maxL ev)) ∘ fun e => -e)
      = fun e => decide (((1 : Nat) : ℝ) / ((2 : Nat) : ℝ) * maxL ev < e) := by
    funext e
    simp only [Function.comp]
    apply decide_eq_decide.mpr
    constructor <;> intro h <;> linarith
  rw [h1, h2]

/-! ### `unitRange` -/

theorem unitRange_length (ev : List ℝ) : (unitRange ev).length = ev.length := by simp [unitRange]

/-- the rescaling of one entry -/
noncomputable def rescale (mn mx e : ℝ) : ℝ := if e < 0 then e / (-mn) else if 0 < e then e / mx else e

theorem unitRange_eq (ev : List ℝ) : unitRange ev = ev.map (rescale (minL ev) (maxL ev)) := rfl

/-- the value of one rescaled entry -/
theorem rescale_spec {ev : List ℝ} (hmn : minL ev < 0) (hmx : 0 < maxL ev) {e : ℝ} (he : e ∈ ev) :
    (-1 : ℝ) ≤ rescale (minL ev) (maxL ev) e ∧ rescale (minL ev) (maxL ev) e ≤ 1 ∧
      (e < 0 → rescale (minL ev) (maxL ev) e < 0) ∧ (0 < e → 0 < rescale (minL ev) (maxL ev) e) ∧
      (e = 0 → rescale (minL ev) (maxL ev) e = 0) ∧ (e = maxL ev → rescale (minL ev) (maxL ev) e = 1) ∧
      (e = minL ev → rescale (minL ev) (maxL ev) e = -1) := by
  unfold rescale
  have h1 := minL_le he
  have h2 := le_maxL he
  have hmn' : 0 < -minL ev := by linarith
  by_cases hneg : e < 0
  · rw [if_pos hneg]
    refine ⟨?_, ?_, fun _ => div_neg_of_neg_of_pos hneg hmn', fun h => absurd h (by linarith), fun h => absurd h (by linarith),
      fun h => absurd h (by linarith), fun h => ?_⟩
    · rw [le_div_iff₀ hmn']; linarith
    · rw [div_le_one hmn']; linarith
    · rw [h, div_neg, div_self (ne_of_lt hmn)]
  · by_cases hpos : 0 < e
    · rw [if_neg hneg, if_pos hpos]
      refine ⟨?_, ?_, fun h => absurd h hneg, fun _ => div_pos hpos hmx, fun h => absurd h (by linarith),
        fun h => ?_, fun h => absurd h (by linarith)⟩
      · have := div_pos hpos hmx; linarith
      · rw [div_le_one hmx]; exact h2
      · rw [h, div_self (ne_of_gt hmx)]
    · have h0 : e = 0 := le_antisymm (not_lt.1 hpos) (not_lt.1 hneg)
      rw [if_neg hneg, if_neg hpos]
      refine ⟨by linarith, by linarith, fun h => absurd h hneg, fun h => absurd h hpos, fun h => h,
        fun h => absurd (h0.symm.trans h) (ne_of_lt hmx), fun h => absurd (h.symm.trans h0) (ne_of_lt hmn)⟩

end EmbedLemmas
end LapyVerif
