import LapyVerif.Model.FsSurf
/-
  Helper lemmas for C14b (FreeSurfer binary surfaces): 32-bit words, `fromfile`, `readline`, `split("=")`, `strip()`,
  `split()` on byte lists.
-/
namespace LapyVerif
namespace FsSurf

/-! ### 32-bit words -/

theorem toNat_toUInt8 (n : Nat) : n.toUInt8.toNat = n % 256 := by
  simp [Nat.toUInt8]

theorem dec32_be32 (n : Nat) (h : n < 4294967296) :
    dec32 (n / 16777216 % 256).toUInt8 (n / 65536 % 256).toUInt8 (n / 256 % 256).toUInt8 (n % 256).toUInt8 = n := by
  simp only [dec32, toNat_toUInt8]
  omega

theorem dec32_lt (a b c d : UInt8) : dec32 a b c d < 4294967296 := by
  have := a.toNat_lt; have := b.toNat_lt; have := c.toNat_lt; have := d.toNat_lt
  unfold dec32; omega

theorem toI32_patI32 (z : Int) (h1 : -2147483648 ≤ z) (h2 : z < 2147483648) : toI32 (patI32 z) = z := by
  unfold toI32 patI32
  split <;> omega

theorem patI32_lt (z : Int) : patI32 z < 4294967296 := by
  unfold patI32; omega

theorem patI32_natCast (n : Nat) (h : n < 4294967296) : patI32 (n : Int) = n := by
  unfold patI32; omega

theorem toI32_natCast (n : Nat) (h : n < 2147483648) : toI32 n = (n : Int) := by
  unfold toI32; rw [if_pos h]

theorem wrap32_small (z : Int) (h1 : 0 ≤ z) (h2 : z < 2147483648) : wrap32 z = z :=
  toI32_patI32 z (by omega) h2

theorem length_be32 (n : Nat) : (be32 n).length = 4 := rfl

theorem items_be32 (n : Nat) (h : n < 4294967296) (r : Bytes) : items (be32 n ++ r) = n :: items r := by
  simp only [be32, List.cons_append, List.nil_append, items, dec32_be32 n h]

theorem takeItems_be32 (k n : Nat) (h : n < 4294967296) (r : Bytes) :
    takeItems (k + 1) (be32 n ++ r) = (n :: (takeItems k r).1, (takeItems k r).2) := by
  simp only [be32, List.cons_append, List.nil_append, takeItems, dec32_be32 n h]

/-- reading back a block of words -/
theorem takeItems_words (l : List Nat) (hl : ∀ n ∈ l, n < 4294967296) (rest : Bytes) :
    takeItems l.length (l.flatMap be32 ++ rest) = (l, rest) := by
  induction l with
  | nil => rfl
  | cons n l ih =>
    rw [List.length_cons, List.flatMap_cons, List.append_assoc, takeItems_be32 _ _ (hl n List.mem_cons_self),
      ih fun m hm => hl m (List.mem_cons_of_mem _ hm)]

theorem fromfile_words (l : List Nat) (hl : ∀ n ∈ l, n < 4294967296) (rest : Bytes) (c : Int)
    (hc : c = (l.length : Int)) : fromfile c (l.flatMap be32 ++ rest) = (l, rest) := by
  unfold fromfile
  rw [if_neg (by omega), hc, Int.toNat_natCast, takeItems_words l hl rest]

/-- a read never returns more items than there are complete 4-byte groups, nor more than asked for -/
theorem length_takeItems (k : Nat) (bs : Bytes) : (takeItems k bs).1.length * 4 ≤ bs.length ∧ (takeItems k bs).1.length ≤ k := by
  induction k generalizing bs with
  | zero => simp [takeItems]
  | succ k ih =>
    match bs with
    | a :: b :: c :: d :: r =>
      have := ih r
      simp only [takeItems, List.length_cons]
      omega
    | [] => simp [takeItems]
    | [_] => simp [takeItems]
    | [_, _] => simp [takeItems]
    | [_, _, _] => simp [takeItems]

theorem takeItems_short (k : Nat) (bs : Bytes) (h : bs.length < 4 * k) : (takeItems k bs).1.length < k := by
  have := (length_takeItems k bs).1
  omega

theorem takeItems_one_short (bs : Bytes) (h : bs.length < 4) : takeItems 1 bs = ([], []) := by
  match bs with
  | [] => rfl
  | [_] => rfl
  | [_, _] => rfl
  | [_, _, _] => rfl
  | _ :: _ :: _ :: _ :: _ => simp at h; omega

/-! ### lines -/

theorem readline_line (l rest : Bytes) (h : ∀ b ∈ l, b ≠ 10) : readline (l ++ 10 :: rest) = (l ++ [10], rest) := by
  induction l with
  | nil => simp [readline]
  | cons b l ih =>
    have hb : (b == 10) = false := by simpa using h b List.mem_cons_self
    simp only [List.cons_append, readline, hb, Bool.false_eq_true, if_false, ih fun x hx => h x (List.mem_cons_of_mem _ hx)]

theorem readline_noNL (l : Bytes) (h : ∀ b ∈ l, b ≠ 10) : readline l = (l, []) := by
  induction l with
  | nil => rfl
  | cons b l ih =>
    have hb : (b == 10) = false := by simpa using h b List.mem_cons_self
    simp only [readline, hb, Bool.false_eq_true, if_false, ih fun x hx => h x (List.mem_cons_of_mem _ hx)]

theorem dropWhile_all {α : Type} (p : α → Bool) (a r : List α) (h : ∀ x ∈ a, p x = true) :
    (a ++ r).dropWhile p = r.dropWhile p := by
  induction a with
  | nil => rfl
  | cons x a ih =>
    simp only [List.cons_append, List.dropWhile_cons, h x List.mem_cons_self, if_true]
    exact ih fun y hy => h y (List.mem_cons_of_mem _ hy)

theorem dropWhile_head {α : Type} (p : α → Bool) (l : List α) (h : l.head?.all (fun x => !p x) = true) :
    l.dropWhile p = l := by
  cases l with
  | nil => rfl
  | cons x l =>
    simp only [List.head?_cons, Option.all_some, Bool.not_eq_true'] at h
    simp [h]

theorem rstripNL_noNL (l : Bytes) (h : ∀ b ∈ l, b ≠ 10) : rstripNL l = l := by
  unfold rstripNL
  rw [dropWhile_head, List.reverse_reverse]
  rw [List.head?_reverse]
  cases hl : l.getLast? with
  | none => rfl
  | some x =>
    have := h x (List.mem_of_getLast? hl)
    simpa using this

theorem rstripNL_line (l : Bytes) (h : ∀ b ∈ l, b ≠ 10) : rstripNL (l ++ [10]) = l := by
  have := rstripNL_noNL l h
  unfold rstripNL at this ⊢
  rw [List.reverse_append, List.reverse_singleton, List.singleton_append, List.dropWhile_cons]
  simpa using this

/-! ### `split("=")`, `strip()`, `split()` -/

theorem splitAt_none (p : UInt8 → Bool) (l cur : Bytes) (h : ∀ b ∈ l, p b = false) :
    splitAt p cur l = [cur.reverse ++ l] := by
  induction l generalizing cur with
  | nil => simp [splitAt]
  | cons b l ih =>
    simp only [splitAt, h b List.mem_cons_self, Bool.false_eq_true, if_false]
    rw [ih _ fun x hx => h x (List.mem_cons_of_mem _ hx)]
    simp

/-- splitting at a separator splits the list of pieces -/
theorem splitAt_append (p : UInt8 → Bool) (a b cur : Bytes) (c : UInt8) (hc : p c = true) :
    splitAt p cur (a ++ c :: b) = splitAt p cur a ++ splitAt p [] b := by
  induction a generalizing cur with
  | nil => simp [splitAt, hc]
  | cons x a ih =>
    simp only [List.cons_append, splitAt]
    split
    · rw [ih]; rfl
    · rw [ih]

/-- exactly one `=` -/
theorem splitAt_eq (k v : Bytes) (hk : ∀ b ∈ k, b ≠ 61) (hv : ∀ b ∈ v, b ≠ 61) :
    splitAt (· == 61) [] (k ++ 61 :: v) = [k, v] := by
  rw [splitAt_append _ _ _ _ 61 (by decide), splitAt_none _ k [] (fun b hb => by simpa using hk b hb),
    splitAt_none _ v [] (fun b hb => by simpa using hv b hb)]
  rfl

theorem strip_left (a l : Bytes) (ha : ∀ x ∈ a, isSpace x = true) : strip (a ++ l) = strip l := by
  unfold strip
  rw [dropWhile_all isSpace a l ha]

theorem strip_right (l b : Bytes) (hb : ∀ x ∈ b, isSpace x = true) : strip (l ++ b) = strip l := by
  unfold strip
  rw [List.dropWhile_append]
  split
  · rename_i h
    have h' : l.dropWhile isSpace = [] := List.isEmpty_iff.mp h
    have hb' : b.dropWhile isSpace = [] := by
      have := dropWhile_all isSpace b [] hb
      simpa using this
    rw [h', hb']
  · rw [List.reverse_append, dropWhile_all isSpace b.reverse _ (fun x hx => hb x (List.mem_reverse.mp hx))]

/-- `(" " + v + "\n").strip()` -/
theorem strip_pad (v : Bytes) (hv : strip v = v) : strip (32 :: v ++ [10]) = v := by
  have h1 := strip_left [32] (v ++ [10]) (by decide)
  have h2 := strip_right v [10] (by decide)
  simp only [List.singleton_append] at h1
  rw [List.cons_append, h1, h2, hv]

theorem wsplit_append (a b : Bytes) (c : UInt8) (hc : isSpace c = true) : wsplit (a ++ c :: b) = wsplit a ++ wsplit b := by
  unfold wsplit
  rw [splitAt_append _ _ _ _ c hc, List.filter_append]

theorem wsplit_nil : wsplit [] = [] := by decide

theorem wsplit_tok (t : Bytes) (hne : t ≠ []) (h : ∀ b ∈ t, isSpace b = false) : wsplit t = [t] := by
  unfold wsplit
  rw [splitAt_none _ t [] h]
  simp [hne]

theorem joinSp_cons_cons (t u : Bytes) (toks : List Bytes) : joinSp (t :: u :: toks) = t ++ 32 :: joinSp (u :: toks) := rfl

theorem wsplit_joinSp (toks : List Bytes) (h : ∀ t ∈ toks, t ≠ [] ∧ ∀ b ∈ t, isSpace b = false) :
    wsplit (joinSp toks) = toks := by
  induction toks with
  | nil => exact wsplit_nil
  | cons t toks ih =>
    have ht := h t List.mem_cons_self
    cases toks with
    | nil => simpa [joinSp] using wsplit_tok t ht.1 ht.2
    | cons u toks =>
      rw [joinSp_cons_cons, wsplit_append _ _ 32 (by decide), wsplit_tok t ht.1 ht.2, ih fun x hx => h x (List.mem_cons_of_mem _ hx)]
      rfl

/-- `(" " + " ".join(toks) + "\n").split()` -/
theorem wsplit_pad (toks : List Bytes) (h : ∀ t ∈ toks, t ≠ [] ∧ ∀ b ∈ t, isSpace b = false) :
    wsplit (32 :: joinSp toks ++ [10]) = toks := by
  have e : (32 :: joinSp toks ++ [10] : Bytes) = [] ++ 32 :: (joinSp toks ++ 10 :: []) := by simp
  rw [e, wsplit_append _ _ 32 (by decide), wsplit_append _ _ 10 (by decide), wsplit_nil, wsplit_joinSp toks h]
  simp

theorem mem_joinSp (toks : List Bytes) (b : UInt8) (hb : b ∈ joinSp toks) : b = 32 ∨ ∃ t ∈ toks, b ∈ t := by
  induction toks with
  | nil => simp [joinSp] at hb
  | cons t toks ih =>
    cases toks with
    | nil => exact Or.inr ⟨t, by simp, by simpa [joinSp] using hb⟩
    | cons u toks =>
      rw [joinSp_cons_cons, List.mem_append, List.mem_cons] at hb
      rcases hb with hb | rfl | hb
      · exact Or.inr ⟨t, by simp, hb⟩
      · exact Or.inl rfl
      · rcases ih hb with h | ⟨x, hx, h⟩
        · exact Or.inl h
        · exact Or.inr ⟨x, List.mem_cons_of_mem _ hx, h⟩

/-! ### the footer -/

/-- a byte allowed inside a footer line: no line break, no `=`, ASCII -/
def okByte (b : UInt8) : Prop := b ≠ 10 ∧ b ≠ 61 ∧ b < 128

instance (b : UInt8) : Decidable (okByte b) := by unfold okByte; infer_instance

/-- a value of `valid` / `filename`: stripped, one line, no `=`, ASCII (may be empty, may contain blanks) -/
def GoodVal (v : Bytes) : Prop := strip v = v ∧ ∀ b ∈ v, okByte b

/-- a number token: non-empty, no white space, no `=`, ASCII -/
def GoodTok (t : Bytes) : Prop := t ≠ [] ∧ ∀ b ∈ t, isSpace b = false ∧ b ≠ 61 ∧ b < 128

instance (v : Bytes) : Decidable (GoodVal v) := by unfold GoodVal; infer_instance
instance (t : Bytes) : Decidable (GoodTok t) := by unfold GoodTok; infer_instance

theorem ascii_eq : ascii " = " = [32, 61, 32] := by decide

theorem isAscii_iff (l : Bytes) : isAscii l = true ↔ ∀ b ∈ l, b < 128 := by
  simp [isAscii]

theorem parseKV_line (key keyW val rest : Bytes) (hkw : strip (keyW ++ [32]) = key) (hk : ∀ b ∈ keyW, okByte b)
    (hv : ∀ b ∈ val, okByte b) : parseKV key (kvLine keyW val ++ rest) = .ok (32 :: val ++ [10], rest) := by
  have hline : kvLine keyW val ++ rest = ((keyW ++ [32]) ++ 61 :: (32 :: val)) ++ 10 :: rest := by
    simp [kvLine, ascii_eq]
  have hmem : ∀ b ∈ (keyW ++ [32]) ++ 61 :: (32 :: val), b ≠ 10 ∧ b < 128 := by
    intro b hb
    simp only [List.mem_append, List.mem_cons, List.not_mem_nil, or_false] at hb
    rcases hb with (hb | rfl) | rfl | rfl | hb
    · exact ⟨(hk b hb).1, (hk b hb).2.2⟩
    · decide
    · decide
    · decide
    · exact ⟨(hv b hb).1, (hv b hb).2.2⟩
  have hsplit : splitAt (· == 61) [] (((keyW ++ [32]) ++ 61 :: (32 :: val)) ++ [10]) = [keyW ++ [32], 32 :: val ++ [10]] := by
    have := splitAt_eq (keyW ++ [32]) (32 :: val ++ [10])
      (by
        intro b hb
        simp only [List.mem_append, List.mem_cons, List.not_mem_nil, or_false] at hb
        rcases hb with hb | rfl
        · exact (hk b hb).2.1
        · decide)
      (by
        intro b hb
        simp only [List.cons_append, List.mem_cons, List.mem_append, List.not_mem_nil, or_false] at hb
        rcases hb with rfl | hb | rfl
        · decide
        · exact (hv b hb).2.1
        · decide)
    simpa using this
  have hasc : isAscii (((keyW ++ [32]) ++ 61 :: (32 :: val)) ++ [10]) = true := by
    rw [isAscii_iff]
    intro b hb
    rcases List.mem_append.mp hb with hb | hb
    · exact (hmem b hb).2
    · have : b = 10 := by simpa using hb
      subst this; decide
  unfold parseKV
  rw [hline, readline_line _ _ fun b hb => (hmem b hb).1]
  simp only [hasc, Bool.not_true, Bool.false_eq_true, if_false, hsplit, hkw, if_true]

/-- the token lines: the joined tokens are an admissible right-hand side -/
theorem okByte_joinSp (toks : List Bytes) (h : ∀ t ∈ toks, GoodTok t) : ∀ b ∈ joinSp toks, okByte b := by
  intro b hb
  rcases mem_joinSp toks b hb with rfl | ⟨t, ht, hb⟩
  · decide
  · have := (h t ht).2 b hb
    refine ⟨?_, this.2.1, this.2.2⟩
    rintro rfl
    exact absurd this.1 (by decide)

/-- the footer values are admissible (any extension code) -/
def GoodInfoVals (vi : VolInfo) : Prop :=
  GoodVal vi.valid ∧ GoodVal vi.filename ∧ (∀ t ∈ vi.volume, GoodTok t) ∧ (∀ t ∈ vi.voxelsize, GoodTok t) ∧
  (∀ t ∈ vi.xras, GoodTok t) ∧ (∀ t ∈ vi.yras, GoodTok t) ∧ (∀ t ∈ vi.zras, GoodTok t) ∧ (∀ t ∈ vi.cras, GoodTok t)

instance (vi : VolInfo) : Decidable (GoodInfoVals vi) := by unfold GoodInfoVals; infer_instance

/-- the eight key lines of `writeInfo` -/
def infoLines (vi : VolInfo) : Bytes :=
  kvLine (ascii "valid") vi.valid ++ kvLine (ascii "filename") vi.filename ++
  kvLine (ascii "volume") (joinSp vi.volume) ++ kvLine (ascii "voxelsize") (joinSp vi.voxelsize) ++
  kvLine (ascii "xras  ") (joinSp vi.xras) ++ kvLine (ascii "yras  ") (joinSp vi.yras) ++
  kvLine (ascii "zras  ") (joinSp vi.zras) ++ kvLine (ascii "cras  ") (joinSp vi.cras)

theorem writeInfo_eq (vi : VolInfo) : writeInfo vi = vi.head.flatMap encI32 ++ infoLines vi := by
  simp [writeInfo, infoLines, List.append_assoc]

theorem tok_split (toks : List Bytes) (h : ∀ t ∈ toks, GoodTok t) : ∀ t ∈ toks, t ≠ [] ∧ ∀ b ∈ t, isSpace b = false :=
  fun t ht => ⟨(h t ht).1, fun b hb => ((h t ht).2 b hb).1⟩

/-- the eight key lines are read back, whatever follows them -/
theorem readInfoBody_lines (vi : VolInfo) (h : GoodInfoVals vi) (head : List Int) (rest : Bytes) :
    readInfoBody head (infoLines vi ++ rest) = .ok { vi with head := head } := by
  obtain ⟨h1, h2, h3, h4, h5, h6, h7, h8⟩ := h
  unfold infoLines readInfoBody
  simp only [List.append_assoc]
  rw [parseKV_line (ascii "valid") (ascii "valid") vi.valid _ (by decide) (by decide) h1.2]
  simp only [bind, Except.bind]
  rw [parseKV_line (ascii "filename") (ascii "filename") vi.filename _ (by decide) (by decide) h2.2]
  simp only []
  rw [parseKV_line (ascii "volume") (ascii "volume") _ _ (by decide) (by decide) (okByte_joinSp _ h3)]
  simp only []
  rw [parseKV_line (ascii "voxelsize") (ascii "voxelsize") _ _ (by decide) (by decide) (okByte_joinSp _ h4)]
  simp only []
  rw [parseKV_line (ascii "xras") (ascii "xras  ") _ _ (by decide) (by decide) (okByte_joinSp _ h5)]
  simp only []
  rw [parseKV_line (ascii "yras") (ascii "yras  ") _ _ (by decide) (by decide) (okByte_joinSp _ h6)]
  simp only []
  rw [parseKV_line (ascii "zras") (ascii "zras  ") _ _ (by decide) (by decide) (okByte_joinSp _ h7)]
  simp only []
  rw [parseKV_line (ascii "cras") (ascii "cras  ") _ _ (by decide) (by decide) (okByte_joinSp _ h8)]
  simp only [pure, Except.pure, strip_pad _ h1.1, strip_pad _ h2.1, wsplit_pad _ (tok_split _ h3),
    wsplit_pad _ (tok_split _ h4), wsplit_pad _ (tok_split _ h5), wsplit_pad _ (tok_split _ h6),
    wsplit_pad _ (tok_split _ h7), wsplit_pad _ (tok_split _ h8)]

/-- what the reader stores for an extension code: `[2,1,20]` is normalised to `[2,0,20]` -/
def normHead (h : List Int) : List Int := if h = [2, 1, 20] then [2, 0, 20] else h

theorem readVolInfo_nil : readVolInfo [] = .ok none := rfl

/-- **the footer is read back** (extension codes `[20]`, `[2,0,20]`, and `[2,1,20]` which is normalised) -/
theorem readVolInfo_writeInfo (vi : VolInfo) (hh : vi.head = [20] ∨ vi.head = [2, 0, 20] ∨ vi.head = [2, 1, 20])
    (h : GoodInfoVals vi) (rest : Bytes) :
    readVolInfo (writeInfo vi ++ rest) = .ok (some { vi with head := normHead vi.head }) := by
  rw [writeInfo_eq, List.append_assoc]
  unfold readVolInfo
  rcases hh with hh | hh | hh
  · have e : vi.head.flatMap encI32 ++ (infoLines vi ++ rest) = [20].flatMap be32 ++ (infoLines vi ++ rest) := by
      rw [hh]; rfl
    rw [e, fromfile_words [20] (by decide) _ 1 (by rfl)]
    simp only [if_true, readInfoBody_lines vi h, Except.map, hh, normHead]
    rfl
  · have e : vi.head.flatMap encI32 ++ (infoLines vi ++ rest) =
        [2].flatMap be32 ++ ([0, 20].flatMap be32 ++ (infoLines vi ++ rest)) := by
      rw [hh]; rfl
    rw [e, fromfile_words [2] (by decide) _ 1 (by rfl)]
    simp only [show ¬ ([2] : List Nat) = [20] by decide, if_false]
    rw [fromfile_words [0, 20] (by decide) _ 2 (by rfl)]
    simp only [List.cons_append, List.nil_append, true_or, if_true, readInfoBody_lines vi h, Except.map, hh, normHead]
    rfl
  · have e : vi.head.flatMap encI32 ++ (infoLines vi ++ rest) =
        [2].flatMap be32 ++ ([1, 20].flatMap be32 ++ (infoLines vi ++ rest)) := by
      rw [hh]; rfl
    rw [e, fromfile_words [2] (by decide) _ 1 (by rfl)]
    simp only [show ¬ ([2] : List Nat) = [20] by decide, if_false]
    rw [fromfile_words [1, 20] (by decide) _ 2 (by rfl)]
    simp only [List.cons_append, List.nil_append, or_true, if_true, readInfoBody_lines vi h, Except.map, hh, normHead]

end FsSurf
end LapyVerif
