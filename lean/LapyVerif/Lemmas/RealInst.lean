import Mathlib.Analysis.Real.Sqrt
import Mathlib.Analysis.SpecialFunctions.Exp
import Mathlib.Analysis.SpecialFunctions.Log.Basic
import LapyVerif.Model.Scalar
import LapyVerif.Model.V3
/-  The ℝ instance of the model's scalar classes: the instance the theorems are about. -/
namespace LapyVerif

noncomputable instance : HasSqrt ℝ := ⟨Real.sqrt⟩
noncomputable instance : HasAbs ℝ := ⟨fun x => |x|⟩
noncomputable instance : HasExp ℝ := ⟨Real.exp⟩
noncomputable instance : HasLog ℝ := ⟨Real.log⟩

@[simp] theorem sqrt_real (x : ℝ) : HasSqrt.sqrt x = Real.sqrt x := rfl
@[simp] theorem abs_real (x : ℝ) : HasAbs.abs x = |x| := rfl
@[simp] theorem exp_real (x : ℝ) : HasExp.exp x = Real.exp x := rfl

theorem epsK_real : (epsK : ℝ) = 1 / 4503599627370496 := by
  simp [epsK]
theorem epsK_pos : (0 : ℝ) < epsK := by
  rw [epsK_real]; norm_num

/-- three-vertex array used by the bridges: index 0,1,2 ↦ the generic vertices, anything else ↦ the last -/
def vtx3 {K : Type} (a b c : V3 K) : Nat → V3 K := fun i =>
  match i with
  | 0 => a
  | 1 => b
  | _ => c

def vtx4 {K : Type} (a b c d : V3 K) : Nat → V3 K := fun i =>
  match i with
  | 0 => a
  | 1 => b
  | 2 => c
  | _ => d

end LapyVerif
