import Mathlib.Tactic.Linarith
import Mathlib.Tactic.Positivity
import LapyVerif.Lemmas.Assembly
import LapyVerif.Spec.Grad
/-  Per-tetrahedron identities behind C01/C02. -/
namespace LapyVerif
open V3

/-- complement of the code's guard `vol == 0` on every tetrahedron -/
def NonDegenTet (vtx : Nat → V3 ℝ) (ts : List Tet) : Prop :=
  ∀ τ ∈ ts, Fem.tetVol (vtx τ.1) (vtx τ.2.1) (vtx τ.2.2.1) (vtx τ.2.2.2) ≠ 0

namespace FemTet

theorem tetVol_eq (v1 v2 v3 v4 : V3 ℝ) : Fem.tetVol v1 v2 v3 v4 = |Spec.tetDet v1 v2 v3 v4| := by
  simp only [Fem.tetVol, abs_real, Spec.tetDet]
  rw [← abs_neg]
  congr 1
  v3_flat; ring

theorem tetVol_eq_six_vol (v1 v2 v3 v4 : V3 ℝ) : Fem.tetVol v1 v2 v3 v4 = 6 * Spec.tetVolume v1 v2 v3 v4 := by
  rw [tetVol_eq, Spec.tetVolume]; ring

/-- form of the stiffness block of one tetrahedron = volume × ∇f·∇g -/
theorem local_form (v1 v2 v3 v4 : V3 ℝ) (t1 t2 t3 t4 : Nat) (f g : Nat → ℝ)
    (hd : Spec.tetDet v1 v2 v3 v4 ≠ 0) :
    let vol := Fem.tetVol v1 v2 v3 v4
    let o := Fem.tetOff v1 v2 v3 v4 vol
    Coo.form (Fem.tetBlock (t1, t2, t3, t4) (o.1 / 6) (o.2.2.2.1 / 6) (o.2.1 / 6) (o.2.2.1 / 6) (o.2.2.2.2.1 / 6)
        (o.2.2.2.2.2 / 6)
        ((-o.1 - o.2.1 - o.2.2.1) / 6) ((-o.1 - o.2.2.2.1 - o.2.2.2.2.1) / 6)
        ((-o.2.1 - o.2.2.2.1 - o.2.2.2.2.2) / 6) ((-o.2.2.1 - o.2.2.2.2.1 - o.2.2.2.2.2) / 6)) f g
      = Spec.tetVolume v1 v2 v3 v4 *
          dot (Spec.gradTet v1 v2 v3 v4 (f t1) (f t2) (f t3) (f t4)) (Spec.gradTet v1 v2 v3 v4 (g t1) (g t2) (g t3) (g t4)) := by
  intro vol o
  set D := Spec.tetDet v1 v2 v3 v4 with hD
  have habs : |D| ≠ 0 := abs_ne_zero.mpr hd
  have hsq : |D| * |D| = D * D := abs_mul_abs_self D
  set P := smul (f t2 - f t1) (cross (v3 - v1) (v4 - v1)) + smul (f t3 - f t1) (cross (v4 - v1) (v2 - v1))
      + smul (f t4 - f t1) (cross (v2 - v1) (v3 - v1)) with hP
  set Q := smul (g t2 - g t1) (cross (v3 - v1) (v4 - v1)) + smul (g t3 - g t1) (cross (v4 - v1) (v2 - v1))
      + smul (g t4 - g t1) (cross (v2 - v1) (v3 - v1)) with hQ
  have hgg : dot (Spec.gradTet v1 v2 v3 v4 (f t1) (f t2) (f t3) (f t4)) (Spec.gradTet v1 v2 v3 v4 (g t1) (g t2) (g t3) (g t4))
      = dot P Q / (D * D) := by
    have : dot (Spec.gradTet v1 v2 v3 v4 (f t1) (f t2) (f t3) (f t4)) (Spec.gradTet v1 v2 v3 v4 (g t1) (g t2) (g t3) (g t4))
        = (1 / D) * (1 / D) * dot P Q := by
      simp only [Spec.gradTet, ← hP, ← hQ, ← hD]; v3_flat; ring
    rw [this]; field_simp
  have hcode : Coo.form (Fem.tetBlock (t1, t2, t3, t4) (o.1 / 6) (o.2.2.2.1 / 6) (o.2.1 / 6) (o.2.2.1 / 6) (o.2.2.2.2.1 / 6)
        (o.2.2.2.2.2 / 6)
        ((-o.1 - o.2.1 - o.2.2.1) / 6) ((-o.1 - o.2.2.2.1 - o.2.2.2.2.1) / 6)
        ((-o.2.1 - o.2.2.2.1 - o.2.2.2.2.2) / 6) ((-o.2.2.1 - o.2.2.2.2.1 - o.2.2.2.2.2) / 6)) f g
      = dot P Q / (6 * |D|) := by
    have hv : vol = |D| := tetVol_eq v1 v2 v3 v4
    simp only [o, hv]
    simp only [Fem.tetBlock, Fem.tetOff, Coo.form, List.map, List.sum_cons, List.sum_nil, hP, hQ]
    v3_flat
    field_simp
    ring
  rw [hcode, hgg, Spec.tetVolume, ← hD]
  field_simp
  rw [sq_abs]

end FemTet
end LapyVerif
