import Mathlib.Tactic.Ring
import Mathlib.Tactic.Linarith
import Mathlib.Tactic.FieldSimp
import Mathlib.Tactic.Positivity
import Mathlib.Algebra.BigOperators.Group.List.Basic
import LapyVerif.Lemmas.BridgeTac
import LapyVerif.Lemmas.Count
import LapyVerif.Model.Level
/-
  Helper lemmas for C16 (`level_length`, `level_path`): the isolated corner, crossing points, the list plumbing of
  `pathData`, `np.interp`, cumulative arc length, and the removal of near-duplicate points.
-/
namespace LapyVerif
namespace LevelLemmas
open Level V3

@[simp] theorem one_real : (Level.one : ℝ) = 1 := by simp [Level.one]

/-! ### the isolated corner -/

/-- raw reading of `isolated` in terms of the three flags `level < f_i` -/
theorem isolated_eq_some (f0 f1 f2 level : ℝ) (s : Nat) :
    isolated f0 f1 f2 level = some s ↔
      (s = 0 ∧ ((level < f0 ∧ ¬ level < f1 ∧ ¬ level < f2) ∨ (¬ level < f0 ∧ level < f1 ∧ level < f2))) ∨
      (s = 1 ∧ ((level < f1 ∧ ¬ level < f0 ∧ ¬ level < f2) ∨ (¬ level < f1 ∧ level < f0 ∧ level < f2))) ∨
      (s = 2 ∧ ((level < f2 ∧ ¬ level < f0 ∧ ¬ level < f1) ∨ (¬ level < f2 ∧ level < f0 ∧ level < f1))) := by
  unfold isolated
  by_cases h0 : level < f0 <;> by_cases h1 : level < f1 <;> by_cases h2 : level < f2 <;>
    simp [h0, h1, h2] <;> omega

theorem isolated_eq_none (f0 f1 f2 level : ℝ) :
    isolated f0 f1 f2 level = none ↔
      (level < f0 ∧ level < f1 ∧ level < f2) ∨ (¬ level < f0 ∧ ¬ level < f1 ∧ ¬ level < f2) := by
  unfold isolated
  by_cases h0 : level < f0 <;> by_cases h1 : level < f1 <;> by_cases h2 : level < f2 <;> simp [h0, h1, h2]

theorem isolated_lt_three {f0 f1 f2 level : ℝ} {s : Nat} (h : isolated f0 f1 f2 level = some s) : s < 3 := by
  rcases (isolated_eq_some f0 f1 f2 level s).1 h with h | h | h <;> omega

/-! ### crossing points -/

theorem crossPoint_real (vtx : Nat → V3 ℝ) (f : Nat → ℝ) (level : ℝ) (a b : Nat) :
    crossPoint vtx f level a b
      = smul (1 - (level - f a) / (f b - f a)) (vtx a) + smul ((level - f a) / (f b - f a)) (vtx b) := by
  simp [crossPoint]

theorem crossPoint_symm (vtx : Nat → V3 ℝ) (f : Nat → ℝ) (level : ℝ) (a b : Nat) (h : f a ≠ f b) :
    crossPoint vtx f level a b = crossPoint vtx f level b a := by
  rw [crossPoint_real, crossPoint_real]
  have h1 : f b - f a ≠ 0 := sub_ne_zero.2 (Ne.symm h)
  have h2 : f a - f b ≠ 0 := sub_ne_zero.2 h
  have hx : (level - f b) / (f a - f b) = 1 - (level - f a) / (f b - f a) := by
    field_simp; ring
  rw [hx]
  apply V3.ext' <;> simp only [V3.add_x, V3.add_y, V3.add_z, V3.smul_x, V3.smul_y, V3.smul_z] <;> ring

/-! ### crossed triangles -/

/-- cyclic rotation of a triangle starting at corner `s` -/
def rot (τ : Tri) (s : Nat) : Nat × Nat × Nat := (nth3 τ s, nth3 τ (s + 1), nth3 τ (s + 2))

theorem rot_zero (τ : Tri) : rot τ 0 = (τ.1, τ.2.1, τ.2.2) := rfl
theorem rot_one (τ : Tri) : rot τ 1 = (τ.2.1, τ.2.2, τ.1) := rfl
theorem rot_two (τ : Tri) : rot τ 2 = (τ.2.2, τ.1, τ.2.1) := rfl

theorem crossed_eq (ts : List Tri) (f : Nat → ℝ) (level : ℝ) :
    crossed ts f level = (ts.zipIdx).filterMap fun p =>
      (isolated (f p.1.1) (f p.1.2.1) (f p.1.2.2) level).map fun s => (p.2, rot p.1 s) := rfl

theorem mem_crossed {ts : List Tri} {f : Nat → ℝ} {level : ℝ} {c : Nat × Nat × Nat × Nat} :
    c ∈ crossed ts f level ↔
      ∃ τ s, ts[c.1]? = some τ ∧ isolated (f τ.1) (f τ.2.1) (f τ.2.2) level = some s ∧ c.2 = rot τ s := by
  rw [crossed_eq, List.mem_filterMap]
  constructor
  · rintro ⟨⟨τ, k⟩, hp, hc⟩
    rw [Option.map_eq_some_iff] at hc
    obtain ⟨s, hs, rfl⟩ := hc
    exact ⟨τ, s, List.mk_mem_zipIdx_iff_getElem?.1 hp, hs, rfl⟩
  · rintro ⟨τ, s, hk, hs, hr⟩
    refine ⟨(τ, c.1), List.mk_mem_zipIdx_iff_getElem?.2 hk, ?_⟩
    rw [Option.map_eq_some_iff]
    exact ⟨s, hs, by rw [← hr]⟩

/-- in a crossed triangle the isolated corner `g0` is on the other side of the level than `g1` and `g2` -/
theorem crossed_sep {ts : List Tri} {f : Nat → ℝ} {level : ℝ} {c : Nat × Nat × Nat × Nat} (h : c ∈ crossed ts f level) :
    (level < f c.2.1 ∧ ¬ level < f c.2.2.1 ∧ ¬ level < f c.2.2.2) ∨
    (¬ level < f c.2.1 ∧ level < f c.2.2.1 ∧ level < f c.2.2.2) := by
  obtain ⟨τ, s, _, hs, hr⟩ := mem_crossed.1 h
  rcases (isolated_eq_some _ _ _ _ _).1 hs with ⟨rfl, h⟩ | ⟨rfl, h⟩ | ⟨rfl, h⟩
  · rw [hr, rot_zero]; exact h
  · rw [hr, rot_one]; simp only; tauto
  · rw [hr, rot_two]; simp only; tauto

theorem crossed_ne {ts : List Tri} {f : Nat → ℝ} {level : ℝ} {c : Nat × Nat × Nat × Nat} (h : c ∈ crossed ts f level) :
    f c.2.1 ≠ f c.2.2.1 ∧ f c.2.1 ≠ f c.2.2.2 := by
  rcases crossed_sep h with ⟨h0, h1, h2⟩ | ⟨h0, h1, h2⟩
  · exact ⟨fun e => h1 (e ▸ h0), fun e => h2 (e ▸ h0)⟩
  · exact ⟨fun e => h0 (e ▸ h1), fun e => h0 (e ▸ h2)⟩

/-! ### `pathData` -/

def e1 (c : Nat × Nat × Nat × Nat) : Nat × Nat := sortPair c.2.1 c.2.2.1
def e2 (c : Nat × Nat × Nat × Nat) : Nat × Nat := sortPair c.2.1 c.2.2.2

/-- the sorted duplicate-free list of crossed mesh edges -/
def edgesOf (cr : List (Nat × Nat × Nat × Nat)) : List (Nat × Nat) :=
  ((cr.map e1 ++ cr.map e2).eraseDups).mergeSort (fun a b => Topo.lexLe a b)

def idxIn (l : List (Nat × Nat)) (e : Nat × Nat) : Nat := (l.idxOf? e).getD 0

theorem pathData_edges (vtx : Nat → V3 ℝ) (ts : List Tri) (f : Nat → ℝ) (level : ℝ) :
    (pathData vtx ts f level).edges = edgesOf (crossed ts f level) := rfl

theorem pathData_pts (vtx : Nat → V3 ℝ) (ts : List Tri) (f : Nat → ℝ) (level : ℝ) :
    (pathData vtx ts f level).pts = (pathData vtx ts f level).edges.map fun e => crossPoint vtx f level e.1 e.2 := rfl

theorem zip_map_self {α β : Type} (l : List α) (g : α → β) : l.zip (l.map g) = l.map fun x => (x, g x) := by
  induction l with
  | nil => rfl
  | cons a l ih => simp [ih]

theorem pathData_segs (vtx : Nat → V3 ℝ) (ts : List Tri) (f : Nat → ℝ) (level : ℝ) :
    (pathData vtx ts f level).segs = (crossed ts f level).map fun c =>
      (c.1, idxIn (edgesOf (crossed ts f level)) (e1 c), idxIn (edgesOf (crossed ts f level)) (e2 c)) := by
  show ((crossed ts f level).zip (((crossed ts f level).map e1).zip ((crossed ts f level).map e2))).map _ = _
  rw [List.zip_map', zip_map_self, List.map_map]
  rfl

theorem pathData_length (vtx : Nat → V3 ℝ) (ts : List Tri) (f : Nat → ℝ) (level : ℝ) :
    (pathData vtx ts f level).length = ((pathData vtx ts f level).segs.map fun s =>
      dist ((pathData vtx ts f level).pts.getD s.2.1 ⟨0, 0, 0⟩) ((pathData vtx ts f level).pts.getD s.2.2 ⟨0, 0, 0⟩)).sum := rfl

theorem mem_edgesOf {cr : List (Nat × Nat × Nat × Nat)} {e : Nat × Nat} :
    e ∈ edgesOf cr ↔ ∃ c ∈ cr, e = e1 c ∨ e = e2 c := by
  unfold edgesOf
  rw [List.mem_mergeSort, List.mem_eraseDups, List.mem_append, List.mem_map, List.mem_map]
  constructor
  · rintro (⟨c, hc, rfl⟩ | ⟨c, hc, rfl⟩)
    · exact ⟨c, hc, Or.inl rfl⟩
    · exact ⟨c, hc, Or.inr rfl⟩
  · rintro ⟨c, hc, rfl | rfl⟩
    · exact Or.inl ⟨c, hc, rfl⟩
    · exact Or.inr ⟨c, hc, rfl⟩

theorem edgesOf_nodup (cr : List (Nat × Nat × Nat × Nat)) : (edgesOf cr).Nodup := by
  unfold edgesOf
  rw [(List.mergeSort_perm _ _).nodup_iff]
  exact Lemmas.nodup_eraseDups _

theorem idxIn_spec {l : List (Nat × Nat)} {e : Nat × Nat} (h : e ∈ l) :
    ∃ (hi : idxIn l e < l.length), l[idxIn l e] = e := by
  unfold idxIn
  cases hidx : l.idxOf? e with
  | none => exact absurd h (List.idxOf?_eq_none_iff.1 hidx)
  | some i =>
    obtain ⟨hi, he, _⟩ := List.idxOf?_eq_some_iff.1 hidx
    exact ⟨hi, he⟩

theorem getD_pts (vtx : Nat → V3 ℝ) (f : Nat → ℝ) (level : ℝ) {l : List (Nat × Nat)} {e : Nat × Nat} (h : e ∈ l) :
    (l.map fun e => crossPoint vtx f level e.1 e.2).getD (idxIn l e) ⟨0, 0, 0⟩ = crossPoint vtx f level e.1 e.2 := by
  obtain ⟨hi, he⟩ := idxIn_spec h
  rw [List.getD_eq_getElem?_getD, List.getElem?_eq_getElem (by simpa using hi), List.getElem_map, he]
  rfl

theorem crossPoint_sortPair (vtx : Nat → V3 ℝ) (f : Nat → ℝ) (level : ℝ) (a b : Nat) (h : f a ≠ f b) :
    crossPoint vtx f level (sortPair a b).1 (sortPair a b).2 = crossPoint vtx f level a b := by
  unfold sortPair
  rcases Nat.le_total a b with hab | hab
  · rw [Nat.min_eq_left hab, Nat.max_eq_right hab]
  · rw [Nat.min_eq_right hab, Nat.max_eq_left hab]
    exact crossPoint_symm vtx f level b a (Ne.symm h)

/-! ### `np.interp` -/

theorem interp_cons (x0 f0 : ℝ) (xs fs : List ℝ) (x : ℝ) :
    interp (x0 :: xs) (f0 :: fs) x = if ¬ (x0 < x) then f0 else interp.go x (x0 :: xs) (f0 :: fs) := rfl

theorem go_cons2 (x x0 x1 f0 f1 : ℝ) (xs fs : List ℝ) :
    interp.go x (x0 :: x1 :: xs) (f0 :: f1 :: fs) =
      if x < x1 then ((f1 - f0) / (x1 - x0)) * (x - x0) + f0
      else if xs.isEmpty then f1 else interp.go x (x1 :: xs) (f1 :: fs) := by
  rw [interp.go]

/-- on `[xp[j], xp[j+1])` the walk of `np.interp` returns the linear interpolant (weakly increasing `xp`) -/
theorem go_at (x : ℝ) : ∀ (j : Nat) (xp fp : List ℝ) (hlen : xp.length = fp.length) (_ : xp.Pairwise (· ≤ ·))
    (hj : j + 1 < xp.length), xp[j] ≤ x → x < xp[j + 1] →
    interp.go x xp fp = ((fp[j + 1]'(hlen ▸ hj) - fp[j]'(by omega)) / (xp[j + 1] - xp[j])) * (x - xp[j]) + fp[j]'(by omega) := by
  intro j
  induction j with
  | zero =>
    intro xp fp hlen _ hj h1 h2
    match xp, fp, hlen, hj with
    | x0 :: x1 :: xs, f0 :: f1 :: fs, _, _ =>
      simp only [List.getElem_cons_zero, List.getElem_cons_succ] at h1 h2 ⊢
      rw [go_cons2, if_pos h2]
  | succ j ih =>
    intro xp fp hlen hp hj h1 h2
    match xp, fp, hlen, hj with
    | x0 :: x1 :: xs, f0 :: f1 :: fs, hlen, hj =>
      simp only [List.getElem_cons_succ] at h1 h2 ⊢
      have hx1 : x1 ≤ x := by
        refine le_trans ?_ h1
        rcases Nat.eq_zero_or_pos j with rfl | hpos
        · simp
        · have := (List.pairwise_iff_getElem.1 hp.tail) 0 j (by simp) (by simp at hj ⊢; omega) hpos
          simpa using this
      have hne : xs.isEmpty = false := by
        cases xs with
        | nil => simp at hj
        | cons a b => rfl
      rw [go_cons2, if_neg (not_lt.2 hx1), hne]
      simp only [Bool.false_eq_true, ↓reduceIte]
      exact ih (x1 :: xs) (f1 :: fs) (by simpa using hlen) hp.tail (by simpa using hj) h1 h2

/-- beyond all abscissae the walk returns the last ordinate -/
theorem go_last (x : ℝ) : ∀ (xp fp : List ℝ), xp.length = fp.length → 2 ≤ xp.length → (∀ y ∈ xp, y ≤ x) →
    fp.getLast? = some (interp.go x xp fp) := by
  intro xp
  induction xp with
  | nil => intro fp _ h2 _; simp at h2
  | cons x0 xs ih =>
    intro fp hlen h2 hall
    match xs, fp, hlen, h2 with
    | x1 :: xs', f0 :: f1 :: fs, hlen, _ =>
      have hx1 : ¬ x < x1 := not_lt.2 (hall x1 (by simp))
      rw [go_cons2, if_neg hx1]
      cases xs' with
      | nil =>
        cases fs with
        | nil => simp
        | cons a b => simp at hlen
      | cons x2 xs'' =>
        simp only [List.isEmpty_cons, Bool.false_eq_true, ↓reduceIte]
        rw [List.getLast?_cons_cons]
        exact ih (f1 :: fs) (by simpa using hlen) (by simp) (fun y hy => hall y (List.mem_cons_of_mem _ hy))

/-! ### cumulative arc length -/

/-- the cumulative sums built by `resample1` -/
def cum (acc l : List ℝ) : List ℝ := l.foldl (fun acc x => acc ++ [acc.getLastD 0 + x]) acc

theorem cum_length (acc l : List ℝ) : (cum acc l).length = acc.length + l.length := by
  induction l generalizing acc with
  | nil => simp [cum]
  | cons x l ih =>
    show (cum (acc ++ [acc.getLastD 0 + x]) l).length = _
    rw [ih]; simp; omega

theorem cum_head (a : ℝ) (acc l : List ℝ) : ∃ r, cum (a :: acc) l = a :: r := by
  induction l generalizing acc with
  | nil => exact ⟨acc, rfl⟩
  | cons x l ih =>
    show ∃ r, cum ((a :: acc) ++ [(a :: acc).getLastD 0 + x]) l = a :: r
    exact ih _

theorem cum_last (acc l : List ℝ) : (cum acc l).getLastD 0 = acc.getLastD 0 + l.sum := by
  induction l generalizing acc with
  | nil => simp [cum]
  | cons x l ih =>
    show (cum (acc ++ [acc.getLastD 0 + x]) l).getLastD 0 = _
    rw [ih]; simp [List.getLastD_eq_getLast?]; ring

theorem cum_le_last (acc l : List ℝ) (hacc : ∀ y ∈ acc, y ≤ acc.getLastD 0) (hl : ∀ x ∈ l, 0 ≤ x) :
    ∀ y ∈ cum acc l, y ≤ (cum acc l).getLastD 0 := by
  induction l generalizing acc with
  | nil => exact hacc
  | cons x l ih =>
    show ∀ y ∈ cum (acc ++ [acc.getLastD 0 + x]) l, y ≤ (cum (acc ++ [acc.getLastD 0 + x]) l).getLastD 0
    apply ih
    · intro y hy
      have hx := hl x List.mem_cons_self
      have hlast : (acc ++ [acc.getLastD 0 + x]).getLastD 0 = acc.getLastD 0 + x := by simp [List.getLastD_eq_getLast?]
      rw [hlast]
      rcases List.mem_append.1 hy with h | h
      · have := hacc y h; linarith
      · simp only [List.mem_singleton] at h; rw [h]
    · exact fun z hz => hl z (List.mem_cons_of_mem _ hz)

theorem cum_pairwise (acc l : List ℝ) (hp : acc.Pairwise (· ≤ ·)) (hacc : ∀ y ∈ acc, y ≤ acc.getLastD 0)
    (hl : ∀ x ∈ l, 0 ≤ x) : (cum acc l).Pairwise (· ≤ ·) := by
  induction l generalizing acc with
  | nil => exact hp
  | cons x l ih =>
    show (cum (acc ++ [acc.getLastD 0 + x]) l).Pairwise (· ≤ ·)
    have hx := hl x List.mem_cons_self
    have hlast : (acc ++ [acc.getLastD 0 + x]).getLastD 0 = acc.getLastD 0 + x := by simp [List.getLastD_eq_getLast?]
    apply ih
    · rw [List.pairwise_append]
      refine ⟨hp, by simp, ?_⟩
      intro a ha b hb
      simp only [List.mem_singleton] at hb
      rw [hb]; have := hacc a ha; linarith
    · intro y hy
      rw [hlast]
      rcases List.mem_append.1 hy with h | h
      · have := hacc y h; linarith
      · simp only [List.mem_singleton] at h; rw [h]
    · exact fun z hz => hl z (List.mem_cons_of_mem _ hz)

theorem sum_eq_zero_of_nonneg (l : List ℝ) (hl : ∀ x ∈ l, 0 ≤ x) (hs : l.sum = 0) : ∀ x ∈ l, x = 0 := by
  induction l with
  | nil => intro x hx; cases hx
  | cons a l ih =>
    have ha := hl a List.mem_cons_self
    have hr : 0 ≤ l.sum := List.sum_nonneg (fun x hx => hl x (List.mem_cons_of_mem _ hx))
    rw [List.sum_cons] at hs
    intro x hx
    rcases List.mem_cons.1 hx with rfl | hx
    · linarith
    · exact ih (fun y hy => hl y (List.mem_cons_of_mem _ hy)) (by linarith) x hx

theorem dist_nonneg (p q : V3 ℝ) : 0 ≤ Level.dist p q := by
  unfold Level.dist; simp only [sqrt_real]; exact Real.sqrt_nonneg _

theorem normSq_nonneg' (a : V3 ℝ) : 0 ≤ normSq a := by
  v3_flat; nlinarith [sq_nonneg a.x, sq_nonneg a.y, sq_nonneg a.z]

theorem eq_of_dist_eq_zero {p q : V3 ℝ} (h : Level.dist p q = 0) : p = q := by
  unfold Level.dist at h
  simp only [sqrt_real] at h
  have h0 : normSq (p - q) = 0 := (Real.sqrt_eq_zero (normSq_nonneg' _)).1 h
  have hx : (p.x - q.x) ^ 2 + (p.y - q.y) ^ 2 + (p.z - q.z) ^ 2 = 0 := by
    have := h0
    simp only [V3.normSq, V3.dot, V3.sub_x, V3.sub_y, V3.sub_z] at this
    nlinarith [this]
  have h1 : p.x - q.x = 0 := by nlinarith [sq_nonneg (p.x - q.x), sq_nonneg (p.y - q.y), sq_nonneg (p.z - q.z)]
  have h2 : p.y - q.y = 0 := by nlinarith [sq_nonneg (p.x - q.x), sq_nonneg (p.y - q.y), sq_nonneg (p.z - q.z)]
  have h3 : p.z - q.z = 0 := by nlinarith [sq_nonneg (p.x - q.x), sq_nonneg (p.y - q.y), sq_nonneg (p.z - q.z)]
  apply V3.ext' <;> linarith

/-- a polyline all of whose segments are degenerate is constant -/
theorem chain_const {α : Type} : ∀ (path : List α), (∀ pq ∈ path.zip (path.drop 1), pq.1 = pq.2) →
    ∀ y ∈ path, some y = path.head?
  | [], _ => by intro y hy; cases hy
  | [p], _ => by intro y hy; simp at hy; simp [hy]
  | p :: q :: r, h => by
    have hpq : p = q := h (p, q) (by simp)
    have ih := chain_const (q :: r) (fun pq hpq => h pq (by simp at hpq ⊢; exact Or.inr hpq))
    intro y hy
    rcases List.mem_cons.1 hy with rfl | hy
    · rfl
    · have := ih y hy
      simp at this ⊢
      rw [this, hpq]

/-! ### `resample1` -/

/-- segment lengths of a polyline -/
noncomputable def segLens (path : List (V3 ℝ)) : List ℝ := (path.zip (path.drop 1)).map fun pq => Level.dist pq.2 pq.1
/-- cumulative arc length at the points of the polyline -/
noncomputable def arcLen (path : List (V3 ℝ)) : List ℝ := cum [0] (segLens path)
/-- total length -/
noncomputable def totalLen (path : List (V3 ℝ)) : ℝ := (arcLen path).getLastD 0
/-- the arc-length parameters of the `n` samples -/
noncomputable def samples (path : List (V3 ℝ)) (n : Nat) : List ℝ :=
  (List.range n).map fun i => if i + 1 == n then totalLen path else ((i : Nat) : ℝ) * (totalLen path / (((n - 1 : Nat)) : ℝ))
/-- the point of the polyline at arc length `s`, as `np.interp` computes it coordinate by coordinate -/
noncomputable def pointAt (path : List (V3 ℝ)) (s : ℝ) : V3 ℝ :=
  ⟨interp (arcLen path) (path.map (·.x)) s, interp (arcLen path) (path.map (·.y)) s, interp (arcLen path) (path.map (·.z)) s⟩

theorem resample1_eq (path : List (V3 ℝ)) (n : Nat) : resample1 path n = (samples path n).map (pointAt path) := rfl

theorem segLens_length (path : List (V3 ℝ)) : (segLens path).length = path.length - 1 := by
  simp [segLens]

theorem arcLen_length (path : List (V3 ℝ)) : (arcLen path).length = path.length - 1 + 1 := by
  unfold arcLen; rw [cum_length, segLens_length]; simp; omega

theorem segLens_nonneg (path : List (V3 ℝ)) : ∀ x ∈ segLens path, 0 ≤ x := by
  intro x hx
  unfold segLens at hx
  rw [List.mem_map] at hx
  obtain ⟨pq, _, rfl⟩ := hx
  exact dist_nonneg _ _

theorem totalLen_eq (path : List (V3 ℝ)) : totalLen path = (segLens path).sum := by
  unfold totalLen arcLen; rw [cum_last]; simp

theorem arcLen_le_total (path : List (V3 ℝ)) : ∀ y ∈ arcLen path, y ≤ totalLen path :=
  cum_le_last [0] (segLens path) (by simp) (segLens_nonneg path)

theorem arcLen_pairwise (path : List (V3 ℝ)) : (arcLen path).Pairwise (· ≤ ·) :=
  cum_pairwise [0] (segLens path) (by simp) (by simp) (segLens_nonneg path)

theorem totalLen_pos_of_ne {path : List (V3 ℝ)} {p q : V3 ℝ} (hp : path.head? = some p) (hq : path.getLast? = some q)
    (hne : p ≠ q) : 0 < totalLen path := by
  rw [totalLen_eq]
  have hnn := segLens_nonneg path
  rcases (List.sum_nonneg hnn).lt_or_eq with h | h
  · exact h
  · exfalso
    have hz := sum_eq_zero_of_nonneg _ hnn h.symm
    have hconst := chain_const path (by
      intro pq hpq
      have : Level.dist pq.2 pq.1 = 0 := hz _ (List.mem_map.2 ⟨pq, hpq, rfl⟩)
      exact (eq_of_dist_eq_zero this).symm)
    have hqm : q ∈ path := List.mem_of_getLast? hq
    have := hconst q hqm
    rw [hp] at this
    exact hne (Option.some.inj this).symm

theorem pointAt_zero (p : V3 ℝ) (rest : List (V3 ℝ)) : pointAt (p :: rest) 0 = p := by
  obtain ⟨r, hr⟩ := cum_head 0 [] (segLens (p :: rest))
  unfold pointAt arcLen
  rw [hr]
  simp only [List.map_cons, interp_cons, lt_irrefl, not_false_eq_true, ↓reduceIte]

theorem pointAt_total {path : List (V3 ℝ)} (h2 : 2 ≤ path.length) (hpos : 0 < totalLen path) {q : V3 ℝ}
    (hq : path.getLast? = some q) : pointAt path (totalLen path) = q := by
  have hlen : (arcLen path).length = path.length := by rw [arcLen_length]; omega
  obtain ⟨p, rest, rfl⟩ : ∃ p rest, path = p :: rest := by
    cases path with
    | nil => simp at h2
    | cons p rest => exact ⟨p, rest, rfl⟩
  have key : ∀ (g : V3 ℝ → ℝ), interp (arcLen (p :: rest)) ((p :: rest).map g) (totalLen (p :: rest)) = g q := by
    intro g
    obtain ⟨r, hr⟩ := cum_head 0 [] (segLens (p :: rest))
    have hr' : arcLen (p :: rest) = 0 :: r := hr
    have hgo := go_last (totalLen (p :: rest)) (arcLen (p :: rest)) ((p :: rest).map g) (by simpa using hlen)
      (by rw [hlen]; exact h2) (arcLen_le_total _)
    rw [List.getLast?_map, hq] at hgo
    simp only [Option.map_some, Option.some.injEq] at hgo
    have e : ∀ A : List ℝ, A = 0 :: r → interp A (g p :: rest.map g) (totalLen (p :: rest))
        = interp.go (totalLen (p :: rest)) A (g p :: rest.map g) := by
      intro A hA; subst hA; rw [interp_cons, if_neg (not_not.2 hpos)]
    rw [hgo]
    exact e _ hr'
  unfold pointAt
  rw [key, key, key]

theorem samples_length (path : List (V3 ℝ)) (n : Nat) : (samples path n).length = n := by simp [samples]

theorem samples_head {path : List (V3 ℝ)} {n : Nat} (hn : 2 ≤ n) : (samples path n).head? = some 0 := by
  match n, hn with
  | n + 2, _ =>
    simp only [samples, List.range_succ_eq_map, List.map_cons, List.head?_cons]
    have : ¬ (0 + 1 = n + 2) := by omega
    simp

theorem samples_last {path : List (V3 ℝ)} {n : Nat} (hn : 1 ≤ n) : (samples path n).getLast? = some (totalLen path) := by
  match n, hn with
  | n + 1, _ =>
    simp only [samples, List.range_succ, List.map_append, List.map_cons, List.map_nil, List.getLast?_append,
      List.getLast?_singleton]
    simp

/-- equally spaced: the `i`-th parameter is `i · total/(n−1)` (the last one is stored as `total` itself) -/
theorem samples_getElem {path : List (V3 ℝ)} {n : Nat} (hn : 2 ≤ n) (i : Nat) (hi : i < (samples path n).length) :
    (samples path n)[i] = (i : ℝ) * (totalLen path / ((n - 1 : Nat) : ℝ)) := by
  have hi' : i < n := by rwa [samples_length] at hi
  simp only [samples, List.getElem_map, List.getElem_range]
  split
  · rename_i h
    have : i = n - 1 := by simp at h; omega
    subst this
    have : ((n - 1 : Nat) : ℝ) ≠ 0 := by
      have : 0 < n - 1 := by omega
      exact_mod_cast this.ne'
    field_simp
  · rfl

/-! ### removal of near-duplicate points -/

/-- keep a point iff its squared distance to its successor exceeds `eps`; always keep the last point -/
noncomputable def keepSpec (eps : ℝ) : List (V3 ℝ) → List (V3 ℝ)
  | [] => []
  | [p] => [p]
  | p :: q :: r => if eps < normSq (p - q) then p :: keepSpec eps (q :: r) else keepSpec eps (q :: r)

noncomputable def flagsOf (eps : ℝ) (P : List (V3 ℝ)) : List Bool :=
  ((P.zip (P.drop 1)).map fun pq => normSq (pq.1 - pq.2)).map fun x => decide (eps < x)

theorem kept_eq (eps : ℝ) : ∀ P : List (V3 ℝ),
    ((P.zip (flagsOf eps P ++ [true])).filter (·.2)).map (·.1) = keepSpec eps P
  | [] => rfl
  | [p] => by simp [flagsOf, keepSpec]
  | p :: q :: r => by
    have ih := kept_eq eps (q :: r)
    have hf : flagsOf eps (p :: q :: r) = decide (eps < normSq (p - q)) :: flagsOf eps (q :: r) := by
      simp [flagsOf]
    rw [hf, List.cons_append, List.zip_cons_cons, List.filter_cons, keepSpec]
    by_cases h : eps < normSq (p - q)
    · simp only [h, decide_true, ↓reduceIte, List.map_cons, ih]
    · simp only [h, decide_false, Bool.false_eq_true, ↓reduceIte, ih]

theorem keepSpec_sublist (eps : ℝ) : ∀ P : List (V3 ℝ), (keepSpec eps P).Sublist P
  | [] => List.Sublist.refl _
  | [p] => List.Sublist.refl _
  | p :: q :: r => by
    have ih := keepSpec_sublist eps (q :: r)
    rw [keepSpec]
    split
    · exact ih.cons_cons p
    · exact ih.cons p

theorem keepSpec_getLast (eps : ℝ) : ∀ P : List (V3 ℝ), (keepSpec eps P).getLast? = P.getLast?
  | [] => rfl
  | [p] => rfl
  | p :: q :: r => by
    have ih := keepSpec_getLast eps (q :: r)
    have hne : keepSpec eps (q :: r) ≠ [] := by
      intro h; rw [h] at ih
      have := congrArg Option.isSome ih
      simp at this
    rw [keepSpec, List.getLast?_cons_cons]
    split
    · obtain ⟨a, l, hl⟩ := List.exists_cons_of_ne_nil hne
      rw [hl, List.getLast?_cons_cons, ← hl]; exact ih
    · exact ih

theorem keepSpec_length (eps : ℝ) : ∀ P : List (V3 ℝ), P ≠ [] →
    (keepSpec eps P).length = (flagsOf eps P).count true + 1
  | [], h => absurd rfl h
  | [p], _ => by simp [keepSpec, flagsOf]
  | p :: q :: r, _ => by
    have ih := keepSpec_length eps (q :: r) (by simp)
    have hf : flagsOf eps (p :: q :: r) = decide (eps < normSq (p - q)) :: flagsOf eps (q :: r) := by
      simp [flagsOf]
    rw [hf, keepSpec]
    by_cases h : eps < normSq (p - q)
    · simp [h, ih]
    · simp [h, ih]

theorem filter_zip_length {α : Type} (T : List α) (F : List Bool) (h : T.length = F.length) :
    (((T.zip F).filter (·.2)).map (·.1)).length = F.count true := by
  induction T generalizing F with
  | nil => cases F with
    | nil => rfl
    | cons b F => simp at h
  | cons t T ih =>
    cases F with
    | nil => simp at h
    | cons b F =>
      have := ih F (by simpa using h)
      cases b <;> simp_all

/-! ### `levelPath`, unfolded -/

def segEdges (segs : List (Nat × Nat × Nat)) : List (Nat × Nat) := segs.map fun s => (s.2.1, s.2.2)
def nNodes (es : List (Nat × Nat)) : Nat := es.foldl (fun m e => max m (max e.1 e.2)) 0 + 1
def degOf (es : List (Nat × Nat)) (i : Nat) : Nat := (es.filter fun e => e.1 == i).length + (es.filter fun e => e.2 == i).length
def endsOf (es : List (Nat × Nat)) : List Nat := (List.range (nNodes es)).filter fun i => degOf es i == 1
def bfsDist (es : List (Nat × Nat)) : List (Option Nat) := bfs (nNodes es) es ((endsOf es).headD 0)
/-- argsort of the breadth-first distances -/
def orderOf (es : List (Nat × Nat)) : List Nat :=
  (((List.range (nNodes es)).map fun i => (((bfsDist es).getD i none).getD 0, i)).mergeSort
    (fun a b => Topo.lexLe a b)).map (·.2)
def segOf (segs : List (Nat × Nat × Nat)) (a b : Nat) : Option Nat :=
  (segs.find? fun s => (s.2.1 == a && s.2.2 == b) || (s.2.1 == b && s.2.2 == a)).map (·.1)
def triasOf (segs : List (Nat × Nat × Nat)) (order : List Nat) : List Nat :=
  (order.zip (order.drop 1)).map fun ab => (segOf segs ab.1 ab.2).getD 0

theorem levelPath_eq (vtx : Nat → V3 ℝ) (ts : List Tri) (f : Nat → ℝ) (level : ℝ) :
    levelPath vtx ts f level =
      (let pd := pathData vtx ts f level
       let es := segEdges pd.segs
       if es.isEmpty then .valueError else
       if (endsOf es).length != 2 then .valueError else
       if (bfsDist es).any (·.isNone) then .valueError else
       let path3d := (orderOf es).map fun i => pd.pts.getD i ⟨0, 0, 0⟩
       let flags := flagsOf (Level.one / ((1000000 : Nat) : ℝ)) path3d
       .ok (((path3d.zip (flags ++ [true])).filter (·.2)).map (·.1)) pd.length
         ((((triasOf pd.segs (orderOf es)).zip flags).filter (·.2)).map (·.1))) := rfl

end LevelLemmas
end LapyVerif
