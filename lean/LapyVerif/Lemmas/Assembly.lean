import Mathlib.Algebra.BigOperators.Group.List.Basic
import Mathlib.Algebra.Order.BigOperators.Group.List
import LapyVerif.Lemmas.BridgeTac
import LapyVerif.Model.Fem
/-
  Linearity of assembly: the bilinear form / row action / total of a flattened list of element blocks is the
  sum over the elements.  No bound on the number of elements; no manifoldness, orientation or range hypothesis.
-/
namespace LapyVerif
namespace Coo

theorem form_nil (f g : Nat → ℝ) : form ([] : Coo ℝ) f g = 0 := rfl

theorem form_cons (e : (Nat × Nat) × ℝ) (m : Coo ℝ) (f g : Nat → ℝ) :
    form (e :: m) f g = f e.1.1 * e.2 * g e.1.2 + form m f g := by
  simp [form]

theorem form_append (a b : Coo ℝ) (f g : Nat → ℝ) : form (a ++ b) f g = form a f g + form b f g := by
  simp [form]

theorem form_flatten (l : List (Coo ℝ)) (f g : Nat → ℝ) :
    form l.flatten f g = (l.map fun b => form b f g).sum := by
  induction l with
  | nil => rfl
  | cons b l ih => simp [List.flatten_cons, form_append, ih]

theorem total_append (a b : Coo ℝ) : total (a ++ b) = total a + total b := by
  simp [total]

theorem total_flatten (l : List (Coo ℝ)) : total l.flatten = (l.map total).sum := by
  induction l with
  | nil => rfl
  | cons b l ih => simp [List.flatten_cons, total_append, ih]

theorem mulVec_append (a b : Coo ℝ) (g : Nat → ℝ) (i : Nat) : mulVec (a ++ b) g i = mulVec a g i + mulVec b g i := by
  simp [mulVec]

theorem mulVec_flatten (l : List (Coo ℝ)) (g : Nat → ℝ) (i : Nat) :
    mulVec l.flatten g i = (l.map fun b => mulVec b g i).sum := by
  induction l with
  | nil => rfl
  | cons b l ih => simp [List.flatten_cons, mulVec_append, ih]

theorem entry_append (a b : Coo ℝ) (i j : Nat) : entry (a ++ b) i j = entry a i j + entry b i j := by
  simp [entry]

theorem entry_flatten (l : List (Coo ℝ)) (i j : Nat) :
    entry l.flatten i j = (l.map fun b => entry b i j).sum := by
  induction l with
  | nil => rfl
  | cons b l ih => simp [List.flatten_cons, entry_append, ih]

/-- `entry` is the form evaluated on indicator functions -/
theorem entry_eq_form (m : Coo ℝ) (i j : Nat) :
    entry m i j = form m (fun k => if k = i then 1 else 0) (fun k => if k = j then 1 else 0) := by
  induction m with
  | nil => rfl
  | cons e m ih =>
    rw [form_cons, ← ih]
    by_cases h1 : e.1.1 = i <;> by_cases h2 : e.1.2 = j <;> simp [entry, h1, h2]

/-- `mulVec` is the form against an indicator -/
theorem mulVec_eq_form (m : Coo ℝ) (g : Nat → ℝ) (i : Nat) :
    mulVec m g i = form m (fun k => if k = i then 1 else 0) g := by
  induction m with
  | nil => rfl
  | cons e m ih =>
    rw [form_cons, ← ih]
    by_cases h1 : e.1.1 = i <;> simp [mulVec, h1]

end Coo

/-- zipping a list with a map of itself -/
theorem zip_map_self {α β γ : Type} (l : List α) (f : α → β) (g : α × β → γ) :
    (l.zip (l.map f)).map g = l.map fun a => g (a, f a) := by
  induction l with
  | nil => rfl
  | cons a l ih => simp [ih]

theorem map_id_of_forall {α : Type} (l : List α) (f : α → α) (h : ∀ a ∈ l, f a = a) : l.map f = l := by
  induction l with
  | nil => rfl
  | cons a l ih =>
    simp only [List.map_cons, List.cons.injEq]
    exact ⟨h a (by simp), ih fun b hb => h b (by simp [hb])⟩

end LapyVerif
