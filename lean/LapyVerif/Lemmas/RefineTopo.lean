import LapyVerif.Lemmas.RefineLemmas
/-
  Topology of the refined mesh (C11, item 7): the connectivity predicates of `Model/Topo.lean` expressed by key
  multiplicities, and the decomposition of the half-edges of a refined mesh into (old,new), (new,old) and inner
  (new,new) half-edges.  Everything is stated for an abstract edge-to-new-vertex map `mv`.
-/
namespace LapyVerif
open List
namespace Topo

theorem entry_keys (L : List (Nat × Nat)) (i j : Nat) :
    Coo.entry (L.map fun k => (k, (1 : Nat))) i j = L.count (i, j) := by
  induction L with
  | nil => rfl
  | cons k L ih =>
    obtain ⟨a, b⟩ := k
    simp only [Coo.entry] at ih
    by_cases h1 : a = i <;> by_cases h2 : b = j <;>
      (simp [Coo.entry, h1, h2, ih]; try omega)

theorem keys_adj (L : List (Nat × Nat)) : Coo.keys (L.map fun k => (k, (1 : Nat))) = L.eraseDups := by
  simp only [Coo.keys, List.map_map]
  congr 1
  exact List.map_id' L

theorem data_adj (L : List (Nat × Nat)) :
    Coo.data (L.map fun k => (k, (1 : Nat))) = L.eraseDups.map fun k => L.count k := by
  simp only [Coo.data, keys_adj, entry_keys]

theorem foldl_max_le (l : List Nat) (a n : Nat) : l.foldl max a ≤ n ↔ a ≤ n ∧ ∀ x ∈ l, x ≤ n := by
  induction l generalizing a with
  | nil => simp
  | cons x l ih =>
    simp only [List.foldl_cons, ih, List.mem_cons, forall_eq_or_imp, Nat.max_le, and_assoc]

theorem maxL_le (l : List Nat) (n : Nat) : maxL l ≤ n ↔ ∀ x ∈ l, x ≤ n := by
  simp [maxL, foldl_max_le]

theorem maxL_count_le (L : List (Nat × Nat)) (n : Nat) :
    maxL (L.eraseDups.map fun k => L.count k) ≤ n ↔ ∀ k, L.count k ≤ n := by
  rw [maxL_le]
  simp only [List.mem_map, List.mem_eraseDups]
  constructor
  · intro h k
    by_cases hk : k ∈ L
    · exact h _ ⟨k, hk, rfl⟩
    · rw [List.count_eq_zero_of_not_mem hk]; omega
  · rintro h _ ⟨k, _, rfl⟩; exact h k

/-- manifold test = every (directed) key of `adj_sym` was written at most twice -/
theorem isManifold_iff (ts : List Tri) : isManifold ts = true ↔ ∀ k, (symKeys ts).count k ≤ 2 := by
  rw [isManifold, decide_eq_true_iff, symData, adjSym, data_adj, maxL_count_le]

theorem isClosed_iff (ts : List Tri) : isClosed ts = true ↔ ∀ k, (symKeys ts).count k ≠ 1 := by
  rw [isClosed, symData, adjSym, data_adj, Bool.not_eq_true', Bool.eq_false_iff, Ne, List.contains_iff_mem]
  simp only [List.mem_map, List.mem_eraseDups, not_exists, not_and]
  constructor
  · intro h k hk
    by_cases hm : k ∈ symKeys ts
    · exact h k hm hk
    · rw [List.count_eq_zero_of_not_mem hm] at hk; omega
  · intro h k _ hk; exact h k hk

theorem isOriented_iff (ts : List Tri) : isOriented ts = true ↔ ts ≠ [] ∧ ∀ k, (dirKeys ts).count k ≤ 1 := by
  have h0 : maxL (dirData ts) ≤ 0 ↔ ts = [] := by
    rw [dirData, adjDir, data_adj, maxL_count_le]
    constructor
    · intro h
      cases ts with
      | nil => rfl
      | cons τ ts =>
        exfalso
        obtain ⟨t0, t1, t2⟩ := τ
        have hm : (t0, t1) ∈ dirKeys ((t0, t1, t2) :: ts) := by simp [dirKeys]
        have h1 := h (t0, t1)
        have h2 := List.count_pos_iff.mpr hm
        omega
    · rintro rfl; simp [dirKeys]
  have hle : maxL (dirData ts) ≤ 1 ↔ ∀ k, (dirKeys ts).count k ≤ 1 := by
    rw [dirData, adjDir, data_adj, maxL_count_le]
  rw [isOriented, beq_iff_eq, ← hle, Ne, ← h0]; omega

end Topo

namespace Refine

def dir3 (τ : Tri) : List (Nat × Nat) := [(τ.1, τ.2.1), (τ.2.1, τ.2.2), (τ.2.2, τ.1)]
def sym6 (τ : Tri) : List (Nat × Nat) :=
  [(τ.1, τ.2.1), (τ.2.1, τ.1), (τ.2.1, τ.2.2), (τ.2.2, τ.2.1), (τ.2.2, τ.1), (τ.1, τ.2.2)]

theorem dirKeys_eq (ts : List Tri) : Topo.dirKeys ts = ts.flatMap dir3 := rfl
theorem symKeys_eq (ts : List Tri) : Topo.symKeys ts = ts.flatMap sym6 := rfl

/-- half-edge `(a,b)` ↦ its first half `(a, m_ab)` -/
def φA (mv : Nat → Nat → Nat) (k : Nat × Nat) : Nat × Nat := (k.1, mv k.1 k.2)
/-- half-edge `(a,b)` ↦ its second half `(m_ab, b)` -/
def φB (mv : Nat → Nat → Nat) (k : Nat × Nat) : Nat × Nat := (mv k.1 k.2, k.2)
/-- the six inner half-edges of a parent (three inner edges, both directions) -/
def inner (mv : Nat → Nat → Nat) (τ : Tri) : List (Nat × Nat) :=
  [(mv τ.1 τ.2.1, mv τ.2.2 τ.1), (mv τ.2.1 τ.2.2, mv τ.1 τ.2.1), (mv τ.2.2 τ.1, mv τ.2.1 τ.2.2),
   (mv τ.1 τ.2.1, mv τ.2.1 τ.2.2), (mv τ.2.1 τ.2.2, mv τ.2.2 τ.1), (mv τ.2.2 τ.1, mv τ.1 τ.2.1)]

theorem flatMap_perm3 {α β : Type} (l : List α) (f a b c : α → List β)
    (h : ∀ x ∈ l, f x ~ a x ++ (b x ++ c x)) : l.flatMap f ~ l.flatMap a ++ (l.flatMap b ++ l.flatMap c) :=
  (Perm.flatMap_left l h).trans ((flatMap_append_perm l a (fun x => b x ++ c x)).symm.trans
    (Perm.append_left _ (flatMap_append_perm l b c).symm))

theorem dir_children_perm (mv : Nat → Nat → Nat) (τ : Tri) :
    (children mv τ).flatMap dir3 ~ (dir3 τ).map (φA mv) ++ ((dir3 τ).map (φB mv) ++ inner mv τ) := by
  rw [List.perm_iff_count]
  intro k
  simp only [children, dir3, inner, φA, φB, List.flatMap_cons, List.flatMap_nil, List.map_cons, List.map_nil,
    List.cons_append, List.nil_append, List.append_nil, List.count_cons, List.count_nil, Nat.zero_add]
  ac_rfl

theorem sym_children_perm (mv : Nat → Nat → Nat) (hc : ∀ a b, mv a b = mv b a) (τ : Tri) :
    (children mv τ).flatMap sym6 ~
      (sym6 τ).map (φA mv) ++ ((sym6 τ).map (φB mv) ++ (inner mv τ ++ inner mv τ)) := by
  rw [List.perm_iff_count]
  intro k
  simp only [children, sym6, inner, φA, φB, List.flatMap_cons, List.flatMap_nil, List.map_cons, List.map_nil,
    List.cons_append, List.nil_append, List.append_nil, List.count_cons, List.count_nil, Nat.zero_add]
  rw [hc τ.2.1 τ.1, hc τ.2.2 τ.2.1, hc τ.1 τ.2.2]
  ac_rfl

theorem dirKeys_refTris_perm (mv : Nat → Nat → Nat) (ts : List Tri) :
    Topo.dirKeys (refTris mv ts) ~
      (Topo.dirKeys ts).map (φA mv) ++ ((Topo.dirKeys ts).map (φB mv) ++ ts.flatMap (inner mv)) := by
  rw [dirKeys_eq, dirKeys_eq, refTris, List.flatMap_assoc, List.map_flatMap, List.map_flatMap]
  exact flatMap_perm3 ts _ _ _ _ (fun τ _ => dir_children_perm mv τ)

theorem symKeys_refTris_perm (mv : Nat → Nat → Nat) (hc : ∀ a b, mv a b = mv b a) (ts : List Tri) :
    Topo.symKeys (refTris mv ts) ~
      (Topo.symKeys ts).map (φA mv) ++ ((Topo.symKeys ts).map (φB mv) ++
        (ts.flatMap (inner mv) ++ ts.flatMap (inner mv))) := by
  rw [symKeys_eq, symKeys_eq, refTris, List.flatMap_assoc, List.map_flatMap, List.map_flatMap]
  exact (flatMap_perm3 ts _ _ _ _ (fun τ _ => sym_children_perm mv hc τ)).trans
    (Perm.append_left _ (Perm.append_left _ (flatMap_append_perm ts _ _).symm))

end Refine
namespace Refine

/-- what the refinement needs from the edge numbering: symmetric, new indices, injective on undirected edges -/
structure EdgeMap (vno : Nat) (ts : List Tri) (mv : Nat → Nat → Nat) : Prop where
  comm : ∀ a b, mv a b = mv b a
  ge : ∀ a b, (a, b) ∈ Topo.symKeys ts → vno ≤ mv a b
  inj : ∀ a b c d, (a, b) ∈ Topo.symKeys ts → (c, d) ∈ Topo.symKeys ts → mv a b = mv c d →
    (a = c ∧ b = d) ∨ (a = d ∧ b = c)

/-- `σ`'s vertex set contains `τ`'s -/
def SameVerts (τ σ : Tri) : Prop :=
  (τ.1 = σ.1 ∨ τ.1 = σ.2.1 ∨ τ.1 = σ.2.2) ∧ (τ.2.1 = σ.1 ∨ τ.2.1 = σ.2.1 ∨ τ.2.1 = σ.2.2) ∧
  (τ.2.2 = σ.1 ∨ τ.2.2 = σ.2.1 ∨ τ.2.2 = σ.2.2)

instance (τ σ : Tri) : Decidable (SameVerts τ σ) := by unfold SameVerts; infer_instance

theorem count_map_inj_on {α β : Type} [BEq α] [LawfulBEq α] [BEq β] [LawfulBEq β] (f : α → β) (l : List α) (s : α)
    (h : ∀ x ∈ l, f x = f s → x = s) : (l.map f).count (f s) = l.count s := by
  induction l with
  | nil => rfl
  | cons x l ih =>
    have ih' := ih (fun y hy => h y (List.mem_cons_of_mem _ hy))
    simp only [List.map_cons, List.count_cons, ih']
    by_cases hx : x = s
    · subst hx; simp
    · have hfx : ¬ f x = f s := fun hf => hx (h x List.mem_cons_self hf)
      simp [hx, hfx]

theorem dir3_sub_sym6 (τ : Tri) : ∀ k ∈ dir3 τ, k ∈ sym6 τ := by
  intro k hk; simp only [dir3, sym6, List.mem_cons, List.not_mem_nil, or_false] at *; tauto

theorem dirKeys_sub_symKeys (ts : List Tri) : ∀ k ∈ Topo.dirKeys ts, k ∈ Topo.symKeys ts := by
  intro k hk
  rw [dirKeys_eq, List.mem_flatMap] at hk
  obtain ⟨τ, hτ, hk⟩ := hk
  rw [symKeys_eq, List.mem_flatMap]
  exact ⟨τ, hτ, dir3_sub_sym6 τ k hk⟩

theorem symKeys_lt {vno : Nat} {ts : List Tri} (hr : ∀ τ ∈ ts, τ.1 < vno ∧ τ.2.1 < vno ∧ τ.2.2 < vno)
    {k : Nat × Nat} (hk : k ∈ Topo.symKeys ts) : k.1 < vno ∧ k.2 < vno := by
  rw [Topo.mem_symKeys] at hk
  obtain ⟨τ, hτ, hk⟩ := hk
  obtain ⟨h0, h1, h2⟩ := hr τ hτ
  simp only [List.mem_cons, List.not_mem_nil, or_false] at hk
  rcases hk with rfl | rfl | rfl | rfl | rfl | rfl <;> exact ⟨by assumption, by assumption⟩

section
variable {vno : Nat} {ts : List Tri} {mv : Nat → Nat → Nat}

theorem φA_inj (hm : EdgeMap vno ts mv) {s s' : Nat × Nat} (hs : s ∈ Topo.symKeys ts) (hs' : s' ∈ Topo.symKeys ts)
    (h : φA mv s' = φA mv s) : s' = s := by
  obtain ⟨a, b⟩ := s; obtain ⟨c, d⟩ := s'
  simp only [φA, Prod.mk.injEq] at h ⊢
  rcases hm.inj c d a b hs' hs h.2 with h' | h' <;> omega

theorem φB_inj (hm : EdgeMap vno ts mv) {s s' : Nat × Nat} (hs : s ∈ Topo.symKeys ts) (hs' : s' ∈ Topo.symKeys ts)
    (h : φB mv s' = φB mv s) : s' = s := by
  obtain ⟨a, b⟩ := s; obtain ⟨c, d⟩ := s'
  simp only [φB, Prod.mk.injEq] at h ⊢
  rcases hm.inj c d a b hs' hs h.1 with h' | h' <;> omega

/-- multiplicities in a key list of the refined mesh that splits into first halves, second halves and
    (new,new) keys `J` of a key list `L` of the parent mesh -/
theorem count_decomp (hm : EdgeMap vno ts mv) (hr : ∀ τ ∈ ts, τ.1 < vno ∧ τ.2.1 < vno ∧ τ.2.2 < vno)
    {L L' J : List (Nat × Nat)} (hL : ∀ k ∈ L, k ∈ Topo.symKeys ts) (hJ : ∀ k ∈ J, vno ≤ k.1 ∧ vno ≤ k.2)
    (hp : L' ~ L.map (φA mv) ++ (L.map (φB mv) ++ J)) :
    (∀ s ∈ L, L'.count (φA mv s) = L.count s) ∧ (∀ s ∈ L, L'.count (φB mv s) = L.count s) ∧
    (∀ k, L'.count k = J.count k ∨ ∃ s ∈ L, L'.count k = L.count s) := by
  have hcount : ∀ k, L'.count k = (L.map (φA mv)).count k + ((L.map (φB mv)).count k + J.count k) := by
    intro k; rw [hp.count_eq, List.count_append, List.count_append]
  have hA : ∀ s ∈ L, (L.map (φA mv)).count (φA mv s) = L.count s ∧ (L.map (φB mv)).count (φA mv s) = 0 ∧
      J.count (φA mv s) = 0 := by
    intro s hs
    have hlt := symKeys_lt hr (hL s hs)
    refine ⟨count_map_inj_on _ _ _ (fun x hx h => φA_inj hm (hL s hs) (hL x hx) h), ?_, ?_⟩
    · apply List.count_eq_zero_of_not_mem
      intro hmem
      obtain ⟨x, hx, hxe⟩ := List.mem_map.mp hmem
      have := hm.ge x.1 x.2 (hL x hx)
      simp only [φA, φB, Prod.mk.injEq] at hxe
      omega
    · apply List.count_eq_zero_of_not_mem
      intro hmem
      have := (hJ _ hmem).1
      simp only [φA] at this
      omega
  have hB : ∀ s ∈ L, (L.map (φB mv)).count (φB mv s) = L.count s ∧ (L.map (φA mv)).count (φB mv s) = 0 ∧
      J.count (φB mv s) = 0 := by
    intro s hs
    have hlt := symKeys_lt hr (hL s hs)
    refine ⟨count_map_inj_on _ _ _ (fun x hx h => φB_inj hm (hL s hs) (hL x hx) h), ?_, ?_⟩
    · apply List.count_eq_zero_of_not_mem
      intro hmem
      obtain ⟨x, hx, hxe⟩ := List.mem_map.mp hmem
      have := hm.ge s.1 s.2 (hL s hs)
      have := symKeys_lt hr (hL x hx)
      simp only [φA, φB, Prod.mk.injEq] at hxe
      omega
    · apply List.count_eq_zero_of_not_mem
      intro hmem
      have := (hJ _ hmem).2
      simp only [φB] at this
      omega
  refine ⟨fun s hs => ?_, fun s hs => ?_, fun k => ?_⟩
  · obtain ⟨h1, h2, h3⟩ := hA s hs; rw [hcount, h1, h2, h3]; omega
  · obtain ⟨h1, h2, h3⟩ := hB s hs; rw [hcount, h1, h2, h3]; omega
  · by_cases hkA : k ∈ L.map (φA mv)
    · obtain ⟨s, hs, rfl⟩ := List.mem_map.mp hkA
      obtain ⟨h1, h2, h3⟩ := hA s hs
      exact Or.inr ⟨s, hs, by rw [hcount, h1, h2, h3]; omega⟩
    · by_cases hkB : k ∈ L.map (φB mv)
      · obtain ⟨s, hs, rfl⟩ := List.mem_map.mp hkB
        obtain ⟨h1, h2, h3⟩ := hB s hs
        exact Or.inr ⟨s, hs, by rw [hcount, h1, h2, h3]; omega⟩
      · left
        rw [hcount, List.count_eq_zero_of_not_mem hkA, List.count_eq_zero_of_not_mem hkB]; omega

end
end Refine

namespace Refine
section
variable {vno : Nat} {ts : List Tri} {mv : Nat → Nat → Nat}

theorem dir3_mem_symKeys {τ : Tri} (hτ : τ ∈ ts) {p : Nat × Nat} (hp : p ∈ dir3 τ) : p ∈ Topo.symKeys ts := by
  rw [symKeys_eq, List.mem_flatMap]; exact ⟨τ, hτ, dir3_sub_sym6 τ p hp⟩

theorem tri_symKeys {τ : Tri} (hτ : τ ∈ ts) :
    (τ.1, τ.2.1) ∈ Topo.symKeys ts ∧ (τ.2.1, τ.2.2) ∈ Topo.symKeys ts ∧ (τ.2.2, τ.1) ∈ Topo.symKeys ts :=
  ⟨dir3_mem_symKeys hτ (by simp [dir3]), dir3_mem_symKeys hτ (by simp [dir3]), dir3_mem_symKeys hτ (by simp [dir3])⟩

theorem inner_ge (hm : EdgeMap vno ts mv) {τ : Tri} (hτ : τ ∈ ts) : ∀ k ∈ inner mv τ, vno ≤ k.1 ∧ vno ≤ k.2 := by
  obtain ⟨h0, h1, h2⟩ := tri_symKeys hτ
  have g0 := hm.ge _ _ h0; have g1 := hm.ge _ _ h1; have g2 := hm.ge _ _ h2
  intro k hk
  simp only [inner, List.mem_cons, List.not_mem_nil, or_false] at hk
  rcases hk with rfl | rfl | rfl | rfl | rfl | rfl <;> exact ⟨by assumption, by assumption⟩

/-- the three new vertices of a non-degenerate triangle are pairwise distinct -/
theorem mv_distinct (hm : EdgeMap vno ts mv) {τ : Tri} (hτ : τ ∈ ts)
    (hd : τ.1 ≠ τ.2.1 ∧ τ.2.1 ≠ τ.2.2 ∧ τ.2.2 ≠ τ.1) :
    mv τ.1 τ.2.1 ≠ mv τ.2.1 τ.2.2 ∧ mv τ.2.1 τ.2.2 ≠ mv τ.2.2 τ.1 ∧ mv τ.2.2 τ.1 ≠ mv τ.1 τ.2.1 := by
  obtain ⟨h0, h1, h2⟩ := tri_symKeys hτ
  refine ⟨fun h => ?_, fun h => ?_, fun h => ?_⟩
  · rcases hm.inj _ _ _ _ h0 h1 h with h' | h' <;> omega
  · rcases hm.inj _ _ _ _ h1 h2 h with h' | h' <;> omega
  · rcases hm.inj _ _ _ _ h2 h0 h with h' | h' <;> omega

theorem six_nodup (x y z : Nat) (h0 : x ≠ y) (h1 : y ≠ z) (h2 : z ≠ x) :
    [(x, z), (y, x), (z, y), (x, y), (y, z), (z, x)].Nodup := by
  simp only [List.nodup_cons, List.mem_cons, Prod.mk.injEq, List.not_mem_nil, or_false, List.nodup_nil, true_and,
    and_true, not_false_eq_true]
  omega

theorem inner_nodup (hm : EdgeMap vno ts mv) {τ : Tri} (hτ : τ ∈ ts)
    (hd : τ.1 ≠ τ.2.1 ∧ τ.2.1 ≠ τ.2.2 ∧ τ.2.2 ≠ τ.1) : (inner mv τ).Nodup := by
  obtain ⟨d0, d1, d2⟩ := mv_distinct hm hτ hd
  exact six_nodup _ _ _ d0 d1 d2

/-- an inner half-edge joins the new vertices of two half-edges `p`, `q` of the parent that cover its vertices -/
theorem mem_inner_cover {τ : Tri} {k : Nat × Nat} (hk : k ∈ inner mv τ) :
    ∃ p q, p ∈ dir3 τ ∧ q ∈ dir3 τ ∧ k = (mv p.1 p.2, mv q.1 q.2) ∧
      ∀ v, (v = τ.1 ∨ v = τ.2.1 ∨ v = τ.2.2) → (v = p.1 ∨ v = p.2 ∨ v = q.1 ∨ v = q.2) := by
  simp only [inner, List.mem_cons, List.not_mem_nil, or_false] at hk
  rcases hk with rfl | rfl | rfl | rfl | rfl | rfl
  · exact ⟨(τ.1, τ.2.1), (τ.2.2, τ.1), by simp [dir3], by simp [dir3], rfl, by intro v hv; simp only; tauto⟩
  · exact ⟨(τ.2.1, τ.2.2), (τ.1, τ.2.1), by simp [dir3], by simp [dir3], rfl, by intro v hv; simp only; tauto⟩
  · exact ⟨(τ.2.2, τ.1), (τ.2.1, τ.2.2), by simp [dir3], by simp [dir3], rfl, by intro v hv; simp only; tauto⟩
  · exact ⟨(τ.1, τ.2.1), (τ.2.1, τ.2.2), by simp [dir3], by simp [dir3], rfl, by intro v hv; simp only; tauto⟩
  · exact ⟨(τ.2.1, τ.2.2), (τ.2.2, τ.1), by simp [dir3], by simp [dir3], rfl, by intro v hv; simp only; tauto⟩
  · exact ⟨(τ.2.2, τ.1), (τ.1, τ.2.1), by simp [dir3], by simp [dir3], rfl, by intro v hv; simp only; tauto⟩

theorem dir3_verts {σ : Tri} {p : Nat × Nat} (hp : p ∈ dir3 σ) :
    (p.1 = σ.1 ∨ p.1 = σ.2.1 ∨ p.1 = σ.2.2) ∧ (p.2 = σ.1 ∨ p.2 = σ.2.1 ∨ p.2 = σ.2.2) := by
  simp only [dir3, List.mem_cons, List.not_mem_nil, or_false] at hp
  rcases hp with rfl | rfl | rfl <;> simp

/-- two triangles with a common inner half-edge have the same vertex set -/
theorem inner_common (hm : EdgeMap vno ts mv) {τ σ : Tri} (hτ : τ ∈ ts) (hσ : σ ∈ ts) {k : Nat × Nat}
    (h1 : k ∈ inner mv τ) (h2 : k ∈ inner mv σ) : SameVerts τ σ := by
  obtain ⟨p, q, hp, hq, rfl, hcov⟩ := mem_inner_cover h1
  obtain ⟨p', q', hp', hq', hk, _⟩ := mem_inner_cover h2
  simp only [Prod.mk.injEq] at hk
  have ep := hm.inj _ _ _ _ (dir3_mem_symKeys hτ hp) (dir3_mem_symKeys hσ hp') hk.1
  have eq := hm.inj _ _ _ _ (dir3_mem_symKeys hτ hq) (dir3_mem_symKeys hσ hq') hk.2
  obtain ⟨vp1, vp2⟩ := dir3_verts hp'
  obtain ⟨vq1, vq2⟩ := dir3_verts hq'
  have P : (p.1 = σ.1 ∨ p.1 = σ.2.1 ∨ p.1 = σ.2.2) ∧ (p.2 = σ.1 ∨ p.2 = σ.2.1 ∨ p.2 = σ.2.2) := by
    rcases ep with ⟨e1, e2⟩ | ⟨e1, e2⟩ <;> rw [e1, e2]
    · exact ⟨vp1, vp2⟩
    · exact ⟨vp2, vp1⟩
  have Q : (q.1 = σ.1 ∨ q.1 = σ.2.1 ∨ q.1 = σ.2.2) ∧ (q.2 = σ.1 ∨ q.2 = σ.2.1 ∨ q.2 = σ.2.2) := by
    rcases eq with ⟨e1, e2⟩ | ⟨e1, e2⟩ <;> rw [e1, e2]
    · exact ⟨vq1, vq2⟩
    · exact ⟨vq2, vq1⟩
  have key : ∀ v, (v = τ.1 ∨ v = τ.2.1 ∨ v = τ.2.2) → (v = σ.1 ∨ v = σ.2.1 ∨ v = σ.2.2) := by
    intro v hv
    rcases hcov v hv with h | h | h | h <;> rw [h]
    · exact P.1
    · exact P.2
    · exact Q.1
    · exact Q.2
  exact ⟨key _ (Or.inl rfl), key _ (Or.inr (Or.inl rfl)), key _ (Or.inr (Or.inr rfl))⟩

/-- every inner half-edge of the refined mesh occurs once -/
theorem innerAll_nodup (hm : EdgeMap vno ts mv) (hd : ∀ τ ∈ ts, τ.1 ≠ τ.2.1 ∧ τ.2.1 ≠ τ.2.2 ∧ τ.2.2 ≠ τ.1)
    (hs : ts.Pairwise (fun τ σ => ¬ SameVerts τ σ)) : (ts.flatMap (inner mv)).Nodup := by
  rw [List.nodup_flatMap]
  refine ⟨fun τ hτ => inner_nodup hm hτ (hd τ hτ), ?_⟩
  refine List.Pairwise.imp_of_mem ?_ hs
  intro τ σ hτ hσ h
  simp only [Function.onFun, List.disjoint_left]
  intro k h1 h2
  exact h (inner_common hm hτ hσ h1 h2)

theorem innerAll_length (ts : List Tri) (mv : Nat → Nat → Nat) : (ts.flatMap (inner mv)).length = 6 * ts.length := by
  induction ts with
  | nil => rfl
  | cons τ ts ih => simp only [List.flatMap_cons, List.length_append, ih, inner, List.length_cons, List.length_nil]; omega

theorem innerAll_ge (hm : EdgeMap vno ts mv) : ∀ k ∈ ts.flatMap (inner mv), vno ≤ k.1 ∧ vno ≤ k.2 := by
  intro k hk
  obtain ⟨τ, hτ, hk⟩ := List.mem_flatMap.mp hk
  exact inner_ge hm hτ k hk

end
end Refine

namespace Refine
section
variable {vno : Nat} {ts : List Tri} {mv : Nat → Nat → Nat}

/-- classification of the half-edges of the refined mesh -/
theorem mem_dirKeys_refTris (k : Nat × Nat) :
    k ∈ Topo.dirKeys (refTris mv ts) ↔
      (∃ s ∈ Topo.dirKeys ts, k = (s.1, mv s.1 s.2)) ∨ (∃ s ∈ Topo.dirKeys ts, k = (mv s.1 s.2, s.2)) ∨
      k ∈ ts.flatMap (inner mv) := by
  rw [(dirKeys_refTris_perm mv ts).mem_iff]
  simp only [List.mem_append, List.mem_map, φA, φB, eq_comm]

/-- multiplicities of the half-edges of the refined mesh -/
theorem count_dirKeys_refTris (hm : EdgeMap vno ts mv) (hr : ∀ τ ∈ ts, τ.1 < vno ∧ τ.2.1 < vno ∧ τ.2.2 < vno) :
    (∀ s ∈ Topo.dirKeys ts, (Topo.dirKeys (refTris mv ts)).count (s.1, mv s.1 s.2) = (Topo.dirKeys ts).count s) ∧
    (∀ s ∈ Topo.dirKeys ts, (Topo.dirKeys (refTris mv ts)).count (mv s.1 s.2, s.2) = (Topo.dirKeys ts).count s) ∧
    (∀ k, (Topo.dirKeys (refTris mv ts)).count k = (ts.flatMap (inner mv)).count k ∨
      ∃ s ∈ Topo.dirKeys ts, (Topo.dirKeys (refTris mv ts)).count k = (Topo.dirKeys ts).count s) :=
  count_decomp hm hr (dirKeys_sub_symKeys ts) (innerAll_ge hm) (dirKeys_refTris_perm mv ts)

theorem count_symKeys_refTris (hm : EdgeMap vno ts mv) (hr : ∀ τ ∈ ts, τ.1 < vno ∧ τ.2.1 < vno ∧ τ.2.2 < vno) :
    (∀ s ∈ Topo.symKeys ts, (Topo.symKeys (refTris mv ts)).count (s.1, mv s.1 s.2) = (Topo.symKeys ts).count s) ∧
    (∀ s ∈ Topo.symKeys ts, (Topo.symKeys (refTris mv ts)).count (mv s.1 s.2, s.2) = (Topo.symKeys ts).count s) ∧
    (∀ k, (Topo.symKeys (refTris mv ts)).count k = 2 * (ts.flatMap (inner mv)).count k ∨
      ∃ s ∈ Topo.symKeys ts, (Topo.symKeys (refTris mv ts)).count k = (Topo.symKeys ts).count s) := by
  have h := count_decomp hm hr (L := Topo.symKeys ts) (fun k hk => hk)
    (J := ts.flatMap (inner mv) ++ ts.flatMap (inner mv))
    (fun k hk => by rcases List.mem_append.mp hk with h | h <;> exact innerAll_ge hm k h)
    (symKeys_refTris_perm mv hm.comm ts)
  refine ⟨h.1, h.2.1, fun k => ?_⟩
  rcases h.2.2 k with h' | h'
  · left; rw [h', List.count_append]; omega
  · right; exact h'

/-- **closedness is preserved** (only the index range is needed) -/
theorem isClosed_refTris (hm : EdgeMap vno ts mv) (hr : ∀ τ ∈ ts, τ.1 < vno ∧ τ.2.1 < vno ∧ τ.2.2 < vno) :
    Topo.isClosed (refTris mv ts) = Topo.isClosed ts := by
  obtain ⟨hA, _, hK⟩ := count_symKeys_refTris hm hr
  rw [Bool.eq_iff_iff, Topo.isClosed_iff, Topo.isClosed_iff]
  constructor
  · intro h k hk
    have hmem : k ∈ Topo.symKeys ts := List.count_pos_iff.mp (by omega)
    exact h _ ((hA k hmem).trans hk)
  · intro h k hk
    rcases hK k with h' | ⟨s, _, h'⟩
    · omega
    · exact h s (h'.symm.trans hk)

/-- **manifoldness is preserved** -/
theorem isManifold_refTris (hm : EdgeMap vno ts mv) (hr : ∀ τ ∈ ts, τ.1 < vno ∧ τ.2.1 < vno ∧ τ.2.2 < vno)
    (hd : ∀ τ ∈ ts, τ.1 ≠ τ.2.1 ∧ τ.2.1 ≠ τ.2.2 ∧ τ.2.2 ≠ τ.1)
    (hs : ts.Pairwise (fun τ σ => ¬ SameVerts τ σ)) :
    Topo.isManifold (refTris mv ts) = Topo.isManifold ts := by
  obtain ⟨hA, _, hK⟩ := count_symKeys_refTris hm hr
  have hI := List.nodup_iff_count_le_one.mp (innerAll_nodup hm hd hs)
  rw [Bool.eq_iff_iff, Topo.isManifold_iff, Topo.isManifold_iff]
  constructor
  · intro h k
    by_cases hmem : k ∈ Topo.symKeys ts
    · rw [← hA k hmem]; exact h _
    · rw [List.count_eq_zero_of_not_mem hmem]; omega
  · intro h k
    rcases hK k with h' | ⟨s, _, h'⟩
    · have := hI k; omega
    · rw [h']; exact h s

/-- **orientedness (`max(adj_dir.data) == 1`) is preserved** -/
theorem isOriented_refTris (hm : EdgeMap vno ts mv) (hr : ∀ τ ∈ ts, τ.1 < vno ∧ τ.2.1 < vno ∧ τ.2.2 < vno)
    (hd : ∀ τ ∈ ts, τ.1 ≠ τ.2.1 ∧ τ.2.1 ≠ τ.2.2 ∧ τ.2.2 ≠ τ.1)
    (hs : ts.Pairwise (fun τ σ => ¬ SameVerts τ σ)) :
    Topo.isOriented (refTris mv ts) = Topo.isOriented ts := by
  obtain ⟨hA, _, hK⟩ := count_dirKeys_refTris hm hr
  have hI := List.nodup_iff_count_le_one.mp (innerAll_nodup hm hd hs)
  have hne : refTris mv ts ≠ [] ↔ ts ≠ [] := by
    rw [← List.length_pos_iff, ← List.length_pos_iff, refTris_length]; omega
  rw [Bool.eq_iff_iff, Topo.isOriented_iff, Topo.isOriented_iff, hne]
  apply and_congr_right
  intro _
  constructor
  · intro h k
    by_cases hmem : k ∈ Topo.dirKeys ts
    · rw [← hA k hmem]; exact h _
    · rw [List.count_eq_zero_of_not_mem hmem]; omega
  · intro h k
    rcases hK k with h' | ⟨s, _, h'⟩
    · rw [h']; exact hI k
    · rw [h']; exact h s

end
end Refine

namespace Refine

/-- the model's edge lookup satisfies the requirements of `EdgeMap` -/
theorem edgeVertex_edgeMap (vno : Nat) (ts : List Tri) : EdgeMap vno ts (edgeVertex (edgeList ts) vno) where
  comm := edgeVertex_comm _ _
  ge := by
    intro a b h
    obtain ⟨k, _, _, hev⟩ := edgeVertex_of_mem (vno := vno) (edge_mem_edgeList h)
    omega
  inj := by
    intro a b c d h1 h2 he
    obtain ⟨k, hk, hg, hev⟩ := edgeVertex_of_mem (vno := vno) (edge_mem_edgeList h1)
    obtain ⟨k', hk', hg', hev'⟩ := edgeVertex_of_mem (vno := vno) (edge_mem_edgeList h2)
    have hkk : k = k' := by omega
    subst hkk
    rw [hg, Prod.mk.injEq] at hg'
    omega

section
variable {vno : Nat} {ts : List Tri} {mv : Nat → Nat → Nat}

/-- `nnz(adj_sym)` of the refined mesh: every stored key splits in two, plus six inner keys per triangle -/
theorem nnz_refTris (hm : EdgeMap vno ts mv) (hr : ∀ τ ∈ ts, τ.1 < vno ∧ τ.2.1 < vno ∧ τ.2.2 < vno)
    (hd : ∀ τ ∈ ts, τ.1 ≠ τ.2.1 ∧ τ.2.1 ≠ τ.2.2 ∧ τ.2.2 ≠ τ.1)
    (hs : ts.Pairwise (fun τ σ => ¬ SameVerts τ σ)) :
    (Topo.symKeys (refTris mv ts)).eraseDups.length = 2 * (Topo.symKeys ts).eraseDups.length + 6 * ts.length := by
  have hS : ∀ k ∈ (Topo.symKeys ts).eraseDups, k ∈ Topo.symKeys ts := fun k hk => List.mem_eraseDups.mp hk
  have nA : ((Topo.symKeys ts).eraseDups.map (φA mv)).Nodup :=
    List.Nodup.map_on (fun x hx y hy h => φA_inj hm (hS y hy) (hS x hx) h) (eraseDups_nodup _)
  have nB : ((Topo.symKeys ts).eraseDups.map (φB mv)).Nodup :=
    List.Nodup.map_on (fun x hx y hy h => φB_inj hm (hS y hy) (hS x hx) h) (eraseDups_nodup _)
  have nI := innerAll_nodup hm hd hs
  have tA : ∀ k ∈ (Topo.symKeys ts).eraseDups.map (φA mv), k.1 < vno := by
    intro k hk; obtain ⟨s, hs', rfl⟩ := List.mem_map.mp hk; exact (symKeys_lt hr (hS s hs')).1
  have tB : ∀ k ∈ (Topo.symKeys ts).eraseDups.map (φB mv), vno ≤ k.1 ∧ k.2 < vno := by
    intro k hk; obtain ⟨s, hs', rfl⟩ := List.mem_map.mp hk
    exact ⟨hm.ge _ _ (hS s hs'), (symKeys_lt hr (hS s hs')).2⟩
  have tI := innerAll_ge hm (vno := vno) (ts := ts) (mv := mv)
  have nBI : ((Topo.symKeys ts).eraseDups.map (φB mv) ++ ts.flatMap (inner mv)).Nodup := by
    apply List.Nodup.append nB nI
    rw [List.disjoint_left]; intro k h1 h2
    have := (tB k h1).2; have := (tI k h2).2; omega
  have nAll : ((Topo.symKeys ts).eraseDups.map (φA mv) ++
      ((Topo.symKeys ts).eraseDups.map (φB mv) ++ ts.flatMap (inner mv))).Nodup := by
    apply List.Nodup.append nA nBI
    rw [List.disjoint_left]; intro k h1 h2
    have := tA k h1
    rcases List.mem_append.mp h2 with h | h
    · have := (tB k h).1; omega
    · have := (tI k h).1; omega
  rw [eraseDups_length_eq nAll]
  · simp only [List.length_append, List.length_map, innerAll_length]; omega
  · intro k
    rw [(symKeys_refTris_perm mv hm.comm ts).mem_iff]
    simp only [List.mem_append, List.mem_map, List.mem_eraseDups, or_self]

theorem mem_flat3_refTris (hc : ∀ a b, mv a b = mv b a) (v : Nat) :
    v ∈ flat3 (refTris mv ts) ↔ v ∈ flat3 ts ∨ ∃ s ∈ Topo.symKeys ts, v = mv s.1 s.2 := by
  constructor
  · intro h
    obtain ⟨c, hc', hv⟩ := mem_flat3.mp h
    obtain ⟨τ, hτ, hcτ⟩ := List.mem_flatMap.mp hc'
    obtain ⟨s0, s1, s2⟩ := tri_symKeys hτ
    have m0 : τ.1 ∈ flat3 ts := mem_flat3.mpr ⟨τ, hτ, Or.inl rfl⟩
    have m1 : τ.2.1 ∈ flat3 ts := mem_flat3.mpr ⟨τ, hτ, Or.inr (Or.inl rfl)⟩
    have m2 : τ.2.2 ∈ flat3 ts := mem_flat3.mpr ⟨τ, hτ, Or.inr (Or.inr rfl)⟩
    have e0 : ∃ s ∈ Topo.symKeys ts, mv τ.1 τ.2.1 = mv s.1 s.2 := ⟨_, s0, rfl⟩
    have e1 : ∃ s ∈ Topo.symKeys ts, mv τ.2.1 τ.2.2 = mv s.1 s.2 := ⟨_, s1, rfl⟩
    have e2 : ∃ s ∈ Topo.symKeys ts, mv τ.2.2 τ.1 = mv s.1 s.2 := ⟨_, s2, rfl⟩
    simp only [children, List.mem_cons, List.not_mem_nil, or_false] at hcτ
    rcases hcτ with rfl | rfl | rfl | rfl <;> rcases hv with rfl | rfl | rfl <;>
      first | exact Or.inl m0 | exact Or.inl m1 | exact Or.inl m2 | exact Or.inr e0 | exact Or.inr e1 | exact Or.inr e2
  · rintro (h | ⟨s, hs, rfl⟩)
    · obtain ⟨τ, hτ, hv⟩ := mem_flat3.mp h
      rcases hv with rfl | rfl | rfl
      · exact mem_flat3.mpr ⟨(τ.1, mv τ.1 τ.2.1, mv τ.2.2 τ.1),
          List.mem_flatMap.mpr ⟨τ, hτ, by simp [children]⟩, Or.inl rfl⟩
      · exact mem_flat3.mpr ⟨(τ.2.1, mv τ.2.1 τ.2.2, mv τ.1 τ.2.1),
          List.mem_flatMap.mpr ⟨τ, hτ, by simp [children]⟩, Or.inl rfl⟩
      · exact mem_flat3.mpr ⟨(τ.2.2, mv τ.2.2 τ.1, mv τ.2.1 τ.2.2),
          List.mem_flatMap.mpr ⟨τ, hτ, by simp [children]⟩, Or.inl rfl⟩
    · obtain ⟨τ, hτ, hs6⟩ := Topo.mem_symKeys.mp hs
      have hmem : (mv τ.1 τ.2.1, mv τ.2.1 τ.2.2, mv τ.2.2 τ.1) ∈ refTris mv ts :=
        List.mem_flatMap.mpr ⟨τ, hτ, by simp [children]⟩
      simp only [List.mem_cons, List.not_mem_nil, or_false] at hs6
      rcases hs6 with rfl | rfl | rfl | rfl | rfl | rfl
      · exact mem_flat3.mpr ⟨_, hmem, Or.inl rfl⟩
      · exact mem_flat3.mpr ⟨_, hmem, Or.inl (hc _ _)⟩
      · exact mem_flat3.mpr ⟨_, hmem, Or.inr (Or.inl rfl)⟩
      · exact mem_flat3.mpr ⟨_, hmem, Or.inr (Or.inl (hc _ _))⟩
      · exact mem_flat3.mpr ⟨_, hmem, Or.inr (Or.inr rfl)⟩
      · exact mem_flat3.mpr ⟨_, hmem, Or.inr (Or.inr (hc _ _))⟩

/-- used vertices of the refined mesh = used vertices of the parent + one per distinct new vertex -/
theorem usedVerts_refTris (hm : EdgeMap vno ts mv) (hr : ∀ τ ∈ ts, τ.1 < vno ∧ τ.2.1 < vno ∧ τ.2.2 < vno) :
    (flat3 (refTris mv ts)).eraseDups.length =
      (flat3 ts).eraseDups.length + ((Topo.symKeys ts).map fun s => mv s.1 s.2).eraseDups.length := by
  have nAll : ((flat3 ts).eraseDups ++ ((Topo.symKeys ts).map fun s => mv s.1 s.2).eraseDups).Nodup := by
    apply List.Nodup.append (eraseDups_nodup _) (eraseDups_nodup _)
    rw [List.disjoint_left]; intro v h1 h2
    rw [List.mem_eraseDups] at h1 h2
    obtain ⟨τ, hτ, hv⟩ := mem_flat3.mp h1
    obtain ⟨h0, h1', h2'⟩ := hr τ hτ
    obtain ⟨s, hs, rfl⟩ := List.mem_map.mp h2
    have := hm.ge _ _ hs
    rcases hv with h | h | h <;> omega
  rw [eraseDups_length_eq nAll, List.length_append]
  intro v
  rw [mem_flat3_refTris hm.comm]
  simp only [List.mem_append, List.mem_eraseDups, List.mem_map, eq_comm]

end

/-- the new vertices are numbered `vno, …, vno + E - 1` -/
theorem newVerts_card (vno : Nat) (ts : List Tri) :
    ((Topo.symKeys ts).map fun s => edgeVertex (edgeList ts) vno s.1 s.2).eraseDups.length = (edgeList ts).length := by
  have nd : ((List.range (edgeList ts).length).map (vno + ·)).Nodup :=
    List.Nodup.map_on (fun x _ y _ h => by omega) List.nodup_range
  rw [eraseDups_length_eq nd, List.length_map, List.length_range]
  intro v
  simp only [List.mem_map, List.mem_range]
  constructor
  · rintro ⟨k, hk, rfl⟩
    have hm := List.getElem_mem hk
    exact ⟨(edgeList ts)[k], (mem_edgeList.mp hm).2,
      edgeVertex_getElem (edgeList_nodup ts) vno k hk (mem_edgeList.mp hm).1⟩
  · rintro ⟨s, hs, rfl⟩
    obtain ⟨k, hk, _, hev⟩ := edgeVertex_of_mem (vno := vno) (edge_mem_edgeList (a := s.1) (b := s.2) hs)
    exact ⟨k, hk, hev.symm⟩

/-- without degenerate triangles `adj_sym` stores every edge in both directions: `nnz = 2 E` -/
theorem nnz_eq_two_edges {ts : List Tri} (hd : ∀ τ ∈ ts, τ.1 ≠ τ.2.1 ∧ τ.2.1 ≠ τ.2.2 ∧ τ.2.2 ≠ τ.1) :
    (Topo.symKeys ts).eraseDups.length = 2 * (edgeList ts).length := by
  have hne : ∀ k ∈ Topo.symKeys ts, k.1 ≠ k.2 := by
    intro k hk
    obtain ⟨τ, hτ, hk⟩ := Topo.mem_symKeys.mp hk
    have := hd τ hτ
    simp only [List.mem_cons, List.not_mem_nil, or_false] at hk
    rcases hk with rfl | rfl | rfl | rfl | rfl | rfl <;> simp only <;> omega
  have nsw : ((edgeList ts).map Prod.swap).Nodup :=
    List.Nodup.map_on (fun x _ y _ h => by rw [← Prod.swap_swap x, h, Prod.swap_swap]) (edgeList_nodup ts)
  have nAll : (edgeList ts ++ (edgeList ts).map Prod.swap).Nodup := by
    apply List.Nodup.append (edgeList_nodup ts) nsw
    rw [List.disjoint_left]; intro k h1 h2
    obtain ⟨k', hk', rfl⟩ := List.mem_map.mp h2
    have a1 := mem_edgeList.mp h1
    have a2 := mem_edgeList.mp hk'
    have := hne _ a2.2
    simp only [Prod.fst_swap, Prod.snd_swap] at a1
    omega
  rw [eraseDups_length_eq nAll, List.length_append, List.length_map]
  · omega
  · intro k
    simp only [List.mem_append, List.mem_map, mem_edgeList]
    constructor
    · rintro (⟨_, h⟩ | ⟨k', ⟨_, h⟩, rfl⟩)
      · exact h
      · exact Topo.symKeys_swap (i := k'.1) (j := k'.2) h
    · intro h
      rcases Nat.le_total k.1 k.2 with hle | hle
      · exact Or.inl ⟨hle, h⟩
      · exact Or.inr ⟨k.swap, ⟨hle, Topo.symKeys_swap (i := k.1) (j := k.2) h⟩, Prod.swap_swap k⟩

end Refine

namespace Refine
section
variable {vno : Nat} {ts : List Tri} {mv : Nat → Nat → Nat}

/-- what is known about the six vertices of the children of a non-degenerate in-range triangle -/
theorem tri_facts (hm : EdgeMap vno ts mv) (hr : ∀ τ ∈ ts, τ.1 < vno ∧ τ.2.1 < vno ∧ τ.2.2 < vno)
    (hd : ∀ τ ∈ ts, τ.1 ≠ τ.2.1 ∧ τ.2.1 ≠ τ.2.2 ∧ τ.2.2 ≠ τ.1) {τ : Tri} (hτ : τ ∈ ts) :
    (τ.1 < vno ∧ τ.2.1 < vno ∧ τ.2.2 < vno) ∧ (τ.1 ≠ τ.2.1 ∧ τ.2.1 ≠ τ.2.2 ∧ τ.2.2 ≠ τ.1) ∧
    (vno ≤ mv τ.1 τ.2.1 ∧ vno ≤ mv τ.2.1 τ.2.2 ∧ vno ≤ mv τ.2.2 τ.1) ∧
    (mv τ.1 τ.2.1 ≠ mv τ.2.1 τ.2.2 ∧ mv τ.2.1 τ.2.2 ≠ mv τ.2.2 τ.1 ∧ mv τ.2.2 τ.1 ≠ mv τ.1 τ.2.1) := by
  obtain ⟨s0, s1, s2⟩ := tri_symKeys hτ
  exact ⟨hr τ hτ, hd τ hτ, ⟨hm.ge _ _ s0, hm.ge _ _ s1, hm.ge _ _ s2⟩, mv_distinct hm hτ (hd τ hτ)⟩

/-- the refined mesh is in range (`E` = number of new vertices) -/
theorem refTris_inRange (hr : ∀ τ ∈ ts, τ.1 < vno ∧ τ.2.1 < vno ∧ τ.2.2 < vno) (E : Nat)
    (hlt : ∀ a b, (a, b) ∈ Topo.symKeys ts → mv a b < vno + E) :
    ∀ τ ∈ refTris mv ts, τ.1 < vno + E ∧ τ.2.1 < vno + E ∧ τ.2.2 < vno + E := by
  intro c hc
  obtain ⟨τ, hτ, hc⟩ := List.mem_flatMap.mp hc
  obtain ⟨s0, s1, s2⟩ := tri_symKeys hτ
  have l0 := hlt _ _ s0; have l1 := hlt _ _ s1; have l2 := hlt _ _ s2
  obtain ⟨r0, r1, r2⟩ := hr τ hτ
  simp only [children, List.mem_cons, List.not_mem_nil, or_false] at hc
  rcases hc with rfl | rfl | rfl | rfl <;> simp only <;> omega

/-- the refined mesh has no degenerate triangle -/
theorem refTris_distinct (hm : EdgeMap vno ts mv) (hr : ∀ τ ∈ ts, τ.1 < vno ∧ τ.2.1 < vno ∧ τ.2.2 < vno)
    (hd : ∀ τ ∈ ts, τ.1 ≠ τ.2.1 ∧ τ.2.1 ≠ τ.2.2 ∧ τ.2.2 ≠ τ.1) :
    ∀ τ ∈ refTris mv ts, τ.1 ≠ τ.2.1 ∧ τ.2.1 ≠ τ.2.2 ∧ τ.2.2 ≠ τ.1 := by
  intro c hc
  obtain ⟨τ, hτ, hc⟩ := List.mem_flatMap.mp hc
  obtain ⟨hR, hD, hG, hM⟩ := tri_facts hm hr hd hτ
  simp only [children, List.mem_cons, List.not_mem_nil, or_false] at hc
  rcases hc with rfl | rfl | rfl | rfl <;> simp only <;> omega

theorem children_pairwise (hm : EdgeMap vno ts mv) (hr : ∀ τ ∈ ts, τ.1 < vno ∧ τ.2.1 < vno ∧ τ.2.2 < vno)
    (hd : ∀ τ ∈ ts, τ.1 ≠ τ.2.1 ∧ τ.2.1 ≠ τ.2.2 ∧ τ.2.2 ≠ τ.1) {τ : Tri} (hτ : τ ∈ ts) :
    (children mv τ).Pairwise (fun x y => ¬ SameVerts x y) := by
  obtain ⟨hR, hD, hG, hM⟩ := tri_facts hm hr hd hτ
  simp only [children, List.pairwise_cons, List.mem_cons, List.not_mem_nil, or_false, forall_eq_or_imp, forall_eq,
    SameVerts, IsEmpty.forall_iff, implies_true, List.Pairwise.nil, and_true]
  omega

/-- the two new vertices of a child span an inner half-edge of its parent -/
theorem child_inner (hm : EdgeMap vno ts mv) (hr : ∀ τ ∈ ts, τ.1 < vno ∧ τ.2.1 < vno ∧ τ.2.2 < vno)
    (hd : ∀ τ ∈ ts, τ.1 ≠ τ.2.1 ∧ τ.2.1 ≠ τ.2.2 ∧ τ.2.2 ≠ τ.1) {τ : Tri} (hτ : τ ∈ ts) {x : Tri}
    (hx : x ∈ children mv τ) : (x.2.1, x.2.2) ∈ inner mv τ ∧ x.2.1 ≠ x.2.2 ∧ vno ≤ x.2.1 ∧ vno ≤ x.2.2 := by
  obtain ⟨hR, hD, hG, hM⟩ := tri_facts hm hr hd hτ
  simp only [children, List.mem_cons, List.not_mem_nil, or_false] at hx
  rcases hx with rfl | rfl | rfl | rfl <;> refine ⟨by simp [inner], ?_, ?_, ?_⟩ <;> simp only <;> omega

/-- two distinct new vertices of a child form an inner half-edge of its parent -/
theorem pair_mem_inner (hr : ∀ τ ∈ ts, τ.1 < vno ∧ τ.2.1 < vno ∧ τ.2.2 < vno) {σ : Tri} (hσ : σ ∈ ts) {y : Tri}
    (hy : y ∈ children mv σ) {a b : Nat} (ha : a = y.1 ∨ a = y.2.1 ∨ a = y.2.2) (hb : b = y.1 ∨ b = y.2.1 ∨ b = y.2.2)
    (hab : a ≠ b) (hva : vno ≤ a) (hvb : vno ≤ b) : (a, b) ∈ inner mv σ := by
  obtain ⟨r0, r1, r2⟩ := hr σ hσ
  simp only [children, List.mem_cons, List.not_mem_nil, or_false] at hy
  rcases hy with rfl | rfl | rfl | rfl <;> simp only at ha hb <;>
    rcases ha with rfl | rfl | rfl <;> rcases hb with rfl | rfl | rfl <;>
    first | (exfalso; omega) | simp [inner]

/-- the refined mesh has no repeated face -/
theorem refTris_faceSimple (hm : EdgeMap vno ts mv) (hr : ∀ τ ∈ ts, τ.1 < vno ∧ τ.2.1 < vno ∧ τ.2.2 < vno)
    (hd : ∀ τ ∈ ts, τ.1 ≠ τ.2.1 ∧ τ.2.1 ≠ τ.2.2 ∧ τ.2.2 ≠ τ.1)
    (hs : ts.Pairwise (fun τ σ => ¬ SameVerts τ σ)) :
    (refTris mv ts).Pairwise (fun τ σ => ¬ SameVerts τ σ) := by
  rw [refTris, List.pairwise_flatMap]
  refine ⟨fun τ hτ => children_pairwise hm hr hd hτ, ?_⟩
  refine List.Pairwise.imp_of_mem ?_ hs
  intro τ σ hτ hσ hne x hx y hy hsv
  obtain ⟨hin, hxne, hg1, hg2⟩ := child_inner hm hr hd hτ hx
  have hin' : (x.2.1, x.2.2) ∈ inner mv σ := pair_mem_inner hr hσ hy hsv.2.1 hsv.2.2 hxne hg1 hg2
  exact hne (inner_common hm hτ hσ hin hin')

end
end Refine

end LapyVerif
