import Mathlib.Data.List.Nodup
import Mathlib.Data.List.Perm.Basic
import LapyVerif.Model.Topo
/-
  Helper lemmas for C09 (connectivity queries): `eraseDups`, COO lists of unit weights (entry = count),
  `Topo.maxL`, and counting lemmas for duplicate-free lists of index pairs.
  Nothing here is specific to triangles.
-/
namespace LapyVerif
namespace Lemmas

/-! ### `eraseDups` -/

theorem nodup_eraseDups_aux {α : Type} [BEq α] [LawfulBEq α] :
    ∀ (n : Nat) (l : List α), l.length ≤ n → l.eraseDups.Nodup := by
  intro n
  induction n with
  | zero =>
    intro l hl
    have : l = [] := List.length_eq_zero_iff.mp (Nat.le_zero.mp hl)
    subst this; simp
  | succ n ih =>
    intro l hl
    cases l with
    | nil => simp
    | cons a as =>
      rw [List.eraseDups_cons, List.nodup_cons]
      refine ⟨?_, ?_⟩
      · rw [List.mem_eraseDups, List.mem_filter]
        rintro ⟨_, h⟩
        simp at h
      · apply ih
        have h1 := List.length_filter_le (fun b => !b == a) as
        simp only [List.length_cons] at hl
        omega

theorem nodup_eraseDups {α : Type} [BEq α] [LawfulBEq α] (l : List α) : l.eraseDups.Nodup :=
  nodup_eraseDups_aux l.length l (Nat.le_refl _)

theorem eraseDups_eq_nil {α : Type} [BEq α] [LawfulBEq α] (l : List α) : l.eraseDups = [] ↔ l = [] := by
  cases l with
  | nil => simp
  | cons a as => simp [List.eraseDups_cons]

/-- two duplicate-free lists with the same members have the same length -/
theorem length_eq_of_nodup_of_mem_iff {α : Type} {l₁ l₂ : List α} (d₁ : l₁.Nodup) (d₂ : l₂.Nodup)
    (h : ∀ a, a ∈ l₁ ↔ a ∈ l₂) : l₁.length = l₂.length :=
  ((List.perm_ext_iff_of_nodup d₁ d₂).2 h).length_eq

/-! ### COO lists of unit weights -/

/-- the triplet list `[(k,1) | k ∈ l]` -/
def unit (l : List (Nat × Nat)) : Coo Nat := l.map fun k => (k, 1)

theorem entry_unit (l : List (Nat × Nat)) (a b : Nat) : Coo.entry (unit l) a b = l.count (a, b) := by
  induction l with
  | nil => simp [unit, Coo.entry]
  | cons k l ih =>
    obtain ⟨i, j⟩ := k
    have ih' : (List.map (fun e : (Nat × Nat) × Nat => e.2)
        (List.filter (fun e : (Nat × Nat) × Nat => e.1.1 == a && e.1.2 == b)
          (List.map (fun k : Nat × Nat => (k, 1)) l))).sum = l.count (a, b) := ih
    simp only [unit, Coo.entry, List.map_cons, List.filter_cons, List.count_cons]
    by_cases h : i = a ∧ j = b
    · obtain ⟨rfl, rfl⟩ := h
      simp [ih']; omega
    · have h1 : (i == a && j == b) = false := by
        simp only [Bool.and_eq_false_iff, beq_eq_false_iff_ne]
        by_cases hi : i = a
        · right; intro hj; exact h ⟨hi, hj⟩
        · left; exact hi
      have h2 : ((i, j) == (a, b)) = false := by
        simp only [beq_eq_false_iff_ne, ne_eq, Prod.mk.injEq]; exact h
      simp [h1, h2, ih']

theorem keys_unit (l : List (Nat × Nat)) : Coo.keys (unit l) = l.eraseDups := by
  simp [unit, Coo.keys, List.map_map, Function.comp_def]

theorem nnz_unit (l : List (Nat × Nat)) : Coo.nnz (unit l) = l.eraseDups.length := by
  simp [Coo.nnz, keys_unit]

theorem data_unit (l : List (Nat × Nat)) : Coo.data (unit l) = l.eraseDups.map fun k => l.count k := by
  unfold Coo.data
  rw [keys_unit]
  apply List.map_congr_left
  rintro ⟨a, b⟩ _
  exact entry_unit l a b

theorem mem_data_unit (l : List (Nat × Nat)) (x : Nat) :
    x ∈ Coo.data (unit l) ↔ ∃ k ∈ l, l.count k = x := by
  rw [data_unit, List.mem_map]
  constructor
  · rintro ⟨k, hk, rfl⟩; exact ⟨k, List.mem_eraseDups.mp hk, rfl⟩
  · rintro ⟨k, hk, rfl⟩; exact ⟨k, List.mem_eraseDups.mpr hk, rfl⟩

theorem data_unit_eq_nil (l : List (Nat × Nat)) : Coo.data (unit l) = [] ↔ l = [] := by
  rw [data_unit, List.map_eq_nil_iff, eraseDups_eq_nil]

/-- a stored value 1 exists iff some key occurs exactly once -/
theorem contains_one_data_unit (l : List (Nat × Nat)) :
    (Coo.data (unit l)).contains 1 = true ↔ ∃ k, l.count k = 1 := by
  rw [List.contains_iff_mem, mem_data_unit]
  constructor
  · rintro ⟨k, _, h⟩; exact ⟨k, h⟩
  · rintro ⟨k, h⟩
    refine ⟨k, ?_, h⟩
    apply List.count_pos_iff.mp; omega

/-! ### `maxL` -/

theorem foldl_max_le (l : List Nat) (acc n : Nat) : l.foldl max acc ≤ n ↔ acc ≤ n ∧ ∀ x ∈ l, x ≤ n := by
  induction l generalizing acc with
  | nil => simp
  | cons y l ih =>
    simp only [List.foldl_cons, ih, List.mem_cons, forall_eq_or_imp]
    constructor
    · rintro ⟨h1, h2⟩; exact ⟨by omega, by omega, h2⟩
    · rintro ⟨h1, h2, h3⟩; exact ⟨by omega, h3⟩

theorem maxL_le (l : List Nat) (n : Nat) : Topo.maxL l ≤ n ↔ ∀ x ∈ l, x ≤ n := by
  simp [Topo.maxL, foldl_max_le]

theorem le_maxL (l : List Nat) (x : Nat) (hx : x ∈ l) : x ≤ Topo.maxL l :=
  (maxL_le l (Topo.maxL l)).1 (Nat.le_refl _) x hx

/-- if all entries are positive, `max l = 1` iff `l` is non-empty and bounded by 1 -/
theorem maxL_eq_one (l : List Nat) (hpos : ∀ x ∈ l, 1 ≤ x) :
    Topo.maxL l = 1 ↔ l ≠ [] ∧ ∀ x ∈ l, x ≤ 1 := by
  constructor
  · intro h
    refine ⟨?_, (maxL_le l 1).1 (by omega)⟩
    rintro rfl
    simp [Topo.maxL] at h
  · rintro ⟨hne, hle⟩
    have h1 : Topo.maxL l ≤ 1 := (maxL_le l 1).2 hle
    obtain ⟨x, hx⟩ := List.exists_mem_of_ne_nil l hne
    have h2 := le_maxL l x hx
    have h3 := hpos x hx
    omega

theorem maxL_data_unit_le (l : List (Nat × Nat)) (n : Nat) :
    Topo.maxL (Coo.data (unit l)) ≤ n ↔ ∀ k, l.count k ≤ n := by
  rw [maxL_le]
  constructor
  · intro h k
    by_cases hk : k ∈ l
    · exact h _ ((mem_data_unit l _).2 ⟨k, hk, rfl⟩)
    · rw [List.count_eq_zero.mpr hk]; omega
  · intro h x hx
    obtain ⟨k, _, rfl⟩ := (mem_data_unit l x).1 hx
    exact h k

theorem maxL_data_unit_eq_one (l : List (Nat × Nat)) :
    Topo.maxL (Coo.data (unit l)) = 1 ↔ l ≠ [] ∧ ∀ k, l.count k ≤ 1 := by
  rw [maxL_eq_one]
  · rw [← maxL_le, maxL_data_unit_le, Ne, data_unit_eq_nil]
  · intro x hx
    obtain ⟨k, hk, rfl⟩ := (mem_data_unit l x).1 hx
    exact List.count_pos_iff.mpr hk

/-! ### symmetric duplicate-free key lists -/

/-- a duplicate-free, symmetric, diagonal-free list of pairs has twice as many entries as its strict upper part -/
theorem length_symm_nodup (K : List (Nat × Nat)) (hnd : K.Nodup)
    (hsym : ∀ a b, (a, b) ∈ K → (b, a) ∈ K) (hdiag : ∀ a, (a, a) ∉ K) :
    K.length = 2 * (K.filter fun k => decide (k.1 < k.2)).length := by
  rw [List.length_eq_length_filter_add (l := K) (fun k => decide (k.1 < k.2))]
  have hgt : (K.filter fun k => !decide (k.1 < k.2)).length
      = ((K.filter fun k => decide (k.1 < k.2)).map Prod.swap).length := by
    apply length_eq_of_nodup_of_mem_iff
    · exact hnd.filter _
    · exact (hnd.filter _).map (by rintro ⟨a, b⟩ ⟨c, d⟩ h; simp only [Prod.swap_prod_mk, Prod.mk.injEq] at h; simp [h.1, h.2])
    · rintro ⟨a, b⟩
      simp only [List.mem_filter, List.mem_map, Bool.not_eq_true', decide_eq_false_iff_not,
        decide_eq_true_eq, Prod.exists, Prod.swap_prod_mk, Prod.mk.injEq]
      constructor
      · rintro ⟨hm, hlt⟩
        refine ⟨b, a, ⟨hsym a b hm, ?_⟩, rfl, rfl⟩
        have : a ≠ b := by rintro rfl; exact hdiag a hm
        omega
      · rintro ⟨c, d, ⟨hm, hlt⟩, rfl, rfl⟩
        exact ⟨hsym c d hm, by omega⟩
  rw [hgt, List.length_map]; omega

/-! ### duplicate-free sublists of `range n` -/

theorem nodup_length_eq_iff (l : List Nat) (n : Nat) (hnd : l.Nodup) (hlt : ∀ x ∈ l, x < n) :
    l.length = n ↔ ∀ v < n, v ∈ l := by
  have hsub : l ⊆ List.range n := fun x hx => List.mem_range.mpr (hlt x hx)
  have hle : l.length ≤ n := by
    simpa using hnd.length_le_of_subset hsub
  constructor
  · intro h v hv
    have hp : l.Perm (List.range n) :=
      (List.subperm_of_subset hnd hsub).perm_of_length_le (by simp [h])
    exact hp.mem_iff.mpr (List.mem_range.mpr hv)
  · intro h
    have hsub' : List.range n ⊆ l := fun x hx => h x (List.mem_range.mp hx)
    have := List.nodup_range.length_le_of_subset hsub'
    simp at this; omega

end Lemmas
end LapyVerif
