import LapyVerif.Lemmas.OrientMesh
/-
  When is the first column `tmat[:,0]` a full vector with an entry `≠ ±1`?  Only for the two-triangle "pillow" whose
  triangles have the same three vertices.  (Then the `while` loop of `orient_` never runs and its `np.sign` is never
  applied.)
-/
namespace LapyVerif
namespace OrientFirstColumn
open Orient Topo OrientLemmas OrientFlood OrientMesh

def tverts (τ : Tri) : List Nat := [τ.1, τ.2.1, τ.2.2]

/-! ### geometry of one triangle -/

theorem mem_undEdges_iff {τ : Tri} (hτ : TriDistinct τ) (e : Nat × Nat) :
    e ∈ undEdges τ ↔ e.1 < e.2 ∧ e.1 ∈ tverts τ ∧ e.2 ∈ tverts τ := by
  constructor
  · intro he
    obtain ⟨t0, t1, t2⟩ := τ
    simp only [TriDistinct] at hτ
    simp only [undEdges, List.mem_cons, List.not_mem_nil, or_false] at he
    simp only [tverts, List.mem_cons, List.not_mem_nil, or_false]
    rcases he with rfl | rfl | rfl <;> simp only <;> omega
  · rintro ⟨hlt, h1, h2⟩
    have := undEdge_of_verts (τ := τ) (Nat.ne_of_lt hlt) h1 h2
    rwa [Nat.min_eq_left (Nat.le_of_lt hlt), Nat.max_eq_right (Nat.le_of_lt hlt)] at this

/-- two different edges of a triangle contain all its vertices -/
theorem cover {τ : Tri} {e1 e2 : Nat × Nat} (h1 : e1 ∈ undEdges τ) (h2 : e2 ∈ undEdges τ) (hne : e1 ≠ e2) {x : Nat}
    (hx : x ∈ tverts τ) : x = e1.1 ∨ x = e1.2 ∨ x = e2.1 ∨ x = e2.2 := by
  obtain ⟨t0, t1, t2⟩ := τ
  simp only [undEdges, List.mem_cons, List.not_mem_nil, or_false] at h1 h2
  simp only [tverts, List.mem_cons, List.not_mem_nil, or_false] at hx
  rcases h1 with rfl | rfl | rfl <;> rcases h2 with rfl | rfl | rfl <;>
    first
    | exact absurd rfl hne
    | (rcases hx with rfl | rfl | rfl <;> simp only <;> omega)

/-- two triangles with two different common edges: every edge of the first is an edge of the second -/
theorem undEdges_subset {τ τ' : Tri} (hτ : TriDistinct τ) (hτ' : TriDistinct τ') {e1 e2 : Nat × Nat}
    (h1 : e1 ∈ undEdges τ) (h2 : e2 ∈ undEdges τ) (h1' : e1 ∈ undEdges τ') (h2' : e2 ∈ undEdges τ') (hne : e1 ≠ e2)
    {e : Nat × Nat} (he : e ∈ undEdges τ) : e ∈ undEdges τ' := by
  have hsub : ∀ x ∈ tverts τ, x ∈ tverts τ' := by
    intro x hx
    have a1 := (mem_undEdges_iff hτ' e1).1 h1'
    have a2 := (mem_undEdges_iff hτ' e2).1 h2'
    rcases cover h1 h2 hne hx with rfl | rfl | rfl | rfl
    · exact a1.2.1
    · exact a1.2.2
    · exact a2.2.1
    · exact a2.2.2
  have a := (mem_undEdges_iff hτ e).1 he
  exact (mem_undEdges_iff hτ' e).2 ⟨a.1, hsub _ a.2.1, hsub _ a.2.2⟩

/-! ### two neighbour pairs between the same triangles come from two different edges -/

/-- the function mapped over the doubled keys by `neighbourPairs` -/
def pairF (rows : List (Nat × Nat × Nat × Bool)) (kc : (Nat × Nat) × Nat) : Option (Nat × Nat × Int) :=
  match rows.filter fun r => r.1 == kc.1.1 && r.2.1 == kc.1.2 with
  | [a, b] => some (a.2.2.1, b.2.2.1, if a.2.2.2 != b.2.2.2 then 1 else -1)
  | _ => none

theorem neighbourPairs_eq (rows : List (Nat × Nat × Nat × Bool)) (counts : List ((Nat × Nat) × Nat)) :
    neighbourPairs rows counts = (counts.filter fun kc => kc.2 == 2).filterMap (pairF rows) := rfl

theorem pairF_some {rows : List (Nat × Nat × Nat × Bool)} {kc : (Nat × Nat) × Nat} {p : Nat × Nat × Int}
    (h : pairF rows kc = some p) :
    ∃ a b, rowsAt rows kc.1 = [a, b] ∧ p = (a.2.2.1, b.2.2.1, if a.2.2.2 != b.2.2.2 then 1 else -1) := by
  unfold pairF at h
  split at h
  · rename_i a b hab
    cases h
    exact ⟨a, b, hab, rfl⟩
  · cases h

theorem two_of_filterMap {α β : Type} {L : List α} {G : α → Option β} {q : β → Bool}
    (h : 2 ≤ ((L.filterMap G).filter q).length) (hnd : L.Nodup) :
    ∃ x y b c, x ∈ L ∧ y ∈ L ∧ x ≠ y ∧ G x = some b ∧ G y = some c ∧ q b = true ∧ q c = true := by
  induction L with
  | nil => simp at h
  | cons a L ih =>
    rw [List.nodup_cons] at hnd
    rw [List.filterMap_cons] at h
    cases hG : G a with
    | none =>
      rw [hG] at h
      obtain ⟨x, y, b, c, hx, hy, hxy, h1, h2, h3, h4⟩ := ih h hnd.2
      exact ⟨x, y, b, c, List.mem_cons_of_mem _ hx, List.mem_cons_of_mem _ hy, hxy, h1, h2, h3, h4⟩
    | some b =>
      rw [hG] at h
      simp only at h
      rw [List.filter_cons] at h
      by_cases hq : q b = true
      · rw [if_pos hq, List.length_cons] at h
        have hpos : 0 < ((L.filterMap G).filter q).length := by omega
        obtain ⟨c, hc⟩ := List.exists_mem_of_length_pos hpos
        rw [List.mem_filter, List.mem_filterMap] at hc
        obtain ⟨⟨y, hy, hGy⟩, hqc⟩ := hc
        refine ⟨a, y, b, c, List.mem_cons_self, List.mem_cons_of_mem _ hy, ?_, hG, hGy, hq, hqc⟩
        rintro rfl; exact hnd.1 hy
      · rw [if_neg hq] at h
        obtain ⟨x, y, b', c, hx, hy, hxy, h1, h2, h3, h4⟩ := ih h hnd.2
        exact ⟨x, y, b', c, List.mem_cons_of_mem _ hx, List.mem_cons_of_mem _ hy, hxy, h1, h2, h3, h4⟩

theorem edgeCounts_nodup (ts : List Tri) : (edgeCounts (halfEdgeRows ts)).Nodup := by
  rw [edgeCounts_eq]
  apply List.Nodup.map
  · intro a b hab; exact (Prod.mk.inj hab).1
  · exact eraseDups_nodup _

theorem edgeCounts_fst_inj {ts : List Tri} {kc kc' : (Nat × Nat) × Nat} (h : kc ∈ edgeCounts (halfEdgeRows ts))
    (h' : kc' ∈ edgeCounts (halfEdgeRows ts)) (he : kc.1 = kc'.1) : kc = kc' := by
  rw [edgeCounts_eq, List.mem_map] at h h'
  obtain ⟨k, _, rfl⟩ := h
  obtain ⟨k', _, rfl⟩ := h'
  simp only at he
  rw [he]

/-- the key of a pair is an edge of both its triangles -/
theorem pairF_share {ts : List Tri} {kc : (Nat × Nat) × Nat} {p : Nat × Nat × Int}
    (h : pairF (halfEdgeRows ts) kc = some p) :
    ∃ (hA : p.1 < ts.length) (hB : p.2.1 < ts.length), kc.1 ∈ undEdges ts[p.1] ∧ kc.1 ∈ undEdges ts[p.2.1] := by
  obtain ⟨a, b, hab, rfl⟩ := pairF_some h
  have ha : a ∈ rowsAt (halfEdgeRows ts) kc.1 := by rw [hab]; simp
  have hb : b ∈ rowsAt (halfEdgeRows ts) kc.1 := by rw [hab]; simp
  obtain ⟨ha1, ha2⟩ := mem_rowsAt.1 ha
  obtain ⟨hb1, hb2⟩ := mem_rowsAt.1 hb
  obtain ⟨hA, hra⟩ := row_info ha1
  obtain ⟨hB, hrb⟩ := row_info hb1
  refine ⟨hA, hB, ?_, ?_⟩
  · rw [← triRows_key ts[a.2.2.1] a.2.2.1, ← ha2]; exact List.mem_map_of_mem hra
  · rw [← triRows_key ts[b.2.2.1] b.2.2.1, ← hb2]; exact List.mem_map_of_mem hrb

/-- if `|tmat[k,0]| ≥ 2` for `k ≠ 0` then the triangles `0` and `k` have two different common edges -/
theorem two_edges_of_M {ts : List Tri} {k : Nat} (hk0 : k ≠ 0) (hM : 2 ≤ M (pairsOf ts) k 0) :
    ∃ (h0 : 0 < ts.length) (hk : k < ts.length) (e1 e2 : Nat × Nat), e1 ≠ e2 ∧
      e1 ∈ undEdges ts[0] ∧ e2 ∈ undEdges ts[0] ∧ e1 ∈ undEdges ts[k] ∧ e2 ∈ undEdges ts[k] := by
  unfold M at hM
  have : (k == 0) = false := by simpa using hk0
  rw [this] at hM
  simp only [Bool.false_eq_true, ↓reduceIte, Nat.add_zero] at hM
  have hnd : ((edgeCounts (halfEdgeRows ts)).filter fun kc => kc.2 == 2).Nodup := (edgeCounts_nodup ts).filter _
  rw [show pairsOf ts = _ from neighbourPairs_eq _ _] at hM
  obtain ⟨x, y, b, c, hx, hy, hxy, hGx, hGy, hqb, hqc⟩ := two_of_filterMap hM hnd
  have hx' := (List.mem_filter.1 hx).1
  have hy' := (List.mem_filter.1 hy).1
  have hne : x.1 ≠ y.1 := fun he => hxy (edgeCounts_fst_inj hx' hy' he)
  obtain ⟨hb1, hb2, hb3, hb4⟩ := pairF_share hGx
  obtain ⟨hc1, hc2, hc3, hc4⟩ := pairF_share hGy
  simp only [Link, Bool.or_eq_true, Bool.and_eq_true, beq_iff_eq] at hqb hqc
  have key : ∀ (p : Nat × Nat × Int) (e : Nat × Nat) (h1 : p.1 < ts.length) (h2 : p.2.1 < ts.length),
      e ∈ undEdges ts[p.1] → e ∈ undEdges ts[p.2.1] → (p.1 = k ∧ p.2.1 = 0 ∨ p.1 = 0 ∧ p.2.1 = k) →
      ∃ (h0 : 0 < ts.length) (hk : k < ts.length), e ∈ undEdges ts[0] ∧ e ∈ undEdges ts[k] := by
    rintro ⟨p1, p2, w⟩ e h1 h2 m1 m2 (⟨rfl, rfl⟩ | ⟨rfl, rfl⟩)
    · exact ⟨h2, h1, m2, m1⟩
    · exact ⟨h1, h2, m1, m2⟩
  obtain ⟨h0, hk, u1, u2⟩ := key b x.1 hb1 hb2 hb3 hb4 hqb
  obtain ⟨_, _, u3, u4⟩ := key c y.1 hc1 hc2 hc3 hc4 hqc
  exact ⟨h0, hk, x.1, y.1, hne, u1, u3, u2, u4⟩

/-! ### three triangles on one edge contradict manifoldness -/

theorem no_three {ts : List Tri} {s : Nat → Bool} (h : MeshOK ts s) {A B C : Nat} (hA : A < ts.length)
    (hB : B < ts.length) (hC : C < ts.length) (hAB : A ≠ B) (hAC : A ≠ C) (hBC : B ≠ C) {e : Nat × Nat}
    (heA : e ∈ undEdges ts[A]) (heB : e ∈ undEdges ts[B]) (heC : e ∈ undEdges ts[C]) : False := by
  obtain ⟨rA, hrA, hiA⟩ := exists_row hA heA
  obtain ⟨rB, hrB, hiB⟩ := exists_row hB heB
  obtain ⟨rC, hrC, hiC⟩ := exists_row hC heC
  have hlen : (rowsAt (halfEdgeRows ts) e).length ≤ 2 := by
    rw [rowsAt_length, rowKeys_halfEdgeRows]; exact h.manifold e
  have hne : rA ≠ rB := by
    intro h; rw [h] at hiA; exact hAB (hiA.symm.trans hiB)
  rcases pair_of_nodup (rowsAt_nodup h.distinct e) hlen hrA hrB hne with hc | hc
  · rw [hc] at hrC
    simp only [List.mem_cons, List.not_mem_nil, or_false] at hrC
    rcases hrC with rfl | rfl
    · exact hAC (hiA.symm.trans hiC)
    · exact hBC (hiB.symm.trans hiC)
  · rw [hc] at hrC
    simp only [List.mem_cons, List.not_mem_nil, or_false] at hrC
    rcases hrC with rfl | rfl
    · exact hBC (hiB.symm.trans hiC)
    · exact hAC (hiA.symm.trans hiC)

/-! ### the first column -/

theorem M_zero_zero {n : Nat} {pairs : List (Nat × Nat × Int)} {σ : Nat → Int} (h : PairsOK n pairs σ) (k : Nat) :
    M pairs k k = 1 := by
  unfold M
  have : pairs.filter (Link k k) = [] := by
    rw [List.filter_eq_nil_iff]
    intro p hp hl
    simp only [Link, Bool.or_self, Bool.and_eq_true, beq_iff_eq] at hl
    exact h.ne p hp (hl.1.trans hl.2.symm)
  simp [this]

/-- **The first column is harmless** unless the mesh is the two-triangle pillow on one vertex triple. -/
theorem column0_ok {ts : List Tri} {s : Nat → Bool} (h : MeshOK ts s)
    (hpillow : ∀ (h2 : ts.length = 2), ∃ x ∈ tverts (ts[0]'(by omega)), x ∉ tverts (ts[1]'(by omega))) :
    Norm (column ts.length (pairsOf ts) 0) ∨ (column ts.length (pairsOf ts) 0).length < ts.length := by
  by_cases hfull : (column ts.length (pairsOf ts) 0).length < ts.length
  · exact Or.inr hfull
  left
  have hP := pairsOK h
  have hidx := column_idxOK ts.length (pairsOf ts) 0
  have hlen : (column ts.length (pairsOf ts) 0).length = ts.length := by
    have := hidx.length_le; omega
  rintro ⟨k, x⟩ hx
  have hkn : k < ts.length := hidx.lt hx
  have hpos : 0 < ts.length := by omega
  obtain ⟨hk, rfl⟩ := (mem_column hP hpos k x).1 hx
  have hMpos := (M_pos_iff (pairs := pairsOf ts) k 0).2 hk
  by_cases hM1 : M (pairsOf ts) k 0 = 1
  · simp only
    rw [tmatEntry_eq hP, hM1]
    simpa using pm_mul (hP.sgn k) (hP.sgn 0)
  exfalso
  have hM2 : 2 ≤ M (pairsOf ts) k 0 := by omega
  have hk0 : k ≠ 0 := by
    rintro rfl; exact hM1 (M_zero_zero hP 0)
  obtain ⟨h0, hk', e1, e2, hne, u1, u2, u3, u4⟩ := two_edges_of_M hk0 hM2
  have hd0 := h.distinct _ (List.getElem_mem h0)
  have hdk := h.distinct _ (List.getElem_mem hk')
  by_cases h2 : ts.length = 2
  · -- the pillow
    obtain ⟨x, hx0, hx1⟩ := hpillow h2
    have hk1 : k = 1 := by omega
    subst hk1
    apply hx1
    have a1 := (mem_undEdges_iff hdk e1).1 u3
    have a2 := (mem_undEdges_iff hdk e2).1 u4
    rcases cover u1 u2 hne hx0 with rfl | rfl | rfl | rfl
    · exact a1.2.1
    · exact a1.2.2
    · exact a2.2.1
    · exact a2.2.2
  · -- a third triangle `j` is adjacent to triangle 0 (full column), along an edge that triangle `k` has as well
    have hj : ∃ j, j ≠ 0 ∧ j ≠ k ∧ j < ts.length := by
      by_cases hk1 : k = 1
      · exact ⟨2, by omega, by omega, by omega⟩
      · exact ⟨1, by omega, by omega, by omega⟩
    obtain ⟨j, hj0, hjk, hjn⟩ := hj
    obtain ⟨y, hy⟩ := full_support hidx hlen hjn
    rcases ((mem_column hP hpos j y).1 hy).1 with hj | hadj
    · exact hj0 hj
    · obtain ⟨_, hJ, h0', e, he1, he2⟩ := share_of_adj h.distinct hadj
      have he3 := undEdges_subset hd0 hdk u1 u2 u3 u4 hne he2
      exact no_three h h0 hk' hJ (Ne.symm hk0) (Ne.symm hj0) (Ne.symm hjk) he2 he3 he1

end OrientFirstColumn
end LapyVerif
