import Mathlib.Logic.Function.Iterate
import Mathlib.Data.Nat.Find
import LapyVerif.Lemmas.Count
/-
  The loop extraction of `boundary_loops` (`Topo.walk`, `Topo.loopsFrom`) on a half-edge list whose predecessor map
  is a permutation: termination within the fuel the model supplies, and the cycle decomposition it returns.
  Nothing here mentions triangles.
-/
namespace LapyVerif
namespace Lemmas
open Topo

/-! ### injective self-maps of a finite set return to the start -/

section cycle
variable (f : Nat → Nat) (S : List Nat)

theorem iter_mem (hmap : ∀ x ∈ S, f x ∈ S) (x0 : Nat) (h0 : x0 ∈ S) (k : Nat) : f^[k] x0 ∈ S := by
  induction k with
  | zero => simpa using h0
  | succ k ih => rw [Function.iterate_succ_apply']; exact hmap _ ih

theorem iter_cancel (hmap : ∀ x ∈ S, f x ∈ S) (hinj : ∀ x ∈ S, ∀ y ∈ S, f x = f y → x = y)
    (x0 : Nat) (h0 : x0 ∈ S) (i d : Nat) (h : f^[i] x0 = f^[i + d] x0) : x0 = f^[d] x0 := by
  induction i with
  | zero => simpa using h
  | succ i ih =>
    apply ih
    have e : i + 1 + d = (i + d) + 1 := by omega
    rw [e, Function.iterate_succ_apply', Function.iterate_succ_apply'] at h
    exact hinj _ (iter_mem f S hmap x0 h0 i) _ (iter_mem f S hmap x0 h0 (i + d)) h

theorem exists_return (hmap : ∀ x ∈ S, f x ∈ S) (hinj : ∀ x ∈ S, ∀ y ∈ S, f x = f y → x = y)
    (x0 : Nat) (h0 : x0 ∈ S) : ∃ m, 0 < m ∧ m ≤ S.length ∧ f^[m] x0 = x0 := by
  by_contra hno
  have hno' : ∀ m, 0 < m → m ≤ S.length → f^[m] x0 ≠ x0 := by
    intro m h1 h2 h3; exact hno ⟨m, h1, h2, h3⟩
  have key : ∀ i j, i < j → j ≤ S.length → f^[i] x0 ≠ f^[j] x0 := by
    intro i j hij hj h
    have h' : f^[i] x0 = f^[i + (j - i)] x0 := by rw [Nat.add_sub_cancel' (Nat.le_of_lt hij)]; exact h
    have := iter_cancel f S hmap hinj x0 h0 i (j - i) h'
    exact hno' (j - i) (by omega) (by omega) this.symm
  have hnd : ((List.range (S.length + 1)).map fun k => f^[k] x0).Nodup := by
    apply List.nodup_range.map_on
    intro i hi j hj hij
    rw [List.mem_range] at hi hj
    rcases Nat.lt_trichotomy i j with hlt | heq | hgt
    · exact absurd hij (key i j hlt (by omega))
    · exact heq
    · exact absurd hij.symm (key j i hgt (by omega))
  have hsub : ((List.range (S.length + 1)).map fun k => f^[k] x0) ⊆ S := by
    intro y hy
    rw [List.mem_map] at hy
    obtain ⟨k, _, rfl⟩ := hy
    exact iter_mem f S hmap x0 h0 k
  have := hnd.length_le_of_subset hsub
  simp at this
  omega

/-- first return time -/
theorem exists_min_return (hmap : ∀ x ∈ S, f x ∈ S) (hinj : ∀ x ∈ S, ∀ y ∈ S, f x = f y → x = y)
    (x0 : Nat) (h0 : x0 ∈ S) :
    ∃ m, 0 < m ∧ m ≤ S.length ∧ f^[m] x0 = x0 ∧ ∀ k, 0 < k → k < m → f^[k] x0 ≠ x0 := by
  obtain ⟨m0, hm0, hle, hret⟩ := exists_return f S hmap hinj x0 h0
  have hex : ∃ m, 0 < m ∧ f^[m] x0 = x0 := ⟨m0, hm0, hret⟩
  refine ⟨Nat.find hex, (Nat.find_spec hex).1, ?_, (Nat.find_spec hex).2, ?_⟩
  · exact Nat.le_trans (Nat.find_min' hex ⟨hm0, hret⟩) hle
  · intro k hk hlt h
    exact Nat.find_min hex hlt ⟨hk, h⟩

/-- the orbit `x0, f x0, …, f^[m-1] x0` -/
def orbit (x0 m : Nat) : List Nat := (List.range m).map fun k => f^[k] x0

theorem orbit_succ (x0 m : Nat) : orbit f x0 (m + 1) = x0 :: orbit f (f x0) m := by
  unfold orbit
  rw [List.range_succ_eq_map, List.map_cons, List.map_map]
  rfl

theorem orbit_succ' (x0 m : Nat) : orbit f x0 (m + 1) = orbit f x0 m ++ [f^[m] x0] := by
  unfold orbit
  rw [List.range_succ, List.map_append]
  rfl

theorem mem_orbit (x0 m y : Nat) : y ∈ orbit f x0 m ↔ ∃ k < m, f^[k] x0 = y := by
  simp [orbit]

theorem map_orbit (x0 m : Nat) : (orbit f x0 m).map f = orbit f (f x0) m := by
  unfold orbit
  rw [List.map_map]
  apply List.map_congr_left
  intro k _
  simp only [Function.comp_apply]
  rw [← Function.iterate_succ_apply' f, Function.iterate_succ_apply]

theorem nodup_orbit (hmap : ∀ x ∈ S, f x ∈ S) (hinj : ∀ x ∈ S, ∀ y ∈ S, f x = f y → x = y)
    (x0 : Nat) (h0 : x0 ∈ S) (m : Nat) (hmin : ∀ k, 0 < k → k < m → f^[k] x0 ≠ x0) :
    (orbit f x0 m).Nodup := by
  have key : ∀ i j, i < j → j < m → f^[i] x0 ≠ f^[j] x0 := by
    intro i j hij hj h
    have h' : f^[i] x0 = f^[i + (j - i)] x0 := by rw [Nat.add_sub_cancel' (Nat.le_of_lt hij)]; exact h
    have := iter_cancel f S hmap hinj x0 h0 i (j - i) h'
    exact hmin (j - i) (by omega) (by omega) this.symm
  apply List.nodup_range.map_on
  intro i hi j hj hij
  rw [List.mem_range] at hi hj
  rcases Nat.lt_trichotomy i j with hlt | heq | hgt
  · exact absurd hij (key i j hlt hj)
  · exact heq
  · exact absurd hij.symm (key j i hgt hi)

/-- rotating a full orbit by one is applying `f` -/
theorem rotate_orbit (x0 m : Nat) (hret : f^[m] x0 = x0) :
    (orbit f x0 m).drop 1 ++ (orbit f x0 m).take 1 = (orbit f x0 m).map f := by
  cases m with
  | zero => simp [orbit]
  | succ m =>
    rw [map_orbit, orbit_succ' f (f x0), ← Function.iterate_succ_apply, hret, orbit_succ]
    simp

/-- every element of a full orbit is the image of an element of the orbit -/
theorem orbit_closed (x0 m : Nat) (hret : f^[m] x0 = x0) (a : Nat) (ha : a ∈ orbit f x0 m) :
    ∃ x ∈ orbit f x0 m, f x = a := by
  obtain ⟨k, hk, rfl⟩ := (mem_orbit f x0 m a).1 ha
  cases k with
  | zero =>
    refine ⟨f^[m - 1] x0, (mem_orbit f x0 m _).2 ⟨m - 1, by omega, rfl⟩, ?_⟩
    rw [← Function.iterate_succ_apply' f]
    have : (m - 1).succ = m := by omega
    rw [this, hret]; rfl
  | succ k =>
    exact ⟨f^[k] x0, (mem_orbit f x0 m _).2 ⟨k, by omega, rfl⟩, (Function.iterate_succ_apply' f k x0).symm⟩

end cycle

/-! ### `firstRow`, `firstCol` -/

/-- the predecessor the code follows: the smallest stored row index of column `c` -/
def pred (bd : List (Nat × Nat)) (c : Nat) : Nat := (firstRow bd c).getD 0

theorem firstRow_mem {bd : List (Nat × Nat)} {c a : Nat} (h : firstRow bd c = some a) : (a, c) ∈ bd := by
  unfold firstRow at h
  have hm := List.min?_mem h
  simp only [List.mem_map, List.mem_filter, beq_iff_eq] at hm
  obtain ⟨⟨a', c'⟩, ⟨hmem, hc⟩, ha⟩ := hm
  simp only at hc ha
  subst hc; subst ha
  exact hmem

theorem firstRow_of_col {bd : List (Nat × Nat)} {a c : Nat} (h : (a, c) ∈ bd) :
    firstRow bd c = some (pred bd c) := by
  unfold pred
  cases hf : firstRow bd c with
  | none =>
    unfold firstRow at hf
    rw [List.min?_eq_none_iff, List.map_eq_nil_iff, List.filter_eq_nil_iff] at hf
    exact absurd (hf (a, c) h) (by simp)
  | some r => rfl

theorem pred_mem {bd : List (Nat × Nat)} {a c : Nat} (h : (a, c) ∈ bd) : (pred bd c, c) ∈ bd :=
  firstRow_mem (firstRow_of_col h)

theorem firstCol_mem {bd : List (Nat × Nat)} {c : Nat} (h : firstCol bd = some c) : ∃ a, (a, c) ∈ bd := by
  unfold firstCol at h
  have hm := List.min?_mem h
  simp only [List.mem_map] at hm
  obtain ⟨⟨a', c'⟩, hmem, hc⟩ := hm
  simp only at hc
  subst hc
  exact ⟨a', hmem⟩

theorem firstCol_none {bd : List (Nat × Nat)} (h : firstCol bd = none) : bd = [] := by
  unfold firstCol at h
  rwa [List.min?_eq_none_iff, List.map_eq_nil_iff] at h

/-! ### the inner walk -/

theorem walk_spec (bd : List (Nat × Nat)) (first : Nat) (f : Nat → Nat) (m : Nat) :
    ∀ (x fuel : Nat) (acc : List Nat),
      (∀ k < m, f^[k] x ≠ first ∧ firstRow bd (f^[k] x) = some (f^[k + 1] x)) →
      f^[m] x = first → m < fuel →
      walk bd first fuel x acc = some (acc.reverse ++ orbit f x m) := by
  induction m with
  | zero =>
    intro x fuel acc _ hend hfuel
    obtain ⟨fuel, rfl⟩ : ∃ n, fuel = n + 1 := ⟨fuel - 1, by omega⟩
    have hx : x = first := by simpa using hend
    simp [walk, hx, orbit]
  | succ m ih =>
    intro x fuel acc hchain hend hfuel
    obtain ⟨fuel, rfl⟩ : ∃ n, fuel = n + 1 := ⟨fuel - 1, by omega⟩
    obtain ⟨hne, hfr⟩ := hchain 0 (by omega)
    simp only [Function.iterate_zero, id_eq, Nat.zero_add, Function.iterate_one] at hne hfr
    have hbeq : (x == first) = false := by simpa using hne
    rw [walk]
    simp only [hbeq, Bool.false_eq_true, if_false, hfr]
    rw [ih (f x) fuel (x :: acc) ?_ ?_ (by omega), orbit_succ]
    · simp
    · intro k hk
      have := hchain (k + 1) (by omega)
      simpa only [Function.iterate_succ_apply] using this
    · simpa only [Function.iterate_succ_apply] using hend

/-! ### half-edge lists whose predecessor map is a permutation -/

/-- `bd` has no duplicate, every vertex has at most one outgoing half-edge, and every vertex with an outgoing
    half-edge has an incoming one.  (By counting, every vertex then has exactly one incoming and one outgoing
    half-edge: the predecessor map is a permutation of the vertices that occur.) -/
structure PermLike (bd : List (Nat × Nat)) : Prop where
  nodup : bd.Nodup
  out_unique : ∀ a c c', (a, c) ∈ bd → (a, c') ∈ bd → c = c'
  rows_sub_cols : ∀ a c, (a, c) ∈ bd → ∃ a', (a', a) ∈ bd

/-- the half-edges `(l[k+1], l[k])` of a cyclic vertex list, including the closing one `(l[0], l[last])` -/
def cycleEdges (l : List Nat) : List (Nat × Nat) := (l.drop 1 ++ l.take 1).zip l

theorem zip_self {α : Type} (l : List α) : l.zip l = l.map fun a => (a, a) := by
  induction l with
  | nil => rfl
  | cons a l ih => simp [ih]

theorem zip_map_self (g : Nat → Nat) (l : List Nat) : (l.map g).zip l = l.map fun c => (g c, c) := by
  induction l with
  | nil => rfl
  | cons a l ih => simp [ih]

theorem filterMap_eq_map {α β : Type} (g : α → Option β) (h : α → β) (l : List α)
    (hg : ∀ c ∈ l, g c = some (h c)) : l.filterMap g = l.map h := by
  induction l with
  | nil => rfl
  | cons a l ih =>
    rw [List.filterMap_cons, hg a List.mem_cons_self, List.map_cons,
      ih fun c hc => hg c (List.mem_cons_of_mem _ hc)]

section round
variable {bd : List (Nat × Nat)} (hP : PermLike bd)
include hP

theorem PermLike.pred_map : ∀ x ∈ bd.map (·.2), pred bd x ∈ bd.map (·.2) := by
  intro x hx
  rw [List.mem_map] at hx
  obtain ⟨⟨a, c⟩, hm, rfl⟩ := hx
  obtain ⟨a', ha'⟩ := hP.rows_sub_cols _ _ (pred_mem hm)
  exact List.mem_map.mpr ⟨(a', pred bd c), ha', rfl⟩

theorem PermLike.pred_inj : ∀ x ∈ bd.map (·.2), ∀ y ∈ bd.map (·.2), pred bd x = pred bd y → x = y := by
  intro x hx y hy hxy
  rw [List.mem_map] at hx hy
  obtain ⟨⟨a, c⟩, hm, rfl⟩ := hx
  obtain ⟨⟨a', c'⟩, hm', rfl⟩ := hy
  have h1 := pred_mem hm
  have h2 := pred_mem hm'
  simp only at hxy h1 h2 ⊢
  rw [← hxy] at h2
  exact hP.out_unique _ _ _ h1 h2

/-- one round of the outer loop -/
theorem PermLike.round (fc : Nat) (hfc : firstCol bd = some fc) :
    ∃ loop r, firstRow bd fc = some r ∧ walk bd fc (bd.length + 1) r [fc] = some loop ∧
      loop.Nodup ∧ loop ≠ [] ∧
      (loop.filterMap fun c => (firstRow bd c).map fun r => (r, c)) = cycleEdges loop ∧
      (cycleEdges loop).Nodup ∧ cycleEdges loop ≠ [] ∧ (∀ e ∈ cycleEdges loop, e ∈ bd) ∧
      PermLike (bd.filter fun k => !(cycleEdges loop).contains k) := by
  obtain ⟨a0, ha0⟩ := firstCol_mem hfc
  have hS : fc ∈ bd.map (·.2) := List.mem_map.mpr ⟨(a0, fc), ha0, rfl⟩
  have hmap := hP.pred_map
  have hinj := hP.pred_inj
  obtain ⟨m, hm0, hmle, hret, hmin⟩ := exists_min_return (pred bd) _ hmap hinj fc hS
  rw [List.length_map] at hmle
  obtain ⟨m, rfl⟩ : ∃ n, m = n + 1 := ⟨m - 1, by omega⟩
  have hcol : ∀ k, ∃ a, (a, (pred bd)^[k] fc) ∈ bd := by
    intro k
    have := iter_mem (pred bd) _ hmap fc hS k
    rw [List.mem_map] at this
    obtain ⟨⟨a, c⟩, hm, hc⟩ := this
    simp only at hc
    exact ⟨a, hc ▸ hm⟩
  have hfr : ∀ k, firstRow bd ((pred bd)^[k] fc) = some ((pred bd)^[k + 1] fc) := by
    intro k
    obtain ⟨a, ha⟩ := hcol k
    rw [firstRow_of_col ha, Function.iterate_succ_apply']
  have hloopcol : ∀ c ∈ orbit (pred bd) fc (m + 1), ∃ a, (a, c) ∈ bd := by
    intro c hc
    obtain ⟨k, _, rfl⟩ := (mem_orbit _ _ _ _).1 hc
    exact hcol k
  have hV : cycleEdges (orbit (pred bd) fc (m + 1)) =
      (orbit (pred bd) fc (m + 1)).map fun c => (pred bd c, c) := by
    unfold cycleEdges
    rw [rotate_orbit _ _ _ hret, zip_map_self]
  have hnd := nodup_orbit (pred bd) _ hmap hinj fc hS (m + 1) hmin
  have hVmem : ∀ e ∈ cycleEdges (orbit (pred bd) fc (m + 1)), e ∈ bd := by
    intro e he
    rw [hV, List.mem_map] at he
    obtain ⟨c, hc, rfl⟩ := he
    obtain ⟨a, ha⟩ := hloopcol c hc
    exact pred_mem ha
  refine ⟨orbit (pred bd) fc (m + 1), pred bd fc, ?_, ?_, hnd, ?_, ?_, ?_, ?_, hVmem, ?_⟩
  · simpa using hfr 0
  · have := walk_spec bd fc (pred bd) m (pred bd fc) (bd.length + 1) [fc] ?_ ?_ (by omega)
    · rw [this, orbit_succ]; rfl
    · intro k hk
      rw [← Function.iterate_succ_apply, ← Function.iterate_succ_apply]
      exact ⟨hmin (k + 1) (by omega) (by omega), hfr (k + 1)⟩
    · rw [← Function.iterate_succ_apply]; exact hret
  · rw [orbit_succ]; simp
  · rw [hV]
    apply filterMap_eq_map
    intro c hc
    obtain ⟨a, ha⟩ := hloopcol c hc
    rw [firstRow_of_col ha]; rfl
  · rw [hV]
    apply hnd.map
    intro c c' h
    simp only [Prod.mk.injEq] at h
    exact h.2
  · rw [hV, orbit_succ]; simp
  · -- the remaining list is again permutation-like
    refine ⟨hP.nodup.filter _, ?_, ?_⟩
    · intro a c c' h1 h2
      exact hP.out_unique a c c' (List.mem_filter.mp h1).1 (List.mem_filter.mp h2).1
    · intro a c hac
      rw [List.mem_filter] at hac
      obtain ⟨hac, hnv⟩ := hac
      simp only [Bool.not_eq_true', ← Bool.not_eq_true, List.contains_iff_mem] at hnv
      obtain ⟨a', ha'⟩ := hP.rows_sub_cols a c hac
      refine ⟨pred bd a, ?_⟩
      rw [List.mem_filter]
      refine ⟨pred_mem ha', ?_⟩
      simp only [Bool.not_eq_true', ← Bool.not_eq_true, List.contains_iff_mem]
      intro hin
      apply hnv
      rw [hV, List.mem_map] at hin
      obtain ⟨c', hc', he⟩ := hin
      simp only [Prod.mk.injEq] at he
      obtain ⟨_, rfl⟩ := he
      obtain ⟨x, hx, hfx⟩ := orbit_closed (pred bd) fc (m + 1) hret c' hc'
      obtain ⟨b, hb⟩ := hloopcol x hx
      have h1 : (c', x) ∈ bd := hfx ▸ pred_mem hb
      have : c = x := hP.out_unique c' c x hac h1
      rw [hV, List.mem_map]
      exact ⟨x, hx, by rw [hfx, this]⟩

end round

/-- `loopsFrom` on a permutation-like half-edge list: it terminates within the fuel, and the loops it appends are
    duplicate-free vertex cycles whose half-edges are together exactly the half-edges of `bd`, each used once. -/
theorem loopsFrom_spec : ∀ (fuel : Nat) (bd : List (Nat × Nat)) (acc : List (List Nat)),
    PermLike bd → bd.length < fuel →
    ∃ loops, loopsFrom fuel bd acc = some (acc.reverse ++ loops) ∧
      (∀ l ∈ loops, l.Nodup ∧ l ≠ []) ∧ (loops.flatMap cycleEdges).Perm bd := by
  intro fuel
  induction fuel with
  | zero => intro bd acc _ h; omega
  | succ fuel ih =>
    intro bd acc hP hfuel
    rw [loopsFrom]
    cases hfc : firstCol bd with
    | none =>
      have := firstCol_none hfc
      subst this
      exact ⟨[], by simp, by simp, by simp⟩
    | some fc =>
      obtain ⟨loop, r, hr, hw, hnd, hne, hvis, hVnd, hVne, hVmem, hP'⟩ := hP.round fc hfc
      simp only [hr, hw, hvis]
      -- the removed half-edges and the remaining ones partition `bd`
      have hperm : (cycleEdges loop ++ bd.filter fun k => !(cycleEdges loop).contains k).Perm bd := by
        refine List.Perm.trans (List.Perm.append_right _ ?_)
          (List.filter_append_perm (fun k => (cycleEdges loop).contains k) bd)
        apply (List.perm_ext_iff_of_nodup hVnd (hP.nodup.filter _)).2
        intro e
        rw [List.mem_filter, List.contains_iff_mem]
        exact ⟨fun h => ⟨hVmem e h, h⟩, fun h => h.2⟩
      have hlen : (bd.filter fun k => !(cycleEdges loop).contains k).length < fuel := by
        have h1 := hperm.length_eq
        rw [List.length_append] at h1
        have h2 : 0 < (cycleEdges loop).length := List.length_pos_iff.mpr hVne
        omega
      obtain ⟨loops, hl, hall, hp⟩ := ih _ (loop :: acc) hP' hlen
      refine ⟨loop :: loops, ?_, ?_, ?_⟩
      · rw [hl]; simp
      · intro l hl'
        rcases List.mem_cons.mp hl' with rfl | h
        · exact ⟨hnd, hne⟩
        · exact hall l h
      · rw [List.flatMap_cons]
        exact (List.Perm.append_left _ hp).trans hperm

end Lemmas
end LapyVerif
