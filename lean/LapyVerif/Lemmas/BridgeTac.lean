import Mathlib.Tactic.Ring
import Mathlib.Tactic.FieldSimp
import LapyVerif.Lemmas.V3Simp
/- tactics shared by the bridge files -/
namespace LapyVerif

/-- split an equation between two literal triplet lists into one scalar goal per entry -/
macro "coo_entries" : tactic =>
  `(tactic| (simp only [List.cons.injEq, Prod.mk.injEq, and_true, true_and]; and_intros))

/-- the coordinate lemmas used to flatten vector expressions -/
macro "v3_flat" : tactic =>
  `(tactic| simp only [V3.dot, V3.normSq, V3.sub_x, V3.sub_y, V3.sub_z, V3.add_x, V3.add_y, V3.add_z, V3.neg_x, V3.neg_y,
      V3.neg_z, V3.cross_x, V3.cross_y, V3.cross_z, V3.smul_x, V3.smul_y, V3.smul_z, V3.mk_x, V3.mk_y, V3.mk_z,
      sqrt_real, abs_real, exp_real])

end LapyVerif
