import Std.Data.String.ToNat
import Batteries.Data.String.Lemmas
import LapyVerif.Model.Formats
/-
  Helper lemmas for C14 (file formats): the model's string primitives brought down to `List Char`
  (`splitBy`, `words`, decimal tokens) and the token-stream functions (`takeNums`, `readLine`, `chunk`).
-/
namespace LapyVerif
namespace Formats

/-! ### `splitBy` and `words` -/

/-- the white-space test of `words` -/
def isWs (c : Char) : Bool := c == ' ' || c == '\t' || c == '\r' || c == '\n'

/-- one step of the `splitBy` fold -/
def splitStep (p : Char → Bool) (st : List Char × List String) (c : Char) : List Char × List String :=
  if p c then ([], String.ofList st.1.reverse :: st.2) else (c :: st.1, st.2)

/-- final assembly of `splitBy` -/
def splitFin (st : List Char × List String) : List String := (String.ofList st.1.reverse :: st.2).reverse

theorem splitBy_eq (p : Char → Bool) (s : String) :
    splitBy p s = splitFin (s.toList.foldl (splitStep p) ([], [])) := rfl

theorem words_eq (line : String) : words line = (splitBy isWs line).filter (· ≠ "") := rfl

theorem foldl_splitStep_acc (p : Char → Bool) (l : List Char) (cur : List Char) (acc : List String) :
    splitFin (l.foldl (splitStep p) (cur, acc)) = acc.reverse ++ splitFin (l.foldl (splitStep p) (cur, [])) := by
  induction l generalizing cur acc with
  | nil => simp [splitFin]
  | cons c l ih =>
    simp only [List.foldl_cons, splitStep]
    split
    · rw [ih [] (String.ofList cur.reverse :: acc), ih [] [String.ofList cur.reverse]]
      simp
    · exact ih _ _

theorem foldl_splitStep_none (p : Char → Bool) (l : List Char) (h : ∀ c ∈ l, p c = false) (cur : List Char)
    (acc : List String) : l.foldl (splitStep p) (cur, acc) = (l.reverse ++ cur, acc) := by
  induction l generalizing cur with
  | nil => rfl
  | cons c l ih =>
    have hc : p c = false := h c List.mem_cons_self
    simp only [List.foldl_cons, splitStep, hc, Bool.false_eq_true, if_false]
    rw [ih (fun c' hc' => h c' (List.mem_cons_of_mem _ hc'))]
    simp

theorem foldl_splitStep_append (p : Char → Bool) (a b : List Char) (c : Char) (hc : p c = true) :
    splitFin ((a ++ c :: b).foldl (splitStep p) ([], [])) =
      splitFin (a.foldl (splitStep p) ([], [])) ++ splitFin (b.foldl (splitStep p) ([], [])) := by
  rw [List.foldl_append, List.foldl_cons]
  generalize a.foldl (splitStep p) ([], []) = st
  obtain ⟨ca, aa⟩ := st
  simp only [splitStep, hc, if_true]
  rw [foldl_splitStep_acc]
  simp [splitFin]

/-- splitting at a separator character splits the list of pieces -/
theorem splitBy_append (p : Char → Bool) (a b : String) (c : Char) (hc : p c = true) :
    splitBy p (a ++ String.singleton c ++ b) = splitBy p a ++ splitBy p b := by
  simp only [splitBy_eq, String.toList_append, String.toList_singleton, List.append_assoc, List.singleton_append]
  exact foldl_splitStep_append p _ _ c hc

/-- no separator: one piece -/
theorem splitBy_none (p : Char → Bool) (s : String) (h : ∀ c ∈ s.toList, p c = false) : splitBy p s = [s] := by
  rw [splitBy_eq, foldl_splitStep_none p _ h]
  simp [splitFin]

/-- no white space inside -/
def NoWs (s : String) : Prop := ∀ c ∈ s.toList, isWs c = false

instance (s : String) : Decidable (NoWs s) := by unfold NoWs; infer_instance

/-- a token: non-empty, no white space -/
def GoodTok (s : String) : Prop := s ≠ "" ∧ NoWs s

instance (s : String) : Decidable (GoodTok s) := by unfold GoodTok; infer_instance

theorem words_tok (s : String) (h : GoodTok s) : words s = [s] := by
  rw [words_eq, splitBy_none isWs s h.2]
  simp [h.1]

theorem words_empty : words "" = [] := by decide

theorem words_append_space (a b : String) : words (a ++ " " ++ b) = words a ++ words b := by
  rw [words_eq, words_eq, words_eq, ← List.filter_append]
  congr 1
  exact splitBy_append isWs a b ' ' (by decide)

theorem intercalate_cons_cons (s a b : String) (l : List String) :
    s.intercalate (a :: b :: l) = a ++ s ++ s.intercalate (b :: l) := by
  apply String.toList_injective
  simp [String.toList_intercalate, String.toList_append, List.intercalate]

theorem intercalate_singleton (s a : String) : s.intercalate [a] = a := by
  apply String.toList_injective
  simp

/-- `line.split()` of a blank-joined line is the concatenation of the `split()`s of the parts -/
theorem words_intercalate_flatMap (ts : List String) : words (" ".intercalate ts) = ts.flatMap words := by
  induction ts with
  | nil => exact words_empty
  | cons a ts ih =>
    cases ts with
    | nil => simp
    | cons b ts =>
      rw [intercalate_cons_cons, words_append_space, ih]
      simp

/-- **`" ".join(tokens).split() == tokens`** -/
theorem words_intercalate (ts : List String) (h : ∀ t ∈ ts, GoodTok t) : words (" ".intercalate ts) = ts := by
  rw [words_intercalate_flatMap]
  induction ts with
  | nil => rfl
  | cons a ts ih =>
    rw [List.flatMap_cons, words_tok a (h a List.mem_cons_self), ih fun t ht => h t (List.mem_cons_of_mem _ ht)]
    rfl

theorem GoodTok.ne_NL {s : String} (h : GoodTok s) : (s == NL) = false := by
  rw [beq_eq_false_iff_ne]
  rintro rfl
  exact absurd (h.2 '\n' (by decide)) (by decide)

/-! ### decimal tokens -/

theorem isDigit_eq (c : Char) : isDigit c = c.isDigit := by
  simp only [isDigit, Char.isDigit, Char.le_def, ge_iff_le]

theorem isWs_of_isDigit (c : Char) (h : isDigit c = true) : isWs c = false := by
  simp only [isDigit, Bool.and_eq_true, decide_eq_true_eq, Char.le_def] at h
  simp only [isWs, Bool.or_eq_false_iff, beq_eq_false_iff_ne]
  refine ⟨⟨⟨?_, ?_⟩, ?_⟩, ?_⟩ <;> (rintro rfl; revert h; decide)

/-- all characters are decimal digits, at least one -/
def AllDigits (s : String) : Prop := s ≠ "" ∧ ∀ c ∈ s.toList, isDigit c = true

theorem isNatTok_iff (s : String) : isNatTok s = true ↔ AllDigits s := by
  unfold isNatTok AllDigits
  rw [Bool.and_eq_true, Bool.not_eq_true', String.all_bool_eq, List.all_eq_true, ← Bool.not_eq_true,
    String.isEmpty_iff]

theorem AllDigits.goodTok {s : String} (h : AllDigits s) : GoodTok s :=
  ⟨h.1, fun c hc => isWs_of_isDigit c (h.2 c hc)⟩

theorem AllDigits.not_startsWith_sign {s : String} (h : AllDigits s) :
    s.startsWith "-" = false ∧ s.startsWith "+" = false := by
  constructor
  · rw [String.startsWith_string_eq_false_iff]
    rintro ⟨t, ht⟩
    have := h.2 '-' (by rw [← ht]; simp)
    revert this; decide
  · rw [String.startsWith_string_eq_false_iff]
    rintro ⟨t, ht⟩
    have := h.2 '+' (by rw [← ht]; simp)
    revert this; decide

theorem AllDigits.stripSign {s : String} (h : AllDigits s) : stripSign s = s := by
  unfold Formats.stripSign
  rw [h.not_startsWith_sign.1, h.not_startsWith_sign.2]
  rfl

theorem AllDigits.isIntTok {s : String} (h : AllDigits s) : isIntTok s = true := by
  unfold Formats.isIntTok
  rw [h.stripSign, isNatTok_iff]; exact h

theorem toNat!_of_toNat? {s : String} {n : Nat} (h : s.toNat? = some n) : s.toNat! = n := by
  have hn := String.isNat_of_toNat?_eq_some h
  unfold String.toNat! String.Slice.toNat!
  rw [← String.toNat?_toSlice] at h
  unfold String.Slice.toNat? at h
  rw [String.isNat_toSlice] at h ⊢
  rw [hn] at h ⊢
  simp only [if_true, Option.some.injEq] at h
  simpa using h

theorem allDigits_toString (n : Nat) : AllDigits (toString n) := by
  show AllDigits (Nat.repr n)
  refine ⟨?_, ?_⟩
  · intro h
    have := congrArg String.toList h
    rw [Nat.toList_repr] at this
    simp at this
  · intro c hc
    rw [Nat.toList_repr] at hc
    rw [isDigit_eq]
    exact Nat.isDigit_of_mem_toDigits (by omega) (by omega) hc

/-- `str(n)` is an unsigned decimal token … -/
theorem isNatTok_toString (n : Nat) : isNatTok (toString n) = true := (isNatTok_iff _).2 (allDigits_toString n)

/-- … that `int()` reads back -/
theorem toNat!_toString (n : Nat) : (toString n).toNat! = n := toNat!_of_toNat? (Nat.toNat?_repr n)

theorem isIntTok_toString (n : Nat) : isIntTok (toString n) = true := (allDigits_toString n).isIntTok
theorem goodTok_toString (n : Nat) : GoodTok (toString n) := (allDigits_toString n).goodTok
theorem words_toString (n : Nat) : words (toString n) = [toString n] := words_tok _ (goodTok_toString n)
theorem not_startsWith_minus_toString (n : Nat) : (toString n).startsWith "-" = false :=
  (allDigits_toString n).not_startsWith_sign.1

theorem map_toNat!_toString (e : List Nat) : (e.map toString).map (·.toNat!) = e := by
  rw [List.map_map]
  conv => rhs; rw [← List.map_id e]
  apply List.map_congr_left
  intro n _
  exact toNat!_toString n

/-! ### token streams -/

theorem dropNL_cons_NL (r : List String) : dropNL (NL :: r) = dropNL r := by
  simp [dropNL]

theorem dropNL_cons_of_ne (t : String) (r : List String) (h : (t == NL) = false) : dropNL (t :: r) = t :: r := by
  simp [dropNL, h]

theorem takeNums_cons_NL (ok : String → Bool) (n : Nat) (acc r : List String) :
    takeNums ok n acc (NL :: r) = takeNums ok n acc r := by
  cases n with
  | zero => simp [takeNums, dropNL_cons_NL]
  | succ n => simp [takeNums]

theorem takeNums_cons_ok (ok : String → Bool) (n : Nat) (acc r : List String) (t : String)
    (h1 : (t == NL) = false) (h2 : ok t = true) :
    takeNums ok (n + 1) acc (t :: r) = takeNums ok n (t :: acc) r := by
  simp [takeNums, h1, h2]

/-- a run of good tokens is consumed -/
theorem takeNums_row (ok : String → Bool) (row : List String) (h : ∀ t ∈ row, (t == NL) = false ∧ ok t = true)
    (m : Nat) (acc tail : List String) :
    takeNums ok (row.length + m) acc (row ++ tail) = takeNums ok m (row.reverse ++ acc) tail := by
  induction row generalizing acc with
  | nil => simp
  | cons t row ih =>
    have ht := h t List.mem_cons_self
    rw [List.length_cons, show row.length + 1 + m = (row.length + m) + 1 by omega, List.cons_append,
      takeNums_cons_ok ok _ acc _ t ht.1 ht.2, ih (fun t' ht' => h t' (List.mem_cons_of_mem _ ht'))]
    simp

/-- **`np.fromfile` over complete rows**: all numbers of the rows are returned in order, the stream continues after the
    line breaks that follow -/
theorem takeNums_rows (ok : String → Bool) (rows : List (List String))
    (h : ∀ row ∈ rows, ∀ t ∈ row, (t == NL) = false ∧ ok t = true) (acc rest : List String) :
    takeNums ok rows.flatten.length acc (rows.flatMap (· ++ [NL]) ++ rest) =
      .ok (acc.reverse ++ rows.flatten, dropNL rest) := by
  induction rows generalizing acc with
  | nil => simp [takeNums]
  | cons row rows ih =>
    rw [List.flatten_cons, List.length_append, List.flatMap_cons, List.append_assoc, List.append_assoc,
      takeNums_row ok row (h row List.mem_cons_self), List.singleton_append, takeNums_cons_NL,
      ih (fun r hr => h r (List.mem_cons_of_mem _ hr))]
    simp

/-- the stream ends before the requested count is reached -/
theorem takeNums_short (ok : String → Bool) (rows : List (List String))
    (h : ∀ row ∈ rows, ∀ t ∈ row, (t == NL) = false ∧ ok t = true) (d : Nat) (acc : List String) :
    takeNums ok (rows.flatten.length + (d + 1)) acc (rows.flatMap (· ++ [NL])) = .error .data := by
  induction rows generalizing acc with
  | nil => simp [takeNums]
  | cons row rows ih =>
    rw [List.flatten_cons, List.length_append, Nat.add_assoc, List.flatMap_cons, List.append_assoc,
      takeNums_row ok row (h row List.mem_cons_self), List.singleton_append, takeNums_cons_NL,
      ih (fun r hr => h r (List.mem_cons_of_mem _ hr))]

theorem readLine_row (row : List String) (h : ∀ t ∈ row, (t == NL) = false) (rest : List String) :
    readLine (row ++ NL :: rest) = (row, rest) := by
  induction row with
  | nil => simp [readLine]
  | cons t row ih =>
    have ht := h t List.mem_cons_self
    simp only [List.cons_append, readLine, ht, Bool.false_eq_true, if_false,
      ih (fun t' ht' => h t' (List.mem_cons_of_mem _ ht'))]

/-- cutting a flattened list of rows of equal width back into the rows -/
theorem chunk_flatten (k : Nat) (rows : List (List String)) (h : ∀ r ∈ rows, r.length = k) :
    chunk k rows.length rows.flatten = rows := by
  induction rows with
  | nil => rfl
  | cons r rows ih =>
    have hr := h r List.mem_cons_self
    simp only [List.length_cons, chunk, List.flatten_cons]
    rw [List.take_left' hr, List.drop_left' hr, ih fun r' hr' => h r' (List.mem_cons_of_mem _ hr')]

theorem tokenize_cons (l : String) (ls : List String) : tokenize (l :: ls) = words l ++ NL :: tokenize ls := by
  simp [tokenize]

theorem tokenize_append (a b : List String) : tokenize (a ++ b) = tokenize a ++ tokenize b := by
  simp [tokenize]

/-- the token stream of blank-joined rows of good tokens -/
theorem tokenize_rows (rows : List (List String)) (h : ∀ row ∈ rows, ∀ t ∈ row, GoodTok t) :
    tokenize (rows.map fun r => " ".intercalate r) = rows.flatMap (· ++ [NL]) := by
  induction rows with
  | nil => rfl
  | cons r rows ih =>
    rw [List.map_cons, tokenize_cons, words_intercalate r (h r List.mem_cons_self),
      ih fun r' hr' => h r' (List.mem_cons_of_mem _ hr')]
    simp

/-! ### `String.splitOn` at a one-character separator -/

section splitOn
open String

/-- list-level splitting at the characters satisfying `p`, with the current piece `m` -/
def piecesP (p : Char → Bool) : List Char → List Char → List (List Char)
  | m, [] => [m]
  | m, x :: rest => if p x then m :: piecesP p [] rest else piecesP p (m ++ [x]) rest

/-- list-level splitting at a character -/
abbrev piecesL (c : Char) : List Char → List Char → List (List Char) := piecesP (fun x => x == c)

theorem singleton_eq_ofList (c : Char) : String.singleton c = ofList [c] := by
  apply String.toList_injective; simp

theorem splitOnAux_single (c : Char) (rest : List Char) : ∀ (l m : List Char) (acc : List String),
    splitOnAux (ofList (l ++ m ++ rest)) (ofList [c]) ⟨utf8Len l⟩ ⟨utf8Len l + utf8Len m⟩ 0 acc =
      acc.reverse ++ (piecesL c m rest).map ofList := by
  induction rest with
  | nil =>
    intro l m acc
    unfold splitOnAux
    have hend : (⟨utf8Len l + utf8Len m⟩ : Pos.Raw).atEnd (ofList (l ++ m ++ [])) = true := by
      have := (atEnd_of_valid (l ++ m) []).2 rfl
      simpa [utf8Len_append] using this
    rw [if_pos hend]
    simp only [piecesL, piecesP, List.map_cons, List.map_nil, List.reverse_cons]
    rw [extract_of_valid l m []]
  | cons x rest ih =>
    intro l m acc
    unfold splitOnAux
    have hend : ¬ (⟨utf8Len l + utf8Len m⟩ : Pos.Raw).atEnd (ofList (l ++ m ++ x :: rest)) = true := by
      have := (atEnd_of_valid (l ++ m) (x :: rest))
      simp only [utf8Len_append] at this
      rw [this]; simp
    have hget : (⟨utf8Len l + utf8Len m⟩ : Pos.Raw).get (ofList (l ++ m ++ x :: rest)) = x := by
      have := get_of_valid (l ++ m) (x :: rest)
      simpa [utf8Len_append] using this
    have hnext : (⟨utf8Len l + utf8Len m⟩ : Pos.Raw).next (ofList (l ++ m ++ x :: rest))
        = ⟨utf8Len l + utf8Len m + x.utf8Size⟩ := by
      have := next_of_valid (l ++ m) x rest
      simpa [utf8Len_append] using this
    have hgetc : (0 : Pos.Raw).get (ofList [c]) = c := by
      have := get_of_valid [] [c]
      simpa using this
    have hnextc : (0 : Pos.Raw).next (ofList [c]) = ⟨c.utf8Size⟩ := by
      have := next_of_valid [] c []
      simpa using this
    have hendc : (⟨c.utf8Size⟩ : Pos.Raw).atEnd (ofList [c]) = true := by
      rw [atEnd_iff, rawEndPos_ofList]; simp
    rw [if_neg hend, hget, hgetc]
    by_cases hx : x = c
    · subst hx
      simp only [beq_self_eq_true, if_true, hnext, hnextc, hendc, piecesL, piecesP]
      have hun : (⟨utf8Len l + utf8Len m + x.utf8Size⟩ : Pos.Raw).unoffsetBy ⟨x.utf8Size⟩ = ⟨utf8Len l + utf8Len m⟩ := by
        simp [Pos.Raw.unoffsetBy]
      rw [hun]
      have hex := extract_of_valid l m (x :: rest)
      rw [hex]
      have := ih (l ++ m ++ [x]) [] (ofList m :: acc)
      simp only [utf8Len_append, utf8Len_cons, utf8Len_nil, List.append_nil, Nat.zero_add, Nat.add_zero,
        List.append_assoc, List.singleton_append, ← Nat.add_assoc] at this
      simp only [List.append_assoc] at *
      rw [this]
      simp
    · have hb : (x == c) = false := by simpa using hx
      simp only [hb, Bool.false_eq_true, if_false, piecesL, piecesP]
      have hun : ((⟨utf8Len l + utf8Len m⟩ : Pos.Raw).unoffsetBy 0) = ⟨utf8Len l + utf8Len m⟩ := by
        simp [Pos.Raw.unoffsetBy]
      rw [hun, hnext]
      have := ih l (m ++ [x]) acc
      simp only [utf8Len_append, utf8Len_cons, utf8Len_nil, Nat.zero_add, List.append_assoc,
        List.singleton_append, ← Nat.add_assoc] at this
      simp only [List.append_assoc] at *
      exact this

/-- **`s.split(c)`** for a one-character separator, on the character list -/
theorem splitOn_char (s : String) (c : Char) :
    s.splitOn (ofList [c]) = (piecesL c [] s.toList).map ofList := by
  have hne : (ofList [c] == "") = false := by
    rw [beq_eq_false_iff_ne]
    intro h
    have := congrArg String.toList h
    simp at this
  unfold String.splitOn
  rw [hne]
  have := splitOnAux_single c s.toList [] [] []
  simpa using this

/-- the model's `splitBy` on the character list -/
theorem splitBy_eq_pieces (p : Char → Bool) (s : String) : splitBy p s = (piecesP p [] s.toList).map ofList := by
  have key : ∀ (l cur : List Char) (acc : List String),
      splitFin (l.foldl (splitStep p) (cur, acc)) = acc.reverse ++ (piecesP p cur.reverse l).map ofList := by
    intro l
    induction l with
    | nil => intro cur acc; simp [splitFin, piecesP]
    | cons x l ih =>
      intro cur acc
      simp only [List.foldl_cons, splitStep, piecesP]
      split
      · rw [ih]; simp
      · rw [ih]; simp
  rw [splitBy_eq, key]
  simp

/-- `str.split(c)` is the model's own `splitBy` -/
theorem splitOn_char_eq_splitBy (s : String) (c : Char) : s.splitOn (ofList [c]) = splitBy (fun x => x == c) s := by
  rw [splitOn_char, splitBy_eq_pieces]

end splitOn

/-! ### computable mirrors on character lists: `stripSign`, `isNatTok`, `isFloatTok`, `trimAscii` -/

section mirror
open String

def stripSignL : List Char → List Char
  | '-' :: r => r
  | '+' :: r => r
  | l => l

def natL (l : List Char) : Bool := !l.isEmpty && l.all isDigit

theorem isNatTok_ofList (l : List Char) : isNatTok (ofList l) = natL l := by
  unfold isNatTok natL
  rw [String.all_bool_eq, String.toList_ofList]
  congr 2
  rw [Bool.eq_iff_iff, String.isEmpty_iff]
  cases l <;> simp

theorem isNatTok_eq (s : String) : isNatTok s = natL s.toList := by
  rw [← isNatTok_ofList, String.ofList_toList]

theorem stripSign_eq (s : String) : stripSign s = ofList (stripSignL s.toList) := by
  unfold stripSign
  apply String.toList_injective
  rw [String.toList_ofList]
  split
  · rename_i h
    show (s.drop 1).copy.toList = _
    rw [String.toList_copy_drop]
    simp only [Bool.or_eq_true, String.startsWith_string_iff] at h
    rcases h with ⟨t, ht⟩ | ⟨t, ht⟩
    · rw [← ht]; rfl
    · rw [← ht]; rfl
  · rename_i h
    simp only [Bool.or_eq_true, String.startsWith_string_iff, not_or] at h
    cases hl : s.toList with
    | nil => rfl
    | cons x r =>
      have h1 : x ≠ '-' := by
        rintro rfl; exact h.1 ⟨r, by rw [hl]; rfl⟩
      have h2 : x ≠ '+' := by
        rintro rfl; exact h.2 ⟨r, by rw [hl]; rfl⟩
      unfold stripSignL
      split
      · rename_i heq; simp only [List.cons.injEq] at heq; exact absurd heq.1 h1
      · rename_i heq; simp only [List.cons.injEq] at heq; exact absurd heq.1 h2
      · rfl

theorem isIntTok_ofList (l : List Char) : isIntTok (ofList l) = natL (stripSignL l) := by
  unfold isIntTok
  rw [stripSign_eq, String.toList_ofList, isNatTok_ofList]

theorem ofList_beq (l : List Char) (t : String) : (ofList l == t) = (l == t.toList) := by
  rw [Bool.eq_iff_iff, beq_iff_eq, beq_iff_eq]
  constructor
  · rintro rfl; simp
  · intro h; rw [h, String.ofList_toList]

theorem isEmpty_ofList (l : List Char) : (ofList l).isEmpty = l.isEmpty := by
  rw [Bool.eq_iff_iff, String.isEmpty_iff]
  cases l <;> simp

/-- `isFloatTok` on the character list (computable by `decide`) -/
def isFloatTokL (l : List Char) : Bool :=
  let body := stripSignL l
  if body == ['n', 'a', 'n'] || body == ['i', 'n', 'f'] then true else
  let me : List Char × Option (List Char) := match piecesL 'e' [] body with
    | [m] => (m, none)
    | [m, e] => (m, some e)
    | _ => ([], none)
  let mantOk := match piecesL '.' [] me.1 with
    | [a] => natL a
    | [a, b] => (natL a && (b.isEmpty || natL b)) || (a.isEmpty && natL b)
    | _ => false
  mantOk && (match me.2 with | none => true | some e => natL (stripSignL e))

theorem splitOn_dot (m : List Char) : (ofList m).splitOn "." = (piecesL '.' [] m).map ofList := by
  rw [show ("." : String) = ofList ['.'] by decide, splitOn_char, String.toList_ofList]

theorem isFloatTok_eq (s : String) : isFloatTok s = isFloatTokL s.toList := by
  unfold isFloatTok isFloatTokL
  rw [stripSign_eq]
  generalize stripSignL s.toList = body
  simp only [ofList_beq]
  rw [show ("nan" : String).toList = ['n', 'a', 'n'] by decide, show ("inf" : String).toList = ['i', 'n', 'f'] by decide]
  split
  · rfl
  · have he : (ofList body).splitOn "e" = (piecesL 'e' [] body).map ofList := by
      rw [show ("e" : String) = ofList ['e'] by decide, splitOn_char, String.toList_ofList]
    rw [he]
    have h0 : ("" : String).splitOn "." = (piecesL '.' [] []).map ofList := splitOn_dot []
    rcases piecesL 'e' [] body with _ | ⟨m, _ | ⟨e, _ | ⟨x, r⟩⟩⟩
    · simp only [List.map_nil]
      rw [h0]
      rcases piecesL '.' [] [] with _ | ⟨a, _ | ⟨b, _ | ⟨x, r⟩⟩⟩ <;> simp [isNatTok_ofList, isEmpty_ofList]
    · simp only [List.map_cons, List.map_nil]
      rw [splitOn_dot]
      rcases piecesL '.' [] m with _ | ⟨a, _ | ⟨b, _ | ⟨x, r⟩⟩⟩ <;> simp [isNatTok_ofList, isEmpty_ofList]
    · simp only [List.map_cons, List.map_nil, isIntTok_ofList]
      rw [splitOn_dot]
      rcases piecesL '.' [] m with _ | ⟨a, _ | ⟨b, _ | ⟨x, r⟩⟩⟩ <;> simp [isNatTok_ofList, isEmpty_ofList]
    · simp only [List.map_cons]
      rw [h0]
      rcases piecesL '.' [] [] with _ | ⟨a, _ | ⟨b, _ | ⟨x, r⟩⟩⟩ <;> simp [isNatTok_ofList, isEmpty_ofList]

example : isFloatTok "-1.25e-3" = true := by rw [isFloatTok_eq]; decide
example : isFloatTok "0.5" = true := by rw [isFloatTok_eq]; decide
example : isFloatTok "1e" = false := by rw [isFloatTok_eq]; decide

/-! ### `trimAscii` -/

def trimStartL (l : List Char) : List Char := l.dropWhile Char.isWhitespace
def trimEndL (l : List Char) : List Char := (l.reverse.dropWhile Char.isWhitespace).reverse
def trimL (l : List Char) : List Char := trimEndL (trimStartL l)

theorem dropWhile_of_split (p : Char → Bool) (t d : List Char) (ht : ∀ c ∈ t, p c = true)
    (hd : d.head?.any p = false) : (t ++ d).dropWhile p = d := by
  induction t with
  | nil =>
    cases d with
    | nil => rfl
    | cons x d => simp only [List.head?_cons, Option.any_some] at hd; simp [hd]
  | cons x t ih =>
    simp only [List.cons_append, List.dropWhile_cons, ht x List.mem_cons_self, if_true]
    exact ih fun c hc => ht c (List.mem_cons_of_mem _ hc)

theorem slice_dropWhile_toList (sl : String.Slice) (p : Char → Bool) :
    (sl.dropWhile p).copy.toList = sl.copy.toList.dropWhile p := by
  have h1 : (sl.takeWhile p).copy ++ (sl.dropWhile p).copy = sl.copy := String.Slice.takeWhile_append_dropWhile
  have h2 : (sl.takeWhile p).all p = true := String.Slice.all_takeWhile
  have h3 : (sl.dropWhile p).startsWith p = false := String.Slice.startsWith_dropWhile
  rw [String.Slice.all_bool_eq, List.all_eq_true] at h2
  rw [String.Slice.startsWith_bool_eq_head?] at h3
  rw [← h1, String.toList_append, dropWhile_of_split p _ _ h2 h3]

theorem slice_dropEndWhile_toList (sl : String.Slice) (p : Char → Bool) :
    (sl.dropEndWhile p).copy.toList = (sl.copy.toList.reverse.dropWhile p).reverse := by
  have h1 : (sl.dropEndWhile p).copy ++ (sl.takeEndWhile p).copy = sl.copy :=
    String.Slice.dropEndWhile_append_takeEndWhile
  have h2 : (sl.takeEndWhile p).revAll p = true := String.Slice.revAll_takeEndWhile
  have h3 : (sl.dropEndWhile p).endsWith p = false := String.Slice.endsWith_dropEndWhile
  rw [String.Slice.revAll_bool_eq, List.all_eq_true] at h2
  rw [String.Slice.endsWith_bool_eq_getLast?] at h3
  rw [← h1, String.toList_append, List.reverse_append,
    dropWhile_of_split p _ _ (fun c hc => h2 c (List.mem_reverse.mp hc)) (by rwa [List.head?_reverse]),
    List.reverse_reverse]

theorem trimAsciiStart_eq (s : String) : s.trimAsciiStart.toString = ofList (trimStartL s.toList) := by
  apply String.toList_injective
  rw [String.toList_ofList]
  show (s.toSlice.dropWhile Char.isWhitespace).copy.toList = _
  rw [slice_dropWhile_toList]
  simp [trimStartL]

theorem trimAscii_eq (s : String) : s.trimAscii.toString = ofList (trimL s.toList) := by
  apply String.toList_injective
  rw [String.toList_ofList]
  show ((s.toSlice.dropWhile Char.isWhitespace).dropEndWhile Char.isWhitespace).copy.toList = _
  rw [slice_dropEndWhile_toList, slice_dropWhile_toList]
  simp [trimL, trimEndL, trimStartL]

example : ("  ab ".trimAscii.toString) = "ab" := by rw [trimAscii_eq]; decide

theorem isWs_eq (c : Char) : isWs c = c.isWhitespace := by
  simp only [isWs, Char.isWhitespace]
  rfl

theorem trimL_id (l : List Char) (h1 : l.head?.any Char.isWhitespace = false)
    (h2 : l.getLast?.any Char.isWhitespace = false) : trimL l = l := by
  have e1 : trimStartL l = l := by
    have := dropWhile_of_split Char.isWhitespace [] l (by simp) h1
    simpa [trimStartL] using this
  unfold trimL
  rw [e1]
  unfold trimEndL
  have := dropWhile_of_split Char.isWhitespace [] l.reverse (by simp) (by rwa [List.head?_reverse])
  simp only [List.nil_append] at this
  rw [this, List.reverse_reverse]

/-- a string without white space at either end is not changed by `strip()` -/
theorem trimAscii_id (s : String) (h1 : s.toList.head?.any Char.isWhitespace = false)
    (h2 : s.toList.getLast?.any Char.isWhitespace = false) : s.trimAscii.toString = s := by
  rw [trimAscii_eq, trimL_id _ h1 h2, String.ofList_toList]

theorem trimAscii_tok (s : String) (h : NoWs s) : s.trimAscii.toString = s := by
  apply trimAscii_id
  · cases hl : s.toList with
    | nil => rfl
    | cons x r => simp only [List.head?_cons, Option.any_some]; rw [← isWs_eq]; exact h x (by rw [hl]; simp)
  · cases hl : s.toList.getLast? with
    | none => rfl
    | some x =>
      simp only [Option.any_some]; rw [← isWs_eq]
      exact h x (List.mem_of_getLast? hl)

/-- `sep.join(vals).split(sep)` for a one-character separator -/
theorem splitBy_intercalate (p : Char → Bool) (c : Char) (hc : p c = true) (vals : List String) (hne : vals ≠ [])
    (h : ∀ v ∈ vals, ∀ x ∈ v.toList, p x = false) : splitBy p ((String.singleton c).intercalate vals) = vals := by
  induction vals with
  | nil => exact absurd rfl hne
  | cons a vals ih =>
    cases vals with
    | nil =>
      rw [intercalate_singleton, splitBy_none p a (h a List.mem_cons_self)]
    | cons b vals =>
      rw [intercalate_cons_cons, splitBy_append p a _ c hc, splitBy_none p a (h a List.mem_cons_self),
        ih (by simp) fun v hv => h v (List.mem_cons_of_mem _ hv)]
      rfl

theorem stripChars_append (a b : String) (cs : List Char) :
    stripChars (a ++ b) cs = stripChars a cs ++ stripChars b cs := by
  apply String.toList_injective
  simp [stripChars, String.toList_append]

theorem stripChars_clean (s : String) (cs : List Char) (h : ∀ c ∈ s.toList, cs.contains c = false) :
    stripChars s cs = s := by
  unfold stripChars
  rw [List.filter_eq_self.mpr (fun c hc => by rw [h c hc]; rfl), String.ofList_toList]

theorem mem_intercalate (sep : String) (l : List String) (c : Char) (hc : c ∈ (sep.intercalate l).toList) :
    c ∈ sep.toList ∨ ∃ v ∈ l, c ∈ v.toList := by
  induction l with
  | nil => simp at hc
  | cons a l ih =>
    cases l with
    | nil => rw [intercalate_singleton] at hc; exact Or.inr ⟨a, by simp, hc⟩
    | cons b l =>
      rw [intercalate_cons_cons, String.toList_append, String.toList_append, List.mem_append, List.mem_append] at hc
      rcases hc with (hc | hc) | hc
      · exact Or.inr ⟨a, by simp, hc⟩
      · exact Or.inl hc
      · rcases ih hc with h | ⟨v, hv, h⟩
        · exact Or.inl h
        · exact Or.inr ⟨v, List.mem_cons_of_mem _ hv, h⟩

theorem piecesP_none (p : Char → Bool) (l m : List Char) (h : ∀ x ∈ l, p x = false) : piecesP p m l = [m ++ l] := by
  induction l generalizing m with
  | nil => simp [piecesP]
  | cons x l ih =>
    simp only [piecesP, h x List.mem_cons_self, Bool.false_eq_true, if_false]
    rw [ih _ fun y hy => h y (List.mem_cons_of_mem _ hy)]
    simp

theorem stripSignL_digits (l : List Char) (h : ∀ c ∈ l, isDigit c = true) : stripSignL l = l := by
  cases l with
  | nil => rfl
  | cons x r =>
    have hx := h x List.mem_cons_self
    unfold stripSignL
    split
    · rename_i heq; simp only [List.cons.injEq] at heq; rw [heq.1] at hx; exact absurd hx (by decide)
    · rename_i heq; simp only [List.cons.injEq] at heq; rw [heq.1] at hx; exact absurd hx (by decide)
    · rfl

/-- an unsigned decimal integer is also accepted as a float token -/
theorem AllDigits.isFloatTok {s : String} (h : AllDigits s) : isFloatTok s = true := by
  rw [isFloatTok_eq]
  have hne : s.toList ≠ [] := fun e => h.1 (String.toList_eq_nil_iff.mp e)
  have hd := h.2
  generalize s.toList = l at hne hd
  unfold isFloatTokL
  rw [stripSignL_digits l hd]
  have hnan : (l == ['n', 'a', 'n'] || l == ['i', 'n', 'f']) = false := by
    rw [Bool.or_eq_false_iff, beq_eq_false_iff_ne, beq_eq_false_iff_ne]
    constructor <;> (rintro rfl; have := hd 'n' (by simp); revert this; decide)
  have he : piecesL 'e' [] l = [l] := by
    have := piecesP_none (fun x => x == 'e') l [] (fun x hx => by
      have := hd x hx
      rw [beq_eq_false_iff_ne]; rintro rfl; revert this; decide)
    simpa using this
  have hdot : piecesL '.' [] l = [l] := by
    have := piecesP_none (fun x => x == '.') l [] (fun x hx => by
      have := hd x hx
      rw [beq_eq_false_iff_ne]; rintro rfl; revert this; decide)
    simpa using this
  have hnat : natL l = true := by
    unfold natL
    rw [Bool.and_eq_true, List.all_eq_true]
    refine ⟨?_, hd⟩
    cases l with
    | nil => exact absurd rfl hne
    | cons x r => rfl
  simp only [hnan, Bool.false_eq_true, if_false, he, hdot, hnat, Bool.and_self]

theorem isFloatTok_toString (n : Nat) : isFloatTok (toString n) = true := (allDigits_toString n).isFloatTok

theorem piecesP_ne_nil (p : Char → Bool) (rest m : List Char) : piecesP p m rest ≠ [] := by
  induction rest generalizing m with
  | nil => simp [piecesP]
  | cons x rest ih =>
    simp only [piecesP]
    split
    · simp
    · exact ih _

/-- joining the pieces of a split gives the list back -/
theorem join_piecesP (c : Char) (rest m : List Char) :
    [c].intercalate (piecesP (fun x => x == c) m rest) = m ++ rest := by
  induction rest generalizing m with
  | nil => simp [piecesP, List.intercalate]
  | cons x rest ih =>
    simp only [piecesP]
    split
    · rename_i hx
      have hx' : x = c := by simpa using hx
      subst hx'
      have hne := piecesP_ne_nil (fun y => y == x) rest []
      obtain ⟨q, qs, hq⟩ := List.exists_cons_of_ne_nil hne
      have := ih []
      rw [hq] at this ⊢
      simp only [List.intercalate, List.intersperse_cons_cons, List.flatten_cons, List.nil_append] at this ⊢
      rw [this]; simp
    · rw [ih]; simp

theorem join_splitBy (c : Char) (s : String) :
    (String.singleton c).intercalate (splitBy (fun x => x == c) s) = s := by
  apply String.toList_injective
  rw [String.toList_intercalate, splitBy_eq_pieces, List.map_map]
  have : (String.toList ∘ ofList) = id := by funext l; simp
  rw [this, List.map_id, String.toList_singleton, join_piecesP]
  simp

/-- `l.split(":", 1)[1].strip()` for a line `pre:post` whose `pre` has no colon -/
theorem afterColon_eq (pre post : String) (h : ∀ x ∈ pre.toList, x ≠ ':') :
    afterColon (pre ++ ":" ++ post) = post.trimAscii.toString := by
  unfold afterColon
  rw [show (":" : String) = ofList [':'] by decide, splitOn_char_eq_splitBy]
  rw [show (ofList [':'] : String) = String.singleton ':' by decide,
    splitBy_append _ pre post ':' (by decide), splitBy_none _ pre (fun x hx => by simpa using h x hx)]
  simp only [List.singleton_append, List.drop_one, List.tail_cons]
  rw [join_splitBy]

theorem trimStart_space (s : String) (h : s.toList.head?.any Char.isWhitespace = false) :
    (" " ++ s).trimAsciiStart.toString = s := by
  rw [trimAsciiStart_eq, String.toList_append]
  have : (" " : String).toList = [' '] := by decide
  rw [this]
  have := dropWhile_of_split Char.isWhitespace [' '] s.toList (by decide) h
  simp only [trimStartL]
  rw [this, String.ofList_toList]


end mirror

end Formats
end LapyVerif
