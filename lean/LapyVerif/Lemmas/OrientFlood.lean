import Mathlib.Tactic.Ring
import Mathlib.Tactic.Linarith
import Mathlib.Data.List.Perm.Subperm
import LapyVerif.Lemmas.OrientLemmas
/-
  The flood of `orient_` on an abstract signed neighbour list `pairs` whose signs come from an orientation witness:
  `w(A,B) = σ A * σ B` with `σ = ±1`.  In the gauge `x ↦ σ k * x` the matrix `tmat` is entrywise non-negative, so the
  flood never cancels, its support grows by one neighbour ring per step, and re-seeding (only when the support is
  closed under adjacency) starts a fresh component.
-/
namespace LapyVerif
namespace OrientFlood
open Orient OrientLemmas

/-! ### small facts on lists of integers -/

theorem sum_map_eq_mul {α : Type} (l : List α) (f h : α → Int) (c : Int) (hf : ∀ e ∈ l, f e = c * h e) :
    (l.map f).sum = c * (l.map h).sum := by
  induction l with
  | nil => simp
  | cons a l ih =>
    simp only [List.map_cons, List.sum_cons]
    rw [hf a List.mem_cons_self, ih (fun e he => hf e (List.mem_cons_of_mem _ he))]
    ring

theorem sum_map_nonneg {α : Type} (l : List α) (f : α → Int) (hf : ∀ e ∈ l, 0 ≤ f e) : 0 ≤ (l.map f).sum := by
  induction l with
  | nil => simp
  | cons a l ih =>
    simp only [List.map_cons, List.sum_cons]
    have := hf a List.mem_cons_self
    have := ih (fun e he => hf e (List.mem_cons_of_mem _ he))
    omega

theorem sum_map_pos {α : Type} (l : List α) (f : α → Int) (hf : ∀ e ∈ l, 0 ≤ f e) (e : α) (he : e ∈ l)
    (hpos : 0 < f e) : 0 < (l.map f).sum := by
  induction l with
  | nil => cases he
  | cons a l ih =>
    simp only [List.map_cons, List.sum_cons]
    have h0 := hf a List.mem_cons_self
    have h1 := sum_map_nonneg l f (fun e he => hf e (List.mem_cons_of_mem _ he))
    rcases List.mem_cons.1 he with rfl | he'
    · omega
    · have := ih (fun e he => hf e (List.mem_cons_of_mem _ he)) he'
      omega

theorem sum_map_zero {α : Type} (l : List α) (f : α → Int) (hf : ∀ e ∈ l, f e = 0) : (l.map f).sum = 0 := by
  induction l with
  | nil => simp
  | cons a l ih =>
    simp only [List.map_cons, List.sum_cons]
    rw [hf a List.mem_cons_self, ih (fun e he => hf e (List.mem_cons_of_mem _ he))]
    rfl

theorem pm_mul_self {c : Int} (h : c = 1 ∨ c = -1) : c * c = 1 := by
  rcases h with rfl | rfl <;> rfl

/-! ### the abstract setting -/

/-- `p` links the triangles `k` and `j` -/
def Link (k j : Nat) (p : Nat × Nat × Int) : Bool := (p.1 == k && p.2.1 == j) || (p.1 == j && p.2.1 == k)

structure PairsOK (n : Nat) (pairs : List (Nat × Nat × Int)) (σ : Nat → Int) : Prop where
  sgn : ∀ k, σ k = 1 ∨ σ k = -1
  lt : ∀ p ∈ pairs, p.1 < n ∧ p.2.1 < n
  ne : ∀ p ∈ pairs, p.1 ≠ p.2.1
  w : ∀ p ∈ pairs, p.2.2 = σ p.1 * σ p.2.1

def Adj (pairs : List (Nat × Nat × Int)) (k j : Nat) : Prop :=
  ∃ p ∈ pairs, (p.1 = k ∧ p.2.1 = j) ∨ (p.1 = j ∧ p.2.1 = k)

theorem Adj.symm {pairs : List (Nat × Nat × Int)} {k j : Nat} (h : Adj pairs k j) : Adj pairs j k := by
  obtain ⟨p, hp, h⟩ := h
  exact ⟨p, hp, h.symm⟩

/-- `|tmat[k,j]|` -/
def M (pairs : List (Nat × Nat × Int)) (k j : Nat) : Nat :=
  (pairs.filter (Link k j)).length + (if k == j then 1 else 0)

variable {n : Nat} {pairs : List (Nat × Nat × Int)} {σ : Nat → Int}

theorem tmatEntry_eq (h : PairsOK n pairs σ) (k j : Nat) :
    tmatEntry pairs k j = σ k * σ j * (M pairs k j : Int) := by
  have hs : ((pairs.filter (Link k j)).map (·.2.2)).sum
      = (σ k * σ j) * ((pairs.filter (Link k j)).map fun _ => (1 : Int)).sum := by
    apply sum_map_eq_mul
    intro p hp
    rw [List.mem_filter] at hp
    rw [h.w p hp.1]
    simp only [Link, Bool.or_eq_true, Bool.and_eq_true, beq_iff_eq] at hp
    rcases hp.2 with ⟨h1, h2⟩ | ⟨h1, h2⟩
    · rw [h1, h2]; ring
    · rw [h1, h2]; ring
  have hl : ((pairs.filter (Link k j)).map fun _ => (1 : Int)).sum = ((pairs.filter (Link k j)).length : Int) := by
    simp
  unfold tmatEntry M
  rw [show (pairs.filter fun p => (p.1 == k && p.2.1 == j) || (p.1 == j && p.2.1 == k)) = pairs.filter (Link k j) from rfl,
    hs, hl]
  by_cases hkj : k = j
  · subst hkj
    simp only [BEq.rfl, ↓reduceIte, pm_mul_self (h.sgn k)]
    push_cast; ring
  · have : (k == j) = false := by simpa using hkj
    simp only [this, Bool.false_eq_true, ↓reduceIte]
    push_cast; ring

theorem M_pos_iff (k j : Nat) : 0 < M pairs k j ↔ k = j ∨ Adj pairs k j := by
  unfold M Adj
  constructor
  · intro h
    by_cases hkj : k = j
    · exact Or.inl hkj
    · right
      have : (k == j) = false := by simpa using hkj
      simp only [this, Bool.false_eq_true, ↓reduceIte, Nat.add_zero] at h
      obtain ⟨p, hp⟩ := List.exists_mem_of_length_pos h
      rw [List.mem_filter] at hp
      refine ⟨p, hp.1, ?_⟩
      simpa [Link] using hp.2
  · rintro (rfl | ⟨p, hp, h⟩)
    · simp
    · have : p ∈ pairs.filter (Link k j) := by
        rw [List.mem_filter]; exact ⟨hp, by simpa [Link] using h⟩
      have := List.length_pos_of_mem this
      omega

theorem mem_nbrs (h : PairsOK n pairs σ) (k j : Nat) : k ∈ nbrs pairs j ↔ Adj pairs k j := by
  unfold nbrs Adj
  rw [List.mem_eraseDups, List.mem_filterMap]
  constructor
  · rintro ⟨p, hp, hk⟩
    refine ⟨p, hp, ?_⟩
    split at hk
    · rename_i h1; simp at h1 hk; exact Or.inr ⟨h1, hk⟩
    · split at hk
      · rename_i h1 h2; simp at h2 hk; exact Or.inl ⟨hk, h2⟩
      · cases hk
  · rintro ⟨p, hp, hk⟩
    refine ⟨p, hp, ?_⟩
    rcases hk with ⟨h1, h2⟩ | ⟨h1, h2⟩
    · have : p.1 ≠ j := fun e => h.ne p hp (e.trans h2.symm)
      rw [if_neg (by simpa using this), if_pos (by simpa using h2), h1]
    · simp [h1, h2]

theorem Adj.lt (h : PairsOK n pairs σ) {k j : Nat} (ha : Adj pairs k j) : k < n ∧ j < n := by
  obtain ⟨p, hp, hk⟩ := ha
  have := h.lt p hp
  rcases hk with ⟨rfl, rfl⟩ | ⟨rfl, rfl⟩
  · exact this
  · exact this.symm

/-! ### gauge, invariant, one step -/

/-- a sign per triangle that is constant along neighbour pairs (hence on connected components) -/
structure Gauge (pairs : List (Nat × Nat × Int)) (g : Nat → Int) : Prop where
  sgn : ∀ k, g k = 1 ∨ g k = -1
  const : ∀ p ∈ pairs, g p.1 = g p.2.1

theorem Gauge.adj {g : Nat → Int} (hg : Gauge pairs g) {k j : Nat} (h : Adj pairs k j) : g k = g j := by
  obtain ⟨p, hp, hk⟩ := h
  have := hg.const p hp
  rcases hk with ⟨rfl, rfl⟩ | ⟨rfl, rfl⟩
  · exact this
  · exact this.symm

/-- every stored value has the sign `σ k * g k` (in particular it is not zero) -/
def Inv (σ g : Nat → Int) (v : SVec) : Prop := ∀ e ∈ v, 0 < σ e.1 * g e.1 * e.2
/-- every stored value is `±1` -/
def Norm (v : SVec) : Prop := ∀ e ∈ v, e.2 = 1 ∨ e.2 = -1
def supp (v : SVec) : List Nat := v.map (·.1)
/-- `k` is in the support of `v` or adjacent to it -/
def Touch (pairs : List (Nat × Nat × Int)) (v : SVec) (k : Nat) : Prop := ∃ e ∈ v, 0 < M pairs k e.1

theorem touch_iff (v : SVec) (k : Nat) : Touch pairs v k ↔ k ∈ supp v ∨ ∃ j ∈ supp v, Adj pairs k j := by
  unfold Touch supp
  simp only [M_pos_iff, List.mem_map]
  constructor
  · rintro ⟨e, he, rfl | h⟩
    · exact Or.inl ⟨e, he, rfl⟩
    · exact Or.inr ⟨e.1, ⟨e, he, rfl⟩, h⟩
  · rintro (⟨e, he, rfl⟩ | ⟨j, ⟨e, he, rfl⟩, h⟩)
    · exact ⟨e, he, Or.inl rfl⟩
    · exact ⟨e, he, Or.inr h⟩

/-- the gauged sum `Σ_j |tmat[k,j]| · (σ j g j v_j)` -/
def Q (pairs : List (Nat × Nat × Int)) (σ g : Nat → Int) (v : SVec) (k : Nat) : Int :=
  (v.map fun e => (M pairs k e.1 : Int) * (σ e.1 * g e.1 * e.2)).sum

theorem stepSum_eq (h : PairsOK n pairs σ) {g : Nat → Int} (hg : Gauge pairs g) (v : SVec) (k : Nat) :
    (v.map fun e => tmatEntry pairs k e.1 * e.2).sum = σ k * g k * Q pairs σ g v k := by
  unfold Q
  apply sum_map_eq_mul
  intro e _
  rw [tmatEntry_eq h]
  by_cases hM : 0 < M pairs k e.1
  · have hge : g k = g e.1 := by
      rcases (M_pos_iff k e.1).1 hM with rfl | ha
      · rfl
      · exact hg.adj ha
    have := pm_mul_self (hg.sgn e.1)
    rw [hge]
    calc σ k * σ e.1 * (M pairs k e.1 : Int) * e.2
        = σ k * σ e.1 * (M pairs k e.1 : Int) * e.2 * (g e.1 * g e.1) := by rw [this]; ring
      _ = _ := by ring
  · have : M pairs k e.1 = 0 := by omega
    rw [this]; simp

theorem Q_nonneg {g : Nat → Int} {v : SVec} (hinv : Inv σ g v) (k : Nat) : 0 ≤ Q pairs σ g v k := by
  apply sum_map_nonneg
  intro e he
  have := hinv e he
  positivity

theorem Q_pos {g : Nat → Int} {v : SVec} (hinv : Inv σ g v) {k : Nat} (ht : Touch pairs v k) : 0 < Q pairs σ g v k := by
  obtain ⟨e, he, hM⟩ := ht
  refine sum_map_pos _ _ ?_ e he ?_
  · intro e he
    have := hinv e he
    positivity
  · have := hinv e he
    have : (0 : Int) < (M pairs k e.1 : Int) := by exact_mod_cast hM
    positivity

theorem pm_mul {a b : Int} (ha : a = 1 ∨ a = -1) (hb : b = 1 ∨ b = -1) : a * b = 1 ∨ a * b = -1 := by
  rcases ha with rfl | rfl <;> rcases hb with rfl | rfl <;> simp

theorem stepVal (h : PairsOK n pairs σ) {g : Nat → Int} (hg : Gauge pairs g) {v : SVec} (hinv : Inv σ g v) {k : Nat}
    (ht : Touch pairs v k) :
    (v.map fun e => tmatEntry pairs k e.1 * e.2).sum ≠ 0 ∧
      Int.sign (v.map fun e => tmatEntry pairs k e.1 * e.2).sum = σ k * g k := by
  rw [stepSum_eq h hg]
  have hq := Q_pos (pairs := pairs) hinv ht
  have hc := pm_mul (h.sgn k) (hg.sgn k)
  constructor
  · rcases hc with hc | hc <;> rw [hc] <;> omega
  · rw [Int.sign_mul, Int.sign_eq_one_of_pos hq]
    rcases hc with hc | hc <;> rw [hc] <;> simp

theorem support_contains (h : PairsOK n pairs σ) (v : SVec) (k : Nat) :
    (((v.map (·.1)) ++ (v.flatMap fun e => nbrs pairs e.1)).eraseDups.contains k) = true ↔ Touch pairs v k := by
  rw [List.contains_iff_mem, List.mem_eraseDups, List.mem_append, touch_iff, List.mem_flatMap]
  unfold supp
  constructor
  · rintro (h1 | ⟨e, he, h2⟩)
    · exact Or.inl h1
    · exact Or.inr ⟨e.1, List.mem_map_of_mem he, (mem_nbrs h _ _).1 h2⟩
  · rintro (h1 | ⟨j, hj, h2⟩)
    · exact Or.inl h1
    · obtain ⟨e, he, rfl⟩ := List.mem_map.1 hj
      exact Or.inr ⟨e, he, (mem_nbrs h _ _).2 h2⟩

theorem mem_step (h : PairsOK n pairs σ) {g : Nat → Int} (hg : Gauge pairs g) {v : SVec} (hinv : Inv σ g v)
    (k : Nat) (x : Int) : (k, x) ∈ step n pairs v ↔ k < n ∧ Touch pairs v k ∧ x = σ k * g k := by
  unfold step
  simp only [List.mem_filterMap, List.mem_range]
  constructor
  · rintro ⟨k', hk', hx⟩
    split at hx
    · rename_i hc
      have ht := (support_contains h v k').1 hc
      obtain ⟨h0, hs⟩ := stepVal h hg hinv ht
      rw [if_neg (by simpa using h0)] at hx
      cases hx
      exact ⟨hk', ht, hs⟩
    · cases hx
  · rintro ⟨hk, ht, rfl⟩
    refine ⟨k, hk, ?_⟩
    obtain ⟨h0, hs⟩ := stepVal h hg hinv ht
    rw [if_pos ((support_contains h v k).2 ht), if_neg (by simpa using h0), hs]

theorem step_inv_norm (h : PairsOK n pairs σ) {g : Nat → Int} (hg : Gauge pairs g) {v : SVec} (hinv : Inv σ g v) :
    Inv σ g (step n pairs v) ∧ Norm (step n pairs v) := by
  constructor
  · rintro ⟨k, x⟩ he
    obtain ⟨_, _, rfl⟩ := (mem_step h hg hinv k x).1 he
    have := pm_mul_self (pm_mul (h.sgn k) (hg.sgn k))
    show 0 < σ k * g k * (σ k * g k)
    omega
  · rintro ⟨k, x⟩ he
    obtain ⟨_, _, rfl⟩ := (mem_step h hg hinv k x).1 he
    exact pm_mul (h.sgn k) (hg.sgn k)

theorem mem_supp {v : SVec} {k : Nat} : k ∈ supp v ↔ ∃ x, (k, x) ∈ v := by
  unfold supp
  rw [List.mem_map]
  constructor
  · rintro ⟨⟨k', x⟩, he, rfl⟩; exact ⟨x, he⟩
  · rintro ⟨x, he⟩; exact ⟨(k, x), he, rfl⟩

theorem supp_step (h : PairsOK n pairs σ) {g : Nat → Int} (hg : Gauge pairs g) {v : SVec} (hinv : Inv σ g v) (k : Nat) :
    k ∈ supp (step n pairs v) ↔ k < n ∧ Touch pairs v k := by
  rw [mem_supp]
  constructor
  · rintro ⟨x, hx⟩
    obtain ⟨h1, h2, _⟩ := (mem_step h hg hinv k x).1 hx
    exact ⟨h1, h2⟩
  · rintro ⟨h1, h2⟩
    exact ⟨_, (mem_step h hg hinv k _).2 ⟨h1, h2, rfl⟩⟩

theorem supp_subset_step (h : PairsOK n pairs σ) {g : Nat → Int} (hg : Gauge pairs g) {v : SVec} (hinv : Inv σ g v)
    (hv : IdxOK n v) : supp v ⊆ supp (step n pairs v) := by
  intro k hk
  rw [supp_step h hg hinv]
  refine ⟨List.mem_range.1 (hv.subset hk), (touch_iff v k).2 (Or.inl hk)⟩

theorem length_le_of_subset {v w : SVec} (hv : IdxOK n v) (hsub : supp v ⊆ supp w) : v.length ≤ w.length := by
  have := (List.subperm_of_subset hv.nodup hsub).length_le
  simpa [supp] using this

theorem subset_of_length_le {v w : SVec} (hv : IdxOK n v) (hsub : supp v ⊆ supp w) (hlen : w.length ≤ v.length) :
    supp w ⊆ supp v := by
  have hp := (List.subperm_of_subset hv.nodup hsub).perm_of_length_le (by simpa [supp] using hlen)
  exact hp.symm.subset

/-- the support is closed under adjacency -/
def Closed (pairs : List (Nat × Nat × Int)) (v : SVec) : Prop := ∀ k ∈ supp v, ∀ j, Adj pairs k j → j ∈ supp v

theorem step_closed (h : PairsOK n pairs σ) {g : Nat → Int} (hg : Gauge pairs g) {v : SVec} (hinv : Inv σ g v)
    (hv : IdxOK n v) (hlen : (step n pairs v).length = v.length) : Closed pairs (step n pairs v) := by
  have hback := subset_of_length_le hv (supp_subset_step h hg hinv hv) (by omega)
  intro k hk j hadj
  rw [supp_step h hg hinv]
  exact ⟨(hadj.lt h).2, (touch_iff v j).2 (Or.inr ⟨k, hback hk, hadj.symm⟩)⟩

/-! ### `SVec.get`, `column`, `addVec` -/

theorem get_cons (e : Nat × Int) (v : SVec) (k : Nat) :
    SVec.get (e :: v) k = (if e.1 == k then e.2 else 0) + SVec.get v k := by
  unfold SVec.get
  rw [List.filter_cons]
  split <;> simp

theorem get_of_not_mem {v : SVec} {k : Nat} (hk : k ∉ supp v) : SVec.get v k = 0 := by
  induction v with
  | nil => rfl
  | cons e v ih =>
    rw [get_cons]
    simp only [supp, List.map_cons, List.mem_cons, not_or] at hk
    have : (e.1 == k) = false := by simpa using fun h => hk.1 h.symm
    rw [this, ih hk.2]; rfl

theorem get_of_mem {v : SVec} {k : Nat} {x : Int} (hnd : (supp v).Nodup) (hk : (k, x) ∈ v) : SVec.get v k = x := by
  induction v with
  | nil => cases hk
  | cons e v ih =>
    rw [get_cons]
    simp only [supp, List.map_cons, List.nodup_cons] at hnd
    rcases List.mem_cons.1 hk with rfl | hk'
    · rw [get_of_not_mem hnd.1]; simp
    · have hne : e.1 ≠ k := fun h => hnd.1 (h ▸ List.mem_map_of_mem (f := (·.1)) hk')
      have : (e.1 == k) = false := by simpa using hne
      rw [this, ih hnd.2 hk']; simp

theorem mem_column (h : PairsOK n pairs σ) {seed : Nat} (hseed : seed < n) (k : Nat) (x : Int) :
    (k, x) ∈ column n pairs seed ↔ (k = seed ∨ Adj pairs k seed) ∧ x = tmatEntry pairs k seed := by
  have hne : ∀ k, (k = seed ∨ Adj pairs k seed) → tmatEntry pairs k seed ≠ 0 := by
    intro k hk
    rw [tmatEntry_eq h]
    have hM : (0 : Int) < (M pairs k seed : Int) := by exact_mod_cast (M_pos_iff k seed).2 hk
    have := pm_mul (h.sgn k) (h.sgn seed)
    rcases this with hc | hc <;> rw [hc] <;> omega
  unfold column
  simp only [List.mem_filterMap, List.mem_range]
  constructor
  · rintro ⟨k', hk', hx⟩
    split at hx
    · rename_i hc
      cases hx
      simp only [Bool.and_eq_true, Bool.or_eq_true, beq_iff_eq, List.contains_iff_mem, mem_nbrs h] at hc
      exact ⟨hc.1, rfl⟩
    · cases hx
  · rintro ⟨hk, rfl⟩
    have hkn : k < n := by
      rcases hk with rfl | hk
      · exact hseed
      · exact (hk.lt h).1
    refine ⟨k, hkn, ?_⟩
    rw [if_pos]
    simp only [Bool.and_eq_true, Bool.or_eq_true, beq_iff_eq, List.contains_iff_mem, mem_nbrs h, bne_iff_ne]
    exact ⟨hk, hne k hk⟩

theorem column_pos (h : PairsOK n pairs σ) {seed : Nat} (hseed : seed < n) {k : Nat} {x : Int}
    (hk : (k, x) ∈ column n pairs seed) : 0 < σ k * σ seed * x := by
  obtain ⟨hk2, rfl⟩ := (mem_column h hseed k x).1 hk
  rw [tmatEntry_eq h]
  have hM : (0 : Int) < (M pairs k seed : Int) := by exact_mod_cast (M_pos_iff k seed).2 hk2
  have := pm_mul_self (pm_mul (h.sgn k) (h.sgn seed))
  calc (0 : Int) < (M pairs k seed : Int) := hM
    _ = (σ k * σ seed * (σ k * σ seed)) * (M pairs k seed : Int) := by rw [this]; ring
    _ = _ := by ring

theorem mem_addVec (a b : SVec) (k : Nat) (x : Int) :
    (k, x) ∈ addVec n a b ↔ k < n ∧ (k ∈ supp a ∨ k ∈ supp b) ∧ x = SVec.get a k + SVec.get b k ∧ x ≠ 0 := by
  unfold addVec supp
  simp only [List.mem_filterMap, List.mem_range]
  constructor
  · rintro ⟨k', hk', hx⟩
    split at hx
    · rename_i hc
      cases hx
      simp only [Bool.and_eq_true, Bool.or_eq_true, List.contains_iff_mem, bne_iff_ne] at hc
      exact ⟨hk', hc.1, rfl, hc.2⟩
    · cases hx
  · rintro ⟨hk, hs, rfl, h0⟩
    refine ⟨k, hk, ?_⟩
    rw [if_pos]
    simp only [Bool.and_eq_true, Bool.or_eq_true, List.contains_iff_mem, bne_iff_ne]
    exact ⟨hs, h0⟩

/-! ### re-seeding -/

theorem inv_ne_zero {g : Nat → Int} {v : SVec} (hinv : Inv σ g v) {e : Nat × Int} (he : e ∈ v) : e.2 ≠ 0 := by
  intro h0
  have := hinv e he
  rw [h0] at this
  simp at this

theorem reseed (h : PairsOK n pairs σ) {g : Nat → Int} (hg : Gauge pairs g) {v : SVec} (hinv : Inv σ g v)
    (hv : IdxOK n v) (hcl : Closed pairs v) {seed : Nat} (hseed : seed < n) (hns : seed ∉ supp v) :
    ∃ g', Gauge pairs g' ∧ Inv σ g' (addVec n v (column n pairs seed)) ∧
      v.length + 1 ≤ (addVec n v (column n pairs seed)).length := by
  have hcolnd : (supp (column n pairs seed)).Nodup := (column_idxOK n pairs seed).nodup
  have hdisj : ∀ k ∈ supp v, k ∉ supp (column n pairs seed) := by
    intro k hk hc
    obtain ⟨x, hx⟩ := mem_supp.1 hc
    rcases ((mem_column h hseed k x).1 hx).1 with rfl | hadj
    · exact hns hk
    · exact hns (hcl k hk seed hadj)
  refine ⟨fun k => if k ∈ supp v then g k else σ seed, ⟨?_, ?_⟩, ?_, ?_⟩
  · intro k
    split
    · exact hg.sgn k
    · exact h.sgn seed
  · intro p hp
    have hadj : Adj pairs p.1 p.2.1 := ⟨p, hp, Or.inl ⟨rfl, rfl⟩⟩
    by_cases h1 : p.1 ∈ supp v
    · rw [if_pos h1, if_pos (hcl _ h1 _ hadj)]; exact hg.const p hp
    · have h2 : p.2.1 ∉ supp v := fun h2 => h1 (hcl _ h2 _ hadj.symm)
      rw [if_neg h1, if_neg h2]
  · rintro ⟨k, x⟩ he
    obtain ⟨_, hor, hx, _⟩ := (mem_addVec _ _ k x).1 he
    dsimp only
    by_cases hkv : k ∈ supp v
    · obtain ⟨x', hx'⟩ := mem_supp.1 hkv
      rw [get_of_mem hv.nodup hx', get_of_not_mem (hdisj k hkv)] at hx
      rw [if_pos hkv, hx, Int.add_zero]
      exact hinv _ hx'
    · have hkc : k ∈ supp (column n pairs seed) := hor.resolve_left hkv
      obtain ⟨y, hy⟩ := mem_supp.1 hkc
      rw [get_of_not_mem hkv, get_of_mem hcolnd hy] at hx
      rw [if_neg hkv, hx, Int.zero_add]
      exact column_pos h hseed hy
  · have hsub : (seed :: supp v) ⊆ supp (addVec n v (column n pairs seed)) := by
      intro k hk
      rw [mem_supp]
      rcases List.mem_cons.1 hk with rfl | hk
      · have hy : (k, tmatEntry pairs k k) ∈ column n pairs k := (mem_column h hseed k _).2 ⟨Or.inl rfl, rfl⟩
        refine ⟨_, (mem_addVec _ _ k _).2 ⟨hseed, Or.inr (mem_supp.2 ⟨_, hy⟩), rfl, ?_⟩⟩
        rw [get_of_not_mem hns, get_of_mem hcolnd hy, Int.zero_add]
        have := column_pos h hseed hy
        intro h0; rw [h0] at this; simp at this
      · obtain ⟨x', hx'⟩ := mem_supp.1 hk
        refine ⟨_, (mem_addVec _ _ k _).2 ⟨List.mem_range.1 (hv.subset hk), Or.inl hk, rfl, ?_⟩⟩
        rw [get_of_mem hv.nodup hx', get_of_not_mem (hdisj k hk), Int.add_zero]
        exact inv_ne_zero hinv hx'
    have := (List.subperm_of_subset (List.nodup_cons.2 ⟨hns, hv.nodup⟩) hsub).length_le
    simpa [supp] using this

theorem exists_seed {v : SVec} (_hv : IdxOK n v) (hlt : v.length < n) :
    ∃ seed, (List.range n).find? (fun k => !(v.map (·.1)).contains k) = some seed ∧ seed < n ∧ seed ∉ supp v := by
  cases hf : (List.range n).find? (fun k => !(v.map (·.1)).contains k) with
  | none =>
    exfalso
    rw [List.find?_eq_none] at hf
    have hsub : List.range n ⊆ supp v := by
      intro k hk
      have := hf k hk
      simpa [supp] using this
    have := (List.subperm_of_subset List.nodup_range hsub).length_le
    simp [supp] at this
    omega
  | some seed =>
    refine ⟨seed, rfl, List.mem_range.1 (List.mem_of_find?_eq_some hf), ?_⟩
    have := List.find?_some hf
    simpa [supp] using this

/-! ### the flood terminates with full support, without ever cancelling -/

theorem flood_spec_aux (h : PairsOK n pairs σ) (fuel : Nat) : ∀ (v : SVec) (nlast : Nat),
    IdxOK n v → (∃ g, Gauge pairs g ∧ Inv σ g v) → (v.length = nlast → Closed pairs v) → (Norm v ∨ v.length < n) →
    2 * (n - v.length) + (if v.length = nlast then 0 else 1) < fuel →
    ∃ v', flood n pairs fuel v nlast = some v' ∧ IdxOK n v' ∧ v'.length = n ∧ (∃ g, Gauge pairs g ∧ Inv σ g v') ∧
      Norm v' := by
  induction fuel with
  | zero => intro v nlast _ _ _ _ hf; omega
  | succ fuel ih =>
    intro v nlast hv hg hcl hnorm hf
    rw [flood]
    by_cases hlt : v.length < n
    · rw [if_pos hlt]
      dsimp only
      obtain ⟨g, hg, hinv⟩ := hg
      by_cases hst : v.length = nlast
      · rw [if_pos hst] at hf
        obtain ⟨seed, hfind, hseed, hns⟩ := exists_seed hv hlt
        rw [if_pos (by simpa using hst), hfind]
        dsimp only
        obtain ⟨g', hg', hinv', hlen⟩ := reseed h hg hinv hv (hcl hst) hseed hns
        have hv1 := addVec_idxOK n v (column n pairs seed)
        have hge := length_le_of_subset hv1 (supp_subset_step h hg' hinv' hv1)
        have hsn := step_inv_norm h hg' hinv'
        apply ih _ _ (step_idxOK _ _ _) ⟨g', hg', hsn.1⟩ (fun hl => step_closed h hg' hinv' hv1 hl) (Or.inl hsn.2)
        split <;> omega
      · rw [if_neg hst] at hf
        rw [if_neg (by simpa using hst)]
        have hge := length_le_of_subset hv (supp_subset_step h hg hinv hv)
        have hsn := step_inv_norm h hg hinv
        apply ih _ _ (step_idxOK _ _ _) ⟨g, hg, hsn.1⟩ (fun hl => step_closed h hg hinv hv hl) (Or.inl hsn.2)
        split <;> omega
    · rw [if_neg hlt]
      have := hv.length_le
      refine ⟨v, rfl, hv, by omega, hg, ?_⟩
      rcases hnorm with hn | hn
      · exact hn
      · exact absurd hn hlt

/-- **Flood theorem.**  With fuel `2n+2` the flood started from column 0 returns a vector with full support whose
    values are `±1` and agree with the orientation witness up to a sign `g` that is constant along neighbour pairs. -/
theorem flood_spec (h : PairsOK n pairs σ) (hn : 0 < n)
    (h0 : Norm (column n pairs 0) ∨ (column n pairs 0).length < n) :
    ∃ v, flood n pairs (2 * n + 2) (column n pairs 0) 0 = some v ∧ IdxOK n v ∧ v.length = n ∧
      (∃ g, Gauge pairs g ∧ Inv σ g v) ∧ Norm v := by
  have hmem : (0, tmatEntry pairs 0 0) ∈ column n pairs 0 := (mem_column h hn 0 _).2 ⟨Or.inl rfl, rfl⟩
  have hpos : 0 < (column n pairs 0).length := List.length_pos_of_mem hmem
  apply flood_spec_aux h _ _ _ (column_idxOK _ _ _) ?_ (fun hl => by omega) h0
  · split <;> omega
  · refine ⟨fun _ => σ 0, ⟨fun _ => h.sgn 0, fun _ _ => rfl⟩, ?_⟩
    rintro ⟨k, x⟩ he
    exact column_pos h hn he

end OrientFlood
end LapyVerif
