import Mathlib.Tactic.Linarith
import Mathlib.Tactic.Positivity
import LapyVerif.Lemmas.BridgeTac
/-
  Rigid motions and similarities, expressed by what they do to difference vectors.

  `T : V3 ℝ → V3 ℝ` is an *isometry* (rotation, reflection, translation and their compositions) iff it preserves the dot
  products of difference vectors.  Everything LaPy computes per element is a function of dot products of edge vectors
  (`|a×b|² = |a|²|b|² − (a·b)²` by Lagrange, `det(a,b,c)² =` Gram determinant), so invariance under all rigid motions
  follows at once, with no matrix representation needed.
-/
namespace LapyVerif
open V3

/-- preserves dot products of difference vectors -/
def IsIsometry (T : V3 ℝ → V3 ℝ) : Prop :=
  ∀ a b c d : V3 ℝ, dot (T a - T b) (T c - T d) = dot (a - b) (c - d)

/-- scales dot products of difference vectors by `s²` (uniform scaling composed with an isometry) -/
def IsSimilarity (s : ℝ) (T : V3 ℝ → V3 ℝ) : Prop :=
  ∀ a b c d : V3 ℝ, dot (T a - T b) (T c - T d) = s * s * dot (a - b) (c - d)

theorem isSimilarity_one_iff (T : V3 ℝ → V3 ℝ) : IsSimilarity 1 T ↔ IsIsometry T := by
  simp [IsSimilarity, IsIsometry]

/-- translations are isometries -/
theorem translate_isIsometry (c : V3 ℝ) : IsIsometry (fun a => a + c) := by
  intro a b c' d; v3_flat; ring

/-- uniform scaling about the origin -/
theorem scale_isSimilarity (s : ℝ) : IsSimilarity s (fun a => smul s a) := by
  intro a b c d; v3_flat; ring

/-- point reflection (an orientation-reversing isometry) -/
theorem neg_isIsometry : IsIsometry (fun a => -a) := by
  intro a b c d; v3_flat; ring

/-- a matrix with orthonormal columns (given by its rows `r1 r2 r3`) -/
theorem rows_isIsometry (r1 r2 r3 : V3 ℝ)
    (hxx : r1.x * r1.x + r2.x * r2.x + r3.x * r3.x = 1) (hyy : r1.y * r1.y + r2.y * r2.y + r3.y * r3.y = 1)
    (hzz : r1.z * r1.z + r2.z * r2.z + r3.z * r3.z = 1) (hxy : r1.x * r1.y + r2.x * r2.y + r3.x * r3.y = 0)
    (hxz : r1.x * r1.z + r2.x * r2.z + r3.x * r3.z = 0) (hyz : r1.y * r1.z + r2.y * r2.z + r3.y * r3.z = 0) :
    IsIsometry (fun a => ⟨dot r1 a, dot r2 a, dot r3 a⟩) := by
  intro a b c d
  v3_flat
  have e : ∀ p q : V3 ℝ,
      (r1.x * p.x + r1.y * p.y + r1.z * p.z) * (r1.x * q.x + r1.y * q.y + r1.z * q.z)
      + (r2.x * p.x + r2.y * p.y + r2.z * p.z) * (r2.x * q.x + r2.y * q.y + r2.z * q.z)
      + (r3.x * p.x + r3.y * p.y + r3.z * p.z) * (r3.x * q.x + r3.y * q.y + r3.z * q.z)
      = (r1.x * r1.x + r2.x * r2.x + r3.x * r3.x) * (p.x * q.x) + (r1.y * r1.y + r2.y * r2.y + r3.y * r3.y) * (p.y * q.y)
        + (r1.z * r1.z + r2.z * r2.z + r3.z * r3.z) * (p.z * q.z)
        + (r1.x * r1.y + r2.x * r2.y + r3.x * r3.y) * (p.x * q.y + p.y * q.x)
        + (r1.x * r1.z + r2.x * r2.z + r3.x * r3.z) * (p.x * q.z + p.z * q.x)
        + (r1.y * r1.z + r2.y * r2.z + r3.y * r3.z) * (p.y * q.z + p.z * q.y) := by intro p q; ring
  have := e (a - b) (c - d)
  simp only [sub_x, sub_y, sub_z] at this
  rw [hxx, hyy, hzz, hxy, hxz, hyz] at this
  linarith

/-- Lagrange's identity -/
theorem normSq_cross (a b : V3 ℝ) : normSq (cross a b) = normSq a * normSq b - dot a b * dot a b := by
  v3_flat; ring

theorem dot_cross_cross (a b c d : V3 ℝ) : dot (cross a b) (cross c d) = dot a c * dot b d - dot a d * dot b c := by
  v3_flat; ring

/-- squared triple product = Gram determinant -/
theorem triple_sq (a b c : V3 ℝ) :
    dot a (cross b c) * dot a (cross b c) =
      normSq a * (normSq b * normSq c - dot b c * dot b c) - dot a b * (dot a b * normSq c - dot b c * dot a c)
        + dot a c * (dot a b * dot b c - normSq b * dot a c) := by
  v3_flat; ring

section sim
variable {s : ℝ} {T : V3 ℝ → V3 ℝ} (h : IsSimilarity s T)
include h

theorem sim_dot (a b c d : V3 ℝ) : dot (T a - T b) (T c - T d) = s * s * dot (a - b) (c - d) := h a b c d

theorem sim_normSq (a b : V3 ℝ) : normSq (T a - T b) = s * s * normSq (a - b) := h a b a b

/-- `|(Tb−Ta)×(Tc−Ta)|² = s⁴ |(b−a)×(c−a)|²` -/
theorem sim_cross_normSq (a b c d : V3 ℝ) :
    normSq (cross (T a - T b) (T c - T d)) = (s * s) * (s * s) * normSq (cross (a - b) (c - d)) := by
  rw [normSq_cross, normSq_cross, normSq, normSq, normSq, normSq, h, h, h]; ring

/-- `det(…)² = s⁶ det(…)²` -/
theorem sim_triple_sq (a b c d e f : V3 ℝ) :
    dot (T a - T b) (cross (T c - T d) (T e - T f)) * dot (T a - T b) (cross (T c - T d) (T e - T f))
      = (s * s) * (s * s) * (s * s) * (dot (a - b) (cross (c - d) (e - f)) * dot (a - b) (cross (c - d) (e - f))) := by
  rw [triple_sq, triple_sq, normSq, normSq, normSq, normSq, normSq, normSq]
  simp only [h _ _ _ _]
  ring

end sim

end LapyVerif
