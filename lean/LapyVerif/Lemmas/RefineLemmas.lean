import Mathlib.Data.List.Basic
import Mathlib.Data.List.Perm.Basic
import Mathlib.Data.List.Nodup
import LapyVerif.Model.Refine
/-
  Helper lemmas for C11 (mesh refinement, removal of free vertices): generic list facts (`eraseDups`, distinct
  counts, injective maps), the order `Topo.lexLe`, the edge numbering `Refine.edgeList` / `Refine.edgeVertex`.
-/
namespace LapyVerif
open List

/-! ### generic list facts -/

theorem nodup_eraseDups_aux {α : Type} [BEq α] [LawfulBEq α] :
    ∀ (n : Nat) (l : List α), l.length ≤ n → l.eraseDups.Nodup := by
  intro n
  induction n with
  | zero => intro l h; cases l with
    | nil => simp
    | cons a as => simp at h
  | succ n ih =>
    intro l h
    cases l with
    | nil => simp
    | cons a as =>
      rw [List.eraseDups_cons, List.nodup_cons]
      constructor
      · intro hm
        rw [List.mem_eraseDups, List.mem_filter] at hm
        simpa using hm.2
      · apply ih
        have := List.length_filter_le (fun b => !b == a) as
        simp at h; omega

/-- `eraseDups` produces a duplicate-free list -/
theorem eraseDups_nodup {α : Type} [BEq α] [LawfulBEq α] (l : List α) : l.eraseDups.Nodup :=
  nodup_eraseDups_aux l.length l (Nat.le_refl _)

/-- the number of distinct elements of `l` is the length of any duplicate-free list with the same members -/
theorem eraseDups_length_eq {α : Type} [BEq α] [LawfulBEq α] {l m : List α} (hm : m.Nodup)
    (h : ∀ x, x ∈ m ↔ x ∈ l) : l.eraseDups.length = m.length := by
  apply List.Perm.length_eq
  rw [List.perm_ext_iff_of_nodup (eraseDups_nodup l) hm]
  intro x; rw [List.mem_eraseDups, h]

theorem eraseDups_length_congr {α : Type} [BEq α] [LawfulBEq α] {l m : List α}
    (h : ∀ x, x ∈ m ↔ x ∈ l) : l.eraseDups.length = m.eraseDups.length :=
  eraseDups_length_eq (eraseDups_nodup m) (fun x => by rw [List.mem_eraseDups, h])

theorem eraseDups_length_map_inj {α β : Type} [BEq α] [LawfulBEq α] [BEq β] [LawfulBEq β] {f : α → β} {l : List α}
    (hinj : ∀ x ∈ l, ∀ y ∈ l, f x = f y → x = y) : (l.map f).eraseDups.length = l.eraseDups.length := by
  have hnd : (l.eraseDups.map f).Nodup := by
    apply List.Nodup.map_on _ (eraseDups_nodup l)
    intro x hx y hy; exact hinj x (List.mem_eraseDups.mp hx) y (List.mem_eraseDups.mp hy)
  rw [eraseDups_length_eq hnd, List.length_map]
  intro x; simp only [List.mem_map, List.mem_eraseDups]

/-- number of indices `< i` satisfying `p` -/
def rank (p : Nat → Bool) (i : Nat) : Nat := ((List.range i).filter p).length

theorem rank_succ (p : Nat → Bool) (i : Nat) : rank p (i + 1) = rank p i + (if p i then 1 else 0) := by
  simp only [rank, List.range_succ, List.filter_append, List.length_append, List.filter_cons, List.filter_nil]
  split <;> simp

theorem rank_mono (p : Nat → Bool) {i j : Nat} (h : i ≤ j) : rank p i ≤ rank p j := by
  induction j with
  | zero => simp_all
  | succ j ih =>
    rcases Nat.eq_or_lt_of_le h with rfl | h'
    · exact Nat.le_refl _
    · have := ih (by omega); rw [rank_succ]; omega

theorem rank_strictMono (p : Nat → Bool) {i j : Nat} (hp : p i = true) (h : i < j) : rank p i < rank p j := by
  have h1 := rank_mono p (show i + 1 ≤ j from h)
  rw [rank_succ, if_pos hp] at h1; omega

theorem filter_range_rank (p : Nat → Bool) (nv i : Nat) (hp : p i = true) (hi : i < nv) :
    ((List.range nv).filter p)[rank p i]? = some i := by
  induction nv with
  | zero => omega
  | succ nv ih =>
    rw [List.range_succ, List.filter_append]
    rcases Nat.eq_or_lt_of_le (Nat.le_of_lt_succ hi) with rfl | h'
    · rw [List.getElem?_append_right (show ((List.range i).filter p).length ≤ rank p i from Nat.le_refl _)]
      simp [rank, hp]
    · have := ih h'
      have hlt : rank p i < ((List.range nv).filter p).length := by
        rw [List.getElem?_eq_some_iff] at this; exact this.1
      rw [List.getElem?_append_left hlt]; exact this

theorem filter_range_sorted (p : Nat → Bool) (nv : Nat) : ((List.range nv).filter p).Pairwise (· < ·) :=
  List.Pairwise.filter _ List.pairwise_lt_range

theorem filter_range_nodup (p : Nat → Bool) (nv : Nat) : ((List.range nv).filter p).Nodup :=
  (filter_range_sorted p nv).imp (fun h => Nat.ne_of_lt h)

theorem rank_lt_length (p : Nat → Bool) (nv i : Nat) (hp : p i = true) (hi : i < nv) :
    rank p i < ((List.range nv).filter p).length := by
  have := filter_range_rank p nv i hp hi
  rw [List.getElem?_eq_some_iff] at this; exact this.1

theorem rank_getElem (p : Nat → Bool) (nv k : Nat) (hk : k < ((List.range nv).filter p).length) :
    rank p ((List.range nv).filter p)[k] = k := by
  have hm := List.getElem_mem hk
  rw [List.mem_filter, List.mem_range] at hm
  have := filter_range_rank p nv _ hm.2 hm.1
  rw [List.getElem?_eq_some_iff] at this
  obtain ⟨h1, h2⟩ := this
  exact (List.Nodup.getElem_inj_iff (filter_range_nodup p nv)).mp h2

/-- `t.reshape(-1)` -/
def flat3 (ts : List Tri) : List Nat := ts.flatMap fun (a, b, c) => [a, b, c]
def flat4 (ts : List Tet) : List Nat := ts.flatMap fun (a, b, c, d) => [a, b, c, d]

theorem mem_flat3 {ts : List Tri} {i : Nat} : i ∈ flat3 ts ↔ ∃ τ ∈ ts, i = τ.1 ∨ i = τ.2.1 ∨ i = τ.2.2 := by
  simp [flat3]
theorem mem_flat4 {ts : List Tet} {i : Nat} :
    i ∈ flat4 ts ↔ ∃ τ ∈ ts, i = τ.1 ∨ i = τ.2.1 ∨ i = τ.2.2.1 ∨ i = τ.2.2.2 := by
  simp [flat4]

theorem usedVerts_length (ts : List Tri) : (Topo.usedVerts ts).length = (flat3 ts).eraseDups.length := by
  unfold Topo.usedVerts; rw [List.length_mergeSort]; rfl

namespace Topo
theorem lexLe_trans (a b c : Nat × Nat) (h1 : lexLe a b = true) (h2 : lexLe b c = true) : lexLe a c = true := by
  simp only [lexLe, Bool.or_eq_true, Bool.and_eq_true, decide_eq_true_eq, beq_iff_eq] at *
  omega
theorem lexLe_total (a b : Nat × Nat) : (lexLe a b || lexLe b a) = true := by
  have h : a.1 < b.1 ∨ a.1 = b.1 ∧ a.2 ≤ b.2 ∨ b.1 < a.1 ∨ b.1 = a.1 ∧ b.2 ≤ a.2 := by omega
  simpa only [lexLe, Bool.or_eq_true, Bool.and_eq_true, decide_eq_true_eq, beq_iff_eq, or_assoc] using h
theorem lexLe_antisymm (a b : Nat × Nat) (h1 : lexLe a b = true) (h2 : lexLe b a = true) : a = b := by
  simp only [lexLe, Bool.or_eq_true, Bool.and_eq_true, decide_eq_true_eq, beq_iff_eq] at *
  apply Prod.ext <;> omega

theorem mem_symKeys {ts : List Tri} {k : Nat × Nat} :
    k ∈ symKeys ts ↔ ∃ τ ∈ ts, k ∈ [(τ.1, τ.2.1), (τ.2.1, τ.1), (τ.2.1, τ.2.2), (τ.2.2, τ.2.1), (τ.2.2, τ.1), (τ.1, τ.2.2)] := by
  simp only [symKeys, List.mem_flatMap]

theorem symKeys_swap {ts : List Tri} {i j : Nat} (h : (i, j) ∈ symKeys ts) : (j, i) ∈ symKeys ts := by
  rw [mem_symKeys] at *
  obtain ⟨τ, hτ, hk⟩ := h
  refine ⟨τ, hτ, ?_⟩
  simp only [List.mem_cons, Prod.mk.injEq, List.not_mem_nil, or_false] at hk ⊢
  rcases hk with ⟨rfl, rfl⟩ | ⟨rfl, rfl⟩ | ⟨rfl, rfl⟩ | ⟨rfl, rfl⟩ | ⟨rfl, rfl⟩ | ⟨rfl, rfl⟩ <;> simp
end Topo

namespace Refine

theorem mem_edgeList {ts : List Tri} {k : Nat × Nat} :
    k ∈ edgeList ts ↔ k.1 ≤ k.2 ∧ k ∈ Topo.symKeys ts := by
  simp only [edgeList, List.mem_mergeSort, List.mem_eraseDups, List.mem_filter, decide_eq_true_eq]
  exact And.comm

theorem edgeList_nodup (ts : List Tri) : (edgeList ts).Nodup := by
  unfold edgeList
  rw [(List.mergeSort_perm _ _).nodup_iff]
  exact eraseDups_nodup _

/-- CSR order: rows ascending, columns ascending inside a row -/
theorem edgeList_sorted (ts : List Tri) : (edgeList ts).Pairwise (fun a b => Topo.lexLe a b = true) :=
  List.pairwise_mergeSort Topo.lexLe_trans Topo.lexLe_total _

theorem edge_mem_edgeList {ts : List Tri} {a b : Nat} (h : (a, b) ∈ Topo.symKeys ts) :
    (min a b, max a b) ∈ edgeList ts := by
  rw [mem_edgeList]
  refine ⟨by simp only; omega, ?_⟩
  rcases Nat.le_total a b with hab | hab
  · rw [Nat.min_eq_left hab, Nat.max_eq_right hab]; exact h
  · rw [Nat.min_eq_right hab, Nat.max_eq_left hab]; exact Topo.symKeys_swap h

theorem edgeVertex_comm (edges : List (Nat × Nat)) (vno a b : Nat) :
    edgeVertex edges vno a b = edgeVertex edges vno b a := by
  simp only [edgeVertex, Nat.min_comm a b, Nat.max_comm a b]

/-- on a stored edge the lookup returns `vno + position`, never the `none ↦ 0` branch -/
theorem edgeVertex_of_mem {edges : List (Nat × Nat)} {vno a b : Nat} (h : (min a b, max a b) ∈ edges) :
    ∃ k, ∃ hk : k < edges.length, edges[k] = (min a b, max a b) ∧ edgeVertex edges vno a b = vno + k := by
  have hex : ∃ i, edges.idxOf? (min a b, max a b) = some i := by
    cases hi : edges.idxOf? (min a b, max a b) with
    | none => rw [List.idxOf?_eq_none_iff] at hi; exact absurd h hi
    | some i => exact ⟨i, rfl⟩
  obtain ⟨i, hi⟩ := hex
  have hev : edgeVertex edges vno a b = vno + i := by simp only [edgeVertex, hi]
  rw [List.idxOf?_eq_some_iff] at hi
  obtain ⟨hlt, hget, _⟩ := hi
  exact ⟨i, hlt, hget, hev⟩

theorem edgeVertex_getElem {edges : List (Nat × Nat)} (hnd : edges.Nodup) (vno k : Nat) (hk : k < edges.length)
    (hle : edges[k].1 ≤ edges[k].2) : edgeVertex edges vno edges[k].1 edges[k].2 = vno + k := by
  have hm : (min edges[k].1 edges[k].2, max edges[k].1 edges[k].2) ∈ edges := by
    rw [Nat.min_eq_left hle, Nat.max_eq_right hle]; exact List.getElem_mem hk
  obtain ⟨k', hk', hget, hev⟩ := edgeVertex_of_mem (vno := vno) hm
  rw [Nat.min_eq_left hle, Nat.max_eq_right hle] at hget
  have : k' = k := (List.Nodup.getElem_inj_iff hnd).mp hget
  rw [hev, this]

/-- the four children of a triangle, for an arbitrary edge-to-new-vertex map `mv` -/
def children (mv : Nat → Nat → Nat) (τ : Tri) : List Tri :=
  [(τ.1, mv τ.1 τ.2.1, mv τ.2.2 τ.1), (τ.2.1, mv τ.2.1 τ.2.2, mv τ.1 τ.2.1), (τ.2.2, mv τ.2.2 τ.1, mv τ.2.1 τ.2.2),
   (mv τ.1 τ.2.1, mv τ.2.1 τ.2.2, mv τ.2.2 τ.1)]

/-- the refined triangle list, for an arbitrary edge-to-new-vertex map -/
def refTris (mv : Nat → Nat → Nat) (ts : List Tri) : List Tri := ts.flatMap (children mv)

section
variable {K : Type} [Zero K] [Add K] [Mul K] [Div K] [NatCast K]
theorem refine1_tris (verts : List (V3 K)) (ts : List Tri) :
    (refine1 verts ts).2 = refTris (edgeVertex (edgeList ts) verts.length) ts := rfl
end

theorem refTris_length (mv : Nat → Nat → Nat) (ts : List Tri) : (refTris mv ts).length = 4 * ts.length := by
  induction ts with
  | nil => rfl
  | cons τ ts ih =>
    simp only [refTris, List.flatMap_cons, List.length_append, List.length_cons] at *
    rw [ih]; simp only [children, List.length_cons, List.length_nil]; omega

end Refine
end LapyVerif
