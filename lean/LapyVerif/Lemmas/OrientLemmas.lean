import Mathlib.Data.List.Basic
import Mathlib.Data.List.Nodup
import LapyVerif.Model.Orient
/-
  Helper lemmas for C10 (`orient_`): list facts (`eraseDups`, `maxL`), the reading of the COO adjacency data as
  occurrence counts, and the characterisations of `isOriented` / `isClosed` used by `Props/C10.lean`.
-/
namespace LapyVerif
namespace OrientLemmas
open Orient Topo

/-! ### `maxL` -/

theorem foldl_max_le (l : List Nat) (a n : Nat) : l.foldl max a ≤ n ↔ a ≤ n ∧ ∀ x ∈ l, x ≤ n := by
  induction l generalizing a with
  | nil => simp
  | cons y l ih =>
    simp only [List.foldl_cons, ih, List.mem_cons, forall_eq_or_imp, Nat.max_le, and_assoc]

theorem maxL_le (l : List Nat) (n : Nat) : maxL l ≤ n ↔ ∀ x ∈ l, x ≤ n := by
  simp [maxL, foldl_max_le]

theorem le_maxL {l : List Nat} {x : Nat} (h : x ∈ l) : x ≤ maxL l :=
  (maxL_le l (maxL l)).1 (Nat.le_refl _) x h

theorem foldl_max_mem (l : List Nat) (a : Nat) : l.foldl max a = a ∨ l.foldl max a ∈ l := by
  induction l generalizing a with
  | nil => simp
  | cons y l ih =>
    simp only [List.foldl_cons, List.mem_cons]
    rcases ih (max a y) with h | h
    · rw [h]
      rcases Nat.le_total a y with h1 | h1
      · right; left; omega
      · left; omega
    · right; right; exact h

theorem maxL_mem (l : List Nat) : maxL l = 0 ∨ maxL l ∈ l := foldl_max_mem l 0

theorem maxL_eq_one_iff (l : List Nat) : maxL l = 1 ↔ (∀ x ∈ l, x ≤ 1) ∧ 1 ∈ l := by
  constructor
  · intro h
    refine ⟨fun x hx => h ▸ le_maxL hx, ?_⟩
    rcases maxL_mem l with h0 | h0
    · omega
    · rwa [h] at h0
  · rintro ⟨h1, h2⟩
    have := (maxL_le l 1).2 h1
    have := le_maxL h2
    omega

/-! ### `eraseDups` -/

theorem eraseDups_nodup {α : Type} [BEq α] [LawfulBEq α] (l : List α) : l.eraseDups.Nodup := by
  generalize hn : l.length = n
  induction n using Nat.strongRecOn generalizing l with
  | _ n ih =>
    cases l with
    | nil => simp
    | cons a as =>
      rw [List.eraseDups_cons, List.nodup_cons]
      refine ⟨?_, ?_⟩
      · simp [List.mem_eraseDups]
      · refine ih (as.filter fun b => !b == a).length ?_ _ rfl
        have := List.length_filter_le (fun b => !b == a) as
        simp at hn; omega

/-! ### COO matrices with unit entries = occurrence counts -/

theorem entry_ones (l : List (Nat × Nat)) (i j : Nat) :
    Coo.entry (l.map fun k => (k, (1 : Nat))) i j = l.count (i, j) := by
  induction l with
  | nil => simp [Coo.entry]
  | cons k l ih =>
    obtain ⟨a, b⟩ := k
    simp only [Coo.entry] at ih
    simp only [Coo.entry, List.map_cons, List.filter_cons, List.count_cons]
    by_cases h : (a == i && b == j) = true
    · simp only [h, ↓reduceIte, List.map_cons, List.sum_cons, ih]
      simp only [Bool.and_eq_true, beq_iff_eq] at h
      simp [h.1, h.2]; omega
    · simp only [h]
      simp only [Bool.and_eq_true, beq_iff_eq] at h
      have : ((a, b) == (i, j)) = false := by
        simp only [beq_eq_false_iff_ne, ne_eq, Prod.mk.injEq]; exact h
      simp only [this]; simpa using ih

theorem keys_ones (l : List (Nat × Nat)) : Coo.keys (l.map fun k => (k, (1 : Nat))) = l.eraseDups := by
  simp [Coo.keys, List.map_map, Function.comp_def]

theorem mem_data_ones (l : List (Nat × Nat)) (x : Nat) :
    x ∈ Coo.data (l.map fun k => (k, (1 : Nat))) ↔ ∃ k ∈ l, l.count k = x := by
  simp only [Coo.data, keys_ones, List.mem_map, List.mem_eraseDups, entry_ones]

/-! ### `isOriented`, `isClosed` as statements about occurrence counts -/

theorem dirKeys_eq_nil (ts : List Tri) : dirKeys ts = [] ↔ ts = [] := by
  cases ts with
  | nil => simp [dirKeys]
  | cons τ ts => obtain ⟨a, b, c⟩ := τ; simp [dirKeys, List.flatMap_cons]

theorem isOriented_iff (ts : List Tri) : isOriented ts = true ↔ ts ≠ [] ∧ (dirKeys ts).Nodup := by
  simp only [isOriented, beq_iff_eq, maxL_eq_one_iff, dirData, adjDir, mem_data_ones,
    List.nodup_iff_count_le_one]
  constructor
  · rintro ⟨h1, k, hk, _⟩
    refine ⟨?_, fun a => ?_⟩
    · rintro rfl; simp [dirKeys] at hk
    · by_cases ha : a ∈ dirKeys ts
      · exact h1 _ ⟨a, ha, rfl⟩
      · rw [List.count_eq_zero_of_not_mem ha]; omega
  · rintro ⟨h1, h2⟩
    refine ⟨?_, ?_⟩
    · rintro x ⟨k, _, rfl⟩; exact h2 k
    · have : dirKeys ts ≠ [] := fun h => h1 ((dirKeys_eq_nil ts).1 h)
      obtain ⟨k, hk⟩ := List.exists_mem_of_ne_nil _ this
      refine ⟨k, hk, ?_⟩
      have := h2 k
      have := List.count_pos_iff.2 hk
      omega

theorem isClosed_iff (ts : List Tri) : isClosed ts = true ↔ ∀ k, (symKeys ts).count k ≠ 1 := by
  simp only [isClosed, Bool.not_eq_true', symData, adjSym]
  rw [← Bool.not_eq_true, List.contains_iff_mem, mem_data_ones]
  constructor
  · intro h k hk
    exact h ⟨k, List.count_pos_iff.1 (by omega), hk⟩
  · rintro h ⟨k, _, hk⟩; exact h k hk

/-! ### structure of the sparse vectors: indices form a sublist of `range n` -/

/-- the indices of a sparse vector are strictly increasing and `< n` -/
def IdxOK (n : Nat) (v : SVec) : Prop := (v.map (·.1)).Sublist (List.range n)

theorem filterMap_idx_sublist {β : Type} (l : List Nat) (f : Nat → Option (Nat × β))
    (hf : ∀ k e, f k = some e → e.1 = k) : ((l.filterMap f).map (·.1)).Sublist l := by
  induction l with
  | nil => simp
  | cons x l ih =>
    rw [List.filterMap_cons]
    cases hx : f x with
    | none => exact ih.cons _
    | some e =>
      simp only [List.map_cons]
      rw [hf x e hx]
      exact ih.cons_cons _

theorem step_idxOK (n : Nat) (pairs : List (Nat × Nat × Int)) (v : SVec) : IdxOK n (step n pairs v) := by
  unfold IdxOK step
  apply filterMap_idx_sublist
  intro k e h
  dsimp only at h
  split at h
  · split at h
    · cases h
    · cases h; rfl
  · cases h

theorem column_idxOK (n : Nat) (pairs : List (Nat × Nat × Int)) (seed : Nat) : IdxOK n (column n pairs seed) := by
  unfold IdxOK column
  apply filterMap_idx_sublist
  intro k e h
  dsimp only at h
  split at h
  · cases h; rfl
  · cases h

theorem addVec_idxOK (n : Nat) (a b : SVec) : IdxOK n (addVec n a b) := by
  unfold IdxOK addVec
  apply filterMap_idx_sublist
  intro k e h
  dsimp only at h
  split at h
  · cases h; rfl
  · cases h

theorem flood_idxOK (n : Nat) (pairs : List (Nat × Nat × Int)) (fuel : Nat) (v : SVec) (nlast : Nat) (v' : SVec)
    (hv : IdxOK n v) (h : flood n pairs fuel v nlast = some v') : IdxOK n v' := by
  induction fuel generalizing v nlast with
  | zero => simp [flood] at h
  | succ fuel ih =>
    rw [flood] at h
    split at h
    · exact ih _ _ (step_idxOK _ _ _) h
    · cases h; exact hv

theorem IdxOK.nodup {n : Nat} {v : SVec} (h : IdxOK n v) : (v.map (·.1)).Nodup :=
  List.Nodup.sublist h List.nodup_range

theorem IdxOK.lt {n : Nat} {v : SVec} (h : IdxOK n v) {e : Nat × Int} (he : e ∈ v) : e.1 < n :=
  List.mem_range.1 (h.subset (List.mem_map_of_mem he))

theorem IdxOK.length_le {n : Nat} {v : SVec} (h : IdxOK n v) : v.length ≤ n := by
  simpa using List.Sublist.length_le h

/-- filtering a duplicate-free list by membership in one of its sublists returns that sublist -/
theorem filter_mem_of_sublist {l s : List Nat} (hs : s.Sublist l) (hl : l.Nodup) :
    l.filter (fun k => decide (k ∈ s)) = s := by
  induction hs with
  | slnil => rfl
  | cons a hs ih =>
    rw [List.nodup_cons] at hl
    have : a ∉ _ := fun h => hl.1 (hs.subset h)
    simp [this, ih hl.2]
  | cons_cons a hs ih =>
    rename_i s' l'
    rw [List.nodup_cons] at hl
    simp only [List.filter_cons, List.mem_cons, true_or, decide_true, ↓reduceIte, List.cons.injEq, true_and]
    conv => rhs; rw [← ih hl.2]
    apply List.filter_congr
    intro x hx
    have : x ≠ a := fun h => hl.1 (h ▸ hx)
    simp [this]

/-! ### half-edge rows and neighbour pairs: where the indices come from -/

/-- the three rows contributed by triangle `τ` with index `k` -/
def triRows (τ : Tri) (k : Nat) : List (Nat × Nat × Nat × Bool) :=
  [(min τ.1 τ.2.1, max τ.1 τ.2.1, k, decide (τ.1 < τ.2.1)), (min τ.2.1 τ.2.2, max τ.2.1 τ.2.2, k, decide (τ.2.1 < τ.2.2)),
   (min τ.2.2 τ.1, max τ.2.2 τ.1, k, decide (τ.2.2 < τ.1))]

theorem halfEdgeRows_eq (ts : List Tri) : halfEdgeRows ts = (ts.zipIdx).flatMap fun p => triRows p.1 p.2 := rfl

theorem mem_halfEdgeRows {ts : List Tri} {r : Nat × Nat × Nat × Bool} :
    r ∈ halfEdgeRows ts ↔ ∃ k τ, ts[k]? = some τ ∧ r ∈ triRows τ k := by
  rw [halfEdgeRows_eq, List.mem_flatMap]
  constructor
  · rintro ⟨⟨τ, k⟩, hp, hr⟩
    exact ⟨k, τ, List.mk_mem_zipIdx_iff_getElem?.1 hp, hr⟩
  · rintro ⟨k, τ, hk, hr⟩
    exact ⟨(τ, k), List.mk_mem_zipIdx_iff_getElem?.2 hk, hr⟩

theorem idx_of_mem_triRows {τ : Tri} {k : Nat} {r : Nat × Nat × Nat × Bool} (h : r ∈ triRows τ k) : r.2.2.1 = k := by
  simp only [triRows, List.mem_cons, List.not_mem_nil, or_false] at h
  rcases h with rfl | rfl | rfl <;> rfl

theorem idx_lt_of_mem_halfEdgeRows {ts : List Tri} {r : Nat × Nat × Nat × Bool} (h : r ∈ halfEdgeRows ts) :
    r.2.2.1 < ts.length := by
  obtain ⟨k, τ, hk, hr⟩ := mem_halfEdgeRows.1 h
  rw [idx_of_mem_triRows hr]
  exact (List.getElem?_eq_some_iff.1 hk).1

/-- the rows with a given key -/
def rowsAt (rows : List (Nat × Nat × Nat × Bool)) (e : Nat × Nat) : List (Nat × Nat × Nat × Bool) :=
  rows.filter fun r => r.1 == e.1 && r.2.1 == e.2

theorem mem_neighbourPairs {rows : List (Nat × Nat × Nat × Bool)} {counts : List ((Nat × Nat) × Nat)}
    {p : Nat × Nat × Int} (h : p ∈ neighbourPairs rows counts) :
    ∃ kc a b, kc ∈ counts ∧ kc.2 = 2 ∧ rowsAt rows kc.1 = [a, b] ∧
      p = (a.2.2.1, b.2.2.1, if a.2.2.2 != b.2.2.2 then 1 else -1) := by
  unfold neighbourPairs at h
  rw [List.mem_filterMap] at h
  obtain ⟨kc, hkc, hp⟩ := h
  rw [List.mem_filter] at hkc
  split at hp
  · rename_i a b hab
    cases hp
    exact ⟨kc, a, b, hkc.1, by simpa using hkc.2, hab, rfl⟩
  · cases hp

theorem foldl_pairs_lt (pairs : List (Nat × Nat × Int)) (m L : Nat) (hm : m < L)
    (h : ∀ p ∈ pairs, p.1 < L ∧ p.2.1 < L) :
    pairs.foldl (fun m p => max m (max p.1 p.2.1)) m < L := by
  induction pairs generalizing m with
  | nil => exact hm
  | cons p ps ih =>
    rw [List.foldl_cons]
    have := h p (List.mem_cons_self)
    exact ih _ (by omega) (fun q hq => h q (List.mem_cons_of_mem _ hq))

theorem pairs_idx_lt {ts : List Tri} {p : Nat × Nat × Int}
    (h : p ∈ neighbourPairs (halfEdgeRows ts) (edgeCounts (halfEdgeRows ts))) :
    p.1 < ts.length ∧ p.2.1 < ts.length := by
  obtain ⟨kc, a, b, _, _, hab, rfl⟩ := mem_neighbourPairs h
  have ha : a ∈ rowsAt (halfEdgeRows ts) kc.1 := by rw [hab]; simp
  have hb : b ∈ rowsAt (halfEdgeRows ts) kc.1 := by rw [hab]; simp
  exact ⟨idx_lt_of_mem_halfEdgeRows (List.mem_filter.1 ha).1, idx_lt_of_mem_halfEdgeRows (List.mem_filter.1 hb).1⟩

/-! ### reversing every triangle (`swap12`) -/

theorem count_symKeys_swap12 (ts : List Tri) (k : Nat × Nat) :
    (symKeys (ts.map swap12)).count k = (symKeys ts).count k := by
  induction ts with
  | nil => rfl
  | cons τ ts ih =>
    obtain ⟨t0, t1, t2⟩ := τ
    simp only [symKeys, List.map_cons, List.flatMap_cons, List.count_append] at ih ⊢
    rw [ih]
    simp only [swap12, List.count_cons, List.count_nil]
    omega

theorem count_dirKeys_swap12 (ts : List Tri) (a b : Nat) :
    (dirKeys (ts.map swap12)).count (a, b) = (dirKeys ts).count (b, a) := by
  induction ts with
  | nil => rfl
  | cons τ ts ih =>
    obtain ⟨t0, t1, t2⟩ := τ
    simp only [dirKeys, List.map_cons, List.flatMap_cons, List.count_append] at ih ⊢
    rw [ih]
    simp only [swap12, List.count_cons, List.count_nil, Prod.mk.injEq, beq_iff_eq]
    have e1 : (t0 = a ∧ t2 = b) ↔ (t2 = b ∧ t0 = a) := and_comm
    have e2 : (t2 = a ∧ t1 = b) ↔ (t1 = b ∧ t2 = a) := and_comm
    have e3 : (t1 = a ∧ t0 = b) ↔ (t0 = b ∧ t1 = a) := and_comm
    simp only [e1, e2, e3]
    omega

theorem isClosed_map_swap12 (ts : List Tri) : isClosed (ts.map swap12) = isClosed ts := by
  rw [Bool.eq_iff_iff, isClosed_iff, isClosed_iff]
  simp only [count_symKeys_swap12]

theorem isOriented_map_swap12 (ts : List Tri) : isOriented (ts.map swap12) = isOriented ts := by
  rw [Bool.eq_iff_iff, isOriented_iff, isOriented_iff, List.nodup_iff_count_le_one, List.nodup_iff_count_le_one]
  simp only [ne_eq, List.map_eq_nil_iff, Prod.forall, count_dirKeys_swap12]
  constructor
  · rintro ⟨h1, h2⟩; exact ⟨h1, fun a b => h2 b a⟩
  · rintro ⟨h1, h2⟩; exact ⟨h1, fun a b => h2 b a⟩

/-! ### directed and undirected edges of a triangle; the counts `c` of `np.unique` -/

def dirEdges (τ : Tri) : List (Nat × Nat) := [(τ.1, τ.2.1), (τ.2.1, τ.2.2), (τ.2.2, τ.1)]

/-- undirected edges as sorted pairs `(min, max)` -/
def undEdges (τ : Tri) : List (Nat × Nat) :=
  [(min τ.1 τ.2.1, max τ.1 τ.2.1), (min τ.2.1 τ.2.2, max τ.2.1 τ.2.2), (min τ.2.2 τ.1, max τ.2.2 τ.1)]

def undKeys (ts : List Tri) : List (Nat × Nat) := ts.flatMap undEdges

theorem dirKeys_eq (ts : List Tri) : dirKeys ts = ts.flatMap dirEdges := rfl

def rowKey (r : Nat × Nat × Nat × Bool) : Nat × Nat := (r.1, r.2.1)

theorem rowsAt_eq (rows : List (Nat × Nat × Nat × Bool)) (e : Nat × Nat) :
    rowsAt rows e = rows.filter fun r => rowKey r == e := by
  unfold rowsAt
  apply List.filter_congr
  intro r _
  obtain ⟨r1, r2, r3⟩ := r
  obtain ⟨e1, e2⟩ := e
  simp only [rowKey]
  rw [Bool.eq_iff_iff]
  simp

theorem rowsAt_length (rows : List (Nat × Nat × Nat × Bool)) (e : Nat × Nat) :
    (rowsAt rows e).length = (rows.map rowKey).count e := by
  rw [rowsAt_eq, List.count_eq_countP, List.countP_map, List.countP_eq_length_filter]
  rfl

theorem zipIdx_flatMap_fst {α β : Type} (l : List α) (i : Nat) (f : α → List β) :
    (l.zipIdx i).flatMap (fun p => f p.1) = l.flatMap f := by
  induction l generalizing i with
  | nil => rfl
  | cons a l ih => simp [List.flatMap_cons, ih]

theorem rowKeys_halfEdgeRows (ts : List Tri) : (halfEdgeRows ts).map rowKey = undKeys ts := by
  rw [halfEdgeRows_eq, List.map_flatMap]
  exact zipIdx_flatMap_fst ts 0 undEdges

theorem edgeCounts_eq (ts : List Tri) :
    edgeCounts (halfEdgeRows ts) = (undKeys ts).eraseDups.map fun k => (k, (undKeys ts).count k) := by
  unfold edgeCounts
  simp only
  rw [show (halfEdgeRows ts).map (fun r => (r.1, r.2.1)) = undKeys ts from rowKeys_halfEdgeRows ts]
  apply List.map_congr_left
  intro k _
  rw [← rowKeys_halfEdgeRows, ← rowsAt_length]
  rfl

theorem mem_cs (ts : List Tri) (x : Nat) :
    x ∈ (edgeCounts (halfEdgeRows ts)).map (·.2) ↔ ∃ k ∈ undKeys ts, (undKeys ts).count k = x := by
  rw [edgeCounts_eq]
  simp only [List.map_map, List.mem_map, List.mem_eraseDups, Function.comp_def]

theorem count_flatMap_ge_countP {α β : Type} [BEq β] [LawfulBEq β] (l : List α) (f : α → List β) (x : β)
    (p : α → Bool) (hp : ∀ a ∈ l, p a = true → 1 ≤ (f a).count x) : l.countP p ≤ (l.flatMap f).count x := by
  induction l with
  | nil => simp
  | cons a l ih =>
    rw [List.flatMap_cons, List.count_append, List.countP_cons]
    have h1 := ih (fun b hb => hp b (List.mem_cons_of_mem _ hb))
    have h2 := hp a List.mem_cons_self
    by_cases hpa : p a = true
    · have := h2 hpa
      simp only [hpa, ↓reduceIte]; omega
    · simp only [hpa, Bool.false_eq_true, ↓reduceIte]; omega

theorem undEdge_of_verts {τ : Tri} {a b : Nat} (hab : a ≠ b) (ha : a ∈ [τ.1, τ.2.1, τ.2.2]) (hb : b ∈ [τ.1, τ.2.1, τ.2.2]) :
    (min a b, max a b) ∈ undEdges τ := by
  obtain ⟨t0, t1, t2⟩ := τ
  simp only [List.mem_cons, List.not_mem_nil, or_false] at ha hb
  simp only [undEdges, List.mem_cons, List.not_mem_nil, or_false, Prod.mk.injEq]
  rcases ha with rfl | rfl | rfl <;> rcases hb with rfl | rfl | rfl <;> first | exact absurd rfl hab | omega

theorem dirEdge_of_verts {τ : Tri} {a b : Nat} (hab : a ≠ b) (ha : a ∈ [τ.1, τ.2.1, τ.2.2]) (hb : b ∈ [τ.1, τ.2.1, τ.2.2]) :
    (a, b) ∈ dirEdges τ ∨ (b, a) ∈ dirEdges τ := by
  obtain ⟨t0, t1, t2⟩ := τ
  simp only [List.mem_cons, List.not_mem_nil, or_false] at ha hb
  simp only [dirEdges, List.mem_cons, List.not_mem_nil, or_false, Prod.mk.injEq]
  rcases ha with rfl | rfl | rfl <;> rcases hb with rfl | rfl | rfl <;> first | exact absurd rfl hab | simp

/-! ### flipping a set of triangles -/

/-- flip (swap the first two vertices of) exactly the triangles whose index satisfies `f` -/
def flipBy (f : Nat → Bool) (ts : List Tri) : List Tri :=
  (ts.zipIdx).map fun p => if f p.2 then swap01 p.1 else p.1

theorem flipBy_length (f : Nat → Bool) (ts : List Tri) : (flipBy f ts).length = ts.length := by simp [flipBy]

theorem flipBy_getElem (f : Nat → Bool) (ts : List Tri) (k : Nat) (h : k < ts.length) :
    (flipBy f ts)[k]'(by simpa [flipBy] using h) = if f k then swap01 ts[k] else ts[k] := by
  simp [flipBy]

theorem flipBy_false (ts : List Tri) : flipBy (fun _ => false) ts = ts := by
  simp only [flipBy, Bool.false_eq_true, ↓reduceIte]
  exact List.zipIdx_map_fst 0 ts

/-- number of flipped triangles -/
def flipCount (f : Nat → Bool) (ts : List Tri) : Nat := ((List.range ts.length).filter f).length

end OrientLemmas
end LapyVerif
