import Driver.Proto
import LapyVerif.Model.Topo
namespace LapyVerif.Driver
open LapyVerif

def b2s (b : Bool) : String := if b then "1" else "0"

/-- `topo nv tris` → `ok closed manifold oriented euler free degrees…` -/
def opTopo : P String := do
  let nv ← pNat; let t ← pTris
  return s!"ok {b2s (Topo.isClosed t)} {b2s (Topo.isManifold t)} {b2s (Topo.isOriented t)} {Topo.euler t} {b2s (Topo.hasFreeVertices nv t)} {outNats (Topo.vertexDegrees nv t)}"

def opLoops : P String := do
  let t ← pTris
  match Topo.boundaryLoops t with
  | .valueError => return "err ValueError"
  | .diverges => return "err Timeout"
  | .loops l => return s!"ok {l.length} " ++ " ".intercalate (l.map outNats)

def opEdges : P String := do
  let t ← pTris
  match Topo.edges t with
  | none => return "err ValueError"
  | some r =>
    let pairs (l : List (Nat × Nat)) := " ".intercalate (toString l.length :: l.map fun k => s!"{k.1} {k.2}")
    let ipairs (l : List (Int × Int)) := " ".intercalate (toString l.length :: l.map fun k => s!"{k.1} {k.2}")
    return s!"ok {pairs r.vids} {ipairs r.tids} {pairs r.bdrv} {outInts r.bdrt}"

def topoOps : List (String × P String) := [("topo", opTopo), ("loops", opLoops), ("edges", opEdges)]

end LapyVerif.Driver
