import Driver.Proto
import LapyVerif.Model.Formats
namespace LapyVerif.Driver
open LapyVerif Formats

/-- text crosses the line protocol as hex of its bytes (`-` = empty string) -/
def unhexStr (s : String) : Option String :=
  if s == "-" then some "" else
  let cs := s.toList
  let rec go : List Char → List Char → Option (List Char)
    | [], acc => some acc.reverse
    | [_], _ => none
    | a :: b :: r, acc =>
      match hexDigit a, hexDigit b with
      | some x, some y => go r (Char.ofNat (x * 16 + y) :: acc)
      | _, _ => none
  (go cs []).map String.ofList

def hexStr (s : String) : String :=
  if s.isEmpty then "-" else
  String.ofList (s.toList.flatMap fun c => [hexChar (c.toNat / 16), hexChar (c.toNat % 16)])

def pStr : P String := do
  let t ← tok
  match unhexStr t with
  | some s => pure s
  | none => throw "hex"

def pLines : P (List String) := do
  let n ← pNat
  return (← pMany n pStr).toList

def outStrs (l : List String) : String := " ".intercalate (toString l.length :: l.map hexStr)

def outRaw (m : RawMesh) : String :=
  let k := (m.elems.headD []).length
  s!"ok {outStrs m.coords} {m.elems.length} {k} " ++ " ".intercalate (m.elems.map fun e => " ".intercalate (e.map toString))

def failStr : Fail → String
  | .format => "err format"
  | .data => "err data"

/-- `io_read vtk3|vtk4|off|gmsh lines` -/
def opIoRead : P String := do
  let kind ← tok
  let ls ← pLines
  let r := if kind == "vtk3" then readVtk 3 ls else if kind == "vtk4" then readVtk 4 ls
           else if kind == "off" then readOff ls else readGmsh ls
  match r with
  | .ok m => return outRaw m
  | .error e => return failStr e

/-- `io_write_vtk k nv (3 tokens)* ne (k indices)*` → `ok lines` -/
def opIoWriteVtk : P String := do
  let k ← pNat
  let nv ← pNat
  let coords ← pMany nv (do let a ← pStr; let b ← pStr; let c ← pStr; pure [a, b, c])
  let ne ← pNat
  let elems ← pMany ne (do let r ← pMany k pNat; pure r.toList)
  return s!"ok {outStrs (writeVtk k coords.toList elems.toList)}"

def pKV : P (List (String × String)) := do
  let n ← pNat
  let l ← pMany n (do let a ← pStr; let b ← pStr; pure (a, b))
  return l.toList

def pEv : P EvData := do
  let strs ← pKV; let ints ← pKV; let flts ← pKV
  let ne ← pNat; let evals ← pMany ne pStr
  let has ← pBool
  if has then
    let n ← pNat; let k ← pNat
    let cols ← pMany k (do let c ← pMany n pStr; pure c.toList)
    return { strs := strs, ints := ints, floats := flts, evals := evals.toList, evecs := some (n, k, cols.toList) }
  else
    return { strs := strs, ints := ints, floats := flts, evals := evals.toList, evecs := none }

def outKV (l : List (String × String)) : String :=
  " ".intercalate (toString l.length :: l.map fun p => s!"{hexStr p.1} {hexStr p.2}")

def outEv (d : EvData) : String :=
  let ev := match d.evecs with
    | none => "0"
    | some (n, k, cols) => s!"1 {n} {k} " ++ " ".intercalate (cols.map fun (c : List String) => " ".intercalate (c.map hexStr))
  s!"{outKV d.strs} {outKV d.ints} {outKV d.floats} {outStrs d.evals} {ev}"

def opIoWriteEv : P String := do
  let d ← pEv
  return s!"ok {outStrs (writeEv d)}"

def opIoReadEv : P String := do
  let ls ← pLines
  match readEv (ls.length + 1) ls { strs := [], ints := [], floats := [], evals := [], evecs := none } with
  | some d => return s!"ok {outEv d}"
  | none => return "err data"

def opIoWriteVfunc : P String := do
  let n ← pNat; let v ← pMany n pStr
  return s!"ok {outStrs (writeVfunc v.toList)}"

def opIoReadVfunc : P String := do
  let ls ← pLines
  match readVfunc ls with
  | some v => return s!"ok {outStrs v}"
  | none => return "err data"

def ioOps : List (String × P String) :=
  [("io_read", opIoRead), ("io_write_vtk", opIoWriteVtk), ("io_write_ev", opIoWriteEv), ("io_read_ev", opIoReadEv),
   ("io_write_vfunc", opIoWriteVfunc), ("io_read_vfunc", opIoReadVfunc)]
end LapyVerif.Driver
