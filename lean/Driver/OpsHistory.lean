import Driver.Proto
import Driver.OpsMesh
import LapyVerif.Model.History
namespace LapyVerif.Driver
open LapyVerif History

/-- sorted distinct keys with their multiplicity: the canonical form of a cached adjacency matrix -/
def canonKeys (ks : List (Nat × Nat)) : String :=
  let u := (ks.eraseDups).mergeSort (fun a b => Topo.lexLe a b)
  " ".intercalate (toString u.length :: u.map fun k => s!"{k.1} {k.2} {ks.count k}")

def pTriOp : P (TriOp Float) := do
  let c ← tok
  if c == "o" then return .orient
  else if c == "r" then return .refine (← pNat)
  else if c == "f" then return .rmFree
  else if c == "n" then return .normalize
  else if c == "s" then return .smooth (← pNat)
  else if c == "d" then return .offset (← pFloat)
  else throw "op"

def rebOf (names : List String) (bits : List Bool) : String → Bool :=
  fun n => ((names.zip bits).find? fun e => e.1 == n).map (·.2) |>.getD false

def triNames : List String := ["orient_", "refine_", "rm_free_vertices_", "normalize_", "smooth_", "normal_offset_"]

/-- `history_tri b1..b6 verts tris k ops…` → `ok` then per step `| v t symK dirK` -/
def opHistoryTri : P String := do
  let bits ← pMany 6 pBool
  let v ← pVerts; let t ← pTris
  let k ← pNat
  let ops ← pMany k pTriOp
  let reb := rebOf triNames bits.toList
  let mut s : TriState Float := TriState.fresh v.toList t
  let mut out := "ok"
  for op in ops do
    s := triStep reb s op
    out := out ++ s!" | {outV3s s.v} {outTris s.t} {canonKeys s.symK} {canonKeys s.dirK}"
  return out

def pTetOp : P TetOp := do
  let c ← tok
  if c == "o" then return .orient else if c == "f" then return .rmFree else throw "op"

def opHistoryTet : P String := do
  let bits ← pMany 2 pBool
  let v ← pVerts; let t ← pTets
  let k ← pNat
  let ops ← pMany k pTetOp
  let reb := rebOf ["orient_", "rm_free_vertices_"] bits.toList
  let mut s : TetState Float := TetState.fresh v.toList t
  let mut out := "ok"
  for op in ops do
    s := tetStep reb s op
    out := out ++ s!" | {outV3s s.v} {outTets s.t} {canonKeys s.symK}"
  return out

def historyOps : List (String × P String) := [("history_tri", opHistoryTri), ("history_tet", opHistoryTet)]

end LapyVerif.Driver

namespace LapyVerif.Driver
open LapyVerif History
def opCtorTri : P String := do
  let vr ← pNat; let vc ← pNat; let tr ← pNat; let tc ← pNat; let mx ← pNat
  match ctorTri vr vc tr tc mx with
  | .ok (a, b) => return s!"ok {if a then 1 else 0} {if b then 1 else 0}"
  | .error e => return s!"err {e}"
def opCtorTet : P String := do
  let vr ← pNat; let vc ← pNat; let mx ← pNat
  match ctorTet vr vc mx with
  | .ok _ => return "ok"
  | .error e => return s!"err {e}"
def ctorOps : List (String × P String) := [("ctor_tri", opCtorTri), ("ctor_tet", opCtorTet)]
end LapyVerif.Driver
