import Driver.Proto
import LapyVerif.Model.Fem
namespace LapyVerif.Driver
open LapyVerif

/-- `fem_tria lump verts tris` → `ok A B` -/
def opFemTria : P String := do
  let lump ← pBool; let v ← pVerts; let t ← pTris
  let vtx := vtxOf v
  return s!"ok {outCoo (Fem.stiffTria vtx t)} {outCoo (Fem.massTria lump vtx t)}"

def opFemTet : P String := do
  let lump ← pBool; let v ← pVerts; let t ← pTets
  let vtx := vtxOf v
  return s!"ok {outCoo (Fem.stiffTet vtx t)} {outCoo (Fem.massTet lump vtx t)}"

def opMassTria : P String := do
  let lump ← pBool; let v ← pVerts; let t ← pTris
  return s!"ok {outCoo (Fem.massTriaStandalone lump (vtxOf v) t)}"

/-- `fem_aniso lump verts tris nt×(u1 u2 d0 d1)` -/
def opFemAniso : P String := do
  let lump ← pBool; let v ← pVerts; let t ← pTris
  let us ← pMany t.length (do
    let u1 ← pV3; let u2 ← pV3; let d0 ← pFloat; let d1 ← pFloat
    pure (u1, u2, d0, d1))
  let vtx := vtxOf v
  return s!"ok {outCoo (Fem.stiffTriaAniso vtx t us.toList)} {outCoo (Fem.massTria lump vtx t)}"

def femOps : List (String × P String) :=
  [("fem_tria", opFemTria), ("fem_tet", opFemTet), ("mass_tria", opMassTria), ("fem_aniso", opFemAniso)]

end LapyVerif.Driver
