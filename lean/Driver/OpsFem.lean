import Driver.Proto
import LapyVerif.Model.Fem
namespace LapyVerif.Driver
open LapyVerif

/-- `fem_tria lump verts tris` → `ok A B` -/
def opFemTria : P String := do
  let lump ← pBool; let v ← pVerts; let t ← pTris
  let vtx := vtxOf v
  return s!"ok {outCoo (Fem.stiffTria vtx t)} {outCoo (Fem.massTria lump vtx t)}"

def opFemTet : P String := do
  let lump ← pBool; let v ← pVerts; let t ← pTets
  let vtx := vtxOf v
  return s!"ok {outCoo (Fem.stiffTet vtx t)} {outCoo (Fem.massTet lump vtx t)}"

def opMassTria : P String := do
  let lump ← pBool; let v ← pVerts; let t ← pTris
  return s!"ok {outCoo (Fem.massTriaStandalone lump (vtxOf v) t)}"

/-- `fem_aniso lump verts tris nt×(u1 u2 d0 d1)` -/
def opFemAniso : P String := do
  let lump ← pBool; let v ← pVerts; let t ← pTris
  let us ← pMany t.length (do
    let u1 ← pV3; let u2 ← pV3; let d0 ← pFloat; let d1 ← pFloat
    pure (u1, u2, d0, d1))
  let vtx := vtxOf v
  return s!"ok {outCoo (Fem.stiffTriaAniso vtx t us.toList)} {outCoo (Fem.massTria lump vtx t)}"

def pCur (n : Nat) : P (List (V3 Float × V3 Float × Float × Float)) := do
  let us ← pMany n (do
    let u1 ← pV3; let u2 ← pV3; let c1 ← pFloat; let c2 ← pFloat
    pure (u1, u2, c1, c2))
  return us.toList

/-- `solver_aniso lump verts tris a0 a1 nt×(u1 u2 c1 c2)` : `Solver(tria, lump, aniso=(a0,a1))` from the curvature output -/
def opSolverAniso : P String := do
  let lump ← pBool; let v ← pVerts; let t ← pTris; let a0 ← pFloat; let a1 ← pFloat
  let cur ← pCur t.length
  let (a, b) := Fem.solverAniso lump (vtxOf v) t a0 a1 cur
  return s!"ok {outCoo a} {outCoo b}"

def femOps : List (String × P String) :=
  [("fem_tria", opFemTria), ("fem_tet", opFemTet), ("mass_tria", opMassTria), ("fem_aniso", opFemAniso), ("solver_aniso", opSolverAniso)]

end LapyVerif.Driver
