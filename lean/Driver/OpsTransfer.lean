import Driver.Proto
import Driver.OpsSolve
import LapyVerif.Model.Transfer
namespace LapyVerif.Driver
open LapyVerif

/-- `t2v weighted verts tris matrix(tfunc)` -/
def opT2V : P String := do
  let w ← pBool; let v ← pVerts; let t ← pTris; let tf ← pMatrix
  return s!"ok {outMatrix (Transfer.t2v v.size (vtxOf v) t tf w)}"

def opV2T : P String := do
  let t ← pTris; let vf ← pMatrix
  return s!"ok {outMatrix (Transfer.v2t t vf)}"

/-- `smooth n verts tris matrix(vfunc)` -/
def opSmooth : P String := do
  let n ← pNat; let v ← pVerts; let t ← pTris; let f ← pMatrix
  return s!"ok {outMatrix (Transfer.smooth (Topo.symKeys t) (Measures.vertexAreas (vtxOf v) t) f n)}"

def transferOps : List (String × P String) := [("t2v", opT2V), ("v2t", opV2T), ("smooth", opSmooth)]
end LapyVerif.Driver
