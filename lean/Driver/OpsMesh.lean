import Driver.Proto
import LapyVerif.Model.Orient
import LapyVerif.Model.Refine
import LapyVerif.Model.TetTopo
namespace LapyVerif.Driver
open LapyVerif

def outTris (l : List Tri) : String :=
  " ".intercalate (toString l.length :: l.map fun t => s!"{t.1} {t.2.1} {t.2.2}")
def outTets (l : List Tet) : String :=
  " ".intercalate (toString l.length :: l.map fun t => s!"{t.1} {t.2.1} {t.2.2.1} {t.2.2.2}")

/-- `orient_tri verts tris` → `ok flipped tris` | `err ValueError` | `err Timeout` -/
def opOrientTri : P String := do
  let v ← pVerts; let t ← pTris
  match Orient.orient (vtxOf v) t with
  | .ok ts fl => return s!"ok {fl} {outTris ts}"
  | .valueError => return "err ValueError"
  | .diverges => return "err Timeout"

/-- `refine it verts tris` → `ok verts tris` -/
def opRefine : P String := do
  let it ← pNat; let v ← pVerts; let t ← pTris
  let (vn, tn) := Refine.refine it v.toList t
  return s!"ok {outV3s vn} {outTris tn}"

def opRmFreeTri : P String := do
  let nv ← pNat; let t ← pTris
  let (r, tn) := RmFree.tri nv t
  return s!"ok {if r.changed then 1 else 0} {outNats r.keep} {outNats r.del} {outTris tn}"

def opRmFreeTet : P String := do
  let nv ← pNat; let t ← pTets
  let (r, tn) := RmFree.tet nv t
  return s!"ok {if r.changed then 1 else 0} {outNats r.keep} {outNats r.del} {outTets tn}"

def opTetOriented : P String := do
  let v ← pVerts; let t ← pTets
  return s!"ok {if TetTopo.isOriented (vtxOf v) t then 1 else 0}"

def opTetOrient : P String := do
  let v ← pVerts; let t ← pTets
  let (tn, n) := TetTopo.orient (vtxOf v) t
  return s!"ok {n} {outTets tn}"

/-- `tet_boundary nv tets` → `ok faces owners free` -/
def opTetBoundary : P String := do
  let nv ← pNat; let t ← pTets
  let b := TetTopo.boundaryFaces t
  return s!"ok {outTris (b.map (·.1))} {outNats (b.map (·.2))} {if TetTopo.hasFreeVertices nv t then 1 else 0}"

/-- `measures verts tris` → areas, area, volume (or err), vertex areas, avg edge, normals, qualities, centroid+area -/
def opMeasures : P String := do
  let v ← pVerts; let t ← pTris
  let vtx := vtxOf v
  let vol := match Measures.volume vtx t with
    | .ok x => s!"ok {floatBits x}"
    | .error e => s!"err {e}"
  let vn := match Measures.vertexNormals v.size vtx t with
    | some l => s!"ok {outV3s l}"
    | none => "err ValueError"
  let (ctr, tot) := Measures.centroid vtx t
  return s!"ok {outFloats (Measures.triAreas vtx t)} {floatBits (Measures.area vtx t)} {vol} {outFloats (Measures.vertexAreas vtx t)} {floatBits (Measures.avgEdgeLength vtx t)} {outV3s (Measures.triNormals vtx t)} {outFloats (Measures.triQualities vtx t)} {outV3s [ctr]} {floatBits tot} {vn}"

def opNormalize : P String := do
  let v ← pVerts; let t ← pTris
  return s!"ok {outV3s (Measures.normalize v.toList (vtxOf v) t)}"

def opOffset : P String := do
  let d ← pFloat; let v ← pVerts; let t ← pTris
  match Measures.normalOffset d v.toList (vtxOf v) t with
  | some l => return s!"ok {outV3s l}"
  | none => return "err ValueError"

def opTetAvgEdge : P String := do
  let v ← pVerts; let t ← pTets
  return s!"ok {floatBits (Measures.tetAvgEdgeLength (vtxOf v) t)}"

def meshOps : List (String × P String) :=
  [("orient_tri", opOrientTri), ("refine", opRefine), ("rmfree_tri", opRmFreeTri), ("rmfree_tet", opRmFreeTet),
   ("tet_oriented", opTetOriented), ("tet_orient", opTetOrient), ("tet_boundary", opTetBoundary),
   ("measures", opMeasures), ("normalize", opNormalize), ("offset", opOffset), ("tet_avg_edge", opTetAvgEdge)]

end LapyVerif.Driver
