import Driver.Proto
import Driver.OpsSolve
import LapyVerif.Model.Curvature
import LapyVerif.Model.Conformal
import LapyVerif.Model.Mobius
namespace LapyVerif.Driver
open LapyVerif

/-- `curv_post n  (ev0 ev1 ev2  e0(3) e1(3) e2(3)  vn(3))*n` → per vertex: umin umax cmin cmax cmean cgauss normal -/
def opCurvPost : P String := do
  let n ← pNat
  let mut out : List String := []
  for _ in [0:n] do
    let ev ← pMany 3 pFloat
    let e0 ← pV3; let e1 ← pV3; let e2 ← pV3
    let vn ← pV3
    let evf := fun j => ev.getD j 0.0
    let ecf := fun j => if j == 0 then e0 else if j == 1 then e1 else e2
    let f := Curvature.post evf ecf vn
    let v (p : V3 Float) := s!"{floatBits p.x} {floatBits p.y} {floatBits p.z}"
    out := out ++ [s!"{v f.umin} {v f.umax} {floatBits f.cmin} {floatBits f.cmax} {floatBits f.cmean} {floatBits f.cgauss} {v f.normal}"]
  return s!"ok {n} " ++ " ".intercalate out

/-- `curv_tria verts tris tumin(nt×3)` → `ok u1s u2s` -/
def opCurvTria : P String := do
  let v ← pVerts; let t ← pTris; let tu ← pMany t.length pV3
  let vtx := vtxOf v
  let r := (t.zip tu.toList).map fun (τ, u) => Curvature.triaDirs (vtx τ.1) (vtx τ.2.1) (vtx τ.2.2) u
  return s!"ok {outV3s (r.map (·.1))} {outV3s (r.map (·.2))}"

def pC : P (Float × Float) := do
  let a ← pFloat; let b ← pFloat
  return (a, b)

def outCs (l : List (Float × Float)) : String :=
  " ".intercalate (toString l.length :: l.map fun c => s!"{floatBits c.1} {floatBits c.2}")

def opStereo : P String := do
  let v ← pVerts
  return s!"ok {outCs (v.toList.map Conformal.stereo)}"

def opInvStereo : P String := do
  let n ← pNat; let w ← pMany n pC
  return s!"ok {outV3s (w.toList.map Conformal.invStereo)}"

def opMobius : P String := do
  let a ← pC; let b ← pC; let c ← pC; let d ← pC
  let n ← pNat; let z ← pMany n pC
  return s!"ok {outV3s (z.toList.map fun w => Conformal.invStereo (Conformal.mobius a b c d w))}"

/-- `darea origverts tris a b c d mapping(verts)` → `ok value` : the objective of mobius_area_correction_spherical -/
def opDArea : P String := do
  let v ← pVerts; let t ← pTris
  let a ← pC; let b ← pC; let c ← pC; let d ← pC
  let mp ← pVerts
  return s!"ok {floatBits (Conformal.dArea (fun x => x.isFinite) (vtxOf v) t a b c d mp.toList)}"

/-- `beltrami planar(verts) tris mapping(verts)` -/
def opBeltrami : P String := do
  let p ← pVerts; let t ← pTris; let m ← pVerts
  let pl := fun i => let q := vtxOf p i; (q.x, q.y)
  let mp := vtxOf m
  return s!"ok {outCs (t.map fun τ => Conformal.beltrami1 (pl τ.1) (pl τ.2.1) (pl τ.2.2) (mp τ.1) (mp τ.2.1) (mp τ.2.2))}"

/-- `lbs planar(verts) tris mus landmarks targets(complex)` → `ok A(eliminated) bre bim` -/
def opLbs : P String := do
  let p ← pVerts; let t ← pTris
  let mus ← pMany t.length pC
  let lm ← pNats
  let tg ← pMany lm.length pC
  let pl := fun i => let q := vtxOf p i; (q.x, q.y)
  let a := Conformal.lbsMatrix pl t mus.toList
  return s!"ok {outCoo (Conformal.lbsEliminate a lm)} {outFloats (Conformal.lbsRhs a p.size lm (tg.toList.map (·.1)))} {outFloats (Conformal.lbsRhs a p.size lm (tg.toList.map (·.2)))}"

def opScmGuard : P String := do
  let e ← pInt; let nv ← pNat
  match Conformal.eulerGuard e with
  | .ok _ => return s!"ok {Conformal.fixnum nv}"
  | .error x => return s!"err {x}"

def curvOps : List (String × P String) :=
  [("curv_post", opCurvPost), ("curv_tria", opCurvTria), ("stereo", opStereo), ("invstereo", opInvStereo), ("mobius", opMobius), ("darea", opDArea),
   ("beltrami", opBeltrami), ("lbs", opLbs), ("scm_guard", opScmGuard)]
end LapyVerif.Driver
