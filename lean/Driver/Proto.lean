import LapyVerif.Model.V3
import LapyVerif.Model.Coo
import LapyVerif.Model.Mesh
/-
  Line protocol of the driver: one request per line, one reply per line.
  Tokens are separated by single blanks; naturals are decimal, integers may carry a leading '-',
  floats are 16-hex-digit IEEE-754 bit patterns (`Float.toString` prints only 6 digits).
  Malformed requests are answered `bad-op`, never with a default value.
-/
namespace LapyVerif.Driver
open LapyVerif

def hexDigit (c : Char) : Option Nat :=
  if '0' ≤ c ∧ c ≤ '9' then some (c.toNat - '0'.toNat)
  else if 'a' ≤ c ∧ c ≤ 'f' then some (c.toNat - 'a'.toNat + 10)
  else if 'A' ≤ c ∧ c ≤ 'F' then some (c.toNat - 'A'.toNat + 10)
  else none

def parseHex (s : String) : Option Nat :=
  if s.isEmpty then none else
  s.foldl (fun acc c => match acc, hexDigit c with
    | some a, some d => some (a * 16 + d)
    | _, _ => none) (some 0)

def parseFloatBits (s : String) : Option Float :=
  if s.length != 16 then none else (parseHex s).map fun n => Float.ofBits n.toUInt64

def hexChar (n : Nat) : Char := if n < 10 then Char.ofNat (n + 48) else Char.ofNat (n - 10 + 97)

def floatBits (f : Float) : String := Id.run do
  let mut n := f.toBits.toNat
  let mut cs : List Char := []
  for _ in [0:16] do
    cs := hexChar (n % 16) :: cs
    n := n / 16
  return String.ofList cs

/-- parser over the token array -/
abbrev P := StateT Nat (ExceptT String (ReaderM (Array String)))

def runP {α} (p : P α) (toks : Array String) (start : Nat := 0) : Except String α :=
  match ReaderT.run (ExceptT.run (StateT.run p start)) toks with
  | Except.ok (a, pos) => if pos == toks.size then Except.ok a else Except.error "trailing tokens"
  | Except.error e => Except.error e

def tok : P String := do
  let i ← get
  let a ← read
  if h : i < a.size then set (i + 1); pure a[i] else throw "missing token"

def pNat : P Nat := do
  let s ← tok
  match s.toNat? with
  | some n => pure n
  | none => throw s!"not a natural: {s}"

def pInt : P Int := do
  let s ← tok
  match s.toInt? with
  | some n => pure n
  | none => throw s!"not an integer: {s}"

def pBool : P Bool := do
  let n ← pNat
  if n == 0 then pure false else if n == 1 then pure true else throw "not a bool"

def pFloat : P Float := do
  let s ← tok
  match parseFloatBits s with
  | some f => pure f
  | none => throw s!"not a float pattern: {s}"

def pMany {α} (n : Nat) (p : P α) : P (Array α) := do
  let mut out : Array α := Array.mkEmpty n
  for _ in [0:n] do
    out := out.push (← p)
  return out

def pV3 : P (V3 Float) := do
  let x ← pFloat; let y ← pFloat; let z ← pFloat
  pure ⟨x, y, z⟩

def pTri : P Tri := do
  let a ← pNat; let b ← pNat; let c ← pNat
  pure (a, b, c)

def pTet : P Tet := do
  let a ← pNat; let b ← pNat; let c ← pNat; let d ← pNat
  pure (a, b, c, d)

/-- `nv` then `3*nv` floats -/
def pVerts : P (Array (V3 Float)) := do
  let n ← pNat
  pMany n pV3

def pTris : P (List Tri) := do
  let n ← pNat
  return (← pMany n pTri).toList

def pTets : P (List Tet) := do
  let n ← pNat
  return (← pMany n pTet).toList

def pFloats : P (List Float) := do
  let n ← pNat
  return (← pMany n pFloat).toList

def pNats : P (List Nat) := do
  let n ← pNat
  return (← pMany n pNat).toList

def vtxOf (a : Array (V3 Float)) : Nat → V3 Float := fun i => a.getD i ⟨0, 0, 0⟩

/-! output helpers -/

def outFloats (l : List Float) : String :=
  " ".intercalate (toString l.length :: l.map floatBits)

def outNats (l : List Nat) : String :=
  " ".intercalate (toString l.length :: l.map toString)

def outInts (l : List Int) : String :=
  " ".intercalate (toString l.length :: l.map toString)

def outV3s (l : List (V3 Float)) : String :=
  " ".intercalate (toString l.length :: l.map fun v => s!"{floatBits v.x} {floatBits v.y} {floatBits v.z}")

/-- raw triplets in model order; the harness sums duplicates (the meaning of `Coo.entry`) -/
def outCoo (m : Coo Float) : String :=
  let l : List ((Nat × Nat) × Float) := m
  " ".intercalate (toString l.length :: l.map fun e => s!"{e.1.1} {e.1.2} {floatBits e.2}")

end LapyVerif.Driver
