import Driver.Proto
import Driver.OpsSolve
import LapyVerif.Model.Spectral
import LapyVerif.Model.Geo
namespace LapyVerif.Driver
open LapyVerif

/-- `shift_sys tri|tet lump verts elems sigma` → `ok shiftMat` -/
def opShiftSys : P String := do
  let (_, a, b) ← pFemMats
  let σ ← pFloat
  return s!"ok {outCoo (Spectral.shiftMat σ a b)}"

def opReweight : P String := do
  let ev ← pFloats
  return s!"ok {outFloats (Spectral.reweight ev)}"

def opDistance : P String := do
  let a ← pFloats; let b ← pFloats
  return s!"ok {floatBits (Spectral.distance a b)}"

/-- `normalize_ev method isTet evals area vol` -/
def opNormalizeEv : P String := do
  let m ← tok; let isTet ← pBool; let ev ← pFloats; let area ← pFloat; let vol ← pFloat
  let meth ← (if m == "surface" then pure Spectral.Method.surface else if m == "volume" then pure .volume
              else if m == "geometry" then pure .geometry else throw "method")
  return s!"ok {outFloats (Spectral.normalizeEv meth isTet ev area vol)}"

def opDict : P String := do
  let isTet ← pBool; let ne ← pNat; let nv ← pNat; let k ← pNat
  return "ok " ++ " ".intercalate ((Spectral.dictFields isTet ne nv k).map fun (n, v) => s!"{n}={v}")

/-- `geo_rhs tri|tet verts elems f` and `rot_rhs verts tris f` → `ok coo` -/
def opGeoRhs : P String := do
  let kind ← tok; let v ← pVerts
  if kind == "tri" then
    let t ← pTris; let f ← pFun v.size
    return s!"ok {outCoo (Geo.geoRhsTri (vtxOf v) t f)}"
  else
    let t ← pTets; let f ← pFun v.size
    return s!"ok {outCoo (Geo.geoRhsTet (vtxOf v) t f)}"

def opRotRhs : P String := do
  let v ← pVerts; let t ← pTris; let f ← pFun v.size
  return s!"ok {outCoo (Geo.rotRhs (vtxOf v) t f)}"

def opShiftMin : P String := do
  let x ← pFloats
  return s!"ok {outFloats (Geo.shiftMin x)}"

def spectralOps : List (String × P String) :=
  [("shift_sys", opShiftSys), ("reweight", opReweight), ("distance", opDistance), ("normalize_ev", opNormalizeEv), ("dict", opDict),
   ("geo_rhs", opGeoRhs), ("rot_rhs", opRotRhs), ("shift_min", opShiftMin)]
end LapyVerif.Driver
