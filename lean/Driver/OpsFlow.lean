import Driver.Proto
import Driver.OpsSolve
import LapyVerif.Model.Flow
namespace LapyVerif.Driver
open LapyVerif

/-- `flow_sys step v0n vk tris` → `ok matrix rhs` -/
def opFlowSys : P String := do
  let step ← pFloat; let v0 ← pVerts; let vk ← pVerts; let t ← pTris
  let a0 := Fem.stiffTria (vtxOf v0) t
  return s!"ok {outCoo (Flow.stepMatrix step a0 (vtxOf vk) t)} {outV3s (Flow.stepRhs vk.toList t)}"

/-- `flow_diff vlast tris dv` → `ok diff` (mass of the iterate before the step) -/
def opFlowDiff : P String := do
  let vl ← pVerts; let t ← pTris; let dv ← pVerts
  return s!"ok {floatBits (Flow.stepDiff (Fem.massTriaStandalone true (vtxOf vl) t) dv.toList)}"

def opProject100 : P String := do
  let v ← pVerts
  return s!"ok {outV3s (v.toList.map Flow.project100)}"

def opGates : P String := do
  let a ← pFloat; let b ← pFloat; let c ← pFloat
  match Flow.gates a b c with
  | none => return "ok"
  | some m => return s!"err ValueError {m}"

def opAlign : P String := do
  let ev ← pFloats; let co ← pFloats
  return s!"ok {floatBits (Flow.axisDiff ev co)} {outFloats (Flow.alignAxis ev co)}"

/-- `embed verts e1 e2 e3` → `ok embedded-vertices spatvol` | `err ValueError msg` : spectral embedding of tria_spherical_project -/
def opEmbed : P String := do
  let v ← pVerts; let e1 ← pFloats; let e2 ← pFloats; let e3 ← pFloats
  match Flow.embed v.toList e1 e2 e3 with
  | .ok (vn, sv) => return s!"ok {outV3s vn} {floatBits sv}"
  | .error m => return s!"err ValueError {m}"

def flowOps : List (String × P String) :=
  [("embed", opEmbed), ("flow_sys", opFlowSys), ("flow_diff", opFlowDiff), ("project100", opProject100), ("gates", opGates), ("align", opAlign)]
end LapyVerif.Driver
