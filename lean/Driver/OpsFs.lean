import Driver.Proto
import Driver.OpsIO
import LapyVerif.Model.FsSurf
namespace LapyVerif.Driver
open LapyVerif FsSurf

/-- bytes cross the protocol as the driver's byte strings (one `Char < 256` per byte, hex on the wire) -/
def bytesOfStr (s : String) : Bytes := s.toList.map fun c => c.toNat.toUInt8
def strOfBytes (b : Bytes) : String := String.ofList (b.map fun x => Char.ofNat x.toNat)

def hex8 (n : Nat) : String := Id.run do
  let mut m := n
  let mut cs : List Char := []
  for _ in [0:8] do
    cs := hexChar (m % 16) :: cs
    m := m / 16
  return String.ofList cs

def pWord : P UInt32 := do
  let s ← tok
  if s.length != 8 then throw s!"not a 32-bit pattern: {s}" else
  match parseHex s with
  | some n => pure n.toUInt32
  | none => throw s!"not a 32-bit pattern: {s}"

def pToks : P (List Bytes) := do
  let l ← pLines
  return l.map bytesOfStr

def outToks (l : List Bytes) : String := outStrs (l.map strOfBytes)

def outInfo : Option VolInfo → String
  | none => "none"
  | some vi =>
    s!"info {vi.head.length}" ++ String.join (vi.head.map fun z => s!" {z}") ++
    s!" {hexStr (strOfBytes vi.valid)} {hexStr (strOfBytes vi.filename)} {outToks vi.volume} {outToks vi.voxelsize} " ++
    s!"{outToks vi.xras} {outToks vi.yras} {outToks vi.zras} {outToks vi.cras}"

def pInfo : P (Option VolInfo) := do
  let t ← tok
  if t == "none" then return none
  else if t == "info" then
    let k ← pNat
    let head ← pMany k pInt
    let valid ← pStr; let filename ← pStr
    let volume ← pToks; let voxelsize ← pToks; let xras ← pToks; let yras ← pToks; let zras ← pToks; let cras ← pToks
    return some { head := head.toList, valid := bytesOfStr valid, filename := bytesOfStr filename, volume := volume,
                  voxelsize := voxelsize, xras := xras, yras := yras, zras := zras, cras := cras }
  else throw "info"

def fsFailStr : FsFail → String
  | .valueError => "err ValueError"
  | .indexError => "err IndexError"
  | .osError => "err OSError"
  | .nonAscii => "err NonAscii"

/-- `fs_read <hex of all bytes | ->` → `ok <stamp hex|-> <vnum> <3·vnum words> <fnum> <3·fnum ints> <info>` -/
def opFsRead : P String := do
  let s ← pStr
  match readFs (bytesOfStr s) with
  | .error e => return fsFailStr e
  | .ok r =>
    return s!"ok {hexStr (strOfBytes r.stamp)} {r.coords.length / 3}" ++ String.join (r.coords.map fun w => " " ++ hex8 w.toNat) ++
      s!" {r.faces.length / 3}" ++ String.join (r.faces.map fun z => s!" {z}") ++ " " ++ outInfo r.info

/-- `fs_write <stamp hex|-> <vnum> <3·vnum words> <fnum> <3·fnum ints> <info>` → `ok <hex of the file bytes>` -/
def opFsWrite : P String := do
  let stamp ← pStr
  let vnum ← pNat
  let coords ← pMany (3 * vnum) pWord
  let fnum ← pNat
  let faces ← pMany (3 * fnum) pInt
  let info ← pInfo
  let s : Surf := { stamp := bytesOfStr stamp, coords := coords.toList, faces := faces.toList, info := info }
  return s!"ok {hexStr (strOfBytes (writeFs s))}"

def fsOps : List (String × P String) := [("fs_read", opFsRead), ("fs_write", opFsWrite)]
end LapyVerif.Driver
