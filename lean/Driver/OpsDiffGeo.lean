import Driver.Proto
import LapyVerif.Model.DiffGeo
namespace LapyVerif.Driver
open LapyVerif

def pFun (n : Nat) : P (Nat → Float) := do
  let a ← pMany n pFloat
  return fun i => a.getD i 0.0

def opGradTri : P String := do
  let v ← pVerts; let t ← pTris; let f ← pFun v.size
  return s!"ok {outV3s (DiffGeo.triGrad (vtxOf v) t f)}"

def opDivTri : P String := do
  let v ← pVerts; let t ← pTris; let x ← pMany t.length pV3
  return s!"ok {outCoo (DiffGeo.triDiv (vtxOf v) t x.toList)}"

def opDivTri2 : P String := do
  let v ← pVerts; let t ← pTris; let x ← pMany t.length pV3
  return s!"ok {outCoo (DiffGeo.triDiv2 (vtxOf v) t x.toList)}"

def opGradTet : P String := do
  let v ← pVerts; let t ← pTets; let f ← pFun v.size
  return s!"ok {outV3s (DiffGeo.tetGrad (vtxOf v) t f)}"

def opDivTet : P String := do
  let v ← pVerts; let t ← pTets; let x ← pMany t.length pV3
  return s!"ok {outCoo (DiffGeo.tetDiv (vtxOf v) t x.toList)}"

def opDispatch : P String := do
  let n ← tok
  match DiffGeo.dispatchKind n with
  | .ok k => return s!"ok {k}"
  | .error e => return s!"err {e}"

def diffGeoOps : List (String × P String) :=
  [("grad_tri", opGradTri), ("div_tri", opDivTri), ("div_tri2", opDivTri2), ("grad_tet", opGradTet),
   ("div_tet", opDivTet), ("dispatch", opDispatch)]

end LapyVerif.Driver
