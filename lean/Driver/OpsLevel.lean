import Driver.Proto
import Driver.OpsDiffGeo
import LapyVerif.Model.Level
namespace LapyVerif.Driver
open LapyVerif

/-- `level_length verts tris f levels` → `ok lengths` -/
def opLevelLength : P String := do
  let v ← pVerts; let t ← pTris; let f ← pFun v.size; let ls ← pFloats
  return s!"ok {outFloats (ls.map fun l => Level.levelLength (vtxOf v) t f l)}"

/-- `level_path verts tris f level npoints(0 = none)` → `ok pts length trias` | `err ValueError` -/
def opLevelPath : P String := do
  let v ← pVerts; let t ← pTris; let f ← pFun v.size; let l ← pFloat; let np ← pNat
  match Level.levelPath (vtxOf v) t f l with
  | .valueError => return "err ValueError"
  | .ok pts len tr =>
    let pts' := if np == 0 then pts else Level.resample pts np
    return s!"ok {outV3s pts'} {floatBits len} {outNats tr}"

def levelOps : List (String × P String) := [("level_length", opLevelLength), ("level_path", opLevelPath)]
end LapyVerif.Driver
