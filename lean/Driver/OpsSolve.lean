import Driver.Proto
import Driver.OpsDiffGeo
import LapyVerif.Model.Poisson
import LapyVerif.Model.Measures
namespace LapyVerif.Driver
open LapyVerif

/-- matrices of a mesh: `tri|tet lump verts elems` -/
def pFemMats : P (Nat × Coo Float × Coo Float) := do
  let kind ← tok
  let lump ← pBool
  let v ← pVerts
  if kind == "tri" then
    let t ← pTris
    return (v.size, Fem.stiffTria (vtxOf v) t, Fem.massTria lump (vtxOf v) t)
  else if kind == "tet" then
    let t ← pTets
    return (v.size, Fem.stiffTet (vtxOf v) t, Fem.massTet lump (vtxOf v) t)
  else throw "kind"

/-- `poisson_sys <mats> eyeMass h[dim] dLen didx ddat nLen nidx ndat` → `err ValueError` | `ok free a b` -/
def opPoissonSys : P String := do
  let (dim, a, b) ← pFemMats
  let eyeMass ← pBool
  let h ← pFun dim
  let dLen ← pNat; let didx ← pNats; let ddat ← pFloats
  let nLen ← pNat; let nidx ← pNats; let ndat ← pFloats
  let bm := if eyeMass then Poisson.eye dim else b
  match Poisson.system a bm dim h dLen didx ddat nLen nidx ndat with
  | none => return "err ValueError"
  | some (free, ar, br) => return s!"ok {outNats free} {outCoo ar} {outFloats br}"

/-- `poisson_fill dim didx ddat x` → `ok xfull` -/
def opPoissonFill : P String := do
  let dim ← pNat; let didx ← pNats; let ddat ← pFloats; let x ← pFloats
  return s!"ok {outFloats (Poisson.fill dim didx ddat (Poisson.freeIdx dim didx) x)}"

def solveOps : List (String × P String) := [("poisson_sys", opPoissonSys), ("poisson_fill", opPoissonFill)]

end LapyVerif.Driver
