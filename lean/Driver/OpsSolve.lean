import Driver.Proto
import Driver.OpsDiffGeo
import Driver.OpsFem
import LapyVerif.Model.Poisson
import LapyVerif.Model.Measures
import LapyVerif.Model.Heat
namespace LapyVerif.Driver
open LapyVerif

/-- matrices of a mesh: `tri|tet lump verts elems` -/
def pFemMats : P (Nat × Coo Float × Coo Float) := do
  let kind ← tok
  let lump ← pBool
  let v ← pVerts
  if kind == "tri" then
    let t ← pTris
    return (v.size, Fem.stiffTria (vtxOf v) t, Fem.massTria lump (vtxOf v) t)
  else if kind == "tet" then
    let t ← pTets
    return (v.size, Fem.stiffTet (vtxOf v) t, Fem.massTet lump (vtxOf v) t)
  else throw "kind"

/-- `poisson_sys <mats> eyeMass h[dim] dLen didx ddat nLen nidx ndat` → `err ValueError` | `ok free a b` -/
def opPoissonSys : P String := do
  let (dim, a, b) ← pFemMats
  let eyeMass ← pBool
  let h ← pFun dim
  let dLen ← pNat; let didx ← pNats; let ddat ← pFloats
  let nLen ← pNat; let nidx ← pNats; let ndat ← pFloats
  let bm := if eyeMass then Poisson.eye dim else b
  match Poisson.system a bm dim h dLen didx ddat nLen nidx ndat with
  | none => return "err ValueError"
  | some (free, ar, br) => return s!"ok {outNats free} {outCoo ar} {outFloats br}"

/-- `poisson_fill dim didx ddat x` → `ok xfull` -/
def opPoissonFill : P String := do
  let dim ← pNat; let didx ← pNats; let ddat ← pFloats; let x ← pFloats
  return s!"ok {outFloats (Poisson.fill dim didx ddat (Poisson.freeIdx dim didx) x)}"

def solveOps : List (String × P String) := [("poisson_sys", opPoissonSys), ("poisson_fill", opPoissonFill)]

end LapyVerif.Driver

namespace LapyVerif.Driver
open LapyVerif

/-- `heat_sys tri|tet verts elems m vids` → `ok t hmat b0` -/
def opHeatSys : P String := do
  let kind ← tok
  let v ← pVerts
  let vtx := vtxOf v
  if kind == "tri" then
    let t ← pTris; let m ← pFloat; let vids ← pNats
    let tt := Heat.time m (Measures.avgEdgeLength vtx t)
    return s!"ok {floatBits tt} {outCoo (Heat.heatMat tt (Fem.stiffTria vtx t) (Fem.massTria true vtx t))} {outFloats (Heat.seedVec v.size vids)}"
  else
    let t ← pTets; let m ← pFloat; let vids ← pNats
    let tt := Heat.time m (Measures.tetAvgEdgeLength vtx t)
    return s!"ok {floatBits tt} {outCoo (Heat.heatMat tt (Fem.stiffTet vtx t) (Fem.massTet true vtx t))} {outFloats (Heat.seedVec v.size vids)}"

/-- `heat_sys_aniso verts tris m vids a0 a1 nt×(u1 u2 c1 c2)` : the system of `diffusion(tria, vids, m, aniso=(a0,a1))` -/
def opHeatSysAniso : P String := do
  let v ← pVerts
  let vtx := vtxOf v
  let t ← pTris; let m ← pFloat; let vids ← pNats; let a0 ← pFloat; let a1 ← pFloat
  let cur ← pCur t.length
  let tt := Heat.time m (Measures.avgEdgeLength vtx t)
  let (a, b) := Fem.solverAniso true vtx t a0 a1 cur
  return s!"ok {floatBits tt} {outCoo (Heat.heatMat tt a b)} {outFloats (Heat.seedVec v.size vids)}"

def pMatrix : P (List (List Float)) := do
  let r ← pNat; let c ← pNat
  let rows ← pMany r (do let x ← pMany c pFloat; pure x.toList)
  return rows.toList

def outMatrix (m : List (List Float)) : String :=
  " ".intercalate (toString m.length :: toString (m.headD []).length :: m.map fun r => " ".intercalate (r.map floatBits))

/-- `kernel times vfix evecs(matrix) evals n` -/
def opKernel : P String := do
  let ts ← pFloats; let vfix ← pNat; let ev ← pMatrix; let la ← pFloats; let n ← pNat
  return s!"ok {outMatrix (Heat.kernel ts vfix ev la n)}"

def opDiagonal : P String := do
  let ts ← pFloats; let xs ← pNats; let ev ← pMatrix; let la ← pFloats; let n ← pNat
  return s!"ok {outMatrix (Heat.diagonal ts xs ev la n)}"

def heatOps : List (String × P String) := [("heat_sys", opHeatSys), ("heat_sys_aniso", opHeatSysAniso), ("kernel", opKernel), ("diagonal", opDiagonal)]

end LapyVerif.Driver
