import Driver.Proto
import Driver.OpsFem
import Driver.OpsDiffGeo
import Driver.OpsTopo
import Driver.OpsMesh
import Driver.OpsSolve
import Driver.OpsHistory
import Driver.OpsTransfer
import Driver.OpsSpectral
import Driver.OpsCurv
import Driver.OpsLevel
import Driver.OpsFlow
import Driver.OpsIO
import Driver.OpsFs
open LapyVerif.Driver

def allOps : List (String × P String) := femOps ++ diffGeoOps ++ topoOps ++ meshOps ++ solveOps ++ heatOps ++ historyOps ++ ctorOps ++ transferOps ++ spectralOps ++ curvOps ++ levelOps ++ flowOps ++ ioOps ++ fsOps

def handle (line : String) : String :=
  let toks := ((line.trimAscii.toString.splitOn " ").filter (· ≠ "")).toArray
  if h : 0 < toks.size then
    match allOps.lookup toks[0] with
    | some p =>
      match runP p toks 1 with
      | .ok s => s
      | .error e => s!"bad-op {e}"
    | none => "bad-op unknown"
  else "bad-op empty"

partial def loop (h : IO.FS.Stream) (out : IO.FS.Stream) : IO Unit := do
  let line ← h.getLine
  if line.isEmpty then return ()
  out.putStrLn (handle line)
  out.flush
  loop h out

def main : IO Unit := do loop (← IO.getStdin) (← IO.getStdout)
