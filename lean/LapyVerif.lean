-- root of the library: importing the audit modules pulls in every model, lemma, bridge and property file
import LapyVerif.Audit.C01
import LapyVerif.Audit.C02
import LapyVerif.Audit.C03
import LapyVerif.Audit.C04
import LapyVerif.Audit.C05
import LapyVerif.Audit.C06
import LapyVerif.Audit.C07
import LapyVerif.Audit.C09
import LapyVerif.Audit.C10
import LapyVerif.Audit.C11
import LapyVerif.Audit.C12
import LapyVerif.Audit.C13
import LapyVerif.Audit.C15
import LapyVerif.Audit.C20
