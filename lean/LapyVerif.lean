import LapyVerif.Model.Scalar
import LapyVerif.Model.V3
import LapyVerif.Model.Coo
import LapyVerif.Model.Mesh
import LapyVerif.Model.Fem
