"""Reproduces the failing input of each finding F1..F13 (DESIGN.md section 7) on /repo.

Run: /venv/bin/python notes/findings_demo.py      (prints one line per finding: OK / FAIL)
Every call runs in a killable worker because F1 is a non-termination.
"""
import io
import multiprocessing as mp
import os
import sys
import tempfile
import contextlib

sys.path.insert(0, os.environ.get("LAPY_REPO", "/repo"))
import numpy as np  # noqa: E402


def ico():
    p = (1 + 5 ** 0.5) / 2
    v = np.array([[-1, p, 0], [1, p, 0], [-1, -p, 0], [1, -p, 0], [0, -1, p], [0, 1, p],
                  [0, -1, -p], [0, 1, -p], [p, 0, -1], [p, 0, 1], [-p, 0, -1], [-p, 0, 1]], float)
    t = np.array([[0, 11, 5], [0, 5, 1], [0, 1, 7], [0, 7, 10], [0, 10, 11], [1, 5, 9], [5, 11, 4],
                  [11, 10, 2], [10, 7, 6], [7, 1, 8], [3, 9, 4], [3, 4, 2], [3, 2, 6], [3, 6, 8],
                  [3, 8, 9], [4, 9, 5], [2, 4, 11], [6, 2, 10], [8, 6, 7], [9, 8, 1]])
    return v, t


def grid(n=3):
    xs = np.arange(n + 1.0)
    v = np.array([[x, y, 0.0] for y in xs for x in xs])
    t = []
    for y in range(n):
        for x in range(n):
            a = y * (n + 1) + x
            t += [[a, a + 1, a + n + 2], [a, a + n + 2, a + n + 1]]
    return v, np.array(t)


def cube_tets():
    v = np.array([[0, 0, 0], [1, 0, 0], [1, 1, 0], [0, 1, 0], [0, 0, 1], [1, 0, 1], [1, 1, 1], [0, 1, 1]], float)
    t = np.array([[0, 1, 3, 4], [1, 2, 3, 6], [1, 3, 4, 6], [1, 4, 5, 6], [3, 4, 6, 7]])
    return v, t


def F1():
    from lapy import TriaMesh
    v, t = ico()
    v2 = np.vstack([v, v + 10])
    t2 = np.vstack([t, t + 12])
    t2[3] = t2[3][[1, 0, 2]]
    m = TriaMesh(v2, t2)
    m.orient_()
    return m.is_oriented()


def F2():
    from lapy import TriaMesh
    v, t = grid(1)
    v, t = grid(2)
    m = TriaMesh(v, t)
    deg = m.vertex_degrees()
    adj = [set() for _ in v]
    for a, b, c in t:
        adj[a] |= {b, c}; adj[b] |= {a, c}; adj[c] |= {a, b}
    return list(deg) == [len(s) for s in adj]


def F3():
    from lapy import heat
    rng = np.random.default_rng(0)
    evecs = rng.normal(size=(7, 5)); evals = np.abs(rng.normal(size=5))
    tt = np.array([0.1, 0.5, 1.0]); n = 4; q = 2
    h = heat.kernel(tt, q, evecs, evals, n)
    ref = np.array([[sum(np.exp(-evals[j] * s) * evecs[p, j] * evecs[q, j] for j in range(n)) for s in tt] for p in range(7)])
    d = heat.diagonal(tt, np.array([1, 3]), evecs, evals, n)
    refd = np.array([[sum(np.exp(-evals[j] * s) * evecs[p, j] ** 2 for j in range(n)) for s in tt] for p in (1, 3)])
    return np.allclose(h, ref) and np.allclose(d, refd)


def F4():
    from lapy import TriaMesh, conformal
    v, t = grid(2)
    m = TriaMesh(v, t)
    mu = conformal.beltrami_coefficient(TriaMesh(v, t), v * np.array([2.0, 1.0, 1.0]))
    return np.allclose(mu, 1 / 3)


def F5():
    from lapy import TriaMesh, shapedna
    v, t = ico()
    t = t[:, [1, 0, 2]]
    m = TriaMesh(v, t)
    t0 = m.t.copy()
    shapedna.normalize_ev(m, np.array([1.0, 2.0]), method="volume")
    return np.array_equal(m.t, t0)


def F6():
    from lapy import TetMesh
    v, t = cube_tets()
    v = np.vstack([[[5, 5, 5]], v]); t = t + 1
    m = TetMesh(v, t)
    m.rm_free_vertices_()
    f = TetMesh(m.v, m.t)
    return (m.adj_sym != f.adj_sym).nnz == 0 and m.adj_sym.shape == f.adj_sym.shape


def F7():
    from lapy import TetMesh, diffgeo
    v, t = cube_tets()
    m = TetMesh(v, t)
    m.orient_()
    assert m.is_oriented()
    a = np.array([1.0, 2.0, -3.0])
    g = diffgeo.tet_compute_gradient(m, m.v @ a + 0.5)
    f = np.sin(np.arange(8.0)); X = np.cos(np.arange(15.0)).reshape(5, 3)
    vol = np.abs(np.einsum('ij,ij->i', np.cross(m.v[m.t[:, 1]] - m.v[m.t[:, 0]], m.v[m.t[:, 2]] - m.v[m.t[:, 0]]), m.v[m.t[:, 3]] - m.v[m.t[:, 0]])) / 6
    lhs = f @ diffgeo.tet_compute_divergence(m, X)
    rhs = -np.sum(vol * np.einsum('ij,ij->i', X, diffgeo.tet_compute_gradient(m, f)))
    return np.allclose(g, a) and np.isclose(lhs, rhs)


def F8():
    from lapy import io as lio
    d = tempfile.mkdtemp()
    fn = os.path.join(d, "a.ev")
    data = {"Eigenvalues": np.array([0.0, 1.5]), "Eigenvectors": np.array([[1.0], [2.0], [3.0]]), "TimePre": 7}
    lio.write_ev(fn, data)
    r = lio.read_ev(fn)
    return r.get("TimePre") == 7 and np.array_equal(np.asarray(r["Eigenvectors"]).reshape(3, 1), data["Eigenvectors"])


def F10():
    from lapy import TriaMesh, conformal
    v, t = ico()
    m = TriaMesh(v, t)
    for _ in range(2):
        m.refine_()
    m.orient_()
    assert m.volume() > 0
    s = conformal.spherical_conformal_map(m)
    return TriaMesh(s, m.t).volume() > 0


def F11():
    from lapy import TriaMesh
    v, t = ico()
    m = TriaMesh(v, t)
    m.orient_()
    r = m.edges(with_boundary=True)
    return len(r) in (2, 4)


def F12():
    from lapy import TetMesh
    v, t = cube_tets()
    d = tempfile.mkdtemp(); fn = os.path.join(d, "a.msh")
    with open(fn, "w") as f:
        f.write("$MeshFormat\n2.2 0 8\n$EndMeshFormat\n$Nodes\n%d\n" % len(v))
        for i, p in enumerate(v):
            f.write("%d %g %g %g\n" % (i + 1, *p))
        f.write("$EndNodes\n$Elements\n%d\n" % len(t))
        for i, q in enumerate(t):
            f.write("%d 4 2 0 1 %d %d %d %d\n" % (i + 1, *(q + 1)))
        f.write("$EndElements\n")
    m = TetMesh.read_gmsh(fn)
    return np.array_equal(m.t, t)


def F13():
    from lapy import TriaMesh
    d = tempfile.mkdtemp(); fn = os.path.join(d, "a.vtk")
    with open(fn, "w") as f:
        f.write("# vtk DataFile Version 1.0\nx\nASCII\nDATASET POLYDATA\nPOINTS 6 float\n0 0 0\n1 0 0\n0 1 0\n1 1 0\n0 2 0\n1 2 0\nTRIANGLE_STRIPS 1 7\n6 0 1 2 3 4 5\n")
    m = TriaMesh.read_vtk(fn)
    return m is not None and m.t.shape == (4, 3)


def _run(name, q):
    try:
        with contextlib.redirect_stdout(io.StringIO()):
            ok = globals()[name]()
        q.put("OK" if ok else "FAIL")
    except BaseException as e:  # noqa
        q.put("FAIL (%s: %s)" % (type(e).__name__, str(e)[:80]))


if __name__ == "__main__":
    names = sys.argv[1:] or ["F1", "F2", "F3", "F4", "F5", "F6", "F7", "F8", "F10", "F11", "F12", "F13"]
    for n in names:
        q = mp.Queue()
        p = mp.Process(target=_run, args=(n, q))
        p.start(); p.join(20)
        if p.is_alive():
            p.kill(); res = "FAIL (timeout: does not terminate)"
        else:
            res = q.get() if not q.empty() else "FAIL (crash)"
        print(n, res)
